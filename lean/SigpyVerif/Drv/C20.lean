import SigpyVerif.Model.Py
import SigpyVerif.Model.Proto
import SigpyVerif.Model.C20
namespace SigpyVerif.Drv.C20
open SigpyVerif SigpyVerif.Proto SigpyVerif.C20

def getRat (toks : List String) (k : String) : Option Rat := (kv toks k).bind parseRat?
def getNat (toks : List String) (k : String) : Option Nat := ((kv toks k).bind parseInt?).map Int.toNat
def getIdx (toks : List String) : List Nat := (((kv toks "idx").bind parseIntList?).getD []).map Int.toNat

def replyDesign (d x : Design Rat) (idx : List Nat) : String :=
  let w := d.wave
  let smp := idx.map fun i => w.getD i 0
  s!"ok r={d.ramppts} nflat={d.nflat} len={w.length} scale={fmtRat d.scale} sum={fmtRat w.sum} flatsum={fmtRat d.flat.sum} xr={x.ramppts} xnflat={x.nflat} xlen={x.wave.length} | {fmtRatList smp}"

/-- per-site overrides: comma separated, `x` = none -/
def parseOptRats (s : Option String) : Option (List (Option Rat)) :=
  match s with
  | none => some []
  | some s => (s.splitOn ",").mapM fun t => if t == "x" then some none else (parseRat? t).map some

def parseOptBools (s : Option String) : Option (List (Option Bool)) :=
  match s with
  | none => some []
  | some s => (s.splitOn ",").mapM fun t =>
      if t == "x" then some none else if t == "1" then some (some true) else if t == "0" then some (some false) else none

/-- blips of one axis: `;`-separated, each `none` or an integer list -/
def parseBlips (s : String) : Option (List (Option (List Rat))) :=
  if s == "-" then some [] else
  (s.splitOn ";").mapM fun t => if t == "none" then some none else (parseRatList? t).map some

/-- protocol handler for property C20 (tokens after the property id). -/
def handle (toks : List String) : String :=
  match toks.head? with
  | some "trap" =>
    match getRat toks "area", getRat toks "gmax", getRat toks "dgdt", getRat toks "dt", getNat toks "hc" with
    | some area, some gmax, some dgdt, some dt, some hc =>
      if !(0 < area && 0 < gmax && 0 < dgdt && 0 < dt) then "err domain" else
      if !trapHintOk area dgdt dt hc then "err bad-hint" else
      -- `x…` fields: the exact design (`trapGradRat`, the object of `trap_meets_limits_rat`); main fields: the design
      -- along the float code's path (per-site float arguments `cf`, forced comparisons `lf`, float hint `hcf`)
      match parseOptRats (kv toks "cf"), parseOptBools (kv toks "lf") with
      | some cf, some lf =>
        replyDesign (trapGrad (ratOps ((getNat toks "hcf").getD hc) 0 cf lf) area gmax dgdt dt)
          (trapGradRat hc area gmax dgdt dt) (getIdx toks)
      | _, _ => "err bad-op"
    | _, _, _, _, _ => "err bad-op"
  | some "mintrap" =>
    match getRat toks "area", getRat toks "gmax", getRat toks "dgdt", getRat toks "dt", getNat toks "hf" with
    | some area, some gmax, some dgdt, some dt, some hf =>
      if !(0 < area && 0 < gmax && 0 < dgdt && 0 < dt) then "err domain" else
      if !minHintOk area dgdt dt hf then "err bad-hint" else
      match parseOptRats (kv toks "cf"), parseOptBools (kv toks "lf") with
      | some cf, some lf =>
        match minTrapGrad (ratOps 0 ((getNat toks "hff").getD hf) cf lf) area gmax dgdt dt, minTrapGradRat hf area gmax dgdt dt with
        | some d, some x => replyDesign d x (getIdx toks)
        | some d, none => replyDesign d ⟨0, 0, 0⟩ (getIdx toks)
        | none, _ => "err value"
      | _, _ => "err bad-op"
    | _, _, _, _, _ => "err bad-op"
  | some "spokes" =>
    let waves (k : String) : Option (List (List Rat)) :=
      (kv toks k).bind fun s => if s == "-" then some [] else (s.splitOn ";").mapM parseRatList?
    match getNat toks "n", (kv toks "kx").bind parseRatList?, (kv toks "ky").bind parseRatList?, getRat toks "tbw",
        getRat toks "slthick", getRat toks "gts" with
    | some n, some kx, some ky, some tbw, some sl, some gts =>
      match (kv toks "mk").bind parseRatList?, waves "mw", (kv toks "tk").bind parseRatList?, waves "tw" with
      | some mk, some mw, some tk, some tw =>
        if kx.length != n || ky.length != n || mk.length != mw.length || tk.length != tw.length then "err bad-op" else
        match spokesGradRat mk mw tk tw kx ky n tbw sl gts with
        | some (gx, gy, gz) => s!"ok {fmtRatList gx} | {fmtRatList gy} | {fmtRatList gz}"
        | none => "err value"
      | _, _, _, _ => "err bad-op"
    | _, _, _, _, _, _ => "err bad-op"
  | some "spokesaxis" =>
    match getNat toks "nsub", getNat toks "nref", (kv toks "blips").bind parseBlips with
    | some nsub, some nref, some bl => s!"ok {fmtRatList (spokesAxis nsub nref bl)}"
    | _, _, _ => "err bad-op"
  | some "spokesgz" =>
    match (kv toks "sub").bind parseRatList?, (kv toks "ref").bind parseRatList?, getNat toks "n" with
    | some sub, some ref, some n => s!"ok {fmtRatList (spokesGz sub ref n)}"
    | _, _, _ => "err bad-op"
  | _ => "err bad-op"
end SigpyVerif.Drv.C20
