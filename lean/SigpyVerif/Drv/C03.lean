import SigpyVerif.Model.Py
import SigpyVerif.Model.Proto
import SigpyVerif.Model.C03
import SigpyVerif.Model.C03Np
import SigpyVerif.Gen.StackParams
import SigpyVerif.Gen.LinopApply
import SigpyVerif.Model.C03Gen
/-
  Line protocol of property C03.

    C03 eval xs=<shape> x=<gaussian rationals> <prog…>
        prog = reverse-polish construction of the tree, one token per node:
          L:<oshape>:<ishape>:<dense matrix, row-major>     leaf (measured dense matrix; inputs of the advertised shape only)
          I:<shape>   R:<oshape>:<ishape>                   Identity / Reshape transcribed (`_apply` on ANY input shape:
                                                            used by the off-rank stream that exercises the zip guards)
          C:<n>  A:<n>            Compose / Add of the top n operators (first pushed = linops[0])
          ML:<a>  MR:<a>  N  S    a*A, A*a, -A, A-B
        every operator is built with the constructors of Model/C03Gen.lean, i.e. from the TRANSLATOR-GENERATED guards,
        parameter functions and `_apply` bodies (Gen/StackParams.lean, Gen/LinopApply.lean); the top-level application is the
        generated `Linop.__call__`
          H:<n>:<axis>  V:<n>:<axis>  D:<n>:<oaxis>:<iaxis>      axis = int | none
        reply: `ok <oshape> <ishape> <output shape>|<output data>`   (apply succeeded)
               `ok <oshape> <ishape> apply-error`                    (built, application raises)
               `err build`                                           (a constructor raises)
    C03 params shapes=<s1>|<s2>|… axis=<int|none>
        reply: `ok <shape> <indices>` | `err build`                  (the model's `stackParams`)
    C03 gparams fn=<h|v> shapes=<s1>|<s2>|… axis=<int|none>
        same reply, computed by the translator-generated `Gen.hstackParams` / `Gen.vstackParams`
    C03 guard got=<ints> adv=<ints>
        reply: `ok <i> <o> <z>` (1 = passes) for `Gen.checkIshape`, `Gen.checkOshape`, the model's `zipGuard`
-/
namespace SigpyVerif.Drv.C03
open SigpyVerif SigpyVerif.Proto SigpyVerif.C03

def toG (z : Rat × Rat) : GRat := ⟨z.1, z.2⟩
def fmtG (z : GRat) : String := fmtCRat (z.re, z.im)
def fmtGList (l : List GRat) : String := if l.isEmpty then "-" else ",".intercalate (l.map fmtG)
def fmtShape (s : List Nat) : String := fmtIntList (s.map Int.ofNat)

def parseAxis? (s : String) : Option (Option Int) :=
  if s == "none" then some none else (parseInt? s).map some

def parseNat? (s : String) : Option Nat := (parseInt? s).bind fun i => if 0 ≤ i then some i.toNat else none

def chunkRows (k : Nat) : Nat → List GRat → List (List GRat)
  | 0, _ => []
  | m + 1, l => l.take k :: chunkRows k m (l.drop k)

/-- pop the top `n` operators (returned in push order) -/
def popN (n : Nat) (st : List (Op GRat)) : Option (List (Op GRat) × List (Op GRat)) :=
  if n ≤ st.length then some ((st.take n).reverse, st.drop n) else none

inductive Step | ok (st : List (Op GRat)) | build | bad

def pushR (r : Except Err (Op GRat)) (st : List (Op GRat)) : Step :=
  match r with
  | .ok A => .ok (A :: st)
  | .error _ => .build

def step (st : List (Op GRat)) (tok : String) : Step :=
  match tok.splitOn ":" with
  | ["L", o, i, d] =>
    match parseIntList? o, parseIntList? i, parseCRatList? d with
    | some osh, some ish, some dat =>
      let isz := (ish.map Int.toNat).foldr (· * ·) 1
      let osz := (osh.map Int.toNat).foldr (· * ·) 1
      if dat.length ≠ osz * isz then .bad else
      pushR (G.matOp osh ish (chunkRows isz osz (dat.map toG))) st
    | _, _, _ => .bad
  | ["I", sh] =>
    match parseIntList? sh with
    | some sh => pushR (G.idOp sh) st
    | none => .bad
  | ["R", o, i] =>
    match parseIntList? o, parseIntList? i with
    | some osh, some ish => pushR (G.reshapeOp osh ish) st
    | _, _ => .bad
  | ["C", n] =>
    match (parseNat? n).bind (popN · st) with
    | some (ops, rest) => pushR (G.compose ops) rest
    | none => .bad
  | ["A", n] =>
    match (parseNat? n).bind (popN · st) with
    | some (ops, rest) => pushR (G.add ops) rest
    | none => .bad
  | ["ML", a] =>
    match parseCRat? a, st with
    | some a, A :: rest => pushR (G.scaleL (toG a) A) rest
    | _, _ => .bad
  | ["MR", a] =>
    match parseCRat? a, st with
    | some a, A :: rest => pushR (G.scaleR A (toG a)) rest
    | _, _ => .bad
  | ["N"] =>
    match st with
    | A :: rest => pushR (G.neg A) rest
    | _ => .bad
  | ["S"] =>
    match st with
    | B :: A :: rest => pushR (G.sub A B) rest
    | _ => .bad
  | ["H", n, ax] =>
    match (parseNat? n).bind (popN · st), parseAxis? ax with
    | some (ops, rest), some ax => pushR (G.hstack ops ax) rest
    | _, _ => .bad
  | ["V", n, ax] =>
    match (parseNat? n).bind (popN · st), parseAxis? ax with
    | some (ops, rest), some ax => pushR (G.vstack ops ax) rest
    | _, _ => .bad
  | ["D", n, oax, iax] =>
    match (parseNat? n).bind (popN · st), parseAxis? oax, parseAxis? iax with
    | some (ops, rest), some oax, some iax => pushR (G.diag ops oax iax) rest
    | _, _, _ => .bad
  | _ => .bad

def run : List (Op GRat) → List String → Step
  | st, [] => .ok st
  | st, t :: ts =>
    match step st t with
    | .ok st' => run st' ts
    | .build => .build
    | .bad => .bad

def splitBar (s : String) : List String := s.splitOn "|"

/-- protocol handler for property C03 (tokens after the property id). -/
def handle (toks : List String) : String :=
  match toks with
  | "eval" :: xs :: x :: prog =>
    match (xs.splitOn "="), (x.splitOn "=") with
    | ["xs", xs], ["x", x] =>
      match parseIntList? xs, parseCRatList? x with
      | some xsh, some xd =>
        if xsh.any (· < 0) then "err bad-op" else
        match run [] prog with
        | .bad => "err bad-op"
        | .build => "err build"
        | .ok [A] =>
          let hd := s!"ok {fmtShape A.oshape} {fmtShape A.ishape} "
          match Gen.linopCall A ⟨xsh.map Int.toNat, xd.map toG⟩ with
          | .ok y => hd ++ s!"{fmtShape y.shape}|{fmtGList y.data}"
          | .error _ => hd ++ "apply-error"
        | .ok _ => "err bad-op"
      | _, _ => "err bad-op"
    | _, _ => "err bad-op"
  | ["params", sh, ax] =>
    match (sh.splitOn "="), (ax.splitOn "=") with
    | ["shapes", sh], ["axis", ax] =>
      match (splitBar sh).mapM parseIntList?, parseAxis? ax with
      | some shapes, some ax =>
        if shapes.any (·.any (· < 0)) then "err bad-op" else
        match stackParams (shapes.map (·.map Int.toNat)) ax with
        | .ok (s, ind) => s!"ok {fmtShape s} {fmtShape ind}"
        | .error _ => "err build"
      | _, _ => "err bad-op"
    | _, _ => "err bad-op"
  | ["gparams", fn, sh, ax] =>
    match (fn.splitOn "="), (sh.splitOn "="), (ax.splitOn "=") with
    | ["fn", fn], ["shapes", sh], ["axis", ax] =>
      match (splitBar sh).mapM parseIntList?, parseAxis? ax with
      | some shapes, some ax =>
        if shapes.any (·.any (· < 0)) then "err bad-op" else
        let shapes := shapes.map (·.map Int.toNat)
        let r := if fn == "h" then some (Gen.hstackParams shapes ax)
          else if fn == "v" then some (Gen.vstackParams shapes ax) else none
        match r with
        | some (.ok (s, ind)) => s!"ok {fmtShape s} {fmtShape ind}"
        | some (.error _) => "err build"
        | none => "err bad-op"
      | _, _ => "err bad-op"
    | _, _, _ => "err bad-op"
  | ["guard", g, a] =>
    match (g.splitOn "="), (a.splitOn "=") with
    | ["got", g], ["adv", a] =>
      match parseIntList? g, parseIntList? a with
      | some g, some a =>
        let b := fun (x : Bool) => if x then "1" else "0"
        s!"ok {b (Gen.checkIshape g a)} {b (Gen.checkOshape g a)} {b (zipGuard g a)}"
      | _, _ => "err bad-op"
    | _, _ => "err bad-op"
  | _ => "err bad-op"
end SigpyVerif.Drv.C03
