import SigpyVerif.Model.Py
import SigpyVerif.Model.Proto
import SigpyVerif.Model.C17
namespace SigpyVerif.Drv.C17
open SigpyVerif SigpyVerif.Proto SigpyVerif.C17

/-- Gaussian rationals; `none` = an inexact square root was needed (the request is outside the exact domain) -/
abbrev CR := Option (Rat × Rat)

def isSquareNat (n : Nat) : Bool := n.sqrt * n.sqrt == n
def ratSqrt? (q : Rat) : Option Rat :=
  if q.num < 0 then none
  else if isSquareNat q.num.toNat && isSquareNat q.den then some ((q.num.toNat.sqrt : Rat) / (q.den.sqrt : Rat))
  else none

def lift2 (f : Rat × Rat → Rat × Rat → Rat × Rat) (a b : CR) : CR := do
  let x ← a; let y ← b; pure (f x y)

/-- the scalar operations of the code over exact Gaussian rationals -/
def ops : COps CR where
  zero := some (0, 0)
  add := lift2 fun a b => (a.1 + b.1, a.2 + b.2)
  mul := lift2 fun a b => (a.1 * b.1 - a.2 * b.2, a.1 * b.2 + a.2 * b.1)
  conj := fun a => a.map fun z => (z.1, -z.2)
  abs := fun a => do
    let z ← a
    let r ← ratSqrt? (z.1 * z.1 + z.2 * z.2)
    pure (r, 0)
  sqrt := fun a => do
    let z ← a
    if z.2 ≠ 0 then none
    let r ← ratSqrt? z.1
    pure (r, 0)
  div := fun a b => do
    let x ← a; let y ← b
    let n := y.1 * y.1 + y.2 * y.2
    if n == 0 then none
    pure ((x.1 * y.1 + x.2 * y.2) / n, (x.2 * y.1 - x.1 * y.2) / n)
  gt := fun a b => match a, b with
    | some x, some y => decide (x.1 > y.1)
    | _, _ => false
  ofBool := fun b => some (if b then 1 else 0, 0)

def chunk {β} (n : Nat) : Nat → List β → List (List β)
  | 0, _ => []
  | rows + 1, l => l.take n :: chunk n rows (l.drop n)

def fmtList (l : List CR) : Option String := do
  let v ← l.mapM id
  pure (fmtCRatList v)

def getC (toks : List String) (k : String) : Option (List CR) :=
  ((kv toks k).bind parseCRatList?).map fun l => l.map some

/-- protocol handler for property C17 (tokens after the property id). -/
def handle (toks : List String) : String :=
  match toks.head? with
  | some "normalize" =>
    match getC toks "x" with
    | some x => match fmtList [normalize ops x] with
      | some s => s!"ok {s}"
      | none => "err inexact"
    | none => "err bad-op"
  | some "step" =>
    match ((kv toks "n").bind parseInt?).map Int.toNat, getC toks "G", getC toks "x" with
    | some n, some G, some x =>
      if G.length ≠ n * n ∨ x.length ≠ n then "err size" else
      let (x', e) := powerStep ops (chunk n n G) x
      match fmtList [e], fmtList x' with
      | some se, some sx => s!"ok {se} | {sx}"
      | _, _ => "err inexact"
    | _, _, _ => "err bad-op"
  | some "output" =>
    match (kv toks "eig").bind parseRat?, (kv toks "crop").bind parseRat?, getC toks "m" with
    | some eig, some crop, some m =>
      match fmtList (output ops (Gen.espiritKeeps eig crop) m) with
      | some s => s!"ok {s}"
      | none => "err inexact"
    | _, _, _ => "err bad-op"
  | some "gram" =>
    -- vs: nk kernels × nc coils
    match ((kv toks "nc").bind parseInt?).map Int.toNat, ((kv toks "nk").bind parseInt?).map Int.toNat,
          (kv toks "N").bind parseInt?, (kv toks "kw").bind parseInt?, ((kv toks "d").bind parseInt?).map Int.toNat, getC toks "v" with
    | some nc, some nk, some N, some kw, some d, some v =>
      if v.length ≠ nk * nc then "err size" else
      let sc := Gen.espiritScale N kw d
      match fmtList (gram ops (some (sc, 0)) (chunk nc nk v) nc).flatten with
      | some s => s!"ok {s}"
      | none => "err inexact"
    | _, _, _, _, _, _ => "err bad-op"
  | some "calib" =>
    match (kv toks "nc").bind parseInt?, (kv toks "cw").bind parseInt?, (kv toks "kw").bind parseInt?,
          ((kv toks "d").bind parseInt?).map Int.toNat, (kv toks "x").bind parseIntList? with
    | some nc, some cw, some kw, some d, some x =>
      if x.length ≠ (nc * cw ^ d).toNat then "err size" else
      match calibMat nc cw kw d x.toArray with
      | some (sh, y) => s!"ok {fmtIntList sh} | {fmtIntList y.toList}"
      | none => "err index"
    | _, _, _, _, _ => "err bad-op"
  | _ => "err bad-op"
end SigpyVerif.Drv.C17
