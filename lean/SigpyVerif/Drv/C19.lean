import SigpyVerif.Model.Py
import SigpyVerif.Model.Proto
namespace SigpyVerif.Drv.C19
/-- protocol handler for property C19 (tokens after the property id). -/
def handle (_toks : List String) : String := "err bad-op"
end SigpyVerif.Drv.C19
