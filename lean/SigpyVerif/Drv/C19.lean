import SigpyVerif.Model.Py
import SigpyVerif.Model.Proto
import SigpyVerif.Model.C19
namespace SigpyVerif.Drv.C19
open SigpyVerif SigpyVerif.Proto SigpyVerif.C19 SigpyVerif.Gen.Sim

def toG (z : Rat × Rat) : GRat := ⟨z.1, z.2⟩
def fmtG (z : GRat) : String := s!"{fmtRat z.re};{fmtRat z.im}"
def getGList (toks : List String) (k : String) : Option (List GRat) :=
  ((kv toks k).bind parseCRatList?).map (·.map toG)
def getG (toks : List String) (k : String) (dflt : GRat) : Option GRat :=
  match kv toks k with
  | none => some dflt
  | some s => (parseCRat? s).map toG

def pairs : List GRat → Option (List (GRat × GRat))
  | [] => some []
  | x :: y :: t => (pairs t).map ((x, y) :: ·)
  | _ => none
/-- per-sample atoms, flat: `C S nx ny nz` (abrm, abrm_nd) -/
def ckAtoms : List GRat → Option (List (CkAtoms GRat))
  | [] => some []
  | c :: s :: nx :: ny :: nz :: t => (ckAtoms t).map (⟨c, s, nx, ny, nz⟩ :: ·)
  | _ => none
/-- `C S u z` (abrm_hp, blochsim) -/
def hpAtoms : List GRat → Option (List (HpAtoms GRat))
  | [] => some []
  | c :: s :: u :: z :: t => (hpAtoms t).map (⟨c, s, u, z⟩ :: ·)
  | _ => none
/-- `C S nz nxy` (abrm_ptx) -/
def ptxAtoms : List GRat → Option (List (PtxAtoms GRat))
  | [] => some []
  | c :: s :: nz :: nxy :: t => (ptxAtoms t).map (⟨c, s, nz, nxy⟩ :: ·)
  | _ => none

/-- hints of ab2rf: `cj > 0` real and `cj²·(|a[ii]|² + |b[ii]|²) = |a[ii]|²`, along the model's own recursion -/
def hintsOk : List GRat → List GRat → List GRat → Nat → Bool
  | _, _, _, 0 => true
  | [], _, _, _ + 1 => false
  | cj :: cs, a, b, n + 1 =>
    match a[n]?, b[n]? with
    | some an, some bn =>
      if cj.im == 0 && decide (0 < cj.re) && an != ⟨0, 0⟩ &&
          cj.re * cj.re * (GRat.normSq an + GRat.normSq bn) == GRat.normSq an then
        let ab := peel cj (peelS cj an bn) a b n
        hintsOk cs ab.1 ab.2 n
      else false
    | _, _ => false

/-- protocol handler for property C19 (tokens after the property id).  `sim kind=<simulator> p=<atoms>`: the
generated whole simulation `Gen.Sim.<simulator>Sim` on the per-sample atoms, exactly. -/
def handle (toks : List String) : String :=
  match toks.head? with
  | some "sim" =>
    match kv toks "kind", getGList toks "p", getG toks "zf" ⟨1, 0⟩, getG toks "a0" ⟨1, 0⟩, getG toks "b0" ⟨0, 0⟩ with
    | some kind, some p, some zf, some a0, some b0 =>
      let s0 := (a0, b0)
      let out : Option (GRat × GRat) :=
        if kind == "abrm" then (ckAtoms p).map fun w => abrmSim w s0
        else if kind == "abrm_balanced" then (ckAtoms p).bind fun w =>   -- last atoms: the rewinder of `balanced=True`
          match w.reverse with
          | q :: rest => some (abrmBalanced q (abrmSim rest.reverse s0))
          | [] => none
        else if kind == "abrm_nd" then (ckAtoms p).map fun w => abrmNdSim w s0
        else if kind == "abrm_hp" then (hpAtoms p).map fun w => abrmHpSim w zf s0
        else if kind == "blochsim" then (hpAtoms p).map fun w => blochsimSim w zf s0
        else if kind == "abrm_ptx" then (ptxAtoms p).map fun w => abrmPtxSim w s0
        else if kind == "compose" then (pairs p).bind fun w => match w with
          | [s1, s2] => some (compose s2 s1)
          | _ => none
        else none
      match out with
      | some s => s!"ok {fmtG s.1} {fmtG s.2}"
      | none => "err bad-op"
    | _, _, _, _, _ => "err bad-op"
  | some "hppoly" =>
    -- the polynomial pair of a hard-pulse train (`hpPoly`, coefficient lists of the generated simulation, see
    -- Props/C19Slr.lean `hpPoly_eval`), the same pair in `ab2rf`'s convention, and its values `zf·A(z)`, `zf·B(z)`
    -- (blochsim: `zf·z·B(z)`) at the requested points `q = z1,zf1,z2,zf2,…`
    match kv toks "kind", getGList toks "p", (getGList toks "q").bind pairs with
    | some kind, some p, some qs =>
      if kind != "abrm_hp" && kind != "blochsim" then "err bad-op" else
      match hpAtoms p with
      | some w =>
        let ab := hpPoly w
        let sl := toSlr ab
        let fl := fun (l : List GRat) => if l.isEmpty then "-" else ",".intercalate (l.map fmtG)
        let ev := qs.map fun q =>
          let bz := if kind == "blochsim" then q.1 * peval q.1 ab.2 else peval q.1 ab.2
          fmtG (q.2 * peval q.1 ab.1) ++ "," ++ fmtG (q.2 * bz)
        s!"ok a={fl ab.1} b={fl ab.2} sa={fl sl.1} sb={fl sl.2} ev={if ev.isEmpty then "-" else ",".intercalate ev}"
      | none => "err bad-op"
    | _, _, _ => "err bad-op"
  | some "ab2rf" =>
    match getGList toks "a", getGList toks "b", getGList toks "c" with
    | some a, some b, some c =>
      if a.length ≠ b.length || c.length ≠ a.length then "err size" else
      if !hintsOk c a b a.length then "err bad-hint" else
      let r := ab2rfLoop c a b a.length
      s!"ok {",".intercalate (r.map fun cs => fmtG cs.1 ++ "," ++ fmtG cs.2)}"
    | _, _, _ => "err bad-op"
  | _ => "err bad-op"
end SigpyVerif.Drv.C19
