import SigpyVerif.Model.Py
import SigpyVerif.Model.Proto
import SigpyVerif.Model.C15
namespace SigpyVerif.Drv.C15
open SigpyVerif SigpyVerif.Proto SigpyVerif.C15

/-- (initial counter, selfIncr, done(iter, max_iter, resid, tol, flag)) of a class, from `Gen.AlgDone` -/
def classInfo (cls : String) : Option (Int × Int × (Int → Int → Rat → Rat → Bool → Bool)) :=
  match cls with
  | "Alg" => some (Gen.initIterAlg, Gen.selfIncrAlg, fun i m _ _ _ => Gen.doneAlg i m)
  | "PowerMethod" => some (Gen.initIterPowerMethod, Gen.selfIncrPowerMethod, fun i m _ _ _ => Gen.donePowerMethod i m)
  | "GradientMethod" => some (Gen.initIterGradientMethod, Gen.selfIncrGradientMethod,
      fun i m r t _ => Gen.doneGradientMethod i m r t)
  | "ConjugateGradient" => some (Gen.initIterConjugateGradient, Gen.selfIncrConjugateGradient,
      fun i m r t f => Gen.doneConjugateGradient i m f r t)
  | "PrimalDualHybridGradient" => some (Gen.initIterPrimalDualHybridGradient, Gen.selfIncrPrimalDualHybridGradient,
      fun i m r t _ => Gen.donePrimalDualHybridGradient i m r t)
  | "AltMin" => some (Gen.initIterAltMin, Gen.selfIncrAltMin, fun i m _ _ _ => Gen.doneAltMin i m)
  | "AugmentedLagrangianMethod" => some (Gen.initIterAugmentedLagrangianMethod, Gen.selfIncrAugmentedLagrangianMethod,
      fun i m _ _ _ => Gen.doneAugmentedLagrangianMethod i m)
  | "ADMM" => some (Gen.initIterADMM, Gen.selfIncrADMM, fun i m _ _ _ => Gen.doneADMM i m)
  | "SDMM" => some (Gen.initIterSDMM, Gen.selfIncrSDMM, fun i m _ _ f => Gen.doneSDMM i m f)
  | "NewtonsMethod" => some (Gen.initIterNewtonsMethod, Gen.selfIncrNewtonsMethod,
      fun i m r t _ => Gen.doneNewtonsMethod i m r t)
  | "GerchbergSaxton" => some (Gen.initIterGerchbergSaxton, Gen.selfIncrGerchbergSaxton,
      fun i m r t _ => Gen.doneGerchbergSaxton i m r t)
  | _ => none

/-- `resid` token: a rational, or `inf` (np.inf: larger than every tolerance) -/
def parseResid (s : String) (tol : Rat) : Option Rat :=
  if s == "inf" then some (ratAbs tol + 1) else parseRat? s

/-- events `u` | `d:<resid>:<tol>:<flag>`; replies the counter after each `u`, the verdict of each `d` -/
def trace (cls : String) (maxIter : Int) (evs : List String) : Option (List String) := do
  let (i0, inc, dn) ← classInfo cls
  let rec go (evs : List String) (iter : Int) (acc : List String) : Option (List String) :=
    match evs with
    | [] => some acc.reverse
    | e :: rest =>
      match e.splitOn ":" with
      | ["u"] => let it := ctrUpdate inc iter; go rest it (s!"i{it}" :: acc)
      | ["d", r, t, f] => do
          let tol ← parseRat? t
          let resid ← parseResid r tol
          let flag ← parseInt? f
          go rest iter (s!"d{fmtBool (dn iter maxIter resid tol (flag != 0))}" :: acc)
      | _ => none
  go evs i0 []

/-- the loop of `App.run` on the counter machine; the class-specific fields after `j` updates are
    `resids[j]`, `flags[j]` (taken from the observed run) -/
def appRun (cls : String) (maxIter : Int) (tol : Rat) (resids : List String) (flags : List Int) (fuel : Nat) :
    Option String := do
  let (i0, inc, dn) ← classInfo cls
  let rs ← resids.mapM (parseResid · tol)
  let done := fun (s : Int × Nat) => dn s.1 maxIter (rs.getD s.2 (rs.getLastD 0)) tol ((flags.getD s.2 (flags.getLastD 0)) != 0)
  let upd := fun (s : Int × Nat) => (ctrUpdate inc s.1, s.2 + Gen.appUpdatesPerPass)
  let (s, n, byDone) := runLoop done upd fuel (i0, 0) 0
  some s!"ok updates={s.2} passes={n} iter={s.1} done={fmtBool byDone}"

def getRV (toks : List String) (k : String) : Option RVec := ((kv toks k).bind parseRatList?).map List.toArray
def getR (toks : List String) (k : String) : Option Rat := (kv toks k).bind parseRat?

/-- `prox=none | soft:<lam> | box:<lo>:<hi>` as `alpha ↦ v ↦ prox(alpha, v)` -/
def parseProx (s : String) : Option (Option (Rat → RVec → RVec)) :=
  match s.splitOn ":" with
  | ["none"] => some none
  | ["soft", l] => (parseRat? l).map fun lam => some (fun a v => softThresh (lam * a) v)
  | ["box", lo, hi] => do let l ← parseRat? lo; let h ← parseRat? hi; some (some (fun _ v => clip l h v))
  | _ => none

def fmtV (v : RVec) : String := fmtRatList v.toList

/-- one `PrimalDualHybridGradient.update()` for `min_x ½‖A x - y‖² + g(x)` as set up by
    `LinearLeastSquares`: `proxfc(σ, u) = (u - σ y) / (1 + σ)` -/
def handlePdhg (toks : List String) : String :=
  match (kv toks "m").bind parseInt?, (kv toks "n").bind parseInt?, getRV toks "A", getRV toks "y",
        getR toks "tau", getR toks "sigma", getR toks "theta", getRV toks "x", getRV toks "u", getRV toks "xext",
        (kv toks "prox").bind parseProx with
  | some m, some n, some A, some y, some tau, some sigma, some theta, some x, some u, some xe, some prox =>
    let m := m.toNat; let n := n.toNat
    if A.size ≠ m * n ∨ y.size ≠ m ∨ x.size ≠ n ∨ u.size ≠ m ∨ xe.size ≠ n then "err size" else
    if tau == 0 ∨ sigma == 0 then "err zerodiv" else
    let proxfc := fun (s : Rat) (v : RVec) => rzip (fun vi yi => (vi - s * yi) / (1 + s)) v y
    let proxg := match prox with | none => (fun _ v => v) | some p => p
    let s' := pdhgUpdate ratV (rmatVec m n A) (rmatTVec m n A) proxfc proxg tau sigma theta
      { x := x, u := u, xext := xe, resid2 := 0 }
    s!"ok x={fmtV s'.x} u={fmtV s'.u} xext={fmtV s'.xext} resid2={fmtRat s'.resid2}"
  | _, _, _, _, _, _, _, _, _, _, _ => "err bad-op"

/-- one `GradientMethod.update()` for `gradf(x) = Q x - c` -/
def handleGm (toks : List String) : String :=
  match (kv toks "n").bind parseInt?, getRV toks "Q", getRV toks "c", getR toks "alpha",
        (kv toks "accel").bind parseInt?, (kv toks "prox").bind parseProx, getRV toks "x", getRV toks "z",
        getR toks "told", getR toks "tnew" with
  | some n, some Q, some c, some alpha, some acc, some prox, some x, some z, some told, some tnew =>
    let n := n.toNat
    if Q.size ≠ n * n ∨ c.size ≠ n ∨ x.size ≠ n ∨ z.size ≠ n then "err size" else
    if alpha == 0 ∨ (acc != 0 ∧ tnew == 0) then "err zerodiv" else
    let gradf := fun v => rzip (· - ·) (rmatVec n n Q v) c
    let s' := gmUpdate ratV (fun _ => tnew) gradf prox alpha (acc != 0) { x := x, z := z, t := told, resid2 := 0 }
    s!"ok x={fmtV s'.x} z={fmtV s'.z} resid2={fmtRat s'.resid2}"
  | _, _, _, _, _, _, _, _, _, _ => "err bad-op"

/-! ### PDHG with every step-size branch and scalar or array steps (`C15.pdhgUpdateG` over C13's rational instance) -/

def parseStep (s : String) : Option C13.RStep :=
  match s.splitOn ":" with
  | ["s", r] => (parseRat? r).map C13.RStep.sc
  | ["a", l] => (parseRatList? l).map C13.RStep.ar
  | _ => none

def fmtStep : C13.RStep → String
  | .sc r => "s:" ++ fmtRat r
  | .ar l => "a:" ++ fmtRatList l

def rowsOf (n : Nat) (flat : List Rat) : List (List Rat) :=
  if n == 0 then [] else
  let rec go (fuel : Nat) (l : List Rat) : List (List Rat) :=
    match fuel with
    | 0 => []
    | f + 1 => if l.isEmpty then [] else l.take n :: go f (l.drop n)
  go flat.length flat

def parseProxK (s : String) : Option C13.ProxKind :=
  match s.splitOn ":" with
  | ["none"] => some .noop
  | ["soft", l] => (parseRat? l).map fun lam => .l1 lam
  | ["box", lo, hi] => do let l ← parseRat? lo; let h ← parseRat? hi; some (.box l h)
  | _ => none

/-- `norm(v / step**0.5)**2` on rational data -/
def wnR (st : C13.RStep) (v : C13.RVec) : Rat := C13.sumSqDiv v.d (st.expand v.d.length)

def handlePdhgG (toks : List String) : String :=
  let getL (k : String) := (kv toks k).bind parseRatList?
  match (kv toks "m").bind parseInt?, (kv toks "n").bind parseInt?, getL "A", getL "y",
        (kv toks "tau").bind parseStep, (kv toks "sigma").bind parseStep, getR toks "gp", getR toks "gd",
        getR toks "theta", getR toks "taumin", getR toks "sigmamin", getL "x", getL "u", getL "xext",
        (kv toks "prox").bind parseProxK with
  | some m, some n, some a, some y, some tau, some sigma, some gp, some gd, some th, some tmin, some smin,
    some x, some u, some xe, some pg =>
    let m := m.toNat; let n := n.toNat
    if a.length ≠ m * n ∨ y.length ≠ m ∨ x.length ≠ n ∨ u.length ≠ m ∨ xe.length ≠ n then "err size" else
    if tau.minAbs == 0 ∨ sigma.minAbs == 0 then "err zerodiv" else
    let A := rowsOf n a
    let AT := C13.transpose n A
    let pfc : C13.ProxKind := .l2 1 (some (y.map (- ·)))
    let s : C13.PDState Rat C13.RVec C13.RVec C13.RStep C13.RStep := ⟨⟨x⟩, ⟨u⟩, ⟨xe⟩, tau, sigma, tmin, smin⟩
    let r := pdhgUpdateG C13.sqApprox wnR wnR (C13.matVec A) (C13.matVec AT) pfc.apply pg.apply gp gd th s
    let s' := r.1
    if s'.tau.minAbs == 0 ∨ s'.sigma.minAbs == 0 then "err zerodiv" else
    s!"ok x={fmtRatList s'.x.d} u={fmtRatList s'.u.d} xext={fmtRatList s'.x_ext.d} tau={fmtStep s'.tau} sigma={fmtStep s'.sigma} taumin={fmtRat s'.tau_min} sigmamin={fmtRat s'.sigma_min} resid2={fmtRat r.2}"
  | _, _, _, _, _, _, _, _, _, _, _, _, _, _, _ => "err bad-op"

/-! ### NewtonsMethod with line search on `f(x) = Σ a_i x_i⁴/4 + q_i x_i²/2 - c_i x_i` -/

def rdotV (a b : RVec) : Rat := (rzip (· * ·) a b).foldl (· + ·) 0

def handleNewton (toks : List String) : String :=
  match getRV toks "a", getRV toks "q", getRV toks "c", getRV toks "x", getR toks "beta",
        (kv toks "fuel").bind parseInt? with
  | some a, some q, some c, some x, some beta, some fuel =>
    let n := x.size
    if a.size ≠ n ∨ q.size ≠ n ∨ c.size ≠ n then "err size" else
    let idx := Array.range n
    let f : RVec → Rat := fun v => (idx.map fun i =>
      let vi := v.getD i 0
      a.getD i 0 * vi * vi * vi * vi / 4 + q.getD i 0 * vi * vi / 2 - c.getD i 0 * vi).foldl (· + ·) 0
    let gradf : RVec → RVec := fun v => idx.map fun i =>
      let vi := v.getD i 0
      a.getD i 0 * vi * vi * vi + q.getD i 0 * vi - c.getD i 0
    let hd : RVec → RVec := fun v => idx.map fun i => let vi := v.getD i 0; 3 * a.getD i 0 * vi * vi + q.getD i 0
    if (hd x).any (· == 0) then "err zerodiv" else
    let invH : RVec → RVec → RVec := fun v w => rzip (· / ·) w (hd v)
    match newtonUpdateLS ratV rdotV gradf invH f beta fuel.toNat x with
    | none => "err fuel"
    | some (x', lam2, alpha) =>
      -- margins of the loop tests that were evaluated (alpha = 1, beta, …, final alpha)
      let g := gradf x
      let p := ratV.smul (-1) (invH x g)
      let fx := f x
      let rec margins (k : Nat) (al : Rat) (best : Rat) : Rat :=
        match k with
        | 0 => best
        | k + 1 =>
          let d := ratAbs (f (ratV.add x (ratV.smul al p)) - (fx - al / 2 * lam2))
          let best := if d < best then d else best
          if al == alpha then best else margins k (al * beta) best
      let mg := if beta < 1 then margins (fuel.toNat + 1) 1 1000000 else 1000000
      s!"ok x={fmtV x'} lamda2={fmtRat lam2} alpha={fmtRat alpha} margin={fmtRat mg} resid={fmtRat (Gen.C15.newtonResid C13.sqApprox lam2)}"
  | _, _, _, _, _, _ => "err bad-op"


/-! ### the GENERATED machines (`Gen/C15Mach.lean`) on exact rationals -/
open SigpyVerif.Gen.C15M

/-- `f` applied `n` times -/
def iterN {α : Type} (f : α → α) : Nat → α → α
  | 0, a => a
  | n + 1, a => iterN f n (f a)

def getRL (toks : List String) (k : String) : Option (List Rat) := (kv toks k).bind parseRatList?

/-- affine combination `Σ coef_i * v_i` (elementwise) -/
def affine (cs : List Rat) (vs : List RVec) : RVec :=
  match vs with
  | [] => #[]
  | v0 :: _ => (Array.range v0.size).map fun i =>
      (List.zipWith (fun c (v : RVec) => c * v.getD i 0) cs vs).foldl (· + ·) 0

def fmtRes {D : Type} (r : Res (AlgSt D)) (f : AlgSt D → String) : String :=
  match r with
  | Res.ok s => "ok " ++ f s
  | Res.raised => "ok raised=1"
  | Res.nofuel => "err fuel"

/-- `ADMM`: `minL_x: x := px·(c0, z, u)`, `minL_z: z := soft(lam, qz·(x, u))`, `A v = a·v`, `B v = b·v`, `c`;
    `k` generated updates (generated `Alg.update` ∘ generated `_update`) -/
def handleAdmm (toks : List String) : String :=
  match getRV toks "c0", getRV toks "x", getRV toks "z", getRV toks "u", getRL toks "px", getRL toks "qz",
        getR toks "lam", getR toks "a", getR toks "b", getRV toks "c", (kv toks "k").bind parseInt? with
  | some c0, some x, some z, some u, some px, some qz, some lam, some a, some b, some c, some k =>
    if z.size ≠ x.size ∨ u.size ≠ x.size ∨ c0.size ≠ x.size ∨ c.size ≠ x.size ∨ px.length ≠ 3 ∨ qz.length ≠ 2 then "err size" else
    let mx : ADMMData RVec → ADMMData RVec := fun d => { d with x := affine px [c0, d.z, d.u] }
    let mz : ADMMData RVec → ADMMData RVec := fun d => { d with z := softThresh lam (affine qz [d.x, d.u]) }
    let up := algUpdate (updADMM ratM mx mz (ratM.smul a) (ratM.smul b) c)
    let s := iterN up k.toNat ⟨Gen.initIterADMM, ⟨x, z, u⟩⟩
    s!"ok iter={s.iter} x={fmtV s.d.x} z={fmtV s.d.z} u={fmtV s.d.u}"
  | _, _, _, _, _, _, _, _, _, _, _ => "err bad-op"

/-- `g=none | aff:<g1>:<g0>` : `v ↦ g1·v + g0` -/
def parseAff (s : String) : Option (Option (RVec → RVec)) :=
  match s.splitOn ":" with
  | ["none"] => some none
  | ["aff", a, b] => do
      let a ← parseRat? a; let b ← parseRat? b
      some (some fun v => v.map fun t => a * t + b)
  | _ => none

/-- `AugmentedLagrangianMethod`: `minL: x := px·(c0, u, v)` -/
def handleAlm (toks : List String) : String :=
  match getRV toks "c0", getRV toks "x", getRV toks "u", getRV toks "v", getRL toks "px", (kv toks "g").bind parseAff,
        (kv toks "h").bind parseAff, getR toks "mu", (kv toks "k").bind parseInt? with
  | some c0, some x, some u, some v, some px, some g, some h, some mu, some k =>
    if u.size ≠ x.size ∨ v.size ≠ x.size ∨ c0.size ≠ x.size ∨ px.length ≠ 3 then "err size" else
    let minL : ALMData RVec → ALMData RVec := fun d => { d with x := affine px [c0, d.u, d.v] }
    let up := algUpdate (updAugmentedLagrangianMethod ratM minL g h mu)
    let s := iterN up k.toNat ⟨Gen.initIterAugmentedLagrangianMethod, ⟨x, u, v⟩⟩
    s!"ok iter={s.iter} x={fmtV s.d.x} u={fmtV s.d.u} v={fmtV s.d.v}"
  | _, _, _, _, _, _, _, _, _ => "err bad-op"

/-- `AltMin` on a pair of vectors: `min1: a := p1·b + q1`, `min2: b := p2·a + q2` -/
def handleAltMin (toks : List String) : String :=
  match getRV toks "a", getRV toks "b", getRL toks "m1", getRL toks "m2", (kv toks "k").bind parseInt? with
  | some a, some b, some m1, some m2, some k =>
    if a.size ≠ b.size ∨ m1.length ≠ 2 ∨ m2.length ≠ 2 then "err size" else
    let f1 : RVec × RVec → RVec × RVec := fun d => (d.2.map fun t => m1.getD 0 0 * t + m1.getD 1 0, d.2)
    let f2 : RVec × RVec → RVec × RVec := fun d => (d.1, d.1.map fun t => m2.getD 0 0 * t + m2.getD 1 0)
    let up := algUpdate (updAltMin f1 f2)
    let s := iterN up k.toNat ⟨Gen.initIterAltMin, (a, b)⟩
    s!"ok iter={s.iter} a={fmtV s.d.1} b={fmtV s.d.2}"
  | _, _, _, _, _ => "err bad-op"

def parsePair (s : String) : Option (Option (Rat × Rat)) :=
  match s.splitOn ":" with
  | ["none"] => some none
  | [a, b] => do let a ← parseRat? a; let b ← parseRat? b; some (some (a, b))
  | _ => none

/-- the generated stopping block of `SDMM._update` on the norms the real update computed -/
def handleSdmmStop (toks : List String) : String :=
  match getR toks "epspri", getR toks "epsdual", kv toks "rs", (kv toks "norm").bind parsePair, (kv toks "max").bind parsePair with
  | some ep, some ed, some rs, some nrm, some mx =>
    let l := if rs == "-" then some [] else (rs.splitOn ",").mapM fun t => (parsePair t).bind id
    match l with
    | some l => s!"ok stop={fmtBool (sdmmStop ep ed l nrm mx)}"
    | none => "err bad-op"
  | _, _, _, _, _ => "err bad-op"

/-- one generated `GradientMethod._update` (same request as `gm`); `sqrt` to 1e-20 -/
def handleGmG (toks : List String) : String :=
  match (kv toks "n").bind parseInt?, getRV toks "Q", getRV toks "c", getR toks "alpha",
        (kv toks "accel").bind parseInt?, (kv toks "prox").bind parseProx, getRV toks "x", getRV toks "z",
        getR toks "told" with
  | some n, some Q, some c, some alpha, some acc, some prox, some x, some z, some told =>
    let n := n.toNat
    if Q.size ≠ n * n ∨ c.size ≠ n ∨ x.size ≠ n ∨ z.size ≠ n then "err size" else
    if alpha == 0 then "err zerodiv" else
    let gradf := fun v => rzip (· - ·) (rmatVec n n Q v) c
    let s' := algUpdate (updGradientMethod ratM C13.sqApprox gradf prox alpha (acc != 0)) ⟨0, ⟨x, z, told, 0⟩⟩
    s!"ok iter={s'.iter} x={fmtV s'.d.x} z={fmtV s'.d.z} t={fmtRat s'.d.t} resid={fmtRat s'.d.resid}"
  | _, _, _, _, _, _, _, _, _ => "err bad-op"

/-- one generated `NewtonsMethod._update` (same request as `newton`) -/
def handleNewtonG (toks : List String) : String :=
  match getRV toks "a", getRV toks "q", getRV toks "c", getRV toks "x", getR toks "beta",
        (kv toks "fuel").bind parseInt? with
  | some a, some q, some c, some x, some beta, some fuel =>
    let n := x.size
    if a.size ≠ n ∨ q.size ≠ n ∨ c.size ≠ n then "err size" else
    let idx := Array.range n
    let f : RVec → Rat := fun v => (idx.map fun i =>
      let vi := v.getD i 0
      a.getD i 0 * vi * vi * vi * vi / 4 + q.getD i 0 * vi * vi / 2 - c.getD i 0 * vi).foldl (· + ·) 0
    let gradf : RVec → RVec := fun v => idx.map fun i =>
      let vi := v.getD i 0
      a.getD i 0 * vi * vi * vi + q.getD i 0 * vi - c.getD i 0
    let hd : RVec → RVec := fun v => idx.map fun i => let vi := v.getD i 0; 3 * a.getD i 0 * vi * vi + q.getD i 0
    if (hd x).any (· == 0) then "err zerodiv" else
    let invH : RVec → RVec → RVec := fun v w => rzip (· / ·) w (hd v)
    fmtRes (algUpdateR (updNewtonsMethod ratM C13.sqApprox gradf invH f beta fuel.toNat) ⟨0, ⟨x, 0, 0⟩⟩)
      fun s => s!"raised=0 iter={s.iter} x={fmtV s.d.x} lamda2={fmtRat s.d.lamda2} resid={fmtRat s.d.residual}"
  | _, _, _, _, _, _ => "err bad-op"

/-- protocol handler for property C15 (tokens after the property id). -/
def handle (toks : List String) : String :=
  match toks.head? with
  | some "trace" =>
    match kv toks "cls", (kv toks "maxiter").bind parseInt?, kv toks "ev" with
    | some cls, some m, some ev =>
      match trace cls m (if ev == "-" then [] else ev.splitOn ",") with
      | some r => "ok " ++ (if r.isEmpty then "-" else ",".intercalate r)
      | none => "err bad-op"
    | _, _, _ => "err bad-op"
  | some "apprun" =>
    match kv toks "cls", (kv toks "maxiter").bind parseInt?, getR toks "tol", kv toks "resids",
          (kv toks "flags").bind parseIntList?, (kv toks "fuel").bind parseInt? with
    | some cls, some m, some tol, some rs, some fl, some fuel =>
      (appRun cls m tol (rs.splitOn ",") fl fuel.toNat).getD "err bad-op"
    | _, _, _, _, _, _ => "err bad-op"
  | some "pdhg" => handlePdhg toks
  | some "gm" => handleGm toks
  | some "pdhgG" => handlePdhgG toks
  | some "newton" => handleNewton toks
  | some "admm" => handleAdmm toks
  | some "alm" => handleAlm toks
  | some "altmin" => handleAltMin toks
  | some "sdmmstop" => handleSdmmStop toks
  | some "gmG" => handleGmG toks
  | some "newtonG" => handleNewtonG toks
  | _ => "err bad-op"
end SigpyVerif.Drv.C15
