import SigpyVerif.Model.Py
import SigpyVerif.Model.Proto
import SigpyVerif.Model.C15
namespace SigpyVerif.Drv.C15
open SigpyVerif SigpyVerif.Proto SigpyVerif.C15

/-- (initial counter, selfIncr, done(iter, max_iter, resid, tol, flag)) of a class, from `Gen.AlgDone` -/
def classInfo (cls : String) : Option (Int × Int × (Int → Int → Rat → Rat → Bool → Bool)) :=
  match cls with
  | "Alg" => some (Gen.initIterAlg, Gen.selfIncrAlg, fun i m _ _ _ => Gen.doneAlg i m)
  | "PowerMethod" => some (Gen.initIterPowerMethod, Gen.selfIncrPowerMethod, fun i m _ _ _ => Gen.donePowerMethod i m)
  | "GradientMethod" => some (Gen.initIterGradientMethod, Gen.selfIncrGradientMethod,
      fun i m r t _ => Gen.doneGradientMethod i m r t)
  | "ConjugateGradient" => some (Gen.initIterConjugateGradient, Gen.selfIncrConjugateGradient,
      fun i m r t f => Gen.doneConjugateGradient i m f r t)
  | "PrimalDualHybridGradient" => some (Gen.initIterPrimalDualHybridGradient, Gen.selfIncrPrimalDualHybridGradient,
      fun i m r t _ => Gen.donePrimalDualHybridGradient i m r t)
  | "AltMin" => some (Gen.initIterAltMin, Gen.selfIncrAltMin, fun i m _ _ _ => Gen.doneAltMin i m)
  | "AugmentedLagrangianMethod" => some (Gen.initIterAugmentedLagrangianMethod, Gen.selfIncrAugmentedLagrangianMethod,
      fun i m _ _ _ => Gen.doneAugmentedLagrangianMethod i m)
  | "ADMM" => some (Gen.initIterADMM, Gen.selfIncrADMM, fun i m _ _ _ => Gen.doneADMM i m)
  | "SDMM" => some (Gen.initIterSDMM, Gen.selfIncrSDMM, fun i m _ _ f => Gen.doneSDMM i m f)
  | "NewtonsMethod" => some (Gen.initIterNewtonsMethod, Gen.selfIncrNewtonsMethod,
      fun i m r t _ => Gen.doneNewtonsMethod i m r t)
  | "GerchbergSaxton" => some (Gen.initIterGerchbergSaxton, Gen.selfIncrGerchbergSaxton,
      fun i m r t _ => Gen.doneGerchbergSaxton i m r t)
  | _ => none

/-- `resid` token: a rational, or `inf` (np.inf: larger than every tolerance) -/
def parseResid (s : String) (tol : Rat) : Option Rat :=
  if s == "inf" then some (ratAbs tol + 1) else parseRat? s

/-- events `u` | `d:<resid>:<tol>:<flag>`; replies the counter after each `u`, the verdict of each `d` -/
def trace (cls : String) (maxIter : Int) (evs : List String) : Option (List String) := do
  let (i0, inc, dn) ← classInfo cls
  let rec go (evs : List String) (iter : Int) (acc : List String) : Option (List String) :=
    match evs with
    | [] => some acc.reverse
    | e :: rest =>
      match e.splitOn ":" with
      | ["u"] => let it := ctrUpdate inc iter; go rest it (s!"i{it}" :: acc)
      | ["d", r, t, f] => do
          let tol ← parseRat? t
          let resid ← parseResid r tol
          let flag ← parseInt? f
          go rest iter (s!"d{fmtBool (dn iter maxIter resid tol (flag != 0))}" :: acc)
      | _ => none
  go evs i0 []

/-- the loop of `App.run` on the counter machine; the class-specific fields after `j` updates are
    `resids[j]`, `flags[j]` (taken from the observed run) -/
def appRun (cls : String) (maxIter : Int) (tol : Rat) (resids : List String) (flags : List Int) (fuel : Nat) :
    Option String := do
  let (i0, inc, dn) ← classInfo cls
  let rs ← resids.mapM (parseResid · tol)
  let done := fun (s : Int × Nat) => dn s.1 maxIter (rs.getD s.2 (rs.getLastD 0)) tol ((flags.getD s.2 (flags.getLastD 0)) != 0)
  let upd := fun (s : Int × Nat) => (ctrUpdate inc s.1, s.2 + Gen.appUpdatesPerPass)
  let (s, n, byDone) := runLoop done upd fuel (i0, 0) 0
  some s!"ok updates={s.2} passes={n} iter={s.1} done={fmtBool byDone}"

def getRV (toks : List String) (k : String) : Option RVec := ((kv toks k).bind parseRatList?).map List.toArray
def getR (toks : List String) (k : String) : Option Rat := (kv toks k).bind parseRat?

/-- `prox=none | soft:<lam> | box:<lo>:<hi>` as `alpha ↦ v ↦ prox(alpha, v)` -/
def parseProx (s : String) : Option (Option (Rat → RVec → RVec)) :=
  match s.splitOn ":" with
  | ["none"] => some none
  | ["soft", l] => (parseRat? l).map fun lam => some (fun a v => softThresh (lam * a) v)
  | ["box", lo, hi] => do let l ← parseRat? lo; let h ← parseRat? hi; some (some (fun _ v => clip l h v))
  | _ => none

def fmtV (v : RVec) : String := fmtRatList v.toList

/-- one `PrimalDualHybridGradient.update()` for `min_x ½‖A x - y‖² + g(x)` as set up by
    `LinearLeastSquares`: `proxfc(σ, u) = (u - σ y) / (1 + σ)` -/
def handlePdhg (toks : List String) : String :=
  match (kv toks "m").bind parseInt?, (kv toks "n").bind parseInt?, getRV toks "A", getRV toks "y",
        getR toks "tau", getR toks "sigma", getR toks "theta", getRV toks "x", getRV toks "u", getRV toks "xext",
        (kv toks "prox").bind parseProx with
  | some m, some n, some A, some y, some tau, some sigma, some theta, some x, some u, some xe, some prox =>
    let m := m.toNat; let n := n.toNat
    if A.size ≠ m * n ∨ y.size ≠ m ∨ x.size ≠ n ∨ u.size ≠ m ∨ xe.size ≠ n then "err size" else
    if tau == 0 ∨ sigma == 0 then "err zerodiv" else
    let proxfc := fun (s : Rat) (v : RVec) => rzip (fun vi yi => (vi - s * yi) / (1 + s)) v y
    let proxg := match prox with | none => (fun _ v => v) | some p => p
    let s' := pdhgUpdate ratV (rmatVec m n A) (rmatTVec m n A) proxfc proxg tau sigma theta
      { x := x, u := u, xext := xe, resid2 := 0 }
    s!"ok x={fmtV s'.x} u={fmtV s'.u} xext={fmtV s'.xext} resid2={fmtRat s'.resid2}"
  | _, _, _, _, _, _, _, _, _, _, _ => "err bad-op"

/-- one `GradientMethod.update()` for `gradf(x) = Q x - c` -/
def handleGm (toks : List String) : String :=
  match (kv toks "n").bind parseInt?, getRV toks "Q", getRV toks "c", getR toks "alpha",
        (kv toks "accel").bind parseInt?, (kv toks "prox").bind parseProx, getRV toks "x", getRV toks "z",
        getR toks "told", getR toks "tnew" with
  | some n, some Q, some c, some alpha, some acc, some prox, some x, some z, some told, some tnew =>
    let n := n.toNat
    if Q.size ≠ n * n ∨ c.size ≠ n ∨ x.size ≠ n ∨ z.size ≠ n then "err size" else
    if alpha == 0 ∨ (acc != 0 ∧ tnew == 0) then "err zerodiv" else
    let gradf := fun v => rzip (· - ·) (rmatVec n n Q v) c
    let s' := gmUpdate ratV (fun _ => tnew) gradf prox alpha (acc != 0) { x := x, z := z, t := told, resid2 := 0 }
    s!"ok x={fmtV s'.x} z={fmtV s'.z} resid2={fmtRat s'.resid2}"
  | _, _, _, _, _, _, _, _, _, _ => "err bad-op"

/-- protocol handler for property C15 (tokens after the property id). -/
def handle (toks : List String) : String :=
  match toks.head? with
  | some "trace" =>
    match kv toks "cls", (kv toks "maxiter").bind parseInt?, kv toks "ev" with
    | some cls, some m, some ev =>
      match trace cls m (if ev == "-" then [] else ev.splitOn ",") with
      | some r => "ok " ++ (if r.isEmpty then "-" else ",".intercalate r)
      | none => "err bad-op"
    | _, _, _ => "err bad-op"
  | some "apprun" =>
    match kv toks "cls", (kv toks "maxiter").bind parseInt?, getR toks "tol", kv toks "resids",
          (kv toks "flags").bind parseIntList?, (kv toks "fuel").bind parseInt? with
    | some cls, some m, some tol, some rs, some fl, some fuel =>
      (appRun cls m tol (rs.splitOn ",") fl fuel.toNat).getD "err bad-op"
    | _, _, _, _, _, _ => "err bad-op"
  | some "pdhg" => handlePdhg toks
  | some "gm" => handleGm toks
  | _ => "err bad-op"
end SigpyVerif.Drv.C15
