import SigpyVerif.Model.Py
import SigpyVerif.Model.Proto
namespace SigpyVerif.Drv.C06
/-- protocol handler for property C06 (tokens after the property id). -/
def handle (_toks : List String) : String := "err bad-op"
end SigpyVerif.Drv.C06
