import SigpyVerif.Model.Py
import SigpyVerif.Model.Proto
import SigpyVerif.Model.C06
namespace SigpyVerif.Drv.C06
open SigpyVerif SigpyVerif.Proto SigpyVerif.C06

def ratToFloat (r : Rat) : Float := Float.ofInt r.num / Float.ofNat r.den

/-- protocol handler for property C06 (tokens after the property id). -/
def handle (toks : List String) : String :=
  let getR (k : String) := (kv toks k).bind parseRat?
  let getI (k : String) := (kv toks k).bind parseInt?
  match toks.head? with
  | some "formulas" =>
    -- one axis: os length (three sites), scale, shift, apodisation centre
    match getR "os", getI "n" with
    | some os, some n =>
      s!"ok {Gen.oversampLen os n} {Gen.apodOsLen os n} {fmtRat (Gen.scaleFactor os n)} {Gen.scaleShift os n} {Gen.apodCentre n}"
    | _, _ => "err bad-op"
  | some "scalecoord" =>
    match getR "os", getI "n", (kv toks "c").bind parseRatList? with
    | some os, some n, some cs => s!"ok {fmtRatList (cs.map (Gen.scaleCoord os n))}"
    | _, _, _ => "err bad-op"
  | some "consts" =>
    match getR "os", (kv toks "shape").bind parseIntList?, getR "width" with
    | some os, some shape, some w =>
      let (a, b, c, d) := constsF shape os (ratToFloat w)
      s!"ok {fmtIntList (osShape os shape)} {a.toBits.toNat} {b.toBits.toNat} {c.toBits.toNat} {d.toBits.toNat}"
    | _, _, _ => "err bad-op"
  | some "kernelsum" =>
    -- one point on one axis: L, kappa, wrapped grid indices and kernel arguments of the generated interpolation
    match getR "os", getI "n", getR "c", getR "width" with
    | some os, some n, some c, some w =>
      if n ≤ 0 ∨ w ≤ 0 then "err bad-op" else
      let (L, κ, l) := kernelArgs os n c w
      s!"ok {L} {fmtRat κ} {fmtIntList (l.map (·.1))} {fmtRatList (l.map (·.2))}"
    | _, _, _, _ => "err bad-op"
  | _ => "err bad-op"
end SigpyVerif.Drv.C06
