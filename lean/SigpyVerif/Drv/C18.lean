import SigpyVerif.Model.Py
import SigpyVerif.Model.Proto
import SigpyVerif.Model.C18
namespace SigpyVerif.Drv.C18
open SigpyVerif SigpyVerif.Proto SigpyVerif.C18

def getI (toks : List String) (k : String) : Option Int := (kv toks k).bind parseInt?
def getR (toks : List String) (k : String) : Option Rat := (kv toks k).bind parseRat?

/-- `a|b|c` -> rationals -/
def parseBar (s : String) : Option (List Rat) := (s.splitOn "|").mapM parseRat?

/-- `x;y;z` with `-` for empty -/
def parseSemi {α} (f : String → Option α) (s : String) : Option (List α) :=
  if s == "-" then some [] else (s.splitOn ";").mapM f

def parseCand (s : String) : Option Cand :=
  match parseBar s with
  | some [v, c, s'] => some { v := v, c := c, s := s' }
  | _ => none

/-- `i:v|c|s:v|c|s` -/
def parseOuter (s : String) : Option (Nat × List Cand) :=
  match s.splitOn ":" with
  | [] => none
  | i :: cs => do
    let i' ← i.toNat?
    let cs' ← cs.mapM parseCand
    some (i', cs')

def grid (nx : Int) (a : Array Rat) : Int → Int → Rat := fun y x => a.getD (y * nx + x).toNat 1

def fmtTrace (t : List (Int × Bool)) : String :=
  if t.isEmpty then "-" else ",".intercalate (t.map fun (k, d) => s!"{k}:{fmtBool d}")

def fmtStates (t : List (Rat × Rat)) : String :=
  if t.isEmpty then "-" else ";".intercalate (t.map fun (a, b) => s!"{fmtRat a}|{fmtRat b}")

def lookup2 (tab : List (List Rat)) (lo hi : Rat) : Option Rat :=
  tab.findSome? fun r => match r with
    | [a, b, c] => if a == lo && b == hi then some c else none
    | _ => none

def lookup1 (tab : List (List Rat)) (s : Rat) : Option Rat :=
  tab.findSome? fun r => match r with
    | [a, b] => if a == s then some b else none
    | _ => none

/-- protocol handler for property C18 (tokens after the property id). -/
def handle (toks : List String) : String :=
  match toks.head? with
  | some "calib" =>
    match kv toks "ax", getI toks "n", getI toks "c" with
    | some "x", some n, some c => s!"ok {Gen.Samp.calibLoX n c} {Gen.Samp.calibHiX n c}"
    | some "y", some n, some c => s!"ok {Gen.Samp.calibLoY n c} {Gen.Samp.calibHiY n c}"
    | _, _, _ => "err bad-op"
  | some "keep" =>
    match getI toks "nx", getI toks "ny", getI toks "cx", getI toks "cy" with
    | some nx, some ny, some cx, some cy =>
      if Gen.Samp.radX nx cx 0 == 0 || Gen.Samp.radY ny cy 0 == 0 then "err degenerate" else
      let cells := (pyRange0 ny).flatMap fun y => (pyRange0 nx).map fun x => (y, x)
      let bits := String.join (cells.map fun (y, x) => fmtBool (keepAt nx ny cx cy y x))
      let ties := cells.filter fun (y, x) => rSqAt nx ny cx cy y x == 1
      let blk := cells.filter fun (y, x) =>
        decide (Gen.Samp.calibLoY ny cy ≤ y ∧ y < Gen.Samp.calibHiY ny cy ∧ Gen.Samp.calibLoX nx cx ≤ x ∧ x < Gen.Samp.calibHiX nx cx)
      let lost := blk.filter fun (y, x) => !(keepAt nx ny cx cy y x)
      s!"ok {bits} ties={fmtIntList (ties.map fun (y, x) => y * nx + x)} lost={fmtIntList (lost.map fun (y, x) => y * nx + x)}"
    | _, _, _, _ => "err bad-op"
  | some "sampler" =>
    match getI toks "nx", getI toks "ny", getI toks "cx", getI toks "cy", getI toks "ma",
          (kv toks "rx").bind parseRatList?, (kv toks "ry").bind parseRatList?, (kv toks "p0").bind parseIntList?,
          (kv toks "draws").bind (parseSemi parseOuter) with
    | some nx, some ny, some cx, some cy, some ma, some rx, some ry, some [p0x, p0y], some draws =>
      if rx.length ≠ (nx * ny).toNat || ry.length ≠ (nx * ny).toNat then "err size" else
      let c : Cfg := { nx := nx, ny := ny, cx := cx, cy := cy, maxAttempts := ma,
                       radX := grid nx rx.toArray, radY := grid nx ry.toArray }
      let (s, tr, live) := runTrace c (init c p0x p0y) draws []
      let s' := run c (init c p0x p0y) draws
      let flat (st : PState) := (pyRange0 ny).flatMap fun y => (pyRange0 nx).map fun x => st.mask y x
      if tr.all (fun (k, _) => k ≥ 0) && (flat s != flat s' || s.pxs != s'.pxs) then "err run-vs-trace" else
      s!"ok mask={fmtRatList (flat s)} trace={fmtTrace tr} px={fmtIntList s.pxs} py={fmtIntList s.pys} live={fmtBool live}"
    | _, _, _, _, _, _, _, _, _ => "err bad-op"
  | some "driver" =>
    match getI toks "nx", getI toks "ny", getR toks "accel", getR toks "tol", getI toks "fuel",
          (kv toks "mids").bind (parseSemi parseBar), (kv toks "sums").bind (parseSemi parseBar) with
    | some nx, some ny, some accel, some tol, some fuel, some mids, some sums =>
      let e : Env := { nx := nx, ny := ny, accel := accel, tol := tol, crop := false, keep := [],
                       mid := fun lo hi => (lookup2 mids lo hi).getD (-1),
                       sampler := fun s => match lookup1 sums s with | some v => [v] | none => [] }
      let st := loopStates e fuel.toNat (Gen.Samp.slopeMin0 nx ny) (Gen.Samp.slopeMax0 nx ny)
      let exact := st.all fun (lo, hi) =>
        let d := e.mid lo hi - Gen.Samp.slopeMid lo hi
        decide (lo ≤ e.mid lo hi ∧ e.mid lo hi ≤ hi ∧ ratAbs d * 4503599627370496 ≤ ratAbs hi + 1 / 1000000000000000000000000000000)
      let o := match poissonD e fuel.toNat with
        | .returned m => s!"returned:{fmtRat (msum m)}"
        | .raised => "raised"
        | .unbound => "unbound"
        | .outOfFuel => "running"
      s!"ok states={fmtStates st} outcome={o} mid-is-rounded-midpoint={fmtBool exact}"
    | _, _, _, _, _, _, _ => "err bad-op"
  | _ => "err bad-op"
end SigpyVerif.Drv.C18
