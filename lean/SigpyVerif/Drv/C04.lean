import SigpyVerif.Model.Py
import SigpyVerif.Model.Proto
import SigpyVerif.Model.C01Proto
import SigpyVerif.Model.C04
namespace SigpyVerif.Drv.C04
open SigpyVerif SigpyVerif.Proto
/-- protocol handler for property C04: the same `mats` request as C01 (third matrix = `normal e`), and
    `cover L=.. B=.. S=..`: per-axis cover counts (one list per axis, `|`-separated) with the
    `num_blks` of `ArrayToBlocks.__init__`. -/
def handle (toks : List String) : String :=
  match toks.head? with
  | some "cover" =>
    match (kv toks "L").bind parseIntList?, (kv toks "B").bind parseIntList?, (kv toks "S").bind parseIntList? with
    | some L, some B, some S =>
      if L.length ≠ B.length ∨ L.length ≠ S.length ∨ L.isEmpty then "err shape" else
      if (S.any fun s => s ≤ 0) ∨ (B.any fun b => b ≤ 0) ∨ ((L.zip B).any fun (l, b) => l < b) then "err value" else
      "ok " ++ " | ".intercalate (((L.zip (B.zip S)).map fun (l, b, s) => fmtIntList (C04.coverAxis l b s)))
    | _, _, _ => "err bad-op"
  | _ => SigpyVerif.C01.Proto.handle toks
end SigpyVerif.Drv.C04
