import SigpyVerif.Model.Py
import SigpyVerif.Model.Proto
import SigpyVerif.Model.C01Proto
namespace SigpyVerif.Drv.C04
/-- protocol handler for property C04: the same `mats` request as C01 (third matrix = `normal e`). -/
def handle (toks : List String) : String := SigpyVerif.C01.Proto.handle toks
end SigpyVerif.Drv.C04
