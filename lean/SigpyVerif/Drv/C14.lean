import SigpyVerif.Model.Py
import SigpyVerif.Model.Proto
import SigpyVerif.Model.C14
import SigpyVerif.Gen.C14Select
namespace SigpyVerif.Drv.C14
open SigpyVerif SigpyVerif.Proto SigpyVerif.C14

/-! Line protocol of C14.  Vectors `1/2,3`, lists of vectors / matrix rows separated by `|`. -/

def parseVec? (s : String) : Option RV := (parseRatList? s).map RV.mk

def parseVecs? (s : String) : Option (List RV) :=
  if s == "-" then some [] else (s.splitOn "|").mapM parseVec?

def parseMat? (s : String) (ncols : Nat) : Option Mat := do
  let rows ← parseVecs? s
  if rows.all (fun r => r.d.length == ncols) then some ⟨rows.map (·.d), ncols⟩ else none

def parseOptRat? (s : String) : Option (Option Rat) :=
  if s == "none" then some none else (parseRat? s).map some

def parseProx? (s : String) : Option (Option ProxK) :=
  match s.splitOn ":" with
  | ["none"] => some none
  | ["l1", c] => (parseRat? c).map fun c => some (.l1 c)
  | ["l2", c] => (parseRat? c).map fun c => some (.l2 c)
  | ["box", lo, hi] => do let lo ← parseRat? lo; let hi ← parseRat? hi; some (some (.box lo hi))
  | _ => none

def parseInst? (toks : List String) : Option Inst := do
  let n ← ((kv toks "n").bind parseInt?).map Int.toNat
  let A ← (kv toks "A").bind (parseMat? · n)
  let y ← (kv toks "y").bind parseVec?
  let lam ← (kv toks "lam").bind parseRat?
  let zs ← kv toks "z"
  let z ← if zs == "none" then some none else (parseVec? zs).map some
  let prox ← (kv toks "prox").bind parseProx?
  let gs ← kv toks "G"
  let G ← if gs == "none" then some none else (parseMat? gs n).map some
  if A.rows.length != y.d.length then none else
  some { A := A, y := y, lam := lam, z := z, prox := prox, G := G }

def fmtVec (v : RV) : String := fmtRatList v.d
def fmtVecs (l : List RV) : String := if l.isEmpty then "-" else "|".intercalate (l.map fmtVec)

def images (f : RV → RV) (n : Nat) : List RV := (List.range n).map fun j => f (RV.basis n j)

def splitAt (v : RV) (k : Nat) : RV × RV := (⟨v.d.take k⟩, ⟨v.d.drop k⟩)

/-- the stacked operator `Vstack([A, G])` and its adjoint -/
def Kf (I : Inst) (x : RV) : RV :=
  match I.G with
  | none => I.Af x
  | some G => (I.Af x).append (G.mulVec x)

def KHf (I : Inst) (u : RV) : RV :=
  match I.G with
  | none => I.AHf u
  | some G => let (u1, u2) := splitAt u I.A.rows.length; I.AHf u1 + G.tMulVec u2

def dualDim (I : Inst) : Nat :=
  I.A.rows.length + (match I.G with | none => 0 | some G => G.rows.length)

def proxfcEval (I : Inst) (su : PdhgSetup Rat RV RV RV) (a : Rat) (u : RV) : RV :=
  match su.proxfc2 with
  | none => su.proxfc1.eval (fun _ v => v) a u
  | some p2 =>
    let (u1, u2) := splitAt u I.A.rows.length
    (su.proxfc1.eval (fun _ v => v) a u1).append (p2.eval I.userProx a u2)

def zip3 {α β γ : Type} : List α → List β → List γ → List (α × β × γ)
  | a :: as, b :: bs, c :: cs => (a, b, c) :: zip3 as bs cs
  | _, _, _ => []

def handle (toks : List String) : String :=
  let getR (k : String) := (kv toks k).bind parseRat?
  let getO (k : String) := (kv toks k).bind parseOptRat?
  let getV (k : String) := (kv toks k).bind parseVec?
  let getVs (k : String) := (kv toks k).bind parseVecs?
  let getN (k : String) := ((kv toks k).bind parseInt?).map Int.toNat
  match toks.head? with
  | some "sel" =>
    match kv toks "solver", kv toks "proxg", kv toks "G" with
    | some s, some p, some g =>
      if (p != "0" && p != "1") || (g != "0" && g != "1") then "err bad-op" else
      let solver := if s == "none" then none else some s
      match Gen.C14.getAlg solver (p == "1") (g == "1") with
      | .built n => s!"ok built {n}"
      | .raised t => s!"ok raised {t}"
      | .cont _ => "ok cont"
    | _, _, _ => "err bad-op"
  | some "cg-setup" =>
    match parseInst? toks with
    | some I =>
      s!"ok M={fmtVecs (images (cgSys I.Af I.AHf I.lam) I.n)} b={fmtVec (cgRhs I.AHf I.y I.lam I.z)}"
    | none => "err bad-op"
  | some "gm-setup" =>
    match parseInst? toks, getVs "px", getO "alpha", getR "maxeig" with
    | some I, some px, some alpha, some me =>
      let g := px.map (gmGrad I.Af I.AHf I.y I.lam I.z)
      s!"ok E={fmtVecs (images (gmEigOp I.Af I.AHf I.lam) I.n)} g={fmtVecs g} alpha={fmtRat (gmAlpha alpha me)}"
    | _, _, _, _ => "err bad-op"
  | some "pdhg-setup" =>
    match parseInst? toks, getO "tau", getO "sigma", getR "maxeig", (kv toks "pa").bind parseRatList?,
          getVs "pu", getVs "px" with
    | some I, some tau, some sigma, some me, some pa, some pu, some px =>
      let su : PdhgSetup Rat RV RV RV := pdhgSetup I.y I.lam I.z I.prox.isSome I.G.isSome
      let fc := (List.zip pa pu).map fun (a, u) => proxfcEval I su a u
      let pg := (List.zip pa px).map fun (a, x) => su.proxg.eval I.userProx a x
      let (side, E) :=
        match pdhgEigSide tau sigma with
        | .primal s => ("primal", images (fun x => KHf I (s • Kf I x)) I.n)
        | .dual t => ("dual", images (fun u => Kf I (t • KHf I u)) (dualDim I))
        | .none => ("none", [])
      let (t, s) := pdhgSteps tau sigma me
      s!"ok K={fmtVecs (images (Kf I) I.n)} KH={fmtVecs (images (KHf I) (dualDim I))} fc={fmtVecs fc} pg={fmtVecs pg} gp={fmtRat su.gammaP} gd={fmtRat su.gammaD} side={side} E={fmtVecs E} tau={fmtRat t} sigma={fmtRat s}"
    | _, _, _, _, _, _, _ => "err bad-op"
  | some "admm-setup" =>
    match parseInst? toks, getR "rho", getVs "px", getVs "pv", getVs "pu" with
    | some I, some rho, some px, some pv, some pu =>
      let pr : Option (Rat → RV → RV) := I.prox.map fun p => p.eval
      match I.G with
      | none =>
        let M := images (admmSysNoG I.Af I.AHf I.lam rho) I.n
        let r := (List.zip pv pu).map fun (v, u) => admmRhsNoG I.AHf I.y I.lam I.z rho v u
        let v := (List.zip px pu).map fun (x, u) => admmV pr rho x u
        let u := (zip3 px pu v).map fun (x, u, v) => admmU u x v
        s!"ok M={fmtVecs M} r={fmtVecs r} v={fmtVecs v} u={fmtVecs u} Gx={fmtVecs px}"
      | some G =>
        let M := images (admmSysG I.Af I.AHf G.mulVec G.tMulVec I.lam rho) I.n
        let r := (List.zip pv pu).map fun (v, u) => admmRhsG I.AHf G.tMulVec I.y I.lam I.z rho v u
        let gx := px.map G.mulVec
        let v := (List.zip gx pu).map fun (x, u) => admmV pr rho x u
        let u := (zip3 gx pu v).map fun (x, u, v) => admmU u x v
        s!"ok M={fmtVecs M} r={fmtVecs r} v={fmtVecs v} u={fmtVecs u} Gx={fmtVecs gx}"
    | _, _, _, _, _ => "err bad-op"
  | some "obj" =>
    match parseInst? toks, getV "x", kv toks "g" with
    | some I, some x, some g =>
      let Gx := match I.G with | none => x | some G => G.mulVec x
      let gf : Option (RV → Rat) :=
        if g == "1" then I.prox.map fun p => fun v => (p.g v).getD 0 else none
      match objective (S := Rat) RV.nsq RV.nsq I.Af I.y I.lam I.z I.prox.isSome gf Gx x with
      | some o => s!"ok {fmtRat o}"
      | none => "ok raise"
    | _, _, _ => "err bad-op"
  | some "run" =>
    match parseInst? toks, kv toks "solver", getV "x0", getN "iters" with
    | some I, some solver, some x0, some iters =>
      let P : Option (RV → RV) :=
        match (kv toks "P") with
        | some "none" | none => none
        | some s => (parseVec? s).map fun d => fun r => ⟨List.zipWith (· * ·) d.d r.d⟩
      if solver == "cg" then
        if I.prox.isSome then "err reject" else
        s!"ok {fmtVec (cgRun (cgSys I.Af I.AHf I.lam) P (cgRhs I.AHf I.y I.lam I.z) x0 iters)}"
      else if solver == "gm" then
        match getR "alpha", kv toks "acc" with
        | some alpha, some acc =>
          if I.G.isSome then "err reject" else
          let pr : Option (Rat → RV → RV) := I.prox.map fun p => p.eval
          let tr := iterate (gmStep (gmGrad I.Af I.AHf I.y I.lam I.z) alpha pr (acc == "1")) iters
            { x := x0, z := x0, t := 1 }
          s!"ok {fmtVecs (tr.map (·.x))}"
        | _, _ => "err bad-op"
      else if solver == "pdhg" then
        match getR "tau", getR "sigma" with
        | some tau, some sigma =>
          let su : PdhgSetup Rat RV RV RV := pdhgSetup I.y I.lam I.z I.prox.isSome I.G.isSome
          let u2n := match I.G with | none => 0 | some G => G.rows.length
          let tr := iterate (pdhgStep I su) iters
            { x := x0, xExt := x0, u1 := RV.zeros I.A.rows.length, u2 := RV.zeros u2n, tau := tau, sigma := sigma,
              tauMin := ratAbs tau, sigmaMin := ratAbs sigma }
          s!"ok {fmtVecs (tr.map (·.x))}"
        | _, _ => "err bad-op"
      else if solver == "admm" then
        match getR "rho", getN "maxcg" with
        | some rho, some maxcg =>
          let v0 := match I.G with | none => x0 | some G => G.mulVec x0
          let tr := iterate (admmStep I rho P maxcg) iters { x := x0, v := v0, u := RV.zeros v0.d.length }
          s!"ok {fmtVecs (tr.map (·.x))}"
        | _, _ => "err bad-op"
      else "err bad-op"
    | _, _, _, _ => "err bad-op"
  | _ => "err bad-op"
end SigpyVerif.Drv.C14
