import SigpyVerif.Model.Py
import SigpyVerif.Model.Proto
import SigpyVerif.Model.C14
import SigpyVerif.Model.C14Power
import SigpyVerif.Gen.C14Select
namespace SigpyVerif.Drv.C14
open SigpyVerif SigpyVerif.Proto SigpyVerif.C14

/-! Line protocol of C14.  Vectors `1/2,3`, lists of vectors / matrix rows separated by `|`. -/

def parseVec? (s : String) : Option RV := (parseRatList? s).map RV.mk

def parseVecs? (s : String) : Option (List RV) :=
  if s == "-" then some [] else (s.splitOn "|").mapM parseVec?

def parseMat? (s : String) (ncols : Nat) : Option Mat := do
  let rows ← parseVecs? s
  if rows.all (fun r => r.d.length == ncols) then some ⟨rows.map (·.d), ncols⟩ else none

def parseOptRat? (s : String) : Option (Option Rat) :=
  if s == "none" then some none else (parseRat? s).map some

def parseProx? (s : String) : Option (Option ProxK) :=
  match s.splitOn ":" with
  | ["none"] => some none
  | ["l1", c] => (parseRat? c).map fun c => some (.l1 c)
  | ["l2", c] => (parseRat? c).map fun c => some (.l2 c)
  | ["box", lo, hi] => do let lo ← parseRat? lo; let hi ← parseRat? hi; some (some (.box lo hi))
  | _ => none

def parseInst? (toks : List String) : Option Inst := do
  let n ← ((kv toks "n").bind parseInt?).map Int.toNat
  let A ← (kv toks "A").bind (parseMat? · n)
  let y ← (kv toks "y").bind parseVec?
  let lam ← (kv toks "lam").bind parseRat?
  let zs ← kv toks "z"
  let z ← if zs == "none" then some none else (parseVec? zs).map some
  let prox ← (kv toks "prox").bind parseProx?
  let gs ← kv toks "G"
  let G ← if gs == "none" then some none else (parseMat? gs n).map some
  if A.rows.length != y.d.length then none else
  some { A := A, y := y, lam := lam, z := z, prox := prox, G := G }

def fmtVec (v : RV) : String := fmtRatList v.d
def fmtVecs (l : List RV) : String := if l.isEmpty then "-" else "|".intercalate (l.map fmtVec)

def images (f : RV → RV) (n : Nat) : List RV := (List.range n).map fun j => f (RV.basis n j)

def splitAt (v : RV) (k : Nat) : RV × RV := (⟨v.d.take k⟩, ⟨v.d.drop k⟩)

/-- vectors of the product space `Pair RV RV` travel as one concatenated list -/
def toPair (k : Nat) (u : RV) : Pair RV RV := let (a, b) := splitAt u k; ⟨a, b⟩
def ofPair (p : Pair RV RV) : RV := p.fst.append p.snd

def dualDim (I : Inst) : Nat :=
  I.A.rows.length + (match I.G with | none => 0 | some G => G.rows.length)

/-- the fields of a generated `PdhgArgs` flattened to functions on `RV` (dual vectors concatenated) -/
structure PdhgFlat where
  K : RV → RV
  KH : RV → RV
  proxfc : Rat → RV → RV
  proxg : Rat → RV → RV
  tau : Rat
  sigma : Rat
  gammaP : Rat
  gammaD : Rat
  side : String
  E : List RV

def pdhgFlat (I : Inst) (tau sigma : Option Rat) (me : Rat) : PdhgFlat :=
  let m := I.A.rows.length
  match I.G with
  | none =>
    let su := Gen.C14.pdhgArgsNoG I.Af I.AHf I.y I.lam I.z I.prox.isSome tau sigma me
    let (side, E) := match su.eig with
      | .primal f => ("primal", images f I.n)
      | .dual f => ("dual", images f m)
      | .none => ("none", [])
    { K := su.K, KH := su.KH, proxfc := su.proxfc.eval (fun _ v => v), proxg := su.proxg.eval I.userProx,
      tau := su.tau, sigma := su.sigma, gammaP := su.gammaP, gammaD := su.gammaD, side := side, E := E }
  | some G =>
    let su := Gen.C14.pdhgArgsG I.Af I.AHf G.mulVec G.tMulVec I.y I.lam I.z I.prox.isSome tau sigma me
    let (side, E) := match su.eig with
      | .primal f => ("primal", images f I.n)
      | .dual f => ("dual", images (fun u => ofPair (f (toPair m u))) (dualDim I))
      | .none => ("none", [])
    { K := fun x => ofPair (su.K x), KH := fun u => su.KH (toPair m u),
      proxfc := fun a u => ofPair (su.proxfc.eval (fun _ v => v) I.userProx a (toPair m u)),
      proxg := su.proxg.eval (fun _ v => v),
      tau := su.tau, sigma := su.sigma, gammaP := su.gammaP, gammaD := su.gammaD, side := side, E := E }

/-- the generated `AdmmArgs` of the instance (`Z = RV` in both variants) -/
def admmOf (I : Inst) (rho : Rat) : AdmmArgs Rat RV RV :=
  let pr : Option (Rat → RV → RV) := I.prox.map fun p => p.eval
  match I.G with
  | none => Gen.C14.admmArgsNoG I.Af I.AHf I.y I.lam I.z rho pr
  | some G => Gen.C14.admmArgsG I.Af I.AHf G.mulVec G.tMulVec I.y I.lam I.z rho pr

def zip3 {α β γ : Type} : List α → List β → List γ → List (α × β × γ)
  | a :: as, b :: bs, c :: cs => (a, b, c) :: zip3 as bs cs
  | _, _, _ => []

def handle (toks : List String) : String :=
  let getR (k : String) := (kv toks k).bind parseRat?
  let getO (k : String) := (kv toks k).bind parseOptRat?
  let getV (k : String) := (kv toks k).bind parseVec?
  let getVs (k : String) := (kv toks k).bind parseVecs?
  let getN (k : String) := ((kv toks k).bind parseInt?).map Int.toNat
  match toks.head? with
  | some "sel" =>
    match kv toks "solver", kv toks "proxg", kv toks "G" with
    | some s, some p, some g =>
      if (p != "0" && p != "1") || (g != "0" && g != "1") then "err bad-op" else
      let solver := if s == "none" then none else some s
      match Gen.C14.getAlg solver (p == "1") (g == "1") with
      | .built n => s!"ok built {n}"
      | .raised t => s!"ok raised {t}"
      | .cont _ => "ok cont"
    | _, _, _ => "err bad-op"
  | some "cg-setup" =>
    match parseInst? toks with
    | some I =>
      let a := Gen.C14.cgArgs I.Af I.AHf I.y I.lam I.z
      s!"ok M={fmtVecs (images a.sys I.n)} b={fmtVec a.rhs}"
    | none => "err bad-op"
  | some "gm-setup" =>
    match parseInst? toks, getVs "px", getO "alpha", getR "maxeig" with
    | some I, some px, some alpha, some me =>
      let a := Gen.C14.gmArgs I.Af I.AHf I.y I.lam I.z alpha me
      let (side, E) := match a.eig with
        | .primal f => ("primal", images f I.n)
        | .dual f => ("dual", images f I.n)
        | .none => ("none", [])
      s!"ok side={side} E={fmtVecs E} g={fmtVecs (px.map a.gradf)} alpha={fmtRat a.alpha}"
    | _, _, _, _ => "err bad-op"
  | some "pdhg-setup" =>
    match parseInst? toks, getO "tau", getO "sigma", getR "maxeig", (kv toks "pa").bind parseRatList?,
          getVs "pu", getVs "px" with
    | some I, some tau, some sigma, some me, some pa, some pu, some px =>
      let su := pdhgFlat I tau sigma me
      let fc := (List.zip pa pu).map fun (a, u) => su.proxfc a u
      let pg := (List.zip pa px).map fun (a, x) => su.proxg a x
      s!"ok K={fmtVecs (images su.K I.n)} KH={fmtVecs (images su.KH (dualDim I))} fc={fmtVecs fc} pg={fmtVecs pg} gp={fmtRat su.gammaP} gd={fmtRat su.gammaD} side={su.side} E={fmtVecs su.E} tau={fmtRat su.tau} sigma={fmtRat su.sigma}"
    | _, _, _, _, _, _, _ => "err bad-op"
  | some "admm-setup" =>
    match parseInst? toks, getR "rho", getVs "px", getVs "pv", getVs "pu" with
    | some I, some rho, some px, some pv, some pu =>
      let a := admmOf I rho
      match zip3 px pv pu with
      | [] => "err bad-op"
      | (x0, v0, u0) :: _ =>
        let M := images (a.minLx x0 v0 u0).sys I.n
        let r := (zip3 px pv pu).map fun (x, v, u) => (a.minLx x v u).rhs
        let v := (zip3 px pv pu).map fun (x, v, u) => a.minLv x v u
        let u := (zip3 px pu v).map fun (x, u, v) => u + ⟨(a.A x + a.B v).d.map (· - a.c)⟩
        let xi := (getV "x0").getD (RV.zeros I.n)
        s!"ok M={fmtVecs M} r={fmtVecs r} v={fmtVecs v} u={fmtVecs u} v00={fmtVec (a.v0 xi)}"
    | _, _, _, _, _ => "err bad-op"
  | some "obj" =>
    match parseInst? toks, getV "x", kv toks "g" with
    | some I, some x, some g =>
      let Gx := match I.G with | none => x | some G => G.mulVec x
      let gf : Option (RV → Rat) :=
        if g == "1" then I.prox.map fun p => fun v => (p.g v).getD 0 else none
      match objective (S := Rat) RV.nsq RV.nsq I.Af I.y I.lam I.z I.prox.isSome gf Gx x with
      | some o => s!"ok {fmtRat o}"
      | none => "ok raise"
    | _, _, _ => "err bad-op"
  | some "run" =>
    match parseInst? toks, kv toks "solver", getV "x0", getN "iters" with
    | some I, some solver, some x0, some iters =>
      let P : Option (RV → RV) :=
        match (kv toks "P") with
        | some "none" | none => none
        | some s => (parseVec? s).map fun d => fun r => ⟨List.zipWith (· * ·) d.d r.d⟩
      if solver == "cg" then
        if I.prox.isSome then "err reject" else
        let a := Gen.C14.cgArgs I.Af I.AHf I.y I.lam I.z
        s!"ok {fmtVec (cgRun a.sys P a.rhs x0 iters)}"
      else if solver == "gm" then
        match getR "alpha", kv toks "acc" with
        | some alpha, some acc =>
          if I.G.isSome then "err reject" else
          let pr : Option (Rat → RV → RV) := I.prox.map fun p => p.eval
          let a := Gen.C14.gmArgs I.Af I.AHf I.y I.lam I.z (some alpha) 1
          let tr := iterate (gmStep a.gradf a.alpha pr (acc == "1")) iters
            { x := x0, z := x0, t := 1 }
          s!"ok {fmtVecs (tr.map (·.x))}"
        | _, _ => "err bad-op"
      else if solver == "pdhg" then
        match getR "tau", getR "sigma" with
        | some tau, some sigma =>
          let su := pdhgFlat I (some tau) (some sigma) 1
          let tr := iterate (pdhgStep su.K su.KH su.proxfc su.proxg su.gammaP su.gammaD) iters
            { x := x0, xExt := x0, u := RV.zeros (dualDim I), tau := su.tau, sigma := su.sigma,
              tauMin := ratAbs su.tau, sigmaMin := ratAbs su.sigma }
          s!"ok {fmtVecs (tr.map (·.x))}"
        | _, _ => "err bad-op"
      else if solver == "admm" then
        match getR "rho", getN "maxcg" with
        | some rho, some maxcg =>
          let a := admmOf I rho
          let v0 := a.v0 x0
          let tr := iterate (admmStep a P maxcg) iters { x := x0, v := v0, u := RV.zeros v0.d.length }
          s!"ok {fmtVecs (tr.map (·.x))}"
        | _, _ => "err bad-op"
      else "err bad-op"
    | _, _, _, _ => "err bad-op"
  | some "power" =>
    -- `PowerMethod(M, x0)` stepped `iters` times with the GENERATED update; `MaxEig(M, max_iter=mi).run()` from `x0`
    match getN "n", kv toks "M", getV "x0", getN "iters", (kv toks "mi").bind parseInt? with
    | some n, some ms, some x0, some iters, some mi =>
      match parseMat? ms n with
      | some Mt =>
        if x0.d.length != n then "err bad-op" else
        let tr := iterate (Gen.C14.pmUpdate ratPmOps Mt.mulVec Gen.C14.maxEigNormFunc) iters (Gen.C14.pmInit x0)
        let est := tr.map fun s => match s.maxEig with | some e => fmtRat e | none => "inf"
        let xs := tr.map (·.x)
        let its := tr.map fun s => fmtInt s.iter
        let dn := tr.map fun s => fmtBool (Gen.C14.pmDone mi s)
        let out := match maxEigRun ratPmOps Mt.mulVec x0 mi with | some e => fmtRat e | none => "inf"
        let sep := ","
        s!"ok est={if est.isEmpty then "-" else sep.intercalate est} x={fmtVecs xs} iter={if its.isEmpty then "-" else sep.intercalate its} done={if dn.isEmpty then "-" else sep.intercalate dn} out={out} def={fmtInt Gen.C14.maxEigDefaultIter}"
      | none => "err bad-op"
    | _, _, _, _, _ => "err bad-op"
  | _ => "err bad-op"
end SigpyVerif.Drv.C14
