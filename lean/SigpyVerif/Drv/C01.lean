import SigpyVerif.Model.Py
import SigpyVerif.Model.Proto
import SigpyVerif.Model.C01Proto
import SigpyVerif.Gen.LinopAdjoint
namespace SigpyVerif.Drv.C01
open SigpyVerif SigpyVerif.Proto SigpyVerif.C01 SigpyVerif.C01.Proto

/-- the two entry lists of the `ext` leaf of a 1-D single-channel convolution class: what the class denotes
    and what the class returned by the *generated* `_adjoint_linop` table denotes (Props/C01Ext.lean
    proves them adjoint) -/
def convReply (c : Opaque GRat) : String :=
  match convSem GRat.conj c, convSem GRat.conj (Gen.LinopAdjoint.adjOpaque c) with
  | some s1, some s2 =>
    match dense s1, dense s2 with
    | some M, some MH =>
      if s2.osh = s1.ish ∧ s2.ish = s1.osh then
        s!"ok {fmtIntList s1.osh} | {fmtIntList s1.ish} | {fmtMat M} | {fmtMat MH} | -"
      else "err adj-shape"
    | _, _ => "err index"
  | none, _ => "err build"
  | _, _ => "err adj-build"

/-- protocol handler for property C01 (tokens after the property id).
    `findiff <shape> <normalised axes>`: the tree generated from the source of `FiniteDifference`
    (Gen/LinopAdjoint.lean), answered like `mats`.
    `convext <class> <data shape> <filter shape> <array> <mode> <strides|none>`: the imported convolution leaf. -/
def handle (toks : List String) : String :=
  match toks with
  | ["findiff", sh, ax] =>
    match parseIntList? sh, parseIntList? ax with
    | some s, some a =>
      match Gen.LinopAdjoint.finiteDifference (⟨-1, 0⟩ : GRat) s a with
      | some e => matsReply e
      | none => "err build"
    | _, _ => "err bad-op"
  | ["convext", kind, ds, fs, arr, mode, st] =>
    match parseIntList? ds, parseIntList? fs, parseGList arr, optInts st with
    | some d, some f, some a, some s =>
      match kind with
      | "convdata" => convReply (.convData d ⟨f, a⟩ mode s false)
      | "convdataadj" => convReply (.convDataAdj d ⟨f, a⟩ mode s false)
      | "convfilt" => convReply (.convFilt f ⟨d, a⟩ mode s false)
      | "convfiltadj" => convReply (.convFiltAdj f ⟨d, a⟩ mode s false)
      | _ => "err bad-op"
    | _, _, _, _ => "err bad-op"
  | _ => SigpyVerif.C01.Proto.handle toks
end SigpyVerif.Drv.C01
