import SigpyVerif.Model.Py
import SigpyVerif.Model.Proto
import SigpyVerif.Model.C01Proto
import SigpyVerif.Gen.LinopAdjoint
namespace SigpyVerif.Drv.C01
open SigpyVerif SigpyVerif.Proto SigpyVerif.C01
/-- protocol handler for property C01 (tokens after the property id).
    `findiff <shape> <normalised axes>`: the tree generated from the source of `FiniteDifference`
    (Gen/LinopAdjoint.lean), answered like `mats`. -/
def handle (toks : List String) : String :=
  match toks with
  | ["findiff", sh, ax] =>
    match parseIntList? sh, parseIntList? ax with
    | some s, some a =>
      match Gen.LinopAdjoint.finiteDifference (⟨-1, 0⟩ : GRat) s a with
      | some e => SigpyVerif.C01.Proto.matsReply e
      | none => "err build"
    | _, _ => "err bad-op"
  | _ => SigpyVerif.C01.Proto.handle toks
end SigpyVerif.Drv.C01
