import SigpyVerif.Model.Py
import SigpyVerif.Model.Proto
import SigpyVerif.Model.C01Proto
namespace SigpyVerif.Drv.C01
/-- protocol handler for property C01 (tokens after the property id). -/
def handle (toks : List String) : String := SigpyVerif.C01.Proto.handle toks
end SigpyVerif.Drv.C01
