import SigpyVerif.Model.Py
import SigpyVerif.Model.Proto
import SigpyVerif.Model.C09
namespace SigpyVerif.Drv.C09
open SigpyVerif SigpyVerif.Proto

def optList (toks : List String) (k : String) : Option (Option (List Int)) :=
  match kv toks k with
  | none => none
  | some "none" => some none
  | some s => (parseIntList? s).map some

def reply (shape : List Int) (d : Array Rat) : String :=
  s!"ok {fmtIntList shape} | {fmtRatList d.toList}"

/-- protocol handler for property C09 (tokens after the property id). -/
def handle (toks : List String) : String :=
  let getL (k : String) := (kv toks k).bind parseIntList?
  let getX := ((kv toks "x").bind parseRatList?).map List.toArray
  match toks.head? with
  | some "resize" =>
    match getL "ish", getL "osh", optList toks "is", optList toks "os", getX with
    | some ish, some osh, some is', some os', some x =>
      if x.size ≠ (shapeProd ish).toNat then "err size" else
      reply osh (C09.resize ish osh is' os' x)
    | _, _, _, _, _ => "err bad-op"
  | some "flip" =>
    match getL "sh", optList toks "ax", getX with
    | some sh, some ax, some x => reply sh (C09.flip sh ax x)
    | _, _, _ => "err bad-op"
  | some "circshift" =>
    match getL "sh", getL "sf", optList toks "ax", getX with
    | some sh, some sf, some ax, some x =>
      match C09.circshift sh sf ax x with
      | some y => reply sh y
      | none => "err assert"
    | _, _, _, _ => "err bad-op"
  | some "downsample" =>
    match getL "sh", getL "f", optList toks "s", getX with
    | some sh, some f, some s, some x => let (o, y) := C09.downsample sh f s x; reply o y
    | _, _, _, _ => "err bad-op"
  | some "upsample" =>
    match getL "osh", getL "f", optList toks "s", getX with
    | some osh, some f, some s, some x => let (_, y) := C09.upsample osh f s x; reply osh y
    | _, _, _, _ => "err bad-op"
  | some "a2b" =>
    match getL "lead", getL "n", getL "blk", getL "str", getX with
    | some lead, some n, some blk, some str, some x =>
      match C09.arrayToBlocks lead n blk str x with
      | some (o, y) => reply o y
      | none => "err index"
    | _, _, _, _, _ => "err bad-op"
  | some "b2a" =>
    match getL "lead", getL "n", getL "blk", getL "str", getL "nb", getX with
    | some lead, some n, some blk, some str, some nb, some x =>
      match C09.blocksToArray lead n blk str nb x with
      | some (o, y) => reply o y
      | none => "err index"
    | _, _, _, _, _, _ => "err bad-op"
  | _ => "err bad-op"
end SigpyVerif.Drv.C09
