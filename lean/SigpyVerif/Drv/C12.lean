import SigpyVerif.Model.Py
import SigpyVerif.Model.Proto
import SigpyVerif.Model.C12
namespace SigpyVerif.Drv.C12
open SigpyVerif SigpyVerif.Proto SigpyVerif.C12

def fmtState (maxIter : Int) (tol : Rat) (s : State CVec Rat) : String :=
  s!"x={fmtCRatList s.x.toList} r={fmtCRatList s.r.toList} p={fmtCRatList s.p.toList} rz={fmtRat s.rzold} resid2={fmtRat s.resid2} npd={fmtBool s.npd} iter={s.iter} alias={fmtBool s.alias} done={fmtBool (done ratOps maxIter tol s)}"

def natBits (n : Nat) : Nat := if n = 0 then 0 else n.log2 + 1

def ratBits (q : Rat) : Nat := max (natBits q.num.natAbs) (natBits q.den)

/-- largest `int.bit_length()` of a numerator or denominator in `x`, `r`, `p` (the harness stops a run of the
    real class at 40000 bits — a broken recurrence doubles the size of the fractions with every update — and so
    does the machine, now that it follows the source) -/
def stateBits (s : State CVec Rat) : Nat :=
  let f := fun (acc : Nat) (z : CRat) => max acc (max (ratBits z.1) (ratBits z.2))
  s.p.foldl f (s.r.foldl f (s.x.foldl f 0))

def parseP (n : Nat) (Ps : String) : Option (Option (CVec → CVec)) :=
  if Ps == "none" then some none else
  match Ps.splitOn ":" with
  | ["diag", l] => (parseCRatList? l).bind fun d =>
      if d.length ≠ n then none else some (some (fun v => vzip cmul d.toArray v))
  | ["dense", l] => (parseCRatList? l).bind fun d =>
      if d.length ≠ n * n then none else some (some (matVec n d.toArray))
  | _ => none

/-- `C12 step n= A= P= maxiter= tol= x= r= p= rz= resid2= npd= iter=` → the state after ONE `update()` from
    an arbitrary state (used for the float tie: a float state is an exact dyadic-rational state). -/
def handleStep (toks : List String) : String :=
  let getV (k : String) := ((kv toks k).bind parseCRatList?).map List.toArray
  let getR (k : String) := (kv toks k).bind parseRat?
  match (kv toks "n").bind parseInt?, getV "A", kv toks "P", (kv toks "maxiter").bind parseInt?, getR "tol",
        getV "x", getV "r", getV "p", getR "rz", getR "resid2", (kv toks "npd").bind parseInt?,
        (kv toks "iter").bind parseInt? with
  | some n, some A, some Ps, some maxIter, some tol, some x, some r, some p, some rz, some r2, some npd, some it =>
    let n := n.toNat
    if A.size ≠ n * n ∨ x.size ≠ n ∨ r.size ≠ n ∨ p.size ≠ n then "err size" else
    match parseP n Ps with
    | none => "err bad-op"
    | some P =>
      let s : State CVec Rat := { x := x, r := r, p := p, rzold := rz, resid2 := r2, npd := npd != 0, iter := it,
                                  alias := !decide (maxIter > 1) }
      if divByZero (matVec n A) maxIter s then "err zerodiv" else
      "ok " ++ fmtState maxIter tol (update ratOps (matVec n A) P maxIter s)
  | _, _, _, _, _, _, _, _, _, _, _, _ => "err bad-op"

/-- `C12 run n= A= b= x= P=none|diag:<list>|dense:<list> maxiter= tol= k=` → the state after
    `__init__` and after each of the `k` updates, separated by ` # `. -/
def handle (toks : List String) : String :=
  match toks.head? with
  | some "run" =>
    let getV (k : String) := ((kv toks k).bind parseCRatList?).map List.toArray
    match (kv toks "n").bind parseInt?, getV "A", getV "b", getV "x", kv toks "P",
          (kv toks "maxiter").bind parseInt?, (kv toks "tol").bind parseRat?, (kv toks "k").bind parseInt? with
    | some n, some A, some b, some x, some Ps, some maxIter, some tol, some k =>
      let n := n.toNat
      if A.size ≠ n * n ∨ b.size ≠ n ∨ x.size ≠ n then "err size" else
      match parseP n Ps with
      | none => "err bad-op"
      | some P =>
        let Af := matVec n A
        let rec go (fuel : Nat) (s : State CVec Rat) (acc : List String) : List String :=
          match fuel with
          | 0 => acc.reverse
          | f + 1 =>
            if divByZero Af maxIter s then ("err zerodiv" :: acc).reverse
            else
              let s' := update ratOps Af P maxIter s
              if stateBits s' > 40000 then ("err fraction-blowup" :: fmtState maxIter tol s' :: acc).reverse
              else go f s' (fmtState maxIter tol s' :: acc)
        let s0 := init ratOps Af P b x maxIter
        "ok " ++ " # ".intercalate (go k.toNat s0 [fmtState maxIter tol s0])
    | _, _, _, _, _, _, _, _ => "err bad-op"
  | some "step" => handleStep toks
  | _ => "err bad-op"
end SigpyVerif.Drv.C12
