import SigpyVerif.Model.Py
import SigpyVerif.Model.Proto
namespace SigpyVerif.Drv.C12
/-- protocol handler for property C12 (tokens after the property id). -/
def handle (_toks : List String) : String := "err bad-op"
end SigpyVerif.Drv.C12
