import SigpyVerif.Model.Py
import SigpyVerif.Model.Proto
import SigpyVerif.Model.C11
import SigpyVerif.Model.C11Psd
namespace SigpyVerif.Drv.C11
open SigpyVerif SigpyVerif.Proto SigpyVerif.C11

/-
  Requests (tokens after `C11`):
    call a=<rat> sh=<ints> x=<crats> :: <expr>      -> ok <shape> | <crats>      (P(α, x))
    callgen a=<rat> sh=<ints> x=<crats> :: stack …  -> the same, computed by the GENERATED `Prox.__call__` guard around the
                                                        GENERATED `Stack._prox` / `util.split` / `util.vec`
                                                        (`Gen.ProxBody.callWith`, `stackProxWith`; inner calls = the model)
    kkt eps=<rat> x=<crats>                          -> ok feasible=<0|1> theta=<rat|none> kkt=<0|1>
    hard lam=<rat> x=<crats>                         -> ok <crats>
    psd n=<nat> y=<crats> v=<crats> w=<rats>         -> ok <crats>   (row-major n×n; `err contract` unless
                                                        VᴴV = I and V diag(w) Vᴴ = the matrix passed to eigh, exactly)
  <expr> (prefix):  noop S | l1reg S lam | l2reg S lam Y | l2regH S lam Y <expr> | l2proj S eps Y AX
                  | linf S eps Y | l1proj S eps | box S LO HI | conj <expr> | stack n <expr>*n
                  | unitary ISH OSH M <expr>
    S, AX: int lists (`-` empty, `none`), Y: crat list or `none`, LO/HI: rat lists,
    M: rows separated by `|`, entries by `,`.
-/

def optCList (s : String) : Option (Option (Array CQ)) :=
  if s == "none" then some none else (parseCRatList? s).map (fun l => some l.toArray)

def optIList (s : String) : Option (Option (List Int)) :=
  if s == "none" then some none else (parseIntList? s).map some

def parseMat (s : String) : Option (Array (Array CQ)) :=
  ((s.splitOn "|").mapM fun r => (parseCRatList? r).map List.toArray).map List.toArray

mutual
def parseE : Nat → List String → Option (PExpr × List String)
  | 0, _ => none
  | fuel + 1, toks =>
    match toks with
    | "noop" :: s :: rest => do pure (.noop (← parseIntList? s), rest)
    | "l1reg" :: s :: l :: rest => do pure (.l1reg (← parseIntList? s) (← parseRat? l), rest)
    | "l2reg" :: s :: l :: y :: rest => do pure (.l2reg (← parseIntList? s) (← parseRat? l) (← optCList y), rest)
    | "l2regH" :: s :: l :: y :: rest => do
        let (h, rest') ← parseE fuel rest
        pure (.l2regH (← parseIntList? s) (← parseRat? l) (← optCList y) h, rest')
    | "l2proj" :: s :: e :: y :: ax :: rest => do
        pure (.l2proj (← parseIntList? s) (← parseRat? e) ((← parseCRatList? y).toArray) (← optIList ax), rest)
    | "linf" :: s :: e :: b :: rest => do pure (.linfproj (← parseIntList? s) (← parseRat? e) (← optCList b), rest)
    | "l1proj" :: s :: e :: rest => do pure (.l1proj (← parseIntList? s) (← parseRat? e), rest)
    | "box" :: s :: lo :: hi :: rest => do
        pure (.box (← parseIntList? s) ((← parseRatList? lo).toArray) ((← parseRatList? hi).toArray), rest)
    | "conj" :: rest => do
        let (p, rest') ← parseE fuel rest
        pure (.conj p, rest')
    | "stack" :: n :: rest => do
        let k ← n.toNat?
        let (ps, rest') ← parseL fuel k rest
        pure (.stack ps, rest')
    | "unitary" :: ish :: osh :: m :: rest => do
        let (p, rest') ← parseE fuel rest
        pure (.unitary p (← parseIntList? ish) (← parseIntList? osh) (← parseMat m), rest')
    | _ => none
def parseL : Nat → Nat → List String → Option (PList × List String)
  | 0, _, _ => none
  | _ + 1, 0, toks => some (.nil, toks)
  | fuel + 1, k + 1, toks => do
      let (p, rest) ← parseE fuel toks
      let (ps, rest') ← parseL fuel k rest
      pure (.cons p ps, rest')
end

def plist : PList → List PExpr
  | .nil => []
  | .cons p rest => p :: plist rest

/-- `Stack(ps)(α, x)` through the generated guard and the generated `_prox` body -/
def stackGen (ps : PList) (α : Rat) (x : Tens) : Except String Tens :=
  let proxs := (plist ps).map fun p => fun (a : Rat) (u : Arr CQ) =>
    (call p a ⟨u.shape, u.data.toArray⟩).map fun t => (⟨t.shape, t.data.toList⟩ : Arr CQ)
  let shapes := (plist ps).map pshape
  (Gen.ProxBody.callWith (fun (a : Arr CQ) => a.shape) (Gen.ProxBody.stackShape shapes)
    (Gen.ProxBody.stackProxWith proxs shapes) α ⟨x.shape, x.data.toList⟩).map fun a => ⟨a.shape, a.data.toArray⟩

def splitAt (toks : List String) : List String × List String :=
  (toks.takeWhile (· ≠ "::"), (toks.dropWhile (· ≠ "::")).drop 1)

/-- protocol handler for property C11 (tokens after the property id). -/
def handle (toks : List String) : String :=
  match toks.head? with
  | some "call" =>
    let (args, etoks) := splitAt toks
    match (kv args "a").bind parseRat?, (kv args "sh").bind parseIntList?, (kv args "x").bind parseCRatList?,
          parseE (etoks.length + 1) etoks with
    | some a, some sh, some x, some (e, []) =>
      match call e a ⟨sh, x.toArray⟩ with
      | .ok out => s!"ok {fmtIntList out.shape} | {fmtCRatList out.data.toList}"
      | .error k => s!"err {k}"
    | _, _, _, _ => "err bad-op"
  | some "callgen" =>
    let (args, etoks) := splitAt toks
    match (kv args "a").bind parseRat?, (kv args "sh").bind parseIntList?, (kv args "x").bind parseCRatList?,
          parseE (etoks.length + 1) etoks with
    | some a, some sh, some x, some (.stack ps, []) =>
      match stackGen ps a ⟨sh, x.toArray⟩ with
      | .ok out => s!"ok {fmtIntList out.shape} | {fmtCRatList out.data.toList}"
      | .error k => s!"err {k}"
    | _, _, _, _ => "err bad-op"
  | some "kkt" =>
    match (kv toks "eps").bind parseRat?, (kv toks "x").bind parseCRatList? with
    | some eps, some x =>
      match moduli x.toArray with
      | .error k => s!"err {k}"
      | .ok mods =>
        let norm1 := mods.foldl (· + ·) 0
        if Gen.Prox.l1projFeasible norm1 eps then "ok feasible=1 theta=none kkt=1" else
        match duchiTheta eps mods with
        | none => "ok feasible=0 theta=none kkt=0"
        | some θ => s!"ok feasible=0 theta={fmtRat θ} kkt={fmtBool (kktOk eps θ mods)}"
    | _, _ => "err bad-op"
  | some "hard" =>
    match (kv toks "lam").bind parseRat?, (kv toks "x").bind parseCRatList? with
    | some lam, some x =>
      match mapE (chardQ lam) x.toArray with
      | .ok d => s!"ok {fmtCRatList d.toList}"
      | .error k => s!"err {k}"
    | _, _ => "err bad-op"
  | some "psd" =>
    match (kv toks "n").bind String.toNat?, (kv toks "y").bind parseCRatList?, (kv toks "v").bind parseCRatList?,
          (kv toks "w").bind parseRatList? with
    | some n, some y, some v, some w =>
      if n = 0 ∨ y.length ≠ n * n ∨ v.length ≠ n * n ∨ w.length ≠ n then "err shape" else
      let rows (l : List CQ) : CMat := (Array.range n).map fun i => (l.toArray.extract (i * n) (i * n + n))
      match psdProjQ n (rows y) (rows v) w.toArray with
      | .ok out => s!"ok {fmtCRatList (out.toList.flatMap Array.toList)}"
      | .error k => s!"err {k}"
    | _, _, _, _ => "err bad-op"
  | _ => "err bad-op"
end SigpyVerif.Drv.C11
