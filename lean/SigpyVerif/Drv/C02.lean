import SigpyVerif.Model.Py
import SigpyVerif.Model.Proto
import SigpyVerif.Model.C02
import SigpyVerif.Gen.Effects
import SigpyVerif.Model.C01Proto
namespace SigpyVerif.Drv.C02
open SigpyVerif SigpyVerif.Proto SigpyVerif.C02

/-- protocol handler for property C02 (tokens after the property id).
    `summary <name>`  → `ok ok=<0|1> clean=<0|1> mut=<origins> ret=<origins>`: the result of the Lean
                         points-to analysis on the generated program of that function
    `list`            → names of all generated programs
    `untranslated`    → number of functions outside the translator's subset
    `mats <rpn>`      → shapes and dense matrices of `C01.denote` of an expression tree (the denotation
                         `tree_linear` / `tree_denotation_function` are about), via the C01 protocol -/
def handle (toks : List String) : String :=
  match toks with
  | ["summary", name] =>
    match Gen.Effects.effectTable.find? (fun p => p.1 == name) with
    | some (_, f) => "ok " ++ f ()
    | none => "err unknown-function"
  | ["list"] => "ok " ++ ",".intercalate (Gen.Effects.effectTable.map (·.1))
  | ["untranslated"] => s!"ok {Gen.Effects.untranslated.length}"
  | "mats" :: _ => SigpyVerif.C01.Proto.handle toks
  | _ => "err bad-op"
end SigpyVerif.Drv.C02
