import SigpyVerif.Model.Py
import SigpyVerif.Model.Proto
namespace SigpyVerif.Drv.C02
/-- protocol handler for property C02 (tokens after the property id). -/
def handle (_toks : List String) : String := "err bad-op"
end SigpyVerif.Drv.C02
