import SigpyVerif.Model.Py
import SigpyVerif.Model.Proto
import SigpyVerif.Model.C05
namespace SigpyVerif.Drv.C05
open SigpyVerif SigpyVerif.Proto

def optList (toks : List String) (k : String) : Option (Option (List Int)) :=
  match kv toks k with
  | none => none
  | some "none" => some none
  | some s => (parseIntList? s).map some

def flag (toks : List String) (k : String) : Option Bool :=
  match kv toks k with
  | some "1" => some true
  | some "0" => some false
  | _ => none

def parseDT (s : String) : Gen.DT :=
  if s == "complex64" then .complex64 else if s == "complex128" then .complex128 else .other

def fmtDT : Gen.DT → String
  | .complex64 => "complex64"
  | .complex128 => "complex128"
  | .other => "other"

def fmtEntry : Option (Rat × Rat) → String
  | none => "z"
  | some (ph, mg) => s!"{fmtRat ph}:{fmtRat mg}"

/-- protocol handler for property C05 (tokens after the property id).
    `col inv= center= norm=ortho|none ish= osh=|none ax=|none dt= j=` → `ok <dtype> <oshape> | <entries>`;
    an entry is `z` (zero) or `phase:mag²` (rationals). -/
def handle (toks : List String) : String :=
  match toks.head? with
  | some "col" =>
    let norm := match kv toks "norm" with
      | some "ortho" => some true | some "none" => some false | _ => none
    match flag toks "inv", flag toks "center", norm, (kv toks "ish").bind parseIntList?,
          optList toks "osh", optList toks "ax", kv toks "dt", (kv toks "j").bind parseIntList? with
    | some inv, some center, some ortho, some ish, some osh, some ax, some dt, some j =>
      if j.length ≠ ish.length then "err bad-op" else
      match C05.column ⟨inv, center, ortho, ish, osh, ax⟩ j with
      | .ok (sh, col) =>
        s!"ok {fmtDT (C05.outDtype inv (parseDT dt))} {fmtIntList sh} | {",".intercalate (col.map fmtEntry)}"
      | .error .unsupported => "err unsupported"
      | .error .badPipeline => "err bad-pipeline"
    | _, _, _, _, _, _, _, _ => "err bad-op"
  | some "exp" =>   -- closed per-axis exponent (used by the harness to cross-check the table)
    match (kv toks "n").bind parseInt?, flag toks "center", (kv toks "k").bind parseInt?, (kv toks "j").bind parseInt? with
    | some n, some c, some k, some j => s!"ok {C05.axisExp n c k j}"
    | _, _, _, _ => "err bad-op"
  | _ => "err bad-op"
end SigpyVerif.Drv.C05
