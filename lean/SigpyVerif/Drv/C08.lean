import SigpyVerif.Model.Py
import SigpyVerif.Model.Proto
import SigpyVerif.Model.C08
namespace SigpyVerif.Drv.C08
open SigpyVerif SigpyVerif.Proto SigpyVerif.C08

def parseGI? (s : String) : Option GI :=
  match s.splitOn ";" with
  | [r] => (parseInt? r).map fun a => ⟨a, 0⟩
  | [r, i] => do let a ← parseInt? r; let b ← parseInt? i; some ⟨a, b⟩
  | _ => none

def parseGIList? (s : String) : Option (Array GI) :=
  if s == "-" then some #[] else ((s.splitOn ",").mapM parseGI?).map List.toArray

def fmtGI (z : GI) : String := if z.im == 0 then toString z.re else s!"{z.re};{z.im}"

def fmtGIList (l : List GI) : String := if l.isEmpty then "-" else ",".intercalate (l.map fmtGI)

def reply (r : Except String (List Int × Array GI)) : String :=
  match r with
  | .ok (sh, a) => s!"ok {fmtIntList sh} | {fmtGIList a.toList}"
  | .error e => s!"err {e}"

def optList (toks : List String) (k : String) : Option (Option (List Int)) :=
  match kv toks k with
  | none => none
  | some "none" => some none
  | some s => (parseIntList? s).map some

def getMode (toks : List String) : Option Bool :=
  match kv toks "mode" with
  | some "full" => some true
  | some "valid" => some false
  | _ => none

/-- `mode=full|valid|other` (`other`: any string the mode chain does not know) -/
def getModeO (toks : List String) : Option (Option Bool) :=
  match kv toks "mode" with
  | some "full" => some (some true)
  | some "valid" => some (some false)
  | some "other" => some none
  | _ => none

def getCls (toks : List String) : Option Gen.ConvCls :=
  match kv toks "cls" with
  | some "data" => some .data
  | some "dataAdjoint" => some .dataAdjoint
  | some "filter" => some .filter
  | some "filterAdjoint" => some .filterAdjoint
  | _ => none

/-- `.H` taken `h` times, starting from class `c` with constructor arguments `g` -/
def iterH : Nat → Gen.ConvCls → LinopCfg → Except String (Gen.ConvCls × LinopCfg)
  | 0, c, g => .ok (c, g)
  | h + 1, c, g =>
    match linopAdjoint c g with
    | .error e => .error e
    | .ok (c', g') => iterH h c' g'

def getBool (toks : List String) (k : String) : Option Bool :=
  match kv toks k with
  | some "1" => some true
  | some "0" => some false
  | _ => none

/-- `dt=<cd><cf><cy>`: 1 = the data / filter / output-side array has a complex dtype -/
def getDt (toks : List String) : Option (Bool × Bool × Bool) :=
  match (kv toks "dt").map String.toList with
  | some [a, b, c] =>
    if [a, b, c].all (fun ch => ch == '0' || ch == '1') then some (a == '1', b == '1', c == '1') else none
  | _ => none

def GI.rePart (a : GI) : GI := ⟨a.re, 0⟩

def fn (a : Array GI) (i : Int) : GI := if 0 ≤ i ∧ i < a.size then a.getD i.toNat 0 else 0

/-- protocol handler for property C08 (tokens after the property id). -/
def handle (toks : List String) : String :=
  let getL (k : String) := (kv toks k).bind parseIntList?
  let getI (k : String) := (kv toks k).bind parseInt?
  let getA (k : String) := (kv toks k).bind parseGIList?
  match toks.head? with
  | some "conv" =>
    match getL "dsh", getL "fsh", getModeO toks, optList toks "st", getBool toks "mc", getDt toks, getA "d", getA "f" with
    | some dsh, some fsh, some mode, some st, some mc, some (cd, cf, _), some d, some f =>
      if d.size ≠ (shapeProd dsh).toNat ∨ f.size ≠ (shapeProd fsh).toNat then "err size" else
      reply (convolveM dsh fsh mode st mc cd cf d f)
    | _, _, _, _, _, _, _, _ => "err bad-op"
  | some "dadj" =>
    match getL "dsh", getL "fsh", getModeO toks, optList toks "st", getBool toks "mc", getDt toks, getL "ysh", getA "y", getA "f" with
    | some dsh, some fsh, some mode, some st, some mc, some (cd, cf, cy), some ysh, some y, some f =>
      if y.size ≠ (shapeProd ysh).toNat ∨ f.size ≠ (shapeProd fsh).toNat then "err size" else
      reply (adjointM GI.conj GI.rePart true dsh fsh mode st mc cd cf cy ysh y f)
    | _, _, _, _, _, _, _, _, _ => "err bad-op"
  | some "fadj" =>
    match getL "dsh", getL "fsh", getModeO toks, optList toks "st", getBool toks "mc", getDt toks, getL "ysh", getA "y", getA "d" with
    | some dsh, some fsh, some mode, some st, some mc, some (cd, cf, cy), some ysh, some y, some d =>
      if y.size ≠ (shapeProd ysh).toNat ∨ d.size ≠ (shapeProd dsh).toNat then "err size" else
      reply (adjointM GI.conj GI.rePart false dsh fsh mode st mc cd cf cy ysh y d)
    | _, _, _, _, _, _, _, _, _ => "err bad-op"
  -- the Linop classes, interpreted from Gen.ConvLinops: class `cls` built with shape argument `sh` and frozen array
  -- `arr` (shape `ash`), `.H` taken `H` times, then applied to `x` (shape `ish`)
  | some "linop" =>
    match getCls toks, getI "H", getL "sh", getL "ash", getModeO toks, optList toks "st", getBool toks "mc",
        getBool toks "ca", getBool toks "ci", getL "ish", getA "arr", getA "x" with
    | some c, some h, some sh, some ash, some mode, some st, some mc, some ca, some ci, some ish, some arr, some x =>
      if arr.size ≠ (shapeProd ash).toNat ∨ x.size ≠ (shapeProd ish).toNat ∨ h < 0 ∨ h > 4 then "err size" else
      match iterH h.toNat c { shapeArg := sh, arrShape := ash, mode := mode, strides := st, mc := mc } with
      | .error e => s!"err {e}"
      | .ok (c', g') => reply (linopApply GI.conj GI.rePart c' g' ca ci arr ish x)
    | _, _, _, _, _, _, _, _, _, _, _, _ => "err bad-op"
  -- the 1-D single-channel layer the theorems are about (domain: full, or valid with m ≥ n; s ≥ 1)
  | some "conv1" =>
    match getI "m", getI "n", getI "s", getMode toks, getA "d", getA "f" with
    | some m, some n, some s, some full, some d, some f =>
      if d.size ≠ m.toNat ∨ f.size ≠ n.toNat ∨ m < 1 ∨ n < 1 ∨ s < 1 ∨ (!full ∧ m < n) then "err domain" else
      let p := if full then Gen.convFullLen m n s else Gen.convValidLen m n s
      reply (.ok ([p], ((pyRange0 p).map fun k => conv1At full m n s (fn d) (fn f) k).toArray))
    | _, _, _, _, _, _ => "err bad-op"
  | some "dadj1" =>
    match getI "m", getI "n", getI "s", getMode toks, getA "y", getA "f" with
    | some m, some n, some s, some full, some y, some f =>
      if f.size ≠ n.toNat ∨ m < 1 ∨ n < 1 ∨ s < 1 ∨ (!full ∧ m < n) then "err domain" else
      let l := dataAdj1Len full m n
      reply (.ok ([l], ((pyRange0 l).map fun i => dataAdj1At GI.conj full m n s (fn y) (fn f) i).toArray))
    | _, _, _, _, _, _ => "err bad-op"
  | some "fadj1" =>
    match getI "m", getI "n", getI "s", getMode toks, getA "y", getA "d" with
    | some m, some n, some s, some full, some y, some d =>
      if d.size ≠ m.toNat ∨ m < 1 ∨ n < 1 ∨ s < 1 ∨ (!full ∧ m < n) then "err domain" else
      let l := filtAdj1Len full m n
      reply (.ok ([l], ((pyRange0 l).map fun j => filtAdj1At GI.conj full m n s (fn y) (fn d) j).toArray))
    | _, _, _, _, _, _ => "err bad-op"
  -- the 1-D batch / multi-channel layer (arrays of shape [B, ci, m], [co, ci, n], [B, co, p]); same domain
  | some "mc1" =>
    match kv toks "which", getI "B", getI "ci", getI "co", getI "m", getI "n", getI "s", getMode toks with
    | some which, some B, some ci, some co, some m, some n, some s, some full =>
      if B < 1 ∨ ci < 1 ∨ co < 1 ∨ m < 1 ∨ n < 1 ∨ s < 1 ∨ (!full ∧ m < n) then "err domain" else
      let p := if full then Gen.convFullLen m n s else Gen.convValidLen m n s
      let arr3 (sh : List Int) (a : Array GI) (i j k : Int) : GI := readZ sh a [i, j, k]
      match which, getA "d", getA "f", getA "y" with
      | "conv", some d, some f, _ =>
        if d.size ≠ (B * ci * m).toNat ∨ f.size ≠ (co * ci * n).toNat then "err size" else
        reply (.ok ([B, co, p], ((allIdx [B, co, p]).map fun idx =>
          match idx with
          | [b, o, k] => convMC1At full m n s B.toNat co.toNat ci.toNat (arr3 [B, ci, m] d) (arr3 [co, ci, n] f) b o k
          | _ => 0).toArray))
      | "dadj", _, some f, some y =>
        if y.size ≠ (B * co * p).toNat ∨ f.size ≠ (co * ci * n).toNat then "err size" else
        reply (.ok ([B, ci, m], ((allIdx [B, ci, m]).map fun idx =>
          match idx with
          | [b, c, i] => dataAdjMC1At GI.conj full m n s B.toNat co.toNat ci.toNat (arr3 [B, co, p] y) (arr3 [co, ci, n] f) b c i
          | _ => 0).toArray))
      | "fadj", some d, _, some y =>
        if y.size ≠ (B * co * p).toNat ∨ d.size ≠ (B * ci * m).toNat then "err size" else
        reply (.ok ([co, ci, n], ((allIdx [co, ci, n]).map fun idx =>
          match idx with
          | [o, c, j] => filtAdjMC1At GI.conj full m n s B.toNat co.toNat ci.toNat (arr3 [B, co, p] y) (arr3 [B, ci, m] d) o c j
          | _ => 0).toArray))
      | _, _, _, _ => "err bad-op"
    | _, _, _, _, _, _, _, _ => "err bad-op"
  -- the 2-D single-channel layer (domain: full, or valid with m ≥ n on both axes; strides ≥ 1)
  | some "c2" =>
    match kv toks "which", getL "m", getL "n", getL "s", getMode toks with
    | some which, some [m1, m2], some [n1, n2], some [s1, s2], some full =>
      if m1 < 1 ∨ m2 < 1 ∨ n1 < 1 ∨ n2 < 1 ∨ s1 < 1 ∨ s2 < 1 ∨ (!full ∧ (m1 < n1 ∨ m2 < n2)) then "err domain" else
      let pl (m n s : Int) := if full then Gen.convFullLen m n s else Gen.convValidLen m n s
      let p1 := pl m1 n1 s1
      let p2 := pl m2 n2 s2
      let arr2 (sh : List Int) (a : Array GI) (i j : Int) : GI := readZ sh a [i, j]
      match which, getA "d", getA "f", getA "y" with
      | "conv", some d, some f, _ =>
        if d.size ≠ (m1 * m2).toNat ∨ f.size ≠ (n1 * n2).toNat then "err size" else
        reply (.ok ([p1, p2], ((allIdx [p1, p2]).map fun idx =>
          match idx with
          | [k1, k2] => conv2At full m1 m2 n1 n2 s1 s2 (arr2 [m1, m2] d) (arr2 [n1, n2] f) k1 k2
          | _ => 0).toArray))
      | "dadj", _, some f, some y =>
        if y.size ≠ (p1 * p2).toNat ∨ f.size ≠ (n1 * n2).toNat then "err size" else
        reply (.ok ([m1, m2], ((allIdx [m1, m2]).map fun idx =>
          match idx with
          | [i1, i2] => dataAdj2At GI.conj full m1 m2 n1 n2 s1 s2 (arr2 [p1, p2] y) (arr2 [n1, n2] f) i1 i2
          | _ => 0).toArray))
      | "fadj", some d, _, some y =>
        if y.size ≠ (p1 * p2).toNat ∨ d.size ≠ (m1 * m2).toNat then "err size" else
        reply (.ok ([n1, n2], ((allIdx [n1, n2]).map fun idx =>
          match idx with
          | [j1, j2] => filtAdj2At GI.conj full m1 m2 n1 n2 s1 s2 (arr2 [p1, p2] y) (arr2 [m1, m2] d) j1 j2
          | _ => 0).toArray))
      | _, _, _, _ => "err bad-op"
    | _, _, _, _, _ => "err bad-op"
  -- the D-dimensional single-channel layer (recursion over the axes); domain: full, or valid with m ≥ n on every axis
  | some "cD" =>
    match kv toks "which", getL "m", getL "n", getL "s", getMode toks with
    | some which, some m, some n, some s, some full =>
      if m.length ≠ n.length ∨ m.length ≠ s.length ∨ m.isEmpty ∨ (m ++ n ++ s).any (· < 1) ∨
          (!full ∧ (List.zip m n).any fun (a, b) => a < b) then "err domain" else
      let axD := mkAxes true full m n s
      let axF := mkAxes false full m n s
      let p := axD.map (·.p)
      match which, getA "d", getA "f", getA "y" with
      | "conv", some d, some f, _ =>
        if d.size ≠ (shapeProd m).toNat ∨ f.size ≠ (shapeProd n).toNat then "err size" else
        reply (.ok (p, ((allIdx p).map fun k => convD axD (readZ m d) (readZ n f) k).toArray))
      | "convF", some d, some f, _ =>   -- the same forward map, written as linear in the filter
        if d.size ≠ (shapeProd m).toNat ∨ f.size ≠ (shapeProd n).toNat then "err size" else
        reply (.ok (p, ((allIdx p).map fun k => convD axF (readZ n f) (readZ m d) k).toArray))
      | "dadj", _, some f, some y =>
        if y.size ≠ (shapeProd p).toNat ∨ f.size ≠ (shapeProd n).toNat then "err size" else
        reply (.ok (m, ((allIdx m).map fun i => adjD GI.conj axD (readZ p y) (readZ n f) i).toArray))
      | "fadj", some d, _, some y =>
        if y.size ≠ (shapeProd p).toNat ∨ d.size ≠ (shapeProd m).toNat then "err size" else
        reply (.ok (n, ((allIdx n).map fun j => adjD GI.conj axF (readZ p y) (readZ m d) j).toArray))
      | _, _, _, _ => "err bad-op"
    | _, _, _, _, _ => "err bad-op"
  -- the D-dimensional batch / multi-channel layer with the generated wiring (theorems …_nd_mc); arrays of shape
  -- [B, ci] + m, [co, ci] + n, [B, co] + p; domain: full, or valid with m ≥ n on every axis or m < n on every axis
  | some "mcD" =>
    match kv toks "which", getI "B", getI "ci", getI "co", getL "m", getL "n", getL "s", getMode toks with
    | some which, some B, some ci, some co, some m, some n, some s, some full =>
      if B < 1 ∨ ci < 1 ∨ co < 1 ∨ m.length ≠ n.length ∨ m.length ≠ s.length ∨ m.isEmpty ∨ (m ++ n ++ s).any (· < 1) ∨
          (!full ∧ Gen.convValidRejects m n) then "err domain" else
      let axD := mkAxes true full m n s
      let axF := mkAxes false full m n s
      let p := axD.map (·.p)
      let arrN (sh : List Int) (a : Array GI) (i j : Int) (r : List Int) : GI := readZ sh a (i :: j :: r)
      match which, getA "d", getA "f", getA "y" with
      | "conv", some d, some f, _ =>
        if d.size ≠ (shapeProd ([B, ci] ++ m)).toNat ∨ f.size ≠ (shapeProd ([co, ci] ++ n)).toNat then "err size" else
        reply (.ok ([B, co] ++ p, ((allIdx ([B, co] ++ p)).map fun idx =>
          match idx with
          | b :: o :: k => convMCD axD B.toNat co.toNat ci.toNat (arrN ([B, ci] ++ m) d) (arrN ([co, ci] ++ n) f) b o k
          | _ => 0).toArray))
      | "dadj", _, some f, some y =>
        if y.size ≠ (shapeProd ([B, co] ++ p)).toNat ∨ f.size ≠ (shapeProd ([co, ci] ++ n)).toNat then "err size" else
        reply (.ok ([B, ci] ++ m, ((allIdx ([B, ci] ++ m)).map fun idx =>
          match idx with
          | b :: c :: i => dataAdjMCD GI.conj axD B.toNat co.toNat ci.toNat (arrN ([B, co] ++ p) y) (arrN ([co, ci] ++ n) f) b c i
          | _ => 0).toArray))
      | "fadj", some d, _, some y =>
        if y.size ≠ (shapeProd ([B, co] ++ p)).toNat ∨ d.size ≠ (shapeProd ([B, ci] ++ m)).toNat then "err size" else
        reply (.ok ([co, ci] ++ n, ((allIdx ([co, ci] ++ n)).map fun idx =>
          match idx with
          | o :: c :: j => filtAdjMCD GI.conj axF B.toNat co.toNat ci.toNat (arrN ([B, co] ++ p) y) (arrN ([B, ci] ++ m) d) o c j
          | _ => 0).toArray))
      | _, _, _, _ => "err bad-op"
    | _, _, _, _, _, _, _, _ => "err bad-op"
  | _ => "err bad-op"
end SigpyVerif.Drv.C08
