import SigpyVerif.Model.Py
import SigpyVerif.Model.Proto
import SigpyVerif.Model.C10
namespace SigpyVerif.Drv.C10
open SigpyVerif SigpyVerif.Proto

def optNat (toks : List String) (k : String) : Option (Option Nat) :=
  match kv toks k with
  | none => none
  | some "none" => some none
  | some s => (parseInt? s).bind fun i => if i < 0 then none else some (some i.toNat)

def natList (toks : List String) (k : String) : Option (List Nat) :=
  ((kv toks k).bind parseIntList?).bind fun l => if l.all (0 ≤ ·) then some (l.map Int.toNat) else none

/-- protocol handler for property C10 (tokens after the property id). -/
def handle (toks : List String) : String :=
  let getR (k : String) := (kv toks k).bind parseRatList?
  let getL (k : String) := (kv toks k).bind parseIntList?
  match toks.head? with
  | some "dwt" =>
    match getR "h", getR "g", getR "x" with
    | some h, some g, some x =>
      if h.length ≠ g.length then "err filter" else
      let (a, d) := C10.dwt1 h g x
      s!"ok {fmtRatList a} | {fmtRatList d}"
    | _, _, _ => "err bad-op"
  | some "idwt" =>
    match getR "h", getR "g", getR "a", getR "d" with
    | some h, some g, some a, some d =>
      if h.length ≠ g.length ∨ a.length ≠ d.length then "err filter" else
      s!"ok {fmtRatList (C10.idwt1 h g a d)}"
    | _, _, _, _ => "err bad-op"
  | some "wavedec" =>
    -- `pywt.wavedec(x, w, 'zero', level)`: the coefficient lists `a_J | d_J | … | d_1`
    match getR "h", getR "g", optNat toks "level", getR "x" with
    | some h, some g, some (some J), some x =>
      if h.length ≠ g.length then "err filter" else
      "ok " ++ " | ".intercalate ((C10.wavedec h g J x).map fmtRatList)
    | _, _, _, _ => "err bad-op"
  | some "waverec" =>
    -- `pywt.waverec(coeffs, w, 'zero')` with `coeffs` given flattened (`c`) plus their lengths (`lens`)
    match getR "h", getR "g", natList toks "lens", getR "c" with
    | some h, some g, some lens, some c =>
      if h.length ≠ g.length ∨ lens.foldl (· + ·) 0 ≠ c.length then "err filter" else
      s!"ok {fmtRatList (C10.waverec h g (C10.splitLens lens c))}"
    | _, _, _, _ => "err bad-op"
  | some "fwt1" =>
    match getR "h", getR "g", optNat toks "level", getR "x" with
    | some h, some g, some lv, some x => s!"ok {fmtRatList (C10.fwt1 h g lv x)}"
    | _, _, _, _ => "err bad-op"
  | some "iwt1" =>
    match getR "h", getR "g", optNat toks "level", (kv toks "n").bind parseInt?, getR "c" with
    | some h, some g, some lv, some n, some c =>
      if n < 0 then "err bad-op" else s!"ok {fmtRatList (C10.iwt1 h g lv n.toNat c)}"
    | _, _, _, _, _ => "err bad-op"
  | some "shape" =>
    match natList toks "sh", natList toks "ax", (kv toks "L").bind parseInt?, optNat toks "level" with
    | some sh, some ax, some L, some lv =>
      s!"ok {fmtIntList ((C10.waveShape sh ax L.toNat lv).map Int.ofNat)}"
    | _, _, _, _ => "err bad-op"
  | some "zshape" =>
    match getL "i" with
    | some l => s!"ok {fmtIntList (l.map Gen.waveZshapeShape)} | {fmtIntList (l.map Gen.waveZshapeFwt)}"
    | none => "err bad-op"
  | some "padcrop" =>
    -- for one axis length i: sources of the padded axis (k = 0..z-1; -1 = inserted zero) and of the
    -- cropped axis (j = 0..i-1)
    match (kv toks "i").bind parseInt? with
    | some i =>
      let z := Gen.waveZshapeFwt i
      let p := (pyRange0 z).map fun k => (C10.padSrc i k).getD (-1)
      let c := (pyRange0 i).map fun j => (C10.cropSrc i j).getD (-1)
      s!"ok {fmtIntList p} | {fmtIntList c}"
    | none => "err bad-op"
  | _ => "err bad-op"
end SigpyVerif.Drv.C10
