import SigpyVerif.Model.Py
import SigpyVerif.Model.Proto
import SigpyVerif.Model.C10
import SigpyVerif.Model.C10Nd
namespace SigpyVerif.Drv.C10
open SigpyVerif SigpyVerif.Proto

def optNat (toks : List String) (k : String) : Option (Option Nat) :=
  match kv toks k with
  | none => none
  | some "none" => some none
  | some s => (parseInt? s).bind fun i => if i < 0 then none else some (some i.toNat)

def natList (toks : List String) (k : String) : Option (List Nat) :=
  ((kv toks k).bind parseIntList?).bind fun l => if l.all (0 ≤ ·) then some (l.map Int.toNat) else none

/-- a flat row-major array read as a function of the multi-index (zero outside the box) -/
def ofFlat (shape : List Nat) (data : Array Rat) : List Nat → Rat :=
  fun idx => if C10.inBoxB shape idx then data.getD (C10.ravelN shape idx) 0 else 0

def prodN (l : List Nat) : Nat := l.foldl (· * ·) 1

/-- protocol handler for property C10 (tokens after the property id). -/
def handle (toks : List String) : String :=
  let getR (k : String) := (kv toks k).bind parseRatList?
  let getL (k : String) := (kv toks k).bind parseIntList?
  match toks.head? with
  | some "dwt" =>
    match getR "h", getR "g", getR "x" with
    | some h, some g, some x =>
      if h.length ≠ g.length then "err filter" else
      let (a, d) := C10.dwt1 h g x
      s!"ok {fmtRatList a} | {fmtRatList d}"
    | _, _, _ => "err bad-op"
  | some "idwt" =>
    match getR "h", getR "g", getR "a", getR "d" with
    | some h, some g, some a, some d =>
      if h.length ≠ g.length ∨ a.length ≠ d.length then "err filter" else
      s!"ok {fmtRatList (C10.idwt1 h g a d)}"
    | _, _, _, _ => "err bad-op"
  | some "wavedec" =>
    -- `pywt.wavedec(x, w, 'zero', level)`: the coefficient lists `a_J | d_J | … | d_1`
    match getR "h", getR "g", optNat toks "level", getR "x" with
    | some h, some g, some (some J), some x =>
      if h.length ≠ g.length then "err filter" else
      "ok " ++ " | ".intercalate ((C10.wavedec h g J x).map fmtRatList)
    | _, _, _, _ => "err bad-op"
  | some "waverec" =>
    -- `pywt.waverec(coeffs, w, 'zero')` with `coeffs` given flattened (`c`) plus their lengths (`lens`)
    match getR "h", getR "g", natList toks "lens", getR "c" with
    | some h, some g, some lens, some c =>
      if h.length ≠ g.length ∨ lens.foldl (· + ·) 0 ≠ c.length then "err filter" else
      s!"ok {fmtRatList (C10.waverec h g (C10.splitLens lens c))}"
    | _, _, _, _ => "err bad-op"
  | some "fwt1" =>
    match getR "h", getR "g", optNat toks "level", getR "x" with
    | some h, some g, some lv, some x => s!"ok {fmtRatList (C10.fwt1 h g lv x)}"
    | _, _, _, _ => "err bad-op"
  | some "iwt1" =>
    match getR "h", getR "g", optNat toks "level", (kv toks "n").bind parseInt?, getR "c" with
    | some h, some g, some lv, some n, some c =>
      if n < 0 then "err bad-op" else s!"ok {fmtRatList (C10.iwt1 h g lv n.toNat c)}"
    | _, _, _, _, _ => "err bad-op"
  | some "fwtn" =>
    -- the N-d multi-level model `C10.fwtnM` (= `C10.fwtn`, the definition of `fwtn_isometry/_adjoint/_pr`, by `fwtnM_app`) on a row-major array:
    -- reply = advertised shape | row-major values over that box
    match getR "h", getR "g", natList toks "sh", natList toks "ax", optNat toks "level", getR "x" with
    | some h, some g, some sh, some ax, some lv, some x =>
      if h.length ≠ g.length ∨ x.length ≠ prodN sh ∨ !(ax.all (· < sh.length)) ∨ !ax.Nodup then "err filter" else
      let osh := C10.fwtnOutShape h.length ax lv sh
      let Y := C10.fwtnM (C10.ofList h) (C10.ofList g) h.length ax lv sh (ofFlat sh x.toArray)
      s!"ok {fmtIntList (osh.map Int.ofNat)} | {fmtRatList ((C10.allIdxN osh).map Y.app)}"
    | _, _, _, _, _, _ => "err bad-op"
  | some "iwtn" =>
    -- `C10.iwtn` on an arbitrary row-major coefficient array of the advertised shape: row-major values over `sh`
    match getR "h", getR "g", natList toks "sh", natList toks "ax", optNat toks "level", getR "c" with
    | some h, some g, some sh, some ax, some lv, some c =>
      let osh := C10.fwtnOutShape h.length ax lv sh
      if h.length ≠ g.length ∨ c.length ≠ prodN osh ∨ !(ax.all (· < sh.length)) ∨ !ax.Nodup then "err filter" else
      let X := C10.iwtnM (C10.ofList h) (C10.ofList g) h.length ax lv sh (ofFlat osh c.toArray)
      s!"ok {fmtRatList ((C10.allIdxN sh).map X.app)}"
    | _, _, _, _, _, _ => "err bad-op"
  | some "maxlevel" =>
    -- `maxLevel n L` (the model of `pywt.dwt_max_level`) for a list of lengths
    match natList toks "n", (kv toks "L").bind parseInt? with
    | some ns, some L => s!"ok {fmtIntList (ns.map fun n => Int.ofNat (C10.maxLevel n L.toNat))}"
    | _, _ => "err bad-op"
  | some "shape" =>
    match natList toks "sh", natList toks "ax", (kv toks "L").bind parseInt?, optNat toks "level" with
    | some sh, some ax, some L, some lv =>
      s!"ok {fmtIntList ((C10.waveShape sh ax L.toNat lv).map Int.ofNat)}"
    | _, _, _, _ => "err bad-op"
  | some "zshape" =>
    match getL "i" with
    | some l => s!"ok {fmtIntList (l.map Gen.waveZshapeShape)} | {fmtIntList (l.map Gen.waveZshapeFwt)}"
    | none => "err bad-op"
  | some "padcrop" =>
    -- for one axis length i: sources of the padded axis (k = 0..z-1; -1 = inserted zero) and of the
    -- cropped axis (j = 0..i-1)
    match (kv toks "i").bind parseInt? with
    | some i =>
      let z := Gen.waveZshapeFwt i
      let p := (pyRange0 z).map fun k => (C10.padSrc i k).getD (-1)
      let c := (pyRange0 i).map fun j => (C10.cropSrc i j).getD (-1)
      s!"ok {fmtIntList p} | {fmtIntList c}"
    | none => "err bad-op"
  | _ => "err bad-op"
end SigpyVerif.Drv.C10
