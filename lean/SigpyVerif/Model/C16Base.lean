import SigpyVerif.Model.Py
/-
  C16 base model: the operator vocabulary `sigpy.mri.linop.Sense` builds its result from, with its forward and
  adjoint semantics.  The FACTORY itself is not written here: `Gen/SenseTree.lean` is regenerated from the body of
  `Sense` on every run (harness/translate/gen_c16.py: `gen_sense_tree`) and is a term over this vocabulary.

  * Generic over the scalar type `α` (`Add/Mul/Zero` only): the driver runs it over Gaussian rationals,
    `Props/C16.lean` reasons about it over an arbitrary commutative semiring / over ℂ.
  * The Fourier stage is an ABSTRACT linear map on the trailing (image) axes given as a matrix
    `F : K × R` (row-major flattening of the image axes → flattened k-space positions).  Which matrix the
    real FFT/NUFFT is, is C05/C06's business; here it is data, so batching / stacking / weighting are exact.
    The leaf records WHICH Fourier operator the source built (`FKind`): `FFT(S.oshape, axes)`, `NUFFT(S.oshape, ±coord)`
    or the `.H` of one; only the per-coil kinds (FFT over exactly the image axes; NUFFT at `coord`; NUFFT(-coord).H)
    denote "`F` on every coil row" — any other kind denotes the empty array, so that no theorem can be proved about it.
  * Values: a k-space / coil-image array `[C, …]` is the list of its `C` rows (`Mat α`); the image is
    passed as the one-row matrix `[x]`.
-/
namespace SigpyVerif.C16
open SigpyVerif

abbrev Vec (α : Type) := List α
abbrev Mat (α : Type) := List (List α)

/-- Python `l[lo:hi]` for `0 ≤ lo`, `0 ≤ hi` (the upper bound is clamped at the length) -/
def pySlice {β : Type} (l : List β) (lo hi : Int) : List β :=
  (l.drop lo.toNat).take (hi.toNat - lo.toNat)

/-- k-space weights: none, broadcast over coils (k-space shaped), or with a leading coil axis -/
inductive Weights (α : Type) where
  | none
  | shared (w : Vec α)
  | perCoil (w : Mat α)

/-- Python `weights is not None` -/
def Weights.isSome {α : Type} : Weights α → Bool
  | .none => false
  | _ => true

/-- which Fourier operator the source constructed -/
inductive FKind where
  /-- `FFT(oshape, axes=axes)` on an array with `ndim` axes -/
  | fft (axes : List Int) (ndim : Int)
  /-- `NUFFT(oshape, coord)` (`neg`: `-coord`), `adj`: its `.H` -/
  | nufft (neg adj : Bool)
  deriving DecidableEq, Repr

/-- the FFT axes are exactly the non-coil axes `1 … ndim-1` (negative axes count from the end): the transform acts
    on every coil image separately and on all image axes -/
def fftPerCoil (axes : List Int) (ndim : Int) : Bool :=
  axes.all (fun a => pyMod a ndim != 0) && (pyRange 1 ndim 1).all (fun i => axes.any fun a => pyMod a ndim == i)

/-- the kinds that are a k-space transform applied to each coil image: the FFT over the image axes, the NUFFT at
    `coord`, and `NUFFT(-coord).H` (the `transp_nufft` form) -/
def FKind.perCoil : FKind → Bool
  | .fft axes ndim => fftPerCoil axes ndim
  | .nufft neg adj => neg == adj

/-- the leaves the factory builds -/
inductive Leaf (α : Type) where
  /-- `S = Multiply(ishape, mps)` : image ↦ coil images -/
  | multiplyMaps (mps : Mat α)
  /-- `FFT(S.oshape, axes=…)` / `NUFFT(S.oshape, coord)` / `NUFFT(S.oshape, -coord).H`: `F` on every coil row;
      `ncoil` rows of length `R` in, `K = F.length` out -/
  | fourier (kind : FKind) (ncoil R : Nat) (F : Mat α)
  /-- `P = Multiply(F.oshape, weights**0.5)`, weights broadcast over the coil axis; `sw = √weights` -/
  | multiplyWShared (sw : Vec α)
  /-- the same with a leading coil axis on the weights -/
  | multiplyWCoil (sw : Mat α)
  /-- a construct the model gives no meaning (e.g. `Multiply(…, None**0.5)`) -/
  | invalid

/-- `Compose`: the list is in sigpy's order (`[P, F, S]` means `P * F * S`, `S` is applied first) -/
abbrev Chain (α : Type) := List (Leaf α)

inductive Op (α : Type) where
  | single (c : Chain α)
  /-- `Vstack([...], axis=0)` -/
  | vstack (cs : List (Chain α))

section generic
variable {α : Type} [Add α] [Mul α] [Zero α]

def vmul (a b : Vec α) : Vec α := List.zipWith (· * ·) a b
def dot (a b : Vec α) : α := (vmul a b).sum

/-- forward application of one leaf -/
def Leaf.apply : Leaf α → Mat α → Mat α
  | .multiplyMaps mps, X => mps.map fun m => vmul m (X.headD [])
  | .fourier kind _ _ F, X => if kind.perCoil then X.map fun row => F.map fun frow => dot frow row else []
  | .multiplyWShared sw, X => X.map fun row => vmul sw row
  | .multiplyWCoil sw, X => List.zipWith vmul sw X
  | .invalid, _ => []

def Chain.apply (c : Chain α) (X : Mat α) : Mat α := c.foldr (fun op acc => op.apply acc) X

/-- `Vstack(axis=0)` concatenates the outputs along the coil axis -/
def Op.apply : Op α → Mat α → Mat α
  | .single c, X => c.apply X
  | .vstack cs, X => (cs.map fun c => c.apply X).flatten

/-! adjoints (`conj` is complex conjugation on the scalar type) -/

def Leaf.adj (conj : α → α) : Leaf α → Mat α → Mat α
  | .multiplyMaps mps, Y =>
      let R := (mps.headD []).length
      [ (List.range R).map fun r =>
          (List.zipWith (fun (m yrow : Vec α) => conj (m.getD r 0) * yrow.getD r 0) mps Y).sum ]
  | .fourier kind _ R F, Y => if kind.perCoil then Y.map fun row =>
      (List.range R).map fun r => (List.zipWith (fun (frow : Vec α) (yk : α) => conj (frow.getD r 0) * yk) F row).sum
      else []
  | .multiplyWShared sw, Y => Y.map fun row => vmul (sw.map conj) row
  | .multiplyWCoil sw, Y => List.zipWith (fun s row => vmul (s.map conj) row) sw Y
  | .invalid, _ => []

/-- `(P * F * S).H = S.H * F.H * P.H` -/
def Chain.adj (conj : α → α) (c : Chain α) (Y : Mat α) : Mat α := c.foldl (fun acc op => op.adj conj acc) Y

/-- number of output rows (`oshape[0]`) of a chain = number of coils of its `S` leaf -/
def Chain.rows (c : Chain α) : Nat :=
  match c.getLast? with
  | some (.multiplyMaps mps) => mps.length
  | _ => 0

/-- image length of a chain -/
def Chain.imgLen (c : Chain α) : Nat :=
  match c.getLast? with
  | some (.multiplyMaps mps) => (mps.headD []).length
  | _ => 0

/-- `Hstack(axis=0)` splits its input along axis 0 by the sub-operators' `ishape[0]` -/
def splitRows {β : Type} : List Nat → List β → List (List β)
  | [], _ => []
  | n :: ns, y => y.take n :: splitRows ns (y.drop n)

/-- `Vstack.H = Hstack([op.H ...], axis=0)`: split, apply the adjoints, sum -/
def Op.adj (conj : α → α) : Op α → Mat α → Mat α
  | .single c, Y => c.adj conj Y
  | .vstack cs, Y =>
      let parts := List.zipWith (fun c y => c.adj conj y) cs (splitRows (cs.map Chain.rows) Y)
      let R := (cs.headD []).imgLen
      [ (List.range R).map fun r => (parts.map fun p => (p.headD []).getD r 0).sum ]

/-! ### the constructors the generated factory is written with (one per sigpy call it may contain) -/

/-- `oshape` of an operator as far as the factory looks at it: (`oshape[0]`, product of the other axes) -/
def Chain.oshape (c : Chain α) : Nat × Nat :=
  c.foldr (fun l acc => match l with
    | .multiplyMaps mps => (mps.length, (mps.headD []).length)
    | .fourier _ n _ F => (n, F.length)
    | _ => acc) (0, 0)

/-- `sp.linop.Multiply(ishape, mps)` -/
def opMultiplyMaps (mps : Mat α) : Chain α := [.multiplyMaps mps]

/-- `sp.linop.FFT(oshape, axes=axes)` on an `ndim`-axis array; `F` is the matrix of the transform of one coil image -/
def opFFT (oshape : Nat × Nat) (ndim : Int) (axes : List Int) (F : Mat α) : Chain α :=
  [.fourier (.fft axes ndim) oshape.1 oshape.2 F]

/-- `sp.linop.NUFFT(oshape, coord)` (`neg`: `-coord`) -/
def opNUFFT (oshape : Nat × Nat) (neg : Bool) (F : Mat α) : Chain α :=
  [.fourier (.nufft neg false) oshape.1 oshape.2 F]

/-- `X.H` — the factory only takes the adjoint of a freshly built NUFFT -/
def Chain.hermitian : Chain α → Chain α
  | [.fourier (.nufft neg adj) n R F] => [.fourier (.nufft neg (!adj)) n R F]
  | _ => [.invalid]

/-- `weights ** e` elementwise: the model applies `sqrt` exactly when the source exponent is 1/2 (anything else is
    not what the property states and leaves the weights untouched so that theorem and correspondence break) -/
def wpowE (sqrt : α → α) (e : Rat) (w : α) : α := if e = (1 : Rat) / 2 then sqrt w else w

def Weights.pow (sqrt : α → α) (e : Rat) : Weights α → Weights α
  | .none => .none
  | .shared w => .shared (w.map (wpowE sqrt e))
  | .perCoil w => .perCoil (w.map fun row => row.map (wpowE sqrt e))

/-- `sp.linop.Multiply(F.oshape, w)` for an array `w` broadcast against `[coils, k-space]` -/
def opMultiplyW : Weights α → Chain α
  | .none => [.invalid]
  | .shared w => [.multiplyWShared w]
  | .perCoil w => [.multiplyWCoil w]

/-- `X * Y` (`Compose` flattens nested compositions) -/
def Chain.mul (a b : Chain α) : Chain α := a ++ b

/-- Python `w[lo:hi] if cond else w` on the weights array (slicing is along axis 0: the coil axis of per-coil
    weights; for a k-space-shaped array it would cut k-space rows — kept as a slice of the flat data so that the
    result is visibly not the original weights) -/
def Weights.sliceIf (w : Weights α) (cond : Bool) (lo hi : Int) : Weights α :=
  if cond then
    match w with
    | .none => .none
    | .shared v => .shared (pySlice v lo hi)
    | .perCoil m => .perCoil (pySlice m lo hi)
  else w

def Op.chains : Op α → List (Chain α)
  | .single c => [c]
  | .vstack cs => cs

/-- `sp.linop.Vstack(ops, axis=axis)`: stacking along the coil axis concatenates the rows (a stack of stacks along
    the same axis is the stack of all parts); any other axis is given no meaning -/
def Op.vstackOf (axis : Int) (ops : List (Op α)) : Op α :=
  if axis = 0 then .vstack (ops.flatMap Op.chains) else .vstack [[.invalid]]

/-- the arguments of `Sense(mps, coord, weights, tseg=None, ishape, coil_batch_size, comm=None, transp_nufft)` as far
    as the factory inspects them -/
structure SenseArgs (α : Type) where
  mps : Mat α
  /-- `mps.ndim` (= 1 + number of image axes) -/
  mpsNdim : Int
  /-- `len(ishape)` when `ishape` is given (the model covers `ishape ∈ {None, mps.shape[1:]}`) -/
  ishapeLen : Option Int
  /-- `coord.ndim`; `none` = `coord is None` (Cartesian) -/
  coordNdim : Option Int
  /-- the weights array, read the way numpy broadcasts it against `[coils, k-space]` -/
  weights : Weights α
  /-- `weights.ndim`, `weights.shape[0]` (what the batching branch tests) -/
  wNdim : Int
  wShape0 : Int
  /-- `coil_batch_size` (`none` = Python `None`) -/
  batch : Option Int
  /-- `transp_nufft is not False` -/
  transp : Bool
  /-- the Fourier stage on one coil image: `K × R` -/
  F : Mat α
  /-- `z ↦ z ** 0.5` on the (real, non-negative) weights -/
  sqrt : α → α

end generic

end SigpyVerif.C16
