import SigpyVerif.Model.Py
import SigpyVerif.Gen.ConvFormulas
import SigpyVerif.Gen.ConvWiring
import SigpyVerif.Gen.ConvParams
import SigpyVerif.Gen.ConvLinops
/-
  C08 model: `sigpy.conv` (CPU paths) — `_get_convolve_params`, `_convolve`, `_convolve_data_adjoint`,
  `_convolve_filter_adjoint`.

  * Integer formulas and decision logic (`p` per mode, the admission test of mode 'valid', the
    zero-stuffed buffer lengths and the correlate mode chosen by the adjoints' branches) come from
    `Gen.ConvFormulas`, regenerated from the source on every run.
  * The wiring of the `for k in range(B): for j in range(c_o): for i in range(c_i):` nests — which slice is
    accumulated into, which operands are convolved / correlated, which slice of `output` is zero-stuffed into
    the buffer, `+=` vs `=`, where `[slc]` is applied, which array's dtype each buffer is allocated with —
    comes from `Gen.ConvWiring`, also regenerated on every run: the index pairs are consumed by `loopSum` /
    `at2` below (all multi-channel functions of this file), the flags by `convWiringOk` / `adjWiringOk` and the
    dtype decision table (`convOutcome`, `adjOutcome`).
  * `scipy.signal.convolve / correlate` and numpy slicing / broadcasting / reshape enter by their
    contracts, written by hand here (`convOff`, `corrShift`, `corrLen`, `sliceLen`, `bcast`, `npReshape`);
    the contracts were checked against scipy 1.18 numerically and are re-checked by the correspondence.
  * Layers (all executed by the driver and all compared with the real code by the correspondence):
      - 1-D single-channel (`conv1At`, `dataAdj1At`, `filtAdj1At`) and 1-D batch / multi-channel (`…MC1At`),
      - 2-D single-channel (`conv2At`, …), D-dimensional single-channel by recursion over the axes
        (`convD`, `stuffD`, `corrD`, `adjD`, `mkAxes`) — these are what the theorems in `Props/C08.lean` are about;
      - the general N-D / batch / multi-channel layer over flat row-major arrays (`convolve`, `adjoint`), which also
        models the error behaviour (numpy zeros / broadcast / reshape) and therefore reproduces what the code
        does outside the domain of the theorems (valid mode with the filter longer than the data).
  Everything is generic in the scalar type (`Add`, `Mul`, `Zero` and an explicit conjugation); the driver
  instantiates it with Gaussian integers `GI`.
-/
namespace SigpyVerif.C08
open SigpyVerif

/-- Gaussian integers (complex128 arithmetic on small integers is exact) -/
structure GI where
  re : Int
  im : Int
deriving DecidableEq, Repr, Inhabited

instance : Zero GI := ⟨⟨0, 0⟩⟩
instance : Add GI := ⟨fun a b => ⟨a.re + b.re, a.im + b.im⟩⟩
instance : Mul GI := ⟨fun a b => ⟨a.re * b.re - a.im * b.im, a.re * b.im + a.im * b.re⟩⟩
def GI.conj (a : GI) : GI := ⟨a.re, -a.im⟩

section generic
variable {α : Type} [Add α] [Mul α] [Zero α]

/-- `Σ_{i=0}^{n-1} g i` -/
def sumTo (n : Nat) (g : Int → α) : α :=
  match n with
  | 0 => 0
  | k + 1 => sumTo k g + g (k : Int)

/-! ### contracts of scipy / numpy (hand-written) -/

/-- `scipy.signal.convolve(a, v, mode)[k] = Σ_{i+j = k+off} a[i]·v[j]`: `off = 0` in 'full' mode and
    `min(len a, len v) - 1` in 'valid' mode (the fully overlapping samples; either operand may be longer) -/
def convOff (full : Bool) (m n : Int) : Int := if full then 0 else pyMin m n - 1

/-- length of `scipy.signal.convolve / correlate (a, v, mode)` along one axis -/
def scipyLen (full : Bool) (m n : Int) : Int := if full then m + n - 1 else intAbs (m - n) + 1

/-- `scipy.signal.correlate(z, v, mode)[k] = Σ_j z[k + j - shift]·conj(v[j])` (z zero outside its range):
    'full': `shift = len v - 1`; 'valid': `shift = 0` when `len z ≥ len v`, and — scipy swaps the operands,
    reverses and conjugates — `shift = len v - len z` when the second operand is the longer one. -/
def corrShift (full : Bool) (lz nv : Int) : Int :=
  if full then nv - 1 else if lz ≥ nv then 0 else nv - lz

/-- length of the numpy slice `[::s]` of an axis of length `L` (`s ≥ 1`) -/
def sliceLen (L s : Int) : Int := (pyRange 0 L s).length

/-! ### 1-D single-channel layer -/

/-- `_convolve`, one (batch, c_o, c_i) term: sample `k` of `convolve(d, f, mode)[::s]`, by the definition
    of convolution (`d` has length `m`, `f` has length `n`) -/
def conv1At (full : Bool) (m n s : Int) (d f : Int → α) (k : Int) : α :=
  sumTo m.toNat fun i => sumTo n.toNat fun j =>
    if i + j = k * s + convOff full m n then d i * f j else 0

/-- `output_kj = zeros(L); output_kj[::s] = y`, read with zero extension -/
def stuff (L s : Int) (y : Int → α) (t : Int) : α :=
  if 0 ≤ t ∧ t < L ∧ pyMod t s = 0 then y (pyDiv t s) else 0

/-- `scipy.signal.correlate(z, v, mode)[k]` for `z` zero-extended of length `lz`, `v` of length `nv` -/
def corrAt (conj : α → α) (full : Bool) (lz nv : Int) (z v : Int → α) (k : Int) : α :=
  sumTo nv.toNat fun j => z (k + j - corrShift full lz nv) * conj (v j)

/-- `_convolve_data_adjoint`, one term: `correlate(stuffed y, f, mode chosen by the branches)[i]` -/
def dataAdj1At (conj : α → α) (full : Bool) (m n s : Int) (y f : Int → α) (i : Int) : α :=
  let L := if full then Gen.dataAdjBufLenFull m n else Gen.dataAdjBufLenValid m n
  corrAt conj (Gen.dataAdjCorrFull full [m] [n]) L n (stuff L s y) f i

/-- length of the array `_convolve_data_adjoint` adds into `data[k, i]` (must be `m`) -/
def dataAdj1Len (full : Bool) (m n : Int) : Int :=
  let L := if full then Gen.dataAdjBufLenFull m n else Gen.dataAdjBufLenValid m n
  scipyLen (Gen.dataAdjCorrFull full [m] [n]) L n

/-- `_convolve_filter_adjoint`, one term: `correlate(stuffed y, d, mode chosen by the branches)[j]` -/
def filtAdj1At (conj : α → α) (full : Bool) (m n s : Int) (y d : Int → α) (j : Int) : α :=
  let L := if full then Gen.filtAdjBufLenFull m n else Gen.filtAdjBufLenValid m n
  corrAt conj (Gen.filtAdjCorrFull full [m] [n]) L m (stuff L s y) d j

def filtAdj1Len (full : Bool) (m n : Int) : Int :=
  let L := if full then Gen.filtAdjBufLenFull m n else Gen.filtAdjBufLenValid m n
  scipyLen (Gen.filtAdjCorrFull full [m] [n]) L m

/-! ### the generated loop wiring (`Gen.ConvWiring`) -/

/-- value of the loop variable of the loop over `range(B)` / `range(c_o)` / `range(c_i)` -/
def pick (r : Gen.ConvDim) (b o c : Int) : Int :=
  match r with
  | .B => b
  | .co => o
  | .ci => c

/-- `X[v, w]` for the loop variables `(b, o, c)`, `v, w` as named in the source -/
def at2 {β : Type} (x : Int → Int → β) (r : Gen.ConvDim × Gen.ConvDim) (b o c : Int) : β :=
  x (pick r.1 b o c) (pick r.2 b o c)

/-- the loop nest as it executes: every `(k, j, i)` in `range(B) × range(c_o) × range(c_i)` adds one term into
    the slice `X[v, w]` the accumulate statement names; this is the content of slice `(s1, s2)` afterwards
    (the array starts as zeros and the statement is `+=` — flags `…AccZeros`, `…AccIsAdd`) -/
def loopSum (B co ci : Nat) (acc : Gen.ConvDim × Gen.ConvDim) (s1 s2 : Int) (term : Int → Int → Int → α) : α :=
  sumTo B fun b => sumTo co fun o => sumTo ci fun c =>
    if pick acc.1 b o c = s1 ∧ pick acc.2 b o c = s2 then term b o c else 0

/-- the flags of `_convolve` this model relies on (everything that is not an index pair) -/
def convWiringOk : Bool :=
  Gen.convAccArr == .output && Gen.convAccIsAdd && Gen.convAccZeros && Gen.convOp == .convolve &&
  Gen.convModeArg == .mode && Gen.convResultSliced && Gen.convLhsArr == .data && Gen.convRhsArr == .filt &&
  Gen.convLayout_data == (.B, .ci, .m) && Gen.convLayout_filt == (.co, .ci, .n) &&
  Gen.convLayout_output == (.B, .co, .p) &&
  Gen.convParamsArgs == (.arrayShape .data, .arrayShape .filt)

/-- the flags of `_convolve_data_adjoint` (`wrtData`) / `_convolve_filter_adjoint` this model relies on: the
    accumulated array is the right one, zero-initialised and updated by `+=`; scipy's `correlate` is called with
    the buffer first and `mode=adjoint_mode`, its result is not sliced; the buffer is zero-initialised in both
    mode branches, written only through `[slc]` from `output`, inside the loops that bind the index variables of
    the copied slice and before the use -/
def adjWiringOk (wrtData : Bool) : Bool :=
  if wrtData then
    Gen.dataAdjAccArr == .data && Gen.dataAdjAccIsAdd && Gen.dataAdjAccZeros && Gen.dataAdjOp == .correlate &&
    Gen.dataAdjModeArg == .adjointMode && !Gen.dataAdjResultSliced && Gen.dataAdjLhsArr == .outputKj &&
    Gen.dataAdjBufSrcArr == .output && Gen.dataAdjBufSliced && Gen.dataAdjStuffBeforeUse &&
    Gen.dataAdjStuffScope.contains Gen.dataAdjBufSrcIdx.1 && Gen.dataAdjStuffScope.contains Gen.dataAdjBufSrcIdx.2 &&
    Gen.dataAdjBufZerosFull && Gen.dataAdjBufZerosValid && Gen.dataAdjRhsArr == .filt &&
    Gen.dataAdjLayout_data == (.B, .ci, .m) && Gen.dataAdjLayout_filt == (.co, .ci, .n) &&
    Gen.dataAdjLayout_output == (.B, .co, .p) &&
    Gen.dataAdjParamsArgs == (.shapeParam, .arrayShape .filt)
  else
    Gen.filtAdjAccArr == .filt && Gen.filtAdjAccIsAdd && Gen.filtAdjAccZeros && Gen.filtAdjOp == .correlate &&
    Gen.filtAdjModeArg == .adjointMode && !Gen.filtAdjResultSliced && Gen.filtAdjLhsArr == .outputKj &&
    Gen.filtAdjBufSrcArr == .output && Gen.filtAdjBufSliced && Gen.filtAdjStuffBeforeUse &&
    Gen.filtAdjStuffScope.contains Gen.filtAdjBufSrcIdx.1 && Gen.filtAdjStuffScope.contains Gen.filtAdjBufSrcIdx.2 &&
    Gen.filtAdjBufZerosFull && Gen.filtAdjBufZerosValid && Gen.filtAdjRhsArr == .data &&
    Gen.filtAdjLayout_data == (.B, .ci, .m) && Gen.filtAdjLayout_filt == (.co, .ci, .n) &&
    Gen.filtAdjLayout_output == (.B, .co, .p) &&
    Gen.filtAdjParamsArgs == (.arrayShape .data, .shapeParam)

/-! ### dtypes (real float64 / complex128): numpy's casting rules, hand-written contract

  * `buf[slc] = src` casts silently: complex → real drops the imaginary part (ComplexWarning only);
  * `acc[v, w] += term` raises a casting TypeError (`UFuncTypeError`, rule 'same_kind') when `term` is complex and
    `acc` is real;
  * scipy's result dtype is the promotion of its operands' dtypes. -/

inductive DtypeOutcome where
  | exact | dropsImag | typeError
deriving DecidableEq, Repr

/-- is the array complex: `cd cf cy` = dtype of the caller's data / filter / output-side array -/
def baseCplx (cd cf cy : Bool) : Gen.ConvArr → Bool
  | .data => cd
  | .filt => cf
  | .output => cy
  | .outputKj => false

def convDtypeRule (accC lhsC rhsC : Bool) : DtypeOutcome :=
  if (lhsC || rhsC) && !accC then .typeError else .exact

def adjDtypeRule (accC bufC srcC otherC : Bool) : DtypeOutcome :=
  if (bufC || otherC) && !accC then .typeError else if srcC && !bufC then .dropsImag else .exact

/-- `_convolve` with the generated allocation dtype -/
def convOutcome (cd cf : Bool) : DtypeOutcome :=
  let c := baseCplx cd cf false
  convDtypeRule (c Gen.convAccDtype) (c Gen.convLhsArr) (c Gen.convRhsArr)

/-- the adjoints with the generated allocation dtypes (`cother`: dtype of the frozen operand) -/
def adjOutcome (wrtData full cd cf cy : Bool) : DtypeOutcome :=
  let c := baseCplx cd cf cy
  if wrtData then
    adjDtypeRule (c Gen.dataAdjAccDtype) (c (if full then Gen.dataAdjBufDtypeFull else Gen.dataAdjBufDtypeValid))
      (c Gen.dataAdjBufSrcArr) (c Gen.dataAdjRhsArr)
  else
    adjDtypeRule (c Gen.filtAdjAccDtype) (c (if full then Gen.filtAdjBufDtypeFull else Gen.filtAdjBufDtypeValid))
      (c Gen.filtAdjBufSrcArr) (c Gen.filtAdjRhsArr)

/-! ### 1-D batch / multi-channel layer: the loops `for k in range(B): for j in range(c_o): for i in range(c_i)`
    with the generated wiring (`d b c i`, `f o c j`, `y b o k`: batch `b`, input channel `c`, output channel `o`) -/

/-- `_convolve`: slice `[b, o]` of the output after the loops -/
def convMC1At (full : Bool) (m n s : Int) (B co ci : Nat) (d f : Int → Int → Int → α) (b o k : Int) : α :=
  loopSum B co ci Gen.convAccIdx b o fun b' o' c' =>
    conv1At full m n s (at2 d Gen.convLhsIdx b' o' c') (at2 f Gen.convRhsIdx b' o' c') k

/-- `_convolve_data_adjoint`: slice `[b, c]` of `data` after the loops -/
def dataAdjMC1At (conj : α → α) (full : Bool) (m n s : Int) (B co ci : Nat) (y f : Int → Int → Int → α)
    (b c i : Int) : α :=
  loopSum B co ci Gen.dataAdjAccIdx b c fun b' o' c' =>
    dataAdj1At conj full m n s (at2 y Gen.dataAdjBufSrcIdx b' o' c') (at2 f Gen.dataAdjRhsIdx b' o' c') i

/-- `_convolve_filter_adjoint`: slice `[o, c]` of `filt` after the loops -/
def filtAdjMC1At (conj : α → α) (full : Bool) (m n s : Int) (B co ci : Nat) (y d : Int → Int → Int → α)
    (o c j : Int) : α :=
  loopSum B co ci Gen.filtAdjAccIdx o c fun b' o' c' =>
    filtAdj1At conj full m n s (at2 y Gen.filtAdjBufSrcIdx b' o' c') (at2 d Gen.filtAdjRhsIdx b' o' c') j

/-! ### 2-D single-channel layer (product index predicate; the correlate mode is chosen once for both axes) -/

/-- sample `(k1, k2)` of `convolve(d, f, mode)[::s1, ::s2]` by definition -/
def conv2At (full : Bool) (m1 m2 n1 n2 s1 s2 : Int) (d f : Int → Int → α) (k1 k2 : Int) : α :=
  sumTo m1.toNat fun i1 => sumTo m2.toNat fun i2 => sumTo n1.toNat fun j1 => sumTo n2.toNat fun j2 =>
    if i1 + j1 = k1 * s1 + convOff full m1 n1 ∧ i2 + j2 = k2 * s2 + convOff full m2 n2
    then d i1 i2 * f j1 j2 else 0

/-- `output_kj = zeros((L1, L2)); output_kj[::s1, ::s2] = y`, zero-extended -/
def stuff2 (L1 L2 s1 s2 : Int) (y : Int → Int → α) (t1 t2 : Int) : α :=
  if (0 ≤ t1 ∧ t1 < L1 ∧ pyMod t1 s1 = 0) ∧ (0 ≤ t2 ∧ t2 < L2 ∧ pyMod t2 s2 = 0)
  then y (pyDiv t1 s1) (pyDiv t2 s2) else 0

/-- `scipy.signal.correlate(z, v, mode)[k1, k2]` (the same mode on both axes) -/
def corr2At (conj : α → α) (full : Bool) (l1 l2 nv1 nv2 : Int) (z v : Int → Int → α) (k1 k2 : Int) : α :=
  sumTo nv1.toNat fun j1 => sumTo nv2.toNat fun j2 =>
    z (k1 + j1 - corrShift full l1 nv1) (k2 + j2 - corrShift full l2 nv2) * conj (v j1 j2)

def dataAdj2At (conj : α → α) (full : Bool) (m1 m2 n1 n2 s1 s2 : Int) (y f : Int → Int → α)
    (i1 i2 : Int) : α :=
  let L1 := if full then Gen.dataAdjBufLenFull m1 n1 else Gen.dataAdjBufLenValid m1 n1
  let L2 := if full then Gen.dataAdjBufLenFull m2 n2 else Gen.dataAdjBufLenValid m2 n2
  corr2At conj (Gen.dataAdjCorrFull full [m1, m2] [n1, n2]) L1 L2 n1 n2 (stuff2 L1 L2 s1 s2 y) f i1 i2

def filtAdj2At (conj : α → α) (full : Bool) (m1 m2 n1 n2 s1 s2 : Int) (y d : Int → Int → α)
    (j1 j2 : Int) : α :=
  let L1 := if full then Gen.filtAdjBufLenFull m1 n1 else Gen.filtAdjBufLenValid m1 n1
  let L2 := if full then Gen.filtAdjBufLenFull m2 n2 else Gen.filtAdjBufLenValid m2 n2
  corr2At conj (Gen.filtAdjCorrFull full [m1, m2] [n1, n2]) L1 L2 m1 m2 (stuff2 L1 L2 s1 s2 y) d j1 j2

/-! ### D-dimensional single-channel layer, by recursion over the axes (product structure)

  One `Axis` record per spatial axis.  `m` is the length of the operand the map is linear in (data for the
  data adjoint, filter for the filter adjoint), `n` the length of the frozen operand, `off` scipy's
  convolution offset, `L` the zero-stuffed buffer length, `shift` scipy's correlate shift for the mode the
  code chose (once, for all axes), `p` the advertised output length. -/

structure Axis where
  m : Int
  n : Int
  s : Int
  off : Int
  L : Int
  shift : Int
  p : Int
deriving Repr

/-- sample `ks` of the strided D-dim convolution, by definition: on every axis `i_d + j_d = k_d s_d + off_d` -/
def convD : List Axis → (List Int → α) → (List Int → α) → List Int → α
  | [], x, v, _ => x [] * v []
  | a :: rest, x, v, ks =>
    sumTo a.m.toNat fun i1 => sumTo a.n.toNat fun j1 =>
      if i1 + j1 = ks.headD 0 * a.s + a.off then
        convD rest (fun is => x (i1 :: is)) (fun js => v (j1 :: js)) ks.tail
      else 0

/-- `output_kj = zeros(L); output_kj[::s_1, …, ::s_D] = y`, zero-extended -/
def stuffD : List Axis → (List Int → α) → List Int → α
  | [], y, _ => y []
  | a :: rest, y, ts =>
    stuff a.L a.s (fun k1 => stuffD rest (fun ks => y (k1 :: ks)) ts.tail) (ts.headD 0)

/-- `scipy.signal.correlate(z, v, mode)[is]`: `Σ_j z[is + j - shift]·conj(v[j])` -/
def corrD (conj : α → α) : List Axis → (List Int → α) → (List Int → α) → List Int → α
  | [], z, v, _ => z [] * conj (v [])
  | a :: rest, z, v, is =>
    sumTo a.n.toNat fun j1 =>
      corrD conj rest (fun ts => z ((is.headD 0 + j1 - a.shift) :: ts)) (fun js => v (j1 :: js)) is.tail

/-- both adjoints as the code computes them: correlate the zero-stuffed output with the frozen operand -/
def adjD (conj : α → α) (axes : List Axis) (y v : List Int → α) (is : List Int) : α :=
  corrD conj axes (stuffD axes y) v is

/-- `Σ` over all multi-indices of a shape -/
def sumD : List Int → (List Int → α) → α
  | [], g => g []
  | n :: ns, g => sumTo n.toNat fun i => sumD ns fun is => g (i :: is)

/-- the `p` of `_get_convolve_params` for the given mode -/
def codeLen (full : Bool) (m n s : Int) : Int :=
  if full then Gen.convFullLen m n s else Gen.convValidLen m n s

/-- the axis records as the code determines them; `wrtData`: data adjoint (frozen operand = filter) or
    filter adjoint (frozen operand = data; `m`/`n` of the record are swapped accordingly) -/
def mkAxes (wrtData full : Bool) (m n s : List Int) : List Axis :=
  let cf := if wrtData then Gen.dataAdjCorrFull full m n else Gen.filtAdjCorrFull full m n
  (List.zip m (List.zip n s)).map fun (a, b, c) =>
    let L := if wrtData then (if full then Gen.dataAdjBufLenFull a b else Gen.dataAdjBufLenValid a b)
      else (if full then Gen.filtAdjBufLenFull a b else Gen.filtAdjBufLenValid a b)
    { m := if wrtData then a else b, n := if wrtData then b else a, s := c, off := convOff full a b, L := L,
      shift := corrShift cf L (if wrtData then b else a), p := codeLen full a b c }

/-! ### D-dimensional batch / multi-channel layer with the generated wiring
    (`d b c is`, `f o c js`, `y b o ks`) -/

/-- `_convolve`: slice `[b, o]` of the output after the loops -/
def convMCD (axes : List Axis) (B co ci : Nat) (d f : Int → Int → List Int → α) (b o : Int) (k : List Int) : α :=
  loopSum B co ci Gen.convAccIdx b o fun b' o' c' =>
    convD axes (at2 d Gen.convLhsIdx b' o' c') (at2 f Gen.convRhsIdx b' o' c') k

/-- `_convolve_data_adjoint`: slice `[b, c]` of `data` after the loops -/
def dataAdjMCD (conj : α → α) (axes : List Axis) (B co ci : Nat) (y f : Int → Int → List Int → α)
    (b c : Int) (i : List Int) : α :=
  loopSum B co ci Gen.dataAdjAccIdx b c fun b' o' c' =>
    adjD conj axes (at2 y Gen.dataAdjBufSrcIdx b' o' c') (at2 f Gen.dataAdjRhsIdx b' o' c') i

/-- `_convolve_filter_adjoint`: slice `[o, c]` of `filt` after the loops -/
def filtAdjMCD (conj : α → α) (axes : List Axis) (B co ci : Nat) (y d : Int → Int → List Int → α)
    (o c : Int) (j : List Int) : α :=
  loopSum B co ci Gen.filtAdjAccIdx o c fun b' o' c' =>
    adjD conj axes (at2 y Gen.filtAdjBufSrcIdx b' o' c') (at2 d Gen.filtAdjRhsIdx b' o' c') j

/-! ### N-D / batch / multi-channel layer (executable) -/

def sumList {β} (l : List β) (g : β → α) : α := l.foldl (fun acc x => acc + g x) 0

def zip3With {β γ δ ε} (f : β → γ → δ → ε) : List β → List γ → List δ → List ε
  | a :: as, b :: bs, c :: cs => f a b c :: zip3With f as bs cs
  | _, _, _ => []

/-- zero-extended read of a flat row-major array -/
def readZ (shape : List Int) (a : Array α) (idx : List Int) : α :=
  if inBounds shape idx then a.getD (ravel shape idx).toNat 0 else 0

/-- numpy broadcasting of a source of shape `src` to a target of shape `tgt` (equal rank here) -/
def bcast (src tgt : List Int) : Bool :=
  src.length == tgt.length && (List.zip src tgt).all fun (a, b) => a == b || a == 1

/-- index into the source for target index `k` under broadcasting -/
def bIdx (src k : List Int) : List Int := List.zipWith (fun a kd => if a == 1 then 0 else kd) src k

/-- `ndarray.reshape(dims)` for an array with `size` elements: one negative entry is inferred -/
def npReshape (size : Int) (dims : List Int) : Option (List Int) :=
  let rest := shapeProd (dims.filter (· ≥ 0))
  match (dims.filter (· < 0)).length with
  | 0 => if rest = size then some dims else none
  | 1 => if rest ≠ 0 ∧ size % rest = 0 then some (dims.map fun d => if d < 0 then size / rest else d) else none
  | _ => none

structure Params where
  b : List Int
  B : Int
  m : List Int
  n : List Int
  s : List Int
  ci : Int
  co : Int
  p : List Int

/-! #### how `_get_convolve_params` splits the two shapes (index expressions from `Gen.ConvParams`) -/

/-- Python `l[i]`: negative indices count from the end; out of range = IndexError (`none`) -/
def pyGet (l : List Int) (i : Int) : Option Int :=
  let j := if i < 0 then i + l.length else i
  if 0 ≤ j ∧ j < l.length then l[j.toNat]? else none

/-- a slice bound normalised and clipped as Python does -/
def pyBound (len i : Int) : Nat := (if i < 0 then pyMax (i + len) 0 else pyMin i len).toNat

/-- `l[lo:]` -/
def pyFrom (l : List Int) (lo : Int) : List Int := l.drop (pyBound l.length lo)

/-- `l[:hi]` -/
def pyUpto (l : List Int) (hi : Int) : List Int := l.take (pyBound l.length hi)

def shapeArg (a : Gen.ConvShapeArg) (dsh fsh : List Int) : List Int :=
  match a with
  | .dataShape => dsh
  | .filtShape => fsh

structure Split where
  D : Int
  b : List Int
  m : List Int
  n : List Int
  ci : Int
  co : Int
deriving DecidableEq, Repr

/-- the exception class the source raises at one of its explicit guards (`Gen.paramGuards`, generated) -/
def guardExc (g : Gen.ConvGuard) : String :=
  match Gen.paramGuards.find? (fun r => r.1 == g) with
  | some r => r.2
  | none => "unsupported-guard"

/-- the first half of `_get_convolve_params`: `D`, `m`, `n`, `b`, the channel check, `c_i`, `c_o` -/
def splitShapes (dsh fsh : List Int) (mc : Bool) : Except String Split :=
  let mcI : Int := if mc then 1 else 0
  let D := Gen.paramD dsh.length fsh.length mcI
  -- `shape[-0:]` would be the whole shape; ranks the callers never produce are not modelled
  if D < 1 ∨ (dsh.length : Int) < D + mcI then .error "bad-rank" else
  let m := pyFrom (shapeArg Gen.paramMSrc dsh fsh) (Gen.paramMLo D mcI)
  let n := pyFrom (shapeArg Gen.paramNSrc dsh fsh) (Gen.paramNLo D mcI)
  let b := pyUpto (shapeArg Gen.paramBSrc dsh fsh) (Gen.paramBHi D mcI)
  if mc then
    match pyGet (shapeArg Gen.paramChkLhsSrc dsh fsh) (Gen.paramChkLhsIdx D mcI),
        pyGet (shapeArg Gen.paramChkRhsSrc dsh fsh) (Gen.paramChkRhsIdx D mcI),
        pyGet (shapeArg Gen.paramCiSrc dsh fsh) (Gen.paramCiIdx D mcI),
        pyGet (shapeArg Gen.paramCoSrc dsh fsh) (Gen.paramCoIdx D mcI) with
    | some l, some r, some ci, some co =>
      if l ≠ r then .error (guardExc .channel) else .ok { D := D, b := b, m := m, n := n, ci := ci, co := co }
    | _, _, _, _ => .error "IndexError"
  else .ok { D := D, b := b, m := m, n := n, ci := Gen.paramCiDefault, co := Gen.paramCoDefault }

/-- the strides block of `_get_convolve_params` (default and length check from `Gen.ConvParams`) -/
def getStrides (D : Int) (strides : Option (List Int)) : Except String (List Int) :=
  match strides with
  | none => .ok (Gen.paramStridesDefault D)
  | some st => if Gen.paramStridesBad st.length D then .error (guardExc .stridesLen) else .ok st

/-- the mode chain of `_get_convolve_params`; `mode = none`: a string other than 'full' / 'valid' -/
def getP (mode : Option Bool) (m n s : List Int) : Except String (List Int) :=
  match mode with
  | some true => .ok (zip3With Gen.convFullLen m n s)
  | some false =>
    if Gen.convValidRejects m n then .error (guardExc .validSize) else .ok (zip3With Gen.convValidLen m n s)
  | none => .error (guardExc .badMode)

/-- `_get_convolve_params`: the guards fire in source order (channel count, strides length, valid-mode sizes / mode) -/
def getParams (dsh fsh : List Int) (mode : Option Bool) (strides : Option (List Int)) (mc : Bool) :
    Except String Params :=
  match splitShapes dsh fsh mc with
  | .error e => .error e
  | .ok S =>
    match getStrides S.D strides with
    | .error e => .error e
    | .ok s =>
      match getP mode S.m S.n s with
      | .error e => .error e
      | .ok p =>
        .ok { b := S.b, B := shapeProd S.b, m := S.m, n := S.n, s := s, ci := S.ci, co := S.co, p := p }

/-- value of one summand of a generated shape expression (`dsh`, `fsh`: the shape arguments `_get_convolve_params`
    was called with) -/
def evalTerm (P : Params) (dsh fsh : List Int) : Gen.ConvShapeTerm → List Int
  | .b => P.b
  | .m => P.m
  | .n => P.n
  | .p => P.p
  | .B => [P.B]
  | .ci => [P.ci]
  | .co => [P.co]
  | .dataShapeArg => dsh
  | .filtShapeArg => fsh

/-- value of a generated shape expression `T1 + T2 + …` -/
def evalShape (P : Params) (dsh fsh : List Int) (ts : List Gen.ConvShapeTerm) : List Int :=
  ts.flatMap (evalTerm P dsh fsh)

/-- the domain of the property: every extent and every stride is a positive integer (zero-size arrays and
    non-positive strides are outside the statement; the model answers `err domain`, the harness never asks) -/
def domainBad (P : Params) : Bool :=
  (P.b ++ [P.ci, P.co] ++ P.m ++ P.n ++ P.s).any (· < 1)

/-- sample `k` (already strided: `k` indexes the sliced result) of the N-D convolution of two zero-extended
    index functions, by definition: `Σ_i d[i]·f[k·s + off - i]` -/
def convNDAt (m : List Int) (d f : List Int → α) (off s k : List Int) : α :=
  sumList (allIdx m) fun i =>
    d i * f (List.zipWith (· - ·) (zip3With (fun kd sd od => kd * sd + od) k s off) i)

/-- `scipy.signal.correlate` at index `k`: `Σ_j z[k + j - shift]·conj(v[j])` -/
def corrNDAt (conj : α → α) (nv : List Int) (z v : List Int → α) (shift k : List Int) : α :=
  sumList (allIdx nv) fun j =>
    z (zip3With (fun kd jd sd => kd + jd - sd) k j shift) * conj (v j)

/-- the `(k, j, i)` triples of the loop nest, and the terms that land in slice `(s1, s2)` of the accumulated array
    (the executable counterpart of `loopSum`) -/
def loopSumL (B co ci : Int) (acc : Gen.ConvDim × Gen.ConvDim) (s1 s2 : Int) (term : Int → Int → Int → α) : α :=
  sumList (allIdx [B, co, ci]) fun t =>
    match t with
    | [b, o, c] => if pick acc.1 b o c = s1 ∧ pick acc.2 b o c = s2 then term b o c else 0
    | _ => 0

/-- `_convolve` after `_get_convolve_params` returned `P`: an explicit guard chain (every `.error` is one way the
    real function raises), then the value.  `dsize fsize`: number of elements of the caller's arrays. -/
def convolveCore (P : Params) (dsh fsh : List Int) (full mc cd cf : Bool) (data filt : Array α) :
    Except String (List Int × Array α) :=
  if domainBad P then .error "domain" else
  let dshN := evalShape P dsh fsh Gen.convNorm_data
  let fshN := evalShape P dsh fsh Gen.convNorm_filt
  let oshN := evalShape P dsh fsh Gen.convNorm_output
  -- `data.reshape((B, c_i) + m)`, `filt.reshape((c_o, c_i) + n)`: the element counts must agree
  if npReshape (shapeProd dsh) dshN ≠ some dshN ∨ npReshape (shapeProd fsh) fshN ≠ some fshN then .error "ValueError" else
  if P.p.any (· < 0) then .error "ValueError" else          -- np.zeros with a negative dimension
  let q := List.zipWith sliceLen (List.zipWith (scipyLen full) P.m P.n) P.s   -- shape of convolve(...)[slc]
  if convOutcome cd cf == .typeError then .error "TypeError" else   -- `output[k, j] += <complex>` into a real array
  if !bcast q P.p then .error "ValueError" else              -- `output[k, j] += …` must broadcast
  let off := List.zipWith (convOff full) P.m P.n
  let out := (allIdx oshN).map fun idx =>
    match idx with
    | k :: j :: kk =>
      loopSumL P.B P.co P.ci Gen.convAccIdx k j fun b o c =>
        convNDAt P.m (fun ii => readZ dshN data (pick Gen.convLhsIdx.1 b o c :: pick Gen.convLhsIdx.2 b o c :: ii))
          (fun jj => readZ fshN filt (pick Gen.convRhsIdx.1 b o c :: pick Gen.convRhsIdx.2 b o c :: jj))
          off P.s (bIdx q kk)
    | _ => 0
  -- `output.reshape(b + (c_o,) + p)` / `output.reshape(b + p)`
  match npReshape (shapeProd oshN) (evalShape P dsh fsh (if mc then Gen.convFinalMc else Gen.convFinalSc)) with
  | none => .error "ValueError"
  | some fin => .ok (fin, out.toArray)

/-- `_convolve`; `cd cf`: the data / filter array has a complex dtype; `mode = none`: an invalid mode string -/
def convolveM (dsh fsh : List Int) (mode : Option Bool) (strides : Option (List Int)) (mc : Bool) (cd cf : Bool)
    (data filt : Array α) : Except String (List Int × Array α) :=
  if !convWiringOk then .error "unsupported-wiring" else
  match getParams dsh fsh mode strides mc with
  | .error e => .error e
  | .ok P => convolveCore P dsh fsh (mode.getD true) mc cd cf data filt

def convolve (dsh fsh : List Int) (full : Bool) (strides : Option (List Int)) (mc : Bool) (cd cf : Bool)
    (data filt : Array α) : Except String (List Int × Array α) :=
  convolveM dsh fsh (some full) strides mc cd cf data filt

/-- the zero-stuffed buffer lengths / correlate mode / frozen-operand lengths of the two adjoints -/
def adjL (wrtData full : Bool) (P : Params) : List Int :=
  if wrtData then List.zipWith (if full then Gen.dataAdjBufLenFull else Gen.dataAdjBufLenValid) P.m P.n
  else List.zipWith (if full then Gen.filtAdjBufLenFull else Gen.filtAdjBufLenValid) P.m P.n

def adjCF (wrtData full : Bool) (P : Params) : Bool :=
  if wrtData then Gen.dataAdjCorrFull full P.m P.n else Gen.filtAdjCorrFull full P.m P.n

/-- `_convolve_data_adjoint` / `_convolve_filter_adjoint` after `_get_convolve_params` returned `P` -/
def adjointCore (conj re : α → α) (wrtData : Bool) (P : Params) (dsh fsh : List Int) (full mc cd cf cy : Bool)
    (ysh : List Int) (osh : List Int) (y other : Array α) : Except String (List Int × Array α) :=
  if domainBad P then .error "domain" else
  let dshN := evalShape P dsh fsh (if wrtData then Gen.dataAdjNorm_data else Gen.filtAdjNorm_data)
  let fshN := evalShape P dsh fsh (if wrtData then Gen.dataAdjNorm_filt else Gen.filtAdjNorm_filt)
  let oshN := evalShape P dsh fsh (if wrtData then Gen.dataAdjNorm_output else Gen.filtAdjNorm_output)
  -- `output.reshape((B, c_o) + p)`, `<frozen operand>.reshape(…)`
  match npReshape (shapeProd ysh) oshN with
  | none => .error "ValueError"
  | some yshN =>
  let otherN := if wrtData then fshN else dshN
  if npReshape (shapeProd osh) otherN ≠ some otherN then .error "ValueError" else
  let p' := yshN.drop 2
  let L := adjL wrtData full P
  let cf' := adjCF wrtData full P
  let q := List.zipWith sliceLen L P.s                 -- shape of `output_kj[slc]`
  if !bcast p' q then .error "ValueError" else         -- `output_kj[slc] = output[k, j]`
  let nv := if wrtData then P.n else P.m
  let tgt := if wrtData then P.m else P.n
  -- scipy 'valid' needs one operand at least as large as the other on every axis
  if !cf' ∧ !((List.zip L nv).all (fun (a, b) => a ≥ b) ∨ (List.zip L nv).all (fun (a, b) => b ≥ a)) then
    .error "ValueError" else
  let outcome := adjOutcome wrtData full cd cf cy
  if outcome == .typeError then .error "TypeError" else   -- `data[k, i] += <complex>` into a real array
  let cl := List.zipWith (scipyLen cf') L nv
  if !bcast cl tgt then .error "ValueError" else          -- `data[k, i] += correlate(...)`
  let shift := List.zipWith (corrShift cf') L nv
  let cast (v : α) : α := if outcome == .dropsImag then re v else v   -- `output_kj[slc] = …` into a real buffer
  let z (k j : Int) (t : List Int) : α :=
    if inBounds L t ∧ (List.zip t P.s).all (fun (td, sd) => pyMod td sd == 0) then
      cast (readZ yshN y (k :: j :: bIdx p' (List.zipWith pyDiv t P.s)))
    else 0
  let accIdx := if wrtData then Gen.dataAdjAccIdx else Gen.filtAdjAccIdx
  let srcIdx := if wrtData then Gen.dataAdjBufSrcIdx else Gen.filtAdjBufSrcIdx
  let rhsIdx := if wrtData then Gen.dataAdjRhsIdx else Gen.filtAdjRhsIdx
  let resN := if wrtData then dshN else fshN
  let out := (allIdx resN).map fun idx =>
    match idx with
    | s1 :: s2 :: ii =>
      loopSumL P.B P.co P.ci accIdx s1 s2 fun b o c =>
        corrNDAt conj nv (z (pick srcIdx.1 b o c) (pick srcIdx.2 b o c))
          (fun jj => readZ otherN other (pick rhsIdx.1 b o c :: pick rhsIdx.2 b o c :: jj)) shift (bIdx cl ii)
    | _ => 0
  -- `data.reshape(data_shape)` / `filt.reshape(filt_shape)`
  let finT := if wrtData then (if mc then Gen.dataAdjFinalMc else Gen.dataAdjFinalSc)
    else (if mc then Gen.filtAdjFinalMc else Gen.filtAdjFinalSc)
  match npReshape (shapeProd resN) (evalShape P dsh fsh finT) with
  | none => .error "ValueError"
  | some fin => .ok (fin, out.toArray)

/-- `_convolve_data_adjoint` (`wrtData = true`: `other` is the filter, result has shape `dsh`) and
    `_convolve_filter_adjoint` (`wrtData = false`: `other` is the data, result has shape `fsh`).
    `dsh fsh`: the shape arguments handed to `_get_convolve_params` (generated: `…ParamsArgs`; for the data adjoint the
    `data_shape` parameter and `filt.shape`, for the filter adjoint `data.shape` and the `filt_shape` parameter);
    `ysh`: the shape of the `output` argument as passed by the caller; `cd cf cy`: the data / filter / output-side
    array has a complex dtype; `re`: real part (what numpy keeps when it casts complex to real). -/
def adjointM (conj re : α → α) (wrtData : Bool) (dsh fsh : List Int) (mode : Option Bool)
    (strides : Option (List Int)) (mc : Bool) (cd cf cy : Bool) (ysh : List Int) (y other : Array α) :
    Except String (List Int × Array α) :=
  if !adjWiringOk wrtData then .error "unsupported-wiring" else
  match getParams dsh fsh mode strides mc with
  | .error e => .error e
  | .ok P => adjointCore conj re wrtData P dsh fsh (mode.getD true) mc cd cf cy ysh (if wrtData then fsh else dsh) y other

def adjoint (conj re : α → α) (wrtData : Bool) (dsh fsh : List Int) (full : Bool)
    (strides : Option (List Int)) (mc : Bool) (cd cf cy : Bool) (ysh : List Int) (y other : Array α) :
    Except String (List Int × Array α) :=
  adjointM conj re wrtData dsh fsh (some full) strides mc cd cf cy ysh y other

/-! ### the four Linop classes, interpreted from their generated description (`Gen.ConvLinops`) -/

/-- constructor arguments of a Convolve* Linop: its shape argument, the shape of the array it freezes, mode
    (`none`: invalid string), strides, multi_channel -/
structure LinopCfg where
  shapeArg : List Int
  arrShape : List Int
  mode : Option Bool
  strides : Option (List Int)
  mc : Bool
deriving Repr, DecidableEq

/-- `__init__`: `(oshape, ishape)` as registered by `super().__init__`, from the class's generated description:
    `_get_convolve_params(<paramsArgs>)`, `output_shape = b + (c_o,) + p | b + p`, then `Linop.__init__`, which rejects
    a non-positive extent (`_check_shape_positive`: ValueError; hand-written contract of the base class) -/
def linopShapes (c : Gen.ConvCls) (g : LinopCfg) : Except String (List Int × List Int) :=
  let L := Gen.convLinop c
  if !(L.stores && L.outputShapeOk) then .error "unsupported-wiring" else
  let sh : Gen.LinopShape → Option (List Int)
    | .shapeArg => some g.shapeArg
    | .arrayShape => some g.arrShape
    | .outputShape => none
  match sh L.paramsArgs.1, sh L.paramsArgs.2 with
  | some dsh, some fsh =>
    match getParams dsh fsh g.mode g.strides g.mc with
    | .error e => .error e
    | .ok P =>
      let res : Gen.LinopShape → List Int
        | .shapeArg => g.shapeArg
        | .arrayShape => g.arrShape
        | .outputShape => P.b ++ (if g.mc then [P.co] else []) ++ P.p
      let o := res L.superArgs.1
      let i := res L.superArgs.2
      if (o ++ i).any (· ≤ 0) then .error "ValueError" else .ok (o, i)
  | _, _ => .error "unsupported-wiring"

/-- `A.H`: class and constructor arguments `_adjoint_linop` builds (the frozen array object is passed on unchanged) -/
def linopAdjoint (c : Gen.ConvCls) (g : LinopCfg) : Except String (Gen.ConvCls × LinopCfg) :=
  let L := Gen.convLinop c
  match linopShapes c g with
  | .error e => .error e
  | .ok (o, i) =>
    if L.adjPasses != (true, true, true) then .error "unsupported-wiring" else
    match L.adjArgs with
    | [a, .array] =>
      match a with
      | .oshape => .ok (L.adjClass, { g with shapeArg := o })
      | .ishape => .ok (L.adjClass, { g with shapeArg := i })
      | _ => .error "unsupported-wiring"
    | _ => .error "unsupported-wiring"

/-- `A(input)`: `Linop.apply` checks `input.shape == ishape` (ValueError), then `_apply` makes the generated `conv.*`
    call; `arr`: the frozen array, `ca ci`: the frozen / the input array has a complex dtype -/
def linopApply (conj re : α → α) (c : Gen.ConvCls) (g : LinopCfg) (ca ci : Bool) (arr : Array α)
    (ish : List Int) (input : Array α) : Except String (List Int × Array α) :=
  let L := Gen.convLinop c
  match linopShapes c g with
  | .error e => .error e
  | .ok (o, i) =>
    if ish ≠ i then .error "ValueError" else
    if L.applyPasses != (true, true, true) then .error "unsupported-wiring" else
    let r := match L.applyFn, L.applyArgs with
      | .convolve, [.input, .array] => convolveM ish g.arrShape g.mode g.strides g.mc ci ca input arr
      | .convolve, [.array, .input] => convolveM g.arrShape ish g.mode g.strides g.mc ca ci arr input
      | .dataAdjoint, [.input, .array, .oshape] => adjointM conj re true o g.arrShape g.mode g.strides g.mc false ca ci ish input arr
      | .dataAdjoint, [.input, .array, .ishape] => adjointM conj re true i g.arrShape g.mode g.strides g.mc false ca ci ish input arr
      | .filterAdjoint, [.input, .array, .oshape] => adjointM conj re false g.arrShape o g.mode g.strides g.mc ca false ci ish input arr
      | .filterAdjoint, [.input, .array, .ishape] => adjointM conj re false g.arrShape i g.mode g.strides g.mc ca false ci ish input arr
      | _, _ => .error "unsupported-wiring"
    -- `Linop.apply` checks `output.shape == oshape` (ValueError)
    match r with
    | .error e => .error e
    | .ok (sh, a) => if sh ≠ o then .error "ValueError" else .ok (sh, a)

end generic

end SigpyVerif.C08
