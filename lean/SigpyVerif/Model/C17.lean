import SigpyVerif.Model.Py
import SigpyVerif.Model.Apply
import SigpyVerif.Model.C09
import SigpyVerif.Model.C17Base
import SigpyVerif.Gen.EspiritFormulas
import SigpyVerif.Gen.EspiritSteps
import SigpyVerif.Gen.C14Power
/-
  C17 model: the per-voxel arithmetic of `sigpy.mri.app.EspiritCalib` and the index map of its calibration matrix.

  * `COps α` (Model/C17Base.lean) is the record of scalar operations the code uses (`+ * conj abs ** 0.5 / >`).  The
    driver instantiates it with Gaussian rationals (exact on Pythagorean inputs), `Props/C17*.lean` with ℂ.
  * EVERY arithmetic step is a GENERATED definition (`Gen/EspiritSteps.lean`, regenerated from `EspiritCalib.__init__` /
    `_output` on every check; fail-closed: a statement outside the translated subset is a broken obligation):
    `normalize`, `forward` (`AHA @ x`), `gramTerm`, `initMps`, the `PowerMethod(forward, self.mps, norm_func=normalize,
    max_iter=max_iter)` wiring (`pmOperator`, `pmStart`, `pmNormFunc`, `pmMaxIter`), `output` (the two `mps *= ...` of
    `_output` in program order), the signature defaults.  The power iteration itself is the GENERATED
    `Gen.C14.pmUpdate` / `pmInit` / `pmDone` (from `sigpy.alg.PowerMethod`), instantiated per voxel below.
    This file only names them (`normalize`, `output`, `powerStep`, `powerRun`, `gram`) and supplies what numpy
    broadcasting does to `y / self.max_eig` at one voxel (`voxOps.divS`: hand-written, compared with the real closures on
    multi-voxel arrays by the correspondence).
  * `calibMat`: blocks (generated loop nests of block.py) → reshape → transpose → reshape.
  Reference coil, crop comparison, norm exponents, Gram scaling also appear as `Gen.espirit*` (Gen/EspiritFormulas.lean).
-/
namespace SigpyVerif.C17
open SigpyVerif

variable {α : Type}

/-- `normalize` (generated): `sum(abs(x) ** 2, axis=coil) ** 0.5` at one voxel -/
abbrev normalize (o : COps α) (x : List α) : α := Gen.Espirit.normalize o x

/-- the array operations of `PowerMethod._update` at ONE voxel of the state `x[..., coil, 1]`: `norm_func(y)` has
    shape `[..., 1, 1]`, so `y / self.max_eig` divides every coil of a voxel by that voxel's own number.
    (`norm` is the `norm_func=None` branch of `_update`, which `EspiritCalib` never takes: `pmNormFunc = some _`.) -/
def voxOps (o : COps α) : C14.PmOps (List α) α where
  norm := Gen.Espirit.normalize o
  divS := fun y s => y.map fun v => o.div v s

/-- per-voxel state of `EspiritCalib(...).alg` after `k` calls of `update()`: the GENERATED `PowerMethod` step iterated
    from the GENERATED start vector, with the GENERATED operator and norm function -/
def powerRun (o : COps α) (AHA : List (List α)) (numCoils : Nat) : Nat → C14.PmState (List α) α
  | 0 => Gen.C14.pmInit (Gen.Espirit.pmStart o numCoils)
  | k + 1 => Gen.C14.pmUpdate (voxOps o) (Gen.Espirit.pmOperator o AHA) (Gen.Espirit.pmNormFunc o) (powerRun o AHA numCoils k)

/-- `App.run()`: `while not alg.done(): alg.update()` performs `max(max_iter, 0)` updates (`Props/C14Power.pm_done_iff`),
    then `_output()` reads `self.mps` (the array `alg.x` was constructed with and `copyto`'d into) and `alg.max_eig` -/
def runState (o : COps α) (AHA : List (List α)) (numCoils : Nat) (maxIter : Int) : C14.PmState (List α) α :=
  powerRun o AHA numCoils (Gen.Espirit.pmMaxIter maxIter).toNat

/-- one `PowerMethod._update` from an arbitrary current vector: `(new x, new max_eig)` -/
def powerStep (o : COps α) (G : List (List α)) (x : List α) : List α × α :=
  let s := Gen.C14.pmUpdate (voxOps o) (Gen.Espirit.pmOperator o G) (Gen.Espirit.pmNormFunc o) (Gen.C14.pmInit x)
  (s.x, match s.maxEig with | some e => e | none => o.zero)

/-- `_output` at one voxel (generated) -/
abbrev output (o : COps α) (keep : Bool) (m : List α) : List α := Gen.Espirit.output o keep m

/-- image-domain Gram matrix at one voxel from the kernels' values `vs[k][coil]`:
    `AHA[i][j] = scale * Σ_k gramTerm v_k i j` (`gramTerm` generated: `v_k[i] * conj v_k[j]`) -/
def gram (o : COps α) (scale : α) (vs : List (List α)) (nc : Nat) : List (List α) :=
  (List.range nc).map fun i => (List.range nc).map fun j =>
    o.mul scale (csum o (vs.map fun v => Gen.Espirit.gramTerm o v i j))

/-! ### calibration matrix -/

/-- entries of the calibration matrix for a `d`-dimensional calibration region `[nc] + [cw]*d`:
    `(row, col) ← calib index`, obtained from the generated `_array_to_blocks{d}` entries
    `[c, n…, x…] ← [c, i…]` by `reshape([nc, -1, kw^d]).transpose([1,0,2]).reshape([-1, nc*kw^d])`. -/
def calibEntries (nc cw kw : Int) (d : Nat) : Option (List (List Int × List Int)) :=
  let n := List.replicate d (Gen.espiritCalibLen cw)
  let blk := List.replicate d (Gen.espiritBlk kw)
  let str := List.replicate d (Gen.espiritStride kw)
  let nb := C09.numBlksList n blk str
  match C09.a2bEntries nc n blk str nb with
  | none => none
  | some E =>
    if Gen.espiritPerm ≠ [1, 0, 2] then none else
    some (E.map fun (o, i, _) =>
      let c := o.headD 0
      let blkIdx := (o.drop 1).take d
      let off := (o.drop (1 + d)).take d
      -- reshape1: [c, ravel(nb) , ravel(blk)] ; transpose → [ravel(nb), c, ravel(blk)] ; reshape2 → [row, c*kw^d + ravel(blk)]
      ([ravel nb blkIdx, c * shapeProd blk + ravel blk off], i))

/-- the calibration matrix of a labelled calibration region (flat row-major `x`) -/
def calibMat (nc cw kw : Int) (d : Nat) (x : Array Int) : Option (List Int × Array Int) := do
  let E ← calibEntries nc cw kw d
  let n := List.replicate d (Gen.espiritCalibLen cw)
  let blk := List.replicate d (Gen.espiritBlk kw)
  let nb := C09.numBlksList n blk (List.replicate d (Gen.espiritStride kw))
  let rows := shapeProd nb
  let cols := nc * shapeProd blk
  -- the shape the source asks for
  if (Gen.espiritReshape2 nc kw d).getD 1 0 ≠ cols then none
  let ish := [nc] ++ n
  let out := E.foldl (fun (acc : Array Int) (o, i) =>
      acc.setIfInBounds (ravel [rows, cols] o).toNat (x.getD (ravel ish i).toNat 0))
    (Array.replicate (rows * cols).toNat 0)
  pure ([rows, cols], out)

end SigpyVerif.C17
