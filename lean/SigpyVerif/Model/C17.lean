import SigpyVerif.Model.Py
import SigpyVerif.Model.Apply
import SigpyVerif.Model.C09
import SigpyVerif.Gen.EspiritFormulas
/-
  C17 model: the post-processing of `sigpy.mri.app.EspiritCalib` as exact algebra, and the index map of
  its calibration matrix.

  * `COps α` is the record of scalar operations the code uses (`+ * conj abs ** 0.5 / >`).  The driver
    instantiates it with Gaussian rationals (exact on Pythagorean inputs), `Props/C17.lean` with ℂ.
  * `normalize`, `powerStep` (one `PowerMethod._update` at one voxel), `phaseRef`, `cropMask`, `output`
    (`_output` at one voxel), `gram` (`AHA` at one voxel from the image-domain kernels).
  * `calibMat`: blocks (generated loop nests of block.py) → reshape → transpose → reshape.
  Reference coil, crop comparison, norm exponents, Gram scaling come from `Gen.espirit*`.
-/
namespace SigpyVerif.C17
open SigpyVerif

structure COps (α : Type) where
  zero : α
  add : α → α → α
  mul : α → α → α
  conj : α → α
  /-- `abs z` as a scalar -/
  abs : α → α
  /-- `r ** 0.5` of a non-negative real scalar -/
  sqrt : α → α
  div : α → α → α
  /-- `a > b` on real scalars -/
  gt : α → α → Bool
  /-- `True → 1`, `False → 0` (numpy multiplies by the boolean mask) -/
  ofBool : Bool → α

variable {α : Type}

def csum (o : COps α) (l : List α) : α := l.foldr o.add o.zero

/-- `abs(x) ** p` for the generated integer power `p` (2 in the source) -/
def absPow (o : COps α) (z : α) : α :=
  (List.replicate Gen.espiritNormPow.toNat (o.abs z)).foldr o.mul (o.ofBool true)

/-- `normalize`: `sum(abs(x) ** 2, axis=coil) ** 0.5` at one voxel -/
def normalize (o : COps α) (x : List α) : α :=
  let s := csum o (x.map (absPow o))
  if Gen.espiritNormRootIsHalf then o.sqrt s else s

/-- `forward`: `AHA @ x` at one voxel -/
def matVec (o : COps α) (G : List (List α)) (x : List α) : List α :=
  G.map fun row => csum o (List.zipWith o.mul row x)

/-- one `PowerMethod._update`: `y = A x; max_eig = norm(y); x = y / max_eig` -/
def powerStep (o : COps α) (G : List (List α)) (x : List α) : List α × α :=
  let y := matVec o G x
  let e := normalize o y
  (y.map fun v => o.div v e, e)

/-- `mps *= conj(mps[k] / abs(mps[k]))`, `k` the generated reference coil -/
def phaseRef (o : COps α) (m : List α) : List α :=
  let m0 := m.getD Gen.espiritRefCoil.toNat o.zero
  let ph := o.conj (o.div m0 (o.abs m0))
  m.map fun v => o.mul v ph

/-- `mps *= max_eig > crop` with the comparison supplied (`keep`) -/
def cropMask (o : COps α) (keep : Bool) (m : List α) : List α := m.map fun v => o.mul v (o.ofBool keep)

/-- `_output` at one voxel -/
def output (o : COps α) (keep : Bool) (m : List α) : List α := cropMask o keep (phaseRef o m)

/-- image-domain Gram matrix at one voxel from the kernels' values `vs[k][coil]`:
    `AHA[i][j] = scale * Σ_k v_k[i] * conj v_k[j]` -/
def gram (o : COps α) (scale : α) (vs : List (List α)) (nc : Nat) : List (List α) :=
  (List.range nc).map fun i => (List.range nc).map fun j =>
    o.mul scale (csum o (vs.map fun v => o.mul (v.getD i o.zero) (o.conj (v.getD j o.zero))))

/-! ### calibration matrix -/

/-- entries of the calibration matrix for a `d`-dimensional calibration region `[nc] + [cw]*d`:
    `(row, col) ← calib index`, obtained from the generated `_array_to_blocks{d}` entries
    `[c, n…, x…] ← [c, i…]` by `reshape([nc, -1, kw^d]).transpose([1,0,2]).reshape([-1, nc*kw^d])`. -/
def calibEntries (nc cw kw : Int) (d : Nat) : Option (List (List Int × List Int)) :=
  let n := List.replicate d (Gen.espiritCalibLen cw)
  let blk := List.replicate d (Gen.espiritBlk kw)
  let str := List.replicate d (Gen.espiritStride kw)
  let nb := C09.numBlksList n blk str
  match C09.a2bEntries nc n blk str nb with
  | none => none
  | some E =>
    if Gen.espiritPerm ≠ [1, 0, 2] then none else
    some (E.map fun (o, i, _) =>
      let c := o.headD 0
      let blkIdx := (o.drop 1).take d
      let off := (o.drop (1 + d)).take d
      -- reshape1: [c, ravel(nb) , ravel(blk)] ; transpose → [ravel(nb), c, ravel(blk)] ; reshape2 → [row, c*kw^d + ravel(blk)]
      ([ravel nb blkIdx, c * shapeProd blk + ravel blk off], i))

/-- the calibration matrix of a labelled calibration region (flat row-major `x`) -/
def calibMat (nc cw kw : Int) (d : Nat) (x : Array Int) : Option (List Int × Array Int) := do
  let E ← calibEntries nc cw kw d
  let n := List.replicate d (Gen.espiritCalibLen cw)
  let blk := List.replicate d (Gen.espiritBlk kw)
  let nb := C09.numBlksList n blk (List.replicate d (Gen.espiritStride kw))
  let rows := shapeProd nb
  let cols := nc * shapeProd blk
  -- the shape the source asks for
  if (Gen.espiritReshape2 nc kw d).getD 1 0 ≠ cols then none
  let ish := [nc] ++ n
  let out := E.foldl (fun (acc : Array Int) (o, i) =>
      acc.setIfInBounds (ravel [rows, cols] o).toNat (x.getD (ravel ish i).toNat 0))
    (Array.replicate (rows * cols).toNat 0)
  pure ([rows, cols], out)

end SigpyVerif.C17
