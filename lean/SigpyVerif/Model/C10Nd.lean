import SigpyVerif.Model.C10
/-
  C10 N-d model (core Lean only; linked into the driver and EXECUTED over `Rat` against `sp.fwt` / `sp.iwt`).

  Arrays are functions of the multi-index (a list of naturals, one entry per axis).  A 1-D linear map is applied
  along one axis (`alongAxis`); a transform step is a family of 1-D maps indexed by the axis length (`AxisMap`).

  Multi-level N-d (`pywt.wavedecn(mode='zero', axes, level)` followed by `pywt.coeffs_to_array(axes=axes)`):
    * one level = the 1-D analysis pair along every axis of `axes` (`levelMap`), the two halves of a transformed
      axis being laid out where `coeffs_to_array` puts them:  `[ a (n) | zeros (p' - n) | d (n) ]`,
      `n = dwt_coeff_len(N)`, `p'` = the packed length of the approximation after the remaining levels
      (`coeffs_to_array` places a level's detail blocks at the offset given by the accumulated block shapes,
       which exceeds `n` whenever `2·dwt_coeff_len(n) > n`: those positions are the zero filling);
    * the next level acts on the approximation block only (`fwtnRec`: sub-box `idx[a] < n` for `a ∈ axes`) and its
      packed result (shape `p'`) overwrites the sub-box `idx[a] < p'`;
    * `iwtnRec` is `array_to_coeffs` + `waverecn`: the approximation sub-box is reconstructed first, the zero filling
      is ignored, then one synthesis level along every axis (reading only the `N` samples kept: `waverecn`'s
      trimming of an approximation one sample longer than the next detail).
  The driver executes the twins `fwtnM` / `iwtnM`, which tabulate every intermediate array once (`tabM`) so that the
  executable model is polynomial; `tabM_app`, `fwtnM_app`, `iwtnM_app` (Props/C10Ml) prove that they are the SAME
  functions as `fwtn` / `iwtn`, the definitions the theorems are about.
-/
namespace SigpyVerif.C10
open SigpyVerif

universe u

/-- the 1-D map `T` applied along axis `a` of an N-d array -/
def alongAxis {α : Type u} (a : Nat) (T : (Nat → α) → Nat → α) (X : List Nat → α) (idx : List Nat) : α :=
  T (fun i => X (idx.set a i)) (idx.getD a 0)

/-- a family of 1-D maps, one per axis length `N`: `fwd N` (length `N` → length `len N`) and the map `bwd N`
    back (length `len N` → length `N`) -/
structure AxisMap (α : Type u) where
  fwd : Nat → (Nat → α) → Nat → α
  bwd : Nat → (Nat → α) → Nat → α
  len : Nat → Nat

/-- steps `(axis, family)` applied one after the other, threading the shape -/
def applyAxes {α : Type u} : List (Nat × AxisMap α) → List Nat → (List Nat → α) → (List Nat → α)
  | [], _, X => X
  | (a, F) :: as, shape, X =>
    applyAxes as (shape.set a (F.len (shape.getD a 0))) (alongAxis a (F.fwd (shape.getD a 0)) X)

/-- the `bwd` maps applied in the reverse order (last step first) -/
def unapplyAxes {α : Type u} : List (Nat × AxisMap α) → List Nat → (List Nat → α) → (List Nat → α)
  | [], _, C => C
  | (a, F) :: as, shape, C =>
    alongAxis a (F.bwd (shape.getD a 0)) (unapplyAxes as (shape.set a (F.len (shape.getD a 0))) C)

/-- the shape after the steps -/
def shapeAxes {α : Type u} : List (Nat × AxisMap α) → List Nat → List Nat
  | [], shape => shape
  | (a, F) :: as, shape => shapeAxes as (shape.set a (F.len (shape.getD a 0)))

section ops
variable {α : Type u} [Add α] [Mul α] [Zero α]

/-- one level along an axis of length `N`, packed `[a | d]` (what `wavedecn(level=1)` + `coeffs_to_array`
    put on a transformed axis), its transpose, and the packed length `2⌊(N+L-1)/2⌋` -/
def level1Map (h g : Int → α) (L : Nat) : AxisMap α where
  fwd N x k := if k < dwtLen N L then ana h N x k else ana g N x (k - dwtLen N L)
  bwd N c n := syn h g (dwtLen N L) c (fun k => c (dwtLen N L + k)) n
  len N := 2 * dwtLen N L

/-- sigpy's even padding along an axis of length `N` (extra zero in front for odd `N`), the centre crop back,
    and the padded length -/
def padMap : AxisMap α where
  fwd N x k := if N % 2 = 0 then x k else if k = 0 then 0 else x (k - 1)
  bwd N c n := c (n + N % 2)
  len N := N + N % 2

/-- one level along an axis of length `N` when `J` more levels follow on the approximation:
    `[ a (n) | zeros | d (n) ]` with the detail half at offset `p' = packedLen n L J` (`coeffs_to_array`'s
    offset), `n = dwtLen N L`.  `J = 0` is `level1Map`. -/
def levelMap (h g : Int → α) (L J : Nat) : AxisMap α where
  fwd N x k := if k < dwtLen N L then ana h N x k
               else if k < packedLen (dwtLen N L) L J then 0
               else ana g N x (k - packedLen (dwtLen N L) L J)
  bwd N c n := syn h g (dwtLen N L) c (fun k => c (packedLen (dwtLen N L) L J + k)) n
  len N := packedLen (dwtLen N L) L J + dwtLen N L

end ops

/-- apply `f` to the entries of `shape` at the positions listed in `axes` -/
def mapAxes (f : Nat → Nat) (axes shape : List Nat) : List Nat :=
  shape.mapIdx fun b n => if axes.contains b then f n else n

/-- multi-index inside the box (decidable form) -/
def inBoxB : List Nat → List Nat → Bool
  | [], [] => true
  | n :: s, i :: idx => decide (i < n) && inBoxB s idx
  | _, _ => false

/-- a function of the multi-index as a VALUE (a structure, so that the compiled code builds the closure — and the
    tables it captures — once, instead of re-running the definition at every index) -/
structure Fn (α : Type u) where
  app : List Nat → α
  /-- unused; a second field keeps `Fn` a real constructor object in compiled code (a one-field structure is
      represented by its field, and the compiler would then eta-expand — i.e. delay — every `Fn`-valued expression) -/
  tag : Nat := 0

/- closure constructors are `@[noinline]` functions of the captured VALUES, so that the compiler cannot move the
   computation of a captured table into the closure body (which would redo it at every index) -/
@[noinline] def leafM {α : Type u} (v : α) (X : List Nat → α) : Fn α :=
  { app := fun idx => match idx with
      | [] => v
      | i :: r => X (i :: r) }

@[noinline] def nodeM {α : Type u} (rows : Array (Fn α)) (X : List Nat → α) : Fn α :=
  { app := fun idx => match idx with
      | [] => X []
      | i :: r => if h : i < rows.size then (rows[i]).app r else X (i :: r) }

/-- tabulate `X` over the box `shape` (row arrays, built once) and read it back; outside the box the function
    itself is used, so `(tabM shape X).app = X` (`tabM_app`) -/
def tabM {α : Type u} : List Nat → (List Nat → α) → Fn α
  | [], X => leafM (X []) X
  | n :: s, X => nodeM (Array.ofFn (n := n) fun i => tabM s (fun r => X (i.val :: r))) X

/-- `P` on the sub-box `p'`, `Y` elsewhere -/
@[noinline] def selM {α : Type u} (p' : List Nat) (P Y : Fn α) : Fn α :=
  { app := fun idx => if inBoxB p' idx then P.app idx else Y.app idx }

/-- `R` on the sub-box `s1`, zero on the rest of the sub-box `p'`, `C` elsewhere -/
@[noinline] def selAdjM {α : Type u} [Zero α] (s1 p' : List Nat) (R C : Fn α) : Fn α :=
  { app := fun idx => if inBoxB s1 idx then R.app idx else if inBoxB p' idx then 0 else C.app idx }

/-- all multi-indices of a box in row-major order -/
def allIdxN : List Nat → List (List Nat)
  | [] => [[]]
  | n :: s => (List.range n).flatMap fun i => (allIdxN s).map (i :: ·)

/-- row-major position of a multi-index -/
def ravelN : List Nat → List Nat → Nat
  | _ :: s, i :: idx => i * s.foldl (· * ·) 1 + ravelN s idx
  | _, _ => 0

section ops
variable {α : Type u} [Add α] [Mul α] [Zero α]

/-- the level steps of one `dwtn` over `axes` with `J` levels to follow -/
def lvSteps (h g : Int → α) (L J : Nat) (axes : List Nat) : List (Nat × AxisMap α) :=
  axes.map fun a => (a, levelMap h g L J)

/-- `coeffs_to_array(wavedecn(X, level=J, axes))` on an array of shape `shape` (no padding here) -/
def fwtnRec (h g : Int → α) (L : Nat) (axes : List Nat) : Nat → List Nat → (List Nat → α) → (List Nat → α)
  | 0, _, X => X
  | J + 1, shape, X =>
    let Y := applyAxes (lvSteps h g L J axes) shape X
    let s1 := mapAxes (dwtLen · L) axes shape
    let P := fwtnRec h g L axes J s1 Y
    let p' := mapAxes (packedLen · L J) axes s1
    fun idx => if inBoxB p' idx then P idx else Y idx

/-- `waverecn(array_to_coeffs(C, slices))` for the slices of an array of shape `shape` and `J` levels -/
def iwtnRec (h g : Int → α) (L : Nat) (axes : List Nat) : Nat → List Nat → (List Nat → α) → (List Nat → α)
  | 0, _, C => C
  | J + 1, shape, C =>
    let s1 := mapAxes (dwtLen · L) axes shape
    let p' := mapAxes (packedLen · L J) axes s1
    let R := iwtnRec h g L axes J s1 C
    let S : List Nat → α := fun idx => if inBoxB s1 idx then R idx else if inBoxB p' idx then 0 else C idx
    unapplyAxes (lvSteps h g L J axes) shape S

/-- executable twin of `fwtnRec` (tabulates every level's output once); `fwtnRecM_app`: same function -/
def fwtnRecM (h g : Int → α) (L : Nat) (axes : List Nat) : Nat → List Nat → Fn α → Fn α
  | 0, _, X => X
  | J + 1, shape, X =>
    let Y := tabM (shapeAxes (lvSteps h g L J axes) shape) (applyAxes (lvSteps h g L J axes) shape X.app)
    let s1 := mapAxes (dwtLen · L) axes shape
    let P := fwtnRecM h g L axes J s1 Y
    let p' := mapAxes (packedLen · L J) axes s1
    selM p' P Y

/-- executable twin of `iwtnRec`; `iwtnRecM_app`: same function -/
def iwtnRecM (h g : Int → α) (L : Nat) (axes : List Nat) : Nat → List Nat → Fn α → Fn α
  | 0, _, C => C
  | J + 1, shape, C =>
    let s1 := mapAxes (dwtLen · L) axes shape
    let p' := mapAxes (packedLen · L J) axes s1
    let R := tabM s1 (iwtnRecM h g L axes J s1 C).app
    let S := selAdjM s1 p' R C
    tabM shape (unapplyAxes (lvSteps h g L J axes) shape S.app)

/-- every axis is padded to even -/
def padSteps (d : Nat) : List (Nat × AxisMap α) := (List.range d).map fun a => (a, padMap)

end ops

/-- the padded shape -/
def zShape (shape : List Nat) : List Nat := shape.map fun n => n + n % 2

/-- the number of levels `wavedecn` runs: the given one, or (`level=None`) the smallest `dwt_max_level` over the
    transformed axes of the padded shape -/
def nLevels (zs axes : List Nat) (L : Nat) (level : Option Nat) : Nat :=
  let ml := ((List.range zs.length).filter (axes.contains ·)).map fun a => maxLevel (zs.getD a 0) L
  level.getD (ml.foldl Nat.min (ml.headD 0))

/-- the packed coefficient shape of `J` levels over `axes` of an array of shape `zs` -/
def packShape (L J : Nat) (axes zs : List Nat) : List Nat := mapAxes (packedLen · L J) axes zs

section ops
variable {α : Type u} [Add α] [Mul α] [Zero α]

/-- `sigpy.fwt(X, wave, axes, level)` on an array of shape `shape` (`axes` normalised to `0 ≤ a < ndim`) -/
def fwtn (h g : Int → α) (L : Nat) (axes : List Nat) (level : Option Nat) (shape : List Nat)
    (X : List Nat → α) : List Nat → α :=
  let zs := zShape shape
  let Xz := applyAxes (padSteps shape.length) shape X
  fwtnRec h g L axes (nLevels zs axes L level) zs Xz

/-- `sigpy.iwt(C, oshape=shape, slices of get_wavelet_shape(shape), wave, axes, level)` -/
def iwtn (h g : Int → α) (L : Nat) (axes : List Nat) (level : Option Nat) (shape : List Nat)
    (C : List Nat → α) : List Nat → α :=
  let zs := zShape shape
  let Y := iwtnRec h g L axes (nLevels zs axes L level) zs C
  unapplyAxes (padSteps shape.length) shape Y

/-- executable twins of `fwtn` / `iwtn` (`fwtnM_app`, `iwtnM_app`: same functions) -/
def fwtnM (h g : Int → α) (L : Nat) (axes : List Nat) (level : Option Nat) (shape : List Nat)
    (X : List Nat → α) : Fn α :=
  let zs := zShape shape
  let Xz := tabM zs (applyAxes (padSteps shape.length) shape X)
  fwtnRecM h g L axes (nLevels zs axes L level) zs Xz

def iwtnM (h g : Int → α) (L : Nat) (axes : List Nat) (level : Option Nat) (shape : List Nat)
    (C : List Nat → α) : Fn α :=
  let zs := zShape shape
  let Y := iwtnRecM h g L axes (nLevels zs axes L level) zs (tabM (packShape L (nLevels zs axes L level) axes zs) C)
  tabM shape (unapplyAxes (padSteps shape.length) shape Y.app)

/-- the shape of `fwtn`'s result -/
def fwtnOutShape (L : Nat) (axes : List Nat) (level : Option Nat) (shape : List Nat) : List Nat :=
  packShape L (nLevels (zShape shape) axes L level) axes (zShape shape)

end ops

end SigpyVerif.C10
