import SigpyVerif.Gen.Sim
/-
  C19 — Bloch simulators (sigpy/mri/rf/sim.py: abrm, abrm_nd, abrm_hp, abrm_ptx; optcont.py: blochsim) and the
  inverse SLR recursion (slr.py: ab2rf).

  Core Lean only.  The per-sample updates of the Cayley–Klein state `(a, b)`, the parameter formulas
  (`av`, `bv`, `S`, `alpha`, `beta` from the atoms cos/sin/axis/unit phases), the final rephasing and the whole
  simulations (`…Sim`: one sample update per list element, in order) are the definitions of `Gen/Sim.lean`,
  REGENERATED FROM THE SOURCE on every run by harness/translate/gen_c19.py, generic over a type `α` with
  `+ - * /`, negation, a conjugation (`HasConj`) and the imaginary unit (`HasI`): reasoned about over ℂ
  (Props/C19.lean), executed over the Gaussian rationals `GRat` by the driver.  The step maps below ARE the
  generated ones (tupled); `abrm_nd`'s and `blochsim`'s final phase are tied to them by lemmas in Props.
  The theorems constrain the atoms by what the code guarantees (`C² + S² = 1` real, unit axis, `|u| = |z| = 1`).
-/
namespace SigpyVerif.C19
open SigpyVerif.Gen.Sim

variable {α : Type} [Add α] [Sub α] [Mul α] [Div α] [Neg α] [HasConj α] [HasI α]

/-- `abrm` (and, by `abrmNdStep_eq`, `abrm_nd`):  `at = av*a - conj(bv)*b ; bt = bv*a + conj(av)*b` -/
def ckStep (p : α × α) (s : α × α) : α × α := abrmStep p.1 p.2 s

/-- `abrm_hp`:  `b = b*z ; at = a*C - b*conj(S) ; bt = a*S + b*C`  (parameters `(C, S, z)`) -/
def hpStep (p : α × α × α) (s : α × α) : α × α := abrmHpStep p.1 p.2.1 p.2.2 s

/-- `blochsim`:  `at = a*c - b*conj(s) ; bt = a*s + b*c ; b = bt*z` -/
def bsStep (p : α × α × α) (s : α × α) : α × α := blochsimStep p.1 p.2.1 p.2.2 s

/-- `abrm_ptx` (internal state):  `tmpa = alpha*sa + beta*sb ; tmpb = -conj(beta)*sa + conj(alpha)*sb` -/
def ptxStep (p : α × α) (s : α × α) : α × α := abrmPtxStep p.1 p.2 s

/-- `abrm_ptx` output: `a = statea ; b = -conj(stateb)` -/
def ptxOut (s : α × α) : α × α := abrmPtxOut s

/-- the per-sample parameters the code computes from the atoms -/
def ckParams (p : CkAtoms α) : α × α := (abrmParam_av p, abrmParam_bv p)
def ndParams (p : CkAtoms α) : α × α := (abrmNdParam_av p, abrmNdParam_bv p)
def hpParams (p : HpAtoms α) : α × α × α := (p.C, abrmHpParam_S p, p.z)
def bsParams (p : HpAtoms α) : α × α × α := (p.C, blochsimParam_s p, p.z)
def ptxParams (p : PtxAtoms α) : α × α := (abrmPtxParam_alpha p, abrmPtxParam_beta p)

/-- the simulators' loop over time -/
def sim {P : Type} (step : P → α × α → α × α) (w : List P) (s0 : α × α) : α × α :=
  w.foldl (fun s p => step p s) s0

/-- final phase of abrm_hp / blochsim (and abrm's `balanced` rewinder has the same shape with `(av, conj av)`) -/
def finalPhase (zf : α) (s : α × α) : α × α := abrmHpFinal zf s

/-- SU(2) composition of two simulations in Cayley–Klein form: first `(a1,b1)`, then `(a2,b2)` -/
def compose (s2 s1 : α × α) : α × α := ckStep s2 s1

/-! ### ab2rf: one peel of the backward recursion -/

/-- `sj = conj(cj * b[ii] / a[ii])` (generated) -/
def peelS (cj aii bii : α) : α := ab2rfSj cj aii bii

/-- `at = cj*a + sj*b ; bt = -conj(sj)*a + cj*b ; a = at[1:ii+1] ; b = bt[0:ii]` (generated) -/
def peel (cj sj : α) (a b : List α) (ii : Nat) : List α × List α := ab2rfPeel cj sj a b ii

/-- the whole backward recursion on coefficient lists; `cs` are the values `cj` for `ii = n-1, n-2, …, 0`
(each `cj = sqrt(1/(1+|b[ii]/a[ii]|²))`; over `GRat` they are hints that the driver checks by squaring).
Returns the `(cj, sj)` per step, last sample first.  -/
def ab2rfLoop : List α → List α → List α → Nat → List (α × α)
  | [], _, _, _ => []
  | _, _, _, 0 => []
  | cj :: cs, a, b, n + 1 =>
    match a[n]?, b[n]? with
    | some an, some bn =>
      let sj := peelS cj an bn
      let ab := peel cj sj a b n
      (cj, sj) :: ab2rfLoop cs ab.1 ab.2 n
    | _, _ => []

/-! ### hard-pulse simulation as a pair of polynomials in the gradient phase factor

For a constant gradient every sample of `abrm_hp` / `blochsim` has the same phase factor `z = exp(-i(x·g + dom0dt))`
and the Cayley–Klein state after `n` samples is a pair of polynomials `(A_n(z), B_n(z))` with `n` coefficients each
(degree `< n` in the code's `z`, i.e. in `z⁻¹` of the SLR literature where `z = exp(+i·ω·dt)`).  The state is kept
as the two coefficient lists, lowest power first.  `b = b * z` is the shift `0 :: b`; `a` is padded `a ++ [0]`.
Start `([1], [])` = `(1, 0)`; `List.zipWith` cuts the first step to one coefficient each.  Props/C19Slr.lean proves
that evaluating these lists at `z` IS the generated simulation (`hpPoly_eval`), so the lists are not a second model:
they are what `Gen.Sim.abrmHpSim` computes, for every `z`. -/
section poly
variable [OfNat α 0] [OfNat α 1]

/-- Horner evaluation of a coefficient list (lowest power first) -/
def peval (ζ : α) : List α → α
  | [] => 0
  | c :: l => c + ζ * peval ζ l

/-- one `abrm_hp` sample on coefficient lists: `A' = A·C - z·B·conj(S)`, `B' = A·S + z·B·C` -/
def hpPolyStep (C S : α) (ab : List α × List α) : List α × List α :=
  (List.zipWith (fun x y => x * C - y * conj S) (ab.1 ++ [0]) (0 :: ab.2),
   List.zipWith (fun x y => x * S + y * C) (ab.1 ++ [0]) (0 :: ab.2))

/-- the polynomial pair of a hard-pulse train (samples in time order); per sample `C = p.C` and `S` by the
GENERATED formula `abrmHpParam_S` (`1j * exp(1j*angle(rf)) * sin(|rf|/2)`); `p.z` is not used. -/
def hpPoly (w : List (HpAtoms α)) : List α × List α :=
  w.foldl (fun ab p => hpPolyStep p.C (abrmHpParam_S p) ab) ([1], [])

/-- the same pair in the convention of `slr.ab2rf`'s arrays: `a_slr = reverse(conj A)`, `b_slr = 1j·reverse(conj B)`
(on the unit circle `A_slr(z) = z^{n-1}·conj A(z)`, `B_slr(z) = i·z^{n-1}·conj B(z)`: same magnitudes).  Over ℂ the
map is an involution (`toSlr_toSlr`), so it also takes `ab2rf`'s arrays back to the simulator's polynomials. -/
def toSlr (ab : List α × List α) : List α × List α :=
  (ab.1.reverse.map conj, ab.2.reverse.map fun x => HasI.I * conj x)

end poly

/-! ### Gaussian rationals for the driver -/

structure GRat where
  re : Rat
  im : Rat
deriving DecidableEq, Repr

namespace GRat
instance : Add GRat := ⟨fun x y => ⟨x.re + y.re, x.im + y.im⟩⟩
instance : Sub GRat := ⟨fun x y => ⟨x.re - y.re, x.im - y.im⟩⟩
instance : Neg GRat := ⟨fun x => ⟨-x.re, -x.im⟩⟩
instance : Mul GRat := ⟨fun x y => ⟨x.re * y.re - x.im * y.im, x.re * y.im + x.im * y.re⟩⟩
def normSq (x : GRat) : Rat := x.re * x.re + x.im * x.im
instance : Div GRat := ⟨fun x y =>
  let d := normSq y
  ⟨(x.re * y.re + x.im * y.im) / d, (x.im * y.re - x.re * y.im) / d⟩⟩
instance : HasConj GRat := ⟨fun x => ⟨x.re, -x.im⟩⟩
instance : HasI GRat := ⟨⟨0, 1⟩⟩
instance : OfNat GRat 0 := ⟨⟨0, 0⟩⟩
instance : OfNat GRat 1 := ⟨⟨1, 0⟩⟩
end GRat

end SigpyVerif.C19
