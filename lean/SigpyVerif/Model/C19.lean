/-
  C19 — Bloch simulators (sigpy/mri/rf/sim.py: abrm, abrm_nd, abrm_hp, abrm_ptx; optcont.py: blochsim) and the
  inverse SLR recursion (slr.py: ab2rf).

  Core Lean only.  Every per-sample update is transcribed from the Python source as a map on the
  Cayley–Klein state `(a, b)`, *generically* over a type `α` with `+ - * /`, negation and a conjugation
  (`HasConj`), so that the very same definitions are reasoned about over ℂ (Props/C19.lean) and executed over
  the Gaussian rationals `GRat` by the driver.  The rotation parameters of a sample (what the code computes
  with cos/sin/exp from rf, gradient and position) are *inputs* of the step; the theorems constrain them by
  what the code guarantees (`|av|²+|bv|² = 1`, `C` real with `C²+|S|² = 1`, `|z| = 1`).  A simulator is the
  left fold of its step over the list of per-sample parameters, followed (abrm_hp, blochsim) by the final
  half-area phase.
-/
namespace SigpyVerif.C19

class HasConj (α : Type) where
  conj : α → α
export HasConj (conj)

variable {α : Type} [Add α] [Sub α] [Mul α] [Div α] [Neg α] [HasConj α]

/-- `abrm`, `abrm_nd`:  `at = av*a - conj(bv)*b ; bt = bv*a + conj(av)*b` -/
def ckStep (p : α × α) (s : α × α) : α × α :=
  (p.1 * s.1 - conj p.2 * s.2, p.2 * s.1 + conj p.1 * s.2)

/-- `abrm_hp`:  `b = b*z ; at = a*C - b*conj(S) ; bt = a*S + b*C`  (parameters `(C, S, z)`) -/
def hpStep (p : α × α × α) (s : α × α) : α × α :=
  let b := s.2 * p.2.2
  (s.1 * p.1 - b * conj p.2.1, s.1 * p.2.1 + b * p.1)

/-- `blochsim`:  `at = a*c - b*conj(s) ; bt = a*s + b*c ; b = bt*z` -/
def bsStep (p : α × α × α) (s : α × α) : α × α :=
  (s.1 * p.1 - s.2 * conj p.2.1, (s.1 * p.2.1 + s.2 * p.1) * p.2.2)

/-- `abrm_ptx` (internal state):  `tmpa = alpha*sa + beta*sb ; tmpb = -conj(beta)*sa + conj(alpha)*sb` -/
def ptxStep (p : α × α) (s : α × α) : α × α :=
  (p.1 * s.1 + p.2 * s.2, -(conj p.2) * s.1 + conj p.1 * s.2)

/-- `abrm_ptx` output: `a = statea ; b = -conj(stateb)` -/
def ptxOut (s : α × α) : α × α := (s.1, -(conj s.2))

/-- the simulators' loop over time -/
def sim {P : Type} (step : P → α × α → α × α) (w : List P) (s0 : α × α) : α × α :=
  w.foldl (fun s p => step p s) s0

/-- final phase of abrm_hp / blochsim (and abrm's `balanced` rewinder has the same shape with `(av, conj av)`) -/
def finalPhase (zf : α) (s : α × α) : α × α := (s.1 * zf, s.2 * zf)

/-- SU(2) composition of two simulations in Cayley–Klein form: first `(a1,b1)`, then `(a2,b2)` -/
def compose (s2 s1 : α × α) : α × α := ckStep s2 s1

/-! ### ab2rf: one peel of the backward recursion -/

/-- `sj = conj(cj * b[ii] / a[ii])` -/
def peelS (cj aii bii : α) : α := conj (cj * bii / aii)

/-- `at = cj*a + sj*b ; bt = -conj(sj)*a + cj*b ; a = at[1:ii+1] ; b = bt[0:ii]` -/
def peel (cj sj : α) (a b : List α) (ii : Nat) : List α × List α :=
  let at_ := List.zipWith (fun x y => cj * x + sj * y) a b
  let bt := List.zipWith (fun x y => -(conj sj) * x + cj * y) a b
  ((at_.drop 1).take ii, bt.take ii)

/-- the whole backward recursion on coefficient lists; `cs` are the values `cj` for `ii = n-1, n-2, …, 0`
(each `cj = sqrt(1/(1+|b[ii]/a[ii]|²))`; over `GRat` they are hints that the driver checks by squaring).
Returns the `(cj, sj)` per step, last sample first.  -/
def ab2rfLoop : List α → List α → List α → Nat → List (α × α)
  | [], _, _, _ => []
  | _, _, _, 0 => []
  | cj :: cs, a, b, n + 1 =>
    match a[n]?, b[n]? with
    | some an, some bn =>
      let sj := peelS cj an bn
      let ab := peel cj sj a b n
      (cj, sj) :: ab2rfLoop cs ab.1 ab.2 n
    | _, _ => []

/-! ### Gaussian rationals for the driver -/

structure GRat where
  re : Rat
  im : Rat
deriving DecidableEq, Repr

namespace GRat
instance : Add GRat := ⟨fun x y => ⟨x.re + y.re, x.im + y.im⟩⟩
instance : Sub GRat := ⟨fun x y => ⟨x.re - y.re, x.im - y.im⟩⟩
instance : Neg GRat := ⟨fun x => ⟨-x.re, -x.im⟩⟩
instance : Mul GRat := ⟨fun x y => ⟨x.re * y.re - x.im * y.im, x.re * y.im + x.im * y.re⟩⟩
def normSq (x : GRat) : Rat := x.re * x.re + x.im * x.im
instance : Div GRat := ⟨fun x y =>
  let d := normSq y
  ⟨(x.re * y.re + x.im * y.im) / d, (x.im * y.re - x.re * y.im) / d⟩⟩
instance : HasConj GRat := ⟨fun x => ⟨x.re, -x.im⟩⟩
end GRat

end SigpyVerif.C19
