/-
  C02 — effect / alias IR ("T3", small sound version).  Core Lean only (linked into the driver).

  * `Prog n`      : programs over `n` variables: `fresh`, `alias` (view / container element / join of
                    several sources), `copy`, `mutate` (in-place write through a variable), `call`
                    (summarised callee: which arguments it may write, which arguments the result may
                    alias, result otherwise freshly allocated), `ret`, sequence, two-armed branch,
                    loop (zero or more iterations of the body).
  * `Exec`        : concrete big-step semantics over stores (variables ↦ buffer ids, buffers ↦
                    contents, bump allocator).  Views share buffer ids.  Everything numpy may decide
                    at run time (branch taken, iteration count, values written, whether a callee
                    allocates, which part of a container is taken) is non-deterministic.
  * `analyze`     : abstract points-to analysis; every variable maps to a set of origins
                    `{param i, captured k, fresh}`; collects the origins that may be written (`wr`) and
                    that may be returned (`ret`).  Loops are iterated to a post-fixpoint which is then
                    *checked* (`leqb`), so soundness does not depend on the iteration count.
  * `noMutation`  : the checker evaluated by the kernel on every generated program.
  The soundness theorems are in `Props/C02.lean`.

  Second part of the file: the operator-object state machine used by `history_determinism`.
-/
namespace SigpyVerif.C02

/-- where a buffer comes from: the i-th array argument, the k-th array captured by the operator object
    (an attribute of `self`), or an allocation made during the call. -/
inductive Origin where
  | param (i : Nat)
  | captured (k : Nat)
  | fresh
  deriving DecidableEq, Repr

inductive Instr (n : Nat) where
  /-- `dst = xp.zeros(..)`, arithmetic, `astype`, … : a newly allocated buffer -/
  | fresh (dst : Fin n)
  /-- `dst` references (part of) the buffers referenced by `srcs`: view (`reshape`, slicing, `.T`),
      container construction (`[a, b]`, `l.append(a)` with `dst ∈ srcs`), element of a container,
      conditional expression.  `srcs = []`: a non-array value. -/
  | alias (dst : Fin n) (srcs : List (Fin n))
  /-- `dst = src.copy()` -/
  | copy (dst src : Fin n)
  /-- in-place write through `v`: `v op= e`, `v[idx] = e`, `out=v`, `np.copyto(v, …)`, `v.sort()` -/
  | mutate (v : Fin n)
  /-- call of a summarised function: may write through the arguments `muts`, the result may reference
      buffers of the arguments `alis` and buffers allocated by the callee. -/
  | call (dst : Fin n) (muts alis : List (Fin n))
  /-- `return v` (several returns accumulate) -/
  | ret (v : Fin n)
  deriving Repr

inductive Prog (n : Nat) where
  | skip
  | instr (i : Instr n)
  | seq (p q : Prog n)
  | branch (p q : Prog n)
  | loop (p : Prog n)
  deriving Repr

/-! ### concrete semantics -/

structure Store (n : Nat) where
  /-- buffers referenced by each variable (an array references one buffer; a list of arrays several;
      a scalar none) -/
  env : Fin n → List Nat
  /-- contents of the buffers (one abstract cell per buffer: "its bytes") -/
  heap : Nat → Int
  /-- bump allocator: ids `< next` are allocated -/
  next : Nat
  /-- buffers referenced by the returned value(s) -/
  ret : List Nat

def upd {n} {α} (f : Fin n → α) (v : Fin n) (x : α) : Fin n → α := fun w => if w = v then x else f w

inductive Step {n : Nat} : Instr n → Store n → Store n → Prop where
  | fresh (σ : Store n) (dst : Fin n) (w : Int) :
      Step (.fresh dst) σ
        { env := upd σ.env dst [σ.next], heap := fun b => if b = σ.next then w else σ.heap b,
          next := σ.next + 1, ret := σ.ret }
  | alias (σ : Store n) (dst : Fin n) (srcs : List (Fin n)) (l : List Nat)
      (hl : ∀ b ∈ l, ∃ s ∈ srcs, b ∈ σ.env s) :
      Step (.alias dst srcs) σ { σ with env := upd σ.env dst l }
  | copy (σ : Store n) (dst src : Fin n) :
      Step (.copy dst src) σ
        { env := upd σ.env dst [σ.next],
          heap := fun b => if b = σ.next then ((σ.env src).head?.map σ.heap).getD 0 else σ.heap b,
          next := σ.next + 1, ret := σ.ret }
  | mutate (σ : Store n) (v : Fin n) (h' : Nat → Int)
      (hh : ∀ b, b ∉ σ.env v → h' b = σ.heap b) :
      Step (.mutate v) σ { σ with heap := h' }
  | call (σ : Store n) (dst : Fin n) (muts alis : List (Fin n)) (h' : Nat → Int) (next' : Nat)
      (l : List Nat)
      (hn : σ.next ≤ next')
      (hh : ∀ b, b < σ.next → (∀ m ∈ muts, b ∉ σ.env m) → h' b = σ.heap b)
      (hl : ∀ b ∈ l, (∃ s ∈ alis, b ∈ σ.env s) ∨ (σ.next ≤ b ∧ b < next')) :
      Step (.call dst muts alis) σ { env := upd σ.env dst l, heap := h', next := next', ret := σ.ret }
  | ret (σ : Store n) (v : Fin n) :
      Step (.ret v) σ { σ with ret := σ.ret ++ σ.env v }

inductive Exec {n : Nat} : Prog n → Store n → Store n → Prop where
  | skip (σ : Store n) : Exec .skip σ σ
  | instr {i : Instr n} {σ σ' : Store n} : Step i σ σ' → Exec (.instr i) σ σ'
  | seq {p q : Prog n} {σ σ₁ σ₂ : Store n} : Exec p σ σ₁ → Exec q σ₁ σ₂ → Exec (.seq p q) σ σ₂
  | left {p q : Prog n} {σ σ' : Store n} : Exec p σ σ' → Exec (.branch p q) σ σ'
  | right {p q : Prog n} {σ σ' : Store n} : Exec q σ σ' → Exec (.branch p q) σ σ'
  | loopDone {p : Prog n} (σ : Store n) : Exec (.loop p) σ σ
  | loopStep {p : Prog n} {σ σ₁ σ₂ : Store n} :
      Exec p σ σ₁ → Exec (.loop p) σ₁ σ₂ → Exec (.loop p) σ σ₂

/-! ### abstract analysis -/

/-- set union on lists without growing duplicates -/
def ounion (a b : List Origin) : List Origin := a ++ b.filter (fun o => !a.contains o)

def unionAll (ls : List (List Origin)) : List Origin := ls.foldr ounion []

def subsetb (a b : List Origin) : Bool := a.all (fun o => b.contains o)

structure Abs (n : Nat) where
  env : Fin n → List Origin
  /-- origins that may have been written -/
  wr : List Origin
  /-- origins the returned value may reference -/
  ret : List Origin
  /-- false: a loop did not reach a checked post-fixpoint within the fuel -/
  ok : Bool

def join {n} (a b : Abs n) : Abs n :=
  { env := fun v => ounion (a.env v) (b.env v), wr := ounion a.wr b.wr, ret := ounion a.ret b.ret,
    ok := a.ok && b.ok }

def leqb {n} (a b : Abs n) : Bool :=
  (List.finRange n).all (fun v => subsetb (a.env v) (b.env v)) && subsetb a.wr b.wr
    && subsetb a.ret b.ret

def stepA {n} : Instr n → Abs n → Abs n
  | .fresh dst, a => { a with env := upd a.env dst [.fresh] }
  | .alias dst srcs, a => { a with env := upd a.env dst (unionAll (srcs.map a.env)) }
  | .copy dst _, a => { a with env := upd a.env dst [.fresh] }
  | .mutate v, a => { a with wr := ounion a.wr (a.env v) }
  | .call dst muts alis, a =>
      { a with env := upd a.env dst (ounion [.fresh] (unionAll (alis.map a.env))),
               wr := ounion a.wr (unionAll (muts.map a.env)) }
  | .ret v, a => { a with ret := ounion a.ret (a.env v) }

/-- Kleene iteration with widening by join, at most `fuel` rounds -/
def lfp {n} (f : Abs n → Abs n) : Nat → Abs n → Abs n
  | 0, a => a
  | k + 1, a => let a' := join a (f a); if leqb a' a then a else lfp f k a'

def loopFuel : Nat := 12

def analyze {n} : Prog n → Abs n → Abs n
  | .skip, a => a
  | .instr i, a => stepA i a
  | .seq p q, a => analyze q (analyze p a)
  | .branch p q, a => join (analyze p a) (analyze q a)
  | .loop p, a =>
      let A := lfp (fun x => analyze p x) loopFuel a
      let B := analyze p A
      -- the candidate invariant is checked, not trusted
      { A with ok := a.ok && B.ok && leqb a A && leqb B A }

/-- a function: the first `np` variables are its array parameters, the next `nc` the arrays captured by
    the object (`self.<attr>`), the rest are locals (unbound at entry). -/
structure Func (n : Nat) where
  np : Nat
  nc : Nat
  body : Prog n

def Func.init {n} (f : Func n) : Fin n → List Origin := fun v =>
  if v.val < f.np then [.param v.val]
  else if v.val < f.np + f.nc then [.captured (v.val - f.np)]
  else []

def Func.abs0 {n} (f : Func n) : Abs n := { env := f.init, wr := [], ret := [], ok := true }

def Func.result {n} (f : Func n) : Abs n := analyze f.body f.abs0

/-- THE CHECKER: the analysis converged and nothing but freshly allocated buffers may be written. -/
def noMutation {n} (f : Func n) : Bool :=
  f.result.ok && f.result.wr.all (fun o => o == .fresh)

/-- THE CHECKER for functions with a documented in/out argument or object state (the apps: `self`, the
    solution `self.x`, work arrays the object allocated itself): the analysis converged and only freshly
    allocated buffers or buffers of the `allowed` origins may be written. -/
def writesOnly {n} (f : Func n) (allowed : List Origin) : Bool :=
  f.result.ok && f.result.wr.all (fun o => o == .fresh || allowed.contains o)

/-- origins the result may reference (`[fresh]` only: the IR claims the result shares no memory with
    any argument or captured array) -/
def retOrigins {n} (f : Func n) : List Origin := f.result.ret

def mutOrigins {n} (f : Func n) : List Origin := f.result.wr

def Origin.fmt : Origin → String
  | .param i => s!"P{i}"
  | .captured k => s!"C{k}"
  | .fresh => "F"

def fmtOrigins (l : List Origin) : String :=
  if l.isEmpty then "-" else ",".intercalate (l.map Origin.fmt)

/-- one line per function for the driver: `ok=<0|1> clean=<0|1> mut=<origins> ret=<origins>` -/
def Func.summary {n} (f : Func n) : String :=
  let r := f.result
  s!"ok={if r.ok then 1 else 0} clean={if noMutation f then 1 else 0} mut={fmtOrigins r.wr} ret={fmtOrigins r.ret}"

/-! ### summaries of callees and helper constructors used by the generated programs -/

/-- what a caller needs to know about a callee: which parameter positions it may write and which the
    result may alias.  Computed from the callee's own analysis (sound by `analyze_sound`). -/
structure Summary where
  ok : Bool
  muts : List Nat
  alis : List Nat
  deriving Repr, DecidableEq

def summaryOf {n} (f : Func n) : Summary :=
  let r := f.result
  { ok := r.ok && r.wr.all (fun o => match o with | .captured _ => false | _ => true),
    muts := (List.range f.np).filter (fun i => r.wr.contains (.param i)),
    alis := (List.range f.np).filter (fun i => r.ret.contains (.param i)) }

/-- the argument variables at the given parameter positions (`none`: that argument is not a variable
    holding arrays) -/
def pick {n} (idx : List Nat) (args : List (Option (Fin n))) : List (Fin n) :=
  idx.filterMap (fun i => (args.getD i none))

def allArgs {n} (args : List (Option (Fin n))) : List (Fin n) := args.filterMap id

/-- call of an in-scope function through its summary; a callee whose analysis failed is treated as
    "may write and alias every argument" -/
def callS {n} (dst : Fin n) (s : Summary) (args : List (Option (Fin n))) : Prog n :=
  if s.ok then .instr (.call dst (pick s.muts args) (pick s.alis args))
  else .instr (.call dst (allArgs args) (allArgs args))

def seqs {n} : List (Prog n) → Prog n
  | [] => .skip
  | [p] => p
  | p :: ps => .seq p (seqs ps)

abbrev iFresh {n} (d : Fin n) : Prog n := .instr (.fresh d)
abbrev iAlias {n} (d : Fin n) (s : List (Fin n)) : Prog n := .instr (.alias d s)
abbrev iCopy {n} (d s : Fin n) : Prog n := .instr (.copy d s)
abbrev iMut {n} (v : Fin n) : Prog n := .instr (.mutate v)
abbrev iCall {n} (d : Fin n) (m a : List (Fin n)) : Prog n := .instr (.call d m a)
abbrev iRet {n} (v : Fin n) : Prog n := .instr (.ret v)

/-! ### operator object as a state machine (for `history_determinism`) -/

/-- `params`: what the constructor stored; the two caches hold the lazily built `.H` / `.N` objects -/
structure OpState (P C : Type) where
  params : P
  adjCache : Option C
  normalCache : Option C

inductive Event (X : Type) where
  | apply (x : X)
  | takeH
  | takeN

/-- One transition.  `app` is the operator's `_apply` as a function of the *whole* object state (so a
    misbehaving operator that caches or reads its caches can be expressed); `.H`/`.N` fill the caches
    on first use exactly like `Linop.H` / `Linop.N`. -/
def stepOp {P C X Y : Type} (app : OpState P C → X → Y × OpState P C) (mkH mkN : P → C)
    (s : OpState P C) : Event X → OpState P C × Option Y
  | .apply x => let r := app s x; (r.2, some r.1)
  | .takeH => ({ s with adjCache := some (s.adjCache.getD (mkH s.params)) }, none)
  | .takeN => ({ s with normalCache := some (s.normalCache.getD (mkN s.params)) }, none)

/-- outputs of a history (one entry per event; `none` for `.H`/`.N`) and the final state -/
def runOp {P C X Y : Type} (app : OpState P C → X → Y × OpState P C) (mkH mkN : P → C) :
    OpState P C → List (Event X) → List (Option Y) × OpState P C
  | s, [] => ([], s)
  | s, e :: es =>
      let r := stepOp app mkH mkN s e
      let rest := runOp app mkH mkN r.1 es
      (r.2 :: rest.1, rest.2)

end SigpyVerif.C02
