import SigpyVerif.Model.Py
import SigpyVerif.Model.C03Base
import SigpyVerif.Model.C03
/-
  C03: the numpy / Python primitives the TRANSLATOR-GENERATED `_apply` bodies (`Gen/LinopApply.lean`) are written
  in (core Lean only; linked into the driver).  Hand-written numpy semantics on dense row-major arrays — this file
  is the trusted part of the `_apply` tie (validated by the correspondence, which runs the generated bodies on top of
  these primitives against sigpy):

    * `PySlice`, `npRepeat`          an index tuple `[slice(None)] * k + [slice(start, end)] + …`
    * `npGetItem x slc`              basic slicing `x[slc]` (IndexError when the tuple is longer than the rank;
                                     ranges are clipped as numpy does)
    * `npSetItem out slc y`          `out[slc] = y` for a tuple with exactly one ranged entry, WITH numpy's assignment
                                     broadcasting of `y` to the shape of the view (`broadcastTo`)
    * `npReshape`, `npRavel`, `npEmpty`
    * `npAdd acc y`                  `acc + y` where `acc` is the Python int `0` (`none`) or an array, WITH numpy
                                     broadcasting of the two operands (`bshape`)
    * `accResult`                    what `Linop.apply` sees when `_apply` returns the accumulator (`0` has no `.shape`)
    * `rank0Scalar`                  numpy arithmetic on 0-d arrays returns a numpy SCALAR, and `Linop.__call__` of a
                                     scalar builds a `Compose` instead of applying — see `Val` below
-/
namespace SigpyVerif.C03

/-- one entry of an index tuple: `slice(None)` or `slice(start, end)` -/
inductive PySlice
  | all
  | range (start : Nat) (stop : Option Nat)
  deriving DecidableEq, Repr

/-- Python `l * k` for a list `l` and an int `k` (`k ≤ 0` gives `[]`) -/
def npRepeat {β} (l : List β) (k : Int) : List β := (List.replicate k.toNat l).flatten

/-! ### broadcasting -/

/-- numpy broadcast of flat row-major `d` of shape `ys` to shape `vs` (same rank): every entry of `ys` equals the
    entry of `vs` or is 1 -/
def bcData {α} : List Nat → List Nat → List α → Option (List α)
  | [], [], d => some d
  | dy :: ys, dv :: vs, d =>
    if dy = dv then
      ((List.range dy).mapM fun i => bcData ys vs ((d.drop (i * sprod ys)).take (sprod ys))).map List.flatten
    else if dy = 1 then (bcData ys vs d).map fun r => (List.replicate dv r).flatten
    else none
  | _, _, _ => none

/-- drop leading entries equal to 1 until the rank is at most `k` -/
def dropOnes (k : Nat) : List Nat → List Nat
  | 1 :: s => if k < (1 :: s).length then dropOnes k s else 1 :: s
  | s => s

/-- the data of `y` broadcast to the shape `V` under numpy's ASSIGNMENT rule (`out[...] = y`): leading 1-axes of `y`
    in excess of the rank of `V` are dropped, missing leading axes are 1 -/
def broadcastTo {α} (y : NDArr α) (V : List Nat) : Option (List α) :=
  if y.shape = V then some y.data
  else
    let s := dropOnes V.length y.shape
    if s.length ≤ V.length then bcData (List.replicate (V.length - s.length) 1 ++ s) V y.data else none

/-- the broadcast of two shapes (right-aligned; entries equal or one of them 1) -/
def bshape (a b : List Nat) : Option (List Nat) :=
  let n := max a.length b.length
  let a' := List.replicate (n - a.length) 1 ++ a
  let b' := List.replicate (n - b.length) 1 ++ b
  (List.zip a' b').mapM fun p => if p.1 = p.2 then some p.1 else if p.1 = 1 then some p.2 else if p.2 = 1 then some p.1 else none

/-! ### reading -/

def npGetGo {α} (x : NDArr α) : Nat → List PySlice → NDArr α
  | _, [] => x
  | i, .all :: r => npGetGo x (i + 1) r
  | i, .range s e :: r => npGetGo (sliceAx x i s e) (i + 1) r

/-- basic slicing `x[slc]` with a tuple of slices (a single slice `x[a:b]` is the 1-tuple) -/
def npGetItem {α} (x : NDArr α) (slc : List PySlice) : Except Err (NDArr α) :=
  if slc.length ≤ x.shape.length then .ok (npGetGo x 0 slc) else .error .apply   -- IndexError: too many indices

/-- `x.reshape(shape)` -/
def npReshape {α} (x : NDArr α) (shape : List Nat) : Except Err (NDArr α) := reshape x shape

/-- `x.ravel()` -/
def npRavel {α} (x : NDArr α) : NDArr α := ⟨[x.data.length], x.data⟩

/-- `xp.empty(shape)` (the content is irrelevant: every entry is overwritten or the result is not returned;
    zeros make the model deterministic) -/
def npEmpty {α} [Zero α] (shape : List Nat) : NDArr α := ⟨shape, List.replicate (sprod shape) 0⟩

/-! ### writing -/

/-- position and bounds of the ONLY ranged entry of an index tuple (`none`: no or several ranged entries — not
    modelled, treated as an error by `npSetItem`) -/
def slcOne : List PySlice → Option (Nat × Nat × Option Nat)
  | [] => none
  | .all :: r => (slcOne r).map fun t => (t.1 + 1, t.2)
  | .range s e :: r => if r.all (· == .all) then some (0, s, e) else none

/-- `out[:, …, start:end, …] = y` along axis `a`, row by row (one row per index tuple in front of the axis) -/
def setSliceAx {α} (out : NDArr α) (a start : Nat) (stop : Option Nat) (y : NDArr α) : Except Err (NDArr α) :=
  let g := geom out.shape a
  let w := selLen g.n start stop
  match broadcastTo y (out.shape.set a w) with
  | none => .error .apply    -- ValueError: could not broadcast
  | some yd =>
    match allRows (fun o => rowWrite (rowOf (g.n * g.inner) o out.data) (start * g.inner) (stop.map (· * g.inner))
        (rowOf (w * g.inner) o yd)) g.outer with
    | .ok rows => .ok ⟨out.shape, rows.flatten⟩
    | .error e => .error e

/-- `out[slc] = y` -/
def npSetItem {α} (out : NDArr α) (slc : List PySlice) (y : NDArr α) : Except Err (NDArr α) :=
  if slc.length ≤ out.shape.length then
    match slcOne slc with
    | some (a, s, e) => setSliceAx out a s e y
    | none => .error .apply
  else .error .apply

/-! ### the accumulator of `Add` / `Hstack`: `output = 0; output = output + y` -/

/-- the Python int `0` (`none`) or an array -/
abbrev PyAcc (α : Type) := Option (NDArr α)

/-- `acc + y` -/
def npAdd {α} [Add α] [Zero α] (acc : PyAcc α) (y : NDArr α) : Except Err (NDArr α) :=
  match acc with
  | none => .ok ⟨y.shape, y.data.map (0 + ·)⟩
  | some o =>
    if o.shape = y.shape then .ok ⟨o.shape, List.zipWith (· + ·) o.data y.data⟩
    else
      match bshape o.shape y.shape with
      | none => .error .apply
      | some s =>
        match broadcastTo o s, broadcastTo y s with
        | some od, some yd => .ok ⟨s, List.zipWith (· + ·) od yd⟩
        | _, _ => .error .apply

/-- what the caller gets when `_apply` returns the accumulator: the int `0` (no operand) has no `.shape`, so
    `_check_oshape` raises -/
def accResult {α} (acc : PyAcc α) : Except Err (NDArr α) :=
  match acc with
  | none => .error .apply
  | some y => .ok y

/-! ### sequencing combinators of the generated code (no pattern matching in the generated text) -/

/-- evaluate `x`; an exception propagates -/
def bindE {β γ : Type} (x : Except Err β) (f : β → Except Err γ) : Except Err γ :=
  match x with
  | .ok v => f v
  | .error e => .error e

/-- a Python list read `l[i]`: `none` is the IndexError (raised inside `_apply`) -/
def bindO {β γ : Type} (x : Option β) (f : β → Except Err γ) : Except Err γ :=
  match x with
  | some v => f v
  | none => .error .apply

/-- `try: x except Exception as e: raise RuntimeError(..) from e` -/
def tryE {β γ : Type} (x : Except Err β) (f : β → Except Err γ) : Except Err γ :=
  match x with
  | .ok v => f v
  | .error _ => .error .apply

@[simp] theorem bindE_ok {β γ : Type} (v : β) (f : β → Except Err γ) : bindE (.ok v) f = f v := rfl
@[simp] theorem bindE_error {β γ : Type} (e : Err) (f : β → Except Err γ) : bindE (.error e) f = .error e := rfl
@[simp] theorem bindO_some {β γ : Type} (v : β) (f : β → Except Err γ) : bindO (some v) f = f v := rfl
@[simp] theorem bindO_none {β γ : Type} (f : β → Except Err γ) : bindO none f = .error .apply := rfl
@[simp] theorem tryE_ok {β γ : Type} (v : β) (f : β → Except Err γ) : tryE (.ok v) f = f v := rfl
@[simp] theorem tryE_error {β γ : Type} (e : Err) (f : β → Except Err γ) : tryE (.error e) f = .error .apply := rfl

/-- `enumerate(l)` -/
def pyEnumerate {β} (l : List β) : List (Nat × β) := List.zip (List.range l.length) l

end SigpyVerif.C03
