/-
  C11 — generic scalar helpers used by the generated formulas (`Gen/Prox.lean`) (core Lean only).
  `gabs` is Python `abs` on a real scalar, `gclip a lo hi` is `numpy.clip(a, lo, hi) = minimum(maximum(a, lo), hi)`.
-/
namespace SigpyVerif.C11
variable {α : Type} [Zero α] [Neg α] [LT α] [DecidableLT α]

@[inline] def gabs (x : α) : α := if x < 0 then -x else x
@[inline] def gmax (a b : α) : α := if a < b then b else a
@[inline] def gmin (a b : α) : α := if b < a then b else a
@[inline] def gclip (a lo hi : α) : α := gmin (gmax a lo) hi

end SigpyVerif.C11
