/-
  C11 — generic scalar helpers used by the generated formulas (`Gen/Prox.lean`) (core Lean only).
  `gabs` is Python `abs` on a real scalar, `gclip a lo hi` is `numpy.clip(a, lo, hi) = minimum(maximum(a, lo), hi)`.
-/
namespace SigpyVerif.C11
variable {α : Type} [Zero α] [Neg α] [LT α] [DecidableLT α]

@[inline] def gabs (x : α) : α := if x < 0 then -x else x
@[inline] def gmax (a b : α) : α := if a < b then b else a
@[inline] def gmin (a b : α) : α := if b < a then b else a
@[inline] def gclip (a lo hi : α) : α := gmin (gmax a lo) hi

/-- The numpy array operations `thresh.psd_proj` is written with (what each field stands for is fixed here; the
    generated `Gen.Prox.psdEighArg / psdRecon / psdProjWith` are terms over this record).  `M`: 2-D arrays,
    `W`: 1-D real arrays (eigenvalues), `α`: the eigenvalue scalar.  Instantiated with exact Gaussian-rational
    arrays in `Model/C11Psd.lean` (executed) and with Mathlib matrices in `Props/C11Psd.lean` (reasoned about). -/
structure PsdOps (α M W : Type) where
  /-- `a + b` -/
  add : M → M → M
  /-- `xp.conj(a)` / `a.conjugate()` (entrywise complex conjugate) -/
  conj : M → M
  /-- `a.T` -/
  transpose : M → M
  /-- `a / k` for an integer literal `k` (entrywise) -/
  divNat : M → Nat → M
  /-- `a @ b` -/
  matmul : M → M → M
  /-- `a * w` for `a` of shape (n, n) and `w` of shape (n,): broadcast over the last axis, `a[i, j] * w[j]` -/
  mulCols : M → W → M
  /-- an elementwise update of a 1-D array (`w[w < 0] = 0` is `mapW (fun w => if w < 0 then 0 else w)`) -/
  mapW : (α → α) → W → W

end SigpyVerif.C11
