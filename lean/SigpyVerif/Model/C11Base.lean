/-
  C11 — generic scalar helpers used by the generated formulas (`Gen/Prox.lean`) (core Lean only).
  `gabs` is Python `abs` on a real scalar, `gclip a lo hi` is `numpy.clip(a, lo, hi) = minimum(maximum(a, lo), hi)`.
-/
namespace SigpyVerif.C11
variable {α : Type} [Zero α] [Neg α] [LT α] [DecidableLT α]

@[inline] def gabs (x : α) : α := if x < 0 then -x else x
@[inline] def gmax (a b : α) : α := if a < b then b else a
@[inline] def gmin (a b : α) : α := if b < a then b else a
@[inline] def gclip (a lo hi : α) : α := gmin (gmax a lo) hi

/-- The numpy array operations `thresh.psd_proj` is written with (what each field stands for is fixed here; the
    generated `Gen.Prox.psdEighArg / psdRecon / psdProjWith` are terms over this record).  `M`: 2-D arrays,
    `W`: 1-D real arrays (eigenvalues), `α`: the eigenvalue scalar.  Instantiated with exact Gaussian-rational
    arrays in `Model/C11Psd.lean` (executed) and with Mathlib matrices in `Props/C11Psd.lean` (reasoned about). -/
structure PsdOps (α M W : Type) where
  /-- `a + b` -/
  add : M → M → M
  /-- `xp.conj(a)` / `a.conjugate()` (entrywise complex conjugate) -/
  conj : M → M
  /-- `a.T` -/
  transpose : M → M
  /-- `a / k` for an integer literal `k` (entrywise) -/
  divNat : M → Nat → M
  /-- `a @ b` -/
  matmul : M → M → M
  /-- `a * w` for `a` of shape (n, n) and `w` of shape (n,): broadcast over the last axis, `a[i, j] * w[j]` -/
  mulCols : M → W → M
  /-- an elementwise update of a 1-D array (`w[w < 0] = 0` is `mapW (fun w => if w < 0 then 0 else w)`) -/
  mapW : (α → α) → W → W

end SigpyVerif.C11

/-! ### list-level numpy operations used by the generated array bodies (`Gen/ProxBody.lean`) -/
namespace SigpyVerif.C11

/-- an n-D array: shape and row-major data (`ravel()` / `reshape` of a contiguous array keep `data`) -/
structure Arr (β : Type) where
  shape : List Int
  data : List β

/-- `a.ravel()`: one axis of length `a.size`, same row-major data -/
def Arr.ravel {β : Type} (a : Arr β) : Arr β := ⟨[(a.data.length : Int)], a.data⟩
/-- `a.reshape(sh)` (row-major data unchanged) -/
def Arr.reshape {β : Type} (a : Arr β) (sh : List Int) : Arr β := ⟨sh, a.data⟩
/-- a flat list as a 1-D array -/
def Arr.ofFlat {β : Type} (l : List β) : Arr β := ⟨[(l.length : Int)], l⟩
/-- Python `sum` of ints -/
def lsumInt (l : List Int) : Int := l.foldr (· + ·) 0
/-- an elementwise kernel applied to every entry (shape kept) -/
def Arr.mapData {β γ : Type} (f : β → γ) (a : Arr β) : Arr γ := ⟨a.shape, a.data.map f⟩

section
variable {α : Type} [Zero α] [One α] [Add α] [NatCast α] [LT α] [DecidableLT α]

/-- running sums started at `acc` -/
def cumsumFrom (acc : α) : List α → List α
  | [] => []
  | a :: t => (acc + a) :: cumsumFrom (acc + a) t
/-- `xp.cumsum(v)` -/
def cumsumG (v : List α) : List α := cumsumFrom 0 v
/-- `xp.sum(v)` / `xp.linalg.norm(v, 1)` of a non-negative 1-D array -/
def lsum (v : List α) : α := v.foldr (· + ·) 0
/-- `xp.arange(n)` -/
def arangeG (n : Nat) : List α := (List.range n).map fun (k : Nat) => ((k : Nat) : α)
/-- `xp.flatnonzero(m).max()`: the largest index holding `true`; `none` when there is none (numpy raises) -/
def flatnonzeroMax : List Bool → Option Nat
  | [] => none
  | b :: t =>
    match flatnonzeroMax t with
    | some i => some (i + 1)
    | none => if b then some 0 else none
/-- the model's own sort (ascending merge sort on `¬ b < a`), used where numpy calls `xp.sort` -/
def msort (l : List α) : List α := l.mergeSort fun a b => !decide (b < a)
end

end SigpyVerif.C11
