/-
  C18 — model of `sigpy.mri.samp.poisson` (bisection driver) and `_poisson` (Bridson sampler).
  Core Lean only.  Every arithmetic expression, comparison and update used below is a definition of
  `Gen.Samp` that the translator regenerates from sigpy/mri/samp.py on every run; what is hand-written here
  is the control skeleton (which generated piece is evaluated when), and it is tied to the code by the
  correspondence streams `sampler` (scripted draws through `_poisson.py_func`) and `driver` (real traces).

  Hand-modelled, not generated (validated by correspondence only):
    * Python slice semantics `mask[a:b, c:d] = v` for 0 ≤ a ≤ b ≤ n (theorem `calib_block_bounds` shows
      the generated bounds satisfy this for 0 ≤ c ≤ n);
    * storing a float into the int32 active list truncates (`ratTrunc`);
    * IEEE semantics of `size / 0 = inf` in the driver (`accOf` returns `none`);
    * the three abstract draws per attempt `(v, c, s)` stand for `(3u₁+1)^0.5, cos(2πu₂), sin(2πu₂)`.
-/
import SigpyVerif.Gen.Samp
namespace SigpyVerif.C18
open SigpyVerif

/-! ## 1. the sampler `_poisson` as a machine over an abstract draw stream -/

/-- `mask[y, x]` -/
abbrev Mask := Int → Int → Rat

def Mask.set (m : Mask) (y x : Int) (v : Rat) : Mask :=
  fun y' x' => if y' = y ∧ x' = x then v else m y' x'

structure Cfg where
  nx : Int
  ny : Int
  cx : Int
  cy : Int
  maxAttempts : Int
  radX : Int → Int → Rat   -- radius_x[y, x]
  radY : Int → Int → Rat   -- radius_y[y, x]

/-- membership in the calibration block `mask[loY:hiY, loX:hiX]` -/
def inBlock (c : Cfg) (y x : Int) : Prop :=
  Gen.Samp.calibLoY c.ny c.cy ≤ y ∧ y < Gen.Samp.calibHiY c.ny c.cy ∧
  Gen.Samp.calibLoX c.nx c.cx ≤ x ∧ x < Gen.Samp.calibHiX c.nx c.cx

instance (c : Cfg) (y x : Int) : Decidable (inBlock c y x) := by unfold inBlock; infer_instance

/-- `mask = np.zeros((ny, nx)); mask[loY:hiY, loX:hiX] = 1` -/
def calibMask (c : Cfg) : Mask := fun y x => if inBlock c y x then Gen.Samp.calibFillValue else 0

structure PState where
  mask : Mask
  pxs : List Int
  pys : List Int

/-- one abstract attempt draw: `v = (3u+1)^0.5`, `c = cos t`, `s = sin t` -/
structure Cand where
  v : Rat
  c : Rat
  s : Rat

def init (c : Cfg) (p0x p0y : Int) : PState := { mask := calibMask c, pxs := [p0x], pys := [p0y] }

/-- the neighbourhood scan: no sampled grid point of the window lies within its own ellipse of `q` -/
def noNeighbour (c : Cfg) (m : Mask) (qx qy rx ry : Rat) : Bool :=
  (pyRange (Gen.Samp.startx qx rx) (Gen.Samp.endx c.nx qx rx) 1).all fun x =>
    (pyRange (Gen.Samp.starty qy ry) (Gen.Samp.endy c.ny qy ry) 1).all fun y =>
      !(Gen.Samp.nbrCond m c.radX c.radY qx qy x y)

def accepts (c : Cfg) (m : Mask) (qx qy rx ry : Rat) : Bool :=
  Gen.Samp.inGrid c.nx c.ny qx qy && noNeighbour c m qx qy rx ry

/-- the attempt loop `while not done and k < max_attempts`; returns the accepted candidate (if any) and the
    number of attempts made.  An exhausted draw list ends the loop with `done = False`. -/
def tryCands (c : Cfg) (m : Mask) (px py : Int) (rx ry : Rat) : Int → List Cand → Option (Rat × Rat) × Int
  | k, [] => (none, k)
  | k, d :: ds =>
    if Gen.Samp.attemptCond k c.maxAttempts then
      let qx := Gen.Samp.candX px d.v rx d.c
      let qy := Gen.Samp.candY py d.v ry d.s
      if accepts c m qx qy rx ry then (some (qx, qy), k + 1) else tryCands c m px py rx ry (k + 1) ds
    else (none, k)

/-- one iteration of the outer loop with active index `i` and the attempt draws `cs` -/
def step (c : Cfg) (s : PState) (i : Nat) (cs : List Cand) : PState :=
  let px := s.pxs.getD i 0
  let py := s.pys.getD i 0
  let rx := c.radX py px
  let ry := c.radY py px
  match (tryCands c s.mask px py rx ry 0 cs).1 with
  | some (qx, qy) =>
    let y := Gen.Samp.cellY qx qy
    let x := Gen.Samp.cellX qx qy
    { mask := s.mask.set y x (Gen.Samp.cellWrite (s.mask y x)),
      pxs := s.pxs ++ [ratTrunc qx], pys := s.pys ++ [ratTrunc qy] }
  | none =>
    { mask := s.mask,
      pxs := (s.pxs.set i (s.pxs.getLastD 0)).dropLast,
      pys := (s.pys.set i (s.pys.getLastD 0)).dropLast }

abbrev Draws := List (Nat × List Cand)

/-- the outer loop `while nx * ny > num_actives > 0` over a draw stream -/
def run (c : Cfg) : PState → Draws → PState
  | s, [] => s
  | s, (i, cs) :: rest =>
    if Gen.Samp.outerCond c.nx c.ny s.pxs.length then run c (step c s i cs) rest else s

/-- executable trace for the correspondence: per outer iteration (attempts made, accepted?) -/
def runTrace (c : Cfg) : PState → Draws → List (Int × Bool) → PState × List (Int × Bool) × Bool
  | s, [], acc => (s, acc.reverse, Gen.Samp.outerCond c.nx c.ny s.pxs.length)
  | s, (i, cs) :: rest, acc =>
    if Gen.Samp.outerCond c.nx c.ny s.pxs.length then
      if i < s.pxs.length then
        let r := tryCands c s.mask (s.pxs.getD i 0) (s.pys.getD i 0)
                   (c.radX (s.pys.getD i 0) (s.pxs.getD i 0)) (c.radY (s.pys.getD i 0) (s.pxs.getD i 0)) 0 cs
        runTrace c (step c s i cs) rest ((r.2, r.1.isSome) :: acc)
      else (s, ((-1, false) :: acc).reverse, true)
    else (s, ((-2, false) :: acc).reverse, false)

/-! ## 2. radius field and corner crop -/

/-- normalised squared radius of grid point `(y, x)`: `x /= x.max()` with the maximum attained at index 0
    (theorem `radX_max_at_zero`), then `r² = x² + y²`. -/
def rSqAt (nx ny cx cy y x : Int) : Rat :=
  Gen.Samp.rSq (Gen.Samp.radX nx cx x / Gen.Samp.radX nx cx 0) (Gen.Samp.radY ny cy y / Gen.Samp.radY ny cy 0)

/-- `r < 1` decided on `r²` (sound because `r = sqrt(r²) ≥ 0`; theorem `cropKeep_iff_sq`) -/
def keepAt (nx ny cx cy y x : Int) : Bool := decide (rSqAt nx ny cx cy y x < 1)

/-! ## 3. the driver `poisson` as a machine over an abstract sampler oracle -/

inductive Outcome where
  | returned (m : List Rat)
  | raised
  | unbound     -- `actual_accel` referenced before assignment (zero iterations)
  | outOfFuel   -- the loop is still running
  deriving Repr, DecidableEq

def msum (m : List Rat) : Rat := m.foldl (· + ·) 0

structure Env where
  nx : Int
  ny : Int
  accel : Rat
  tol : Rat
  crop : Bool
  /-- `r < 1` per cell (row-major) -/
  keep : List Bool
  /-- the floating-point midpoint; `Gen.Samp.slopeMid` in exact arithmetic -/
  mid : Rat → Rat → Rat
  /-- `_poisson(..)` for the radii derived from `slope`, flattened row-major -/
  sampler : Rat → List Rat

/-- `mask *= r < 1` -/
def cropMask (e : Env) (m : List Rat) : List Rat :=
  if e.crop then List.zipWith (fun v (k : Bool) => v * (if k then 1 else 0)) m e.keep else m

/-- `actual_accel`; `none` is IEEE `+inf` (division of a positive size by a zero sum) -/
def accOf (e : Env) (m : List Rat) : Option Rat :=
  if msum m = 0 then none else some (Gen.Samp.actualAccel e.nx e.ny (msum m))

def brk (e : Env) : Option Rat → Bool
  | none => false                       -- |inf - accel| < tol is False
  | some a => Gen.Samp.breakCond a e.accel e.tol

def raises (e : Env) : Option Rat → Bool
  | none => true                        -- |inf - accel| >= tol is True
  | some a => Gen.Samp.raiseCond a e.accel e.tol

/-- the generated update evaluated at a value above `accel` stands for `inf` -/
def bounds (e : Env) (acc : Option Rat) (slope lo hi : Rat) : Rat × Rat :=
  match acc with
  | none => Gen.Samp.nextBounds (ratAbs e.accel + 1) e.accel slope lo hi
  | some a => Gen.Samp.nextBounds a e.accel slope lo hi

inductive StepR where
  | exit                                   -- loop condition false
  | break (m : List Rat) (acc : Option Rat)
  | stall (m : List Rat) (acc : Option Rat)   -- `slope == slope_min or slope == slope_max`: second break
  | next (lo hi : Rat) (m : List Rat) (acc : Option Rat)
  deriving DecidableEq

/-- one evaluation of the loop head + body -/
def stepD (e : Env) (lo hi : Rat) : StepR :=
  if Gen.Samp.loopCond lo hi then
    let slope := e.mid lo hi
    let m := cropMask e (e.sampler slope)
    let acc := accOf e m
    if brk e acc then .break m acc
    else if Gen.Samp.stallCond slope lo hi then .stall m acc
    else .next (bounds e acc slope lo hi).1 (bounds e acc slope lo hi).2 m acc
  else .exit

/-- the code after the loop: tolerance test, raise or return -/
def finish (e : Env) : Option (List Rat × Option Rat) → Outcome
  | none => .unbound
  | some (m, acc) => if raises e acc then .raised else .returned m

def loop (e : Env) : Nat → Rat → Rat → Option (List Rat × Option Rat) → Outcome
  | 0, _, _, _ => .outOfFuel
  | fuel + 1, lo, hi, last =>
    match stepD e lo hi with
    | .exit => finish e last
    | .break m acc => finish e (some (m, acc))
    | .stall m acc => finish e (some (m, acc))
    | .next lo' hi' m acc => loop e fuel lo' hi' (some (m, acc))

def poissonD (e : Env) (fuel : Nat) : Outcome :=
  loop e fuel (Gen.Samp.slopeMin0 e.nx e.ny) (Gen.Samp.slopeMax0 e.nx e.ny) none

/-- visited `(slope_min, slope_max)` states, for the correspondence -/
def loopStates (e : Env) : Nat → Rat → Rat → List (Rat × Rat)
  | 0, _, _ => []
  | fuel + 1, lo, hi =>
    match stepD e lo hi with
    | .next lo' hi' _ _ => (lo, hi) :: loopStates e fuel lo' hi'
    | .break _ _ => [(lo, hi)]
    | .stall _ _ => [(lo, hi)]
    | .exit => []

/-! ## 4. global and private generator cells -/

/-- The driver with NumPy's global generator state `g : G` threaded through.  `touch` is what one
    `_poisson` call does to the global state (`id` iff numba's generator is private), `pyTouch` what the
    Python-side `np.random.*` calls of the driver (other than get/set_state) do per iteration. -/
def loopG {G : Type} (e : Env) (touch : G → G) : Nat → Rat → Rat → Option (List Rat × Option Rat) → G → Outcome × G
  | 0, _, _, _, g => (.outOfFuel, g)
  | fuel + 1, lo, hi, last, g =>
    match stepD e lo hi with
    | .exit => (finish e last, g)
    | .break m acc => (finish e (some (m, acc)), touch g)
    | .stall m acc => (finish e (some (m, acc)), touch g)
    | .next lo' hi' m acc => loopG e touch fuel lo' hi' (some (m, acc)) (touch g)

def pyEffect {G : Type} (pyTouch : G → G) : G → G := if Gen.Samp.pythonSideRngCalls = 0 then id else pyTouch

/-- whole call: save (if seeded), loop, raise or restore-and-return -/
def poissonG {G : Type} (e : Env) (seeded : Bool) (touch pyTouch : G → G) (fuel : Nat) (g : G) : Outcome × G :=
  let saved := g
  let r := loopG e (fun g => touch (pyEffect pyTouch g)) fuel (Gen.Samp.slopeMin0 e.nx e.ny) (Gen.Samp.slopeMax0 e.nx e.ny) none
             (pyEffect pyTouch g)
  match r.1 with
  | .returned m =>
    (.returned m, if seeded && Gen.Samp.savesRngWhenSeeded && Gen.Samp.restoresRngWhenSeeded then saved else r.2)
  | o => (o, r.2)

/-- `_poisson` seen from the driver when numba's private generator state `p : P` is made explicit: with a
    seed the generator is re-seeded on every call, so the draws are a function of the seed alone. -/
def samplerP {P D : Type} (sampleWith : D → Rat → List Rat) (ofSeed : Int → D) (ofState : P → D)
    (seed : Option Int) (p : P) (slope : Rat) : List Rat :=
  match seed with
  | some s => if Gen.Samp.samplerSeedsPrivateRng then sampleWith (ofSeed s) slope else sampleWith (ofState p) slope
  | none => sampleWith (ofState p) slope

end SigpyVerif.C18
