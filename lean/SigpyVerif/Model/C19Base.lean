/-
  C19 — the operations the generated Bloch-simulator formulas (`Gen/Sim.lean`) are generic over (core Lean only):
  a conjugation (`HasConj`), the imaginary unit (`HasI`, Python `1j`), and the fixed records of per-sample
  *atoms*: the transcendental values (cos / sin of the half angle, unit phase factors `exp(i·…)`) and the
  rotation-axis components a simulator computes from rf, gradient and position before it touches the
  Cayley–Klein state.  The theorems constrain the atoms by what the code guarantees (`C² + S² = 1`, unit axis,
  `|z| = 1`); their float values are compared in the correspondence.
-/
namespace SigpyVerif.C19

class HasConj (α : Type) where
  conj : α → α
export HasConj (conj)

/-- Python `1j` -/
class HasI (α : Type) where
  I : α

/-- `abrm`, `abrm_nd`: `C = cos(phi/2)`, `S = sin(phi/2)`, `n = (nx, ny, nz)` the rotation axis -/
structure CkAtoms (α : Type) where
  C : α
  S : α
  nx : α
  ny : α
  nz : α

/-- `abrm_hp`, `blochsim`: `C = cos(|rf|/2)`, `S = sin(|rf|/2)`, `u = exp(i∠rf)`, `z = exp(-i·x·g)` -/
structure HpAtoms (α : Type) where
  C : α
  S : α
  u : α
  z : α

/-- `abrm_ptx`: `C = cos(phi/2)`, `S = sin(phi/2)`, `nz` (real), `nxy` (complex transverse axis) -/
structure PtxAtoms (α : Type) where
  C : α
  S : α
  nz : α
  nxy : α

end SigpyVerif.C19
