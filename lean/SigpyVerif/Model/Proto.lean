/-
  Line-protocol helpers shared by every `Drv/Cxx.lean` (core Lean only).
  Tokens are whitespace separated.  Integer lists are comma separated without blanks, the empty list is `-`.
  Rationals are `p/q` or `p`; Gaussian rationals are `re;im`.
-/
namespace SigpyVerif.Proto

def parseInt? (s : String) : Option Int := s.toInt?

def parseIntList? (s : String) : Option (List Int) :=
  if s == "-" then some [] else (s.splitOn ",").mapM parseInt?

def parseRat? (s : String) : Option Rat :=
  match s.splitOn "/" with
  | [p] => (parseInt? p).map (fun (n : Int) => (n : Rat))
  | [p, q] => do
      let n ← parseInt? p
      let d ← parseInt? q
      if d == 0 then none else some ((n : Rat) / (d : Rat))
  | _ => none

def parseRatList? (s : String) : Option (List Rat) :=
  if s == "-" then some [] else (s.splitOn ",").mapM parseRat?

/-- Gaussian rational `re;im` (or just `re`) -/
def parseCRat? (s : String) : Option (Rat × Rat) :=
  match s.splitOn ";" with
  | [r] => (parseRat? r).map (fun x => (x, 0))
  | [r, i] => do let a ← parseRat? r; let b ← parseRat? i; some (a, b)
  | _ => none

def parseCRatList? (s : String) : Option (List (Rat × Rat)) :=
  if s == "-" then some [] else (s.splitOn ",").mapM parseCRat?

def fmtInt (i : Int) : String := toString i

def fmtIntList (l : List Int) : String :=
  if l.isEmpty then "-" else ",".intercalate (l.map fmtInt)

def fmtRat (r : Rat) : String :=
  if r.den == 1 then toString r.num else s!"{r.num}/{r.den}"

def fmtRatList (l : List Rat) : String :=
  if l.isEmpty then "-" else ",".intercalate (l.map fmtRat)

def fmtCRat (z : Rat × Rat) : String :=
  if z.2 == 0 then fmtRat z.1 else s!"{fmtRat z.1};{fmtRat z.2}"

def fmtCRatList (l : List (Rat × Rat)) : String :=
  if l.isEmpty then "-" else ",".intercalate (l.map fmtCRat)

def fmtBool (b : Bool) : String := if b then "1" else "0"

/-- named arguments `k=v` -/
def kv (toks : List String) (k : String) : Option String :=
  toks.findSome? fun t =>
    match t.splitOn "=" with
    | [k', v] => if k' == k then some v else none
    | _ => none

end SigpyVerif.Proto
