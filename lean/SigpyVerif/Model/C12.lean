/-
  C12 model: `sigpy.alg.ConjugateGradient` transcribed line by line (`__init__`, `_update`, `_done`,
  and `Alg.update`'s counter increment) as an `init`/`update`/`done` machine.

  ONE definition, generic over a record `Ops V S` of the array/scalar operations the code uses
  (`b - A(x)`, `util.axpy`, `util.xpay`, `xp.real(xp.vdot(·,·))`, scalar `/`, unary `-`, `<= 0`,
  `** 0.5 <= tol`).  The driver executes it over `V = Array (Rat × Rat)`, `S = Rat`
  (`ratOps` below, exact Gaussian rationals); `Props/C12.lean` reasons about the very same
  definition over a Mathlib inner-product space (`V = E`, `S = ℝ`).  Core Lean only.

  Python source (sigpy/alg.py, class ConjugateGradient) next to each line.
-/
namespace SigpyVerif.C12

/-- the operations `ConjugateGradient` uses -/
structure Ops (V S : Type) where
  /-- `b - y` -/
  sub : V → V → V
  /-- `util.axpy(y, a, x)`: `y += a * x` (the new `y`) -/
  axpy : V → S → V → V
  /-- `util.xpay(y, a, x)`: `y *= a; y += x` (the new `y`) -/
  xpay : V → S → V → V
  /-- `xp.real(xp.vdot(a, b))` -/
  rdot : V → V → S
  /-- scalar `/` -/
  div : S → S → S
  /-- scalar unary `-` -/
  neg : S → S
  /-- `s <= 0` -/
  nonpos : S → Bool
  /-- `r2 ** 0.5 <= tol` for the non-negative `r2` the solver produces -/
  sqrtLe : S → S → Bool

/-- the attributes of a `ConjugateGradient` object that change over time.  `resid2` is
    `resid ** 2` (`resid = rzold.item() ** 0.5` is irrational in general); `alias` records that
    `self.p` IS the array `z` (`max_iter <= 1`: no private copy is made). -/
structure State (V S : Type) where
  x : V
  r : V
  p : V
  rzold : S
  resid2 : S
  npd : Bool
  iter : Int
  alias : Bool

variable {V S : Type}

/-- `z = self.r if self.P is None else self.P(self.r)` -/
@[inline] def precond (P : Option (V → V)) (r : V) : V :=
  match P with
  | none => r
  | some P => P r

/-- `ConjugateGradient.__init__` followed by `Alg.__init__` -/
def init (o : Ops V S) (A : V → V) (P : Option (V → V)) (b x : V) (maxIter : Int) : State V S :=
  let r := o.sub b (A x)                       -- self.r = b - self.A(self.x)
  let z := precond P r                         -- z = self.r | self.P(self.r)
  let rz := o.rdot r z                         -- self.rzold = xp.real(xp.vdot(self.r, z))
  { x := x, r := r
    p := z                                     -- self.p = z.copy() if max_iter > 1 else z
    alias := !decide (maxIter > 1)
    npd := false                               -- self.not_positive_definite = False
    rzold := rz
    resid2 := rz                               -- self.resid = self.rzold.item() ** 0.5
    iter := 0 }                                -- Alg.__init__: self.iter = 0

/-- `ConjugateGradient._update`.  (When `alias` holds, `max_iter <= 1`, so the branch that mutates
    `r`/`p` in place is unreachable — `alias_branch_unreachable` in Props — and aliasing is
    unobservable; the model therefore keeps `p` and `r` as separate values.) -/
def update_ (o : Ops V S) (A : V → V) (P : Option (V → V)) (maxIter : Int) (s : State V S) :
    State V S :=
  let Ap := A s.p                              -- Ap = self.A(self.p)
  let pAp := o.rdot s.p Ap                     -- pAp = xp.real(xp.vdot(self.p, Ap)).item()
  if o.nonpos pAp then                         -- if pAp <= 0:
    { s with npd := true }                     --   self.not_positive_definite = True; return
  else
    let alpha := o.div s.rzold pAp             -- self.alpha = self.rzold / pAp
    let x := o.axpy s.x alpha s.p              -- util.axpy(self.x, self.alpha, self.p)
    if s.iter < maxIter - 1 then               -- if self.iter < self.max_iter - 1:
      let r := o.axpy s.r (o.neg alpha) Ap     --   util.axpy(self.r, -self.alpha, Ap)
      let z := precond P r                     --   z = self.P(self.r) | self.r
      let rznew := o.rdot r z                  --   rznew = xp.real(xp.vdot(self.r, z))
      let beta := o.div rznew s.rzold          --   beta = rznew / self.rzold
      let p := o.xpay s.p beta z               --   util.xpay(self.p, beta, z)
      { s with x := x, r := r, p := p
               rzold := rznew                  --   self.rzold = rznew
               resid2 := rznew }               -- self.resid = self.rzold.item() ** 0.5
    else
      { s with x := x, resid2 := s.rzold }     -- self.resid = self.rzold.item() ** 0.5

/-- `Alg.update`: `self._update(); self.iter += 1` -/
def update (o : Ops V S) (A : V → V) (P : Option (V → V)) (maxIter : Int) (s : State V S) :
    State V S :=
  let s' := update_ o A P maxIter s
  { s' with iter := s'.iter + 1 }

/-- `ConjugateGradient._done` -/
def done (o : Ops V S) (maxIter : Int) (tol : S) (s : State V S) : Bool :=
  decide (s.iter ≥ maxIter)                    -- self.iter >= self.max_iter
    || s.npd                                   -- or self.not_positive_definite
    || o.sqrtLe s.resid2 tol                   -- or self.resid <= self.tol

/-- state after `k` calls of `update()` -/
def run (o : Ops V S) (A : V → V) (P : Option (V → V)) (b x : V) (maxIter : Int) : Nat → State V S
  | 0 => init o A P b x maxIter
  | k + 1 => update o A P maxIter (run o A P b x maxIter k)

/-! ### exact instance: vectors of Gaussian rationals, rational scalars -/

abbrev CRat := Rat × Rat
abbrev CVec := Array CRat

@[inline] def cadd (a b : CRat) : CRat := (a.1 + b.1, a.2 + b.2)
@[inline] def csub (a b : CRat) : CRat := (a.1 - b.1, a.2 - b.2)
@[inline] def cmul (a b : CRat) : CRat := (a.1 * b.1 - a.2 * b.2, a.1 * b.2 + a.2 * b.1)
@[inline] def cscale (s : Rat) (a : CRat) : CRat := (s * a.1, s * a.2)

def vzip (f : CRat → CRat → CRat) (a b : CVec) : CVec :=
  (Array.range a.size).map fun i => f (a.getD i (0, 0)) (b.getD i (0, 0))

/-- `real(vdot(a, b)) = Σ re(conj(a_i) b_i)` -/
def vrdot (a b : CVec) : Rat :=
  (List.range a.size).foldl (fun acc i =>
      let u := a.getD i (0, 0); let v := b.getD i (0, 0)
      acc + (u.1 * v.1 + u.2 * v.2)) 0

/-- dense matrix (row-major, `n × n`) times vector -/
def matVec (n : Nat) (M : CVec) (v : CVec) : CVec :=
  (Array.range n).map fun i =>
    (List.range n).foldl (fun acc j => cadd acc (cmul (M.getD (i * n + j) (0, 0)) (v.getD j (0, 0)))) (0, 0)

def ratOps : Ops CVec Rat where
  sub := vzip csub
  axpy := fun y a x => vzip (fun yi xi => cadd yi (cscale a xi)) y x
  xpay := fun y a x => vzip (fun yi xi => cadd (cscale a yi) xi) y x
  rdot := vrdot
  div := fun a b => a / b
  neg := fun a => -a
  nonpos := fun a => decide (a ≤ 0)
  sqrtLe := fun r2 tol => decide (0 ≤ tol ∧ r2 ≤ tol * tol)

/-- would `update` divide by zero (Python raises / numpy produces nan; never part of a comparison) -/
def divByZero (A : CVec → CVec) (maxIter : Int) (s : State CVec Rat) : Bool :=
  let pAp := vrdot s.p (A s.p)
  !decide (pAp ≤ 0) && decide (s.iter < maxIter - 1) && decide (s.rzold = 0)

end SigpyVerif.C12
