import SigpyVerif.Gen.C12
/-
  C12 model: `sigpy.alg.ConjugateGradient` (`__init__`, `_update`, `_done`, `Alg.update`) as an
  `init`/`update`/`done` machine.  The four definitions below ARE the definitions `Gen/C12.lean`
  regenerates from sigpy/alg.py on every check (harness/translate/gen_c12.py: a statement-by-statement
  translation of the method bodies; nothing here is transcribed by hand any more).

  ONE definition, generic over a record `Ops V S` (Model/C12Base.lean) of the array/scalar operations
  the code uses (`b - A(x)`, `util.axpy`, `util.xpay`, `xp.real(xp.vdot(·,·))`, scalar `/`, unary `-`,
  `<= 0`, `** 0.5 <= tol`).  The driver executes it over `V = Array (Rat × Rat)`, `S = Rat`
  (`ratOps` below, exact Gaussian rationals); `Props/C12.lean` reasons about the very same
  definition over a Mathlib inner-product space (`V = E`, `S = ℝ`).  Core Lean only.
-/
namespace SigpyVerif.C12

variable {V S : Type}

/-- `ConjugateGradient.__init__` followed by `Alg.__init__` -/
def init (o : Ops V S) (A : V → V) (P : Option (V → V)) (b x : V) (maxIter : Int) : State V S :=
  Gen.C12.init o A P b x maxIter

/-- `ConjugateGradient._update`.  (Arrays are values here; the code updates `self.r` / `self.p` in place,
    which is the same thing unless they share storage: `alias`.  `Gen.C12.updInplaceGuard` is the
    condition under which they are updated in place and `alias_branch_unreachable` in Props shows it false
    whenever `alias` holds.) -/
def update_ (o : Ops V S) (A : V → V) (P : Option (V → V)) (maxIter : Int) (s : State V S) :
    State V S :=
  Gen.C12.update_ o A P maxIter s

/-- `Alg.update`: `self._update(); self.iter += 1` -/
def update (o : Ops V S) (A : V → V) (P : Option (V → V)) (maxIter : Int) (s : State V S) :
    State V S :=
  Gen.C12.update o A P maxIter s

/-- `ConjugateGradient._done` -/
def done (o : Ops V S) (maxIter : Int) (tol : S) (s : State V S) : Bool :=
  Gen.C12.done o maxIter tol s

/-- state after `k` calls of `update()` -/
def run (o : Ops V S) (A : V → V) (P : Option (V → V)) (b x : V) (maxIter : Int) : Nat → State V S
  | 0 => init o A P b x maxIter
  | k + 1 => update o A P maxIter (run o A P b x maxIter k)

/-! ### exact instance: vectors of Gaussian rationals, rational scalars -/

abbrev CRat := Rat × Rat
abbrev CVec := Array CRat

@[inline] def cadd (a b : CRat) : CRat := (a.1 + b.1, a.2 + b.2)
@[inline] def csub (a b : CRat) : CRat := (a.1 - b.1, a.2 - b.2)
@[inline] def cmul (a b : CRat) : CRat := (a.1 * b.1 - a.2 * b.2, a.1 * b.2 + a.2 * b.1)
@[inline] def cscale (s : Rat) (a : CRat) : CRat := (s * a.1, s * a.2)

def vzip (f : CRat → CRat → CRat) (a b : CVec) : CVec :=
  (Array.range a.size).map fun i => f (a.getD i (0, 0)) (b.getD i (0, 0))

/-- `real(vdot(a, b)) = Σ re(conj(a_i) b_i)` -/
def vrdot (a b : CVec) : Rat :=
  (List.range a.size).foldl (fun acc i =>
      let u := a.getD i (0, 0); let v := b.getD i (0, 0)
      acc + (u.1 * v.1 + u.2 * v.2)) 0

/-- dense matrix (row-major, `n × n`) times vector -/
def matVec (n : Nat) (M : CVec) (v : CVec) : CVec :=
  (Array.range n).map fun i =>
    (List.range n).foldl (fun acc j => cadd acc (cmul (M.getD (i * n + j) (0, 0)) (v.getD j (0, 0)))) (0, 0)

def ratOps : Ops CVec Rat where
  sub := vzip csub
  axpy := fun y a x => vzip (fun yi xi => cadd yi (cscale a xi)) y x
  xpay := fun y a x => vzip (fun yi xi => cadd (cscale a yi) xi) y x
  rdot := vrdot
  div := fun a b => a / b
  neg := fun a => -a
  nonpos := fun a => decide (a ≤ 0)
  sqrtLe := fun r2 tol => decide (0 ≤ tol ∧ r2 ≤ tol * tol)

/-- would `update` divide by zero (Python raises / numpy produces nan; never part of a comparison) -/
def divByZero (A : CVec → CVec) (maxIter : Int) (s : State CVec Rat) : Bool :=
  let pAp := vrdot s.p (A s.p)
  !decide (pAp ≤ 0) && decide (s.iter < maxIter - 1) && decide (s.rzold = 0)

end SigpyVerif.C12
