import SigpyVerif.Model.C01
import SigpyVerif.Model.C08
/-
  C01 extension (core Lean only): the operator classes of `sigpy.linop` that have no exact entry model
  in `Leaf` (FFT, wavelets, convolutions, NUFFT), as plain constructor-argument records, so that the
  translator pass `harness/translate/gen_c01.py` can state which class with which arguments each
  `_adjoint_linop` returns (`Gen.LinopAdjoint.adjOpaque`), and an n-ary `Vstack` for generated factories.
-/
namespace SigpyVerif.C01

/-- an array argument: shape and row-major data -/
structure Arr (α : Type) where
  shape : List Int
  data : List α

/-- constructor arguments of the opaque classes, in the order of their `__init__` signatures -/
inductive Opaque (α : Type) where
  | fft (shape : List Int) (axes : Option (List Int)) (center : Bool)
  | ifft (shape : List Int) (axes : Option (List Int)) (center : Bool)
  | wavelet (ishape : List Int) (axes : Option (List Int)) (waveName : String) (level : Option Int)
  | iwavelet (oshape : List Int) (axes : Option (List Int)) (waveName : String) (level : Option Int)
  | convData (dataShape : List Int) (filt : Arr α) (mode : String) (strides : Option (List Int)) (multi : Bool)
  | convDataAdj (dataShape : List Int) (filt : Arr α) (mode : String) (strides : Option (List Int)) (multi : Bool)
  | convFilt (filtShape : List Int) (data : Arr α) (mode : String) (strides : Option (List Int)) (multi : Bool)
  | convFiltAdj (filtShape : List Int) (data : Arr α) (mode : String) (strides : Option (List Int)) (multi : Bool)
  | nufft (ishape : List Int) (coord : Arr Rat) (oversamp : Rat) (width : Rat) (toeplitz : Bool)
  | nufftAdj (oshape : List Int) (coord : Arr Rat) (oversamp : Rat) (width : Rat)

/-- `Vstack([e₁, …, eₙ], axis)` as the left-nested binary `vstack` the driver protocol builds -/
def vstackList {α : Type} (axis : Option Int) : List (Expr α) → Option (Expr α)
  | [] => none
  | e :: es => some (es.foldl (fun acc x => .vstack axis acc x) e)

/-! ### entry lists of the 1-D single-channel convolution classes, from the C08 model (executable: the
    driver prints them, the correspondence compares them with the real operators' matrices) -/
section conv
variable {α : Type} [Add α] [Mul α] [Zero α] [One α] (conj : α → α)

/-- unit signal -/
def delta (k : Int) : Int → α := fun t => if t = k then 1 else 0

/-- a list read as a signal (zero outside) -/
def sig (l : List α) : Int → α := fun t => if 0 ≤ t then l.getD t.toNat 0 else 0

/-- matrix of a map between signals of lengths `m` → `p`: column `i` is the image of the `i`-th unit signal -/
def matOf (p m : Nat) (F : (Int → α) → Int → α) : List (Ent α) :=
  (List.range p).flatMap fun k => (List.range m).flatMap fun i => [((k, i, F (delta (i : Int)) (k : Int)) : Ent α)]

/-- `(full, m, n, s)` for a 1-D, single-channel, batch-free instance with valid parameters -/
def conv1Params (ds fs : List Int) (mode : String) (st : Option (List Int)) (mc : Bool) :
    Option (Bool × Int × Int × Int) :=
  if ds.length = 1 ∧ fs.length = 1 ∧ mc = false ∧ (mode = "full" ∨ mode = "valid") ∧ (st.getD [1]).length = 1 then
    if 1 ≤ getI ds 0 ∧ 1 ≤ getI fs 0 ∧ 0 < getI (st.getD [1]) 0 ∧
        (decide (mode = "full") = true ∨ getI fs 0 ≤ getI ds 0) then
      some (decide (mode = "full"), getI ds 0, getI fs 0, getI (st.getD [1]) 0)
    else none
  else none

/-- what the four convolution classes denote in the 1-D single-channel case (C08 model) -/
def convSem : Opaque α → Option (Sem α)
  | .convData ds filt mode st mc =>
      (conv1Params ds filt.shape mode st mc).map fun q =>
        ⟨[C08.codeLen q.1 q.2.1 q.2.2.1 q.2.2.2], [q.2.1],
          matOf (C08.codeLen q.1 q.2.1 q.2.2.1 q.2.2.2).toNat q.2.1.toNat
            fun d => C08.conv1At q.1 q.2.1 q.2.2.1 q.2.2.2 d (sig filt.data)⟩
  | .convDataAdj ds filt mode st mc =>
      (conv1Params ds filt.shape mode st mc).map fun q =>
        ⟨[q.2.1], [C08.codeLen q.1 q.2.1 q.2.2.1 q.2.2.2],
          matOf q.2.1.toNat (C08.codeLen q.1 q.2.1 q.2.2.1 q.2.2.2).toNat
            fun y => C08.dataAdj1At conj q.1 q.2.1 q.2.2.1 q.2.2.2 y (sig filt.data)⟩
  | .convFilt fs data mode st mc =>
      (conv1Params data.shape fs mode st mc).map fun q =>
        ⟨[C08.codeLen q.1 q.2.1 q.2.2.1 q.2.2.2], [q.2.2.1],
          matOf (C08.codeLen q.1 q.2.1 q.2.2.1 q.2.2.2).toNat q.2.2.1.toNat
            fun f => C08.conv1At q.1 q.2.1 q.2.2.1 q.2.2.2 (sig data.data) f⟩
  | .convFiltAdj fs data mode st mc =>
      (conv1Params data.shape fs mode st mc).map fun q =>
        ⟨[q.2.2.1], [C08.codeLen q.1 q.2.1 q.2.2.1 q.2.2.2],
          matOf q.2.2.1.toNat (C08.codeLen q.1 q.2.1 q.2.2.1 q.2.2.2).toNat
            fun y => C08.filtAdj1At conj q.1 q.2.1 q.2.2.1 q.2.2.2 y (sig data.data)⟩
  | _ => none

end conv

end SigpyVerif.C01
