import SigpyVerif.Model.C01
import SigpyVerif.Model.C08
/-
  C01 extension (core Lean only): the operator classes of `sigpy.linop` that have no exact entry model
  in `Leaf` (FFT, wavelets, convolutions, NUFFT), as plain constructor-argument records, so that the
  translator pass `harness/translate/gen_c01.py` can state which class with which arguments each
  `_adjoint_linop` returns (`Gen.LinopAdjoint.adjOpaque`), and an n-ary `Vstack` for generated factories.
-/
namespace SigpyVerif.C01

/-- an array argument: shape and row-major data -/
structure Arr (α : Type) where
  shape : List Int
  data : List α

/-- constructor arguments of the opaque classes, in the order of their `__init__` signatures -/
inductive Opaque (α : Type) where
  | fft (shape : List Int) (axes : Option (List Int)) (center : Bool)
  | ifft (shape : List Int) (axes : Option (List Int)) (center : Bool)
  | wavelet (ishape : List Int) (axes : Option (List Int)) (waveName : String) (level : Option Int)
  | iwavelet (oshape : List Int) (axes : Option (List Int)) (waveName : String) (level : Option Int)
  | convData (dataShape : List Int) (filt : Arr α) (mode : String) (strides : Option (List Int)) (multi : Bool)
  | convDataAdj (dataShape : List Int) (filt : Arr α) (mode : String) (strides : Option (List Int)) (multi : Bool)
  | convFilt (filtShape : List Int) (data : Arr α) (mode : String) (strides : Option (List Int)) (multi : Bool)
  | convFiltAdj (filtShape : List Int) (data : Arr α) (mode : String) (strides : Option (List Int)) (multi : Bool)
  | nufft (ishape : List Int) (coord : Arr Rat) (oversamp : Rat) (width : Rat) (toeplitz : Bool)
  | nufftAdj (oshape : List Int) (coord : Arr Rat) (oversamp : Rat) (width : Rat)

/-- `Vstack([e₁, …, eₙ], axis)` as the left-nested binary `vstack` the driver protocol builds -/
def vstackList {α : Type} (axis : Option Int) : List (Expr α) → Option (Expr α)
  | [] => none
  | e :: es => some (es.foldl (fun acc x => .vstack axis acc x) e)

/-! ### the primitive an `_apply` body calls (generated table `Gen.LinopAdjoint.applyGen`) -/

/-- numpy / `sigpy.util` / `sigpy.block` / `sigpy.interp` call made by an `_apply` body on `input`, with its
    other arguments -/
inductive Prim (α : Type) where
  | ret                                                                   -- `return input`
  | reshape (oshape : List Int)                                           -- `input.reshape(oshape)`
  | transpose (axes : Option (List Int))                                  -- `input.transpose(axes)`
  | resize (oshape : List Int) (ishift oshift : Option (List Int))        -- `util.resize(input, oshape, ishift=, oshift=)`
  | flip (axes : Option (List Int))                                       -- `util.flip(input, axes)`
  | circshift (shifts : List Int) (axes : Option (List Int))              -- `util.circshift(input, shifts, axes)`
  | downsample (factors shift : List Int)                                 -- `util.downsample(input, factors, shift=)`
  | upsample (oshape factors shift : List Int)                            -- `util.upsample(input, oshape, factors, shift=)`
  | sum (axes : List Int)                                                 -- `xp.sum(input, axis=axes)`
  | getitem (idx : List PySlice)                                          -- `input[idx]`
  | arrayToBlocks (blk str : List Int)                                    -- `block.array_to_blocks(input, blk, str)`
  | interpolate (pts : List Int) (coord : List (List Rat)) (width param : Rat)  -- `interp.interpolate(input, coord, …)`
  | gridding (oshape pts : List Int) (coord : List (List Rat)) (width param : Rat)  -- `interp.gridding(input, coord, oshape, …)`
  | blocksToArray (oshape blk str : List Int)                             -- `block.blocks_to_array(input, oshape, blk, str)`
  | setitemZeros (oshape : List Int) (idx : List PySlice)                 -- `out = np.zeros(oshape); out[idx] = input`
  /-- `if adjoint: mat = xp.conj(mat).swapaxes(-1, -2)` then `xp.matmul(mat, input)` (`right = false`) or
      `xp.matmul(input, mat)` (`right = true`) -/
  | matmul (right : Bool) (mshape : List Int) (mat : List α) (adjoint : Bool)

section prim
variable {α : Type} [Add α] [Mul α] [Zero α] [One α] (conj : α → α) (ofRat : Rat → α)

/-- what the primitive does to an array of shape `ish` (the numpy / util contracts of the model, the same
    functions `leafSem0` uses) -/
def primSem (ish : List Int) : Prim α → Option (Sem α)
  | .ret => some ⟨ish, ish, idE (shapeProd ish).toNat⟩
  | .reshape osh => if shapeProd osh = shapeProd ish then some ⟨osh, ish, idE (shapeProd ish).toNat⟩ else none
  | .transpose axes => transposeSem ish axes
  | .resize osh is' os' => some ⟨osh, ish, labelE (shapeProd ish).toNat (C09.resize ish osh is' os')⟩
  | .flip axes => some ⟨ish, ish, labelE (shapeProd ish).toNat (C09.flip ish axes)⟩
  | .circshift sf axes =>
      let n := (shapeProd ish).toNat
      match C09.circshift ish sf axes ((Array.range n).map (· + 1)) with
      | none => none
      | some _ => some ⟨ish, ish, labelE n fun x => (C09.circshift ish sf axes x).getD #[]⟩
  | .downsample f s =>
      if f.length ≠ ish.length ∨ s.length ≠ ish.length then none else
      some ⟨C09.zip3With Gen.downsampleLen ish f s, ish,
        labelE (shapeProd ish).toNat fun x => (C09.downsample ish f (some s) x).2⟩
  | .upsample osh f s =>
      if f.length ≠ osh.length ∨ s.length ≠ osh.length then none else
      some ⟨osh, ish, labelE (shapeProd ish).toNat fun x => (C09.upsample osh f (some s) x).2⟩
  | .sum axes => some (sumSem ish axes)
  | .getitem idx => sliceSem ish idx
  | .arrayToBlocks blk str => a2bSem ofRat ish blk str
  | .interpolate pts coord w p =>
      (interpEntries false ish pts coord w p).map fun (lead, gs, ps, E) =>
        ⟨lead ++ pts, ish, updToEnt ofRat ps gs E⟩
  | .gridding osh pts coord w p =>
      (interpEntries true osh pts coord w p).map fun (lead, gs, ps, E) =>
        ⟨osh, lead ++ pts, updToEnt ofRat gs ps E⟩
  | .blocksToArray osh blk str => b2aSem ofRat osh blk str
  | .setitemZeros osh idx => (sliceSem (α := α) osh idx).map fun s => ⟨s.ish, s.osh, swapE s.E⟩
  | .matmul right msh mat adjoint => matmulSem conj right ish msh mat adjoint

/-- `self.ishape` of the classes whose `_apply` is a single primitive call on `input` -/
def ishOf : Leaf α → Option (List Int)
  | .identity sh => some sh
  | .reshape _ ish => some ish
  | .transpose ish _ => some ish
  | .resize _ ish _ _ => some ish
  | .flip sh _ => some sh
  | .circshift sh _ _ => some sh
  | .downsample ish _ _ => some ish
  | .upsample osh f s => some (C09.zip3With Gen.upsampleLen osh f s)
  | .sum ish _ => some ish
  | .slice ish _ => some ish
  | .a2b ish _ _ => some ish
  | .interp ish _ _ _ _ => some ish
  | .gridding osh pts coord w p => (interpEntries true osh pts coord w p).map fun t => t.1 ++ pts
  | .b2a osh blk str => (blockShapes osh blk str).map fun t => t.1 ++ C09.zip3With Gen.b2aNumBlks t.2.1 blk str ++ blk
  | .embed osh idx => (sliceSem (α := α) osh idx).map fun s => s.osh
  | .matmul ish _ _ _ => some ish
  | .rmatmul ish _ _ _ => some ish
  | _ => none

end prim

/-! ### entry lists of the 1-D single-channel convolution classes, from the C08 model (executable: the
    driver prints them, the correspondence compares them with the real operators' matrices) -/
section conv
variable {α : Type} [Add α] [Mul α] [Zero α] [One α] (conj : α → α)

/-- unit signal -/
def delta (k : Int) : Int → α := fun t => if t = k then 1 else 0

/-- a list read as a signal (zero outside) -/
def sig (l : List α) : Int → α := fun t => if 0 ≤ t then l.getD t.toNat 0 else 0

/-- matrix of a map between signals of lengths `m` → `p`: column `i` is the image of the `i`-th unit signal -/
def matOf (p m : Nat) (F : (Int → α) → Int → α) : List (Ent α) :=
  (List.range p).flatMap fun k => (List.range m).flatMap fun i => [((k, i, F (delta (i : Int)) (k : Int)) : Ent α)]

/-- `(full, m, n, s)` for a 1-D, single-channel, batch-free instance with valid parameters -/
def conv1Params (ds fs : List Int) (mode : String) (st : Option (List Int)) (mc : Bool) :
    Option (Bool × Int × Int × Int) :=
  if ds.length = 1 ∧ fs.length = 1 ∧ mc = false ∧ (mode = "full" ∨ mode = "valid") ∧ (st.getD [1]).length = 1 then
    if 1 ≤ getI ds 0 ∧ 1 ≤ getI fs 0 ∧ 0 < getI (st.getD [1]) 0 ∧
        (decide (mode = "full") = true ∨ getI fs 0 ≤ getI ds 0) then
      some (decide (mode = "full"), getI ds 0, getI fs 0, getI (st.getD [1]) 0)
    else none
  else none

/-- what the four convolution classes denote in the 1-D single-channel case (C08 model) -/
def convSem : Opaque α → Option (Sem α)
  | .convData ds filt mode st mc =>
      (conv1Params ds filt.shape mode st mc).map fun q =>
        ⟨[C08.codeLen q.1 q.2.1 q.2.2.1 q.2.2.2], [q.2.1],
          matOf (C08.codeLen q.1 q.2.1 q.2.2.1 q.2.2.2).toNat q.2.1.toNat
            fun d => C08.conv1At q.1 q.2.1 q.2.2.1 q.2.2.2 d (sig filt.data)⟩
  | .convDataAdj ds filt mode st mc =>
      (conv1Params ds filt.shape mode st mc).map fun q =>
        ⟨[q.2.1], [C08.codeLen q.1 q.2.1 q.2.2.1 q.2.2.2],
          matOf q.2.1.toNat (C08.codeLen q.1 q.2.1 q.2.2.1 q.2.2.2).toNat
            fun y => C08.dataAdj1At conj q.1 q.2.1 q.2.2.1 q.2.2.2 y (sig filt.data)⟩
  | .convFilt fs data mode st mc =>
      (conv1Params data.shape fs mode st mc).map fun q =>
        ⟨[C08.codeLen q.1 q.2.1 q.2.2.1 q.2.2.2], [q.2.2.1],
          matOf (C08.codeLen q.1 q.2.1 q.2.2.1 q.2.2.2).toNat q.2.2.1.toNat
            fun f => C08.conv1At q.1 q.2.1 q.2.2.1 q.2.2.2 (sig data.data) f⟩
  | .convFiltAdj fs data mode st mc =>
      (conv1Params data.shape fs mode st mc).map fun q =>
        ⟨[q.2.2.1], [C08.codeLen q.1 q.2.1 q.2.2.1 q.2.2.2],
          matOf q.2.2.1.toNat (C08.codeLen q.1 q.2.1 q.2.2.1 q.2.2.2).toNat
            fun y => C08.filtAdj1At conj q.1 q.2.1 q.2.2.1 q.2.2.2 y (sig data.data)⟩
  | _ => none

end conv

end SigpyVerif.C01
