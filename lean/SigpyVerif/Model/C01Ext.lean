import SigpyVerif.Model.C01
/-
  C01 extension (core Lean only): the operator classes of `sigpy.linop` that have no exact entry model
  in `Leaf` (FFT, wavelets, convolutions, NUFFT), as plain constructor-argument records, so that the
  translator pass `harness/translate/gen_c01.py` can state which class with which arguments each
  `_adjoint_linop` returns (`Gen.LinopAdjoint.adjOpaque`), and an n-ary `Vstack` for generated factories.
-/
namespace SigpyVerif.C01

/-- an array argument: shape and row-major data -/
structure Arr (α : Type) where
  shape : List Int
  data : List α

/-- constructor arguments of the opaque classes, in the order of their `__init__` signatures -/
inductive Opaque (α : Type) where
  | fft (shape : List Int) (axes : Option (List Int)) (center : Bool)
  | ifft (shape : List Int) (axes : Option (List Int)) (center : Bool)
  | wavelet (ishape : List Int) (axes : Option (List Int)) (waveName : String) (level : Option Int)
  | iwavelet (oshape : List Int) (axes : Option (List Int)) (waveName : String) (level : Option Int)
  | convData (dataShape : List Int) (filt : Arr α) (mode : String) (strides : Option (List Int)) (multi : Bool)
  | convDataAdj (dataShape : List Int) (filt : Arr α) (mode : String) (strides : Option (List Int)) (multi : Bool)
  | convFilt (filtShape : List Int) (data : Arr α) (mode : String) (strides : Option (List Int)) (multi : Bool)
  | convFiltAdj (filtShape : List Int) (data : Arr α) (mode : String) (strides : Option (List Int)) (multi : Bool)
  | nufft (ishape : List Int) (coord : Arr Rat) (oversamp : Rat) (width : Rat) (toeplitz : Bool)
  | nufftAdj (oshape : List Int) (coord : Arr Rat) (oversamp : Rat) (width : Rat)

/-- `Vstack([e₁, …, eₙ], axis)` as the left-nested binary `vstack` the driver protocol builds -/
def vstackList {α : Type} (axis : Option Int) : List (Expr α) → Option (Expr α)
  | [] => none
  | e :: es => some (es.foldl (fun acc x => .vstack axis acc x) e)

end SigpyVerif.C01
