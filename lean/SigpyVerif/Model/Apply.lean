import SigpyVerif.Model.Py
/-
  Executable application of update lists to dense row-major arrays (used by the driver only).
-/
namespace SigpyVerif

/-- shape as a function with Python negative indexing (what `x.shape[k]` means in the kernels) -/
def shapeFn (shape : List Int) (k : Int) : Int :=
  let n : Int := shape.length
  let k' := if k < 0 then k + n else k
  if 0 ≤ k' ∧ k' < n then shape.getD k'.toNat 0 else 0

/-- 1-D / 2-D data with Python negative indexing -/
def idx1 {α} [Inhabited α] (l : List α) (k : Int) : α :=
  let n : Int := l.length
  let k' := if k < 0 then k + n else k
  l.getD k'.toNat default

def idx2 {α} [Inhabited α] (l : List (List α)) (i j : Int) : α := idx1 (idx1 l i) j

/-- Apply an update list.  `acc = true`: `out[dst] += w * x[src]`; `acc = false`: `out[dst] = w * x[src]`.
    Any out-of-bounds index is an error (`none`): Python would raise (numpy) or corrupt memory (numba). -/
def applyUpd {α} [Add α] [Zero α] (smul : Rat → α → α) (acc : Bool) (oshape ishape : List Int)
    (E : List (Upd Rat)) (x : Array α) : Option (Array α) :=
  E.foldlM (fun (out : Array α) (u : Upd Rat) =>
      let (o, i, w) := u
      if inBounds oshape o && inBounds ishape i then
        let oi := (ravel oshape o).toNat
        let ii := (ravel ishape i).toNat
        if h : oi < out.size then
          some (out.set oi ((if acc then out[oi] else 0) + smul w (x.getD ii 0)))
        else none
      else none)
    (Array.replicate (shapeProd oshape).toNat 0)

end SigpyVerif
