import SigpyVerif.Gen.C13
/-
  C13 model (core Lean only): `GradientMethod` and `PrimalDualHybridGradient` of sigpy/alg.py as
  init/step machines.  ONE definition, generic over the scalar type `S`, the vector types `V`
  (primal) and `W` (dual) and the step-size types `P` (tau) and `D` (sigma) through core type classes
  (`Add`, `Sub`, `SMul`, …): the driver executes it over `Rat` vectors (scalar or array-valued steps,
  `Model.C13` section "rational instance" below) and `Props/C13.lean` reasons about the very same
  definition in a Mathlib real inner-product space (`S = P = D = ℝ`).
  Every right-hand side of the two `_update` bodies is a `Gen.C13.*` definition regenerated from the
  source on each run; this file only sequences them (statement order and the branch conditions are
  pinned by the generator and checked by the correspondence).  Square roots are a parameter `sqrt`:
  `Real.sqrt` in the theorems, the float the code computed (looked up by argument) in the driver.
  `resid` is not part of the generic machines (it is C15's subject); its square is computed for the
  rational instance only and compared in the correspondence.
-/
namespace SigpyVerif.C13
open SigpyVerif

section generic
variable {S V W P D : Type} [Add S] [Sub S] [Mul S] [Div S] [Neg S] [NatCast S]
  [Add V] [Sub V] [SMul S V] [Add W] [Sub W] [SMul S W]
  [Neg P] [SMul P V] [SMul S P] [HDiv P S P] [Neg D] [SMul D W] [SMul S D] [HDiv D S D]

/-! ### GradientMethod -/

/-- `x` iterate, `z` extrapolated point, `t` momentum scalar (`z`, `t` exist only when accelerating) -/
structure GMState (S V : Type) where
  x : V
  z : V
  t : S

/-- `GradientMethod.__init__`: `self.z = self.x.copy(); self.t = 1` -/
def gmInit (x0 : V) : GMState S V := ⟨x0, x0, ((1 : Nat) : S)⟩

/-- `GradientMethod._update` -/
def gmStep (sqrt : S → S) (gradf : V → V) (proxg : Option (S → V → V)) (alpha : S) (accelerate : Bool)
    (s : GMState S V) : GMState S V :=
  let x_old := Gen.C13.gmXOld s.x
  let x := if accelerate then s.z else s.x                 -- backend.copyto(self.x, self.z)
  let x := Gen.C13.gmGrad gradf x alpha
  let x := match proxg with
    | some p => Gen.C13.gmProx p alpha x
    | none => x
  if accelerate then
    let t_old := s.t
    let t := Gen.C13.gmT sqrt t_old
    ⟨x, Gen.C13.gmZ x t_old t x_old s.z, t⟩
  else ⟨x, s.z, s.t⟩

/-- state after `k` updates -/
def gmRun (sqrt : S → S) (gradf : V → V) (proxg : Option (S → V → V)) (alpha : S) (accelerate : Bool)
    (x0 : V) : Nat → GMState S V
  | 0 => gmInit x0
  | k + 1 => gmStep sqrt gradf proxg alpha accelerate (gmRun sqrt gradf proxg alpha accelerate x0 k)

/-! ### PrimalDualHybridGradient -/

structure PDState (S V W P D : Type) where
  x : V
  u : W
  x_ext : V
  tau : P
  sigma : D
  tau_min : S
  sigma_min : S

/-- `__init__`: `x_ext = x.copy()`, `tau_min = amin(abs(tau))`, `sigma_min = amin(abs(sigma))`
    (the code computes each minimum only when the corresponding gamma is positive; it is never read
    otherwise) -/
def pdInit (minAbsP : P → S) (minAbsD : D → S) (x0 : V) (u0 : W) (tau : P) (sigma : D) : PDState S V W P D :=
  ⟨x0, u0, x0, tau, sigma, minAbsP tau, minAbsD sigma⟩

/-- result of the three-way "update step-size if necessary" block -/
structure Rescale (S P D : Type) where
  theta : S
  tau : P
  sigma : D
  tau_min : S
  sigma_min : S

variable [LT S] [∀ a b : S, Decidable (a < b)] [DecidableEq S]

def pdRescale (sqrt : S → S) (gamma_primal gamma_dual theta0 : S) (tau : P) (sigma : D) (tau_min sigma_min : S) :
    Rescale S P D :=
  if ((0 : Nat) : S) < gamma_primal ∧ gamma_dual = ((0 : Nat) : S) then
    let theta := Gen.C13.pdThetaP sqrt gamma_primal tau_min
    ⟨theta, Gen.C13.pdTauP tau theta, Gen.C13.pdSigmaP sigma theta, Gen.C13.pdTauMinP tau_min theta, sigma_min⟩
  else if gamma_primal = ((0 : Nat) : S) ∧ ((0 : Nat) : S) < gamma_dual then
    let theta := Gen.C13.pdThetaD sqrt gamma_dual sigma_min
    ⟨theta, Gen.C13.pdTauD tau theta, Gen.C13.pdSigmaD sigma theta, tau_min, Gen.C13.pdSigmaMinD sigma_min theta⟩
  else ⟨Gen.C13.pdThetaElse theta0, tau, sigma, tau_min, sigma_min⟩

/-- `PrimalDualHybridGradient._update` -/
def pdStep (sqrt : S → S) (A : V → W) (AH : W → V) (proxfc : D → W → W) (proxg : P → V → V)
    (gamma_primal gamma_dual theta0 : S) (s : PDState S V W P D) : PDState S V W P D :=
  let u_old := s.u
  let u := Gen.C13.pdDualArg A s.u s.sigma s.x_ext s.x
  let u := Gen.C13.pdDualProx proxfc s.sigma u
  let x_old := Gen.C13.pdXOld s.x
  let x := Gen.C13.pdPrimalArg AH s.x s.tau u u_old
  let x := Gen.C13.pdPrimalProx proxg s.tau x
  let r := pdRescale sqrt gamma_primal gamma_dual theta0 s.tau s.sigma s.tau_min s.sigma_min
  let x_diff := Gen.C13.pdXDiff x x_old
  ⟨x, u, Gen.C13.pdXExt x r.theta x_diff x_old, r.tau, r.sigma, r.tau_min, r.sigma_min⟩

def pdRun (sqrt : S → S) (A : V → W) (AH : W → V) (proxfc : D → W → W) (proxg : P → V → V)
    (gamma_primal gamma_dual theta0 : S) (s0 : PDState S V W P D) : Nat → PDState S V W P D
  | 0 => s0
  | k + 1 => pdStep sqrt A AH proxfc proxg gamma_primal gamma_dual theta0
      (pdRun sqrt A AH proxfc proxg gamma_primal gamma_dual theta0 s0 k)

end generic

/-! ### rational instance executed by the driver -/

/-- dense rational vector -/
structure RVec where
  d : List Rat
deriving BEq, Repr

/-- scalar or array-valued step size -/
inductive RStep where
  | sc (r : Rat)
  | ar (l : List Rat)
deriving BEq, Repr

instance : Add RVec := ⟨fun a b => ⟨List.zipWith (· + ·) a.d b.d⟩⟩
instance : Sub RVec := ⟨fun a b => ⟨List.zipWith (· - ·) a.d b.d⟩⟩
instance : SMul Rat RVec := ⟨fun c a => ⟨a.d.map (c * ·)⟩⟩
instance : Neg RStep := ⟨fun | .sc r => .sc (-r) | .ar l => .ar (l.map (- ·))⟩
instance : SMul RStep RVec := ⟨fun s a => match s with
  | .sc r => ⟨a.d.map (r * ·)⟩
  | .ar l => ⟨List.zipWith (· * ·) l a.d⟩⟩
instance : SMul Rat RStep := ⟨fun c s => match s with
  | .sc r => .sc (r * c)
  | .ar l => .ar (l.map (· * c))⟩
instance : HDiv RStep Rat RStep := ⟨fun s c => match s with
  | .sc r => .sc (r / c)
  | .ar l => .ar (l.map (· / c))⟩

def ratAbs' (r : Rat) : Rat := if r < 0 then -r else r

/-- `xp.amin(xp.abs(step))` -/
def RStep.minAbs : RStep → Rat
  | .sc r => ratAbs' r
  | .ar l => match l.map ratAbs' with
    | [] => 0
    | a :: as => as.foldl (fun m v => if v < m then v else m) a

/-- step as a per-entry list of length `n` -/
def RStep.expand (n : Nat) : RStep → List Rat
  | .sc r => List.replicate n r
  | .ar l => l

def dot (a b : List Rat) : Rat := (List.zipWith (· * ·) a b).foldl (· + ·) 0

/-- row-major `m × n` matrix times vector -/
def matVec (rows : List (List Rat)) (x : RVec) : RVec := ⟨rows.map (fun r => dot r x.d)⟩

def transpose (n : Nat) (rows : List (List Rat)) : List (List Rat) :=
  (List.range n).map (fun j => rows.map (fun r => r.getD j 0))

/-- prox maps of sigpy.prox used by the tie, on rational data with scalar or array step -/
inductive ProxKind where
  | noop                                   -- prox.NoOp
  | l2 (lam : Rat) (y : Option (List Rat))  -- prox.L2Reg(shape, lam, y): (v + lam*alpha*y)/(1+lam*alpha)
  | box (lo hi : Rat)                       -- prox.BoxConstraint: clip
  | l1 (lam : Rat)                          -- prox.L1Reg: soft threshold by lam*alpha

def zip3 (f : Rat → Rat → Rat → Rat) : List Rat → List Rat → List Rat → List Rat
  | a :: as, b :: bs, c :: cs => f a b c :: zip3 f as bs cs
  | _, _, _ => []

def ProxKind.apply (k : ProxKind) (alpha : RStep) (v : RVec) : RVec :=
  let al := alpha.expand v.d.length
  match k with
  | .noop => v
  | .l2 lam none => ⟨List.zipWith (fun a x => x / (1 + lam * a)) al v.d⟩
  | .l2 lam (some y) => ⟨zip3 (fun a x yy => (x + lam * a * yy) / (1 + lam * a)) al v.d y⟩
  | .box lo hi => ⟨v.d.map (fun x => if x < lo then lo else if hi < x then hi else x)⟩
  | .l1 lam => ⟨List.zipWith (fun a x =>
      let th := lam * a
      if x > th then x - th else if x < -th then x + th else 0) al v.d⟩

/-- table lookup for the square roots the code computed (0 when absent; the driver reports absence) -/
def sqLookup (tab : List (Rat × Rat)) (a : Rat) : Rat :=
  match tab.find? (fun p => p.1 == a) with
  | some p => p.2
  | none => 0

/-- `s` is within relative 1e-15 of a square root of `a` (the defining inequality, squared) -/
def sqOk (a s : Rat) : Bool :=
  decide (0 ≤ s) && decide (ratAbs' (s * s - a) ≤ a / 1000000000000000)

/-- integer square root (Newton from above) -/
def natSqrt (n : Nat) : Nat :=
  if n < 2 then n else
  let rec go (fuel : Nat) (x : Nat) : Nat :=
    match fuel with
    | 0 => x
    | f + 1 => let y := (x + n / x) / 2; if y ≥ x then x else go f y
  go 200 (2 ^ (n.log2 / 2 + 1))

/-- square root to absolute precision 1e-20 (float streams only: the tie there is at 1e-9) -/
def sqApprox (a : Rat) : Rat :=
  if a ≤ 0 then 0 else ((natSqrt (a * ((10 : Rat) ^ 40)).floor.toNat : Nat) : Rat) / ((10 : Rat) ^ 20)

def sumSqDiv (d : List Rat) (w : List Rat) : Rat :=
  (List.zipWith (fun x ww => x * x / ww) d w).foldl (· + ·) 0

end SigpyVerif.C13
