/-
  C12 base (core Lean only): the record `Ops V S` of array/scalar operations `sigpy.alg.ConjugateGradient`
  uses and the record `State V S` of its attributes.  `Gen/C12.lean` (regenerated from sigpy/alg.py on
  every check) is written over these two records; `Model/C12.lean` only names the generated definitions
  and instantiates `Ops` with exact Gaussian rationals; `Props/C12.lean` instantiates it with a Mathlib
  inner-product space.
-/
namespace SigpyVerif.C12

/-- the operations `ConjugateGradient` uses -/
structure Ops (V S : Type) where
  /-- `b - y` -/
  sub : V → V → V
  /-- `util.axpy(y, a, x)`: `y += a * x` (the new `y`) -/
  axpy : V → S → V → V
  /-- `util.xpay(y, a, x)`: `y *= a; y += x` (the new `y`) -/
  xpay : V → S → V → V
  /-- `xp.real(xp.vdot(a, b))` -/
  rdot : V → V → S
  /-- scalar `/` -/
  div : S → S → S
  /-- scalar unary `-` -/
  neg : S → S
  /-- `s <= 0` -/
  nonpos : S → Bool
  /-- `r2 ** 0.5 <= tol` for the non-negative `r2` the solver produces -/
  sqrtLe : S → S → Bool

/-- the attributes of a `ConjugateGradient` object that change over time.  `resid2` is
    `resid ** 2` (`resid = rzold.item() ** 0.5` is irrational in general); `alias` records that
    `self.p` is, or may be, the array `self.r` (`__init__` binds `self.p = z` without a private copy when
    `max_iter <= 1`, and `z` is `self.r` itself when `P` is `None` or returns its argument). -/
structure State (V S : Type) where
  x : V
  r : V
  p : V
  rzold : S
  resid2 : S
  npd : Bool
  iter : Int
  alias : Bool

end SigpyVerif.C12
