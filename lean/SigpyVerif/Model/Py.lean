/-
  L0: Python integer semantics and index arithmetic (core Lean only, executable).
  No Mathlib import here: this file is linked into the `sigpy_driver` executable.
-/
namespace SigpyVerif

/-- Python `a // b` (floor division; agrees with Lean's `/` when `0 ≤ b`). -/
@[inline] def pyDiv (a b : Int) : Int := Int.fdiv a b
/-- Python `a % b` (sign of the divisor; agrees with Lean's `%` when `0 ≤ b`). -/
@[inline] def pyMod (a b : Int) : Int := Int.fmod a b

/-- Python `range(a, b, s)` for `s > 0` (the only form the modelled code uses; `s ≤ 0` gives `[]`). -/
def pyRange (a b s : Int) : List Int :=
  if s ≤ 0 then [] else
    (List.range ((b - a + s - 1) / s).toNat).map (fun (k : Nat) => a + (k : Int) * s)

/-- `range(n)` -/
abbrev pyRange0 (n : Int) : List Int := pyRange 0 n 1

/-- Python `max`/`min` on ints. -/
@[inline] def pyMax (a b : Int) : Int := if a ≥ b then a else b
@[inline] def pyMin (a b : Int) : Int := if a ≤ b then a else b

@[inline] def intAbs (a : Int) : Int := if a < 0 then -a else a
@[inline] def ratAbs (a : Rat) : Rat := if a < 0 then -a else a

/-- product of a shape -/
def shapeProd (s : List Int) : Int := s.foldl (· * ·) 1

/-- row-major flat index of a multi-index (no bounds check). -/
def ravel (shape idx : List Int) : Int :=
  (List.zip shape idx).foldl (fun acc (n, i) => acc * n + i) 0

/-- row-major multi-index of a flat index. -/
def unravel (shape : List Int) (k : Int) : List Int :=
  (shape.foldr (fun n (acc : List Int × Int) => (Int.emod acc.2 n :: acc.1, acc.2 / n)) ([], k)).1

/-- all multi-indices of a shape in row-major order -/
def allIdx : List Int → List (List Int)
  | [] => [[]]
  | n :: rest => (pyRange0 n).flatMap fun i => (allIdx rest).map (i :: ·)

/-- in-bounds test -/
def inBounds (shape idx : List Int) : Bool :=
  shape.length == idx.length && (List.zip shape idx).all fun (n, i) => decide (0 ≤ i ∧ i < n)

/-- A sparse linear map: `(out multi-index, in multi-index, weight)`; duplicates add. -/
abbrev Upd (α : Type) := List Int × List Int × α
abbrev Entries (α : Type) := List (Upd α)

/-- apply entries to a dense row-major input; out-of-range entries are *errors* in Python, so the
    executable applies only in-bounds entries and reports the others through `entriesOk`. -/
def entriesOk {α} (oshape ishape : List Int) (E : Entries α) : Bool :=
  E.all fun (o, i, _) => inBounds oshape o && inBounds ishape i

def applyE {α} [Add α] [Mul α] [Zero α] (oshape ishape : List Int) (E : Entries α)
    (x : Array α) : Array α :=
  E.foldl (fun (out : Array α) (o, i, w) =>
      let oi := (ravel oshape o).toNat
      let ii := (ravel ishape i).toNat
      if h : oi < out.size then
        out.set oi (out[oi] + w * (x.getD ii 0))
      else out)
    (Array.replicate (shapeProd oshape).toNat 0)

end SigpyVerif
