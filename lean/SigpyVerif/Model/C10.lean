import SigpyVerif.Model.Py
import SigpyVerif.Model.C09
import SigpyVerif.Gen.C10Formulas
/-
  C10 model (core Lean only; linked into the driver).

  (1) glue of sigpy/wavelet.py: the even padding `zshape` comes from `Gen.waveZshapeShape/Fwt`
      (regenerated from the source on every run); centre pad / centre crop are `C09.resize`
      (the `util.resize` model of C09) for the size pair `(i, zshape i)`.
  (2) one level of the zero-extended two-channel filter bank in PyWavelets' convention
        a[k] = Σ_n h[2k+1-n]·x[n],   d[k] = Σ_n g[2k+1-n]·x[n],        0 ≤ k < ⌊(N+L-1)/2⌋
      and its transpose (`syn`), written *generically* over `[Add α] [Mul α] [Zero α]`: the driver
      executes these very definitions over `Rat` (PyWavelets' float filter taps are dyadic rationals, so
      they are passed exactly), `Props/C10.lean` reasons about the same definitions over any commutative
      ring (ℝ in particular) through `sumN_eq_sum`.
  (3) the multi-level 1-D pipeline (`wavedec`, `waverec`, `fwt1`, `iwt1`) and the advertised coefficient
      shape (`waveShape`) — PyWavelets' level recursion, trimming rule and packing order are a contract
      that the correspondence check validates on every run; `Props/C10.lean` proves perfect
      reconstruction, adjointness and isometry of exactly these executed definitions.
-/
namespace SigpyVerif.C10
open SigpyVerif

/-! ### filter bank, one level -/

/-- `Σ_{i<n} f i` -/
def sumN {α} [Add α] [Zero α] : Nat → (Nat → α) → α
  | 0, _ => 0
  | n + 1, f => sumN n f + f n

/-- analysis with one filter: `(ana h N x) k = Σ_{n<N} h[2k+1-n]·x[n]` (signal of length `N`, zero outside) -/
def ana {α} [Add α] [Mul α] [Zero α] (h : Int → α) (N : Nat) (x : Nat → α) (k : Nat) : α :=
  sumN N fun n => h (2 * (k : Int) + 1 - (n : Int)) * x n

/-- synthesis = transpose of the two analysis maps:
    `(syn h g M a d) n = Σ_{k<M} h[2k+1-n]·a[k] + g[2k+1-n]·d[k]` -/
def syn {α} [Add α] [Mul α] [Zero α] (h g : Int → α) (M : Nat) (a d : Nat → α) (n : Nat) : α :=
  sumN M fun k => h (2 * (k : Int) + 1 - (n : Int)) * a k + g (2 * (k : Int) + 1 - (n : Int)) * d k

/-- a list read as a sequence on ℤ, zero outside `0 ≤ j < length` -/
def ofList {α} [Zero α] (l : List α) (j : Int) : α := if 0 ≤ j then l.getD j.toNat 0 else 0
/-- a list read as a sequence on ℕ, zero beyond its length -/
def ofListN {α} [Zero α] (l : List α) (n : Nat) : α := l.getD n 0

/-- `pywt.dwt_coeff_len(n, L, mode='zero') = ⌊(n + L - 1)/2⌋` -/
def dwtLen (n L : Nat) : Nat := (n + L - 1) / 2

/-- `pywt.dwt(x, w, mode='zero')` with `h = w.dec_lo`, `g = w.dec_hi` -/
def dwt1 {α} [Add α] [Mul α] [Zero α] (h g x : List α) : List α × List α :=
  let M := dwtLen x.length h.length
  ((List.range M).map (ana (ofList h) x.length (ofListN x)),
   (List.range M).map (ana (ofList g) x.length (ofListN x)))

/-- `pywt.idwt(a, d, w, mode='zero')` for an orthogonal `w` (`rec_lo = reversed dec_lo`): the transpose of
    `dwt1`, cropped to the `2M - L + 2` positions `0 ≤ n < 2M-L+2` -/
def idwt1 {α} [Add α] [Mul α] [Zero α] (h g a d : List α) : List α :=
  let M := a.length
  (List.range (2 * M + 2 - h.length)).map (syn (ofList h) (ofList g) M (ofListN a) (ofListN d))

/-! ### levels (PyWavelets contract: `wavedec` / `waverec`) -/

/-- `pywt.wavedec(x, w, 'zero', level=J)`: `[a_J, d_J, …, d_1]` -/
def wavedec {α} [Add α] [Mul α] [Zero α] (h g : List α) : Nat → List α → List (List α)
  | 0, x => [x]
  | J + 1, x => let (a, d) := dwt1 h g x; wavedec h g J a ++ [d]

/-- `pywt.waverec`: an approximation one longer than the next detail is trimmed at the end -/
def waverec {α} [Add α] [Mul α] [Zero α] (h g : List α) : List (List α) → List α
  | [] => []
  | a :: ds => ds.foldl (fun a d => idwt1 h g (if a.length = d.length + 1 then a.dropLast else a) d) a

/-- `pywt.dwt_max_level(n, L)`: the largest `J` with `(L-1)·2^J ≤ n` (0 if none) -/
def maxLevel (n L : Nat) : Nat :=
  (List.range 64).foldl (fun J j => if (L - 1) * 2 ^ (j + 1) ≤ n then j + 1 else J) 0

/-- lengths of the coefficient lists `[a_J, d_J, …, d_1]` of `wavedec` on a length-`z` signal
    (`n_J, n_J, n_{J-1}, …, n_1`): the 1-D `coeff_slices` of `get_wavelet_shape` -/
def coeffLens (z L : Nat) : Nat → List Nat
  | 0 => [z]
  | J + 1 => coeffLens (dwtLen z L) L J ++ [dwtLen z L]

/-- length of the packed 1-D coefficient array `[a_J | d_J | … | d_1]` -/
def packedLen (z L J : Nat) : Nat := (coeffLens z L J).sum

/-- even padding of one axis (the generated formula) as a `Nat` -/
def zlen (i : Nat) : Nat := (Gen.waveZshapeFwt (i : Int)).toNat

/-- 1-D `sigpy.fwt(x, wave, axes=None, level)`: centre-pad to even, `level` levels (`none` = max level
    of the padded length), coefficients concatenated `[a_J | d_J | … | d_1]` -/
def fwt1 {α} [Add α] [Mul α] [Zero α] (h g : List α) (level : Option Nat) (x : List α) : List α :=
  let n : Int := x.length
  let z := Gen.waveZshapeFwt n
  let xz := (C09.resize [n] [z] none none x.toArray).toList
  let J := level.getD (maxLevel z.toNat h.length)
  (wavedec h g J xz).flatten

/-- split a list into consecutive pieces of the given lengths -/
def splitLens {α} : List Nat → List α → List (List α)
  | [], _ => []
  | n :: ns, l => l.take n :: splitLens ns (l.drop n)

/-- 1-D `sigpy.iwt(c, oshape=[n], slices of get_wavelet_shape([n]), wave, level)`: unpack with the slices
    computed from the *padded* length, `waverec`, centre-crop to `n` -/
def iwt1 {α} [Add α] [Mul α] [Zero α] (h g : List α) (level : Option Nat) (n : Nat) (c : List α) : List α :=
  let z := (Gen.waveZshapeShape (n : Int)).toNat
  let J := level.getD (maxLevel z h.length)
  let lens := coeffLens z h.length J
  let y := waverec h g (splitLens lens c)
  (C09.resize [(y.length : Int)] [(n : Int)] none none y.toArray).toList

/-- `linop.Wavelet(ishape, axes, wave, level).oshape`: transformed axes get the packed length of their
    padded length, the others are only padded; `level = none` is the smallest max-level of the transformed
    axes (`pywt.wavedecn`). `axes` are already normalised to `0 ≤ a < ndim`. -/
def waveShape (shape : List Nat) (axes : List Nat) (L : Nat) (level : Option Nat) : List Nat :=
  let zs := shape.map fun (i : Nat) => (Gen.waveZshapeShape (i : Int)).toNat
  let ml := ((List.range zs.length).filter (axes.contains ·)).map fun a => maxLevel (zs.getD a 0) L
  let J := level.getD (ml.foldl Nat.min (ml.headD 0))
  (List.range zs.length).map fun a =>
    let z := zs.getD a 0
    if axes.contains a then packedLen z L J else z

/-! ### pad / crop index maps for the pair `(i, zshape i)` -/

/-- where output index `k` of the padded axis reads from (`none` = the inserted zero) -/
def padSrc (i k : Int) : Option Int :=
  let z := Gen.waveZshapeFwt i
  C09.resizeSrc1 i z (Gen.resizeIshiftDefault i z) (Gen.resizeOshiftDefault i z) k

/-- where output index `j` of the cropped axis reads from in the padded axis -/
def cropSrc (i j : Int) : Option Int :=
  let z := Gen.waveZshapeShape i
  C09.resizeSrc1 z i (Gen.resizeIshiftDefault z i) (Gen.resizeOshiftDefault z i) j

end SigpyVerif.C10
