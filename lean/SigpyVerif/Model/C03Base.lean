import SigpyVerif.Model.Py
/-
  C03 base definitions shared by the hand-written model (`Model/C03.lean`) and the translator-generated
  `Gen/StackParams.lean` (core Lean only; linked into the driver).
-/
namespace SigpyVerif.C03

inductive Err | build | apply
  deriving DecidableEq, Repr

/-- `util.prod` -/
def sprod (s : List Nat) : Nat := s.foldr (· * ·) 1

/-- Python `l[i]` on a list: defined exactly for `-len(l) ≤ i < len(l)` (negative indices count from the
    end), `none` = IndexError. -/
def pyIndex {β} (l : List β) (i : Int) : Option β :=
  if 0 ≤ i then l[i.toNat]?
  else if -(l.length : Int) ≤ i then l[((l.length : Int) + i).toNat]?
  else none

/-- the exact shape guard of `Linop._check_ishape` / `_check_oshape`:
    `for a, b in zip(got, advertised): if b != -1 and a != b: raise` — `zip` stops at the shorter list,
    `-1` in the advertised shape is a wildcard. -/
def zipGuard : List Int → List Int → Bool
  | a :: got, b :: adv => (decide (b = -1) || decide (a = b)) && zipGuard got adv
  | _, _ => true

/-- sequential `for x in l: body` with a state and exceptions: the translator's image of a Python `for` loop
    (`f st x` = one iteration; the first exception stops the loop). -/
def foldE {σ β : Type} (f : σ → β → Except Err σ) : σ → List β → Except Err σ
  | s, [] => .ok s
  | s, b :: l =>
    match f s b with
    | .ok s' => foldE f s' l
    | .error e => .error e

end SigpyVerif.C03
