import SigpyVerif.Model.Py
import SigpyVerif.Gen.SenseFormulas
/-
  C16 model: the `sigpy.mri.linop.Sense` factory (tseg = None, comm = None) and the set-up of the three
  recon classes of `sigpy/mri/app.py`.

  * Generic over the scalar type `α` (`Add/Mul/Zero` only): the driver runs it over Gaussian rationals,
    `Props/C16.lean` reasons about it over an arbitrary commutative semiring / over ℂ.
  * The Fourier stage is an ABSTRACT linear map on the trailing (image) axes given as a matrix
    `F : K × R` (row-major flattening of the image axes → flattened k-space positions).  Which matrix the
    real FFT/NUFFT is, is C05/C06's business; here it is data, so batching / stacking / weighting are exact.
  * Everything the factory computes with integers comes from `Gen.sense*` (regenerated from the source
    on every run): the batching guard, `num_coil_batches`, the batch loop range, the slice bounds of `mps`
    and of `weights`, whether the weights are sliced, the `weights_per_coil` test, the exponent of
    `weights**e`.
  * Values: a k-space / coil-image array `[C, …]` is the list of its `C` rows (`Mat α`); the image is
    passed as the one-row matrix `[x]`.
-/
namespace SigpyVerif.C16
open SigpyVerif

abbrev Vec (α : Type) := List α
abbrev Mat (α : Type) := List (List α)

/-- Python `l[lo:hi]` for `0 ≤ lo`, `0 ≤ hi` (the upper bound is clamped at the length) -/
def pySlice {β : Type} (l : List β) (lo hi : Int) : List β :=
  (l.drop lo.toNat).take (hi.toNat - lo.toNat)

/-- k-space weights: none, broadcast over coils (k-space shaped), or with a leading coil axis -/
inductive Weights (α : Type) where
  | none
  | shared (w : Vec α)
  | perCoil (w : Mat α)

/-- the leaves the factory builds -/
inductive Leaf (α : Type) where
  /-- `S = Multiply(ishape, mps)` : image ↦ coil images -/
  | multiplyMaps (mps : Mat α)
  /-- `FFT(S.oshape, axes=range(-img_ndim,0))` or `NUFFT(S.oshape, coord)`: `F` on every coil row;
      `ncoil` rows of length `R` in, `K = F.length` out -/
  | fourier (ncoil R : Nat) (F : Mat α)
  /-- `P = Multiply(F.oshape, weights**0.5)`, weights broadcast over the coil axis; `sw = √weights` -/
  | multiplyWShared (sw : Vec α)
  /-- the same with a leading coil axis on the weights -/
  | multiplyWCoil (sw : Mat α)

/-- `Compose`: the list is in sigpy's order (`[P, F, S]` means `P * F * S`, `S` is applied first) -/
abbrev Chain (α : Type) := List (Leaf α)

inductive Op (α : Type) where
  | single (c : Chain α)
  /-- `Vstack([...], axis=0)` -/
  | vstack (cs : List (Chain α))

section generic
variable {α : Type} [Add α] [Mul α] [Zero α]

def vmul (a b : Vec α) : Vec α := List.zipWith (· * ·) a b
def dot (a b : Vec α) : α := (vmul a b).sum

/-- forward application of one leaf -/
def Leaf.apply : Leaf α → Mat α → Mat α
  | .multiplyMaps mps, X => mps.map fun m => vmul m (X.headD [])
  | .fourier _ _ F, X => X.map fun row => F.map fun frow => dot frow row
  | .multiplyWShared sw, X => X.map fun row => vmul sw row
  | .multiplyWCoil sw, X => List.zipWith vmul sw X

def Chain.apply (c : Chain α) (X : Mat α) : Mat α := c.foldr (fun op acc => op.apply acc) X

/-- `Vstack(axis=0)` concatenates the outputs along the coil axis -/
def Op.apply : Op α → Mat α → Mat α
  | .single c, X => c.apply X
  | .vstack cs, X => (cs.map fun c => c.apply X).flatten

/-! adjoints (`conj` is complex conjugation on the scalar type) -/

def Leaf.adj (conj : α → α) : Leaf α → Mat α → Mat α
  | .multiplyMaps mps, Y =>
      let R := (mps.headD []).length
      [ (List.range R).map fun r =>
          (List.zipWith (fun (m yrow : Vec α) => conj (m.getD r 0) * yrow.getD r 0) mps Y).sum ]
  | .fourier _ R F, Y => Y.map fun row =>
      (List.range R).map fun r => (List.zipWith (fun (frow : Vec α) (yk : α) => conj (frow.getD r 0) * yk) F row).sum
  | .multiplyWShared sw, Y => Y.map fun row => vmul (sw.map conj) row
  | .multiplyWCoil sw, Y => List.zipWith (fun s row => vmul (s.map conj) row) sw Y

/-- `(P * F * S).H = S.H * F.H * P.H` -/
def Chain.adj (conj : α → α) (c : Chain α) (Y : Mat α) : Mat α := c.foldl (fun acc op => op.adj conj acc) Y

/-- number of output rows (`oshape[0]`) of a chain = number of coils of its `S` leaf -/
def Chain.rows (c : Chain α) : Nat :=
  match c.getLast? with
  | some (.multiplyMaps mps) => mps.length
  | _ => 0

/-- image length of a chain -/
def Chain.imgLen (c : Chain α) : Nat :=
  match c.getLast? with
  | some (.multiplyMaps mps) => (mps.headD []).length
  | _ => 0

/-- `Hstack(axis=0)` splits its input along axis 0 by the sub-operators' `ishape[0]` -/
def splitRows {β : Type} : List Nat → List β → List (List β)
  | [], _ => []
  | n :: ns, y => y.take n :: splitRows ns (y.drop n)

/-- `Vstack.H = Hstack([op.H ...], axis=0)`: split, apply the adjoints, sum -/
def Op.adj (conj : α → α) : Op α → Mat α → Mat α
  | .single c, Y => c.adj conj Y
  | .vstack cs, Y =>
      let parts := List.zipWith (fun c y => c.adj conj y) cs (splitRows (cs.map Chain.rows) Y)
      let R := (cs.headD []).imgLen
      [ (List.range R).map fun r => (parts.map fun p => (p.headD []).getD r 0).sum ]

/-! the factory -/

structure SenseOpts (α : Type) where
  mps : Mat α
  /-- the Fourier stage on one coil image: `K × R` -/
  F : Mat α
  weights : Weights α
  /-- `coil_batch_size` (`none` = Python `None`) -/
  batch : Option Int
  /-- `z ↦ z ** 0.5` on the (real, non-negative) weights -/
  sqrt : α → α

/-- `weights ** e` : the model applies `sqrt` exactly when the source exponent is 1/2 (anything else is
    not what the property states and leaves the weights untouched so that the correspondence breaks) -/
def wpow (sqrt : α → α) (w : α) : α := if Gen.senseWeightsExp = (1 : Rat) / 2 then sqrt w else w

/-- the unbatched branch: `S`, `F * S`, `P * (F * S)` -/
def senseUnbatched (sqrt : α → α) (mps F : Mat α) (w : Weights α) : Chain α :=
  let S := Leaf.multiplyMaps mps
  let Fop := Leaf.fourier mps.length ((mps.headD []).length) F
  match w with
  | .none => [Fop, S]
  | .shared w => [.multiplyWShared (w.map (wpow sqrt)), Fop, S]
  | .perCoil w => [.multiplyWCoil (w.map fun row => row.map (wpow sqrt)), Fop, S]

/-- the weights handed to batch `c` -/
def batchWeights (w : Weights α) (c b n : Int) : Weights α :=
  match w with
  | .perCoil w =>
      if Gen.senseWeightsSliced then .perCoil (pySlice w (Gen.senseWLo c b n) (Gen.senseWHi c b n)) else .perCoil w
  | w => w

/-- `Sense(mps, coord, weights, coil_batch_size=batch)` -/
def sense (o : SenseOpts α) : Op α :=
  let n : Int := o.mps.length
  let b : Int := match o.batch with
    | none => Gen.senseBatchDefault n
    | some b => b
  if Gen.senseBatched n b then
    let nb := Gen.senseNumCoilBatches n b
    .vstack ((Gen.senseBatchRange nb n b).map fun c =>
      senseUnbatched o.sqrt (pySlice o.mps (Gen.senseMpsLo c b n) (Gen.senseMpsHi c b n)) o.F
        (batchWeights o.weights c b n))
  else
    .single (senseUnbatched o.sqrt o.mps o.F o.weights)

/-- the coil indices each batch receives (for the reified-tree comparison) -/
def batchCoils (n : Int) (batch : Option Int) : List (List Int) :=
  let b : Int := match batch with
    | none => Gen.senseBatchDefault n
    | some b => b
  if Gen.senseBatched n b then
    let nb := Gen.senseNumCoilBatches n b
    (Gen.senseBatchRange nb n b).map fun c => pySlice (pyRange0 n) (Gen.senseMpsLo c b n) (Gen.senseMpsHi c b n)
  else [pyRange0 n]

end generic

/-! ### recon set-ups (what each class hands to `LinearLeastSquares`) -/

inductive ReconKind where
  | senseRecon | l1Wavelet | totalVariation
  deriving DecidableEq, Repr

/-- where the weights of the data-consistency term come from -/
inductive WSource where
  | none       -- non-Cartesian without weights: no weighting at all
  | given      -- the caller's weights
  | estimated  -- `_estimate_weights`: 1 where rss(y) > 0 (Cartesian, weights = None)
  deriving DecidableEq, Repr

structure ReconSetup where
  wsource : WSource
  /-- `A = Sense(mps, weights=w)` carries `√w` -/
  aWeighted : Bool
  /-- `y` is replaced by `y * w ** yexp` -/
  yWeighted : Bool
  yExpHalf : Bool
  /-- `lamda` is passed as LinearLeastSquares' `lamda` (the `λ/2‖x‖²` term) -/
  l2 : Bool
  /-- proxg / G description -/
  prox : List String
  hasG : Bool
  deriving DecidableEq, Repr

def wsourceOf (estimates weightsGiven coordNone : Bool) : WSource :=
  if weightsGiven then .given
  else if estimates && coordNone then .estimated else .none

/-- transcription of the three `__init__`s (the keyword lists are generated from the source) -/
def reconSetup (k : ReconKind) (weightsGiven coordNone : Bool) : ReconSetup :=
  let (est, yexp, senseKw, superKw, prox) := match k with
    | .senseRecon => (Gen.reconSenseReconEstimates, Gen.reconSenseReconYExpIsHalf, Gen.reconSenseReconSenseKw,
        Gen.reconSenseReconSuperKw, ([] : List String))
    | .l1Wavelet => (Gen.reconL1WaveletReconEstimates, Gen.reconL1WaveletReconYExpIsHalf, Gen.reconL1WaveletReconSenseKw,
        Gen.reconL1WaveletReconSuperKw, Gen.reconL1WaveletReconProx)
    | .totalVariation => (Gen.reconTotalVariationReconEstimates, Gen.reconTotalVariationReconYExpIsHalf,
        Gen.reconTotalVariationReconSenseKw, Gen.reconTotalVariationReconSuperKw, Gen.reconTotalVariationReconProx)
  let ws := wsourceOf est weightsGiven coordNone
  { wsource := ws
    aWeighted := ws != .none && senseKw.contains "weights"
    yWeighted := ws != .none
    yExpHalf := yexp
    l2 := superKw.contains "lamda"
    prox := if superKw.contains "proxg" then prox else []
    hasG := superKw.contains "G" }

end SigpyVerif.C16
