import SigpyVerif.Model.Py
import SigpyVerif.Gen.AlgDone
import SigpyVerif.Gen.C15Resid
import SigpyVerif.Model.C13
import SigpyVerif.Gen.C15Mach
/-
  C15 model (core Lean only).
  * the `Alg` counter machine: `update()` = `_update()` (which itself adds `selfIncr<Cls>` to the
    counter — zero everywhere in a correct tree) followed by `iter += algUpdateIncr`; `done()` =
    the class's `_done` expression.  `algUpdateIncr`, `selfIncr<Cls>`, `initIter<Cls>` and every
    `done<Cls>` are GENERATED from sigpy/alg.py (`Gen/AlgDone.lean`).
  * `runLoop`: `while not alg.done(): alg.update()` (canonical loop and `App.run`), with fuel.
  * `_update` of GradientMethod (± acceleration), PrimalDualHybridGradient (constant-θ branch,
    scalar step sizes), NewtonsMethod (β = 1) and PowerMethod, transcribed over a record of vector
    operations, with the residual each of them feeds to `_done` (as its square: `resid2`).
  * `pdhgUpdateG`: PrimalDualHybridGradient with EVERY branch of the step-size block (γ_primal > 0,
    γ_dual > 0, constant θ) and scalar OR array-valued τ/σ: C13's generic `pdStep` (which sequences the
    `Gen.C13.*` formulas regenerated from the source) plus the residual formulas regenerated from
    the source (`Gen.C15.pdXExtDiff / pdResidDual2 / pdResid2`, `Gen/C15Resid.lean`; the weighted norm
    `norm(v / step**0.5)**2` is a parameter `wn`).
  * `newtonUpdateLS`: NewtonsMethod with the backtracking line search (β < 1), the loop with fuel.
-/
namespace SigpyVerif.C15

/-- counter after one `update()` of a class whose `_update` adds `selfIncr` itself -/
def ctrUpdate (selfIncr iter : Int) : Int := iter + selfIncr + Gen.algUpdateIncr

/-- `while not done(s): s = update(s)`; returns the final state, the number of `update()` calls and
    whether the loop ended because `done` (true) or because the fuel ran out (false) -/
def runLoop {σ : Type} (done : σ → Bool) (update : σ → σ) : Nat → σ → Nat → σ × Nat × Bool
  | 0, s, n => (s, n, done s)
  | f + 1, s, n => if done s then (s, n, true) else runLoop done update f (update s) (n + 1)

/-- the same loop for an `update` that can fail (`Res.raised`: the exception propagates out of the loop; `Res.nofuel`:
    an inner `while` did not terminate within its fuel): the last component is `true` iff the loop ended by `done` -/
def runLoopR {σ : Type} (done : σ → Bool) (update : σ → Res σ) : Nat → σ → Nat → σ × Nat × Bool
  | 0, s, n => (s, n, done s)
  | f + 1, s, n =>
    if done s then (s, n, true) else
    match update s with
    | Res.ok s' => runLoopR done update f s' (n + 1)
    | _ => (s, n, false)

structure VOps (V S : Type) where
  add : V → V → V
  sub : V → V → V
  smul : S → V → V
  /-- `‖v‖²` (`xp.linalg.norm(v).item() ** 2`) -/
  norm2 : V → S

variable {V S : Type} [Add S] [Sub S] [Mul S] [Div S] [Neg S] [OfNat S 1]

/-! ### GradientMethod -/
structure GM (V S : Type) where
  x : V
  z : V
  t : S
  /-- `resid ** 2` -/
  resid2 : S

/-- the step map `T(x0) = proxg(alpha, x0 - alpha * gradf(x0))` (`prox = none` is `proxg is None`) -/
def gmT (o : VOps V S) (gradf : V → V) (prox : Option (S → V → V)) (alpha : S) (x0 : V) : V :=
  let x1 := o.add x0 (o.smul (-alpha) (gradf x0))             -- util.axpy(self.x, -self.alpha, self.gradf(self.x))
  match prox with                                             -- if proxg is not None: copyto(x, proxg(alpha, x))
  | none => x1
  | some p => p alpha x1

/-- `GradientMethod._update`; `tnext t_old = (1 + (1 + 4 t_old²) ** 0.5) / 2` is a parameter
    (irrational). -/
def gmUpdate (o : VOps V S) (tnext : S → S) (gradf : V → V) (prox : Option (S → V → V)) (alpha : S)
    (accelerate : Bool) (s : GM V S) : GM V S :=
  let x_old := s.x                                            -- x_old = self.x.copy()
  let x0 := if accelerate then s.z else s.x                   -- if accelerate: copyto(self.x, self.z)
  let x := gmT o gradf prox alpha x0                          -- gradient step and prox
  let r2 := o.norm2 (o.sub x x_old) / (alpha * alpha)         -- resid = norm(x - x_old) / alpha
  if accelerate then
    -- resid = (resid**2 + (norm(x - z) / alpha)**2) ** 0.5   (z: the point the step was taken from)
    let r2 := r2 + o.norm2 (o.sub x s.z) / (alpha * alpha)
    let t_old := s.t
    let t := tnext t_old                                      -- self.t = (1 + (1 + 4 t_old**2) ** 0.5) / 2
    -- copyto(self.z, self.x + ((t_old - 1) / self.t) * (self.x - x_old))
    let z := o.add x (o.smul ((t_old - 1) / t) (o.sub x x_old))
    { x := x, z := z, t := t, resid2 := r2 }
  else
    { s with x := x, resid2 := r2 }

/-- the residual of the pinned (pre-fix) accelerated code: the move of `x` only -/
def gmResidXOnly (o : VOps V S) (alpha : S) (x x_old : V) : S := o.norm2 (o.sub x x_old) / (alpha * alpha)

/-! ### PrimalDualHybridGradient (γ_primal = γ_dual = 0: θ constant; scalar τ, σ) -/
structure PD (V S : Type) where
  x : V
  u : V
  xext : V
  resid2 : S

def pdhgUpdate (o : VOps V S) (A AH : V → V) (proxfc proxg : S → V → V) (tau sigma theta : S)
    (s : PD V S) : PD V S :=
  let u_old := s.u                                            -- u_old = self.u.copy()
  let x_ext_diff := o.sub s.xext s.x                          -- x_ext_diff = self.x_ext - self.x
  let u1 := o.add s.u (o.smul sigma (A s.xext))               -- util.axpy(self.u, self.sigma, self.A(self.x_ext))
  let u := proxfc sigma u1                                    -- copyto(self.u, self.proxfc(self.sigma, self.u))
  let rd2 := o.norm2 (o.sub u u_old) / sigma                  -- resid_dual = norm((u - u_old) / sigma**0.5)
  let x_old := s.x                                            -- x_old = self.x.copy()
  let x1 := o.add s.x (o.smul (-tau) (AH u))                  -- util.axpy(self.x, -self.tau, self.AH(self.u))
  let x := proxg tau x1                                       -- copyto(self.x, self.proxg(self.tau, self.x))
  let x_diff := o.sub x x_old                                 -- x_diff = self.x - x_old
  -- resid = (norm(x_diff/tau**.5)**2 + norm(x_ext_diff/tau**.5)**2 + resid_dual**2) ** 0.5
  let r2 := o.norm2 x_diff / tau + o.norm2 x_ext_diff / tau + rd2
  { x := x, u := u, xext := o.add x (o.smul theta x_diff), resid2 := r2 }  -- copyto(x_ext, x + theta * x_diff)

/-- the residual of the pinned (pre-fix) code: primal change only -/
def pdhgResidPrimalOnly (o : VOps V S) (tau : S) (x x_old : V) : S := o.norm2 (o.sub x x_old) / tau

/-! ### NewtonsMethod (β = 1: no line search) -/
/-- returns the new `x` and `residual ** 2 = lamda2 = -real(vdot(p, gradf_x))` -/
def newtonUpdate (o : VOps V S) (rdot : V → V → S) (gradf : V → V) (invHess : V → V → V) (x : V) : V × S :=
  let g := gradf x                                            -- gradf_x = self.gradf(self.x)
  let p := o.smul (-1) (invHess x g)                          -- p = -self.inv_hessf(self.x)(gradf_x)
  (o.add x p, -(rdot p g))                                    -- x_new = self.x + p ; lamda2 = -real(vdot(p, gradf_x))

/-! ### PrimalDualHybridGradient, every branch, scalar or array steps -/
section pdg
variable {S V W P D : Type} [Add S] [Sub S] [Mul S] [Div S] [Neg S] [NatCast S]
  [Add V] [Sub V] [SMul S V] [Add W] [Sub W] [SMul S W]
  [Neg P] [SMul P V] [SMul S P] [HDiv P S P] [Neg D] [SMul D W] [SMul S D] [HDiv D S D]
  [LT S] [∀ a b : S, Decidable (a < b)] [DecidableEq S]

/-- one `PrimalDualHybridGradient.update()`: the new state and `resid ** 2`.
    `wnP t v` / `wnD s w` stand for `norm(v / t**0.5)**2`.  Which value of the steps each residual term
    reads (σ before the step-size block, τ after it) is pinned by the generator (statement positions). -/
def pdhgUpdateG (sqrt : S → S) (wnP : P → V → S) (wnD : D → W → S) (A : V → W) (AH : W → V)
    (proxfc : D → W → W) (proxg : P → V → V) (gamma_primal gamma_dual theta0 : S)
    (s : C13.PDState S V W P D) : C13.PDState S V W P D × S :=
  let s' := C13.pdStep sqrt A AH proxfc proxg gamma_primal gamma_dual theta0 s
  let x_ext_diff := Gen.C15.pdXExtDiff s.x_ext s.x
  let rd2 := Gen.C15.pdResidDual2 wnD s'.u s.u s.sigma
  (s', Gen.C15.pdResid2 wnP (Gen.C13.pdXDiff s'.x s.x) x_ext_diff s'.tau rd2)
end pdg

/-! ### NewtonsMethod with backtracking line search (β < 1) -/
section newtonls
variable {V S : Type} [Add S] [Sub S] [Mul S] [Div S] [Neg S] [OfNat S 1] [OfNat S 2]
  [LT S] [∀ a b : S, Decidable (a < b)]

/-- `while self.f(x_new) > fx - alpha / 2 * self.lamda2: alpha *= self.beta; x_new = self.x + alpha * p`
    (with fuel; `none` = the fuel ran out).  Returns the final `alpha`, `x_new`. -/
def newtonLoop (o : VOps V S) (f : V → S) (beta lamda2 fx : S) (x p : V) : Nat → S → V → Option (S × V)
  | 0, _, _ => none
  | fuel + 1, alpha, x_new =>
    if fx - alpha / 2 * lamda2 < f x_new then
      newtonLoop o f beta lamda2 fx x p fuel (alpha * beta) (o.add x (o.smul (alpha * beta) p))
    else some (alpha, x_new)

/-- `NewtonsMethod._update`; returns the new `x`, `lamda2` and the final `alpha` -/
def newtonUpdateLS (o : VOps V S) (rdot : V → V → S) (gradf : V → V) (invHess : V → V → V) (f : V → S)
    (beta : S) (fuel : Nat) (x : V) : Option (V × S × S) :=
  let g := gradf x                                            -- gradf_x = self.gradf(self.x)
  let p := o.smul (-1) (invHess x g)                          -- p = -self.inv_hessf(self.x)(gradf_x)
  let lamda2 := -(rdot p g)                                   -- lamda2 = -real(vdot(p, gradf_x))
  let x_new := o.add x p                                      -- x_new = self.x + p
  if beta < 1 then                                            -- if self.beta < 1:
    (newtonLoop o f beta lamda2 (f x) x p fuel 1 x_new).map fun r => (r.2, lamda2, r.1)
  else some (x_new, lamda2, 1)
end newtonls

/-! ### PowerMethod -/
/-- `y = A(x); max_eig = norm(y); x = y / max_eig`; returns the new `x` and `max_eig` -/
def powerUpdate (o : VOps V S) (norm : V → S) (A : V → V) (x : V) : V × S :=
  let y := A x
  let m := norm y
  (o.smul (1 / m) y, m)

/-! ### exact instance for the driver: real vectors of rationals -/
abbrev RVec := Array Rat

def rzip (f : Rat → Rat → Rat) (a b : RVec) : RVec :=
  (Array.range a.size).map fun i => f (a.getD i 0) (b.getD i 0)

def ratV : VOps RVec Rat where
  add := rzip (· + ·)
  sub := rzip (· - ·)
  smul := fun s v => v.map (s * ·)
  norm2 := fun v => v.foldl (fun acc a => acc + a * a) 0

/-- the operations of the generated machines (`Gen/C15Mach.lean`) on rational vectors; `norm` to 1e-20 (float streams
    only), `phase` of a real vector is its sign -/
def ratM : MOps RVec Rat where
  add := rzip (· + ·)
  sub := rzip (· - ·)
  smul := fun s v => v.map (s * ·)
  neg := fun v => v.map (- ·)
  divs := fun v s => v.map (· / s)
  norm := fun v => C13.sqApprox (v.foldl (fun acc a => acc + a * a) 0)
  rdot := fun a b => (rzip (· * ·) a b).foldl (· + ·) 0
  relu := fun v => v.map fun a => if a < 0 then 0 else a
  mul := rzip (· * ·)
  phase := fun v => v.map fun a => if a < 0 then -1 else 1
  vabs := fun v => v.map ratAbs
  norm1 := fun v => v.foldl (fun acc a => acc + ratAbs a) 0

/-- `m × n` row-major matrix times vector -/
def rmatVec (m n : Nat) (M : RVec) (v : RVec) : RVec :=
  (Array.range m).map fun i => (List.range n).foldl (fun acc j => acc + M.getD (i * n + j) 0 * v.getD j 0) 0

/-- transpose times vector -/
def rmatTVec (m n : Nat) (M : RVec) (v : RVec) : RVec :=
  (Array.range n).map fun j => (List.range m).foldl (fun acc i => acc + M.getD (i * n + j) 0 * v.getD i 0) 0

/-- `thresh.soft_thresh(lam, x)` on reals -/
def softThresh (lam : Rat) (v : RVec) : RVec :=
  v.map fun a => let m := ratAbs a - lam; if m > 0 then (if a < 0 then -m else m) else 0

/-- `xp.clip(x, lo, hi)` -/
def clip (lo hi : Rat) (v : RVec) : RVec := v.map fun a => if a < lo then lo else if a > hi then hi else a

end SigpyVerif.C15
