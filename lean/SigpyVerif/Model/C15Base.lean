import SigpyVerif.Model.C12
/-
  C15 base (core Lean only): the vocabulary `Gen/C15Mach.lean` (regenerated from sigpy/alg.py and
  sigpy/app.py on every check by harness/translate/gen_c15m.py) is written over.
  * `AlgSt D`: an `Alg` object = the counter `iter` + the class-specific data `D`.
  * `Res`: outcome of an `_update` that can raise (`NewtonsMethod`: `raise ValueError`) or loops (`while`,
    modelled with fuel: `nofuel` = the fuel ran out).
  * `whileFuel`: `while cond(st): st = body(st)`.
  * `MOps V S`: the array operations the `_update` bodies use (scalars use core type classes).
  * one data record per class (the attributes its `_update` reads or writes).
-/
namespace SigpyVerif.C15

/-- an `Alg` object: the update counter and the class-specific attributes -/
structure AlgSt (D : Type) where
  iter : Int
  d : D

/-- result of an `_update` that may raise or loop -/
inductive Res (σ : Type) where
  | ok (s : σ)
  | raised
  | nofuel

/-- `while cond(st): st = body(st)`; `none` = the fuel ran out while `cond` still held -/
def whileFuel {σ : Type} (cond : σ → Bool) (body : σ → σ) : Nat → σ → Option σ
  | 0, s => if cond s then none else some s
  | f + 1, s => if cond s then whileFuel cond body f (body s) else some s

/-- the array operations used by the `_update` bodies of sigpy/alg.py (besides ConjugateGradient's, which are
    `C12.Ops`) -/
structure MOps (V S : Type) where
  /-- `a + b` -/
  add : V → V → V
  /-- `a - b` -/
  sub : V → V → V
  /-- `s * v` (scalar times array) -/
  smul : S → V → V
  /-- `-v` -/
  neg : V → V
  /-- `v / s` (array divided by a scalar) -/
  divs : V → S → V
  /-- `xp.linalg.norm(v).item()` -/
  norm : V → S
  /-- `xp.real(xp.vdot(a, b)).item()` -/
  rdot : V → V → S
  /-- `xp.clip(v, 0, np.inf)` -/
  relu : V → V
  /-- `a * b` elementwise -/
  mul : V → V → V
  /-- `xp.exp(1j * xp.angle(v))` -/
  phase : V → V
  /-- `xp.absolute(v)` -/
  vabs : V → V
  /-- `xp.sum(xp.absolute(v))` -/
  norm1 : V → S

/-- PowerMethod -/
structure PMData (V S : Type) where
  x : V
  max_eig : S

/-- GradientMethod (`z`, `t` exist only when `accelerate`) -/
structure GMData (V S : Type) where
  x : V
  z : V
  t : S
  resid : S

/-- NewtonsMethod -/
structure NMData (V S : Type) where
  x : V
  lamda2 : S
  residual : S

/-- AugmentedLagrangianMethod -/
structure ALMData (V : Type) where
  x : V
  u : V
  v : V

/-- ADMM -/
structure ADMMData (V : Type) where
  x : V
  z : V
  u : V

/-- GerchbergSaxton -/
structure GSData (V S : Type) where
  x : V
  residual : S

/-- the loop `while not alg_internal.done(): alg_internal.update()` on a ConjugateGradient object: number of fuel
    steps, `none` = fuel ran out -/
def cgWhile {V S : Type} (o : C12.Ops V S) (A : V → V) (P : Option (V → V)) (maxIter : Int) (tol : S) :
    Nat → C12.State V S → Option (C12.State V S) :=
  whileFuel (fun s => !(Gen.C12.done o maxIter tol s)) (fun s => Gen.C12.update o A P maxIter s)

end SigpyVerif.C15
