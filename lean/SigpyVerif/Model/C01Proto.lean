import SigpyVerif.Model.Proto
import SigpyVerif.Model.C01
/-
  Line protocol shared by C01 and C04.  A request is `mats <rpn tokens…>`: leaves are
  `kind:field:field…`, combinators pop their operands from a stack:
    `*` (Compose [A,B]), `+` (Add), `-` (A + (-1)·B), `neg`, `conj`, `H`, `N`,
    `scale:re;im` (a * A), `rscale:re;im` (A * a), `hstack:ax`, `vstack:ax`, `diag:oax:iax`.
  Reply: `ok oshape | ishape | M | M_H | M_N` — dense row-major matrices of `denote e`,
  `denote (adj e)` and `denote (normal e)` over the Gaussian rationals.
-/
namespace SigpyVerif.C01.Proto
open SigpyVerif SigpyVerif.Proto SigpyVerif.C01

abbrev E := Expr GRat

def gden (e : E) : Option (Sem GRat) := denote GRat.conj GRat.ofRat e
def gadj (e : E) : E := adj GRat.conj e
def gnormal (e : E) : E := normal GRat.conj e

def optInts (s : String) : Option (Option (List Int)) :=
  if s == "none" then some none else (parseIntList? s).map some

def optInt (s : String) : Option (Option Int) :=
  if s == "none" then some none else (parseInt? s).map some

def parseG (s : String) : Option GRat := (parseCRat? s).map fun (a, b) => ⟨a, b⟩

def parseGList (s : String) : Option (List GRat) :=
  if s == "-" then some [] else (s.splitOn ",").mapM parseG

def parseSlice (s : String) : Option PySlice :=
  match s.splitOn "." with
  | [a, b, c] => do
      let f := fun (t : String) => if t == "n" then some none else (parseInt? t).map some
      pure ⟨← f a, ← f b, ← f c⟩
  | _ => none

def parseSlices (s : String) : Option (List PySlice) :=
  if s == "-" then some [] else (s.splitOn ",").mapM parseSlice

def parseBool (s : String) : Option Bool :=
  if s == "1" then some true else if s == "0" then some false else none

/-- coordinates: flat rational list + ndim -/
def parseCoord (nd : String) (s : String) : Option (List (List Rat)) := do
  let n ← parseInt? nd
  let l ← parseRatList? s
  if n ≤ 0 then none
  let n := n.toNat
  if l.length % n ≠ 0 then none
  pure ((List.range (l.length / n)).map fun i => (l.drop (i * n)).take n)

def parseLeaf (fs : List String) : Option (Leaf GRat) :=
  match fs with
  | ["id", sh] => (parseIntList? sh).map .identity
  | ["reshape", o, i] => do pure (.reshape (← parseIntList? o) (← parseIntList? i))
  | ["transpose", i, a] => do pure (.transpose (← parseIntList? i) (← optInts a))
  | ["resize", o, i, a, b] => do
      pure (.resize (← parseIntList? o) (← parseIntList? i) (← optInts a) (← optInts b))
  | ["flip", s, a] => do pure (.flip (← parseIntList? s) (← optInts a))
  | ["circshift", s, f, a] => do pure (.circshift (← parseIntList? s) (← parseIntList? f) (← optInts a))
  | ["down", i, f, s] => do pure (.downsample (← parseIntList? i) (← parseIntList? f) (← parseIntList? s))
  | ["up", o, f, s] => do pure (.upsample (← parseIntList? o) (← parseIntList? f) (← parseIntList? s))
  | ["sum", i, a] => do pure (.sum (← parseIntList? i) (← parseIntList? a))
  | ["tile", o, a] => do pure (.tile (← parseIntList? o) (← parseIntList? a))
  | ["slice", i, s] => do pure (.slice (← parseIntList? i) (← parseSlices s))
  | ["embed", o, s] => do pure (.embed (← parseIntList? o) (← parseSlices s))
  | ["mul", i, m, d, c] => do
      pure (.multiply (← parseIntList? i) (← parseIntList? m) (← parseGList d) (← parseBool c))
  | ["matmul", i, m, d, a] => do
      pure (.matmul (← parseIntList? i) (← parseIntList? m) (← parseGList d) (← parseBool a))
  | ["rmatmul", i, m, d, a] => do
      pure (.rmatmul (← parseIntList? i) (← parseIntList? m) (← parseGList d) (← parseBool a))
  | ["a2b", i, b, s] => do pure (.a2b (← parseIntList? i) (← parseIntList? b) (← parseIntList? s))
  | ["b2a", o, b, s] => do pure (.b2a (← parseIntList? o) (← parseIntList? b) (← parseIntList? s))
  | ["interp", i, p, nd, c, w, q] => do
      pure (.interp (← parseIntList? i) (← parseIntList? p) (← parseCoord nd c) (← parseRat? w) (← parseRat? q))
  | ["grid", o, p, nd, c, w, q] => do
      pure (.gridding (← parseIntList? o) (← parseIntList? p) (← parseCoord nd c) (← parseRat? w) (← parseRat? q))
  | _ => none

def scalarMul (sh : List Int) (a : GRat) : E := .leaf (.multiply sh [1] [a] false)

/-- one RPN step -/
def step (st : List E) (tok : String) : Option (List E) :=
  let fs := tok.splitOn ":"
  match fs, st with
  | ["*"], b :: a :: r => some (.comp a b :: r)
  | ["+"], b :: a :: r => some (.add a b :: r)
  | ["-"], b :: a :: r => do
      let sb ← gden b
      pure (.add a (.comp (scalarMul sb.osh ⟨-1, 0⟩) b) :: r)
  | ["neg"], a :: r => do
      let sa ← gden a
      pure (.comp (scalarMul sa.osh ⟨-1, 0⟩) a :: r)
  | ["conj"], a :: r => some (.conj a :: r)
  | ["H"], a :: r => some (gadj a :: r)
  | ["N"], a :: r => some (gnormal a :: r)
  | ["scale", c], a :: r => do
      let sa ← gden a
      pure (.comp (scalarMul sa.osh (← parseG c)) a :: r)
  | ["rscale", c], a :: r => do
      let sa ← gden a
      pure (.comp a (scalarMul sa.ish (← parseG c)) :: r)
  | ["hstack", ax], b :: a :: r => do pure (.hstack (← optInt ax) a b :: r)
  | ["vstack", ax], b :: a :: r => do pure (.vstack (← optInt ax) a b :: r)
  | ["diag", oa, ia], b :: a :: r => do pure (.diag (← optInt oa) (← optInt ia) a b :: r)
  | _, _ => (parseLeaf fs).map (fun l => Expr.leaf l :: st)

def parseRpn (toks : List String) : Option E :=
  match toks.foldlM step [] with
  | some [e] => some e
  | _ => none

def fmtG (z : GRat) : String := fmtCRat (z.re, z.im)

def fmtMat (M : Array GRat) : String :=
  if M.isEmpty then "-" else ",".intercalate (M.toList.map fmtG)

def dense (s : Sem GRat) : Option (Array GRat) :=
  if shapeOk s.osh && shapeOk s.ish then toDense s.osz s.isz s.E else none

/-- reply for an expression: shapes and the dense matrices of `e`, `e.H`, `e.N` -/
def matsReply (e : E) : String :=
  match gden e, gden (gadj e), gden (gnormal e) with
  | some s, some sh, some sn =>
    match dense s, dense sh, dense sn with
    | some M, some MH, some MN =>
      if sh.osh = s.ish ∧ sh.ish = s.osh ∧ sn.osh = s.ish ∧ sn.ish = s.ish then
        s!"ok {fmtIntList s.osh} | {fmtIntList s.ish} | {fmtMat M} | {fmtMat MH} | {fmtMat MN}"
      else "err adj-shape"
    | _, _, _ => "err index"
  | none, _, _ => "err build"
  | _, _, _ => "err adj-build"

def handle (toks : List String) : String :=
  match toks with
  | "mats" :: rpn =>
    match parseRpn rpn with
    | none => "err bad-op"
    | some e => matsReply e
  | _ => "err bad-op"

end SigpyVerif.C01.Proto
