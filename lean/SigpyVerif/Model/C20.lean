/-
  C20 — trapezoid gradient designers (sigpy/mri/rf/trajgrad.py: `trap_grad`, `min_trap_grad`, `spokes_grad`).

  Core Lean only.  Everything is written *generically* over a type `α` with `+ - * / <` and `Nat` casts and
  over the record `Gen.TrapGrad.Ops α` of the non-field operations (`ceil` and `<` at numbered sites,
  `ceil (sqrt x / y / z)`, `floor (x / sqrt s / z)`).  The very same definitions are
    * reasoned about over ℝ in `Props/C20.lean` (`Ops` := `Nat.ceil`, `Real.sqrt`), and
    * executed over `Rat` by the driver (`Ops` := exact rational ceiling + integer *hints* for the two
      square-root operations, which the driver checks against their defining inequalities in squared
      rational form before use — no float and no approximate square root enters the model).
  The float formulas (`ramppts`, `triareamax`, triangle test, `nflat`, rescale factor, `pts`, flat value,
  gmax cap, capped length, ramp length) are the translator-generated `Gen.TrapGrad.*`; the statement layout
  that composes them below (ramps `k / ramppts`, `k = 0..ramppts`, up and down, `nflat` ones in between, final
  rescale) is pinned by the translator's structural check of the Python source.
-/
import SigpyVerif.Model.Py
import SigpyVerif.Gen.TrapGrad
import SigpyVerif.Gen.Spokes
namespace SigpyVerif.C20
open SigpyVerif.Gen.TrapGrad

variable {α : Type} [Add α] [Sub α] [Mul α] [Div α] [Neg α] [NatCast α] [LT α] [DecidableLT α] [Zero α]

/-- `np.linspace(0, r, num=r+1) / r` -/
def rampUp (r : Nat) : List α := (List.range (r + 1)).map fun k => ((k : Nat) : α) / ((r : Nat) : α)

/-- `np.linspace(r, 0, num=r+1) / r` -/
def rampDn (r : Nat) : List α := (List.range (r + 1)).map fun k => (((r - k : Nat)) : α) / ((r : Nat) : α)

/-- `np.concatenate((ramp_up, np.ones(nflat), ramp_dn))` (the triangle pulse is `nflat = 0`) -/
def pulse (r nflat : Nat) : List α := rampUp r ++ (List.replicate nflat ((1 : Nat) : α) ++ rampDn r)

/-- what a designer decides: ramp length, flat length, and the factor multiplying the unit pulse shape -/
structure Design (α : Type) where
  ramppts : Nat
  nflat : Nat
  scale : α

/-- the returned waveform `trap = pulse * scale` -/
def Design.wave (d : Design α) : List α := (pulse d.ramppts d.nflat).map (· * d.scale)

/-- the flat part of the waveform (samples `ramppts+1 .. ramppts+nflat`) -/
def Design.flat (d : Design α) : List α := (List.replicate d.nflat ((1 : Nat) : α)).map (· * d.scale)

/-- `trap_grad(area, gmax, dgdt, dt)` for `area ≠ 0` (the `rampsamp` branch, the only reachable one) -/
def trapGrad (ops : Ops α) (area gmax dgdt dt : α) : Design α :=
  let r0 := trapRamppts0 ops gmax dgdt dt
  let tam : α := trapTriareamax r0 gmax dt
  if trapIsTriangle ops tam area then
    let r := trapTriRamppts ops area dgdt dt
    ⟨r, 0, trapScale area (pulse (α := α) r 0).sum dt⟩
  else
    let nf := trapNflat ops area tam gmax dt
    ⟨r0, nf, trapScale area (pulse (α := α) r0 nf).sum dt⟩

/-- `min_trap_grad(area, gmax, dgdt, dt)` for `area ≠ 0`.  `none` is the error branch: a flat part of zero
samples (`0/0`, `np.max` of an empty array raises `ValueError`). The ramps are `k/ramppts * max(flat)` and
the flat samples are all `max(flat)`, i.e. the unit pulse times `max(flat)`. -/
def minTrapGrad (ops : Ops α) (area gmax dgdt dt : α) : Option (Design α) :=
  let pts := minPts ops area dgdt dt
  if pts = 0 then none else
  let fv : α := minFlatVal pts area dt
  if minOverGmax ops fv gmax then
    let pts2 := minPts2 ops area gmax dt
    if pts2 = 0 then none else
    let fv2 : α := minFlatVal pts2 area dt
    some ⟨minRamppts ops fv2 dgdt dt, pts2, fv2⟩
  else
    some ⟨minRamppts ops fv dgdt dt, pts, fv⟩

/-! ### defining inequalities of the two square-root operations (squared form, no square root) -/

/-- `r = ceil (sqrt x / y / z)` for positive `x y z`: `r ≥ 1`, `((r-1)·y·z)² < x ≤ (r·y·z)²` -/
def ceilSqrtDiv2Ok (x y z : α) (r : Nat) : Bool :=
  decide (1 ≤ r) &&
  decide ((((r - 1 : Nat) : α) * y * z) * (((r - 1 : Nat) : α) * y * z) < x) &&
  !decide (((r : α) * y * z) * ((r : α) * y * z) < x)

/-- `p = floor (x / sqrt s / z)` for positive `x s z`: `p²·s·z² ≤ x² < (p+1)²·s·z²` -/
def floorDivSqrt2Ok (x s z : α) (p : Nat) : Bool :=
  !decide (x * x < ((p : Nat) : α) * ((p : Nat) : α) * s * (z * z)) &&
  decide (x * x < ((p + 1 : Nat) : α) * ((p + 1 : Nat) : α) * s * (z * z))

/-! ### Rat instance for the driver -/

/-- exact ceiling of a rational as a natural (0 for negatives, like an array length) -/
def ratCeilNat (q : Rat) : Nat := (Rat.ceil q).toNat

/-- operations over `Rat`.  Exact ceiling and comparison; the square-root operations return the supplied
hints.  `cf` / `lf` are per-site overrides used by the correspondence ONLY to follow the float code through a
rounding that crossed an integer: `cf[site] = some x'` makes the ceiling of that site `⌈x'⌉` for the double `x'`
the float code actually rounded (see `Props/C20.lean`, `ceil_perturb_iff`), `lf[site] = some b` forces a
comparison.  With `cf = lf = []` these are the exact operations, the ones the `_rat` theorems are about. -/
def ratOps (hc hf : Nat) (cf : List (Option Rat)) (lf : List (Option Bool)) : Ops Rat :=
  ⟨fun site q => ratCeilNat ((cf.getD site none).getD q), fun _ _ _ => hc, fun _ _ _ => hf,
   fun site a b => (lf.getD site none).getD (decide (a < b))⟩

/-- are the hints the true values of the square-root operations *on the arguments the generated formulas
pass to them*?  (re-runs the generated formula with an `Ops` that evaluates the check.) -/
def trapHintOk (area dgdt dt : Rat) (hc : Nat) : Bool :=
  trapTriRamppts (⟨fun _ => ratCeilNat, fun x y z => if ceilSqrtDiv2Ok x y z hc then 1 else 0, fun _ _ _ => 0,
    fun _ a b => decide (a < b)⟩ : Ops Rat) area dgdt dt == 1

def minHintOk (area dgdt dt : Rat) (hf : Nat) : Bool :=
  -- `minPts` may wrap the floor in `max(·, 1)`: probe values 2 / 0 survive it distinguishably
  minPts (⟨fun _ => ratCeilNat, fun _ _ _ => 0, fun x s z => if floorDivSqrt2Ok x s z hf then 2 else 0,
    fun _ a b => decide (a < b)⟩ : Ops Rat) area dgdt dt == 2

/-- **what the driver runs** for `trap_grad` (exact operations, checked hint) -/
def trapGradRat (hc : Nat) (area gmax dgdt dt : Rat) : Design Rat := trapGrad (ratOps hc 0 [] []) area gmax dgdt dt

/-- **what the driver runs** for `min_trap_grad` (exact operations, checked hint) -/
def minTrapGradRat (hf : Nat) (area gmax dgdt dt : Rat) : Option (Design Rat) :=
  minTrapGrad (ratOps 0 hf [] []) area gmax dgdt dt

/-! ### `spokes_grad` (list level): the closed form of the generated assembly `Gen.Spokes.spokesGrad`
(`Props/C20Spokes.lean`: `spokes_closed_form`, `spokesAxis_eq`) -/

/-- one axis of `spokes_grad`: per spoke either zeros of the slice-select length or zeros followed by the
signed blip (`gx = gx[: len(gx) - len(blip)]; gx.extend(blip)` after `gx.extend([0] * len(subgz))`),
then zeros for the refocusing lobe. Requires each blip to fit into one slice-select lobe. -/
def spokesAxis (nsub nref : Nat) (blips : List (Option (List α))) : List α :=
  (blips.map fun b => match b with
    | none => List.replicate nsub (0 : α)
    | some w => List.replicate (nsub - w.length) (0 : α) ++ w).flatten ++ List.replicate nref (0 : α)

/-- the slice axis: the slice-select lobe with alternating sign, then the negated refocusing lobe -/
def spokesGz (sub ref : List α) (n : Nat) : List α :=
  ((List.range n).map fun i => if i % 2 = 0 then sub else sub.map (fun x => -x)).flatten ++ ref.map (fun x => -x)

/-- a designer replaced by a finite table `area ↦ samples` (the correspondence runs the real `spokes_grad` with
labelled sub-waveforms): the entry whose key is within `10⁻⁹` (relative) of the requested area — the real code hands
the designers the float evaluation of the area expression, the model the exact value —, else a poison waveform. -/
def tableDesigner (keys : List Rat) (waves : List (List Rat)) (a : Rat) : List Rat :=
  match (keys.zip waves).find? (fun kw => let d := kw.1 - a; (if d < 0 then -d else d) * 1000000000 ≤ (if a < 0 then -a else a)) with
  | some kw => kw.2
  | none => [-777]

/-- **what the driver runs** for `spokes_grad`: the generated assembly over `Rat` with table designers; `none` when
the three rows have different lengths (`np.vstack` raises `ValueError`) -/
def spokesGradRat (mk : List Rat) (mw : List (List Rat)) (tk : List Rat) (tw : List (List Rat)) (kx ky : List Rat)
    (n : Nat) (tbw sl gts : Rat) : Option (List Rat × List Rat × List Rat) :=
  let g := Gen.Spokes.spokesGrad (tableDesigner mk mw) (tableDesigner tk tw) (fun i => kx.getD i 0) (fun i => ky.getD i 0) n tbw sl gts
  if g.1.length = g.2.1.length ∧ g.2.1.length = g.2.2.length then some g else none

end SigpyVerif.C20
