import SigpyVerif.Model.Py
import SigpyVerif.Gen.NufftFormulas
/-
  C06 model (executable part): the integer / rational formulas of the nufft pipeline are the
  translator-generated `Gen.oversampLen`, `Gen.scaleFactor`, `Gen.scaleShift`, `Gen.scaleCoord`,
  `Gen.apodOsLen`, `Gen.apodCentre` (over a rational `oversamp`) and the generic scalings
  `Gen.nufftFwdDiv`, `Gen.nufftFwdWidthDiv`, `Gen.nufftAdjWidthDiv`, `Gen.nufftAdjMul` (over any scalar
  type with an abstract `sqrt`).  Here they are only packaged for the driver: the scalings are
  instantiated at `Float` with `Float.sqrt` for execution (nothing is proved about `Float`);
  the theorems in `Props/C06.lean` instantiate the same definitions at `ℝ` with `Real.sqrt`.
-/
namespace SigpyVerif.C06
open SigpyVerif

instance : IntCast Float := ⟨Float.ofInt⟩
instance : HPow Float Nat Float := ⟨fun x n => (List.replicate n x).foldl (· * ·) 1.0⟩

/-- oversampled shape of the transform axes -/
def osShape (oversamp : Rat) (shape : List Int) : List Int := shape.map (Gen.oversampLen oversamp)

/-- the four scalar constants of the two pipelines, as floats:
    (forward `/=` before padding, forward `/=` after interpolation, adjoint `/=` after gridding,
     adjoint `*=` after cropping) -/
def constsF (shape : List Int) (oversamp : Rat) (width : Float) : Float × Float × Float × Float :=
  let prodN := shapeProd shape
  let prodOs := shapeProd (osShape oversamp shape)
  let nd := shape.length
  (Gen.nufftFwdDiv (α := Float) Float.sqrt prodN, Gen.nufftFwdWidthDiv (α := Float) Float.sqrt width nd,
   Gen.nufftAdjWidthDiv (α := Float) Float.sqrt width nd, Gen.nufftAdjMul (α := Float) Float.sqrt prodOs prodN)

end SigpyVerif.C06
