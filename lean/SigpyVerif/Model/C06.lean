import SigpyVerif.Model.Py
import SigpyVerif.Gen.NufftFormulas
import SigpyVerif.Gen.Interp
/-
  C06 model (executable part): the integer / rational formulas of the nufft pipeline are the
  translator-generated `Gen.oversampLen`, `Gen.scaleFactor`, `Gen.scaleShift`, `Gen.scaleCoord`,
  `Gen.apodOsLen`, `Gen.apodCentre` (over a rational `oversamp`) and the generic scalings
  `Gen.nufftFwdDiv`, `Gen.nufftFwdWidthDiv`, `Gen.nufftAdjWidthDiv`, `Gen.nufftAdjMul` (over any scalar
  type with an abstract `sqrt`).  Here they are only packaged for the driver: the scalings are
  instantiated at `Float` with `Float.sqrt` for execution (nothing is proved about `Float`);
  the theorems in `Props/C06.lean` instantiate the same definitions at `ℝ` with `Real.sqrt`.
-/
namespace SigpyVerif.C06
open SigpyVerif

instance : IntCast Float := ⟨Float.ofInt⟩
instance : HPow Float Nat Float := ⟨fun x n => (List.replicate n x).foldl (· * ·) 1.0⟩

/-- oversampled shape of the transform axes -/
def osShape (oversamp : Rat) (shape : List Int) : List Int := shape.map (Gen.oversampLen oversamp)

/-- the four scalar constants of the two pipelines, as floats:
    (forward `/=` before padding, forward `/=` after interpolation, adjoint `/=` after gridding,
     adjoint `*=` after cropping) -/
def constsF (shape : List Int) (oversamp : Rat) (width : Float) : Float × Float × Float × Float :=
  let prodN := shapeProd shape
  let prodOs := shapeProd (osShape oversamp shape)
  let nd := shape.length
  (Gen.nufftFwdDiv (α := Float) Float.sqrt prodN, Gen.nufftFwdWidthDiv (α := Float) Float.sqrt width nd,
   Gen.nufftAdjWidthDiv (α := Float) Float.sqrt width nd, Gen.nufftAdjMul (α := Float) Float.sqrt prodOs prodN)

/-- what the generated 1-D interpolation reads for ONE point at image coordinate `c` on an axis of length `n`:
    the oversampled length `L`, the scaled coordinate `κ = Gen.scaleCoord os n c`, and for every update of
    `Gen.interp1` (one batch item, one point, kernel `K = id` so that the weight slot carries the kernel ARGUMENT)
    the wrapped grid index and the kernel argument `(i - κ)/(W/2)`.  This is the data of `kernelSum`
    (Props/C06Nudft.lean): `S(κ, ν) = (1/W) Σ wt(arg) · exp(-2πi · arg·(W/2) · ν / L)`. -/
def kernelArgs (os : Rat) (n : Int) (c W : Rat) : Int × Rat × List (Int × Rat) :=
  let L := Gen.oversampLen os n
  let κ := Gen.scaleCoord os n c
  let E := Gen.interp1 (fun u _ => u) (fun _ => 1) (fun k => if k = 0 then 1 else L) (fun _ => 1)
    (fun _ _ => κ) (fun _ => W) (fun _ => 0)
  (L, κ, E.map fun u => (u.2.1.getD 1 0, u.2.2))

end SigpyVerif.C06
