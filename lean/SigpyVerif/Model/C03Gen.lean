import SigpyVerif.Model.Py
import SigpyVerif.Model.C03Base
import SigpyVerif.Model.C03
import SigpyVerif.Model.C03Np
import SigpyVerif.Gen.StackParams
import SigpyVerif.Gen.LinopApply
/-
  C03: the operators the DRIVER runs — every constructor guard, every stacking-parameter function and every `_apply`
  body is the translator-generated definition (`Gen/StackParams.lean`, `Gen/LinopApply.lean`, regenerated from
  sigpy/linop.py on every check); only the `__init__` wiring below (which guard / parameter function is called on
  which list, `oshape = linops[0].oshape`, …) and the numpy primitives (`Model/C03Np.lean`) are hand-written.
  Core Lean only.  `Props/C03Gen.lean` proves these equal / refine the hand-written model of `Model/C03.lean`.

  `Linop.__init__` runs `_check_shape_positive` on the shapes: the combinators inherit positive shapes from their
  operands (leaves are checked with the generated `Gen.checkShapePositive`), so the check is not repeated here.
-/
namespace SigpyVerif.C03.G

/-- dense matrix leaf with the GENERATED positivity guard -/
def matOp {α} [Add α] [Mul α] [Zero α] (oshape ishape : List Int) (rows : List (List α)) : Except Err (Op α) :=
  if Gen.checkShapePositive oshape && Gen.checkShapePositive ishape then
    let osh := oshape.map Int.toNat
    .ok ⟨osh, ishape.map Int.toNat, fun x => .ok ⟨osh, rows.map (dot · x.data)⟩⟩
  else .error .build

def idOp {α} (shape : List Int) : Except Err (Op α) :=
  if Gen.checkShapePositive shape then .ok ⟨shape.map Int.toNat, shape.map Int.toNat, fun x => .ok x⟩ else .error .build

def reshapeOp {α} (oshape ishape : List Int) : Except Err (Op α) :=
  if Gen.checkShapePositive oshape && Gen.checkShapePositive ishape then
    .ok ⟨oshape.map Int.toNat, ishape.map Int.toNat, fun x => reshape x (oshape.map Int.toNat)⟩
  else .error .build

/-- `Compose.__init__`: `_check_compose_linops`, then `linops[0].oshape`, `linops[-1].ishape` -/
def compose {α} [Add α] [Zero α] (l : List (Op α)) : Except Err (Op α) :=
  if Gen.checkComposeLinops l then
    match l, l.getLast? with
    | A :: _, some Z => .ok ⟨A.oshape, Z.ishape, Gen.composeApply l⟩
    | _, _ => .error .build
  else .error .build

/-- `Add.__init__`: `_check_linops_same_ishape`, `_check_linops_same_oshape`, shapes of `linops[0]` -/
def add {α} [Add α] [Zero α] (l : List (Op α)) : Except Err (Op α) :=
  if Gen.checkLinopsSameIshape l && Gen.checkLinopsSameOshape l then
    match l with
    | A :: _ => .ok ⟨A.oshape, A.ishape, Gen.addApply l⟩
    | [] => .error .build
  else .error .build

def scaleL {α} [Add α] [Zero α] [Mul α] (a : α) (A : Op α) : Except Err (Op α) := compose [mulOp A.oshape a, A]
def scaleR {α} [Add α] [Zero α] [Mul α] (A : Op α) (a : α) : Except Err (Op α) := compose [A, mulOp A.ishape a]
def neg {α} [Add α] [Zero α] [Mul α] [Neg α] [One α] (A : Op α) : Except Err (Op α) := scaleL (-1) A
def sub {α} [Add α] [Zero α] [Mul α] [Neg α] [One α] (A B : Op α) : Except Err (Op α) :=
  match neg B with
  | .ok nB => add [A, nB]
  | .error e => .error e

/-- `Hstack.__init__`: `nops = len(linops)`, `_check_linops_same_oshape`, `_hstack_params` of the ishapes,
    `oshape = linops[0].oshape` -/
def hstack {α} [Add α] [Zero α] (l : List (Op α)) (axis : Option Int) : Except Err (Op α) :=
  if Gen.checkLinopsSameOshape l then
    match Gen.hstackParams (l.map Op.ishape) axis with
    | .ok (ishape, indices) =>
      match l with
      | A :: _ => .ok ⟨A.oshape, ishape, Gen.hstackApply l l.length axis indices⟩
      | [] => .error .build
    | .error e => .error e
  else .error .build

/-- `Vstack.__init__` -/
def vstack {α} [Add α] [Zero α] (l : List (Op α)) (axis : Option Int) : Except Err (Op α) :=
  if Gen.checkLinopsSameIshape l then
    match Gen.vstackParams (l.map Op.oshape) axis with
    | .ok (oshape, indices) =>
      match l with
      | A :: _ => .ok ⟨oshape, A.ishape, Gen.vstackApply l l.length axis indices oshape⟩
      | [] => .error .build
    | .error e => .error e
  else .error .build

/-- `Diag.__init__`: `_hstack_params` of the ishapes with `iaxis`, `_vstack_params` of the oshapes with `oaxis` -/
def diag {α} [Add α] [Zero α] (l : List (Op α)) (oaxis iaxis : Option Int) : Except Err (Op α) :=
  match Gen.hstackParams (l.map Op.ishape) iaxis with
  | .error e => .error e
  | .ok (ishape, iind) =>
    match Gen.vstackParams (l.map Op.oshape) oaxis with
    | .error e => .error e
    | .ok (oshape, oind) => .ok ⟨oshape, ishape, Gen.diagApply l l.length iaxis oaxis iind oind oshape⟩

end SigpyVerif.C03.G
