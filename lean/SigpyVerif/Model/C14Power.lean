/-
  C14 power-method model (core Lean only).  `MaxEig(op).run()` is the `maxEig` input of the generated set-ups
  (`Gen.C14.gmArgs`, `pdhgArgs*`).  The step (`pmUpdate_`, `pmUpdate`), the stopping rule (`pmDone`), the initial
  state (`pmInit`), and what `MaxEig` passes / returns (`maxEigNormFunc`, `maxEigDefaultIter`, `maxEigOutput`) are
  REGENERATED from sigpy/alg.py and sigpy/app.py on every check (`Gen/C14Power.lean`); this file only iterates them
  and gives the rational instance the driver executes (`sqrt` = the 2^-64-accurate `sqrtApprox` of Model/C14.lean:
  that stream is compared with a tolerance).  `Props/C14Power.lean` reasons about the same `pmRun` in an
  inner-product space.
-/
import SigpyVerif.Model.C14
import SigpyVerif.Gen.C14Power
namespace SigpyVerif.C14
open SigpyVerif.Gen.C14

variable {V S : Type}

/-- state after `k` calls of `update()` -/
def pmRun (o : PmOps V S) (A : V → V) (normFunc : Option (V → S)) (x0 : V) : Nat → PmState V S
  | 0 => pmInit x0
  | k + 1 => pmUpdate o A normFunc (pmRun o A normFunc x0 k)

/-- `MaxEig(A, max_iter=m).run()` from the start vector `x0` (`util.randn` in the real code):
    `while not done(): update()` performs `max(m, 0)` updates (`pm_done_iff` in Props), then `_output()` -/
def maxEigRun (o : PmOps V S) (A : V → V) (x0 : V) (maxIter : Int) : Option S :=
  maxEigOutput (pmRun o A maxEigNormFunc x0 maxIter.toNat)

/-- rational instance: `norm` through `sqrtApprox` -/
def ratPmOps : PmOps RV Rat where
  norm := fun v => sqrtApprox v.nsq
  divS := fun v s => (1 / s) • v

end SigpyVerif.C14
