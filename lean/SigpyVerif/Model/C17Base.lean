/-
  C17 base (core Lean only): the record `COps α` of the scalar operations `EspiritCalib` uses and the two list
  helpers the GENERATED per-voxel definitions (`Gen/EspiritSteps.lean`, regenerated from sigpy/mri/app.py on every
  check) are written over.  `Drv/C17.lean` instantiates `COps` with exact Gaussian rationals, `Props/C17*.lean` with ℂ.
-/
namespace SigpyVerif.C17

structure COps (α : Type) where
  zero : α
  add : α → α → α
  mul : α → α → α
  conj : α → α
  /-- `abs z` as a scalar -/
  abs : α → α
  /-- `r ** 0.5` of a non-negative real scalar -/
  sqrt : α → α
  div : α → α → α
  /-- `a > b` on real scalars -/
  gt : α → α → Bool
  /-- `True → 1`, `False → 0` (numpy multiplies by the boolean mask) -/
  ofBool : Bool → α

variable {α : Type}

/-- `xp.sum` over the coil axis -/
def csum (o : COps α) (l : List α) : α := l.foldr o.add o.zero

/-- `z ** p` for a literal natural exponent -/
def cpow (o : COps α) (z : α) (p : Nat) : α := (List.replicate p z).foldr o.mul (o.ofBool true)

/-- `M @ x` at one voxel: `M` a list of rows -/
def matVec (o : COps α) (G : List (List α)) (x : List α) : List α :=
  G.map fun row => csum o (List.zipWith o.mul row x)

end SigpyVerif.C17
