import SigpyVerif.Model.Py
import SigpyVerif.Model.C11Base
import SigpyVerif.Gen.Prox
import SigpyVerif.Gen.ProxBody
/-
  C11 — executable model of sigpy/prox.py + sigpy/thresh.py over exact Gaussian rationals (core Lean only).

  A `Prox` object is a `PExpr`; `call e α x` is `Prox.__call__` (input shape check, `_prox`, output shape check).
  Every scalar formula is the *generated* definition `Gen.Prox.*` (regenerated from the Python source on every
  run) instantiated at `Rat`; what is hand-written here is the plumbing (elementwise maps, `util.split`/`vec`,
  per-slice norms of `l2_proj`, matrix application for `UnitaryTransform`; the body of `l1_proj`, `Stack._prox` with
  `util.split` / `util.vec` and the `Prox.__call__` guard are the generated `Gen.ProxBody.*`) — tied to the real classes by the correspondence check.
  Moduli and norms must be rational (the harness generates such inputs); otherwise the reply is `irrational`.
  Modelled behaviour of `l1_proj` on an already feasible input: the input *in its own shape* (the property).
-/
namespace SigpyVerif.C11
open SigpyVerif SigpyVerif.Gen.Prox

abbrev CQ := Rat × Rat

structure Tens where
  shape : List Int
  data : Array CQ
  deriving Inhabited

/-- integer square root by Newton iteration (with fuel) -/
def natSqrtAux : Nat → Nat → Nat → Nat
  | 0, _, x => x
  | fuel + 1, n, x =>
    let y := (x + n / x) / 2
    if y < x then natSqrtAux fuel n y else x

def natSqrt (n : Nat) : Nat := if n ≤ 1 then n else natSqrtAux (n + 2) n n

def natSqrt? (n : Nat) : Option Nat :=
  let s := natSqrt n
  if s * s = n then some s else none

/-- exact rational square root (none: irrational or negative) -/
def ratSqrt? (q : Rat) : Option Rat :=
  if q < 0 then none else
  match natSqrt? q.num.toNat, natSqrt? q.den with
  | some a, some b => some ((a : Rat) / (b : Rat))
  | _, _ => none

def cnormSq (z : CQ) : Rat := z.1 * z.1 + z.2 * z.2

/-- modulus of a Gaussian rational, when rational -/
def cabs? (z : CQ) : Option Rat :=
  if z.2 = 0 then some (gabs z.1) else if z.1 = 0 then some (gabs z.2) else ratSqrt? (cnormSq z)

/-- apply a real-scalar formula to both components -/
@[inline] def cmap (f : Rat → Rat) (z : CQ) : CQ := (f z.1, f z.2)
@[inline] def cmap2 (f : Rat → Rat → Rat) (z w : CQ) : CQ := (f z.1 w.1, f z.2 w.2)

/-- `thresh._soft_thresh(lam, z)` -/
def csoftQ (lam : Rat) (z : CQ) : Except String CQ :=
  match cabs? z with
  | some m => .ok (softThresh lam z.1 m, softThresh lam z.2 m)
  | none => .error "irrational"

/-- `thresh._hard_thresh(lam, z)` (only a comparison of the modulus: decided on squares when `lam ≥ 0`) -/
def chardQ (lam : Rat) (z : CQ) : Except String CQ :=
  match cabs? z with
  | some m => .ok (hardThresh lam z.1 m, hardThresh lam z.2 m)
  | none => if 0 ≤ lam then .ok (if cnormSq z > lam * lam then z else (0, 0)) else .ok z

def mapE (f : CQ → Except String CQ) (a : Array CQ) : Except String (Array CQ) := a.mapM f

def zipE (a b : Array CQ) (f : CQ → CQ → CQ) : Except String (Array CQ) :=
  if a.size = b.size then .ok (Array.zipWith f a b) else .error "broadcast"

/-- attach the input's shape to elementwise computed data -/
def withShape (sh : List Int) (r : Except String (Array CQ)) : Except String Tens :=
  match r with
  | .error e => .error e
  | .ok d => .ok ⟨sh, d⟩

/-- `Prox._check_shape`: `for i1, i2 in zip(input.shape, self.shape): if i2 != -1 and i1 != i2: raise` -/
def checkShape (ishape pshape : List Int) : Bool :=
  (List.zip ishape pshape).all fun (i1, i2) => !(i2 != -1 && i1 != i2)

/-- `util._normalize_axes` -/
def normAxes (axes : Option (List Int)) (ndim : Nat) : List Int :=
  match axes with
  | none => (List.range ndim).map (fun (k : Nat) => (k : Int))
  | some a => a.map (fun x => pyMod x ndim)

/-- flat index of the slice representative: multi-index with the reduced axes set to 0 -/
def sliceKey (shape : List Int) (axes : List Int) (k : Nat) : Int :=
  let idx := unravel shape k
  ravel shape ((List.zip (List.range idx.length) idx).map fun (d, i) => if axes.contains (d : Int) then 0 else i)

/-- `thresh.l2_proj(eps, x, axes)` -/
def l2projQ (eps : Rat) (x : Tens) (axes : Option (List Int)) : Except String (Array CQ) := do
  let ax := normAxes axes x.shape.length
  let keys := (List.range x.data.size).map (sliceKey x.shape ax)
  let karr := keys.toArray
  let mut out : Array CQ := #[]
  for k in List.range x.data.size do
    let key := karr[k]!
    let nsq := (List.range x.data.size).foldl
      (fun acc j => if karr[j]! = key then acc + cnormSq x.data[j]! else acc) (0 : Rat)
    let z := x.data[k]!
    match ratSqrt? nsq with
    | some n => out := out.push (l2projOut eps z.1 n, l2projOut eps z.2 n)
    | none =>
      -- `norm < eps` decided on squares (eps > 0); then `l2projOut eps c norm = c` (Props: `l2projOut_eq`)
      if 0 < eps && nsq < eps * eps then out := out.push z else throw "irrational"
  return out

/-- insertion sort, descending -/
def insDesc (a : Rat) : List Rat → List Rat
  | [] => [a]
  | b :: t => if b < a then a :: b :: t else b :: insDesc a t
def sortDesc (l : List Rat) : List Rat := l.foldr insDesc []

def cumsum (l : List Rat) : List Rat :=
  (l.foldl (fun (acc : Rat × List Rat) a => (acc.1 + a, (acc.1 + a) :: acc.2)) (0, [])).2.reverse

/-- Duchi et al. threshold: `st[idx]`, `idx = flatnonzero((s - st) > 0).max()`; `none` when no index qualifies
    (numpy raises on `.max()` of an empty array). -/
def duchiTheta (eps : Rat) (mods : List Rat) : Option Rat :=
  let s := sortDesc mods
  let c := cumsum s
  let st := (List.zip c (List.range s.length)).map fun (ck, k) => l1projSt ck eps ((k : Nat) : Rat)
  let good := (List.zip s st).filter fun (sk, stk) => l1projCond sk stk
  (good.getLast?).map (·.2)

/-- exact KKT certificate of Props `l1_proj_kkt_*`: `θ ≥ 0` and `Σ (|y i| - θ)₊ = ε` -/
def kktOk (eps θ : Rat) (mods : List Rat) : Bool :=
  decide (0 ≤ θ) && decide ((mods.foldl (fun acc m => acc + (if m - θ > 0 then m - θ else 0)) (0 : Rat)) = eps)

def moduli (a : Array CQ) : Except String (List Rat) :=
  a.toList.mapM fun z => match cabs? z with | some m => .ok m | none => .error "irrational"

/-- `thresh.l1_proj(eps, x)` = the GENERATED body `Gen.ProxBody.l1projWith` (statement by statement from the source:
    ravel, feasibility test, sort, cumsum, candidates, `flatnonzero(..).max()`, `soft_thresh(st[idx], input.reshape(shape))`),
    run on the entries paired with their (rational) moduli, with the model's own merge sort for `xp.sort`.  The
    result's shape is whatever the generated body returns (`l1proj_shape`: the input's shape on both paths). -/
def l1projQ (eps : Rat) (x : Tens) : Except String Tens := do
  let mods ← moduli x.data
  match Gen.ProxBody.l1projWith (fun p : CQ × Rat => p.2)
      (fun θ p => ((softThresh θ p.1.1 p.2, softThresh θ p.1.2 p.2), p.2)) msort eps ⟨x.shape, x.data.toList.zip mods⟩ with
  | none => throw "empty-max"
  | some out => return ⟨out.shape, (out.data.map (·.1)).toArray⟩

/-- complex matrix–vector product and conjugate transpose -/
def cmul (a b : CQ) : CQ := (a.1 * b.1 - a.2 * b.2, a.1 * b.2 + a.2 * b.1)
def matVec (A : Array (Array CQ)) (v : Array CQ) : Array CQ :=
  A.map fun row => (Array.zipWith cmul row v).foldl (fun (acc : CQ) z => (acc.1 + z.1, acc.2 + z.2)) (0, 0)
def matH (A : Array (Array CQ)) (ncols : Nat) : Array (Array CQ) :=
  (Array.range ncols).map fun j => A.map fun row => let z := row[j]!; (z.1, -z.2)

mutual
inductive PExpr where
  | noop (shape : List Int)
  | l1reg (shape : List Int) (lamda : Rat)
  | l2reg (shape : List Int) (lamda : Rat) (y : Option (Array CQ))
  | l2regH (shape : List Int) (lamda : Rat) (y : Option (Array CQ)) (proxh : PExpr)
  | l2proj (shape : List Int) (eps : Rat) (y : Array CQ) (axes : Option (List Int))
  | linfproj (shape : List Int) (eps : Rat) (bias : Option (Array CQ))
  | l1proj (shape : List Int) (eps : Rat)
  | box (shape : List Int) (lower upper : Array Rat)
  | conj (p : PExpr)
  | stack (ps : PList)
  | unitary (p : PExpr) (ishape oshape : List Int) (A : Array (Array CQ))
inductive PList where
  | nil
  | cons (p : PExpr) (rest : PList)
end

mutual
/-- `self.shape` -/
def pshape : PExpr → List Int
  | .noop s | .l1reg s _ | .l2reg s _ _ | .l2regH s _ _ _ | .l2proj s _ _ _ | .linfproj s _ _ | .l1proj s _
  | .box s _ _ => s
  | .conj p => pshape p
  | .stack ps => [stackSize ps]
  | .unitary _ ish _ _ => ish
/-- `sum(util.prod(prox.shape) for prox in proxs)` -/
def stackSize : PList → Int
  | .nil => 0
  | .cons p rest => shapeProd (pshape p) + stackSize rest
end

/-- `Prox.__call__` around an already computed `_prox` result -/
def guard (sh : List Int) (x : Tens) (r : Except String Tens) : Except String Tens :=
  if !checkShape x.shape sh then .error "shape" else
    match r with
    | .error e => .error e
    | .ok out => if !checkShape out.shape sh then .error "shape" else .ok out

/-- the `L2Reg` affine step on every entry -/
def l2regStep (lamda α : Rat) (y : Option (Array CQ)) (x : Array CQ) (plain : Bool) : Except String (Array CQ) :=
  match y with
  | none => .ok (x.map (cmap (if plain then l2regOut lamda α else l2regArgIn lamda α)))
  | some b => zipE x b (cmap2 (fun u v => if plain then l2regBiasOut lamda α u v else l2regBiasArgIn lamda α u v))

mutual
/-- `_prox` of every class -/
def prox : PExpr → Rat → Tens → Except String Tens
  | .noop _, _, x => withShape x.shape (.ok (x.data.map (cmap noopOut)))
  | .l1reg _ lamda, α, x => withShape x.shape (mapE (csoftQ (l1regLam lamda α)) x.data)
  | .l2reg _ lamda y, α, x => withShape x.shape (l2regStep lamda α y x.data true)
  | .l2regH _ lamda y h, α, x =>
      match l2regStep lamda α y x.data false with
      | .error e => .error e
      | .ok u =>
        let α' := match y with | none => l2regArgAlpha lamda α | some _ => l2regBiasArgAlpha lamda α
        guard (pshape h) ⟨x.shape, u⟩ (prox h α' ⟨x.shape, u⟩)
  | .l2proj _ eps y axes, _, x => withShape x.shape (do
      let u ← zipE x.data y (cmap2 l2projArgIn)
      let p ← l2projQ eps ⟨x.shape, u⟩ axes
      zipE y p (cmap2 l2projBiasOut))
  | .linfproj _ eps bias, _, x => withShape x.shape (
      match bias with
      | none => do
          let s ← mapE (fun z => csoftQ (linfProjArgLam eps) (cmap linfProjArgIn z)) x.data
          zipE x.data s (cmap2 linfProjOut)
      | some b => do
          let u ← zipE x.data b (cmap2 linfProjBiasArgIn)
          let s ← mapE (csoftQ (linfProjBiasArgLam eps)) u
          if x.data.size ≠ b.size then throw "broadcast"
          return (Array.range x.data.size).map fun k =>
            let z := x.data[k]!; let bb := b[k]!; let ss := s[k]!
            (linfProjBiasOut z.1 bb.1 ss.1, linfProjBiasOut z.2 bb.2 ss.2))
  | .l1proj _ eps, _, x => l1projQ eps x
  | .box _ lo hi, _, x => withShape x.shape (
      if x.data.any (fun z => z.2 ≠ 0) then .error "domain" else
      if x.data.size ≠ lo.size ∨ x.data.size ≠ hi.size then .error "broadcast" else
      .ok ((Array.range x.data.size).map fun k => (boxOut x.data[k]!.1 lo[k]! hi[k]!, 0)))
  | .conj p, α, x =>
      let u : Tens := ⟨x.shape, x.data.map (cmap (conjArgIn α))⟩
      match guard (pshape p) u (prox p (conjArgAlpha α) u) with
      | .error e => .error e
      | .ok inner =>
        withShape x.shape (zipE x.data inner.data (cmap2 (conjOut α)))
  | .stack ps, α, x =>
      match proxList ps α x.data with
      | .error e => .error e
      | .ok d => .ok ⟨[(d.size : Int)], d⟩
  | .unitary p ish osh A, α, x =>
      if x.shape ≠ ish then .error "linop-shape" else
      if A.size ≠ (shapeProd osh).toNat ∨ A.any (fun r => r.size ≠ x.data.size) then .error "linop-shape" else
      let u : Tens := ⟨osh, matVec A x.data⟩
      match guard (pshape p) u (prox p α u) with
      | .error e => .error e
      | .ok v =>
        if v.shape ≠ osh then .error "linop-shape" else
        if v.data.size ≠ A.size then .error "linop-shape" else
        .ok ⟨ish, matVec (matH A x.data.size) v.data⟩
/-- `Stack._prox`: `util.split`, the calls, `util.vec` -/
def proxList : PList → Rat → Array CQ → Except String (Array CQ)
  | .nil, _, _ => .ok #[]
  | .cons p rest, α, v =>
      let osize := (shapeProd (pshape p)).toNat
      let head := v.extract 0 osize
      if head.size ≠ osize then .error "reshape" else   -- `vec[:osize].reshape(oshape)` fails
      let u : Tens := ⟨pshape p, head⟩
      match guard (pshape p) u (prox p α u) with
      | .error e => .error e
      | .ok o =>
        match proxList rest α (v.extract osize v.size) with
        | .error e => .error e
        | .ok r => .ok (o.data ++ r)
end

/-- `P(α, x)` -/
def call (e : PExpr) (α : Rat) (x : Tens) : Except String Tens := guard (pshape e) x (prox e α x)

end SigpyVerif.C11
