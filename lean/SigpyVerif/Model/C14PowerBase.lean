/-
  C14 power-method base (core Lean only): the record `PmOps V S` of the two array operations
  `sigpy.alg.PowerMethod._update` uses and the record `PmState V S` of its attributes.  `Gen/C14Power.lean`
  (regenerated from sigpy/alg.py + sigpy/app.py on every check) is written over them; `Model/C14Power.lean`
  instantiates them with rational vectors (the driver), `Props/C14Power.lean` with an inner-product space.
-/
namespace SigpyVerif.C14

/-- the operations `PowerMethod._update` uses -/
structure PmOps (V S : Type) where
  /-- `xp.linalg.norm(y).item()` -/
  norm : V → S
  /-- `y / s` (array divided by a number) -/
  divS : V → S → V

/-- the attributes of a `PowerMethod` object that change over time (`max_eig = np.inf` initially: `none`) -/
structure PmState (V S : Type) where
  x : V
  maxEig : Option S
  iter : Int

end SigpyVerif.C14
