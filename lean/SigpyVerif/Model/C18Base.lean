/-
  C18 base: rational helpers used by the generated `Gen/Samp.lean` (core Lean only).
-/
import SigpyVerif.Model.Py
namespace SigpyVerif

/-- Python `int(q)` on a real number: truncation toward zero. -/
def ratTrunc (q : Rat) : Int := if q < 0 then Rat.ceil q else Rat.floor q

/-- `np.maximum(a, b)` / `max(a, b)` on rationals. -/
def ratMax (a b : Rat) : Rat := if a ≥ b then a else b
def ratMin (a b : Rat) : Rat := if a ≤ b then a else b

end SigpyVerif
