import SigpyVerif.Model.Py
import SigpyVerif.Gen.LinopFormulas
/-
  C04 model (core Lean only, executable): the cover count of the block layout — the multiplier
  that `ArrayToBlocks.N = Aᴴ A` applies to an array element (Lemmas/C04Cover*.lean).
  The rest of the C04 model (`normal : Expr → Expr`) lives in Model/C01.lean.
-/
namespace SigpyVerif.C04
open SigpyVerif

/-- number of (block n, offset x) pairs of the 1-D block layout (block length B, stride S, N blocks)
    that land on array index i -/
def coverPairs (B S N i : Int) : Nat :=
  ((pyRange0 N).flatMap fun n => (pyRange0 B).filter fun x => decide (n * S + x = i)).length

/-- cover counts of all indices `0..L-1` of an axis of length `L` with `num_blks` taken from the
    formula of `ArrayToBlocks.__init__` (`Gen.a2bNumBlks`, regenerated from the source) -/
def coverAxis (L B S : Int) : List Int :=
  (pyRange0 L).map fun i => ((coverPairs B S (Gen.a2bNumBlks L B S) i : Nat) : Int)

end SigpyVerif.C04
