import SigpyVerif.Model.Py
import SigpyVerif.Gen.LinopFormulas
/-
  C04 model (core Lean only, executable): the cover count of the block layout — the multiplier
  that `ArrayToBlocks.N = Aᴴ A` applies to an array element (Lemmas/C04Cover*.lean).
  The rest of the C04 model (`normal : Expr → Expr`) lives in Model/C01.lean.
-/
namespace SigpyVerif.C04
open SigpyVerif

/-- number of (block n, offset x) pairs of the 1-D block layout (block length B, stride S, N blocks)
    that land on array index i -/
def coverPairs (B S N i : Int) : Nat :=
  ((pyRange0 N).flatMap fun n => (pyRange0 B).filter fun x => decide (n * S + x = i)).length

/-- cover counts of all indices `0..L-1` of an axis of length `L` with `num_blks` taken from the
    formula of `ArrayToBlocks.__init__` (`Gen.a2bNumBlks`, regenerated from the source) -/
def coverAxis (L B S : Int) : List Int :=
  (pyRange0 L).map fun i => ((coverPairs B S (Gen.a2bNumBlks L B S) i : Nat) : Int)

/-! ### what a `_normal_linop` can return for the classes without an exact entry model, and the symbolic
    operator chain of the Toeplitz NUFFT normal (filled in by `Gen/LinopNormal.lean`, regenerated from
    sigpy/linop.py on every run; interpreted as matrices in Props/C04Toeplitz.lean) -/

/-- Python `range(a, b, s)` for either sign of the step (`pyRange` covers positive steps only) -/
def rangeStep (a b s : Int) : List Int :=
  if s > 0 then pyRange a b s
  else if s < 0 then (List.range ((a - b + (-s) - 1) / (-s)).toNat).map (fun (k : Nat) => a + (k : Int) * s)
  else []

/-- an operator object built inside `NUFFT._normal_linop` (constructor arguments in `__init__` order) -/
inductive ChainOp where
  | resize (oshape ishape : List Int) (ishift oshift : Option (List Int))
  | fft (shape : List Int) (axes : Option (List Int)) (center : Bool)
  /-- `Multiply(shape, psf)`: the multiplier is the psf array (of shape `mshape`) -/
  | multiplyPsf (ishape mshape : List Int) (conj : Bool)
deriving DecidableEq, Repr

/-- a factor of a product `X * Y.H * ..` -/
inductive ChainFactor where
  | op (x : ChainOp)
  | adj (x : ChainOp)
deriving DecidableEq, Repr

/-- the value of a `_normal_linop` of a class without an exact entry model -/
inductive NormalOpaque where
  /-- `self.H * self`: no override (`Linop._normal_linop`), or the same expression written out in the class -/
  | default
  /-- `return Identity(shape)` -/
  | identity (shape : List Int)
  /-- a product of operators built in the method -/
  | chain (factors : List ChainFactor)
deriving DecidableEq, Repr

end SigpyVerif.C04
