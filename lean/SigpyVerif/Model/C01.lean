import SigpyVerif.Model.Py
import SigpyVerif.Model.Apply
import SigpyVerif.Model.C09
import SigpyVerif.Gen.Block
import SigpyVerif.Gen.Interp
import SigpyVerif.Gen.LinopFormulas
/-
  C01 / C04 model (core Lean only, executable):

  * sparse matrices as entry lists `(out, in, weight)` (duplicates add), their action `applyF`,
    the `vdot` pairing `dotL`, conjugate transpose `adjE`, product `compE`, conjugation `conjE`;
  * one `Leaf` constructor per exactly-representable operator class of `sigpy.linop` with the
    entries it denotes (`leafSem`).  Index arithmetic comes from `Gen.*` (block / interp loop nests,
    shape formulas, regenerated from the source on every run) and from the C09 model
    (resize / flip / circshift / down- / upsample); the rest is hand-written from `_apply`;
  * `Expr` with `denote`, `adj` (transcribes every `_adjoint_linop`) and `normal`
    (transcribes every `_normal_linop`; for ArrayToBlocks/BlocksToArray the *correct* default
    `A.H * A`, see Props/C04).
  Scalars are generic: `[Add α] [Mul α] [Zero α] [One α]` plus `conj` and `ofRat` passed as functions.
  The driver instantiates α := GRat (Gaussian rationals); Props uses a commutative star ring.
-/
namespace SigpyVerif.C01
open SigpyVerif

/-! ### scalars for the driver -/
structure GRat where
  re : Rat
  im : Rat
deriving DecidableEq

namespace GRat
instance : Add GRat := ⟨fun a b => ⟨a.re + b.re, a.im + b.im⟩⟩
instance : Mul GRat := ⟨fun a b => ⟨a.re * b.re - a.im * b.im, a.re * b.im + a.im * b.re⟩⟩
instance : Zero GRat := ⟨⟨0, 0⟩⟩
instance : One GRat := ⟨⟨1, 0⟩⟩
def conj (a : GRat) : GRat := ⟨a.re, -a.im⟩
def ofRat (r : Rat) : GRat := ⟨r, 0⟩
end GRat

/-! ### entry lists -/

/-- `(A x)[o] = Σ_{(o,i,w) ∈ E} w · x[i]` -/
def applyF {ι κ α : Type} [DecidableEq ι] [Add α] [Mul α] [Zero α]
    (E : List (ι × κ × α)) (x : κ → α) (o : ι) : α :=
  (E.map fun e => if e.1 = o then e.2.2 * x e.2.1 else 0).sum

/-- `⟨a, b⟩ = Σ_{i ∈ I} conj(a i) · b i` (numpy `vdot`) -/
def dotL {ι α : Type} [Add α] [Mul α] [Zero α] (conj : α → α) (I : List ι) (a b : ι → α) : α :=
  (I.map fun i => conj (a i) * b i).sum

/-- conjugate transpose of an entry list -/
def adjE {ι κ α : Type} (conj : α → α) (E : List (ι × κ × α)) : List (κ × ι × α) :=
  E.map fun e => (e.2.1, e.1, conj e.2.2)

/-- plain transpose (weights untouched) -/
def swapE {ι κ α : Type} (E : List (ι × κ × α)) : List (κ × ι × α) :=
  E.map fun e => (e.2.1, e.1, e.2.2)

/-- entrywise conjugate: the matrix of `x ↦ conj (A (conj x))` -/
def conjE {ι κ α : Type} (conj : α → α) (E : List (ι × κ × α)) : List (ι × κ × α) :=
  E.map fun e => (e.1, e.2.1, conj e.2.2)

/-- matrix product: all pairs of entries that meet on the middle index -/
def compE {ι κ μ α : Type} [DecidableEq κ] [Mul α]
    (A : List (ι × κ × α)) (B : List (κ × μ × α)) : List (ι × μ × α) :=
  A.flatMap fun a => B.filterMap fun b =>
    if a.2.1 = b.1 then some (a.1, b.2.1, a.2.2 * b.2.2) else none

abbrev Ent (α : Type) := Nat × Nat × α

/-- what an operator denotes: shapes and a flat (row-major) entry list -/
structure Sem (α : Type) where
  osh : List Int
  ish : List Int
  E : List (Ent α)

def Sem.osz {α} (s : Sem α) : Nat := (shapeProd s.osh).toNat
def Sem.isz {α} (s : Sem α) : Nat := (shapeProd s.ish).toNat

/-- keep the entries that lie inside an `n × m` matrix.  For valid operators this drops nothing
    (an out-of-range entry would be an IndexError in Python; the correspondence check compares the
    model's matrix with the implementation's, so a dropped entry cannot go unnoticed). -/
def inRangeE {α} (n m : Nat) (E : List (Ent α)) : List (Ent α) :=
  E.filter fun e => decide (e.1 < n ∧ e.2.1 < m)

def Sem.clip {α} (s : Sem α) : Sem α := ⟨s.osh, s.ish, inRangeE s.osz s.isz s.E⟩

def shapeOk (s : List Int) : Bool := s.all fun n => decide (0 < n)

/-! ### index helpers -/

def fl (shape idx : List Int) : Nat := (ravel shape idx).toNat

/-- entries of a gather: output multi-index `k` reads input multi-index `g k` (or nothing) -/
def gatherE {α} [One α] (osh ish : List Int) (g : List Int → Option (List Int)) : List (Ent α) :=
  (allIdx osh).filterMap fun k => (g k).map fun j => (fl osh k, fl ish j, (1 : α))

/-- entries read off a relabelling of `1..n` by an array function of the C09 model (0 = "stays zero") -/
def labelE {α} [One α] (n : Nat) (f : Array Nat → Array Nat) : List (Ent α) :=
  let y := f ((Array.range n).map (· + 1))
  (List.range y.size).filterMap fun o =>
    let l := y.getD o 0
    if l = 0 then none else some (o, l - 1, (1 : α))

def normAxes (axes : List Int) (ndim : Nat) : List Int := axes.map fun a => pyMod a ndim

def removeAxes (axes : List Int) (k : List Int) : List Int :=
  ((List.range k.length).zip k).filterMap fun (d, v) =>
    if axes.contains (d : Int) then none else some v

def getI (l : List Int) (k : Nat) : Int := l.getD k 0

/-! ### Python slices -/
structure PySlice where
  start : Option Int
  stop : Option Int
  step : Option Int

/-- `slice.indices(n)` + length: `(start, step, len)`; `none` for step 0 -/
def sliceNorm (n : Int) (s : PySlice) : Option (Int × Int × Int) :=
  let step := s.step.getD 1
  if step = 0 then none else
  let lower : Int := if step < 0 then -1 else 0
  let upper : Int := if step < 0 then n - 1 else n
  let clamp (v : Int) : Int :=
    let v' := if v < 0 then v + n else v
    if v' < 0 then lower else if v' ≥ n then upper else v'
  let start := match s.start with | none => (if step < 0 then n - 1 else 0) | some v => clamp v
  let stop := match s.stop with | none => (if step < 0 then -1 else n) | some v => clamp v
  let len : Int :=
    if step < 0 then (if stop < start then (start - stop - 1) / (-step) + 1 else 0)
    else (if start < stop then (stop - start - 1) / step + 1 else 0)
  some (start, step, len)

def fullSlice : PySlice := ⟨none, none, none⟩

/-- per-axis `(start, step, len)` of `x[idx]` for a tuple of slices (missing trailing axes are whole) -/
def sliceParams (shape : List Int) (idx : List PySlice) : Option (List (Int × Int × Int)) :=
  if idx.length > shape.length then none else
  (shape.zip (idx ++ List.replicate (shape.length - idx.length) fullSlice)).mapM
    fun (n, s) => sliceNorm n s

/-! ### spline kernel of `interp._spline_kernel` (orders 0, 1, 2) over ℚ -/
def splineKernel (x order : Rat) : Rat :=
  if ratAbs x > 1 then 0
  else if order = 0 then 1
  else if order = 1 then 1 - ratAbs x
  else if order = 2 then
    (if ratAbs x > 1 / 3 then 9 / 8 * (1 - ratAbs x) * (1 - ratAbs x) else 3 / 4 * (1 - 3 * x * x))
  else 0

/-! ### leaves: one constructor per operator class -/
inductive Leaf (α : Type) where
  | identity (shape : List Int)
  | reshape (osh ish : List Int)
  | transpose (ish : List Int) (axes : Option (List Int))
  | resize (osh ish : List Int) (ishift oshift : Option (List Int))
  | flip (shape : List Int) (axes : Option (List Int))
  | circshift (shape shifts : List Int) (axes : Option (List Int))
  | downsample (ish factors shift : List Int)
  | upsample (osh factors shift : List Int)
  | sum (ish axes : List Int)
  | tile (osh axes : List Int)
  | slice (ish : List Int) (idx : List PySlice)
  | embed (osh : List Int) (idx : List PySlice)
  | multiply (ish msh : List Int) (mult : List α) (cj : Bool)
  | matmul (ish msh : List Int) (mat : List α) (adjoint : Bool)
  | rmatmul (ish msh : List Int) (mat : List α) (adjoint : Bool)
  | a2b (ish blk str : List Int)
  | b2a (osh blk str : List Int)
  | interp (ish pts : List Int) (coord : List (List Rat)) (width param : Rat)
  | gridding (osh pts : List Int) (coord : List (List Rat)) (width param : Rat)
  /-- an operator class outside the exactly-representable set (FFT/IFFT, convolutions, wavelets, …),
      given by the entries `E` its `_apply` denotes and the entries `E'` the class returned by its
      `_adjoint_linop` denotes (`tag` names the class pair).  Never built by the driver protocol; used
      by Props/C01Ext.lean to bring leaf pairs proved by other properties under the tree theorems. -/
  | ext (tag : Nat) (osh ish : List Int) (E E' : List (Nat × Nat × α))

section sem
variable {α : Type} [Add α] [Mul α] [Zero α] [One α] (conj : α → α) (ofRat : Rat → α)

def idE (n : Nat) : List (Ent α) := (List.range n).map fun k => (k, k, (1 : α))

/-- `Transpose`: output axis `d` is input axis `axes[d]` -/
def transposeSem (ish : List Int) (axes : Option (List Int)) : Option (Sem α) :=
  let n := ish.length
  let ax : List Int := match axes with
    | none => (List.range n).reverse.map (fun (a : Nat) => (a : Int))
    | some a => normAxes a n
  if ax.length ≠ n ∨ ¬ (List.range n).all (fun (a : Nat) => ax.contains (a : Int)) then none else
  let osh := ax.map fun a => getI ish a.toNat
  some ⟨osh, ish, gatherE osh ish fun k =>
    some ((List.range n).map fun (a : Nat) => getI k (ax.idxOf (a : Int)))⟩

def sumSem (ish axes : List Int) : Sem α :=
  let ax := normAxes axes ish.length
  let osh := removeAxes ax ish
  ⟨osh, ish, (allIdx ish).map fun j => (fl osh (removeAxes ax j), fl ish j, (1 : α))⟩

def tileSem (osh axes : List Int) : Sem α :=
  let ax := normAxes axes osh.length
  let ish := removeAxes ax osh
  ⟨osh, ish, gatherE osh ish fun k => some (removeAxes ax k)⟩

def sliceSem (ish : List Int) (idx : List PySlice) : Option (Sem α) := do
  let ps ← sliceParams ish idx
  let osh := ps.map fun p => p.2.2
  pure ⟨osh, ish, gatherE osh ish fun k =>
    some ((ps.zip k).map fun (p, kk) => p.1 + kk * p.2.1)⟩

def bcast (shape k : List Int) : List Int :=
  (shape.zip k).map fun (n, kk) => if n = 1 then 0 else kk

def bshape (a b : List Int) : Option (List Int) :=
  (a.zip b).mapM fun (i, m) => if i = m ∨ i = 1 ∨ m = 1 then some (max i m) else none

def multiplySem (ish msh : List Int) (mult : List α) (cj : Bool) : Option (Sem α) := do
  let (ie, me) := C09.expandShapes ish msh
  let osh ← bshape ie me
  if mult.length ≠ (shapeProd msh).toNat then none
  pure ⟨osh, ish, (allIdx osh).map fun k =>
    let w := mult.getD (fl me (bcast me k)) 0
    (fl osh k, fl ie (bcast ie k), if cj then conj w else w)⟩

/-- `_get_multiply_adjoint_sum_axes` -/
def multiplySumAxes (osh ish msh : List Int) : List Int :=
  let (ie, me) := C09.expandShapes ish msh
  (List.range ie.length).filterMap fun d =>
    if getI ie d = 1 ∧ (getI me d ≠ 1 ∨ getI osh d ≠ 1) then some (d : Int) else none

/-- `_get_matmul_adjoint_sum_axes` (batch axes only) -/
def matmulSumAxes (osh ish msh : List Int) : List Int :=
  let (ie, me) := C09.expandShapes ish msh
  (List.range (ie.length - 2)).filterMap fun d =>
    if getI ie d = 1 ∧ (getI me d ≠ 1 ∨ getI osh d ≠ 1) then some (d : Int) else none

def swapLast2 (l : List Int) : List Int :=
  let n := l.length
  l.take (n - 2) ++ [getI l (n - 1), getI l (n - 2)]

/-- `MatMul` (`right = false`): `out[.., r, c] = Σ_t M'[.., r, t] · in[.., t, c]`;
    `RightMatMul` (`right = true`): `out[.., r, c] = Σ_t in[.., r, t] · M'[.., t, c]`;
    `M' = conj(M).swapaxes(-1,-2)` when `adjoint`. Batch axes broadcast. -/
def matmulSem (right : Bool) (ish msh : List Int) (mat : List α) (adjoint : Bool) : Option (Sem α) := do
  if ish.length < 2 ∨ msh.length < 2 then none
  if mat.length ≠ (shapeProd msh).toNat then none
  let (ie, me) := C09.expandShapes ish msh
  let n := ie.length
  let me' := if adjoint then swapLast2 me else me
  let ob ← bshape (ie.take (n - 2)) (me'.take (n - 2))
  let (i2, i1, m2, m1) := (getI ie (n - 2), getI ie (n - 1), getI me' (n - 2), getI me' (n - 1))
  if (if right then i1 ≠ m2 else m1 ≠ i2) then none
  let osh := ob ++ (if right then [i2, m1] else [m2, i1])
  let inner := if right then i1 else m1
  let mval (kb : List Int) (r c : Int) : α :=   -- M'[kb, r, c]
    let b := bcast (me.take (n - 2)) kb
    if adjoint then conj (mat.getD (fl me (b ++ [c, r])) 0) else mat.getD (fl me (b ++ [r, c])) 0
  pure ⟨osh, ish, (allIdx osh).flatMap fun k =>
    let kb := k.take (n - 2)
    let r := getI k (n - 2)
    let c := getI k (n - 1)
    let ib := bcast (ie.take (n - 2)) kb
    (pyRange0 inner).map fun t =>
      if right then (fl osh k, fl ie (ib ++ [r, t]), mval kb t c)
      else (fl osh k, fl ie (ib ++ [t, c]), mval kb r t)⟩

def blockShapes (ash blk str : List Int) : Option (List Int × List Int × List Int) :=
  let d := blk.length
  if d = 0 ∨ d > 3 ∨ str.length ≠ d ∨ ash.length < d then none else
  let lead := ash.take (ash.length - d)
  let nsh := ash.drop (ash.length - d)
  some (lead, nsh, C09.zip3With Gen.a2bNumBlks nsh blk str)

def updToEnt (dsh ssh : List Int) (E : List (Upd Rat)) : List (Ent α) :=
  E.map fun (d, s, w) => (fl dsh d, fl ssh s, ofRat w)

def a2bSem (ish blk str : List Int) : Option (Sem α) := do
  let (lead, nsh, nb) ← blockShapes ish blk str
  let batch := shapeProd lead
  let E ← C09.a2bEntries batch nsh blk str nb
  pure ⟨lead ++ nb ++ blk, ish, updToEnt ofRat ([batch] ++ nb ++ blk) ([batch] ++ nsh) E⟩

def b2aSem (osh blk str : List Int) : Option (Sem α) := do
  let (lead, nsh, _) ← blockShapes osh blk str
  let nb := C09.zip3With Gen.b2aNumBlks nsh blk str
  let batch := shapeProd lead
  let E ← C09.b2aEntries batch nsh blk str nb
  pure ⟨osh, lead ++ nb ++ blk, updToEnt ofRat ([batch] ++ nsh) ([batch] ++ nb ++ blk) E⟩

/-- grid shape split `batch ++ grid`, generated loop nest for `ndim = len(coord[0])` -/
def interpEntries (grid : Bool) (gsh pts : List Int) (coord : List (List Rat)) (width param : Rat) :
    Option (List Int × List Int × List Int × List (Upd Rat)) :=
  let nd := (coord.headD []).length
  if nd = 0 ∨ nd > 3 ∨ gsh.length < nd ∨ ¬ coord.all (fun c => c.length == nd)
      ∨ coord.length ≠ (shapeProd pts).toNat then none else
  let lead := gsh.take (gsh.length - nd)
  let g := gsh.drop (gsh.length - nd)
  let batch := shapeProd lead
  let gs := shapeFn ([batch] ++ g)
  let ps := shapeFn [batch, (coord.length : Int)]
  let cs := shapeFn [(coord.length : Int), (nd : Int)]
  let cf := fun i j => idx2 coord i j
  let wf := fun (_ : Int) => width
  let pf := fun (_ : Int) => param
  let E := match grid, nd with
    | false, 1 => Gen.interp1 splineKernel ps gs cs cf wf pf
    | false, 2 => Gen.interp2 splineKernel ps gs cs cf wf pf
    | false, _ => Gen.interp3 splineKernel ps gs cs cf wf pf
    | true, 1 => Gen.grid1 splineKernel gs ps cs cf wf pf
    | true, 2 => Gen.grid2 splineKernel gs ps cs cf wf pf
    | true, _ => Gen.grid3 splineKernel gs ps cs cf wf pf
  some (lead, [batch] ++ g, [batch, (coord.length : Int)], E)

def leafSem0 : Leaf α → Option (Sem α)
  | .identity sh => some ⟨sh, sh, idE (shapeProd sh).toNat⟩
  | .reshape osh ish =>
      if shapeProd osh = shapeProd ish then some ⟨osh, ish, idE (shapeProd ish).toNat⟩ else none
  | .transpose ish axes => transposeSem ish axes
  | .resize osh ish is' os' => some ⟨osh, ish, labelE (shapeProd ish).toNat (C09.resize ish osh is' os')⟩
  | .flip sh axes => some ⟨sh, sh, labelE (shapeProd sh).toNat (C09.flip sh axes)⟩
  | .circshift sh sf axes =>
      let n := (shapeProd sh).toNat
      match C09.circshift sh sf axes ((Array.range n).map (· + 1)) with
      | none => none
      | some _ => some ⟨sh, sh, labelE n fun x => (C09.circshift sh sf axes x).getD #[]⟩
  | .downsample ish f s =>
      if f.length ≠ ish.length ∨ s.length ≠ ish.length then none else
      let osh := C09.zip3With Gen.downsampleLen ish f s
      some ⟨osh, ish, labelE (shapeProd ish).toNat fun x => (C09.downsample ish f (some s) x).2⟩
  | .upsample osh f s =>
      if f.length ≠ osh.length ∨ s.length ≠ osh.length then none else
      let ish := C09.zip3With Gen.upsampleLen osh f s
      some ⟨osh, ish, labelE (shapeProd ish).toNat fun x => (C09.upsample osh f (some s) x).2⟩
  | .sum ish axes => some (sumSem ish axes)
  | .tile osh axes => some (tileSem osh axes)
  | .slice ish idx => sliceSem ish idx
  | .embed osh idx => (sliceSem (α := α) osh idx).map fun s => ⟨s.ish, s.osh, swapE s.E⟩
  | .multiply ish msh mult cj => multiplySem conj ish msh mult cj
  | .matmul ish msh mat adjoint => matmulSem conj false ish msh mat adjoint
  | .rmatmul ish msh mat adjoint => matmulSem conj true ish msh mat adjoint
  | .a2b ish blk str => a2bSem ofRat ish blk str
  | .b2a osh blk str => b2aSem ofRat osh blk str
  | .interp ish pts coord w p =>
      (interpEntries false ish pts coord w p).map fun (lead, gs, ps, E) =>
        ⟨lead ++ pts, ish, updToEnt ofRat ps gs E⟩
  | .gridding osh pts coord w p =>
      (interpEntries true osh pts coord w p).map fun (lead, gs, ps, E) =>
        ⟨osh, lead ++ pts, updToEnt ofRat gs ps E⟩
  | .ext _ osh ish E _ => some ⟨osh, ish, E⟩

/-- what a leaf denotes (entries clipped to the matrix, see `inRangeE`) -/
def leafSem (l : Leaf α) : Option (Sem α) := (leafSem0 conj ofRat l).map Sem.clip

/-! ### expression trees -/
inductive Expr (α : Type) where
  | leaf : Leaf α → Expr α
  | comp : Expr α → Expr α → Expr α
  | add : Expr α → Expr α → Expr α
  | conj : Expr α → Expr α
  | hstack : Option Int → Expr α → Expr α → Expr α
  | vstack : Option Int → Expr α → Expr α → Expr α
  | diag : Option Int → Option Int → Expr α → Expr α → Expr α

/-- shape of the concatenation of `a` and `b` along `axis` (`none`: both vectorised) and the
    normalised axis; `none` when ranks / other axes differ (`_hstack_params`, `_vstack_params`
    with the axis normalised as `_apply` does) -/
def catShape (axis : Option Int) (a b : List Int) : Option (List Int × Nat × List Int × List Int) :=
  match axis with
  | none => some ([shapeProd a + shapeProd b], 0, [shapeProd a], [shapeProd b])
  | some ax =>
    if a.length ≠ b.length ∨ a.length = 0 ∨ ax < -(a.length : Int) ∨ ax ≥ a.length then none else
    let d := (pyMod ax a.length).toNat
    if ((List.range a.length).all fun i => i = d ∨ getI a i = getI b i) then
      some ((List.range a.length).map (fun i => if i = d then getI a i + getI b i else getI a i), d, a, b)
    else none

/-- the selection `x[.., start : start+len, ..]` along axis `d` as a gather from `total` to `sub` -/
def subE (total sub : List Int) (d : Nat) (start : Int) : List (Ent α) :=
  gatherE sub total fun k =>
    some (((List.range k.length).zip k).map fun (i, kk) => if i = d then kk + start else kk)

/-- the two selections of a concatenation: (total shape, selection of part a, selection of part b) -/
def catParts (axis : Option Int) (a b : List Int) : Option (List Int × List (Ent α) × List (Ent α)) :=
  (catShape axis a b).map fun (tot, d, a', b') =>
    let n := (shapeProd tot).toNat
    (tot, inRangeE (shapeProd a).toNat n (subE tot a' d 0),
          inRangeE (shapeProd b).toNat n (subE tot b' d (getI a' d)))

def denote : Expr α → Option (Sem α)
  | .leaf l => leafSem conj ofRat l
  | .comp a b =>
      match denote a, denote b with
      | some sa, some sb => if sa.ish = sb.osh then some ⟨sa.osh, sb.ish, compE sa.E sb.E⟩ else none
      | _, _ => none
  | .add a b =>
      match denote a, denote b with
      | some sa, some sb =>
        if sa.ish = sb.ish ∧ sa.osh = sb.osh then some ⟨sa.osh, sa.ish, sa.E ++ sb.E⟩ else none
      | _, _ => none
  | .conj a =>
      match denote a with
      | some sa => some ⟨sa.osh, sa.ish, conjE conj sa.E⟩
      | none => none
  | .hstack ax a b =>   -- A·Sel_a + B·Sel_b
      match denote a, denote b with
      | some sa, some sb =>
        if sa.osh = sb.osh then
          match catParts ax sa.ish sb.ish with
          | some (tot, pa, pb) => some ⟨sa.osh, tot, compE sa.E pa ++ compE sb.E pb⟩
          | none => none
        else none
      | _, _ => none
  | .vstack ax a b =>   -- Sel_aᵀ·A + Sel_bᵀ·B
      match denote a, denote b with
      | some sa, some sb =>
        if sa.ish = sb.ish then
          match catParts ax sa.osh sb.osh with
          | some (tot, pa, pb) => some ⟨tot, sa.ish, compE (swapE pa) sa.E ++ compE (swapE pb) sb.E⟩
          | none => none
        else none
      | _, _ => none
  | .diag oax iax a b =>
      match denote a, denote b with
      | some sa, some sb =>
        match catParts iax sa.ish sb.ish, catParts oax sa.osh sb.osh with
        | some (itot, ia, ib), some (otot, oa, ob) =>
          some ⟨otot, itot, compE (swapE oa) (compE sa.E ia) ++ compE (swapE ob) (compE sb.E ib)⟩
        | _, _ => none
      | _, _ => none

def argsortInv (ax : List Int) : List Int :=
  (List.range ax.length).map fun (a : Nat) => ((ax.idxOf (a : Int) : Nat) : Int)

/-- `_adjoint_linop` of every leaf class -/
def adjLeaf : Leaf α → Expr α
  | .identity sh => .leaf (.identity sh)
  | .reshape osh ish => .leaf (.reshape ish osh)
  | .transpose ish axes =>
      match axes with
      | none => .leaf (.transpose ish.reverse none)
      | some a =>
        let ax := normAxes a ish.length
        .leaf (.transpose (ax.map fun d => getI ish d.toNat) (some (argsortInv ax)))
  | .resize osh ish is' os' => .leaf (.resize ish osh os' is')
  | .flip sh axes => .leaf (.flip sh axes)
  | .circshift sh sf axes => .leaf (.circshift sh (sf.map fun s => -s) axes)
  | .downsample ish f s => .leaf (.upsample ish f s)
  | .upsample osh f s => .leaf (.downsample osh f s)
  | .sum ish axes => .leaf (.tile ish (normAxes axes ish.length))
  | .tile osh axes => .leaf (.sum osh (normAxes axes osh.length))
  | .slice ish idx => .leaf (.embed ish idx)
  | .embed osh idx => .leaf (.slice osh idx)
  | .multiply ish msh mult cj =>
      let osh := ((C09.expandShapes ish msh).1.zip (C09.expandShapes ish msh).2).map fun (i, m) => max i m
      let sa := multiplySumAxes osh ish msh
      .comp (.leaf (.reshape ish (removeAxes sa osh)))
        (.comp (.leaf (.sum osh sa)) (.leaf (.multiply osh msh mult (!cj))))
  | .matmul ish msh mat adjoint =>
      match matmulSem (α := α) conj false ish msh mat adjoint with
      | none => .leaf (.matmul ish msh mat adjoint)   -- ill-formed: denotes nothing either way
      | some s =>
        let sa := matmulSumAxes s.osh ish msh
        match matmulSem (α := α) conj false s.osh msh mat (!adjoint) with
        | none => .leaf (.matmul ish msh mat adjoint)
        | some m =>
          .comp (.leaf (.reshape ish (removeAxes sa m.osh)))
            (.comp (.leaf (.sum m.osh sa)) (.leaf (.matmul s.osh msh mat (!adjoint))))
  | .rmatmul ish msh mat adjoint =>
      match matmulSem (α := α) conj true ish msh mat adjoint with
      | none => .leaf (.rmatmul ish msh mat adjoint)
      | some s =>
        let sa := matmulSumAxes s.osh ish msh
        match matmulSem (α := α) conj true s.osh msh mat (!adjoint) with
        | none => .leaf (.rmatmul ish msh mat adjoint)
        | some m =>
          .comp (.leaf (.reshape ish (removeAxes sa m.osh)))
            (.comp (.leaf (.sum m.osh sa)) (.leaf (.rmatmul s.osh msh mat (!adjoint))))
  | .a2b ish blk str => .leaf (.b2a ish blk str)
  | .b2a osh blk str => .leaf (.a2b osh blk str)
  | .interp ish pts coord w p => .leaf (.gridding ish pts coord w p)
  | .gridding osh pts coord w p => .leaf (.interp osh pts coord w p)
  | .ext t osh ish E E' => .leaf (.ext t ish osh E' E)

/-- `.H` -/
def adj : Expr α → Expr α
  | .leaf l => adjLeaf conj l
  | .comp a b => .comp (adj b) (adj a)
  | .add a b => .add (adj a) (adj b)
  | .conj a => .conj (adj a)
  | .hstack ax a b => .vstack ax (adj a) (adj b)
  | .vstack ax a b => .hstack ax (adj a) (adj b)
  | .diag oax iax a b => .diag iax oax (adj a) (adj b)

/-- `.N`: the `_normal_linop` overrides (Identity for the permutation-like classes) and the default
    `A.H * A` for everything else.  ArrayToBlocks / BlocksToArray use the default here: the Identity
    override of the pinned commit is wrong (Props/C04 `blocks_identity_wrong_witness`). -/
def normal : Expr α → Expr α
  | .leaf (.identity sh) => .leaf (.identity sh)
  | .leaf (.reshape _ ish) => .leaf (.identity ish)
  | .leaf (.transpose ish _) => .leaf (.identity ish)
  | .leaf (.circshift sh _ _) => .leaf (.identity sh)
  | e => .comp (adj conj e) e

end sem

/-- dense row-major matrix of an entry list -/
def toDense {α} [Add α] [Zero α] (n m : Nat) (E : List (Ent α)) : Option (Array α) :=
  E.foldlM (fun (M : Array α) (e : Ent α) =>
      if e.1 < n ∧ e.2.1 < m then
        let p := e.1 * m + e.2.1
        if h : p < M.size then some (M.set p (M[p] + e.2.2)) else none
      else none)
    (Array.replicate (n * m) 0)

end SigpyVerif.C01
