/-
  C14 base vocabulary: what the TRANSLATOR-GENERATED set-up definitions (`Gen/C14Setup.lean`, regenerated
  from `sigpy/app.py` on every check by `harness/translate/gen_c14.py`) are written in.

  * the operator algebra of `sigpy.linop` objects as function combinators (`opId` = `Identity`,
    `opN A AH` = `A.N`, `opAdd` = `+`, `opSmul c` = `c * Op`, `opNeg` = `-Op`, `opComp` = `Op * Op`,
    `opMul c` = `Multiply(shape, c)`, `opVstack`/`opHstack` = `Vstack([A, G])` and its adjoint on the
    product space `Pair W U`);
  * the prox objects of `sigpy.prox` the set-ups build, as a tree (`PD`: `NoOp`, the caller's `proxg`,
    `L2Reg(shape, lamda, y, proxh)`, `Conj(p)`; `PStack` = `Stack([p1, p2])`) with its evaluator
    (`Prox.__call__`, transcribed from sigpy/prox.py — the prox classes themselves are C11's subject);
  * the records of arguments handed to the four solver classes.

  Generic over the scalar type `S` and the vector types through core type classes only; executed over
  `Rat` by the driver and reasoned about over real inner-product spaces in `Props/C14.lean`.
  Core Lean only.
-/
namespace SigpyVerif.C14

/-! ## result of `_get_alg` (the generated decision function returns this) -/

/-- what `LinearLeastSquares._get_alg` does: calls `self._get_<name>()`, raises `ValueError`
    (tag = `<solver branch>:<attribute tested>` or `invalid`), or falls off the end. -/
inductive Out where
  | built (name : String)
  | raised (tag : String)
  | cont (solver : Option String)
  deriving DecidableEq, Repr

/-! ## product space of `Vstack([A, G])` (own type: no instance clash with Mathlib's `Prod`) -/

structure Pair (W U : Type) where
  fst : W
  snd : U

instance {W U : Type} [Add W] [Add U] : Add (Pair W U) := ⟨fun a b => ⟨a.fst + b.fst, a.snd + b.snd⟩⟩
instance {W U : Type} [Sub W] [Sub U] : Sub (Pair W U) := ⟨fun a b => ⟨a.fst - b.fst, a.snd - b.snd⟩⟩
instance {S W U : Type} [SMul S W] [SMul S U] : SMul S (Pair W U) := ⟨fun c a => ⟨c • a.fst, c • a.snd⟩⟩

theorem Pair.add_def {W U : Type} [Add W] [Add U] (a b : Pair W U) :
    a + b = ⟨a.fst + b.fst, a.snd + b.snd⟩ := rfl

theorem Pair.smul_def {S W U : Type} [SMul S W] [SMul S U] (c : S) (a : Pair W U) :
    c • a = ⟨c • a.fst, c • a.snd⟩ := rfl

section Ops
variable {S V W U : Type}

/-! ## operator algebra (`sigpy.linop`) -/

/-- `linop.Identity(shape)` -/
def opId : V → V := fun x => x
/-- `A.N` (= `A.H * A`) -/
def opN (A : V → W) (AH : W → V) : V → V := fun x => AH (A x)
/-- `Op + Op` (also what `Op += Op` does: linops have no in-place add) -/
def opAdd [Add W] (f g : V → W) : V → W := fun x => f x + g x
/-- `c * Op` -/
def opSmul [SMul S W] (c : S) (f : V → W) : V → W := fun x => c • f x
/-- `-Op` -/
def opNeg [Neg W] (f : V → W) : V → W := fun x => -(f x)
/-- `Op * Op` -/
def opComp (f : W → U) (g : V → W) : V → U := fun x => f (g x)
/-- `linop.Multiply(shape, c)` with a scalar `c` -/
def opMul [SMul S V] (c : S) : V → V := fun x => c • x
/-- `linop.Vstack([A, G])` -/
def opVstack (f : V → W) (g : V → U) : V → Pair W U := fun x => ⟨f x, g x⟩
/-- its adjoint `Hstack([A.H, G.H])` -/
def opHstack [Add V] (f : W → V) (g : U → V) : Pair W U → V := fun u => f u.fst + g u.snd

/-! ## prox descriptions (`sigpy.prox` objects the set-ups build) -/

/-- a tree of `sigpy.prox` objects on the space `V`; `user` is the caller's `proxg`;
    `l2reg lam y` = `L2Reg(shape, lam, y=y)`, `l2regThen lam y h` = `L2Reg(shape, lam, y=y, proxh=h)` -/
inductive PD (S V : Type) where
  | noop
  | user
  | l2reg (lam : S) (y : Option V)
  | l2regThen (lam : S) (y : Option V) (h : PD S V)
  | conj (p : PD S V)

/-- `prox.Stack([p1, p2])` on the product space -/
structure PStack (S W U : Type) where
  p1 : PD S W
  p2 : PD S U

variable [One S] [Add S] [Mul S] [Div S] [Add V] [Sub V] [SMul S V]

/-- `L2Reg._prox` before `proxh`: `output = input (+ lamda*alpha*y); output /= 1 + lamda*alpha` -/
def l2regOut (lam : S) (y : Option V) (a : S) (v : V) : V :=
  match y with
  | none => (1 / (1 + lam * a)) • v
  | some y => (1 / (1 + lam * a)) • (v + (lam * a) • y)

/-- `Prox.__call__(alpha, input)` of the tree -/
def PD.eval (user : S → V → V) : PD S V → S → V → V
  | .noop, _, v => v
  | .user, a, v => user a v
  | .l2reg lam y, a, v => l2regOut lam y a v
  | .l2regThen lam y h, a, v => h.eval user (a / (1 + lam * a)) (l2regOut lam y a v)
  | .conj p, a, v => v - a • p.eval user (1 / a) ((1 / a) • v)

/-- `Stack._prox`: blockwise (`userW`, `userU`: the caller's prox should it sit in that block) -/
def PStack.eval [Add W] [Sub W] [SMul S W] [Add U] [Sub U] [SMul S U]
    (userW : S → W → W) (userU : S → U → U) (p : PStack S W U) (a : S) (u : Pair W U) : Pair W U :=
  ⟨p.p1.eval userW a u.fst, p.p2.eval userU a u.snd⟩

end Ops

/-! ## what is handed to the solver classes -/

/-- the operator given to `MaxEig` (acting on the primal space `V` or on the dual space `D`), or none -/
inductive EigOp (V D : Type) where
  | primal (f : V → V)
  | dual (f : D → D)
  | none

/-- `ConjugateGradient(A, b, x, P=…)`: the system operator and the right-hand side -/
structure CgArgs (V : Type) where
  sys : V → V
  rhs : V

/-- `GradientMethod(gradf, x, alpha, proxg=…, accelerate=…)` (+ the operator given to `MaxEig`) -/
structure GmArgs (S V : Type) where
  gradf : V → V
  alpha : S
  eig : EigOp V V

/-- `PrimalDualHybridGradient(proxfc, proxg, A, AH, x, u, tau, sigma, gamma_primal=…, gamma_dual=…)`
    (+ the operator given to `MaxEig`); `D` is the dual space, `PF` the type of the dual prox description -/
structure PdhgArgs (S V D PF : Type) where
  proxfc : PF
  proxg : PD S V
  K : V → D
  KH : D → V
  tau : S
  sigma : S
  gammaP : S
  gammaD : S
  eig : EigOp V D

/-- `ADMM(minL_x, minL_v, x, v, u, A, B, c)`: the two closures as functions of the captured solver state
    `(x, v, u)` — `minL_x` by the arguments of the inner `ConjugateGradient`, `minL_v` by the new `v` —,
    the initial `v` as a function of `x`, and the constraint `A x + B v = c` -/
structure AdmmArgs (S V Z : Type) where
  minLx : V → Z → Z → CgArgs V
  minLv : V → Z → Z → Z
  v0 : V → Z
  A : V → Z
  B : Z → Z
  c : S

end SigpyVerif.C14
