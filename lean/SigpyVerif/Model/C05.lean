import SigpyVerif.Model.Py
import SigpyVerif.Model.C09
import SigpyVerif.Gen.Fourier
import SigpyVerif.Gen.UtilFormulas
/-
  C05 model: the matrix of `sigpy.fft / sigpy.ifft` as an exact table.

  An entry of the matrix (output multi-index `K`, input multi-index `J`) is either zero or
  `s · exp(2πi · φ)` with `φ ∈ ℚ ∩ [0,1)` (the *phase*) and `s² ∈ ℚ` (the *squared magnitude*).
  The table is computed THROUGH the code's pipeline: the list of array steps (`Gen.fftcSteps`, …) is
  regenerated from `sigpy/fourier.py` on every run and interpreted here, one axis at a time:

    * steps before the transform move the input index forward (`resize`: C09's centre pad/crop,
      transposed; `ifftshift/fftshift`: numpy.roll by `-(n//2)` / `n//2`, destination form);
    * steps after the transform are followed backwards from the output index (source form);
    * the transform itself contributes the plain DFT exponent `p·m mod n` (numpy contract:
      `fftn` = `Σ_m a[m] e^{-2πi p m / n}`, `ifftn` the conjugate with `1/n`, `norm="ortho"` = `1/√n` each).

  Hand-written (numpy contract): the roll amounts of `ifftshift/fftshift`, the DFT exponent and the
  scale table, numpy's own normalisation of negative axes in the uncentred branch.  Everything else
  (step order, which arguments are passed on, `a % ndim`, resize shift formulas, cast dtype) is generated.
-/
namespace SigpyVerif.C05
open SigpyVerif

/-- `numpy.roll` contract, destination form: `in[j]` lands at `out[(j + s) mod n]`
    (source form is `C09.rollSrc`: `out[k] = in[(k - s) mod n]`). -/
def rollDst (n s j : Int) : Int := pyMod (j + s) n

/-- `numpy.fft.ifftshift` rolls an axis of length `n` by `-(n // 2)` -/
def ifftshiftAmt (n : Int) : Int := -(pyDiv n 2)
/-- `numpy.fft.fftshift` rolls an axis of length `n` by `n // 2` -/
def fftshiftAmt (n : Int) : Int := pyDiv n 2

/-- the closed per-axis exponent of the documented centred pipeline (`ifftshift → DFT → fftshift`):
    output `k` reads DFT bin `rollSrc`, input `j` sits at DFT position `rollDst`. -/
def axisExp (n : Int) (center : Bool) (k j : Int) : Int :=
  if center then pyMod (C09.rollSrc n (fftshiftAmt n) k * rollDst n (ifftshiftAmt n) j) n
  else pyMod (k * j) n

/-! ### interpreting the generated step list -/

def isMove : Gen.FStep → Bool
  | .fftn _ => false
  | .ifftn _ => false
  | _ => true

structure Pipe where
  pre : List Gen.FStep
  inverse : Bool
  normPassed : Bool
  post : List Gen.FStep
  deriving DecidableEq, Repr

/-- exactly one transform, at most one resize -/
def mkPipe (steps : List Gen.FStep) : Option Pipe :=
  if (steps.filter (· == .resize)).length > 1 then none else
  match steps.span isMove with
  | (pre, .fftn np :: post) => if post.all isMove then some ⟨pre, false, np, post⟩ else none
  | (pre, .ifftn np :: post) => if post.all isMove then some ⟨pre, true, np, post⟩ else none
  | _ => none

/-- length of the axis after the steps (only `resize` changes it) -/
def lenAfter (steps : List Gen.FStep) (i o : Int) : Int :=
  if steps.any (· == .resize) then o else i

/-- follow input position `j` of an axis of current length `len` through one step
    (`tr`: the axis is one of the transformed axes; shifts act only on those). `o` = requested length. -/
def moveFwd (tr : Bool) (o : Int) (s : Int × Int) : Gen.FStep → Option (Int × Int)
  | .resize =>
      -- transposed resize relation (Props.C09.resize_transpose): where does input index j land?
      (C09.resizeSrc1 o s.2 (Gen.resizeOshiftDefault s.2 o) (Gen.resizeIshiftDefault s.2 o) s.1).map (·, o)
  | .ifftshift => some (if tr then rollDst s.2 (ifftshiftAmt s.2) s.1 else s.1, s.2)
  | .fftshift => some (if tr then rollDst s.2 (fftshiftAmt s.2) s.1 else s.1, s.2)
  | _ => some s

/-- follow output position `k` backwards through one step; `nIn` = the length before a resize -/
def moveBwd (tr : Bool) (nIn : Int) (s : Int × Int) : Gen.FStep → Option (Int × Int)
  | .resize =>
      (C09.resizeSrc1 nIn s.2 (Gen.resizeIshiftDefault nIn s.2) (Gen.resizeOshiftDefault nIn s.2) s.1).map (·, nIn)
  | .ifftshift => some (if tr then C09.rollSrc s.2 (ifftshiftAmt s.2) s.1 else s.1, s.2)
  | .fftshift => some (if tr then C09.rollSrc s.2 (fftshiftAmt s.2) s.1 else s.1, s.2)
  | _ => some s

def foldSteps (f : Int × Int → Gen.FStep → Option (Int × Int)) : List Gen.FStep → Int × Int → Option (Int × Int)
  | [], s => some s
  | st :: rest, s => (f s st).bind (foldSteps f rest)

/-- one axis, integers only: `some (p, m, n)` = output `k` reads transform bin `p`, input `j` sits at
    transform position `m`, transform length `n`; `none` = input `j` is cropped away / output `k` is padding -/
def axisIdx (P : Pipe) (tr : Bool) (i o k j : Int) : Option (Int × Int × Int) :=
  let n := lenAfter P.pre i o
  match foldSteps (moveFwd tr o) P.pre (j, i),
        foldSteps (moveBwd tr n) P.post.reverse (k, lenAfter (P.pre ++ P.post) i o) with
  | some (m, _), some (p, _) => some (p, m, n)
  | _, _ => none

def frac (x : Rat) : Rat := x - (x.floor : Rat)

/-- squared scale of one transformed axis of length `n` -/
def scale2 (inverse ortho : Bool) (n : Int) : Rat :=
  if ortho then 1 / (n : Rat) else if inverse then 1 / ((n : Rat) * (n : Rat)) else 1

/-- signed exponent of one transformed axis: the entry is `ω^e`, `ω = exp(2πi/n)` -/
def signedExp (inverse : Bool) (p m n : Int) : Int :=
  pyMod ((if inverse then 1 else -1) * pyMod (p * m) n) n

/-- one axis: `none` = zero entry, `some (phase, mag²)` -/
def axisEntry (P : Pipe) (ortho tr : Bool) (i o k j : Int) : Option (Rat × Rat) :=
  match axisIdx P tr i o k j with
  | none => none
  | some (p, m, n) =>
    if tr then
      some (((signedExp P.inverse p m n : Int) : Rat) / (n : Rat), scale2 P.inverse (ortho && P.normPassed) n)
    else if p = m then some (0, 1) else none

/-- all axes: phases add (mod 1), squared magnitudes multiply; a zero factor makes the entry zero -/
def entryGo (P : Pipe) (ortho : Bool) (axes : List Int) :
    Nat → List Int → List Int → List Int → List Int → Option (Rat × Rat)
  | d, i :: is, o :: os, k :: ks, j :: js =>
    match axisEntry P ortho (axes.contains (d : Int)) i o k j, entryGo P ortho axes (d + 1) is os ks js with
    | some (ph, mg), some (ph', mg') => some (frac (ph + ph'), mg * mg')
    | _, _ => none
  | _, [], [], [], [] => some (0, 1)
  | _, _, _, _, _ => none

def entry (P : Pipe) (ortho : Bool) (axes ish osh k j : List Int) : Option (Rat × Rat) :=
  entryGo P ortho axes 0 ish osh k j

/-! ### the functions `fft` / `ifft` -/

inductive Err | unsupported | badPipeline
  deriving DecidableEq, Repr

/-- `-ndim ≤ a < ndim` and distinct after normalisation (the property's domain: axes *subsets*) -/
def axesOk (axes : List Int) (ndim : Int) : Bool :=
  axes.all (fun a => decide (-ndim ≤ a ∧ a < ndim)) &&
  ((axes.map fun a => pyMod a ndim).eraseDups.length == axes.length)

/-- normalised axes: centred = `util._normalize_axes` (`Gen.normAxis`; its `sorted` is immaterial for
    a set of axes), uncentred = numpy's own normalisation (`a + ndim` for negative `a`). -/
def normAxes (center : Bool) (axes : Option (List Int)) (ndim : Int) : List Int :=
  match axes with
  | none => pyRange0 ndim
  | some a => if center then a.map (Gen.normAxis · ndim) else a.map fun x => if x < 0 then x + ndim else x

def steps (inverse center : Bool) : List Gen.FStep :=
  match inverse, center with
  | false, true => Gen.fftcSteps
  | true, true => Gen.ifftcSteps
  | false, false => Gen.fftUncSteps
  | true, false => Gen.ifftUncSteps

structure Cfg where
  inverse : Bool
  center : Bool
  ortho : Bool
  ishape : List Int
  oshape : Option (List Int)
  axes : Option (List Int)

/-- output shape and a function giving the matrix entry -/
def table (c : Cfg) : Except Err (List Int × (List Int → List Int → Option (Rat × Rat))) :=
  let nd : Int := c.ishape.length
  if c.ishape.any (· < 1) then .error .unsupported else
  if !(match c.axes with | none => true | some a => axesOk a nd) then .error .unsupported else
  if !c.center && c.oshape.isSome then .error .unsupported else   -- property: oshape only when centred
  let osh := c.oshape.getD c.ishape
  if osh.length ≠ c.ishape.length || osh.any (· < 1) then .error .unsupported else
  match mkPipe (steps c.inverse c.center) with
  | none => .error .badPipeline
  | some P =>
    let ax := normAxes c.center c.axes nd
    let outShape := List.zipWith (fun i o => lenAfter (P.pre ++ P.post) i o) c.ishape osh
    .ok (outShape, fun k j => entry P c.ortho ax c.ishape osh k j)

/-- one column of the matrix: the image of the basis vector at input multi-index `j` -/
def column (c : Cfg) (j : List Int) : Except Err (List Int × List (Option (Rat × Rat))) :=
  (table c).map fun (sh, f) => (sh, (allIdx sh).map fun k => f k j)

/-- result dtype: complex inputs keep their dtype, everything else becomes the generated cast dtype -/
def outDtype (inverse : Bool) : Gen.DT → Gen.DT
  | .complex64 => .complex64
  | .complex128 => .complex128
  | .other => if inverse then Gen.ifftRealCast else Gen.fftRealCast

end SigpyVerif.C05
