import SigpyVerif.Model.Py
import SigpyVerif.Model.Apply
import SigpyVerif.Model.C07Py
import SigpyVerif.Gen.Interp
import SigpyVerif.Gen.InterpKernels
import SigpyVerif.Gen.InterpWrappers
/-
  C07 model: `interp.interpolate` / `interp.gridding`.

  * the six numba loop nests are `Gen.interp1..3` / `Gen.grid1..3` (regenerated from sigpy/interp.py on
    every run) — update lists `(dst, src, weight)` over `Rat` coordinates / widths / params and an
    abstract kernel `K : Rat → Rat → Rat`;
  * the spline kernel is `Gen.splineKernel` (regenerated from `_spline_kernel`);
  * the Python wrappers are `Gen.interpolateW` / `Gen.griddingW` (regenerated from the bodies of
    `interpolate` / `gridding` on every run, statement by statement: `ndim`, `batch_shape`, `batch_size`,
    `pts_shape`, `npts`, the three reshapes, the `np.isscalar` broadcasting of `width` / `param`, the dispatch
    `TABLE[kernel][ndim - 1]`, the argument order of the kernel call, the result reshape); the Python list
    semantics they are written in is `Model/C07Py.lean`.  What is written by hand below is only: the domain guard
    (`1 ≤ ndim ≤ 3`, `ndim ≤ rank`), the check that the recorded reshapes are legal, and the application of
    the update list to the data (`applyC` → `applyUpd`, linked to the function-level semantics `runUpd`
    by `applyUpd_eq_runUpd`, Lemmas/C07Apply.lean).  `Props/C07Wrap.lean` proves that the generated wrappers
    compute `batch ++ pts`-shaped results from the D-dimensional loop nest on the flattened problem
    with `width` / `param` broadcast (`wrapper_spec`, `gridding_wrapper_spec`).
  * the Kaiser–Bessel kernel involves sqrt/exp and has no `Rat` model: for it the driver emits the update
    list with the *kernel arguments* `u_d = (i_d - c_d)/(W_d/2)` instead of weights (`tagKernel`), and the
    harness multiplies the real `_kaiser_bessel_kernel` values — so windows, wrap, axis pairing and
    accumulation are still compared exactly.
-/
namespace SigpyVerif.C07
open SigpyVerif

/-- execution aid: with `param[-d] = d` this kernel returns the kernel argument on axis `k` and 1 on the
    other axes, so the product weight of an update is exactly `u_k`. -/
def tagKernel (k : Rat) : Rat → Rat → Rat := fun u p => if p = k then u else 1

/-- `param` list that tags axis `-d` with the number `d` -/
def tagParam (ndim : Nat) : List Rat := (List.range ndim).map fun (i : Nat) => (((ndim - i : Nat) : Int) : Rat)

/-- transposition of one update -/
def swapUpd {α} (u : Upd α) : Upd α := (u.2.1, u.1, u.2.2)

/-- apply an update list to complex data (real weights: real and imaginary parts separately) -/
def applyC (acc : Bool) (oshape ishape : List Int) (E : List (Upd Rat)) (x : Array (Rat × Rat)) :
    Option (Array (Rat × Rat)) := do
  let re ← applyUpd (· * ·) acc oshape ishape E (x.map (·.1))
  let im ← applyUpd (· * ·) acc oshape ishape E (x.map (·.2))
  pure (re.zip im)

/-- the domain of the property: `coord.shape[-1] = ndim ∈ {1,2,3}` and the grid-side array has at least
    `ndim` axes.  `gshape` = `input.shape` of interpolate / `shape` of gridding, `cshape` = `coord.shape`. -/
def domainOk (gshape cshape : List Int) : Bool :=
  match cshape.getLast? with
  | none => false
  | some nd => decide (1 ≤ nd ∧ nd ≤ 3 ∧ nd ≤ (gshape.length : Int))

/-- every `reshape` the wrapper performs is legal (same number of elements) -/
def reshapesOk (w : Wrapped) : Bool := w.reshapes.all fun r => (pyReshape r.1 r.2).isSome

/-- `interp.interpolate(input, coord, 'spline'-like kernel K, width, param)` on flat row-major data:
    the generated wrapper `Gen.interpolateW` + application of its update list -/
def interpolate (K : Rat → Rat → Rat) (ishape cshape : List Int) (coord : List Rat) (width param : Bc)
    (x : Array (Rat × Rat)) : Option (List Int × Array (Rat × Rat)) := do
  if !domainOk ishape cshape then none
  let w ← Gen.interpolateW K ishape cshape coord width param
  if !reshapesOk w then none
  let y ← applyC w.acc w.oshape w.ishape w.entries x
  pure (w.resultShape, y)

/-- `interp.gridding(input, coord, shape, K, width, param)` on flat row-major data (`input.shape` is only used
    for the legality of `input.reshape([batch_size, npts])`: the flat length is passed) -/
def gridding (K : Rat → Rat → Rat) (oshape cshape : List Int) (coord : List Rat) (width param : Bc)
    (x : Array (Rat × Rat)) : Option (List Int × Array (Rat × Rat)) := do
  if !domainOk oshape cshape then none
  let w ← Gen.griddingW K [(x.size : Int)] cshape oshape coord width param
  if !reshapesOk w then none
  let y ← applyC w.acc w.oshape w.ishape w.entries x
  pure (w.resultShape, y)

/-- update lists of the flattened problem, for matrix comparison -/
def entries (isGrid : Bool) (K : Rat → Rat → Rat) (gshape cshape : List Int) (coord : List Rat)
    (width param : Bc) : Option (List (Upd Rat) × Bool) := do
  if !domainOk gshape cshape then none
  let w ← if isGrid then Gen.griddingW K [] cshape gshape coord width param
          else Gen.interpolateW K gshape cshape coord width param
  pure (w.entries, w.acc)

/-- kernel arguments per update: for each axis tag `d = 1..ndim` the list of `u_d`, in update order -/
def entriesTagged (isGrid : Bool) (gshape cshape : List Int) (coord : List Rat) (width : Bc) :
    Option (List (List Int × List Int × List Rat)) := do
  let nd ← cshape.getLast?
  let ndim := nd.toNat
  let runs ← (List.range ndim).mapM fun (d : Nat) =>
    entries isGrid (tagKernel (((d + 1 : Nat) : Int) : Rat)) gshape cshape coord width (.perAxis (tagParam ndim))
  let arrs := runs.map fun (E, _) => E.toArray
  match arrs with
  | [] => none
  | E0 :: _ =>
    pure ((List.range E0.size).map fun n =>
      match E0[n]? with
      | some (d, s, _) => (d, s, arrs.map fun E => match E[n]? with | some (_, _, w) => w | none => 0)
      | none => ([], [], []))

end SigpyVerif.C07
