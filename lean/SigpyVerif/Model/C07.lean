import SigpyVerif.Model.Py
import SigpyVerif.Model.Apply
import SigpyVerif.Gen.Interp
import SigpyVerif.Gen.InterpKernels
/-
  C07 model: `interp.interpolate` / `interp.gridding`.

  * the six numba loop nests are `Gen.interp1..3` / `Gen.grid1..3` (regenerated from sigpy/interp.py on
    every run) — update lists `(dst, src, weight)` over `Rat` coordinates / widths / params and an
    abstract kernel `K : Rat → Rat → Rat`;
  * the spline kernel is `Gen.splineKernel` (regenerated from `_spline_kernel`);
  * the Python wrappers (batch flattening, scalar vs per-axis `width` / `param` broadcasting, reshape of
    the result) are written by hand below and tied to the code by the correspondence check;
  * the Kaiser–Bessel kernel involves sqrt/exp and has no `Rat` model: for it the driver emits the update
    list with the *kernel arguments* `u_d = (i_d - c_d)/(W_d/2)` instead of weights (`tagKernel`), and the
    harness multiplies the real `_kaiser_bessel_kernel` values — so windows, wrap, axis pairing and
    accumulation are still compared exactly.
-/
namespace SigpyVerif.C07
open SigpyVerif

/-- `width` / `param` argument: a Python scalar is replicated `ndim` times, a sequence is taken as is -/
inductive Bc where
  | scalar (v : Rat)
  | perAxis (l : List Rat)

def Bc.toList (ndim : Nat) : Bc → List Rat
  | .scalar v => List.replicate ndim v
  | .perAxis l => l

/-- execution aid: with `param[-d] = d` this kernel returns the kernel argument on axis `k` and 1 on the
    other axes, so the product weight of an update is exactly `u_k`. -/
def tagKernel (k : Rat) : Rat → Rat → Rat := fun u p => if p = k then u else 1

/-- `param` list that tags axis `-d` with the number `d` -/
def tagParam (ndim : Nat) : List Rat := (List.range ndim).map fun (i : Nat) => (((ndim - i : Nat) : Int) : Rat)

/-- transposition of one update -/
def swapUpd {α} (u : Upd α) : Upd α := (u.2.1, u.1, u.2.2)

/-- split a flat list into rows of length `n` -/
def rows {α} (n : Nat) (l : List α) : List (List α) :=
  if n = 0 then [] else
    (List.range (l.length / n)).map fun r => (l.drop (r * n)).take n

/-- the generated interpolation loop nest for `ndim` ∈ {1,2,3} on flattened arguments
    (`output = zeros([batch, npts])`, `input.reshape([batch] + grid)`, `coord.reshape([npts, ndim])`). -/
def interpEntries (K : Rat → Rat → Rat) (ndim : Nat) (batch : Int) (grid : List Int) (npts : Int)
    (coord : List (List Rat)) (width param : List Rat) : Option (List (Upd Rat) × Bool) :=
  let osh := shapeFn [batch, npts]
  let ish := shapeFn (batch :: grid)
  let csh := shapeFn [npts, (ndim : Int)]
  match ndim with
  | 1 => some (Gen.interp1 K osh ish csh (idx2 coord) (idx1 width) (idx1 param), Gen.interp1_accumulates)
  | 2 => some (Gen.interp2 K osh ish csh (idx2 coord) (idx1 width) (idx1 param), Gen.interp2_accumulates)
  | 3 => some (Gen.interp3 K osh ish csh (idx2 coord) (idx1 width) (idx1 param), Gen.interp3_accumulates)
  | _ => none

/-- the generated gridding loop nest (`output = zeros([batch] + grid)`, `input.reshape([batch, npts])`) -/
def gridEntries (K : Rat → Rat → Rat) (ndim : Nat) (batch : Int) (grid : List Int) (npts : Int)
    (coord : List (List Rat)) (width param : List Rat) : Option (List (Upd Rat) × Bool) :=
  let ish := shapeFn [batch, npts]
  let osh := shapeFn (batch :: grid)
  let csh := shapeFn [npts, (ndim : Int)]
  match ndim with
  | 1 => some (Gen.grid1 K osh ish csh (idx2 coord) (idx1 width) (idx1 param), Gen.grid1_accumulates)
  | 2 => some (Gen.grid2 K osh ish csh (idx2 coord) (idx1 width) (idx1 param), Gen.grid2_accumulates)
  | 3 => some (Gen.grid3 K osh ish csh (idx2 coord) (idx1 width) (idx1 param), Gen.grid3_accumulates)
  | _ => none

/-- what the wrappers compute from the shapes: (ndim, batch shape, grid shape, pts shape) -/
structure Geom where
  ndim : Nat
  batchShape : List Int
  grid : List Int
  ptsShape : List Int
  batch : Int
  npts : Int

/-- `gshape` = full grid-side array shape (`input.shape` of interpolate, `shape` of gridding),
    `cshape` = `coord.shape`. -/
def geom (gshape cshape : List Int) : Option Geom :=
  match cshape.getLast? with
  | none => none
  | some nd =>
    if nd < 1 ∨ nd > 3 ∨ (gshape.length : Int) < nd then none else
    let ndim := nd.toNat
    let bs := gshape.take (gshape.length - ndim)
    let ps := cshape.dropLast
    some { ndim := ndim, batchShape := bs, grid := gshape.drop (gshape.length - ndim), ptsShape := ps,
           batch := shapeProd bs, npts := shapeProd ps }

/-- apply an update list to complex data (real weights: real and imaginary parts separately) -/
def applyC (acc : Bool) (oshape ishape : List Int) (E : List (Upd Rat)) (x : Array (Rat × Rat)) :
    Option (Array (Rat × Rat)) := do
  let re ← applyUpd (· * ·) acc oshape ishape E (x.map (·.1))
  let im ← applyUpd (· * ·) acc oshape ishape E (x.map (·.2))
  pure (re.zip im)

/-- `interp.interpolate(input, coord, 'spline'-like kernel K, width, param)` on flat row-major data -/
def interpolate (K : Rat → Rat → Rat) (ishape cshape : List Int) (coord : List Rat) (width param : Bc)
    (x : Array (Rat × Rat)) : Option (List Int × Array (Rat × Rat)) := do
  let g ← geom ishape cshape
  let (E, acc) ← interpEntries K g.ndim g.batch g.grid g.npts (rows g.ndim coord)
    (width.toList g.ndim) (param.toList g.ndim)
  let y ← applyC acc [g.batch, g.npts] (g.batch :: g.grid) E x
  pure (g.batchShape ++ g.ptsShape, y)

/-- `interp.gridding(input, coord, shape, K, width, param)` on flat row-major data -/
def gridding (K : Rat → Rat → Rat) (oshape cshape : List Int) (coord : List Rat) (width param : Bc)
    (x : Array (Rat × Rat)) : Option (List Int × Array (Rat × Rat)) := do
  let g ← geom oshape cshape
  let (E, acc) ← gridEntries K g.ndim g.batch g.grid g.npts (rows g.ndim coord)
    (width.toList g.ndim) (param.toList g.ndim)
  let y ← applyC acc (g.batch :: g.grid) [g.batch, g.npts] E x
  pure (oshape, y)

/-- update lists of the flattened problem, for matrix comparison -/
def entries (isGrid : Bool) (K : Rat → Rat → Rat) (gshape cshape : List Int) (coord : List Rat)
    (width param : Bc) : Option (List (Upd Rat) × Bool) := do
  let g ← geom gshape cshape
  (if isGrid then gridEntries else interpEntries) K g.ndim g.batch g.grid g.npts (rows g.ndim coord)
    (width.toList g.ndim) (param.toList g.ndim)

/-- kernel arguments per update: for each axis tag `d = 1..ndim` the list of `u_d`, in update order -/
def entriesTagged (isGrid : Bool) (gshape cshape : List Int) (coord : List Rat) (width : Bc) :
    Option (List (List Int × List Int × List Rat)) := do
  let g ← geom gshape cshape
  let runs ← (List.range g.ndim).mapM fun (d : Nat) =>
    entries isGrid (tagKernel (((d + 1 : Nat) : Int) : Rat)) gshape cshape coord width (.perAxis (tagParam g.ndim))
  let arrs := runs.map fun (E, _) => E.toArray
  match arrs with
  | [] => none
  | E0 :: _ =>
    pure ((List.range E0.size).map fun n =>
      match E0[n]? with
      | some (d, s, _) => (d, s, arrs.map fun E => match E[n]? with | some (_, _, w) => w | none => 0)
      | none => ([], [], []))

end SigpyVerif.C07
