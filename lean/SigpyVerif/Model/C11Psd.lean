import SigpyVerif.Model.C11
/-
  C11 — executable instance of `thresh.psd_proj` over exact Gaussian rationals (core Lean only).

  The generated body `Gen.Prox.psdProjWith ops eigh input` is run with `ops = cqOps` (the `PsdOps` operations on
  `Array (Array CQ)`, eigenvalues `Array Rat`) and with `eigh` replaced by spectral data `(w, V)` supplied in the
  request.  The request is accepted only when the data satisfy the contract *exactly*:
  `Vᴴ V = I` and `V diag(w) Vᴴ = psdEighArg input` (rational equality) — the hypothesis `EighContract` of
  `Props/C11Psd.lean: psd_proj_prox`, under which the value returned here is *the* projection (unique, so it
  does not depend on which eigenbasis numpy's `eigh` picks) and can be compared with the real `psd_proj`.
-/
namespace SigpyVerif.C11
open SigpyVerif SigpyVerif.Gen.Prox

abbrev CMat := Array (Array CQ)

def cadd (a b : CQ) : CQ := (a.1 + b.1, a.2 + b.2)
def cconj (a : CQ) : CQ := (a.1, -a.2)

def matT (A : CMat) : CMat :=
  let nc := (A[0]?.map Array.size).getD 0
  (Array.range nc).map fun j => A.map fun row => row[j]!

def matMul (A B : CMat) : CMat :=
  let Bt := matT B
  A.map fun row => Bt.map fun col =>
    (Array.zipWith cmul row col).foldl cadd (0, 0)

/-- the numpy operations of `PsdOps` on exact arrays -/
def cqOps : PsdOps Rat CMat (Array Rat) where
  add A B := Array.zipWith (fun r s => Array.zipWith cadd r s) A B
  conj A := A.map (·.map cconj)
  transpose := matT
  divNat A k := A.map (·.map fun z => (z.1 / (k : Rat), z.2 / (k : Rat)))
  matmul := matMul
  mulCols A w := A.map fun row => Array.zipWith (fun z (x : Rat) => (z.1 * x, z.2 * x)) row w
  mapW f w := w.map f

def isSquare (A : CMat) (n : Nat) : Bool := A.size == n && A.all (·.size == n)

def identity (n : Nat) : CMat :=
  (Array.range n).map fun i => (Array.range n).map fun j => if i = j then ((1 : Rat), (0 : Rat)) else (0, 0)

/-- `psd_proj(input)` with `eigh ↦ (w, V)`; `contract` when `(w, V)` is not an exact spectral decomposition of the
    matrix the code passes to `eigh` -/
def psdProjQ (n : Nat) (input V : CMat) (w : Array Rat) : Except String CMat :=
  if !(isSquare input n && isSquare V n && w.size == n) then .error "shape" else
  let A := psdEighArg cqOps input
  if cqOps.matmul (cqOps.transpose (cqOps.conj V)) V != identity n then .error "contract" else
  if cqOps.matmul (cqOps.mulCols V w) (cqOps.transpose (cqOps.conj V)) != A then .error "contract" else
  .ok (psdProjWith cqOps (fun _ => (w, V)) input)

end SigpyVerif.C11
