import SigpyVerif.Model.Py
import SigpyVerif.Model.Apply
import SigpyVerif.Gen.Block
import SigpyVerif.Gen.UtilFormulas
import SigpyVerif.Gen.LinopFormulas
/-
  C09 model: index maps of util.resize / flip / circshift / downsample / upsample and the block
  functions.  Integer formulas and the block loop nests come from `Gen.*` (regenerated from the
  source on every run); the numpy slicing / `roll` semantics are written by hand (numpy contract).
  Every function returns, for each output position in row-major order, where it reads from.
-/
namespace SigpyVerif.C09
open SigpyVerif

/-- `util._expand_shapes` for two shapes: left-pad with ones to a common rank -/
def expandShapes (a b : List Int) : List Int × List Int :=
  let n := max a.length b.length
  (List.replicate (n - a.length) 1 ++ a, List.replicate (n - b.length) 1 ++ b)

/-- one axis of `util.resize`: output index `k` reads input index `k - so + si` inside the copy
    window `so ≤ k < so + c`, `c = min (i - si) (o - so)`; `none` = stays zero. -/
def resizeSrc1 (i o si so k : Int) : Option Int :=
  let c := Gen.resizeCopyLen i si o so
  if so ≤ k ∧ k < so + c then some (k - so + si) else none

def zip3With {α β γ δ} (f : α → β → γ → δ) : List α → List β → List γ → List δ
  | a :: as, b :: bs, c :: cs => f a b c :: zip3With f as bs cs
  | _, _, _ => []

/-- source multi-index of output multi-index `k` (all axes must be inside their windows) -/
def resizeSrc (ish osh ishift oshift k : List Int) : Option (List Int) :=
  let rec go : List Int → List Int → List Int → List Int → List Int → Option (List Int)
    | i :: is, o :: os, si :: sis, so :: sos, k :: ks => do
        let j ← resizeSrc1 i o si so k
        let js ← go is os sis sos ks
        pure (j :: js)
    | [], [], [], [], [] => some []
    | _, _, _, _, _ => none
  go ish osh ishift oshift k

/-- `util.resize` on a flat row-major input; `ishift/oshift = none` means the Python default -/
def resize {α} [Zero α] (ishape oshape : List Int) (ishift oshift : Option (List Int)) (x : Array α) :
    Array α :=
  let (ish, osh) := expandShapes ishape oshape
  if ish == osh then x   -- the code's early return: `input.reshape(oshape)`
  else
    let si := ishift.getD (List.zipWith Gen.resizeIshiftDefault ish osh)
    let so := oshift.getD (List.zipWith Gen.resizeOshiftDefault ish osh)
    ((allIdx osh).map fun k =>
      match resizeSrc ish osh si so k with
      | some j => x.getD (ravel ish j).toNat 0
      | none => 0).toArray

/-- `util._normalize_axes` -/
def normalizeAxes (axes : Option (List Int)) (ndim : Int) : List Int :=
  match axes with
  | none => pyRange0 ndim
  | some a => a.map (fun x => pyMod x ndim)

/-- `util.flip`: output index k reads n-1-k on the flipped axes -/
def flip {α} [Zero α] (shape : List Int) (axes : Option (List Int)) (x : Array α) : Array α :=
  let ax := normalizeAxes axes shape.length
  ((allIdx shape).map fun k =>
    let j := (List.zip (List.range shape.length) (List.zip shape k)).map fun (d, n, kd) =>
      if ax.contains (d : Int) then n - 1 - kd else kd
    x.getD (ravel shape j).toNat 0).toArray

/-- `numpy.roll` contract on one axis: `out[(k + s) mod n] = in[k]`, i.e. `out[k] = in[(k - s) mod n]` -/
def rollSrc (n s k : Int) : Int := pyMod (k - s) n

/-- `util.circshift`: sequential rolls (axes may repeat; `None` = all axes in order) -/
def circshift {α} [Zero α] (shape : List Int) (shifts : List Int) (axes : Option (List Int))
    (x : Array α) : Option (Array α) :=
  let ax := (axes.getD (pyRange0 shape.length)).map (fun a => pyMod a shape.length)
  if ax.length ≠ shifts.length then none else
  some <| (List.zip ax shifts).foldl (fun (cur : Array α) (a, s) =>
    ((allIdx shape).map fun k =>
      let j := (List.zip (List.range shape.length) (List.zip shape k)).map fun (d, n, kd) =>
        if (d : Int) = a then rollSrc n s kd else kd
      cur.getD (ravel shape j).toNat 0).toArray) x

/-- length of the Python slice `s::f` of an axis of length `n`, `0 ≤ s`, `f ≥ 1` -/
def sliceLen (n s f : Int) : Int := (pyRange s n f).length

/-- `util.downsample`: `input[s_0::f_0, s_1::f_1, …]` (axes beyond `len(factors)` are kept whole) -/
def downsample {α} [Zero α] (shape factors : List Int) (shift : Option (List Int)) (x : Array α) :
    List Int × Array α :=
  let sh := shift.getD (factors.map fun _ => 0)
  let pad := shape.length - factors.length
  let f' := factors ++ List.replicate pad 1
  let s' := sh ++ List.replicate pad 0
  let osh := zip3With (fun n s f => sliceLen n s f) shape s' f'
  (osh, ((allIdx osh).map fun k =>
      let j := zip3With (fun kd s f => s + kd * f) k s' f'
      x.getD (ravel shape j).toNat 0).toArray)

/-- `util.upsample`: zeros of `oshape` with `output[s::f] = input` -/
def upsample {α} [Zero α] (oshape factors : List Int) (shift : Option (List Int)) (x : Array α) :
    List Int × Array α :=
  let sh := shift.getD (factors.map fun _ => 0)
  let pad := oshape.length - factors.length
  let f' := factors ++ List.replicate pad 1
  let s' := sh ++ List.replicate pad 0
  let ish := zip3With (fun n s f => sliceLen n s f) oshape s' f'
  (ish, ((allIdx oshape).map fun k =>
      let q := zip3With (fun kd s f => (kd - s, f)) k s' f'
      if q.all (fun (d, f) => decide (0 ≤ d ∧ pyMod d f = 0)) then
        x.getD (ravel ish (q.map fun (d, f) => pyDiv d f)).toNat 0
      else 0).toArray)

/-- `block.array_to_blocks` / `blocks_to_array` through the generated loop nests.
    `lead` = batch shape, `nshape` = trailing `ndim` axes of the array. Returns (block-array shape, data). -/
def numBlksList (nshape blk str : List Int) : List Int := zip3With Gen.numBlks nshape blk str

def a2bEntries (batch : Int) (nshape blk str nb : List Int) : Option (List (Upd Rat)) :=
  let osh := shapeFn ([batch] ++ nb ++ blk)
  let ish := shapeFn ([batch] ++ nshape)
  match blk, str, nb with
  | [bx], [sx], [nx] => some (Gen.a2b1 osh ish batch bx sx nx)
  | [by', bx], [sy, sx], [ny, nx] => some (Gen.a2b2 osh ish batch bx by' sx sy nx ny)
  | [bz, by', bx], [sz, sy, sx], [nz, ny, nx] => some (Gen.a2b3 osh ish batch bx by' bz sx sy sz nx ny nz)
  | _, _, _ => none

def b2aEntries (batch : Int) (nshape blk str nb : List Int) : Option (List (Upd Rat)) :=
  let ish := shapeFn ([batch] ++ nb ++ blk)
  let osh := shapeFn ([batch] ++ nshape)
  match blk, str, nb with
  | [bx], [sx], [nx] => some (Gen.b2a1 osh ish batch bx sx nx)
  | [by', bx], [sy, sx], [ny, nx] => some (Gen.b2a2 osh ish batch bx by' sx sy nx ny)
  | [bz, by', bx], [sz, sy, sx], [nz, ny, nx] => some (Gen.b2a3 osh ish batch bx by' bz sx sy sz nx ny nz)
  | _, _, _ => none

def a2bAcc (d : Nat) : Bool := match d with
  | 1 => Gen.a2b1_accumulates | 2 => Gen.a2b2_accumulates | _ => Gen.a2b3_accumulates
def b2aAcc (d : Nat) : Bool := match d with
  | 1 => Gen.b2a1_accumulates | 2 => Gen.b2a2_accumulates | _ => Gen.b2a3_accumulates

def arrayToBlocks (lead nshape blk str : List Int) (x : Array Rat) : Option (List Int × Array Rat) := do
  if blk.length ≠ str.length ∨ blk.length ≠ nshape.length then none
  let nb := numBlksList nshape blk str
  let batch := shapeProd lead
  let E ← a2bEntries batch nshape blk str nb
  let y ← applyUpd (· * ·) (a2bAcc blk.length) ([batch] ++ nb ++ blk) ([batch] ++ nshape) E x
  pure (lead ++ nb ++ blk, y)

def blocksToArray (lead nshape blk str nb : List Int) (x : Array Rat) : Option (List Int × Array Rat) := do
  if blk.length ≠ str.length ∨ blk.length ≠ nshape.length then none
  let batch := shapeProd lead
  let E ← b2aEntries batch nshape blk str nb
  let y ← applyUpd (· * ·) (b2aAcc blk.length) ([batch] ++ nshape) ([batch] ++ nb ++ blk) E x
  pure (lead ++ nshape, y)

end SigpyVerif.C09
