/- stdin/stdout loop shared by the per-property driver executables (core Lean only). -/
namespace SigpyVerif

partial def driverLoopAux (handle : List String → String) (pid : String) (h out : IO.FS.Stream) : IO Unit := do
  let line ← h.getLine
  if line.isEmpty then return ()
  let l := (line.dropEndWhile (fun c => c == '\n' || c == '\r')).toString
  let reply := match (l.splitOn " ").filter (· ≠ "") with
    | [] => "err empty"
    | p :: rest => if p == pid then handle rest else "err bad-op"
  out.putStrLn reply
  driverLoopAux handle pid h out

/-- one request per line `Cxx op args…`, one reply per line -/
def driverLoop (pid : String) (handle : List String → String) : IO Unit := do
  let out ← IO.getStdout
  driverLoopAux handle pid (← IO.getStdin) out
  out.flush

end SigpyVerif
