/-
  C14 model.  The four solver set-ups of `sigpy.app.LinearLeastSquares` are NOT written here: they are
  regenerated from the Python source on every check by `harness/translate/gen_c14.py` into
  `Gen/C14Setup.lean` (`cgArgs`, `gmArgs`, `pdhgArgsNoG/G`, `admmArgsNoG/G`: the arguments handed to the
  solver classes, as terms over the vocabulary of `Model/C14Base.lean`, generic over the scalar type `S`
  and the vector spaces `V` (unknown `x`), `W` (data `y`), `U` (range of `G`) through core type classes).
  The driver executes those generated definitions over `S = Rat`, `V = W = U = RV` (lists of rationals);
  `Props/C14.lean` reasons about the very same definitions over real inner-product spaces.
  The decision logic of `_get_alg` is generated as well (`Gen/C14Select.lean`).

  Hand-written here: `objective()`, and `Rat` machines for the four solver classes (`ConjugateGradient`,
  `GradientMethod`, `PrimalDualHybridGradient`, `ADMM`, transcribed from sigpy/alg.py) which only CARRY
  the generated set-ups so that whole runs of the real `LinearLeastSquares` can be compared with the
  model (the solver classes themselves are the subject of C12/C13/C15).  `sqrt` (Nesterov `t`, PDHG
  `theta`) is replaced by a 2^-64-accurate rational approximation — these machines are compared with a
  tolerance and no theorem is stated about them.  Core Lean only.
-/
import SigpyVerif.Model.C14Base
import SigpyVerif.Gen.C14Setup
namespace SigpyVerif.C14
open SigpyVerif.Gen.C14

section Setup
variable {S V W U : Type}
variable [Zero S] [One S] [Add S] [Mul S] [Div S] [DecidableEq S] [LT S] [DecidableLT S]
variable [Add V] [Sub V] [SMul S V] [Add W] [Sub W] [Neg W] [SMul S W] [Add U] [Sub U] [SMul S U]

/-! ### `objective()` -/

/-- `LinearLeastSquares.objective` (`nsq` = squared 2-norm; `none` = the `ValueError` raised when
    `proxg` is given without `g`).  `half` is `1/2`. -/
def objective (nsqW : W → S) (nsqV : V → S) (A : V → W) (y : W) (lam : S) (z : Option V)
    (hasProxg : Bool) (g : Option (U → S)) (Gx : U) (x : V) : Option S :=
  let half : S := 1 / (1 + 1)
  let o := half * nsqW (A x - y)
  let o := if 0 < lam then
      (match z with
       | none => o + lam / (1 + 1) * nsqV x
       | some z => o + lam / (1 + 1) * nsqV (x - z))
    else o
  if hasProxg then
    match g with
    | none => none
    | some g => some (o + g Gx)
  else some o

end Setup

/-! ## executable instance: rational vectors and dense matrices -/

structure RV where
  d : List Rat
  deriving BEq, Repr

instance : Add RV := ⟨fun a b => ⟨List.zipWith (· + ·) a.d b.d⟩⟩
instance : Sub RV := ⟨fun a b => ⟨List.zipWith (· - ·) a.d b.d⟩⟩
instance : Neg RV := ⟨fun a => ⟨a.d.map (fun t => -t)⟩⟩
instance : SMul Rat RV := ⟨fun c a => ⟨a.d.map (fun t => c * t)⟩⟩

def RV.dot (a b : RV) : Rat := (List.zipWith (· * ·) a.d b.d).foldl (· + ·) 0
def RV.nsq (a : RV) : Rat := a.dot a
def RV.zeros (n : Nat) : RV := ⟨List.replicate n 0⟩
def RV.basis (n j : Nat) : RV := ⟨(List.range n).map fun i => if i = j then 1 else 0⟩
def RV.append (a b : RV) : RV := ⟨a.d ++ b.d⟩

/-- dense matrix, list of rows -/
structure Mat where
  rows : List (List Rat)
  ncols : Nat

def Mat.mulVec (M : Mat) (x : RV) : RV := ⟨M.rows.map fun r => RV.dot ⟨r⟩ x⟩
/-- adjoint (real data: transpose) -/
def Mat.tMulVec (M : Mat) (u : RV) : RV :=
  ⟨(List.range M.ncols).map fun j =>
    (List.zipWith (fun (r : List Rat) (c : Rat) => r.getD j 0 * c) M.rows u.d).foldl (· + ·) 0⟩

/-- the caller's `proxg` objects used by the harness -/
inductive ProxK where
  | l1 (c : Rat)                -- `prox.L1Reg(shape, c)`
  | l2 (c : Rat)                -- `prox.L2Reg(shape, c)`
  | box (lo hi : Rat)           -- `prox.BoxConstraint(shape, lo, hi)`

def softThresh (t x : Rat) : Rat :=
  let a := if x < 0 then -x else x
  let sgn : Rat := if x = 0 then 0 else x / a
  let m := a - t
  let m := ((if m < 0 then -m else m) + m) / 2
  m * sgn

def ProxK.eval : ProxK → Rat → RV → RV
  | .l1 c, a, v => ⟨v.d.map (softThresh (c * a))⟩
  | .l2 c, a, v => l2regOut c none a v
  | .box lo hi, _, v => ⟨v.d.map fun t => if t < lo then lo else if hi < t then hi else t⟩

def ProxK.g : ProxK → RV → Option Rat
  | .l1 c, v => some (c * (v.d.map fun t => if t < 0 then -t else t).foldl (· + ·) 0)
  | .l2 c, v => some (c / 2 * v.nsq)
  | .box lo hi, v => if v.d.all (fun t => lo ≤ t && t ≤ hi) then some 0 else none

/-- rational approximation of `sqrt q` (error ≤ 2^-64 for `q ≥ 0`) -/
def sqrtApprox (q : Rat) : Rat :=
  let s : Int := (q * ((2 : Rat) ^ 128)).floor
  ((Nat.sqrt s.toNat : Nat) : Rat) / ((2 : Rat) ^ 64)

/-- a concrete problem instance -/
structure Inst where
  A : Mat
  y : RV
  lam : Rat
  z : Option RV
  prox : Option ProxK
  G : Option Mat

namespace Inst
def n (I : Inst) : Nat := I.A.ncols
def Af (I : Inst) : RV → RV := I.A.mulVec
def AHf (I : Inst) : RV → RV := I.A.tMulVec
def userProx (I : Inst) : Rat → RV → RV :=
  match I.prox with
  | some p => p.eval
  | none => fun _ v => v
end Inst

/-! ### `ConjugateGradient` (sigpy/alg.py) over `Rat` -/

structure CGState where
  x : RV
  r : RV
  p : RV
  rzold : Rat
  npd : Bool
  iter : Nat

def cgInit (M : RV → RV) (P : Option (RV → RV)) (b x : RV) : CGState :=
  let r := b - M x
  let z := match P with | none => r | some P => P r
  { x := x, r := r, p := z, rzold := r.dot z, npd := false, iter := 0 }

def cgStep (M : RV → RV) (P : Option (RV → RV)) (maxIter : Nat) (s : CGState) : CGState :=
  let Ap := M s.p
  let pAp := s.p.dot Ap
  if pAp ≤ 0 then { s with npd := true, iter := s.iter + 1 } else
  let alpha := s.rzold / pAp
  let x := s.x + alpha • s.p
  if s.iter + 1 < maxIter then
    let r := s.r - alpha • Ap
    let z := match P with | none => r | some P => P r
    let rznew := r.dot z
    let beta := rznew / s.rzold
    { x := x, r := r, p := z + beta • s.p, rzold := rznew, npd := false, iter := s.iter + 1 }
  else { s with x := x, iter := s.iter + 1 }

/-- `while not done(): update()` with `tol = 0`: done when `iter ≥ max_iter`, not-PD, or `resid ≤ 0` -/
def cgRun (M : RV → RV) (P : Option (RV → RV)) (b x : RV) (maxIter : Nat) : RV :=
  let rec go (fuel : Nat) (s : CGState) : CGState :=
    match fuel with
    | 0 => s
    | fuel + 1 =>
      if s.iter ≥ maxIter || s.npd || s.rzold ≤ 0 then s else go fuel (cgStep M P maxIter s)
  (go maxIter (cgInit M P b x)).x

/-! ### `GradientMethod` over `Rat` -/

structure GMState where
  x : RV
  z : RV
  t : Rat

def gmStep (grad : RV → RV) (alpha : Rat) (prox : Option (Rat → RV → RV)) (acc : Bool)
    (s : GMState) : GMState :=
  let xOld := s.x
  let x0 := if acc then s.z else s.x
  let x1 := x0 - alpha • grad x0
  let x2 := match prox with | none => x1 | some p => p alpha x1
  if acc then
    let tNew := (1 + sqrtApprox (1 + 4 * s.t * s.t)) / 2
    { x := x2, z := x2 + ((s.t - 1) / tNew) • (x2 - xOld), t := tNew }
  else { x := x2, z := s.z, t := s.t }

def iterate {α : Type} (f : α → α) : Nat → α → List α
  | 0, _ => []
  | k + 1, a => let b := f a; b :: iterate f k b

/-! ### `PrimalDualHybridGradient` over `Rat`, generic in the dual space `D` (`RV`, or `Pair RV RV` with `G`);
     every argument is a field of the generated `PdhgArgs` -/

structure PDState (D : Type) where
  x : RV
  xExt : RV
  u : D
  tau : Rat
  sigma : Rat
  tauMin : Rat
  sigmaMin : Rat

def pdhgStep {D : Type} [Add D] [SMul Rat D] (K : RV → D) (KH : D → RV) (proxfc : Rat → D → D)
    (proxg : Rat → RV → RV) (gammaP gammaD : Rat) (s : PDState D) : PDState D :=
  let u := proxfc s.sigma (s.u + s.sigma • K s.xExt)
  let x := proxg s.tau (s.x - s.tau • KH u)
  let xd := x - s.x
  if 0 < gammaP ∧ gammaD = 0 then
    let theta := 1 / sqrtApprox (1 + 2 * gammaP * s.tauMin)
    { x := x, xExt := x + theta • xd, u := u, tau := s.tau * theta, sigma := s.sigma / theta,
      tauMin := s.tauMin * theta, sigmaMin := s.sigmaMin }
  else if gammaP = 0 ∧ 0 < gammaD then
    let theta := 1 / sqrtApprox (1 + 2 * gammaD * s.sigmaMin)
    { x := x, xExt := x + theta • xd, u := u, tau := s.tau / theta, sigma := s.sigma * theta,
      tauMin := s.tauMin, sigmaMin := s.sigmaMin * theta }
  else
    { s with x := x, xExt := x + (1 : Rat) • xd, u := u }

/-! ### `ADMM` over `Rat` with the generated closures -/

structure ADState where
  x : RV
  v : RV
  u : RV

/-- `ADMM._update`: `minL_x(); minL_z(); u += A x + B z - c` (`c` a number: subtracted entrywise) -/
def admmStep (a : AdmmArgs Rat RV RV) (P : Option (RV → RV)) (maxCg : Nat) (s : ADState) : ADState :=
  let cg := a.minLx s.x s.v s.u
  let x := cgRun cg.sys P cg.rhs s.x maxCg
  let v := a.minLv x s.v s.u
  { x := x, v := v, u := s.u + ⟨(a.A x + a.B v).d.map (· - a.c)⟩ }

end SigpyVerif.C14
