/-
  C14 model: the four solver set-ups of `sigpy.app.LinearLeastSquares` as functions from the
  options to a *problem description* (which linear system / gradient map / prox operators /
  strong-convexity constants / step-size rule are handed to the solver class).

  ONE definition of every set-up, generic over the scalar type `S` and the vector spaces
  `V` (unknown `x`), `W` (data `y`), `U` (range of `G`) through core type classes only
  (`Add`, `Sub`, `Neg`, `SMul`, `Zero`, `One`, `Mul`, `Div`, decidable `=`/`<` on scalars).
  The driver executes them over `S = Rat`, `V = W = U = RV` (lists of rationals);
  `Props/C14.lean` reasons about the very same definitions over real inner-product spaces.

  The decision logic of `_get_alg` is NOT written here: it is regenerated from the Python source by
  `harness/translate/gen_c14.py` into `Gen/C14Select.lean`; only its result type lives here.

  Second half: `Rat` machines for the four solver classes (`ConjugateGradient`, `GradientMethod`,
  `PrimalDualHybridGradient`, `ADMM`, transcribed from sigpy/alg.py) so that whole runs of the real
  `LinearLeastSquares` can be compared with the model (the solver classes themselves are the subject
  of C12/C13/C15; here they only carry the set-ups).  `sqrt` (Nesterov `t`, PDHG `theta`) is
  replaced by a 2^-64-accurate rational approximation — these machines are compared with a tolerance
  and no theorem is stated about them.  Core Lean only.
-/
namespace SigpyVerif.C14

/-! ## result of `_get_alg` (the generated decision function returns this) -/

/-- what `LinearLeastSquares._get_alg` does: calls `self._get_<name>()`, raises `ValueError`
    (tag = `<solver branch>:<attribute tested>` or `invalid`), or falls off the end. -/
inductive Out where
  | built (name : String)
  | raised (tag : String)
  | cont (solver : Option String)
  deriving DecidableEq, Repr

section Setup
variable {S V W U : Type}
variable [Zero S] [One S] [Add S] [Mul S] [Div S] [DecidableEq S] [LT S] [DecidableLT S]
variable [Add V] [Sub V] [SMul S V] [Add W] [Sub W] [Neg W] [SMul S W] [Add U] [Sub U] [SMul S U]

/-- `if self.z is not None: b = b + self.lamda * self.z` -/
def addLamZ (lam : S) (z : Option V) (b : V) : V :=
  match z with
  | none => b
  | some z => b + lam • z

/-! ### `_get_ConjugateGradient`: `ConjugateGradient(AHA, AHy, x, P=P)` -/

/-- `AHA = A.N; if lamda != 0: AHA += lamda * Identity` applied to `x` -/
def cgSys (A : V → W) (AH : W → V) (lam : S) (x : V) : V :=
  if lam ≠ 0 then AH (A x) + lam • x else AH (A x)

/-- `AHy = A.H(y); if lamda != 0: if z is not None: AHy = AHy + lamda * z` -/
def cgRhs (AH : W → V) (y : W) (lam : S) (z : Option V) : V :=
  if lam ≠ 0 then addLamZ lam z (AH y) else AH y

/-! ### `_get_GradientMethod`: `GradientMethod(gradf, x, alpha, proxg=proxg, accelerate=…)` -/

/-- the closure `gradf` -/
def gmGrad (A : V → W) (AH : W → V) (y : W) (lam : S) (z : Option V) (x : V) : V :=
  let g := AH (A x) - AH y
  if lam ≠ 0 then
    match z with
    | none => g + lam • x
    | some z => g + lam • (x - z)
  else g

/-- the operator handed to `MaxEig` when `alpha is None` (same expression as the CG system) -/
def gmEigOp (A : V → W) (AH : W → V) (lam : S) (x : V) : V := cgSys A AH lam x

/-- `alpha` given, else `1 if max_eig == 0 else 1 / max_eig` -/
def gmAlpha (alpha : Option S) (maxEig : S) : S :=
  match alpha with
  | some a => a
  | none => if maxEig = 0 then 1 else 1 / maxEig

/-! ### prox descriptions (`sigpy.prox` objects the PDHG set-up builds) -/

/-- a tree of `sigpy.prox` objects on the space `V`; `user` is the caller's `proxg` -/
inductive PD (S V : Type) where
  | noop
  | user
  | l2reg (lam : S) (y : Option V)
  | l2regThen (lam : S) (y : Option V) (h : PD S V)
  | conj (p : PD S V)

/-- `L2Reg._prox` before `proxh`: `output = input (+ lamda*alpha*y); output /= 1 + lamda*alpha` -/
def l2regOut (lam : S) (y : Option V) (a : S) (v : V) : V :=
  match y with
  | none => (1 / (1 + lam * a)) • v
  | some y => (1 / (1 + lam * a)) • (v + (lam * a) • y)

/-- `Prox.__call__(alpha, input)` of the tree -/
def PD.eval (user : S → V → V) : PD S V → S → V → V
  | .noop, _, v => v
  | .user, a, v => user a v
  | .l2reg lam y, a, v => l2regOut lam y a v
  | .l2regThen lam y h, a, v => h.eval user (a / (1 + lam * a)) (l2regOut lam y a v)
  | .conj p, a, v => v - a • p.eval user (1 / a) ((1 / a) • v)

/-! ### `_get_PrimalDualHybridGradient` -/

/-- arguments handed to `PrimalDualHybridGradient` (the stacked operator is `K x = (A x, G x)`,
    `Kᴴ (u₁,u₂) = Aᴴ u₁ + Gᴴ u₂`; `Stack([p1, p2])` acts blockwise) -/
structure PdhgSetup (S V W U : Type) where
  proxfc1 : PD S W
  proxfc2 : Option (PD S U)
  proxg : PD S V
  gammaP : S
  gammaD : S

def pdhgSetup (y : W) (lam : S) (z : Option V) (hasProxg hasG : Bool) : PdhgSetup S V W U :=
  let gammaP : S := if 0 < lam then lam else 0
  if hasG then
    { proxfc1 := .l2reg 1 (some (-y))
      proxfc2 := some (.conj (if hasProxg then .user else .noop))
      proxg := if 0 < lam then .l2reg lam z else .noop
      gammaP := gammaP
      gammaD := 0 }
  else
    { proxfc1 := .l2reg 1 (some (-y))
      proxfc2 := none
      proxg := if 0 < lam then (if hasProxg then .l2regThen lam z .user else .l2reg lam z)
               else (if hasProxg then .user else .noop)
      gammaP := gammaP
      gammaD := 1 }

/-- which operator goes to `MaxEig`: `tau is None` → primal `Kᴴ S K`; `tau` given, `sigma is None`
    → dual `K T Kᴴ`; both given → none -/
inductive EigSide where
  | primal (sigma : S)
  | dual (tau : S)
  | none

def pdhgEigSide (tau sigma : Option S) : EigSide (S := S) :=
  match tau, sigma with
  | none, none => .primal 1
  | none, some s => .primal s
  | some t, none => .dual t
  | some _, some _ => .none

/-- `(tau, sigma)` after the set-up, `maxEig` being what `MaxEig(...).run()` returned -/
def pdhgSteps (tau sigma : Option S) (maxEig : S) : S × S :=
  match tau, sigma with
  | none, none => (1 / maxEig, 1)
  | none, some s => (1 / maxEig, s)
  | some t, none => (t, 1 / maxEig)
  | some t, some s => (t, s)

/-! ### `_get_ADMM`: the closures `minL_x`, `minL_v` and the constraint `G x - v = 0` -/

/-- `AHA` of `minL_x` without `G`: `A.N + (lamda + rho) * I` -/
def admmSysNoG (A : V → W) (AH : W → V) (lam rho : S) (x : V) : V :=
  AH (A x) + (lam + rho) • x

/-- `AHy` of `minL_x` without `G`: `A.H y + rho (v - u) (+ lamda z)` -/
def admmRhsNoG (AH : W → V) (y : W) (lam : S) (z : Option V) (rho : S) (v u : V) : V :=
  addLamZ lam z (AH y + rho • (v - u))

/-- `AHA` of `minL_x` with `G`: `A.N (+ lamda I if lamda > 0) + rho G.H G` -/
def admmSysG (A : V → W) (AH : W → V) (G : V → U) (GH : U → V) (lam rho : S) (x : V) : V :=
  (if 0 < lam then AH (A x) + lam • x else AH (A x)) + rho • GH (G x)

/-- `AHy` of `minL_x` with `G`: `A.H y + rho G.H(v - u) (+ lamda z)` -/
def admmRhsG (AH : W → V) (GH : U → V) (y : W) (lam : S) (z : Option V) (rho : S) (v u : U) : V :=
  addLamZ lam z (AH y + rho • GH (v - u))

/-- `minL_v`: `v = G x + u; if proxg is not None: v = proxg(1 / rho, v)` -/
def admmV (proxg : Option (S → U → U)) (rho : S) (Gx u : U) : U :=
  match proxg with
  | none => Gx + u
  | some p => p (1 / rho) (Gx + u)

/-- `ADMM._update` with `A = G`, `B = -I`, `c = 0`: `u += G x - v` -/
def admmU (u Gx v : U) : U := u + (Gx - v)

/-! ### `objective()` -/

/-- `LinearLeastSquares.objective` (`nsq` = squared 2-norm; `none` = the `ValueError` raised when
    `proxg` is given without `g`).  `half` is `1/2`. -/
def objective (nsqW : W → S) (nsqV : V → S) (A : V → W) (y : W) (lam : S) (z : Option V)
    (hasProxg : Bool) (g : Option (U → S)) (Gx : U) (x : V) : Option S :=
  let half : S := 1 / (1 + 1)
  let o := half * nsqW (A x - y)
  let o := if 0 < lam then
      (match z with
       | none => o + lam / (1 + 1) * nsqV x
       | some z => o + lam / (1 + 1) * nsqV (x - z))
    else o
  if hasProxg then
    match g with
    | none => none
    | some g => some (o + g Gx)
  else some o

end Setup

/-! ## executable instance: rational vectors and dense matrices -/

structure RV where
  d : List Rat
  deriving BEq, Repr

instance : Add RV := ⟨fun a b => ⟨List.zipWith (· + ·) a.d b.d⟩⟩
instance : Sub RV := ⟨fun a b => ⟨List.zipWith (· - ·) a.d b.d⟩⟩
instance : Neg RV := ⟨fun a => ⟨a.d.map (fun t => -t)⟩⟩
instance : SMul Rat RV := ⟨fun c a => ⟨a.d.map (fun t => c * t)⟩⟩

def RV.dot (a b : RV) : Rat := (List.zipWith (· * ·) a.d b.d).foldl (· + ·) 0
def RV.nsq (a : RV) : Rat := a.dot a
def RV.zeros (n : Nat) : RV := ⟨List.replicate n 0⟩
def RV.basis (n j : Nat) : RV := ⟨(List.range n).map fun i => if i = j then 1 else 0⟩
def RV.append (a b : RV) : RV := ⟨a.d ++ b.d⟩

/-- dense matrix, list of rows -/
structure Mat where
  rows : List (List Rat)
  ncols : Nat

def Mat.mulVec (M : Mat) (x : RV) : RV := ⟨M.rows.map fun r => RV.dot ⟨r⟩ x⟩
/-- adjoint (real data: transpose) -/
def Mat.tMulVec (M : Mat) (u : RV) : RV :=
  ⟨(List.range M.ncols).map fun j =>
    (List.zipWith (fun (r : List Rat) (c : Rat) => r.getD j 0 * c) M.rows u.d).foldl (· + ·) 0⟩

/-- the caller's `proxg` objects used by the harness -/
inductive ProxK where
  | l1 (c : Rat)                -- `prox.L1Reg(shape, c)`
  | l2 (c : Rat)                -- `prox.L2Reg(shape, c)`
  | box (lo hi : Rat)           -- `prox.BoxConstraint(shape, lo, hi)`

def softThresh (t x : Rat) : Rat :=
  let a := if x < 0 then -x else x
  let sgn : Rat := if x = 0 then 0 else x / a
  let m := a - t
  let m := ((if m < 0 then -m else m) + m) / 2
  m * sgn

def ProxK.eval : ProxK → Rat → RV → RV
  | .l1 c, a, v => ⟨v.d.map (softThresh (c * a))⟩
  | .l2 c, a, v => l2regOut c none a v
  | .box lo hi, _, v => ⟨v.d.map fun t => if t < lo then lo else if hi < t then hi else t⟩

def ProxK.g : ProxK → RV → Option Rat
  | .l1 c, v => some (c * (v.d.map fun t => if t < 0 then -t else t).foldl (· + ·) 0)
  | .l2 c, v => some (c / 2 * v.nsq)
  | .box lo hi, v => if v.d.all (fun t => lo ≤ t && t ≤ hi) then some 0 else none

/-- rational approximation of `sqrt q` (error ≤ 2^-64 for `q ≥ 0`) -/
def sqrtApprox (q : Rat) : Rat :=
  let s : Int := (q * ((2 : Rat) ^ 128)).floor
  ((Nat.sqrt s.toNat : Nat) : Rat) / ((2 : Rat) ^ 64)

/-- a concrete problem instance -/
structure Inst where
  A : Mat
  y : RV
  lam : Rat
  z : Option RV
  prox : Option ProxK
  G : Option Mat

namespace Inst
def n (I : Inst) : Nat := I.A.ncols
def Af (I : Inst) : RV → RV := I.A.mulVec
def AHf (I : Inst) : RV → RV := I.A.tMulVec
def userProx (I : Inst) : Rat → RV → RV :=
  match I.prox with
  | some p => p.eval
  | none => fun _ v => v
end Inst

/-! ### `ConjugateGradient` (sigpy/alg.py) over `Rat` -/

structure CGState where
  x : RV
  r : RV
  p : RV
  rzold : Rat
  npd : Bool
  iter : Nat

def cgInit (M : RV → RV) (P : Option (RV → RV)) (b x : RV) : CGState :=
  let r := b - M x
  let z := match P with | none => r | some P => P r
  { x := x, r := r, p := z, rzold := r.dot z, npd := false, iter := 0 }

def cgStep (M : RV → RV) (P : Option (RV → RV)) (maxIter : Nat) (s : CGState) : CGState :=
  let Ap := M s.p
  let pAp := s.p.dot Ap
  if pAp ≤ 0 then { s with npd := true, iter := s.iter + 1 } else
  let alpha := s.rzold / pAp
  let x := s.x + alpha • s.p
  if s.iter + 1 < maxIter then
    let r := s.r - alpha • Ap
    let z := match P with | none => r | some P => P r
    let rznew := r.dot z
    let beta := rznew / s.rzold
    { x := x, r := r, p := z + beta • s.p, rzold := rznew, npd := false, iter := s.iter + 1 }
  else { s with x := x, iter := s.iter + 1 }

/-- `while not done(): update()` with `tol = 0`: done when `iter ≥ max_iter`, not-PD, or `resid ≤ 0` -/
def cgRun (M : RV → RV) (P : Option (RV → RV)) (b x : RV) (maxIter : Nat) : RV :=
  let rec go (fuel : Nat) (s : CGState) : CGState :=
    match fuel with
    | 0 => s
    | fuel + 1 =>
      if s.iter ≥ maxIter || s.npd || s.rzold ≤ 0 then s else go fuel (cgStep M P maxIter s)
  (go maxIter (cgInit M P b x)).x

/-! ### `GradientMethod` over `Rat` -/

structure GMState where
  x : RV
  z : RV
  t : Rat

def gmStep (grad : RV → RV) (alpha : Rat) (prox : Option (Rat → RV → RV)) (acc : Bool)
    (s : GMState) : GMState :=
  let xOld := s.x
  let x0 := if acc then s.z else s.x
  let x1 := x0 - alpha • grad x0
  let x2 := match prox with | none => x1 | some p => p alpha x1
  if acc then
    let tNew := (1 + sqrtApprox (1 + 4 * s.t * s.t)) / 2
    { x := x2, z := x2 + ((s.t - 1) / tNew) • (x2 - xOld), t := tNew }
  else { x := x2, z := s.z, t := s.t }

def iterate {α : Type} (f : α → α) : Nat → α → List α
  | 0, _ => []
  | k + 1, a => let b := f a; b :: iterate f k b

/-! ### `PrimalDualHybridGradient` over `Rat` (dual variable in two blocks) -/

structure PDState where
  x : RV
  xExt : RV
  u1 : RV
  u2 : RV
  tau : Rat
  sigma : Rat
  tauMin : Rat
  sigmaMin : Rat

def pdhgStep (I : Inst) (su : PdhgSetup Rat RV RV RV) (s : PDState) : PDState :=
  let K1 := I.Af s.xExt
  let u1 := su.proxfc1.eval (fun _ v => v) s.sigma (s.u1 + s.sigma • K1)
  let (u2, KHu) :=
    match I.G, su.proxfc2 with
    | some G, some p2 =>
      let u2 := p2.eval I.userProx s.sigma (s.u2 + s.sigma • G.mulVec s.xExt)
      (u2, I.AHf u1 + G.tMulVec u2)
    | _, _ => (s.u2, I.AHf u1)
  let x := su.proxg.eval I.userProx s.tau (s.x - s.tau • KHu)
  let xd := x - s.x
  if 0 < su.gammaP ∧ su.gammaD = 0 then
    let theta := 1 / sqrtApprox (1 + 2 * su.gammaP * s.tauMin)
    { x := x, xExt := x + theta • xd, u1 := u1, u2 := u2, tau := s.tau * theta, sigma := s.sigma / theta,
      tauMin := s.tauMin * theta, sigmaMin := s.sigmaMin }
  else if su.gammaP = 0 ∧ 0 < su.gammaD then
    let theta := 1 / sqrtApprox (1 + 2 * su.gammaD * s.sigmaMin)
    { x := x, xExt := x + theta • xd, u1 := u1, u2 := u2, tau := s.tau / theta, sigma := s.sigma * theta,
      tauMin := s.tauMin, sigmaMin := s.sigmaMin * theta }
  else
    { s with x := x, xExt := x + (1 : Rat) • xd, u1 := u1, u2 := u2 }

/-! ### `ADMM` over `Rat` with the set-up's closures -/

structure ADState where
  x : RV
  v : RV
  u : RV

def admmStep (I : Inst) (rho : Rat) (P : Option (RV → RV)) (maxCg : Nat) (s : ADState) : ADState :=
  let pr : Option (Rat → RV → RV) := I.prox.map fun p => p.eval
  match I.G with
  | none =>
    let x := cgRun (admmSysNoG I.Af I.AHf I.lam rho) P (admmRhsNoG I.AHf I.y I.lam I.z rho s.v s.u) s.x maxCg
    let v := admmV pr rho x s.u
    { x := x, v := v, u := admmU s.u x v }
  | some G =>
    let x := cgRun (admmSysG I.Af I.AHf G.mulVec G.tMulVec I.lam rho) P
      (admmRhsG I.AHf G.tMulVec I.y I.lam I.z rho s.v s.u) s.x maxCg
    let Gx := G.mulVec x
    let v := admmV pr rho Gx s.u
    { x := x, v := v, u := admmU s.u Gx v }

end SigpyVerif.C14
