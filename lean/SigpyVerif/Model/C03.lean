import SigpyVerif.Model.Py
import SigpyVerif.Model.C03Base
/-
  C03 model: the operator algebra of sigpy/linop.py (core Lean only, executable, linked into the driver).

  An operator is modelled *shallowly*: `Op α` = advertised `oshape`, `ishape` and the `_apply`
  function on dense row-major arrays (`NDArr α` = shape + flat data).  Leaves are dense matrices
  (the harness measures the dense matrix of every real leaf operator with basis vectors, so any
  built-in Linop can be a leaf).  The combinators transcribe the constructors and `_apply`
  methods of `Compose`, `Add`, `Multiply` (scalar), `Hstack`, `Vstack`, `Diag`:

    * `Op.call`      = `Linop.apply`  (`_check_ishape`, `_apply`, `_check_oshape`; every exception
                       is re-raised as RuntimeError -> `Err.apply`)
    * `stackParams`  = `_hstack_params` / `_vstack_params` (the two functions are the same text)
                       as a fold over `shapes[1:]` with state `(shape, idx, indices)`;
                       **the axis is normalised modulo ndim** (`shapes[0][axis]` accepts exactly
                       `-ndim ≤ axis < ndim`; the property demands that such an axis works)
    * `bounds`       = the `start/end` computation of the `_apply` loops
                       (`start = 0 if n == 0 else indices[n-1]`, `end = None if n == nops-1 else indices[n]`)
    * `sliceAx`      = `input[(slice(None),)*axis + (slice(start,end),) + …]`
    * `assembleAx`   = `output = empty(oshape); for n: output[slc_n] = y_n` (row by row: one row per
                       index tuple in front of the axis)
    * `axis=None`    = the same on the flattened shapes `[prod(shape)]` with axis 0
                       (`input[start:end].reshape(ishape)`, `output[start:end] = y.ravel()`)

  Everything is generic in the scalar type: the driver runs it over Gaussian rationals `GRat`,
  the theorems in `Props/C03.lean` are proved for every commutative ring (hence for ℂ and `GRat`).

  Since the deepening round the DRIVER no longer runs the `*App` functions of this file: it runs the translator-generated
  `_apply` bodies and guards (`Gen/LinopApply.lean` on the numpy primitives of `Model/C03Np.lean`, wired in `Model/C03Gen.lean`);
  this file is the reference model the generated code is proved against in `Props/C03Gen.lean` (`Op.call` = generated
  `Linop.apply`, `composeApp` = generated `Compose._apply`, the block theorems restated for the generated bodies).

  Abstractions (validated by the correspondence check, not proved): dense row-major layout of numpy
  arrays; `_check_ishape/_check_oshape` are modelled EXACTLY (`zipGuard`: `zip` stops at the shorter
  shape), and the correspondence sends inputs of a different rank through chains of `Identity`/`Reshape`/
  scalar operators (`idOp`, `reshapeOp`, transcriptions of their `_apply`); dense leaves and the stacking
  combinators are only run on inputs of the advertised shape (numpy broadcasting of off-rank operands in
  `output[slc] = y` / `a + b` is not modelled); shapes are positive
  (`_check_shape_positive`), so they are `Nat` after the leaf check; `Compose` flattening of nested
  compositions does not change the function computed and is not modelled.
-/
namespace SigpyVerif.C03

structure NDArr (α : Type) where
  shape : List Nat
  data : List α

structure Op (α : Type) where
  oshape : List Nat
  ishape : List Nat
  app : NDArr α → Except Err (NDArr α)

/-- the guard on `Nat` shapes (a built operator's shapes are positive, so `-1` never occurs in them; the
    general form with the wildcard is `zipGuard`, see `Props/C03Loop.lean` for its characterisation) -/
def natGuard (got adv : List Nat) : Bool := zipGuard (got.map Int.ofNat) (adv.map Int.ofNat)

/-- `Linop.apply`: the shape guards `_check_ishape` / `_check_oshape` around `_apply`; any exception
    becomes a RuntimeError.  The guards are the EXACT ones of the source (`zip` stops at the shorter shape):
    an input whose shape is a proper prefix or extension of `ishape` passes. -/
def Op.call {α} (A : Op α) (x : NDArr α) : Except Err (NDArr α) :=
  if natGuard x.shape A.ishape then
    match A.app x with
    | .ok y => if natGuard y.shape A.oshape then .ok y else .error .apply
    | .error _ => .error .apply
  else .error .apply

/-! ### leaves -/

def dot {α} [Add α] [Mul α] [Zero α] (row x : List α) : α :=
  (List.zipWith (· * ·) row x).foldr (· + ·) 0

/-- dense matrix leaf (`rows` has `prod oshape` rows of `prod ishape` entries); `Linop.__init__`
    runs `_check_shape_positive` on both shapes. -/
def matOp {α} [Add α] [Mul α] [Zero α] (oshape ishape : List Int) (rows : List (List α)) :
    Except Err (Op α) :=
  if oshape.all (0 < ·) ∧ ishape.all (0 < ·) then
    let osh := oshape.map Int.toNat
    .ok ⟨osh, ishape.map Int.toNat, fun x => .ok ⟨osh, rows.map (dot · x.data)⟩⟩
  else .error .build

/-- `Multiply(shape, a)` for a scalar `a` (`input * mult`) -/
def mulOp {α} [Mul α] (shape : List Nat) (a : α) : Op α :=
  ⟨shape, shape, fun x => .ok ⟨x.shape, x.data.map (· * a)⟩⟩

/-- `reshape` (numpy raises when the sizes differ) -/
def reshape {α} (x : NDArr α) (shape : List Nat) : Except Err (NDArr α) :=
  if x.data.length = sprod shape then .ok ⟨shape, x.data⟩ else .error .apply

/-- `Identity(shape)`: `_apply` returns its input whatever its shape is -/
def idOp {α} (shape : List Int) : Except Err (Op α) :=
  if shape.all (0 < ·) then .ok ⟨shape.map Int.toNat, shape.map Int.toNat, fun x => .ok x⟩ else .error .build

/-- `Reshape(oshape, ishape)`: `_apply` is `input.reshape(oshape)` whatever the input's shape is (the
    constructor does not compare the sizes) -/
def reshapeOp {α} (oshape ishape : List Int) : Except Err (Op α) :=
  if oshape.all (0 < ·) ∧ ishape.all (0 < ·) then
    .ok ⟨oshape.map Int.toNat, ishape.map Int.toNat, fun x => reshape x (oshape.map Int.toNat)⟩
  else .error .build

/-! ### Compose -/

/-- `_check_compose_linops` -/
def composeOk {α} : List (Op α) → Bool
  | A :: B :: rest => decide (A.ishape = B.oshape) && composeOk (B :: rest)
  | _ => true

/-- `Compose._apply`: `for linop in linops[::-1]: output = linop(output)` -/
def composeApp {α} : List (Op α) → NDArr α → Except Err (NDArr α)
  | [], x => .ok x
  | A :: rest, x =>
    match composeApp rest x with
    | .ok y => A.call y
    | .error e => .error e

def compose {α} (l : List (Op α)) : Except Err (Op α) :=
  match l, l.getLast? with
  | A :: _, some Z => if composeOk l then .ok ⟨A.oshape, Z.ishape, composeApp l⟩ else .error .build
  | _, _ => .error .build   -- `self.linops[0]` of an empty list

/-! ### Add -/

/-- `output = 0; for …: output += y` -/
def sumResults {α} [Add α] [Zero α] (osh : List Nat) (ys : List (NDArr α)) : NDArr α :=
  ⟨osh, ys.foldl (fun acc y => List.zipWith (· + ·) acc y.data) (List.replicate (sprod osh) 0)⟩

def callAll {α} : List (Op α) → List (NDArr α) → Except Err (List (NDArr α))
  | A :: l, x :: xs =>
    match A.call x with
    | .ok y => match callAll l xs with
      | .ok ys => .ok (y :: ys)
      | .error e => .error e
    | .error e => .error e
  | [], [] => .ok []
  | _, _ => .error .apply

def sameShapes {α} (f : Op α → List Nat) (l : List (Op α)) : Bool :=
  match l with
  | [] => true
  | A :: _ => l.all fun B => decide (f B = f A)

def add {α} [Add α] [Zero α] (l : List (Op α)) : Except Err (Op α) :=
  match l with
  | [] => .error .build
  | A :: _ =>
    if sameShapes Op.ishape l && sameShapes Op.oshape l then
      .ok ⟨A.oshape, A.ishape, fun x =>
        match callAll l (List.replicate l.length x) with
        | .ok ys => .ok (sumResults A.oshape ys)
        | .error e => .error e⟩
    else .error .build

/-! ### scalars: `a * A`, `A * a`, `-A`, `A - B` (Linop.__rmul__/__mul__/__neg__/__sub__) -/

def scaleL {α} [Mul α] (a : α) (A : Op α) : Except Err (Op α) := compose [mulOp A.oshape a, A]
def scaleR {α} [Mul α] (A : Op α) (a : α) : Except Err (Op α) := compose [A, mulOp A.ishape a]
def neg {α} [Mul α] [Neg α] [One α] (A : Op α) : Except Err (Op α) := scaleL (-1) A
def sub {α} [Add α] [Zero α] [Mul α] [Neg α] [One α] (A B : Op α) : Except Err (Op α) :=
  match neg B with
  | .ok nB => add [A, nB]
  | .error e => .error e

/-! ### `_hstack_params` / `_vstack_params` -/

/-- the axis that `shapes[0][axis]` addresses: defined exactly for `-ndim ≤ axis < ndim` -/
def normAxis (axis : Int) (ndim : Nat) : Except Err Nat :=
  if -(ndim : Int) ≤ axis ∧ axis < ndim then .ok (pyMod axis ndim).toNat else .error .build

/-- the test of the inner loop for one further shape: same rank, equal off the axis -/
def compat (a : Nat) (acc sh : List Nat) : Bool :=
  decide (sh.length = acc.length) &&
    (List.range acc.length).all fun i => decide (i = a) || decide (sh.getD i 0 = acc.getD i 0)

/-- the loop over `shapes[1:]` with state `(shape, idx, indices)` -/
def stackFold (a : Nat) : List (List Nat) → List Nat → Nat → List Nat → Except Err (List Nat × List Nat)
  | [], acc, _, ind => .ok (acc, ind)
  | sh :: rest, acc, idx, ind =>
    if compat a acc sh then
      stackFold a rest (acc.set a (acc.getD a 0 + sh.getD a 0)) (idx + sh.getD a 0) (ind ++ [idx])
    else .error .build

def stackParams (shapes : List (List Nat)) (axis : Option Int) : Except Err (List Nat × List Nat) :=
  match axis with
  | none =>
    match shapes with
    | [] => .error .build
    | s0 :: rest => stackFold 0 (rest.map fun s => [sprod s]) [sprod s0] (sprod s0) []
  | some ax =>
    match shapes with
    | [] => .error .build
    | s0 :: rest =>
      match normAxis ax s0.length with
      | .ok a => stackFold a rest s0 (s0.getD a 0) []
      | .error e => .error e

/-! ### slabs -/

/-- `start/end` of every operand from `indices` (`end = None` for the last one).  The code looks
    `indices[n-1]`, `indices[n]` up and raises IndexError when `indices` is too short. -/
def bounds (indices : List Nat) (nops : Nat) : Except Err (List (Nat × Option Nat)) :=
  if indices.length + 1 = nops then
    .ok (List.zip (0 :: indices) (indices.map some ++ [none]))
  else .error .apply

/-- Python `l[start:end]` for `0 ≤ start`, `end` an index or `None` -/
def selRange {β} (start : Nat) (stop : Option Nat) (l : List β) : List β :=
  match stop with
  | none => l.drop start
  | some e => (l.drop start).take (e - start)

def selLen (n start : Nat) (stop : Option Nat) : Nat :=
  match stop with
  | none => n - start
  | some e => min (e - start) (n - start)

/-- row `o` of a flat array whose rows have `k` entries -/
def rowOf {β} (k o : Nat) (l : List β) : List β := (l.drop (o * k)).take k

structure AxisGeom where
  outer : Nat
  n : Nat
  inner : Nat

def geom (shape : List Nat) (a : Nat) : AxisGeom :=
  ⟨sprod (shape.take a), shape.getD a 0, sprod (shape.drop (a + 1))⟩

/-- `x[:, …, start:end, …]` along axis `a` -/
def sliceAx {α} (x : NDArr α) (a start : Nat) (stop : Option Nat) : NDArr α :=
  let g := geom x.shape a
  ⟨x.shape.set a (selLen g.n start stop),
   ((List.range g.outer).map fun o =>
      selRange (start * g.inner) (stop.map (· * g.inner)) (rowOf (g.n * g.inner) o x.data)).flatten⟩

/-- `row[start:end] = seg` (numpy demands equal lengths; broadcasting of length-1 values is not
    modelled: it cannot occur for positive operand shapes unless the lengths agree) -/
def rowWrite {β} (row : List β) (start : Nat) (stop : Option Nat) (seg : List β) : Except Err (List β) :=
  let e := match stop with
    | none => row.length
    | some e => min e row.length
  if e - start = seg.length then .ok (row.take start ++ seg ++ row.drop (start + seg.length))
  else .error .apply

def rowWrites {β} : List β → List (Nat × Option Nat) → List (List β) → Except Err (List β)
  | row, b :: bs, seg :: segs =>
    match rowWrite row b.1 b.2 seg with
    | .ok row' => rowWrites row' bs segs
    | .error e => .error e
  | row, [], [] => .ok row
  | _, _, _ => .error .apply

def allRows {β} (f : Nat → Except Err (List β)) : Nat → Except Err (List (List β))
  | 0 => .ok []
  | m + 1 =>
    match allRows f m with
    | .ok rows => match f m with
      | .ok r => .ok (rows ++ [r])
      | .error e => .error e
    | .error e => .error e

/-- `output = empty(oshape)` then `output[slc_n] = y_n` for every operand -/
def assembleAx {α} [Zero α] (oshape : List Nat) (a : Nat) (bs : List (Nat × Option Nat))
    (ys : List (NDArr α)) : Except Err (NDArr α) :=
  let g := geom oshape a
  match allRows (fun o =>
      rowWrites (List.replicate (g.n * g.inner) (0 : α))
        (bs.map fun b => (b.1 * g.inner, b.2.map (· * g.inner)))
        (ys.map fun y => rowOf ((geom y.shape a).n * g.inner) o y.data)) g.outer with
  | .ok rows => .ok ⟨oshape, rows.flatten⟩
  | .error e => .error e

/-- the slab handed to operand `n`: `input[slc]`, or `input[start:end].reshape(ishape)` for `axis=None` -/
def slab {α} (axis : Option Int) (opShape : List Nat) (x : NDArr α) (b : Nat × Option Nat) :
    Except Err (NDArr α) :=
  match axis with
  | none => reshape (sliceAx x 0 b.1 b.2) opShape
  | some ax => .ok (sliceAx x (pyMod ax opShape.length).toNat b.1 b.2)

def slabs {α} (axis : Option Int) (x : NDArr α) :
    List (List Nat) → List (Nat × Option Nat) → Except Err (List (NDArr α))
  | s :: ss, b :: bs =>
    match slab axis s x b with
    | .ok p => match slabs axis x ss bs with
      | .ok ps => .ok (p :: ps)
      | .error e => .error e
    | .error e => .error e
  | [], [] => .ok []
  | _, _ => .error .apply

/-- `output[slc_n] = y_n` for all operands; `axis=None`: on the ravelled outputs along axis 0 -/
def assemble {α} [Zero α] (axis : Option Int) (oshape : List Nat) (indices : List Nat)
    (ys : List (NDArr α)) : Except Err (NDArr α) :=
  match bounds indices ys.length with
  | .error e => .error e
  | .ok bs =>
    match axis with
    | none => assembleAx oshape 0 bs (ys.map fun y => ⟨[y.data.length], y.data⟩)
    | some ax => assembleAx oshape (pyMod ax oshape.length).toNat bs ys

/-! ### Hstack / Vstack / Diag -/

def hstackApp {α} [Add α] [Zero α] (l : List (Op α)) (axis : Option Int) (oshape indices : List Nat)
    (x : NDArr α) : Except Err (NDArr α) :=
  match bounds indices l.length with
  | .error e => .error e
  | .ok bs =>
    match slabs axis x (l.map Op.ishape) bs with
    | .error e => .error e
    | .ok ps =>
      match callAll l ps with
      | .ok ys => .ok (sumResults oshape ys)
      | .error e => .error e

def hstack {α} [Add α] [Zero α] (l : List (Op α)) (axis : Option Int) : Except Err (Op α) :=
  match l with
  | [] => .error .build
  | A :: _ =>
    if sameShapes Op.oshape l then
      match stackParams (l.map Op.ishape) axis with
      | .ok (ishape, indices) => .ok ⟨A.oshape, ishape, hstackApp l axis A.oshape indices⟩
      | .error e => .error e
    else .error .build

def vstackApp {α} [Zero α] (l : List (Op α)) (axis : Option Int) (oshape indices : List Nat)
    (x : NDArr α) : Except Err (NDArr α) :=
  match callAll l (List.replicate l.length x) with
  | .ok ys => assemble axis oshape indices ys
  | .error e => .error e

def vstack {α} [Zero α] (l : List (Op α)) (axis : Option Int) : Except Err (Op α) :=
  match l with
  | [] => .error .build
  | A :: _ =>
    if sameShapes Op.ishape l then
      match stackParams (l.map Op.oshape) axis with
      | .ok (oshape, indices) => .ok ⟨oshape, A.ishape, vstackApp l axis oshape indices⟩
      | .error e => .error e
    else .error .build

def diagApp {α} [Zero α] (l : List (Op α)) (oaxis iaxis : Option Int) (oshape oind iind : List Nat)
    (x : NDArr α) : Except Err (NDArr α) :=
  match bounds iind l.length with
  | .error e => .error e
  | .ok bs =>
    match slabs iaxis x (l.map Op.ishape) bs with
    | .error e => .error e
    | .ok ps =>
      match callAll l ps with
      | .ok ys => assemble oaxis oshape oind ys
      | .error e => .error e

def diag {α} [Zero α] (l : List (Op α)) (oaxis iaxis : Option Int) : Except Err (Op α) :=
  match stackParams (l.map Op.ishape) iaxis with
  | .error e => .error e
  | .ok (ishape, iind) =>
    match stackParams (l.map Op.oshape) oaxis with
    | .error e => .error e
    | .ok (oshape, oind) => .ok ⟨oshape, ishape, diagApp l oaxis iaxis oshape oind iind⟩

/-! ### Gaussian rationals (the scalars the driver computes with) -/

structure GRat where
  re : Rat
  im : Rat
  deriving DecidableEq

instance : Add GRat := ⟨fun a b => ⟨a.re + b.re, a.im + b.im⟩⟩
instance : Mul GRat := ⟨fun a b => ⟨a.re * b.re - a.im * b.im, a.re * b.im + a.im * b.re⟩⟩
instance : Neg GRat := ⟨fun a => ⟨-a.re, -a.im⟩⟩
instance : Zero GRat := ⟨⟨0, 0⟩⟩
instance : One GRat := ⟨⟨1, 0⟩⟩

end SigpyVerif.C03
