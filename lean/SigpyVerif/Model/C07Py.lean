import SigpyVerif.Model.Py
import SigpyVerif.Model.Apply
/-
  C07: the Python list / shape semantics that the *generated* wrapper definitions
  (`Gen/InterpWrappers.lean`, regenerated from `interpolate` / `gridding` in sigpy/interp.py on every
  run) are written in.  Core Lean only (linked into the driver).

    l[k]      pyGet?       (negative index counts from the end; out of range = IndexError = none)
    l[:k]     pySliceTo    (negative bound counts from the end, then clamped to 0..len — so `l[:-0] = []`)
    l[k:]     pySliceFrom
    l[a:b]    pySlice
    l * n     pyRepeat     (n ≤ 0 gives [])
    a.reshape(new)         pyReshape (same number of elements, else ValueError = none; row-major data unchanged)
    a[i, j] of a row-major 2-D array given by its shape and flat data: arr2
    `width` / `param` arguments: `Bc` (np.isscalar(v) ↔ `.scalar`)
-/
namespace SigpyVerif.C07
open SigpyVerif

/-- `width` / `param` argument as passed by the caller: a Python scalar (`np.isscalar` is true) or a sequence -/
inductive Bc where
  | scalar (v : Rat)
  | perAxis (l : List Rat)

/-- SPECIFICATION of the broadcasting (docstring: "float or tuple of floats"): a scalar is replicated
    `ndim` times, a sequence is taken as is.  The generated wrappers do not use this definition; the
    theorems `interpolate_w_spec` / `gridding_w_spec` prove that they agree with it. -/
def Bc.toList (ndim : Nat) : Bc → List Rat
  | .scalar v => List.replicate ndim v
  | .perAxis l => l

/-- Python index normalisation `k < 0 → k + n` -/
def pyNorm (n k : Int) : Int := if k < 0 then k + n else k

/-- `l[k]` -/
def pyGet? {α} (l : List α) (k : Int) : Option α :=
  let k' := pyNorm l.length k
  if 0 ≤ k' ∧ k' < l.length then l[k'.toNat]? else none

/-- slice bound: negative counts from the end, then clamp to `0..n` -/
def pyClamp (n : Nat) (k : Int) : Nat :=
  let k' := pyNorm n k
  if k' < 0 then 0 else if k' > n then n else k'.toNat

/-- `l[:k]` -/
def pySliceTo {α} (l : List α) (k : Int) : List α := l.take (pyClamp l.length k)
/-- `l[k:]` -/
def pySliceFrom {α} (l : List α) (k : Int) : List α := l.drop (pyClamp l.length k)
/-- `l[a:b]` -/
def pySlice {α} (l : List α) (a b : Int) : List α := (l.take (pyClamp l.length b)).drop (pyClamp l.length a)

/-- `l * n` -/
def pyRepeat {α} (l : List α) (n : Int) : List α := (List.replicate n.toNat l).flatten

/-- `a.reshape(new)` on the shape level: allowed iff the element count is unchanged and no extent is
    negative (numpy's `-1` placeholder is outside the modelled subset: `none`); the row-major flat data of
    a C-contiguous array is unchanged by reshape (numpy semantics, trusted). -/
def pyReshape (old new : List Int) : Option (List Int) :=
  if shapeProd old = shapeProd new ∧ new.all (fun n => decide (0 ≤ n)) then some new else none

/-- `a[i, j]` for a row-major 2-D array of shape `shape` with flat data `flat` (negative indices as in Python;
    no bounds check, like numba) -/
def arr2 {α} [Inhabited α] (shape : List Int) (flat : List α) (i j : Int) : α :=
  let n0 := shape.getD 0 0
  let n1 := shape.getD 1 0
  flat.getD (pyNorm n0 i * n1 + pyNorm n1 j).toNat default

/-- one of the numba loop nests: (output.shape, input.shape, coord.shape, coord, width, param) ↦ updates -/
abbrev LoopNest := (Int → Int) → (Int → Int) → (Int → Int) → (Int → Int → Rat) → (Int → Rat) → (Int → Rat) →
  List (Upd Rat)

/-- what a wrapper hands to the array machinery: the zero-initialised buffer the loop nest writes to, the view
    of the input it reads, the update list the selected loop nest produces, the update kind, the reshapes
    performed (old shape, new shape) and the shape of the returned array. -/
structure Wrapped where
  ndim : Int
  oshape : List Int
  ishape : List Int
  entries : List (Upd Rat)
  acc : Bool
  reshapes : List (List Int × List Int)
  resultShape : List Int

end SigpyVerif.C07
