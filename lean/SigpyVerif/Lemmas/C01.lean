import SigpyVerif.Model.C01
import Mathlib.Algebra.Star.Basic
import Mathlib.Algebra.BigOperators.Group.List.Basic
import Mathlib.Algebra.BigOperators.Ring.List
import Mathlib.Tactic.Ring
/-
  Helper lemmas for C01/C04: algebra of entry lists over a commutative star ring.
-/
set_option linter.unusedSectionVars false
namespace SigpyVerif.C01
open SigpyVerif

section
variable {ι κ μ α : Type} [CommRing α] [StarRing α]

theorem applyF_nil [DecidableEq ι] (x : κ → α) (o : ι) :
    applyF ([] : List (ι × κ × α)) x o = 0 := by simp [applyF]

theorem applyF_cons [DecidableEq ι] (e : ι × κ × α) (E : List (ι × κ × α)) (x : κ → α) (o : ι) :
    applyF (e :: E) x o = (if e.1 = o then e.2.2 * x e.2.1 else 0) + applyF E x o := by
  simp [applyF]

theorem applyF_append' [DecidableEq ι] (A B : List (ι × κ × α)) (x : κ → α) (o : ι) :
    applyF (A ++ B) x o = applyF A x o + applyF B x o := by
  simp [applyF]

theorem applyF_row [DecidableEq ι] [DecidableEq κ] (a : ι × κ × α) (B : List (κ × μ × α))
    (x : μ → α) (o : ι) :
    applyF (B.filterMap fun b => if a.2.1 = b.1 then some (a.1, b.2.1, a.2.2 * b.2.2) else none) x o
      = if a.1 = o then a.2.2 * applyF B x a.2.1 else 0 := by
  induction B with
  | nil => simp [applyF]
  | cons b B ih =>
    rw [List.filterMap_cons]
    by_cases h : a.2.1 = b.1
    · simp only [h, if_true]
      rw [applyF_cons, applyF_cons]
      simp only [h] at ih
      rw [ih]
      by_cases ho : a.1 = o <;> simp [ho, mul_add, mul_assoc]
    · simp only [h, if_false]
      rw [ih, applyF_cons]
      have h' : ¬ b.1 = a.2.1 := fun hh => h hh.symm
      simp [h']

theorem dotL_add_left (I : List ι) (a b y : ι → α) :
    dotL star I (fun i => a i + b i) y = dotL star I a y + dotL star I b y := by
  unfold dotL
  rw [← List.sum_map_add]
  congr 1
  apply List.map_congr_left
  intro i _
  rw [star_add, add_mul]

theorem dotL_add_right (I : List ι) (a y z : ι → α) :
    dotL star I a (fun i => y i + z i) = dotL star I a y + dotL star I a z := by
  unfold dotL
  rw [← List.sum_map_add]
  congr 1
  apply List.map_congr_left
  intro i _
  rw [mul_add]

theorem star_sum_list (l : List α) : star l.sum = (l.map star).sum := by
  induction l with
  | nil => simp
  | cons a l ih => simp [star_add, ih]

theorem sum_ite_single [DecidableEq ι] (I : List ι) (hI : I.Nodup) (k : ι) (hk : k ∈ I) (f : ι → α) :
    (I.map fun i => if k = i then f i else 0).sum = f k := by
  induction I with
  | nil => simp at hk
  | cons j I ih =>
    rw [List.nodup_cons] at hI
    rw [List.map_cons, List.sum_cons]
    by_cases hkj : k = j
    · subst hkj
      have : (I.map fun i => if k = i then f i else 0) = I.map fun _ => (0 : α) := by
        apply List.map_congr_left
        intro i hi
        have : k ≠ i := fun h => hI.1 (h ▸ hi)
        simp [this]
      rw [this]; simp
    · have hk' : k ∈ I := by
        rcases List.mem_cons.mp hk with h | h
        · exact absurd h hkj
        · exact h
      rw [ih hI.2 hk']; simp [hkj]

end

section
variable {α : Type} [CommRing α] [StarRing α]

/-- `E'` acts as the adjoint of `E` between `ℂ^m` and `ℂ^n` for the `vdot` pairing -/
def IsAdj (n m : Nat) (E E' : List (Ent α)) : Prop :=
  ∀ x y : Nat → α, dotL star (List.range n) (applyF E x) y = dotL star (List.range m) x (applyF E' y)

def InRange (n m : Nat) (E : List (Ent α)) : Prop := ∀ e ∈ E, e.1 < n ∧ e.2.1 < m

theorem inRangeE_inRange (n m : Nat) (E : List (Ent α)) : InRange n m (inRangeE n m E) := by
  intro e he
  unfold inRangeE at he
  simpa using (List.mem_filter.mp he).2

theorem weights_one_swap (E : List (Ent α)) (h : ∀ e ∈ E, e.2.2 = 1) : adjE star E = swapE E := by
  unfold adjE swapE
  apply List.map_congr_left
  intro e he
  rw [h e he, star_one]

theorem swapE_swapE (E : List (Ent α)) : swapE (swapE E) = E := by
  unfold swapE
  rw [List.map_map]
  conv_rhs => rw [← List.map_id E]
  apply List.map_congr_left
  intro e _
  rfl

theorem mem_swapE {E : List (Ent α)} {e : Ent α} : e ∈ swapE E ↔ (e.2.1, e.1, e.2.2) ∈ E := by
  unfold swapE
  constructor
  · rintro h
    obtain ⟨a, ha, rfl⟩ := List.mem_map.mp h
    simpa using ha
  · intro h
    exact List.mem_map.mpr ⟨_, h, rfl⟩

theorem inRangeE_weights (n m : Nat) (E : List (Ent α)) (h : ∀ e ∈ E, e.2.2 = 1) :
    ∀ e ∈ inRangeE n m E, e.2.2 = 1 := fun e he => h e (List.mem_filter.mp he).1

theorem gatherE_weights (osh ish : List Int) (g : List Int → Option (List Int)) :
    ∀ e ∈ (gatherE osh ish g : List (Ent α)), e.2.2 = 1 := by
  intro e he
  unfold gatherE at he
  obtain ⟨k, _, hk⟩ := List.mem_filterMap.mp he
  cases hg : g k with
  | none => simp [hg] at hk
  | some j => simp [hg] at hk; rw [← hk]

end
end SigpyVerif.C01
