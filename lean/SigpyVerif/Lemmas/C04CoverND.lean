import SigpyVerif.Lemmas.C04Cover
/-
  C04 — the normal operator of `ArrayToBlocks` in 2-D and 3-D is multiplication by the product of
  the per-axis 1-D cover counts (`coverPairs`, Lemmas/C04Cover.lean).  Everything is about the loop
  nests `Gen.a2b2 / b2a2 / a2b3 / b2a3` regenerated from sigpy/block.py on every run.
-/
namespace SigpyVerif.C04
open SigpyVerif SigpyVerif.C01

section applyF
variable {ι κ : Type} [DecidableEq ι]

theorem applyF_ite_nil (c : Prop) [Decidable c] (L : List (ι × κ × Rat)) (x : κ → Rat) (o : ι) :
    applyF (if c then L else []) x o = if c then applyF L x o else 0 := by
  split_ifs <;> simp [applyF]

theorem applyF_singleton (e : ι × κ × Rat) (x : κ → Rat) (o : ι) :
    applyF [e] x o = if e.1 = o then e.2.2 * x e.2.1 else 0 := by
  simp [applyF]

end applyF

/-- an index test can be moved out of a range guard (orients nested `if`s: tests on the loop
    variables of the outer loops first) -/
theorem ite_le_eq_swap (u v a b : Int) (t : Rat) :
    (if u ≤ v then (if a = b then t else 0) else 0) = if a = b then (if u ≤ v then t else 0) else 0 := by
  split_ifs <;> rfl

theorem ite_lt_eq_swap (u v a b : Int) (t : Rat) :
    (if u < v then (if a = b then t else 0) else 0) = if a = b then (if u < v then t else 0) else 0 := by
  split_ifs <;> rfl

theorem sum_map_zero {β : Type} (l : List β) (f : β → Rat) (h : ∀ a ∈ l, f a = 0) : (l.map f).sum = 0 := by
  apply List.sum_eq_zero
  intro z hz
  obtain ⟨a, ha, rfl⟩ := List.mem_map.mp hz
  exact h a ha

/-! ### 2-D -/

/-- `_array_to_blocks2` as a function: block entry `(b, ny, nx, y, x)` is array entry
    `(b, ny·Sy + y, nx·Sx + x)` when everything is in range, else 0. -/
theorem a2b2_apply (osh ish : Int → Int) (batch Bx By Sx Sy Nx Ny : Int) (x : List Int → Rat)
    (b ny nx y' x' : Int) :
    applyF (Gen.a2b2 osh ish batch Bx By Sx Sy Nx Ny) x [b, ny, nx, y', x'] =
      if (0 ≤ b ∧ b < batch) then if (0 ≤ ny ∧ ny < Ny) then if (0 ≤ nx ∧ nx < Nx) then
        if (0 ≤ y' ∧ y' < By) then if (0 ≤ x' ∧ x' < Bx) then
        if (nx * Sx + x' < ish (-1) ∧ ny * Sy + y' < ish (-2)) then x [b, ny * Sy + y', nx * Sx + x']
        else 0 else 0 else 0 else 0 else 0 else 0 := by
  unfold Gen.a2b2
  simp only [applyF_flatMap, applyF_ite_singleton]
  simp only [List.cons.injEq, and_true, ite_and,
    sum_map_ite_out, sum_map_ite_pyRange, mem_pyRange0', one_mul]

/-- `_blocks_to_array2` as a function: array entry `(b, iy, ix)` is the sum of the block entries the
    two scatter loops visit. -/
theorem b2a2_apply (osh ish : Int → Int) (batch Bx By Sx Sy Nx Ny : Int) (y : List Int → Rat) (b iy ix : Int) :
    applyF (Gen.b2a2 osh ish batch Bx By Sx Sy Nx Ny) y [b, iy, ix] =
      if (0 ≤ b ∧ b < batch) then if (0 ≤ iy ∧ iy < osh (-2)) then if (0 ≤ ix ∧ ix < osh (-1)) then
        ((pyRange (pyMod iy Sy) By Sy).map fun by' =>
          if (0 ≤ pyDiv (iy - by') Sy ∧ pyDiv (iy - by') Sy < Ny) then
            ((pyRange (pyMod ix Sx) Bx Sx).map fun bx =>
              if (0 ≤ pyDiv (ix - bx) Sx ∧ pyDiv (ix - bx) Sx < Nx) then
                y [b, pyDiv (iy - by') Sy, pyDiv (ix - bx) Sx, by', bx] else 0).sum
          else 0).sum
      else 0 else 0 else 0 := by
  unfold Gen.b2a2
  simp only [applyF_flatMap, applyF_ite_nil, applyF_singleton]
  simp only [List.cons.injEq, and_true, ite_and, ite_le_eq_swap, ite_lt_eq_swap,
    sum_map_ite_out, sum_map_ite_pyRange, mem_pyRange0', one_mul, ge_iff_le]

/-- **ArrayToBlocks.N in 2-D is multiplication by the product of the per-axis cover counts:**
    `A.H (A x)[b, iy, ix] = cover_y(iy) · cover_x(ix) · x[b, iy, ix]`, where `cover_y(iy)` is the number
    of (block, offset) pairs of the `y` layout `(By, Sy, Ny)` landing on `iy`, and likewise for `x`.
    So `N = Identity` exactly when both axes are covered exactly once. -/
theorem b2a2_a2b2_cover (osh ish osh' ish' : Int → Int) (batch Bx By Sx Sy Nx Ny : Int)
    (hSx : 0 < Sx) (hSy : 0 < Sy) (hlen1 : osh (-1) = ish' (-1)) (hlen2 : osh (-2) = ish' (-2))
    (x : List Int → Rat) (b iy ix : Int) (hb : 0 ≤ b ∧ b < batch)
    (hiy : 0 ≤ iy ∧ iy < osh (-2)) (hix : 0 ≤ ix ∧ ix < osh (-1)) :
    applyF (Gen.b2a2 osh ish batch Bx By Sx Sy Nx Ny)
        (applyF (Gen.a2b2 osh' ish' batch Bx By Sx Sy Nx Ny) x) [b, iy, ix]
      = ((coverPairs By Sy Ny iy : Rat) * (coverPairs Bx Sx Nx ix : Rat)) * x [b, iy, ix] := by
  rw [b2a2_apply, if_pos hb, if_pos hiy, if_pos hix, mul_assoc,
    ← coverScatter_eq_coverPairs By Sy Ny iy hSy, ← coverScatter_eq_coverPairs Bx Sx Nx ix hSx]
  unfold coverScatter
  refine Eq.trans ?_ (sum_map_ite_const _ _ _)
  congr 1
  apply List.map_congr_left
  intro by' hby
  split_ifs with hgy
  · refine Eq.trans ?_ (sum_map_ite_const _ _ _)
    congr 1
    apply List.map_congr_left
    intro bx hbx
    split_ifs with hgx
    · obtain ⟨y1, y2, y3, y4, y5⟩ := (scatter_iff Sy By Ny iy by' hSy).mp ⟨hby, hgy.1, hgy.2⟩
      obtain ⟨x1, x2, x3, x4, x5⟩ := (scatter_iff Sx Bx Nx ix bx hSx).mp ⟨hbx, hgx.1, hgx.2⟩
      rw [a2b2_apply, if_pos hb, if_pos ⟨y3, y4⟩, if_pos ⟨x3, x4⟩, if_pos ⟨y1, y2⟩, if_pos ⟨x1, x2⟩,
        ← y5, ← x5, if_pos ⟨hlen1 ▸ hix.2, hlen2 ▸ hiy.2⟩]
    · rfl
  · rfl

/-! ### 3-D -/

/-- `_array_to_blocks3` as a function. -/
theorem a2b3_apply (osh ish : Int → Int) (batch Bx By Bz Sx Sy Sz Nx Ny Nz : Int) (x : List Int → Rat)
    (b nz ny nx z' y' x' : Int) :
    applyF (Gen.a2b3 osh ish batch Bx By Bz Sx Sy Sz Nx Ny Nz) x [b, nz, ny, nx, z', y', x'] =
      if (0 ≤ b ∧ b < batch) then if (0 ≤ nz ∧ nz < Nz) then if (0 ≤ ny ∧ ny < Ny) then
        if (0 ≤ nx ∧ nx < Nx) then if (0 ≤ z' ∧ z' < Bz) then if (0 ≤ y' ∧ y' < By) then
        if (0 ≤ x' ∧ x' < Bx) then
        if (nx * Sx + x' < ish (-1) ∧ ny * Sy + y' < ish (-2) ∧ nz * Sz + z' < ish (-3)) then
          x [b, nz * Sz + z', ny * Sy + y', nx * Sx + x']
        else 0 else 0 else 0 else 0 else 0 else 0 else 0 else 0 := by
  unfold Gen.a2b3
  simp only [applyF_flatMap, applyF_ite_singleton]
  simp only [List.cons.injEq, and_true, ite_and,
    sum_map_ite_out, sum_map_ite_pyRange, mem_pyRange0', one_mul]

/-- `_blocks_to_array3` as a function: the three scatter loops and their joint guard. -/
theorem b2a3_apply (osh ish : Int → Int) (batch Bx By Bz Sx Sy Sz Nx Ny Nz : Int) (y : List Int → Rat)
    (b iz iy ix : Int) :
    applyF (Gen.b2a3 osh ish batch Bx By Bz Sx Sy Sz Nx Ny Nz) y [b, iz, iy, ix] =
      if (0 ≤ b ∧ b < batch) then if (0 ≤ iz ∧ iz < osh (-3)) then if (0 ≤ iy ∧ iy < osh (-2)) then
      if (0 ≤ ix ∧ ix < osh (-1)) then
        ((pyRange (pyMod iz Sz) Bz Sz).map fun bz =>
          ((pyRange (pyMod iy Sy) By Sy).map fun by' =>
            ((pyRange (pyMod ix Sx) Bx Sx).map fun bx =>
              if (0 ≤ pyDiv (ix - bx) Sx ∧ pyDiv (ix - bx) Sx < Nx ∧ 0 ≤ pyDiv (iy - by') Sy ∧
                  pyDiv (iy - by') Sy < Ny ∧ 0 ≤ pyDiv (iz - bz) Sz ∧ pyDiv (iz - bz) Sz < Nz) then
                y [b, pyDiv (iz - bz) Sz, pyDiv (iy - by') Sy, pyDiv (ix - bx) Sx, bz, by', bx]
              else 0).sum).sum).sum
      else 0 else 0 else 0 else 0 := by
  unfold Gen.b2a3
  simp only [applyF_flatMap, applyF_ite_singleton]
  simp only [List.cons.injEq, and_true, ite_and,
    sum_map_ite_out, sum_map_ite_pyRange, mem_pyRange0', one_mul, ge_iff_le]

/-- **ArrayToBlocks.N in 3-D:**
    `A.H (A x)[b, iz, iy, ix] = cover_z(iz) · cover_y(iy) · cover_x(ix) · x[b, iz, iy, ix]`. -/
theorem b2a3_a2b3_cover (osh ish osh' ish' : Int → Int) (batch Bx By Bz Sx Sy Sz Nx Ny Nz : Int)
    (hSx : 0 < Sx) (hSy : 0 < Sy) (hSz : 0 < Sz)
    (hlen1 : osh (-1) = ish' (-1)) (hlen2 : osh (-2) = ish' (-2)) (hlen3 : osh (-3) = ish' (-3))
    (x : List Int → Rat) (b iz iy ix : Int) (hb : 0 ≤ b ∧ b < batch)
    (hiz : 0 ≤ iz ∧ iz < osh (-3)) (hiy : 0 ≤ iy ∧ iy < osh (-2)) (hix : 0 ≤ ix ∧ ix < osh (-1)) :
    applyF (Gen.b2a3 osh ish batch Bx By Bz Sx Sy Sz Nx Ny Nz)
        (applyF (Gen.a2b3 osh' ish' batch Bx By Bz Sx Sy Sz Nx Ny Nz) x) [b, iz, iy, ix]
      = ((coverPairs Bz Sz Nz iz : Rat) * (coverPairs By Sy Ny iy : Rat) * (coverPairs Bx Sx Nx ix : Rat))
          * x [b, iz, iy, ix] := by
  rw [b2a3_apply, if_pos hb, if_pos hiz, if_pos hiy, if_pos hix, mul_assoc, mul_assoc,
    ← coverScatter_eq_coverPairs Bz Sz Nz iz hSz, ← coverScatter_eq_coverPairs By Sy Ny iy hSy,
    ← coverScatter_eq_coverPairs Bx Sx Nx ix hSx]
  unfold coverScatter
  refine Eq.trans ?_ (sum_map_ite_const _ _ _)
  congr 1
  apply List.map_congr_left
  intro bz hbz
  by_cases hgz : 0 ≤ pyDiv (iz - bz) Sz ∧ pyDiv (iz - bz) Sz < Nz
  · rw [if_pos hgz]
    refine Eq.trans ?_ (sum_map_ite_const _ _ _)
    congr 1
    apply List.map_congr_left
    intro by' hby
    by_cases hgy : 0 ≤ pyDiv (iy - by') Sy ∧ pyDiv (iy - by') Sy < Ny
    · rw [if_pos hgy]
      refine Eq.trans ?_ (sum_map_ite_const _ _ _)
      congr 1
      apply List.map_congr_left
      intro bx hbx
      by_cases hgx : 0 ≤ pyDiv (ix - bx) Sx ∧ pyDiv (ix - bx) Sx < Nx
      · obtain ⟨z1, z2, z3, z4, z5⟩ := (scatter_iff Sz Bz Nz iz bz hSz).mp ⟨hbz, hgz.1, hgz.2⟩
        obtain ⟨y1, y2, y3, y4, y5⟩ := (scatter_iff Sy By Ny iy by' hSy).mp ⟨hby, hgy.1, hgy.2⟩
        obtain ⟨x1, x2, x3, x4, x5⟩ := (scatter_iff Sx Bx Nx ix bx hSx).mp ⟨hbx, hgx.1, hgx.2⟩
        rw [if_pos hgx, if_pos ⟨hgx.1, hgx.2, hgy.1, hgy.2, hgz.1, hgz.2⟩,
          a2b3_apply, if_pos hb, if_pos ⟨z3, z4⟩, if_pos ⟨y3, y4⟩, if_pos ⟨x3, x4⟩, if_pos ⟨z1, z2⟩,
          if_pos ⟨y1, y2⟩, if_pos ⟨x1, x2⟩, ← z5, ← y5, ← x5,
          if_pos ⟨hlen1 ▸ hix.2, hlen2 ▸ hiy.2, hlen3 ▸ hiz.2⟩]
      · rw [if_neg hgx, if_neg (fun h => hgx ⟨h.1, h.2.1⟩)]
    · rw [if_neg hgy]
      apply sum_map_zero
      intro bx _
      rw [if_neg (fun h => hgy ⟨h.2.2.1, h.2.2.2.1⟩)]
  · rw [if_neg hgz]
    apply sum_map_zero
    intro by' _
    apply sum_map_zero
    intro bx _
    rw [if_neg (fun h => hgz ⟨h.2.2.2.2.1, h.2.2.2.2.2⟩)]

/-! ### witnesses -/

/-- 2-D witness: a 3 × 5 array with 2 × 2 blocks at stride 1 × 1 (2 × 4 blocks): element `(1, 1)` lies in
    `2 · 2 = 4` blocks, so `A.H A` multiplies it by 4. -/
theorem blocks2_identity_wrong_witness :
    applyF (Gen.b2a2 (shapeFn [1,3,5]) (shapeFn [1,2,4,2,2]) 1 2 2 1 1 4 2)
      (applyF (Gen.a2b2 (shapeFn [1,2,4,2,2]) (shapeFn [1,3,5]) 1 2 2 1 1 4 2)
        (fun k => if k = [0,1,1] then 1 else 0)) [0,1,1] = 4 := by
  rw [b2a2_a2b2_cover (shapeFn [1,3,5]) _ _ (shapeFn [1,3,5]) 1 2 2 1 1 4 2 (by decide) (by decide)
    rfl rfl _ 0 1 1 (by decide) (by decide) (by decide)]
  have h1 : coverPairs 2 1 2 1 = 2 := by decide
  have h2 : coverPairs 2 1 4 1 = 2 := by decide
  rw [h1, h2]
  norm_num

end SigpyVerif.C04
