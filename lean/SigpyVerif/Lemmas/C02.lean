/-
  C02 helper lemmas: soundness of the points-to analysis of `Model/C02.lean` (core Lean, no Mathlib).
-/
import SigpyVerif.Model.C02
namespace SigpyVerif.C02

theorem mem_ounion {a b : List Origin} {o : Origin} : o ∈ ounion a b ↔ o ∈ a ∨ o ∈ b := by
  unfold ounion
  simp only [List.mem_append, List.mem_filter]
  constructor
  · intro h
    cases h with
    | inl h => exact Or.inl h
    | inr h => exact Or.inr h.1
  · intro h
    cases h with
    | inl h => exact Or.inl h
    | inr h =>
      by_cases ha : o ∈ a
      · exact Or.inl ha
      · exact Or.inr ⟨h, by simp [ha]⟩

theorem mem_unionAll {ls : List (List Origin)} {o : Origin} : o ∈ unionAll ls ↔ ∃ l ∈ ls, o ∈ l := by
  induction ls with
  | nil => simp [unionAll]
  | cons l ls ih =>
    have : unionAll (l :: ls) = ounion l (unionAll ls) := rfl
    rw [this, mem_ounion, ih]
    simp

theorem subsetb_sound {a b : List Origin} (h : subsetb a b = true) : ∀ o ∈ a, o ∈ b := by
  intro o ho
  simp only [subsetb, List.all_eq_true] at h
  simpa using h o ho

/-- an interpretation of origins as sets of buffer ids; `fresh` = everything allocated after entry -/
structure Interp where
  n0 : Nat
  own : Origin → Nat → Prop
  fresh_iff : ∀ b, own .fresh b ↔ n0 ≤ b

/-- the abstract state `a` describes the concrete store `σ` (relative to the entry heap `h0`) -/
structure Consistent {n : Nat} (I : Interp) (h0 : Nat → Int) (a : Abs n) (σ : Store n) : Prop where
  next : I.n0 ≤ σ.next
  env : ∀ v b, b ∈ σ.env v → b < σ.next ∧ ∃ o ∈ a.env v, I.own o b
  heap : ∀ b, b < I.n0 → σ.heap b ≠ h0 b → ∃ o ∈ a.wr, I.own o b
  ret : ∀ b ∈ σ.ret, ∃ o ∈ a.ret, I.own o b

structure Leq {n : Nat} (a b : Abs n) : Prop where
  env : ∀ v o, o ∈ a.env v → o ∈ b.env v
  wr : ∀ o ∈ a.wr, o ∈ b.wr
  ret : ∀ o ∈ a.ret, o ∈ b.ret

theorem leqb_sound {n : Nat} {a b : Abs n} (h : leqb a b = true) : Leq a b := by
  simp only [leqb, Bool.and_eq_true, List.all_eq_true] at h
  obtain ⟨⟨h1, h2⟩, h3⟩ := h
  exact ⟨fun v o ho => subsetb_sound (h1 v (List.mem_finRange v)) o ho, subsetb_sound h2, subsetb_sound h3⟩

theorem Consistent.mono {n : Nat} {I : Interp} {h0 : Nat → Int} {a b : Abs n} {σ : Store n}
    (hle : Leq a b) (hc : Consistent I h0 a σ) : Consistent I h0 b σ := by
  refine ⟨hc.next, ?_, ?_, ?_⟩
  · intro v x hx
    obtain ⟨h1, o, ho, hown⟩ := hc.env v x hx
    exact ⟨h1, o, hle.env v o ho, hown⟩
  · intro x hx hne
    obtain ⟨o, ho, hown⟩ := hc.heap x hx hne
    exact ⟨o, hle.wr o ho, hown⟩
  · intro x hx
    obtain ⟨o, ho, hown⟩ := hc.ret x hx
    exact ⟨o, hle.ret o ho, hown⟩

theorem leq_join_left {n : Nat} (a b : Abs n) : Leq a (join a b) :=
  ⟨fun _ _ h => mem_ounion.2 (Or.inl h), fun _ h => mem_ounion.2 (Or.inl h),
   fun _ h => mem_ounion.2 (Or.inl h)⟩

theorem leq_join_right {n : Nat} (a b : Abs n) : Leq b (join a b) :=
  ⟨fun _ _ h => mem_ounion.2 (Or.inr h), fun _ h => mem_ounion.2 (Or.inr h),
   fun _ h => mem_ounion.2 (Or.inr h)⟩

theorem stepA_ok {n : Nat} (i : Instr n) (a : Abs n) : (stepA i a).ok = a.ok := by
  cases i <;> rfl

theorem ok_mono {n : Nat} : ∀ (p : Prog n) (a : Abs n), (analyze p a).ok = true → a.ok = true := by
  intro p
  induction p with
  | skip => intro a h; exact h
  | instr i => intro a h; simpa [analyze, stepA_ok] using h
  | seq p q ihp ihq => intro a h; exact ihp a (ihq _ h)
  | branch p q ihp _ =>
    intro a h
    simp only [analyze, join, Bool.and_eq_true] at h
    exact ihp a h.1
  | loop p _ =>
    intro a h
    simp only [analyze, Bool.and_eq_true] at h
    exact h.1.1.1

/-- one instruction: the abstract transfer function over-approximates every concrete step -/
theorem step_sound {n : Nat} {I : Interp} {h0 : Nat → Int} {i : Instr n} {a : Abs n} {σ σ' : Store n}
    (hs : Step i σ σ') (hc : Consistent I h0 a σ) : Consistent I h0 (stepA i a) σ' := by
  cases hs with
  | fresh _ dst w =>
    refine ⟨Nat.le_succ_of_le hc.next, ?_, ?_, hc.ret⟩
    · intro v b hb
      simp only [upd] at hb
      simp only [stepA, upd]
      split at hb
      · have hb' : b = σ.next := by simpa using hb
        subst hb'
        refine ⟨Nat.lt_succ_self _, .fresh, ?_, (I.fresh_iff _).2 hc.next⟩
        simp [*]
      · obtain ⟨h1, o, ho, hown⟩ := hc.env v b hb
        refine ⟨Nat.lt_succ_of_lt h1, o, ?_, hown⟩
        simp [*]
    · intro b hb hne
      have hbn : b ≠ σ.next := Nat.ne_of_lt (Nat.lt_of_lt_of_le hb hc.next)
      simp only [hbn, if_false] at hne
      exact hc.heap b hb hne
  | «alias» _ dst srcs l hl =>
    refine ⟨hc.next, ?_, hc.heap, hc.ret⟩
    intro v b hb
    simp only [upd] at hb
    simp only [stepA, upd]
    split at hb
    · obtain ⟨s, hs, hbs⟩ := hl b hb
      obtain ⟨h1, o, ho, hown⟩ := hc.env s b hbs
      refine ⟨h1, o, ?_, hown⟩
      simp only [*, if_true]
      exact mem_unionAll.2 ⟨a.env s, List.mem_map.2 ⟨s, hs, rfl⟩, ho⟩
    · obtain ⟨h1, o, ho, hown⟩ := hc.env v b hb
      refine ⟨h1, o, ?_, hown⟩
      simp [*]
  | copy _ dst src =>
    refine ⟨Nat.le_succ_of_le hc.next, ?_, ?_, hc.ret⟩
    · intro v b hb
      simp only [upd] at hb
      simp only [stepA, upd]
      split at hb
      · have hb' : b = σ.next := by simpa using hb
        subst hb'
        refine ⟨Nat.lt_succ_self _, .fresh, ?_, (I.fresh_iff _).2 hc.next⟩
        simp [*]
      · obtain ⟨h1, o, ho, hown⟩ := hc.env v b hb
        refine ⟨Nat.lt_succ_of_lt h1, o, ?_, hown⟩
        simp [*]
    · intro b hb hne
      have hbn : b ≠ σ.next := Nat.ne_of_lt (Nat.lt_of_lt_of_le hb hc.next)
      simp only [hbn, if_false] at hne
      exact hc.heap b hb hne
  | mutate _ v h' hh =>
    refine ⟨hc.next, hc.env, ?_, hc.ret⟩
    intro b hb hne
    simp only [stepA]
    by_cases hbv : b ∈ σ.env v
    · obtain ⟨_, o, ho, hown⟩ := hc.env v b hbv
      exact ⟨o, mem_ounion.2 (Or.inr ho), hown⟩
    · have : σ.heap b ≠ h0 b := by rw [← hh b hbv]; exact hne
      obtain ⟨o, ho, hown⟩ := hc.heap b hb this
      exact ⟨o, mem_ounion.2 (Or.inl ho), hown⟩
  | call _ dst muts alis h' next' l hn hh hl =>
    refine ⟨Nat.le_trans hc.next hn, ?_, ?_, hc.ret⟩
    · intro v b hb
      simp only [upd] at hb
      simp only [stepA, upd]
      split at hb
      · cases hl b hb with
        | inl h =>
          obtain ⟨s, hs, hbs⟩ := h
          obtain ⟨h1, o, ho, hown⟩ := hc.env s b hbs
          refine ⟨Nat.lt_of_lt_of_le h1 hn, o, ?_, hown⟩
          simp only [*, if_true]
          exact mem_ounion.2 (Or.inr (mem_unionAll.2 ⟨a.env s, List.mem_map.2 ⟨s, hs, rfl⟩, ho⟩))
        | inr h =>
          refine ⟨h.2, .fresh, ?_, (I.fresh_iff _).2 (Nat.le_trans hc.next h.1)⟩
          simp only [*, if_true]
          exact mem_ounion.2 (Or.inl (by simp))
      · obtain ⟨h1, o, ho, hown⟩ := hc.env v b hb
        refine ⟨Nat.lt_of_lt_of_le h1 hn, o, ?_, hown⟩
        simp [*]
    · intro b hb hne
      simp only [stepA]
      by_cases hbm : ∀ m ∈ muts, b ∉ σ.env m
      · have hlt : b < σ.next := Nat.lt_of_lt_of_le hb hc.next
        have : σ.heap b ≠ h0 b := by rw [← hh b hlt hbm]; exact hne
        obtain ⟨o, ho, hown⟩ := hc.heap b hb this
        exact ⟨o, mem_ounion.2 (Or.inl ho), hown⟩
      · have : ∃ m ∈ muts, b ∈ σ.env m := by
          apply Classical.byContradiction
          intro hcon
          exact hbm (fun m hm hbm' => hcon ⟨m, hm, hbm'⟩)
        obtain ⟨m, hm, hbm'⟩ := this
        obtain ⟨_, o, ho, hown⟩ := hc.env m b hbm'
        exact ⟨o, mem_ounion.2 (Or.inr (mem_unionAll.2 ⟨a.env m, List.mem_map.2 ⟨m, hm, rfl⟩, ho⟩)), hown⟩
  | ret _ v =>
    refine ⟨hc.next, hc.env, hc.heap, ?_⟩
    intro b hb
    simp only [stepA]
    cases List.mem_append.1 hb with
    | inl h =>
      obtain ⟨o, ho, hown⟩ := hc.ret b h
      exact ⟨o, mem_ounion.2 (Or.inl ho), hown⟩
    | inr h =>
      obtain ⟨_, o, ho, hown⟩ := hc.env v b h
      exact ⟨o, mem_ounion.2 (Or.inr ho), hown⟩

/-- a checked loop invariant is preserved by any number of iterations -/
theorem loop_sound {n : Nat} {I : Interp} {h0 : Nat → Int} {p : Prog n} (A : Abs n)
    (ih : ∀ σ σ', Exec p σ σ' → Consistent I h0 A σ → Consistent I h0 (analyze p A) σ')
    (hle : Leq (analyze p A) A) :
    ∀ σ σ', Exec (.loop p) σ σ' → Consistent I h0 A σ → Consistent I h0 A σ' := by
  intro σ σ' h
  generalize hq : Prog.loop p = q at h
  induction h with
  | skip => cases hq
  | instr _ => cases hq
  | seq _ _ _ _ => cases hq
  | left _ _ => cases hq
  | right _ _ => cases hq
  | loopDone σ => exact id
  | loopStep h1 _ _ ih2 =>
    cases hq
    intro hc
    exact ih2 rfl (Consistent.mono hle (ih _ _ h1 hc))

/-- MAIN LEMMA: the analysis over-approximates every execution of every program. -/
theorem analyze_sound {n : Nat} (I : Interp) (h0 : Nat → Int) :
    ∀ (p : Prog n) (a : Abs n) (σ σ' : Store n), Exec p σ σ' → (analyze p a).ok = true →
      Consistent I h0 a σ → Consistent I h0 (analyze p a) σ' := by
  intro p
  induction p with
  | skip => intro a σ σ' h _ hc; cases h; exact hc
  | instr i =>
    intro a σ σ' h _ hc
    cases h with
    | instr hs => exact step_sound hs hc
  | seq p q ihp ihq =>
    intro a σ σ' h hok hc
    cases h with
    | seq h1 h2 => exact ihq _ _ _ h2 hok (ihp _ _ _ h1 (ok_mono q _ hok) hc)
  | branch p q ihp ihq =>
    intro a σ σ' h hok hc
    have hok' : (analyze p a).ok = true ∧ (analyze q a).ok = true := by
      simpa [analyze, join, Bool.and_eq_true] using hok
    cases h with
    | left h1 => exact Consistent.mono (leq_join_left _ _) (ihp _ _ _ h1 hok'.1 hc)
    | right h1 => exact Consistent.mono (leq_join_right _ _) (ihq _ _ _ h1 hok'.2 hc)
  | loop p ih =>
    intro a σ σ' h hok hc
    simp only [analyze, Bool.and_eq_true] at hok
    obtain ⟨⟨⟨_, hB⟩, haA⟩, hBA⟩ := hok
    have hA := Consistent.mono (leqb_sound haA) hc
    have := loop_sound (I := I) (h0 := h0) _ (fun σ σ' he hcs => ih _ σ σ' he hB hcs) (leqb_sound hBA) σ σ' h hA
    exact ⟨this.next, this.env, this.heap, this.ret⟩

theorem init_ne_fresh {n : Nat} (f : Func n) (v : Fin n) : ∀ o ∈ f.init v, o ≠ .fresh := by
  intro o ho
  unfold Func.init at ho
  split at ho
  · simp at ho; subst ho; simp
  · split at ho
    · simp at ho; subst ho; simp
    · simp at ho

end SigpyVerif.C02
