import SigpyVerif.Model.C01
import SigpyVerif.Model.C04
import SigpyVerif.Lemmas.Py
import Mathlib.Tactic.Ring
import Mathlib.Tactic.Linarith
import Mathlib.Data.List.Basic
import Mathlib.Data.List.Nodup
import Mathlib.Data.List.Perm.Basic
import Mathlib.Data.List.Perm.Subperm
import Mathlib.Algebra.BigOperators.Group.List.Basic
import Mathlib.Algebra.Order.Ring.Rat
/-
  C04 — the normal operator of `ArrayToBlocks` in 1-D is multiplication by the cover count
  (how many blocks contain an array index), not the identity.
-/
namespace SigpyVerif.C04
open SigpyVerif SigpyVerif.C01

/- `coverPairs B S N i` (Model/C04.lean): number of (block n, offset x) pairs landing on array index i -/

/-- the same count, written the way the scatter loop of `_blocks_to_array1` enumerates it -/
def coverScatter (B S N i : Int) : Nat :=
  ((pyRange (pyMod i S) B S).filter fun bx =>
    decide (0 ≤ pyDiv (i - bx) S ∧ pyDiv (i - bx) S < N)).length

/-- a Python `range(a, b, s)` never repeats a value (local copy of `C01.pyRange_nodup`, so that this
    file does not depend on `Lemmas/C01Block`) -/
theorem pyRange_nodup' (a b s : Int) : (pyRange a b s).Nodup := by
  unfold pyRange
  split_ifs with hs
  · exact List.nodup_nil
  · refine List.Nodup.map ?_ List.nodup_range
    intro k₁ k₂ h
    have h' : (k₁ : Int) * s = (k₂ : Int) * s := by simpa using h
    have : (k₁ : Int) = (k₂ : Int) := Int.eq_of_mul_eq_mul_right (by omega) h'
    exact_mod_cast this

/-- quotient recovered by the scatter loop: `((n·S + x) - x) // S = n` (local copy of
    `C01.pyDiv_block`) -/
theorem pyDiv_block' (n S x : Int) (hS : 0 < S) : pyDiv (n * S + x - x) S = n := by
  rw [pyDiv_of_pos _ hS]; simp [Int.mul_ediv_cancel _ (ne_of_gt hS)]

/-! ### `applyF` of loop nests -/

section applyF
variable {ι κ β : Type} [DecidableEq ι]

theorem applyF_flatMap (l : List β) (f : β → List (ι × κ × Rat)) (x : κ → Rat) (o : ι) :
    applyF (l.flatMap f) x o = (l.map fun a => applyF (f a) x o).sum := by
  induction l with
  | nil => simp [applyF]
  | cons a l ih =>
    rw [List.flatMap_cons, List.map_cons, List.sum_cons, ← ih]
    unfold applyF
    rw [List.map_append, List.sum_append]

theorem applyF_ite_singleton (c : Prop) [Decidable c] (e : ι × κ × Rat) (x : κ → Rat) (o : ι) :
    applyF (if c then [e] else []) x o = if e.1 = o then (if c then e.2.2 * x e.2.1 else 0) else 0 := by
  unfold applyF
  split_ifs <;> simp_all

end applyF

/-- a condition that does not depend on the loop variable can be pulled out of the sum -/
theorem sum_map_ite_out {β : Type} (c : Prop) [Decidable c] (l : List β) (f : β → Rat) :
    (l.map fun a => if c then f a else 0).sum = if c then (l.map f).sum else 0 := by
  split_ifs <;> simp

/-- a sum over a duplicate-free list of terms that vanish except at `k0` collapses -/
theorem sum_map_ite_eq {l : List Int} (hl : l.Nodup) (k0 : Int) (f : Int → Rat) :
    (l.map fun k => if k = k0 then f k else 0).sum = if k0 ∈ l then f k0 else 0 := by
  induction l with
  | nil => simp
  | cons a l ih =>
    rw [List.nodup_cons] at hl
    rw [List.map_cons, List.sum_cons, ih hl.2]
    by_cases h : a = k0
    · subst h; simp [hl.1]
    · have h' : ¬ k0 = a := fun e => h e.symm
      simp [h, h']

theorem sum_map_ite_pyRange (a b s k0 : Int) (f : Int → Rat) :
    ((pyRange a b s).map fun k => if k = k0 then f k else 0).sum =
      if k0 ∈ pyRange a b s then f k0 else 0 :=
  sum_map_ite_eq (pyRange_nodup' a b s) k0 f

/-- summing a constant over the entries that pass a test counts them -/
theorem sum_map_ite_const {β : Type} (l : List β) (p : β → Prop) [DecidablePred p] (c : Rat) :
    (l.map fun a => if p a then c else 0).sum = ((l.filter fun a => decide (p a)).length : Rat) * c := by
  induction l with
  | nil => simp
  | cons a l ih =>
    rw [List.map_cons, List.sum_cons, ih]
    by_cases h : p a
    · simp [h]; ring
    · simp [h]

/-! ### gather and scatter as functions -/

/-- `_array_to_blocks1` as a function: block entry `(b, n, x')` is array entry `(b, n·S + x')` when
    everything is in range, else 0. -/
theorem a2b1_apply (osh ish : Int → Int) (batch B S N : Int) (x : List Int → Rat) (b n x' : Int) :
    applyF (Gen.a2b1 osh ish batch B S N) x [b, n, x'] =
      if (0 ≤ b ∧ b < batch) then if (0 ≤ n ∧ n < N) then if (0 ≤ x' ∧ x' < B) then
        if n * S + x' < ish (-1) then x [b, n * S + x'] else 0 else 0 else 0 else 0 := by
  unfold Gen.a2b1
  simp only [applyF_flatMap, applyF_ite_singleton]
  simp only [List.cons.injEq, and_true, ite_and,
    sum_map_ite_out, sum_map_ite_pyRange, mem_pyRange0', one_mul]

/-- `_blocks_to_array1` as a function: array entry `(b, i)` is the sum of the block entries the
    scatter loop visits. -/
theorem b2a1_apply (osh ish : Int → Int) (batch B S N : Int) (y : List Int → Rat) (b i : Int) :
    applyF (Gen.b2a1 osh ish batch B S N) y [b, i] =
      if (0 ≤ b ∧ b < batch) then if (0 ≤ i ∧ i < osh (-1)) then
        ((pyRange (pyMod i S) B S).map fun bx =>
          if (0 ≤ pyDiv (i - bx) S ∧ pyDiv (i - bx) S < N) then y [b, pyDiv (i - bx) S, bx] else 0).sum
      else 0 else 0 := by
  unfold Gen.b2a1
  simp only [applyF_flatMap, applyF_ite_singleton]
  simp only [List.cons.injEq, and_true, ite_and,
    sum_map_ite_out, sum_map_ite_pyRange, mem_pyRange0', one_mul, ge_iff_le]

/-! ### the cover list -/

/-- the offsets `x` (one per block that contains `i`) counted by `coverPairs` -/
def coverList (B S N i : Int) : List Int :=
  (pyRange0 N).flatMap fun n => (pyRange0 B).filter fun x => decide (n * S + x = i)

theorem coverPairs_eq_length (B S N i : Int) : coverPairs B S N i = (coverList B S N i).length := rfl

theorem mem_coverList {B S N i x : Int} :
    x ∈ coverList B S N i ↔ ∃ n, 0 ≤ n ∧ n < N ∧ 0 ≤ x ∧ x < B ∧ n * S + x = i := by
  unfold coverList
  simp only [List.mem_flatMap, List.mem_filter, mem_pyRange0, decide_eq_true_eq]
  constructor
  · rintro ⟨n, ⟨h1, h2⟩, ⟨h3, h4⟩, h5⟩; exact ⟨n, h1, h2, h3, h4, h5⟩
  · rintro ⟨n, h1, h2, h3, h4, h5⟩; exact ⟨n, ⟨h1, h2⟩, ⟨h3, h4⟩, h5⟩

/-- for a positive stride, an offset belongs to at most one block through `i` -/
theorem coverList_nodup (B S N i : Int) (hS : 0 < S) : (coverList B S N i).Nodup := by
  unfold coverList
  rw [List.nodup_flatMap]
  refine ⟨fun n _ => (pyRange_nodup' _ _ _).filter _, (pyRange_nodup' _ _ _).pairwise_of_forall_ne ?_⟩
  intro n _ m _ hnm
  show List.Disjoint _ _
  rw [List.disjoint_left]
  intro x hx hy
  simp only [List.mem_filter, decide_eq_true_eq] at hx hy
  apply hnm
  have h : n * S = m * S := by linarith [hx.2, hy.2]
  exact Int.eq_of_mul_eq_mul_right (by omega) h

/-- The scatter loop of `_blocks_to_array1` visits, for array index `i`, exactly as many block
    entries as there are (block, offset) pairs covering `i`. -/
theorem coverScatter_eq_coverPairs (B S N i : Int) (hS : 0 < S) :
    coverScatter B S N i = coverPairs B S N i := by
  rw [coverPairs_eq_length]
  unfold coverScatter
  apply List.Perm.length_eq
  rw [List.perm_ext_iff_of_nodup ((pyRange_nodup' _ _ _).filter _) (coverList_nodup B S N i hS)]
  intro x
  rw [mem_coverList, List.mem_filter, decide_eq_true_eq, scatter_iff S B N i x hS]
  constructor
  · rintro ⟨h1, h2, h3, h4, h5⟩
    exact ⟨pyDiv (i - x) S, h3, h4, h1, h2, h5.symm⟩
  · rintro ⟨n, h1, h2, h3, h4, h5⟩
    have hq : pyDiv (i - x) S = n := by rw [← h5]; exact pyDiv_block' n S x hS
    rw [hq]
    exact ⟨h3, h4, h1, h2, h5.symm⟩

/-! ### T1: the normal operator -/

/-- ArrayToBlocks.N in 1-D: `A.H (A x)` at array entry `(b, i)` is `x[b, i]` times the number of
    block entries the scatter loop adds there — not `x[b, i]` itself. -/
theorem b2a1_a2b1_cover_partial (osh ish osh' ish' : Int → Int) (batch B S N : Int) (hS : 0 < S)
    (hlen : osh (-1) = ish' (-1))
    (x : List Int → Rat) (b i : Int) (hb : 0 ≤ b ∧ b < batch) (hi : 0 ≤ i ∧ i < osh (-1)) :
    applyF (Gen.b2a1 osh ish batch B S N) (applyF (Gen.a2b1 osh' ish' batch B S N) x) [b, i]
      = (coverScatter B S N i : Rat) * x [b, i] := by
  rw [b2a1_apply, if_pos hb, if_pos hi]
  unfold coverScatter
  rw [← sum_map_ite_const]
  congr 1
  apply List.map_congr_left
  intro bx hbx
  split_ifs with hg
  · obtain ⟨h1, h2, h3, h4, h5⟩ := (scatter_iff S B N i bx hS).mp ⟨hbx, hg.1, hg.2⟩
    rw [a2b1_apply, if_pos hb, if_pos ⟨h3, h4⟩, if_pos ⟨h1, h2⟩, ← h5, if_pos (hlen ▸ hi.2)]
  · rfl

/-- ArrayToBlocks.N in 1-D is multiplication by the cover count: `A.H (A x)[b, i]` equals
    `x[b, i]` times the number of blocks that contain array index `i` (so `N = Identity` only when
    every index is covered exactly once). -/
theorem b2a1_a2b1_cover (osh ish osh' ish' : Int → Int) (batch B S N : Int) (hS : 0 < S)
    (hlen : osh (-1) = ish' (-1))
    (x : List Int → Rat) (b i : Int) (hb : 0 ≤ b ∧ b < batch) (hi : 0 ≤ i ∧ i < osh (-1)) :
    applyF (Gen.b2a1 osh ish batch B S N) (applyF (Gen.a2b1 osh' ish' batch B S N) x) [b, i]
      = (coverPairs B S N i : Rat) * x [b, i] := by
  rw [b2a1_a2b1_cover_partial osh ish osh' ish' batch B S N hS hlen x b i hb hi,
    coverScatter_eq_coverPairs B S N i hS]

/-! ### T2: tiling -/

/-- Non-overlapping blocks that tile the array (stride = block length) cover every index exactly
    once: in that case, and only then, `ArrayToBlocks.N = Identity` is right. -/
theorem cover_tiling (B N i : Int) (hB : 0 < B) (hi : 0 ≤ i ∧ i < N * B) : coverPairs B B N i = 1 := by
  rw [coverPairs_eq_length]
  have hp : (coverList B B N i).Perm [i % B] := by
    rw [List.perm_ext_iff_of_nodup (coverList_nodup B B N i hB) (List.nodup_singleton _)]
    intro x
    rw [mem_coverList, List.mem_singleton]
    constructor
    · rintro ⟨n, h1, h2, h3, h4, h5⟩
      rw [← h5, add_comm, Int.add_mul_emod_self_right, Int.emod_eq_of_lt h3 h4]
    · rintro rfl
      refine ⟨i / B, Int.ediv_nonneg hi.1 (le_of_lt hB), Int.ediv_lt_of_lt_mul hB hi.2,
        Int.emod_nonneg _ (ne_of_gt hB), Int.emod_lt_of_pos _ hB, ?_⟩
      have := Int.emod_add_mul_ediv i B
      linarith [mul_comm B (i / B)]
  simpa using hp.length_eq

/-! ### T3: witnesses -/

/-- Array length 5, block 2, stride 1 (4 blocks): index 1 lies in two blocks. -/
theorem cover_witness : coverPairs 2 1 4 1 = 2 := by decide

/-- Concrete counterexample to `ArrayToBlocks.N = Identity`: for array length 5, block 2, stride 1
    the unit vector at index 1 is mapped by `A.H A` to 2 at index 1, not 1. -/
theorem blocks_identity_wrong_witness :
    applyF (Gen.b2a1 (shapeFn [1,5]) (shapeFn [1,4,2]) 1 2 1 4)
      (applyF (Gen.a2b1 (shapeFn [1,4,2]) (shapeFn [1,5]) 1 2 1 4)
        (fun k => if k = [0,1] then 1 else 0)) [0,1] = 2 := by
  rw [b2a1_a2b1_cover (shapeFn [1,5]) (shapeFn [1,4,2]) (shapeFn [1,4,2]) (shapeFn [1,5]) 1 2 1 4
    (by decide) rfl _ 0 1 (by decide) (by decide), cover_witness]
  norm_num

/-! ### T4: overlap and gap -/

/-- Overlapping blocks (stride < block length, at least two blocks): array index `S` is covered at
    least twice (block 0 offset `S`, block 1 offset 0), so `ArrayToBlocks.N ≠ Identity` there. -/
theorem cover_overlap (B S N : Int) (hS : 0 < S) (hSB : S < B) (hN : 2 ≤ N) :
    2 ≤ coverPairs B S N S := by
  rw [coverPairs_eq_length]
  have hnd : ([0, S] : List Int).Nodup := by simp; omega
  have hsub : ([0, S] : List Int) ⊆ coverList B S N S := by
    intro x hx
    rw [mem_coverList]
    simp only [List.mem_cons, List.not_mem_nil, or_false] at hx
    rcases hx with rfl | rfl
    · exact ⟨1, by omega, by omega, by omega, by omega, by ring⟩
    · exact ⟨0, by omega, by omega, by omega, by omega, by ring⟩
  simpa using (List.subperm_of_subset hnd hsub).length_le

/-- Blocks with gaps (stride > block length): array index `B` is in no block, so there
    `A.H A x = 0` and `ArrayToBlocks.N ≠ Identity`. -/
theorem cover_gap (B S N : Int) (hB : 0 < B) (hBS : B < S) : coverPairs B S N B = 0 := by
  rw [coverPairs_eq_length, List.length_eq_zero_iff, List.eq_nil_iff_forall_not_mem]
  intro x hx
  rw [mem_coverList] at hx
  obtain ⟨n, h1, h2, h3, h4, h5⟩ := hx
  rcases lt_or_ge n 1 with hn | hn
  · have : n = 0 := by omega
    subst this; omega
  · nlinarith

end SigpyVerif.C04
