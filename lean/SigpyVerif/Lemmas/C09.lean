import SigpyVerif.Model.C09
import SigpyVerif.Lemmas.Py
import Mathlib.Data.List.Basic
import Mathlib.Data.List.Forall2
import Mathlib.Tactic.Ring
import Mathlib.Tactic.Linarith
/-
  Row-major facts for C09: `shapeProd`, `ravel`, `allIdx` (Model/Py.lean) and the reading of
  `((allIdx sh).map f).toArray` at position `ravel sh k` — the shape every C09 model function has.
-/
namespace SigpyVerif.C09
open SigpyVerif

/-! ### products of shapes -/

theorem foldl_mul (s : List Int) (a : Int) : s.foldl (· * ·) a = a * s.foldl (· * ·) 1 := by
  induction s generalizing a with
  | nil => simp
  | cons n s ih => simp only [List.foldl_cons]; rw [ih (a * n), ih (1 * n)]; ring

theorem shapeProd_nil : shapeProd [] = 1 := rfl

theorem shapeProd_cons (n : Int) (s : List Int) : shapeProd (n :: s) = n * shapeProd s := by
  unfold shapeProd; simp only [List.foldl_cons]; rw [foldl_mul]; ring

theorem shapeProd_append (a b : List Int) : shapeProd (a ++ b) = shapeProd a * shapeProd b := by
  induction a with
  | nil => simp [shapeProd_nil]
  | cons n a ih => rw [List.cons_append, shapeProd_cons, shapeProd_cons, ih]; ring

theorem shapeProd_replicate_one (m : Nat) : shapeProd (List.replicate m 1) = 1 := by
  induction m with
  | zero => rfl
  | succ m ih => rw [List.replicate_succ, shapeProd_cons, ih]; ring

theorem shapeProd_pos (s : List Int) (h : ∀ n ∈ s, 0 < n) : 0 < shapeProd s := by
  induction s with
  | nil => simp [shapeProd_nil]
  | cons n s ih =>
    rw [shapeProd_cons]
    exact Int.mul_pos (h n (by simp)) (ih fun m hm => h m (by simp [hm]))

theorem shapeProd_nonneg (s : List Int) (h : ∀ n ∈ s, 0 ≤ n) : 0 ≤ shapeProd s := by
  induction s with
  | nil => simp [shapeProd_nil]
  | cons n s ih =>
    rw [shapeProd_cons]
    exact Int.mul_nonneg (h n (by simp)) (ih fun m hm => h m (by simp [hm]))

/-! ### ravel -/

private theorem ravel_foldl (l : List (Int × Int)) (a : Int) :
    l.foldl (fun acc (p : Int × Int) => acc * p.1 + p.2) a
      = a * shapeProd (l.map Prod.fst) + l.foldl (fun acc (p : Int × Int) => acc * p.1 + p.2) 0 := by
  induction l generalizing a with
  | nil => simp [shapeProd_nil]
  | cons p l ih =>
    simp only [List.foldl_cons, List.map_cons]
    rw [ih (a * p.1 + p.2), ih (0 * p.1 + p.2), shapeProd_cons]; ring

theorem ravel_nil : ravel [] [] = 0 := rfl

/-- row-major: the leading index is multiplied by the product of the trailing extents -/
theorem ravel_cons (n i : Int) (sh k : List Int) (h : k.length = sh.length) :
    ravel (n :: sh) (i :: k) = i * shapeProd sh + ravel sh k := by
  unfold ravel
  simp only [List.zip_cons_cons, List.foldl_cons]
  have e : (fun (acc : Int) (x : Int × Int) => match x with | (n, i) => acc * n + i)
      = fun acc (p : Int × Int) => acc * p.1 + p.2 := by
    funext acc x; rfl
  rw [e, ravel_foldl, List.map_fst_zip (by omega)]
  ring

/-! ### allIdx -/

theorem pyRange0_eq (n : Int) : pyRange0 n = (List.range n.toNat).map (fun m : Nat => (m : Int)) := by
  unfold pyRange0 pyRange
  simp

theorem allIdx_cons (n : Int) (sh : List Int) :
    allIdx (n :: sh) = (pyRange0 n).flatMap fun i => (allIdx sh).map (i :: ·) := rfl

/-- the multi-indices of a shape are exactly the in-range index tuples -/
theorem mem_allIdx {sh k : List Int} :
    k ∈ allIdx sh ↔ List.Forall₂ (fun n i => 0 ≤ i ∧ i < n) sh k := by
  induction sh generalizing k with
  | nil => simp [allIdx]
  | cons n sh ih =>
    rw [allIdx_cons]
    simp only [List.mem_flatMap, List.mem_map, mem_pyRange0]
    constructor
    · rintro ⟨i, hi, ks, hks, rfl⟩
      exact List.Forall₂.cons hi (ih.mp hks)
    · intro h
      cases h with
      | cons hi hks => exact ⟨_, hi, _, ih.mpr hks, rfl⟩

theorem length_of_mem_allIdx {sh k : List Int} (h : k ∈ allIdx sh) : k.length = sh.length :=
  (mem_allIdx.mp h).length_eq.symm

/-- index form of `mem_allIdx` -/
theorem mem_allIdx_iff_getD {sh k : List Int} :
    k ∈ allIdx sh ↔ k.length = sh.length ∧
      ∀ d, d < sh.length → 0 ≤ k.getD d 0 ∧ k.getD d 0 < sh.getD d 0 := by
  rw [mem_allIdx]
  induction sh generalizing k with
  | nil => cases k <;> simp
  | cons n sh ih =>
    cases k with
    | nil => simp
    | cons i k =>
      rw [List.forall₂_cons, ih]
      constructor
      · rintro ⟨hi, hl, h⟩
        refine ⟨by simp [hl], fun d hd => ?_⟩
        cases d with
        | zero => simpa using hi
        | succ d => simpa using h d (by simpa using hd)
      · rintro ⟨hl, h⟩
        refine ⟨by simpa using h 0 (by simp), by simpa using hl, fun d hd => ?_⟩
        simpa using h (d + 1) (by simpa using hd)

theorem pos_of_mem_allIdx {sh k : List Int} (h : k ∈ allIdx sh) : ∀ n ∈ sh, 0 < n := by
  have h' := mem_allIdx.mp h
  induction h' with
  | nil => simp
  | cons hi _ ih =>
    intro m hm
    rcases List.mem_cons.mp hm with rfl | hm
    · omega
    · exact ih (mem_allIdx.mpr ‹_›) m hm

theorem length_flatMap_uniform {α β : Type} (l : List α) (f : α → List β) (P : Nat)
    (hf : ∀ a ∈ l, (f a).length = P) : (l.flatMap f).length = l.length * P := by
  induction l with
  | nil => simp
  | cons a l ih =>
    rw [List.flatMap_cons, List.length_append, hf a (by simp), ih fun b hb => hf b (by simp [hb])]
    simp only [List.length_cons]; ring

theorem getElem?_flatMap_uniform {α β : Type} (l : List α) (f : α → List β) (P : Nat)
    (hf : ∀ a ∈ l, (f a).length = P) (m r : Nat) (hr : r < P) :
    (l.flatMap f)[m * P + r]? = (l[m]?).bind fun a => (f a)[r]? := by
  induction l generalizing m with
  | nil => simp
  | cons a l ih =>
    have ha : (f a).length = P := hf a (by simp)
    rw [List.flatMap_cons]
    cases m with
    | zero =>
      simp only [Nat.zero_mul, Nat.zero_add, List.getElem?_cons_zero, Option.bind_some]
      exact List.getElem?_append_left (by omega)
    | succ m =>
      rw [List.getElem?_append_right (by rw [ha]; nlinarith)]
      have : (m + 1) * P + r - (f a).length = m * P + r := by rw [ha]; ring_nf; omega
      rw [this, ih (fun b hb => hf b (by simp [hb])) m]
      simp

/-- number of multi-indices = product of the extents -/
theorem allIdx_length (sh : List Int) (h : ∀ n ∈ sh, 0 ≤ n) :
    (allIdx sh).length = (shapeProd sh).toNat := by
  induction sh with
  | nil => simp [allIdx, shapeProd_nil]
  | cons n sh ih =>
    have hn : 0 ≤ n := h n (by simp)
    have ih' := ih fun m hm => h m (by simp [hm])
    rw [allIdx_cons, length_flatMap_uniform _ _ (allIdx sh).length (by simp), pyRange0_eq,
      shapeProd_cons, ih']
    simp only [List.length_map, List.length_range]
    have hp : 0 ≤ shapeProd sh := shapeProd_nonneg sh fun m hm => h m (by simp [hm])
    zify
    rw [Int.toNat_of_nonneg hn, Int.toNat_of_nonneg hp, Int.toNat_of_nonneg (Int.mul_nonneg hn hp)]

/-- **Row-major enumeration.**  `allIdx sh` lists the multi-indices in the order of their flat
    index: position `ravel sh k` holds `k` (and the flat index is within the array). -/
theorem allIdx_getElem?_ravel {sh k : List Int} (hk : k ∈ allIdx sh) :
    0 ≤ ravel sh k ∧ ravel sh k < shapeProd sh ∧ (allIdx sh)[(ravel sh k).toNat]? = some k := by
  induction sh generalizing k with
  | nil =>
    have : k = [] := by simpa [allIdx] using hk
    subst this
    simp [allIdx, ravel_nil, shapeProd_nil]
  | cons n sh ih =>
    rw [allIdx_cons] at hk
    simp only [List.mem_flatMap, List.mem_map, mem_pyRange0] at hk
    obtain ⟨i, ⟨hi0, hin⟩, ks, hks, rfl⟩ := hk
    obtain ⟨r0, r1, hget⟩ := ih hks
    have hlen := length_of_mem_allIdx hks
    have hpos := pos_of_mem_allIdx hks
    have hP : (allIdx sh).length = (shapeProd sh).toNat := allIdx_length sh fun m hm => le_of_lt (hpos m hm)
    have hPpos : 0 < shapeProd sh := shapeProd_pos sh hpos
    rw [ravel_cons n i sh ks hlen, shapeProd_cons]
    refine ⟨by nlinarith, by nlinarith, ?_⟩
    have e : (i * shapeProd sh + ravel sh ks).toNat
        = i.toNat * (allIdx sh).length + (ravel sh ks).toNat := by
      rw [hP]; zify
      rw [Int.toNat_of_nonneg hi0, Int.toNat_of_nonneg (le_of_lt hPpos), Int.toNat_of_nonneg r0,
        Int.toNat_of_nonneg (by nlinarith)]
    have hr : (ravel sh ks).toNat < (allIdx sh).length := by rw [hP]; omega
    rw [allIdx_cons, e, getElem?_flatMap_uniform _ _ (allIdx sh).length (by simp) _ _ hr, pyRange0_eq]
    have hi : i.toNat < n.toNat := by omega
    simp only [List.getElem?_map, List.getElem?_range hi, Option.map_some, Option.bind_some, hget,
      Int.toNat_of_nonneg hi0]

/-- the flat index determines the multi-index -/
theorem ravel_injective {sh k k' : List Int} (hk : k ∈ allIdx sh) (hk' : k' ∈ allIdx sh)
    (h : ravel sh k = ravel sh k') : k = k' := by
  have h1 := (allIdx_getElem?_ravel hk).2.2
  have h2 := (allIdx_getElem?_ravel hk').2.2
  rw [h] at h1
  exact Option.some.inj (h1.symm.trans h2)

/-- **Reading a model array.**  Every C09 model function builds its output as
    `((allIdx osh).map f).toArray`; its entry at the flat position of multi-index `k` is `f k`. -/
theorem map_allIdx_getD {α : Type} [Zero α] (sh : List Int) (f : List Int → α) (k : List Int)
    (hk : k ∈ allIdx sh) :
    (((allIdx sh).map f).toArray).getD (ravel sh k).toNat 0 = f k := by
  have h := (allIdx_getElem?_ravel hk).2.2
  simp [Array.getD_eq_getD_getElem?, List.getElem?_map, h]

/-- size of a model array = product of the output shape -/
theorem map_allIdx_size {α : Type} (sh : List Int) (f : List Int → α) (h : ∀ n ∈ sh, 0 ≤ n) :
    (((allIdx sh).map f).toArray).size = (shapeProd sh).toNat := by
  simp [allIdx_length sh h]

end SigpyVerif.C09
