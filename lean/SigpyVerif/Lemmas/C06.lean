import SigpyVerif.Props.C05
import SigpyVerif.Props.C07
import SigpyVerif.Props.C09Nd
import Mathlib.Analysis.InnerProductSpace.Adjoint
import Mathlib.Analysis.InnerProductSpace.PiL2
/-
  Bridging lemmas for C06: the stage facts proved by C05 (DFT matrices), C09 (resize index relation) and
  C07 (update lists of interpolate / gridding) are turned into linear maps between the Euclidean spaces
  `EuclideanSpace ℂ (Fin n)` so that `pipeline_adjoint` can consume them.

  * `resizeMat i o`   — the 0/1 matrix of `util.resize` with default shifts on one axis (C09's `resizeSrc1`);
                         `resizeMat_transpose` : swapping the two lengths transposes it (C09.resize_transpose).
  * `updLin E n m`    — the linear map `x ↦ (runUpd true E x 0)[0, j]` of an update list with complex weights
                         (C07's sequential `+=` semantics, batch index 0); `updLin_adjoint` : with real weights,
                         the swapped list is its adjoint (C07.transpose_pairing).
  * `inner_toEuclideanLin` — `⟪A u, v⟫ = ⟪u, Aᴴ v⟫` for matrices.
-/
namespace SigpyVerif.C06
open SigpyVerif Matrix ComplexConjugate
open scoped InnerProductSpace

/-! ### matrices as maps of Euclidean spaces -/

theorem inner_toEuclideanLin {m n : Type*} [Fintype m] [Fintype n] [DecidableEq m] [DecidableEq n]
    (A : Matrix m n ℂ) (u : EuclideanSpace ℂ n) (v : EuclideanSpace ℂ m) :
    ⟪Matrix.toEuclideanLin A u, v⟫_ℂ = ⟪u, Matrix.toEuclideanLin Aᴴ v⟫_ℂ := by
  rw [Matrix.toEuclideanLin_conjTranspose_eq_adjoint, LinearMap.adjoint_inner_right]

/-! ### zero-pad / crop (C09) -/

/-- `util.resize` with default shifts on one axis of length `i`, output length `o`, as a 0/1 matrix:
    entry `(k, j)` is 1 iff output index `k` reads input index `j` in C09's model. -/
def resizeMat (i o : ℕ) : Matrix (Fin o) (Fin i) ℂ := Matrix.of fun k j =>
  if C09.resizeSrc1 (i : ℤ) (o : ℤ) (Gen.resizeIshiftDefault i o) (Gen.resizeOshiftDefault i o) ((k : ℕ) : ℤ)
      = some ((j : ℕ) : ℤ) then 1 else 0

/-- crop back = transpose of zero-pad (and vice versa): C09's `resize_transpose` with `resize_default_swap` -/
theorem resizeMat_transpose (i o : ℕ) : resizeMat o i = (resizeMat i o)ᵀ := by
  ext j k
  simp only [resizeMat, of_apply, transpose_apply]
  have h := C09.resize_transpose (i : ℤ) (o : ℤ) (Gen.resizeIshiftDefault i o) (Gen.resizeOshiftDefault i o)
    ((k : ℕ) : ℤ) ((j : ℕ) : ℤ)
  have e1 : Gen.resizeIshiftDefault (o : ℤ) i = Gen.resizeOshiftDefault i o := C09.resize_default_swap o i
  have e2 : Gen.resizeOshiftDefault (o : ℤ) i = Gen.resizeIshiftDefault i o := (C09.resize_default_swap i o).symm
  rw [e1, e2]
  simp only [← h]

theorem resizeMat_conjTranspose (i o : ℕ) : (resizeMat i o)ᴴ = resizeMat o i := by
  rw [resizeMat_transpose o i]
  ext j k
  simp only [resizeMat, conjTranspose_apply, transpose_apply, of_apply]
  split_ifs <;> simp

/-- centre alignment: entry `(k, j)` of the resize matrix is 1 iff `j - i/2 = k - o/2` -/
theorem resizeMat_apply (i o : ℕ) (k : Fin o) (j : Fin i) :
    resizeMat i o k j = if ((j : ℕ) : ℤ) - (i : ℤ) / 2 = ((k : ℕ) : ℤ) - (o : ℤ) / 2 then 1 else 0 := by
  simp only [resizeMat, of_apply, C09.resize_default_aligns]
  have hk := k.2
  have hj := j.2
  congr 1
  simp only [eq_iff_iff]
  constructor
  · rintro ⟨_, _, _, _, h⟩; exact h
  · intro h; exact ⟨by omega, by omega, by omega, by omega, h⟩

/-! ### update lists (C07) as linear maps -/

/-- a vector of length `n` as a function of the multi-index `[0, s]` (batch index 0), zero elsewhere -/
def emb (n : ℕ) (x : Fin n → ℂ) (l : List Int) : ℂ := ∑ s : Fin n, if l = [0, ((s : ℕ) : ℤ)] then x s else 0

theorem idx_inj {n : ℕ} {a b : Fin n} (h : ([0, ((a : ℕ) : ℤ)] : List Int) = [0, ((b : ℕ) : ℤ)]) : a = b := by
  simp only [List.cons.injEq, true_and, and_true] at h
  exact Fin.ext (by exact_mod_cast h)

theorem emb_apply (n : ℕ) (x : Fin n → ℂ) (s : Fin n) : emb n x [0, ((s : ℕ) : ℤ)] = x s := by
  unfold emb
  rw [Finset.sum_eq_single s]
  · simp
  · intro b _ hb
    rw [if_neg]
    intro h
    exact hb (idx_inj h).symm
  · simp

theorem emb_add (n : ℕ) (x y : Fin n → ℂ) (l : List Int) : emb n (x + y) l = emb n x l + emb n y l := by
  unfold emb
  rw [← Finset.sum_add_distrib]
  apply Finset.sum_congr rfl
  intro s _
  split_ifs <;> simp

theorem emb_smul (n : ℕ) (c : ℂ) (x : Fin n → ℂ) (l : List Int) : emb n (c • x) l = c * emb n x l := by
  unfold emb
  rw [Finset.mul_sum]
  apply Finset.sum_congr rfl
  intro s _
  split_ifs <;> simp

theorem emb_conj (n : ℕ) (x : Fin n → ℂ) (l : List Int) : conj (emb n x l) = emb n (fun s => conj (x s)) l := by
  unfold emb
  rw [map_sum]
  apply Finset.sum_congr rfl
  intro s _
  split_ifs <;> simp

/-- the result of running the update list `E` (`+=` semantics, zero-initialised output) on `x`, read at `[0, j]` -/
def updFun (E : List (Upd ℂ)) (n m : ℕ) (x : Fin n → ℂ) : Fin m → ℂ :=
  fun j => C07.runUpd true E (emb n x) (fun _ => 0) [0, ((j : ℕ) : ℤ)]

theorem updFun_eq (E : List (Upd ℂ)) (n m : ℕ) (x : Fin n → ℂ) (j : Fin m) :
    updFun E n m x j =
      ((E.filter (fun u => u.1 = [0, ((j : ℕ) : ℤ)])).map (fun u => u.2.2 * emb n x u.2.1)).sum := by
  unfold updFun
  rw [C07.runUpd_acc_eq_sum, zero_add]

theorem list_sum_map_add {α : Type} (l : List α) (f g : α → ℂ) :
    (l.map fun u => f u + g u).sum = (l.map f).sum + (l.map g).sum := by
  induction l with
  | nil => simp
  | cons a l ih => simp only [List.map_cons, List.sum_cons, ih]; ring

theorem list_sum_map_mul_left {α : Type} (l : List α) (c : ℂ) (f : α → ℂ) :
    (l.map fun u => c * f u).sum = c * (l.map f).sum := by
  induction l with
  | nil => simp
  | cons a l ih => simp only [List.map_cons, List.sum_cons, ih]; ring

theorem list_sum_map_conj {α : Type} (l : List α) (f : α → ℂ) :
    conj ((l.map f).sum) = (l.map fun u => conj (f u)).sum := by
  induction l with
  | nil => simp
  | cons a l ih => simp only [List.map_cons, List.sum_cons, map_add, ih]

theorem updFun_add (E : List (Upd ℂ)) (n m : ℕ) (x y : Fin n → ℂ) :
    updFun E n m (x + y) = updFun E n m x + updFun E n m y := by
  funext j
  simp only [Pi.add_apply, updFun_eq, emb_add, mul_add, list_sum_map_add]

theorem updFun_smul (E : List (Upd ℂ)) (n m : ℕ) (c : ℂ) (x : Fin n → ℂ) :
    updFun E n m (c • x) = c • updFun E n m x := by
  funext j
  simp only [Pi.smul_apply, smul_eq_mul, updFun_eq, emb_smul]
  rw [← list_sum_map_mul_left]
  congr 1
  apply List.map_congr_left
  intro u _
  ring

/-- real weights: running the list commutes with complex conjugation of the data -/
theorem updFun_conj (E : List (Upd ℂ)) (n m : ℕ) (hw : ∀ u ∈ E, conj u.2.2 = u.2.2) (x : Fin n → ℂ) (j : Fin m) :
    conj (updFun E n m x j) = updFun E n m (fun s => conj (x s)) j := by
  simp only [updFun_eq, list_sum_map_conj]
  congr 1
  apply List.map_congr_left
  intro u hu
  rw [map_mul, hw u (List.mem_of_mem_filter hu), emb_conj]

/-- the update list as a linear map `ℂ^n → ℂ^m` -/
noncomputable def updLin (E : List (Upd ℂ)) (n m : ℕ) : EuclideanSpace ℂ (Fin n) →ₗ[ℂ] EuclideanSpace ℂ (Fin m) where
  toFun x := WithLp.toLp 2 (updFun E n m (WithLp.ofLp x))
  map_add' x y := by
    simp only [WithLp.ofLp_add, updFun_add, WithLp.toLp_add]
  map_smul' c x := by
    simp only [WithLp.ofLp_smul, updFun_smul, WithLp.toLp_smul, RingHom.id_apply]

theorem updLin_apply (E : List (Upd ℂ)) (n m : ℕ) (x : EuclideanSpace ℂ (Fin n)) (j : Fin m) :
    WithLp.ofLp (updLin E n m x) j = updFun E n m (WithLp.ofLp x) j := rfl

theorem sum_emb_image (n : ℕ) (y : Fin n → ℂ) (f : List Int → ℂ) :
    ∑ d ∈ (Finset.univ.image fun s : Fin n => ([0, ((s : ℕ) : ℤ)] : List Int)), emb n y d * f d =
      ∑ s : Fin n, y s * f [0, ((s : ℕ) : ℤ)] := by
  rw [Finset.sum_image (fun a _ b _ h => idx_inj h)]
  apply Finset.sum_congr rfl
  intro s _
  rw [emb_apply]

/-- **gridding = interpolationᴴ** for the linear maps: when every weight of `E` is real, every destination is
    `[0, j]` with `j < m` and every source `[0, s]` with `s < n`, the swapped list is the adjoint
    (from C07's `transpose_pairing`). -/
theorem updLin_adjoint (E : List (Upd ℂ)) (n m : ℕ) (hw : ∀ u ∈ E, conj u.2.2 = u.2.2)
    (hd : ∀ u ∈ E, ∃ j : Fin m, u.1 = [0, ((j : ℕ) : ℤ)]) (hs : ∀ u ∈ E, ∃ s : Fin n, u.2.1 = [0, ((s : ℕ) : ℤ)])
    (x : EuclideanSpace ℂ (Fin n)) (y : EuclideanSpace ℂ (Fin m)) :
    ⟪updLin E n m x, y⟫_ℂ = ⟪x, updLin (E.map C07.swapUpd) m n y⟫_ℂ := by
  rw [EuclideanSpace.inner_eq_star_dotProduct, EuclideanSpace.inner_eq_star_dotProduct]
  simp only [dotProduct, Pi.star_apply, RCLike.star_def, updLin_apply]
  simp only [updFun_conj E n m hw]
  have key := C07.transpose_pairing E (emb n fun s => conj (WithLp.ofLp x s)) (emb m (WithLp.ofLp y))
    (Finset.univ.image fun s : Fin n => ([0, ((s : ℕ) : ℤ)] : List Int))
    (Finset.univ.image fun j : Fin m => ([0, ((j : ℕ) : ℤ)] : List Int))
    (fun u hu => by
      obtain ⟨s, hs'⟩ := hs u hu
      rw [hs']; exact Finset.mem_image_of_mem _ (Finset.mem_univ s))
    (fun u hu => by
      obtain ⟨j, hj'⟩ := hd u hu
      rw [hj']; exact Finset.mem_image_of_mem _ (Finset.mem_univ j))
  rw [sum_emb_image, sum_emb_image] at key
  unfold updFun
  rw [← key]
  apply Finset.sum_congr rfl
  intro s _
  ring

/-! ### real weights from a rational update list -/

/-- the update list of C07 (rational kernel arguments / weights) with every weight sent through a real-valued
    function and used as a complex multiplier: "complex data × real weights" -/
def cw (wt : Rat → ℝ) (E : List (Upd Rat)) : List (Upd ℂ) := E.map fun u => (u.1, u.2.1, ((wt u.2.2 : ℝ) : ℂ))

theorem cw_swap (wt : Rat → ℝ) (E : List (Upd Rat)) : cw wt (E.map C07.swapUpd) = (cw wt E).map C07.swapUpd := by
  simp only [cw, List.map_map]
  rfl

theorem cw_real (wt : Rat → ℝ) (E : List (Upd Rat)) : ∀ u ∈ cw wt E, conj u.2.2 = u.2.2 := by
  intro u hu
  obtain ⟨v, _, rfl⟩ := List.mem_map.mp hu
  exact Complex.conj_ofReal _

end SigpyVerif.C06
