import SigpyVerif.Lemmas.C05
import Mathlib.Algebra.BigOperators.Ring.Finset
import Mathlib.Algebra.BigOperators.Fin
import Mathlib.Data.Fintype.Pi
import Mathlib.Data.Matrix.Mul
import Mathlib.LinearAlgebra.Matrix.Reindex
set_option linter.unusedSectionVars false
/-
  Helper lemmas for the N-dimensional part of C05: the n-fold Kronecker product of a family of square
  matrices, indexed by multi-indices `(d : ι) → κ d` (no flattening: a multi-index IS the index).

    piKron A K J = ∏ d, A d (K d) (J d)

  `piKron_mul` is the n-fold mixed-product rule `(⊗ A_d)(⊗ B_d) = ⊗ (A_d B_d)`; it is the induction over
  the axes (carried out once and for all by `Fintype.prod_sum`: a product of sums is the sum over all
  choice functions) that `fft_separable_unitary` only had for two factors.
-/
namespace SigpyVerif.C05
open Matrix Finset ComplexConjugate

variable {ι : Type*} [Fintype ι] [DecidableEq ι] {κ : ι → Type*} [∀ i, Fintype (κ i)]
  [∀ i, DecidableEq (κ i)]

/-- n-fold Kronecker product of a family of square matrices, on multi-indices -/
def piKron (A : ∀ i, Matrix (κ i) (κ i) ℂ) : Matrix (∀ i, κ i) (∀ i, κ i) ℂ :=
  Matrix.of fun K J => ∏ i, A i (K i) (J i)

theorem piKron_apply (A : ∀ i, Matrix (κ i) (κ i) ℂ) (K J : ∀ i, κ i) :
    piKron A K J = ∏ i, A i (K i) (J i) := rfl

/-- mixed-product rule for any number of factors -/
theorem piKron_mul (A B : ∀ i, Matrix (κ i) (κ i) ℂ) :
    piKron A * piKron B = piKron fun i => A i * B i := by
  ext K J
  simp only [piKron, mul_apply, of_apply, ← Finset.prod_mul_distrib]
  exact (Fintype.prod_sum fun i l => A i (K i) l * B i l (J i)).symm

theorem piKron_one : piKron (fun i => (1 : Matrix (κ i) (κ i) ℂ)) = 1 := by
  ext K J
  simp only [piKron, of_apply, one_apply, Finset.prod_boole, Finset.mem_univ, forall_true_left,
    funext_iff]

theorem piKron_conjTranspose (A : ∀ i, Matrix (κ i) (κ i) ℂ) :
    (piKron A)ᴴ = piKron fun i => (A i)ᴴ := by
  ext K J
  simp only [piKron, conjTranspose_apply, of_apply, RCLike.star_def, map_prod]

/-- a Kronecker product of unitaries is unitary — any number of factors -/
theorem piKron_unitary (A : ∀ i, Matrix (κ i) (κ i) ℂ) (h : ∀ i, (A i)ᴴ * A i = 1) :
    (piKron A)ᴴ * piKron A = 1 := by
  rw [piKron_conjTranspose, piKron_mul]
  simp only [h, piKron_one]

/-- identity factors contribute Kronecker deltas: the entry is the product over the set `s` of the
    non-trivial factors' entries when the two multi-indices agree off `s`, and zero otherwise -/
theorem piKron_ite_apply (s : Finset ι) (A : ∀ i, Matrix (κ i) (κ i) ℂ) (K J : ∀ i, κ i) :
    piKron (fun i => if i ∈ s then A i else 1) K J =
      if ∀ i, i ∉ s → K i = J i then ∏ i ∈ s, A i (K i) (J i) else 0 := by
  rw [piKron_apply]
  have e : ∀ i, (if i ∈ s then A i else (1 : Matrix (κ i) (κ i) ℂ)) (K i) (J i) =
      (if i ∈ s then A i (K i) (J i) else 1) * (if i ∉ s → K i = J i then 1 else 0) := by
    intro i
    by_cases hi : i ∈ s <;> simp [hi, one_apply]
  simp only [e, Finset.prod_mul_distrib, Finset.prod_boole, Finset.mem_univ, forall_true_left]
  rw [Finset.prod_ite, Finset.prod_const_one, mul_one, Finset.filter_mem_eq_inter, Finset.univ_inter]
  split_ifs <;> simp

end SigpyVerif.C05
