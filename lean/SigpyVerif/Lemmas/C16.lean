import SigpyVerif.Model.C16
import SigpyVerif.Lemmas.Py
import Mathlib.Algebra.BigOperators.Group.List.Basic
import Mathlib.Algebra.Ring.Defs
import Mathlib.Tactic.Ring
import Mathlib.Tactic.Linarith
/-
  Helper lemmas for C16: consecutive Python slices of width `B` tile a list, and the batch loop of the
  generated formulas is exactly that tiling.
-/
namespace SigpyVerif.C16
open SigpyVerif

/-- consecutive chunks `l[k·B : (k+1)·B]`, `k < nb`, concatenate to `l` as soon as `nb·B ≥ len l` -/
theorem chunks_flatten {β : Type} (B : Nat) (hB : 0 < B) :
    ∀ (nb : Nat) (l : List β), l.length ≤ nb * B →
      ((List.range nb).map fun k => (l.drop (k * B)).take ((k + 1) * B - k * B)).flatten = l := by
  intro nb
  induction nb with
  | zero => intro l h; simp at h; simp [h]
  | succ nb ih =>
    intro l h
    rw [List.range_succ_eq_map, List.map_cons, List.flatten_cons, List.map_map]
    have hrest : (List.map ((fun k => List.take ((k + 1) * B - k * B) (List.drop (k * B) l)) ∘ Nat.succ) (List.range nb))
        = (List.range nb).map fun k => ((l.drop B).drop (k * B)).take ((k + 1) * B - k * B) := by
      apply List.map_congr_left
      intro k _
      simp only [Function.comp, Nat.succ_eq_add_one, List.drop_drop]
      have e1 : (k + 1 + 1) * B - (k + 1) * B = (k + 1) * B - k * B := by
        have : (k + 1 + 1) * B = (k + 1) * B + B := by ring
        have : (k + 1) * B = k * B + B := by ring
        omega
      have e2 : (k + 1) * B = B + k * B := by ring
      rw [e1, e2]
    have hlen : (l.drop B).length ≤ nb * B := by
      have : (nb + 1) * B = nb * B + B := by ring
      simp only [List.length_drop]
      omega
    rw [hrest, ih (l.drop B) hlen]
    simp

/-- the Python batch loop: `pyRange 0 nb 1` is `0, 1, …, nb-1` -/
theorem pyRange0_eq (nb : Nat) : pyRange (0 : Int) (nb : Int) (1 : Int) = (List.range nb).map (fun k : Nat => (k : Int)) := by
  unfold pyRange
  simp

/-- `num_coil_batches · b ≥ num_coils` -/
theorem numBatches_covers (n B : Nat) (hB : 0 < B) : n ≤ ((n + B - 1) / B) * B := by
  have h1 := Nat.div_add_mod (n + B - 1) B
  have h2 := Nat.mod_lt (n + B - 1) hB
  have : B * ((n + B - 1) / B) = (n + B - 1) / B * B := by ring
  omega

/-- the generated `num_coil_batches` on naturals -/
theorem numCoilBatches_nat (n B : Nat) (hB : 0 < B) :
    Gen.senseNumCoilBatches (n : Int) (B : Int) = (((n + B - 1) / B : Nat) : Int) := by
  unfold Gen.senseNumCoilBatches
  rw [pyDiv_of_pos _ (by exact_mod_cast hB)]
  have : ((n : Int) + (B : Int) - 1) = ((n + B - 1 : Nat) : Int) := by omega
  rw [this]
  norm_cast

/-- slicing with the generated bounds of batch `k` -/
theorem pySlice_batch {β : Type} (l : List β) (k B n : Nat) :
    pySlice l (Gen.senseMpsLo (k : Int) (B : Int) (n : Int)) (Gen.senseMpsHi (k : Int) (B : Int) (n : Int))
      = (l.drop (k * B)).take ((k + 1) * B - k * B) := by
  unfold pySlice Gen.senseMpsLo Gen.senseMpsHi
  have e1 : ((k : Int) * (B : Int)).toNat = k * B := by
    have : ((k : Int) * (B : Int)) = ((k * B : Nat) : Int) := by push_cast; ring
    rw [this, Int.toNat_natCast]
  have e2 : (((k : Int) + 1) * (B : Int)).toNat = (k + 1) * B := by
    have : (((k : Int) + 1) * (B : Int)) = (((k + 1) * B : Nat) : Int) := by push_cast; ring
    rw [this, Int.toNat_natCast]
  rw [e1, e2]

/-- The batch loop of `Sense` hands out the coils `0..n-1` in order, each exactly once: the slices
    `l[c·b : (c+1)·b]` for `c` in `range(num_coil_batches)` concatenate to `l`, for every list of
    length at most `n = num_coils` and every batch size `b ≥ 1`. Stated about the GENERATED formulas. -/
theorem batch_slices_partition {β : Type} (l : List β) (n B : Nat) (hB : 0 < B) (hl : l.length ≤ n) :
    ((Gen.senseBatchRange (Gen.senseNumCoilBatches n B) n B).map fun c =>
        pySlice l (Gen.senseMpsLo c B n) (Gen.senseMpsHi c B n)).flatten = l := by
  unfold Gen.senseBatchRange
  rw [numCoilBatches_nat _ _ hB, pyRange0_eq, List.map_map]
  have : ((fun c => pySlice l (Gen.senseMpsLo c (B : Int) (n : Int)) (Gen.senseMpsHi c (B : Int) (n : Int))) ∘ fun k : Nat => (k : Int))
      = fun k : Nat => (l.drop (k * B)).take ((k + 1) * B - k * B) := by
    funext k
    simp only [Function.comp]
    exact pySlice_batch l k B n
  rw [this]
  exact chunks_flatten B hB _ l (le_trans hl (numBatches_covers _ _ hB))

/-- slicing commutes with zipping (per-coil weights are split along with the coils) -/
theorem pySlice_zipWith {β γ δ : Type} (f : β → γ → δ) (a : List β) (b : List γ) (lo hi : Int) :
    List.zipWith f (pySlice a lo hi) (pySlice b lo hi) = pySlice (List.zipWith f a b) lo hi := by
  unfold pySlice
  rw [List.drop_zipWith, List.take_zipWith]

theorem pySlice_map {β γ : Type} (f : β → γ) (a : List β) (lo hi : Int) :
    (pySlice a lo hi).map f = pySlice (a.map f) lo hi := by
  unfold pySlice
  rw [List.map_take, List.map_drop]

end SigpyVerif.C16
