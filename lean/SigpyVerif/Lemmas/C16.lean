import SigpyVerif.Model.C16
import SigpyVerif.Lemmas.Py
import Mathlib.Algebra.BigOperators.Group.List.Basic
import Mathlib.Algebra.BigOperators.Group.Finset.Basic
import Mathlib.Algebra.Ring.Defs
import Mathlib.Tactic.Ring
import Mathlib.Tactic.Linarith
/-
  Helper lemmas for C16: consecutive Python slices of width `B` tile a list, and the batch loop of the
  generated formulas is exactly that tiling.
-/
namespace SigpyVerif.C16
open SigpyVerif

/-- consecutive chunks `l[k·B : (k+1)·B]`, `k < nb`, concatenate to `l` as soon as `nb·B ≥ len l` -/
theorem chunks_flatten {β : Type} (B : Nat) (hB : 0 < B) :
    ∀ (nb : Nat) (l : List β), l.length ≤ nb * B →
      ((List.range nb).map fun k => (l.drop (k * B)).take ((k + 1) * B - k * B)).flatten = l := by
  intro nb
  induction nb with
  | zero => intro l h; simp at h; simp [h]
  | succ nb ih =>
    intro l h
    rw [List.range_succ_eq_map, List.map_cons, List.flatten_cons, List.map_map]
    have hrest : (List.map ((fun k => List.take ((k + 1) * B - k * B) (List.drop (k * B) l)) ∘ Nat.succ) (List.range nb))
        = (List.range nb).map fun k => ((l.drop B).drop (k * B)).take ((k + 1) * B - k * B) := by
      apply List.map_congr_left
      intro k _
      simp only [Function.comp, Nat.succ_eq_add_one, List.drop_drop]
      have e1 : (k + 1 + 1) * B - (k + 1) * B = (k + 1) * B - k * B := by
        have : (k + 1 + 1) * B = (k + 1) * B + B := by ring
        have : (k + 1) * B = k * B + B := by ring
        omega
      have e2 : (k + 1) * B = B + k * B := by ring
      rw [e1, e2]
    have hlen : (l.drop B).length ≤ nb * B := by
      have : (nb + 1) * B = nb * B + B := by ring
      simp only [List.length_drop]
      omega
    rw [hrest, ih (l.drop B) hlen]
    simp

/-- the Python batch loop: `pyRange 0 nb 1` is `0, 1, …, nb-1` -/
theorem pyRange0_eq (nb : Nat) : pyRange (0 : Int) (nb : Int) (1 : Int) = (List.range nb).map (fun k : Nat => (k : Int)) := by
  unfold pyRange
  simp

/-- `num_coil_batches · b ≥ num_coils` -/
theorem numBatches_covers (n B : Nat) (hB : 0 < B) : n ≤ ((n + B - 1) / B) * B := by
  have h1 := Nat.div_add_mod (n + B - 1) B
  have h2 := Nat.mod_lt (n + B - 1) hB
  have : B * ((n + B - 1) / B) = (n + B - 1) / B * B := by ring
  omega

/-- `t / b = q` says `q·b ≤ t < q·b + b` -/
theorem ediv_char {t b q : Int} (hb : 0 < b) (h : t / b = q) : q * b ≤ t ∧ t < q * b + b := by
  subst h
  refine ⟨Int.ediv_mul_le t (ne_of_gt hb), ?_⟩
  have h := Int.lt_ediv_add_one_mul_self t hb
  have e : (t / b + 1) * b = t / b * b + b := by ring
  omega

/-- the ceiling `⌈n/b⌉` is the only `q` with `(q-1)·b < n ≤ q·b` -/
theorem ceil_unique {n b q : Int} (hb : 0 < b) (h1 : (q - 1) * b < n) (h2 : n ≤ q * b) : q = (n + b - 1) / b := by
  obtain ⟨hd1, hd2⟩ := ediv_char hb (rfl : (n + b - 1) / b = (n + b - 1) / b)
  generalize (n + b - 1) / b = d at hd1 hd2 ⊢
  have a1 : d * b < (q + 1) * b := by linarith
  have a2 : (q - 1) * b < d * b := by linarith
  have b1 := lt_of_mul_lt_mul_right a1 hb.le
  have b2 := lt_of_mul_lt_mul_right a2 hb.le
  omega

/-- **what `num_coil_batches` has to be**: the generated formula is the ceiling of `n / b`, characterised by
    `(q-1)·b < n ≤ q·b`.  The proof does not look at the SHAPE of the generated expression beyond replacing every
    `t // b` in it by a `q` with `q·b ≤ t < q·b + b` and closing the two inequalities by linear arithmetic, so
    `(n + b - 1) // b`, `(n - 1) // b + 1`, `-(-n // b)`, `(b + n - 1) // b`, … all pass, while a formula that is not
    the ceiling (`n // b`, `(n + b) // b`, `n // b + 1`) makes this theorem — and everything below — fail. -/
theorem numCoilBatches_char (n b : Int) (hb : 0 < b) :
    (Gen.senseNumCoilBatches n b - 1) * b < n ∧ n ≤ Gen.senseNumCoilBatches n b * b := by
  unfold Gen.senseNumCoilBatches
  simp only [pyDiv_of_pos _ hb]
  generalize hq : (_ : Int) / _ = q
  have := ediv_char hb hq
  clear hq
  constructor <;> nlinarith

/-- the generated `num_coil_batches` on naturals -/
theorem numCoilBatches_nat (n B : Nat) (hB : 0 < B) :
    Gen.senseNumCoilBatches (n : Int) (B : Int) = (((n + B - 1) / B : Nat) : Int) := by
  have hb : (0 : Int) < B := by exact_mod_cast hB
  obtain ⟨h1, h2⟩ := numCoilBatches_char n B hb
  refine (ceil_unique hb h1 h2).trans ?_
  have : ((n : Int) + (B : Int) - 1) = ((n + B - 1 : Nat) : Int) := by omega
  rw [this]
  norm_cast

/-- the generated slice bounds are `[c·b, (c+1)·b)` — proved by `ring`, so an algebraically equal rewrite of the
    source expressions (`c*b + b`, `b*(c+1)`, …) leaves every theorem below intact -/
theorem senseMps_lo_hi (c b n : Int) : Gen.senseMpsLo c b n = c * b ∧ Gen.senseMpsHi c b n = (c + 1) * b := by
  constructor
  · unfold Gen.senseMpsLo; ring
  · unfold Gen.senseMpsHi; ring

/-- slicing with the generated bounds of batch `k` -/
theorem pySlice_batch {β : Type} (l : List β) (k B n : Nat) :
    pySlice l (Gen.senseMpsLo (k : Int) (B : Int) (n : Int)) (Gen.senseMpsHi (k : Int) (B : Int) (n : Int))
      = (l.drop (k * B)).take ((k + 1) * B - k * B) := by
  rw [(senseMps_lo_hi _ _ _).1, (senseMps_lo_hi _ _ _).2]
  unfold pySlice
  have e1 : ((k : Int) * (B : Int)).toNat = k * B := by
    have : ((k : Int) * (B : Int)) = ((k * B : Nat) : Int) := by push_cast; ring
    rw [this, Int.toNat_natCast]
  have e2 : (((k : Int) + 1) * (B : Int)).toNat = (k + 1) * B := by
    have : (((k : Int) + 1) * (B : Int)) = (((k + 1) * B : Nat) : Int) := by push_cast; ring
    rw [this, Int.toNat_natCast]
  rw [e1, e2]

/-- The batch loop of `Sense` hands out the coils `0..n-1` in order, each exactly once: the slices
    `l[c·b : (c+1)·b]` for `c` in `range(num_coil_batches)` concatenate to `l`, for every list of
    length at most `n = num_coils` and every batch size `b ≥ 1`. Stated about the GENERATED formulas. -/
theorem batch_slices_partition {β : Type} (l : List β) (n B : Nat) (hB : 0 < B) (hl : l.length ≤ n) :
    ((Gen.senseBatchRange (Gen.senseNumCoilBatches n B) n B).map fun c =>
        pySlice l (Gen.senseMpsLo c B n) (Gen.senseMpsHi c B n)).flatten = l := by
  unfold Gen.senseBatchRange
  rw [numCoilBatches_nat _ _ hB, pyRange0_eq, List.map_map]
  have : ((fun c => pySlice l (Gen.senseMpsLo c (B : Int) (n : Int)) (Gen.senseMpsHi c (B : Int) (n : Int))) ∘ fun k : Nat => (k : Int))
      = fun k : Nat => (l.drop (k * B)).take ((k + 1) * B - k * B) := by
    funext k
    simp only [Function.comp]
    exact pySlice_batch l k B n
  rw [this]
  exact chunks_flatten B hB _ l (le_trans hl (numBatches_covers _ _ hB))

/-- slicing commutes with zipping (per-coil weights are split along with the coils) -/
theorem pySlice_zipWith {β γ δ : Type} (f : β → γ → δ) (a : List β) (b : List γ) (lo hi : Int) :
    List.zipWith f (pySlice a lo hi) (pySlice b lo hi) = pySlice (List.zipWith f a b) lo hi := by
  unfold pySlice
  rw [List.drop_zipWith, List.take_zipWith]

theorem pySlice_map {β γ : Type} (f : β → γ) (a : List β) (lo hi : Int) :
    (pySlice a lo hi).map f = pySlice (a.map f) lo hi := by
  unfold pySlice
  rw [List.map_take, List.map_drop]

/-! ### `Hstack` of per-batch adjoints: splitting the k-space rows by the batches' row counts -/

theorem pySlice_length {β : Type} (a : List β) (lo hi : Int) :
    (pySlice a lo hi).length = min (hi.toNat - lo.toNat) (a.length - lo.toNat) := by
  unfold pySlice; simp

/-- two lists of the same length have slices of the same length -/
theorem pySlice_length_congr {β γ : Type} (a : List β) (b : List γ) (h : a.length = b.length) (lo hi : Int) :
    (pySlice a lo hi).length = (pySlice b lo hi).length := by
  rw [pySlice_length, pySlice_length, h]

theorem zipWith_append_split {β γ δ : Type} (t : β → γ → δ) :
    ∀ (m rest : List β) (Y : List γ),
      List.zipWith t (m ++ rest) Y = List.zipWith t m (Y.take m.length) ++ List.zipWith t rest (Y.drop m.length)
  | [], rest, Y => by simp
  | a :: m, rest, [] => by simp
  | a :: m, rest, y :: Y => by
    simp only [List.cons_append, List.zipWith_cons_cons, List.length_cons, List.take_succ_cons, List.drop_succ_cons]
    rw [zipWith_append_split t m rest Y]

/-- membership version of `zipWith` congruence (left list) -/
theorem zipWith_congr_mem {β γ δ : Type} (f g : β → γ → δ) :
    ∀ (l : List β) (l' : List γ), (∀ a ∈ l, ∀ b, f a b = g a b) → List.zipWith f l l' = List.zipWith g l l'
  | [], _, _ => by simp
  | _ :: _, [], _ => by simp
  | a :: l, b :: l', h => by
    simp only [List.zipWith_cons_cons]
    rw [h a (by simp) b, zipWith_congr_mem f g l l' (fun a ha b => h a (by simp [ha]) b)]

/-- **Hstack = sum over the batches.**  Splitting `Y` by the lengths of the chunks `ms` (what `Hstack(axis=0)`
    does with the sub-operators' row counts), pairing each chunk with its part and summing the per-coil
    contributions, is the single sum over the concatenated coils. -/
theorem splitRows_zip_sum {α β γ : Type} [AddCommMonoid α] (t : β → γ → α) :
    ∀ (ms : List (List β)) (Y : List γ),
      (List.zipWith (fun m y => (List.zipWith t m y).sum) ms (splitRows (ms.map List.length) Y)).sum
        = (List.zipWith t ms.flatten Y).sum
  | [], Y => by simp [splitRows]
  | m :: ms, Y => by
    simp only [List.map_cons, splitRows, List.zipWith_cons_cons, List.sum_cons, List.flatten_cons]
    rw [splitRows_zip_sum t ms (Y.drop m.length), zipWith_append_split, List.sum_append]

/-- per-coil pairing used for per-coil weights: `zipWith g mps (zipWith h sw Y)` pairs coil, weight row, data row -/
theorem zipWith_zipWith_pair {β γ δ ε ζ : Type} (g : β → ε → ζ) (h : γ → δ → ε) :
    ∀ (a : List β) (s : List γ) (Y : List δ),
      List.zipWith g a (List.zipWith h s Y)
        = List.zipWith (fun (p : β × γ) y => g p.1 (h p.2 y)) (List.zipWith Prod.mk a s) Y
  | [], _, _ => by simp
  | _ :: _, [], _ => by simp
  | _ :: _, _ :: _, [] => by simp
  | a :: as, s :: ss, y :: Y => by
    simp only [List.zipWith_cons_cons]
    rw [zipWith_zipWith_pair g h as ss Y]

/-! ### lists as index functions -/

/-- a list's sum is the finite sum of its entries -/
theorem list_sum_eq_range {α : Type} [AddCommMonoid α] (z : α) :
    ∀ l : List α, l.sum = ∑ i ∈ Finset.range l.length, l.getD i z
  | [] => by simp
  | a :: l => by
    rw [List.sum_cons, List.length_cons, Finset.sum_range_succ', list_sum_eq_range z l, add_comm]
    simp

theorem getD_of_lt {β : Type} (l : List β) (i : Nat) (h : i < l.length) (d : β) : l.getD i d = l[i] := by
  simp [List.getD_eq_getElem?_getD, h]

theorem getD_map_lt {β γ : Type} (f : β → γ) (l : List β) (i : Nat) (h : i < l.length) (d : γ) (d' : β) :
    (l.map f).getD i d = f (l.getD i d') := by
  rw [getD_of_lt _ _ (by simpa using h), getD_of_lt _ _ h, List.getElem_map]

theorem getD_zipWith_lt {β γ δ : Type} (f : β → γ → δ) (a : List β) (b : List γ) (i : Nat)
    (ha : i < a.length) (hb : i < b.length) (d : δ) (da : β) (db : γ) :
    (List.zipWith f a b).getD i d = f (a.getD i da) (b.getD i db) := by
  rw [getD_of_lt _ _ (by simp [ha, hb]), getD_of_lt _ _ ha, getD_of_lt _ _ hb, List.getElem_zipWith]

theorem getD_range_map_lt {γ : Type} (f : Nat → γ) (n i : Nat) (h : i < n) (d : γ) :
    ((List.range n).map f).getD i d = f i := by
  rw [getD_of_lt _ _ (by simpa using h)]; simp

/-- sum of a `zipWith` over two lists of the same length `n` as an indexed sum -/
theorem zipWith_sum_eq_range {α β γ : Type} [AddCommMonoid α] (f : β → γ → α) (a : List β) (b : List γ) (n : Nat)
    (ha : a.length = n) (hb : b.length = n) (da : β) (db : γ) :
    (List.zipWith f a b).sum = ∑ i ∈ Finset.range n, f (a.getD i da) (b.getD i db) := by
  rw [list_sum_eq_range (f da db)]
  have hl : (List.zipWith f a b).length = n := by simp [ha, hb]
  rw [hl]
  apply Finset.sum_congr rfl
  intro i hi
  have hi' : i < n := Finset.mem_range.mp hi
  exact getD_zipWith_lt f a b i (by omega) (by omega) _ da db

end SigpyVerif.C16
