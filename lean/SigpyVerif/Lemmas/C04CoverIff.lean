import SigpyVerif.Lemmas.C04Cover
import SigpyVerif.Props.C09
import Mathlib.Tactic.Ring
import Mathlib.Tactic.Linarith
/-
  C04 — when is the block normal operator the identity?  The reverse directions of the cover
  theorems of Lemmas/C04Cover.lean:

  * `cover_le_one_iff`      : no array index is covered twice  ⇔  `B ≤ S` or at most one block;
  * `cover_one_iff_tiling`  : with `num_blks = (L - B + S) // S` blocks (the formula of
    `ArrayToBlocks.__init__`, `Gen.a2bNumBlks`), every index of `0..L-1` is covered exactly once
    ⇔ (`S = B` and `B ∣ L`) or `B = L` (a single block that is the whole axis);
  * `b2a_normal_identity_iff` : `BlocksToArray.N = A Aᴴ` (on block arrays, 1-D loop nests) is the
    identity ⇔ `B ≤ S` or a single block.
-/
namespace SigpyVerif.C04
open SigpyVerif SigpyVerif.C01

theorem cover_pos_iff (B S N i : Int) :
    0 < coverPairs B S N i ↔ ∃ n x, 0 ≤ n ∧ n < N ∧ 0 ≤ x ∧ x < B ∧ n * S + x = i := by
  rw [coverPairs_eq_length, List.length_pos_iff_exists_mem]
  constructor
  · rintro ⟨x, hx⟩
    obtain ⟨n, h⟩ := mem_coverList.mp hx
    exact ⟨n, x, h⟩
  · rintro ⟨n, x, h⟩
    exact ⟨x, mem_coverList.mpr ⟨n, h⟩⟩

theorem length_le_one_of_all_eq {β : Type} (l : List β) (hl : l.Nodup) (h : ∀ a ∈ l, ∀ b ∈ l, a = b) :
    l.length ≤ 1 := by
  match l, hl, h with
  | [], _, _ => simp
  | [_], _, _ => simp
  | a :: b :: t, hl, h =>
    exfalso
    have hab : a = b := h a (by simp) b (by simp)
    rw [List.nodup_cons] at hl
    exact hl.1 (by simp [hab])

/-- two (block, offset) pairs with the same target coincide when blocks do not overlap (`B ≤ S`) -/
theorem pair_unique_of_le (B S n x n' x' : Int) (hBS : B ≤ S)
    (hx : 0 ≤ x ∧ x < B) (hx' : 0 ≤ x' ∧ x' < B) (h : n * S + x = n' * S + x') : n = n' ∧ x = x' := by
  have hn : n = n' := by
    rcases lt_trichotomy n n' with hlt | heq | hgt
    · have : (n + 1) * S ≤ n' * S := mul_le_mul_of_nonneg_right (by omega) (by omega)
      have e : (n + 1) * S = n * S + S := by ring
      omega
    · exact heq
    · have : (n' + 1) * S ≤ n * S := mul_le_mul_of_nonneg_right (by omega) (by omega)
      have e : (n' + 1) * S = n' * S + S := by ring
      omega
  subst hn
  exact ⟨rfl, by omega⟩

/-- **No array index is covered twice iff the blocks do not overlap or there is at most one block.**
    (`N` = number of blocks.)  This is the condition under which distinct block entries never share
    an array target, i.e. under which `BlocksToArray.N = A Aᴴ` is the identity on block arrays. -/
theorem cover_le_one_iff (B S N : Int) (hS : 0 < S) :
    (∀ i, coverPairs B S N i ≤ 1) ↔ B ≤ S ∨ N ≤ 1 := by
  constructor
  · intro h
    by_contra hc
    have hc' : S < B ∧ 2 ≤ N := by omega
    have := cover_overlap B S N hS hc'.1 hc'.2
    have := h S
    omega
  · intro h i
    rw [coverPairs_eq_length]
    apply length_le_one_of_all_eq _ (coverList_nodup B S N i hS)
    intro x hx x' hx'
    obtain ⟨n, h1, h2, h3, h4, h5⟩ := mem_coverList.mp hx
    obtain ⟨n', h1', h2', h3', h4', h5'⟩ := mem_coverList.mp hx'
    rcases h with hBS | hN
    · exact (pair_unique_of_le B S n x n' x' hBS ⟨h3, h4⟩ ⟨h3', h4'⟩ (by rw [h5, h5'])).2
    · have e1 : n = 0 := by omega
      have e2 : n' = 0 := by omega
      subst e1 e2
      omega

/-- the same restricted to the array `0..L-1` with `num_blks` blocks (sigpy's layout: `B ≤ L`) -/
theorem cover_le_one_iff_array (L B S : Int) (hS : 0 < S) (hBL : B ≤ L) :
    (∀ i, 0 ≤ i → i < L → coverPairs B S (Gen.a2bNumBlks L B S) i ≤ 1) ↔
      B ≤ S ∨ Gen.a2bNumBlks L B S ≤ 1 := by
  constructor
  · intro h
    by_contra hc
    have hc' : S < B ∧ 2 ≤ Gen.a2bNumBlks L B S := by omega
    have := cover_overlap B S _ hS hc'.1 hc'.2
    have := h S (by omega) (by omega)
    omega
  · intro h i _ _
    exact (cover_le_one_iff B S _ hS).mpr h i

theorem cover_single_block (B S i : Int) (hS : 0 < S) (hi : 0 ≤ i ∧ i < B) : coverPairs B S 1 i = 1 := by
  have h1 := (cover_le_one_iff B S 1 hS).mpr (Or.inr (le_refl _)) i
  have h2 := (cover_pos_iff B S 1 i).mpr ⟨0, i, by omega, by omega, hi.1, hi.2, by ring⟩
  omega

/-- **`cover ≡ 1` iff the blocks tile the axis.**  For an axis of length `L`, block length
    `0 < B ≤ L`, stride `0 < S` and `num_blks = (L - B + S) // S` blocks: every index `0..L-1` lies in
    exactly one block — i.e. `ArrayToBlocks.N` is the identity along this axis — iff `S = B` and
    `B ∣ L`, or `B = L` (one block that is the whole axis; then the stride is irrelevant). -/
theorem cover_one_iff_tiling (L B S : Int) (hS : 0 < S) (hB : 0 < B) (hBL : B ≤ L) :
    (∀ i, 0 ≤ i → i < L → coverPairs B S (Gen.a2bNumBlks L B S) i = 1) ↔
      (S = B ∧ B ∣ L) ∨ B = L := by
  obtain ⟨hfit, hmax, hpos⟩ := C09.numBlks_maximal L B S hS hBL
  change (∀ n, 0 ≤ n → n < Gen.a2bNumBlks L B S → n * S + B ≤ L) at hfit
  change L < Gen.a2bNumBlks L B S * S + B at hmax
  change 0 < Gen.a2bNumBlks L B S at hpos
  constructor
  · intro h
    have hlast := hfit (Gen.a2bNumBlks L B S - 1) (by omega) (by omega)
    rcases lt_trichotomy S B with hlt | heq | hgt
    · right
      by_cases hN : 2 ≤ Gen.a2bNumBlks L B S
      · have := cover_overlap B S _ hS hlt hN
        have := h S (by omega) (by omega)
        omega
      · have hN1 : Gen.a2bNumBlks L B S = 1 := by omega
        have hc := h (L - 1) (by omega) (by omega)
        obtain ⟨n, x, h1, h2, h3, h4, h5⟩ := (cover_pos_iff B S (Gen.a2bNumBlks L B S) (L - 1)).mp (by rw [hc]; decide)
        have : n = 0 := by omega
        subst this
        omega
    · left
      subst heq
      refine ⟨rfl, ?_⟩
      have hc := h (L - 1) (by omega) (by omega)
      obtain ⟨n, x, h1, h2, h3, h4, h5⟩ := (cover_pos_iff S S (Gen.a2bNumBlks L S S) (L - 1)).mp (by rw [hc]; decide)
      have hn : n * S ≤ (Gen.a2bNumBlks L S S - 1) * S := mul_le_mul_of_nonneg_right (by omega) (by omega)
      have e : (Gen.a2bNumBlks L S S - 1) * S + S = Gen.a2bNumBlks L S S * S := by ring
      exact Dvd.intro_left (Gen.a2bNumBlks L S S) (by omega)
    · by_cases hBL' : B = L
      · exact Or.inr hBL'
      · exfalso
        have := cover_gap B S (Gen.a2bNumBlks L B S) hB hgt
        have := h B (by omega) (by omega)
        omega
  · rintro (⟨rfl, hdvd⟩ | rfl) i hi0 hi1
    · obtain ⟨k, rfl⟩ := hdvd
      have hN : Gen.a2bNumBlks (S * k) S S = k := by
        unfold Gen.a2bNumBlks
        rw [pyDiv_of_pos _ hS]
        have : S * k - S + S = S * k := by ring
        rw [this]
        exact Int.mul_ediv_cancel_left k (ne_of_gt hS)
      rw [hN]
      exact cover_tiling S k i hS ⟨hi0, by rw [mul_comm]; exact hi1⟩
    · have hN : Gen.a2bNumBlks B B S = 1 := by
        unfold Gen.a2bNumBlks
        rw [pyDiv_of_pos _ hS]
        have : B - B + S = S := by ring
        rw [this]
        exact Int.ediv_self (ne_of_gt hS)
      rw [hN]
      exact cover_single_block B S i hS ⟨hi0, hi1⟩

/-- with more than one block position along the axis (`B < L`) the condition is exactly the tiling
    one: `cover ≡ 1 ⇔ S = B ∧ B ∣ L` -/
theorem cover_one_iff_tiling_proper (L B S : Int) (hS : 0 < S) (hB : 0 < B) (hBL : B < L) :
    (∀ i, 0 ≤ i → i < L → coverPairs B S (Gen.a2bNumBlks L B S) i = 1) ↔ S = B ∧ B ∣ L := by
  rw [cover_one_iff_tiling L B S hS hB (le_of_lt hBL)]
  constructor
  · rintro (h | h)
    · exact h
    · omega
  · exact Or.inl

/-- the seeded change C04-2 (`Identity` whenever `blk_strides == blk_shape`) is wrong for an extent
    the block length does not divide: `L = 5, B = S = 2` leaves index 4 uncovered -/
theorem cover_nondividing_witness : coverPairs 2 2 (Gen.a2bNumBlks 5 2 2) 4 = 0 := by decide

example : (∀ i, 0 ≤ i → i < 6 → coverPairs 2 2 (Gen.a2bNumBlks 6 2 2) i = 1) :=
  (cover_one_iff_tiling 6 2 2 (by decide) (by decide) (by decide)).mpr (Or.inl ⟨rfl, by decide⟩)
example : ¬ (∀ i, 0 ≤ i → i < 5 → coverPairs 2 2 (Gen.a2bNumBlks 5 2 2) i = 1) := by
  rw [cover_one_iff_tiling 5 2 2 (by decide) (by decide) (by decide)]
  decide

theorem nat_mul_eq_one {m n : Nat} (h : m * n = 1) : m = 1 ∧ n = 1 := by
  have hm : m ∣ 1 := Dvd.intro n h
  have hn : n ∣ 1 := Dvd.intro_left m h
  exact ⟨Nat.dvd_one.mp hm, Nat.dvd_one.mp hn⟩

/-- **2-D: the multiplier of `ArrayToBlocks.N` (`b2a2_a2b2_cover`) is 1 on the whole array iff both
    axes tile** (or are spanned by one block): `ArrayToBlocks.N = Identity` exactly then. -/
theorem cover2_one_iff_tiling (Ly Lx By Bx Sy Sx : Int) (hSy : 0 < Sy) (hSx : 0 < Sx) (hBy : 0 < By)
    (hBx : 0 < Bx) (hBLy : By ≤ Ly) (hBLx : Bx ≤ Lx) :
    (∀ iy ix, 0 ≤ iy → iy < Ly → 0 ≤ ix → ix < Lx →
      coverPairs By Sy (Gen.a2bNumBlks Ly By Sy) iy * coverPairs Bx Sx (Gen.a2bNumBlks Lx Bx Sx) ix = 1) ↔
      ((Sy = By ∧ By ∣ Ly) ∨ By = Ly) ∧ ((Sx = Bx ∧ Bx ∣ Lx) ∨ Bx = Lx) := by
  rw [← cover_one_iff_tiling Ly By Sy hSy hBy hBLy, ← cover_one_iff_tiling Lx Bx Sx hSx hBx hBLx]
  constructor
  · intro h
    refine ⟨fun iy h0 h1 => ?_, fun ix h0 h1 => ?_⟩
    · exact (nat_mul_eq_one (h iy 0 h0 h1 (le_refl _) (by omega))).1
    · exact (nat_mul_eq_one (h 0 ix (le_refl _) (by omega) h0 h1)).2
  · rintro ⟨hy, hx⟩ iy ix a b c d
    rw [hy iy a b, hx ix c d]

/-- **3-D** likewise (`b2a3_a2b3_cover`). -/
theorem cover3_one_iff_tiling (Lz Ly Lx Bz By Bx Sz Sy Sx : Int) (hSz : 0 < Sz) (hSy : 0 < Sy) (hSx : 0 < Sx)
    (hBz : 0 < Bz) (hBy : 0 < By) (hBx : 0 < Bx) (hBLz : Bz ≤ Lz) (hBLy : By ≤ Ly) (hBLx : Bx ≤ Lx) :
    (∀ iz iy ix, 0 ≤ iz → iz < Lz → 0 ≤ iy → iy < Ly → 0 ≤ ix → ix < Lx →
      coverPairs Bz Sz (Gen.a2bNumBlks Lz Bz Sz) iz * coverPairs By Sy (Gen.a2bNumBlks Ly By Sy) iy
        * coverPairs Bx Sx (Gen.a2bNumBlks Lx Bx Sx) ix = 1) ↔
      ((Sz = Bz ∧ Bz ∣ Lz) ∨ Bz = Lz) ∧ ((Sy = By ∧ By ∣ Ly) ∨ By = Ly) ∧ ((Sx = Bx ∧ Bx ∣ Lx) ∨ Bx = Lx) := by
  rw [← cover_one_iff_tiling Lz Bz Sz hSz hBz hBLz, ← cover_one_iff_tiling Ly By Sy hSy hBy hBLy,
    ← cover_one_iff_tiling Lx Bx Sx hSx hBx hBLx]
  constructor
  · intro h
    refine ⟨fun iz h0 h1 => ?_, fun iy h0 h1 => ?_, fun ix h0 h1 => ?_⟩
    · exact (nat_mul_eq_one (nat_mul_eq_one
        (h iz 0 0 h0 h1 (le_refl _) (by omega) (le_refl _) (by omega))).1).1
    · exact (nat_mul_eq_one (nat_mul_eq_one
        (h 0 iy 0 (le_refl _) (by omega) h0 h1 (le_refl _) (by omega))).1).2
    · exact (nat_mul_eq_one (h 0 0 ix (le_refl _) (by omega) (le_refl _) (by omega) h0 h1)).2
  · rintro ⟨hz, hy, hx⟩ iz iy ix a b c d e f
    rw [hz iz a b, hy iy c d, hx ix e f]

/-! ### `BlocksToArray.N = A Aᴴ` on block arrays (1-D loop nests) -/

/-- `BlocksToArray.N` in 1-D as a function: `A (Aᴴ y)` at block entry `(b, n, x)` is the sum of all
    block entries that share its array target `n·S + x` (the entries the scatter loop adds there). -/
theorem a2b1_b2a1_apply (osh ish osh' ish' : Int → Int) (batch B S N : Int) (hS : 0 < S)
    (hlen : osh (-1) = ish' (-1)) (y : List Int → Rat) (b n x : Int) (hb : 0 ≤ b ∧ b < batch)
    (hn : 0 ≤ n ∧ n < N) (hx : 0 ≤ x ∧ x < B) (hfit : n * S + x < osh (-1)) :
    applyF (Gen.a2b1 osh' ish' batch B S N) (applyF (Gen.b2a1 osh ish batch B S N) y) [b, n, x]
      = ((pyRange (pyMod (n * S + x) S) B S).map fun bx =>
          if (0 ≤ pyDiv (n * S + x - bx) S ∧ pyDiv (n * S + x - bx) S < N) then
            y [b, pyDiv (n * S + x - bx) S, bx] else 0).sum := by
  have h0 : 0 ≤ n * S + x := add_nonneg (mul_nonneg hn.1 (le_of_lt hS)) hx.1
  rw [a2b1_apply, if_pos hb, if_pos hn, if_pos hx, if_pos (hlen ▸ hfit), b2a1_apply, if_pos hb,
    if_pos ⟨h0, hfit⟩]

theorem eq_of_length_le_one {β : Type} (l : List β) (h : l.length ≤ 1) (a b : β) (ha : a ∈ l) (hb : b ∈ l) :
    a = b := by
  match l, h, ha, hb with
  | [c], _, ha, hb =>
    rw [List.mem_singleton] at ha hb
    rw [ha, hb]
  | _ :: _ :: _, h, _, _ => simp at h

/-- **`BlocksToArray.N` is the identity iff the blocks do not overlap or there is a single block.**
    For the generated 1-D loop nests with `N ≥ 1` blocks that all fit into the array (what
    `num_blks` guarantees, C09 `numBlks_maximal`): `A (Aᴴ y) = y` for every block array `y`
    ⇔ `B ≤ S ∨ N ≤ 1` ⇔ no array index is covered twice (`cover_le_one_iff`).  In particular the
    `Identity` override that the pinned commit had is wrong for every overlapping layout. -/
theorem b2a_normal_identity_iff (osh ish osh' ish' : Int → Int) (batch B S N : Int) (hS : 0 < S)
    (hbatch : 0 < batch) (hlen : osh (-1) = ish' (-1))
    (hfit : ∀ n, 0 ≤ n → n < N → n * S + B ≤ osh (-1)) :
    (∀ (y : List Int → Rat) (b n x : Int), 0 ≤ b ∧ b < batch → 0 ≤ n ∧ n < N → 0 ≤ x ∧ x < B →
      applyF (Gen.a2b1 osh' ish' batch B S N) (applyF (Gen.b2a1 osh ish batch B S N) y) [b, n, x]
        = y [b, n, x]) ↔ B ≤ S ∨ N ≤ 1 := by
  constructor
  · intro h
    by_contra hc
    have hc' : S < B ∧ 2 ≤ N := by omega
    have h1 := h (fun _ => 1) 0 1 0 ⟨le_refl _, hbatch⟩ ⟨by omega, by omega⟩ ⟨le_refl _, by omega⟩
    have hf := hfit 1 (by omega) (by omega)
    rw [a2b1_b2a1_apply osh ish osh' ish' batch B S N hS hlen _ 0 1 0 ⟨le_refl _, hbatch⟩
      ⟨by omega, by omega⟩ ⟨le_refl _, by omega⟩ (by omega)] at h1
    have e : (1 : Int) * S + 0 = S := by ring
    rw [e] at h1
    have h2 := sum_map_ite_const (pyRange (pyMod S S) B S)
      (fun bx => 0 ≤ pyDiv (S - bx) S ∧ pyDiv (S - bx) S < N) (1 : Rat)
    rw [h2, mul_one] at h1
    have h3 : coverScatter B S N S = 1 := by
      unfold coverScatter
      exact_mod_cast h1
    rw [coverScatter_eq_coverPairs B S N S hS] at h3
    have := cover_overlap B S N hS hc'.1 hc'.2
    omega
  · intro h y b n x hb hn hx
    have hle := (cover_le_one_iff B S N hS).mpr h (n * S + x)
    rw [coverPairs_eq_length] at hle
    have hf := hfit n hn.1 hn.2
    rw [a2b1_b2a1_apply osh ish osh' ish' batch B S N hS hlen y b n x hb hn hx (by omega)]
    have hq : pyDiv (n * S + x - x) S = n := pyDiv_block' n S x hS
    have hxm : x ∈ coverList B S N (n * S + x) := mem_coverList.mpr ⟨n, hn.1, hn.2, hx.1, hx.2, rfl⟩
    have hxv := (scatter_iff S B N (n * S + x) x hS).mpr
      ⟨hx.1, hx.2, by rw [hq]; exact hn.1, by rw [hq]; exact hn.2, by rw [hq]⟩
    have e1 : ((pyRange (pyMod (n * S + x) S) B S).map fun bx =>
          if (0 ≤ pyDiv (n * S + x - bx) S ∧ pyDiv (n * S + x - bx) S < N) then
            y [b, pyDiv (n * S + x - bx) S, bx] else 0)
        = (pyRange (pyMod (n * S + x) S) B S).map fun bx => if bx = x then (fun _ => y [b, n, x]) bx else 0 := by
      apply List.map_congr_left
      intro bx hbx
      by_cases hv : 0 ≤ pyDiv (n * S + x - bx) S ∧ pyDiv (n * S + x - bx) S < N
      · obtain ⟨v1, v2, v3, v4, v5⟩ := (scatter_iff S B N (n * S + x) bx hS).mp ⟨hbx, hv.1, hv.2⟩
        have hbm : bx ∈ coverList B S N (n * S + x) :=
          mem_coverList.mpr ⟨pyDiv (n * S + x - bx) S, v3, v4, v1, v2, v5.symm⟩
        have : bx = x := eq_of_length_le_one _ hle bx x hbm hxm
        subst this
        rw [if_pos hv, if_pos rfl, hq]
      · have hne : bx ≠ x := by
          rintro rfl
          exact hv ⟨hxv.2.1, hxv.2.2⟩
        rw [if_neg hv, if_neg hne]
    rw [e1, sum_map_ite_pyRange, if_pos hxv.1]

/-- non-vacuity of `b2a_normal_identity_iff`: length 5, `B = 2`, `S = 1`, 4 blocks all fit; the layout
    overlaps, so `BlocksToArray.N ≠ Identity` -/
example : ¬ (∀ (y : List Int → Rat) (b n x : Int), 0 ≤ b ∧ b < 1 → 0 ≤ n ∧ n < 4 → 0 ≤ x ∧ x < 2 →
    applyF (Gen.a2b1 (shapeFn [1,4,2]) (shapeFn [1,5]) 1 2 1 4)
      (applyF (Gen.b2a1 (shapeFn [1,5]) (shapeFn [1,4,2]) 1 2 1 4) y) [b, n, x] = y [b, n, x]) := by
  rw [b2a_normal_identity_iff (shapeFn [1,5]) (shapeFn [1,4,2]) (shapeFn [1,4,2]) (shapeFn [1,5]) 1 2 1 4
    (by decide) (by decide) rfl (by intro n h0 h1; show n * 1 + 2 ≤ 5; omega)]
  decide

/-- the executable `coverAxis` (what the driver prints and the correspondence compares with the real
    `A.H(A(1))`) is all ones exactly in the tiling case -/
theorem coverAxis_all_one_iff (L B S : Int) (hS : 0 < S) (hB : 0 < B) (hBL : B ≤ L) :
    (∀ c ∈ coverAxis L B S, c = 1) ↔ (S = B ∧ B ∣ L) ∨ B = L := by
  rw [← cover_one_iff_tiling L B S hS hB hBL]
  unfold coverAxis
  constructor
  · intro h i h0 h1
    have := h _ (List.mem_map.mpr ⟨i, mem_pyRange0.mpr ⟨h0, h1⟩, rfl⟩)
    exact_mod_cast this
  · intro h c hc
    obtain ⟨i, hi, rfl⟩ := List.mem_map.mp hc
    have hi' := mem_pyRange0.mp hi
    rw [h i hi'.1 hi'.2]
    rfl

end SigpyVerif.C04
