import Mathlib.Analysis.InnerProductSpace.Basic
import Mathlib.Analysis.Real.Sqrt
/-
  Helper lemmas for C13 (real inner-product space algebra; no sigpy content).
-/
namespace SigpyVerif.C13
open RealInnerProductSpace

variable {E : Type*} [NormedAddCommGroup E] [InnerProductSpace ℝ E]

/-- Variational characterisation of `p = prox_{α g}(v)`:
    `g(w) ≥ g(p) + ⟨(v - p)/α, w - p⟩` for all `w`. -/
def IsProx (g : E → ℝ) (α : ℝ) (v p : E) : Prop :=
  ∀ w, g p + ⟪(1 / α) • (v - p), w - p⟫ ≤ g w

/-- the prox point is unique (for `α > 0`) -/
theorem isProx_unique {g : E → ℝ} {α : ℝ} {v p q : E} (hα : 0 < α)
    (hp : IsProx g α v p) (hq : IsProx g α v q) : p = q := by
  have h1 := hp q
  have h2 := hq p
  rw [real_inner_smul_left] at h1 h2
  have e : ⟪v - p, q - p⟫ + ⟪v - q, p - q⟫ = ‖p - q‖ ^ 2 := by
    rw [← real_inner_self_eq_norm_sq]
    have a1 : ⟪v - p, q - p⟫ = - ⟪v - p, p - q⟫ := by
      rw [← inner_neg_right]; congr 1; abel
    rw [a1, ← sub_eq_neg_add, ← inner_sub_left]; congr 1; abel
  have h3 : (1 / α) * ‖p - q‖ ^ 2 ≤ 0 := by
    rw [← e, mul_add]; linarith
  have h4 : ‖p - q‖ ^ 2 ≤ 0 := by
    have : 0 < 1 / α := by positivity
    nlinarith
  have h5 : ‖p - q‖ = 0 := by
    have := sq_nonneg ‖p - q‖
    exact pow_eq_zero_iff (two_ne_zero) |>.mp (le_antisymm h4 this)
  exact sub_eq_zero.mp (norm_eq_zero.mp h5)

/-- The fundamental prox-gradient inequality at an arbitrary base point `y`
    (`p` the prox-gradient point of `y`), multiplied by `2α`. -/
theorem step_ineq (f g : E → ℝ) (gf : E → E) (α L : ℝ) (hα : 0 < α) (hL : α * L ≤ 1) (y w p : E)
    (hconv : f y + ⟪gf y, w - y⟫ ≤ f w)
    (hdesc : f p ≤ f y + ⟪gf y, p - y⟫ + L / 2 * ‖p - y‖ ^ 2)
    (hp : IsProx g α (y - α • gf y) p) :
    2 * α * ((f p + g p) - (f w + g w)) ≤ ‖y - w‖ ^ 2 - ‖p - w‖ ^ 2 := by
  have h1 := hp w
  have hLa : α * (L * ‖p - y‖ ^ 2) ≤ ‖p - y‖ ^ 2 := by
    have := mul_le_mul_of_nonneg_right hL (sq_nonneg ‖p - y‖)
    linarith
  have e1 : ‖y - w‖ ^ 2 = ‖y - p‖ ^ 2 + 2 * ⟪y - p, p - w⟫ + ‖p - w‖ ^ 2 := by
    have : y - w = (y - p) + (p - w) := by abel
    rw [this, norm_add_sq_real]
  have e2 : ‖p - y‖ = ‖y - p‖ := norm_sub_rev _ _
  have e3 : α * ⟪(1 / α) • (y - α • gf y - p), w - p⟫ = ⟪y - p, w - p⟫ - α * ⟪gf y, w - p⟫ := by
    have : y - α • gf y - p = (y - p) - α • gf y := by abel
    rw [this, real_inner_smul_left, inner_sub_left, real_inner_smul_left]
    field_simp
  have e4 : ⟪gf y, w - y⟫ = ⟪gf y, w - p⟫ + ⟪gf y, p - y⟫ := by
    rw [← inner_add_right]; congr 1; abel
  have e5 : ⟪y - p, p - w⟫ = - ⟪y - p, w - p⟫ := by
    rw [← inner_neg_right]; congr 1; abel
  have h1' := mul_le_mul_of_nonneg_left h1 hα.le
  rw [mul_add, e3] at h1'
  have hd' := mul_le_mul_of_nonneg_left hdesc hα.le
  have hc' := mul_le_mul_of_nonneg_left hconv hα.le
  rw [e4] at hc'
  rw [e1, e5]
  rw [e2] at hLa hd'
  nlinarith

/-- `‖t a - (t-1) x - w‖²` in terms of the pairwise distances -/
theorem norm_comb (t : ℝ) (a x w : E) :
    ‖t • a - (t - 1) • x - w‖ ^ 2
      = t * (t - 1) * ‖a - x‖ ^ 2 + t * ‖a - w‖ ^ 2 - (t - 1) * ‖x - w‖ ^ 2 := by
  have e : t • a - (t - 1) • x - w = (t - 1) • (a - x) + (a - w) := by
    simp only [sub_smul, smul_sub, one_smul]; abel
  have e2 : x - w = (a - w) - (a - x) := by abel
  rw [e, e2, norm_add_sq_real, norm_sub_sq_real (a - w) (a - x), norm_smul, real_inner_smul_left, mul_pow,
    Real.norm_eq_abs, sq_abs, real_inner_comm (a - x) (a - w)]
  ring

omit [InnerProductSpace ℝ E] in
/-- the Chambolle–Pock metric is positive semidefinite when `τ σ L² ≤ 1` -/
theorem metric_psd {F : Type*} [NormedAddCommGroup F] [InnerProductSpace ℝ F]
    (τ σ L : ℝ) (hτ : 0 < τ) (hσ : 0 < σ) (hstep : τ * σ * L ^ 2 ≤ 1)
    (a : E) (b c : F) (hc : ‖c‖ ≤ L * ‖a‖) :
    0 ≤ ‖a‖ ^ 2 / τ - 2 * ⟪c, b⟫ + ‖b‖ ^ 2 / σ := by
  have h1 : ⟪c, b⟫ ≤ L * ‖a‖ * ‖b‖ :=
    (real_inner_le_norm c b).trans (mul_le_mul_of_nonneg_right hc (norm_nonneg b))
  have key : 0 ≤ σ * ‖a‖ ^ 2 + τ * ‖b‖ ^ 2 - 2 * (τ * σ) * (L * ‖a‖ * ‖b‖) := by
    have h2 : 0 ≤ τ * ‖b‖ ^ 2 * (1 - τ * σ * L ^ 2) :=
      mul_nonneg (mul_nonneg hτ.le (sq_nonneg _)) (by linarith)
    nlinarith [mul_nonneg hσ.le (sq_nonneg (‖a‖ - L * τ * ‖b‖))]
  have e : ‖a‖ ^ 2 / τ - 2 * ⟪c, b⟫ + ‖b‖ ^ 2 / σ
      = (σ * ‖a‖ ^ 2 + τ * ‖b‖ ^ 2 - 2 * (τ * σ) * ⟪c, b⟫) / (τ * σ) := by
    field_simp
    ring
  rw [e]
  apply div_nonneg _ (mul_pos hτ hσ).le
  have : 2 * (τ * σ) * ⟪c, b⟫ ≤ 2 * (τ * σ) * (L * ‖a‖ * ‖b‖) :=
    mul_le_mul_of_nonneg_left h1 (by positivity)
  linarith

section two
variable {F : Type*} [NormedAddCommGroup F] [InnerProductSpace ℝ F]

theorem isProx_shift_iff (g : E → ℝ) (α : ℝ) (hα : 0 < α) (p d : E) :
    IsProx g α (p + α • d) p ↔ ∀ w, g p + ⟪d, w - p⟫ ≤ g w := by
  have e : (1 / α) • (p + α • d - p) = d := by
    rw [add_sub_cancel_left, smul_smul, one_div, inv_mul_cancel₀ hα.ne', one_smul]
  unfold IsProx
  rw [e]

theorem inner_prox_arg (α : ℝ) (hα : 0 < α) (v d p w : E) :
    ⟪(1 / α) • (v + α • d - p), w⟫ = (1 / α) * ⟪v - p, w⟫ + ⟪d, w⟫ := by
  have : v + α • d - p = (v - p) + α • d := by abel
  rw [this, real_inner_smul_left, inner_add_left, real_inner_smul_left]
  field_simp

/-- the coupled ("step-size weighted") squared distance of Chambolle–Pock -/
noncomputable def coupled (A : E → F) (τ σ : ℝ) (a : E) (b : F) : ℝ :=
  ‖a‖ ^ 2 / τ - 2 * ⟪A a, b⟫ + ‖b‖ ^ 2 / σ

theorem fejer_core (A : E →ₗ[ℝ] F) (AH : F → E) (hadj : ∀ x u, ⟪A x, u⟫ = ⟪x, AH u⟫)
    (τ σ : ℝ) (x x1 xs : E) (u1 u2 us : F)
    (hP : (1 / τ) * ⟪x - x1, xs - x1⟫ - ⟪AH u1, xs - x1⟫ - ⟪AH us, x1 - xs⟫ ≤ 0)
    (hD : (1 / σ) * ⟪u1 - u2, us - u2⟫ + ⟪A (x1 + (x1 - x)), us - u2⟫ + ⟪A xs, u2 - us⟫ ≤ 0) :
    coupled A τ σ (x1 - xs) (u2 - us) + coupled A τ σ (x1 - x) (u2 - u1)
      ≤ coupled A τ σ (x - xs) (u1 - us) := by
  have hA1 : ⟪AH u1, xs - x1⟫ = ⟪A (xs - x1), u1⟫ := (real_inner_comm _ _).trans (hadj _ _).symm
  have hA2 : ⟪AH us, x1 - xs⟫ = ⟪A (x1 - xs), us⟫ := (real_inner_comm _ _).trans (hadj _ _).symm
  rw [hA1, hA2] at hP
  unfold coupled
  simp only [← real_inner_self_eq_norm_sq, map_sub, map_add, inner_sub_left, inner_sub_right,
    inner_add_left] at hP hD ⊢
  have s1 := real_inner_comm x x1
  have s2 := real_inner_comm x xs
  have s3 := real_inner_comm x1 xs
  have s4 := real_inner_comm u1 u2
  have s5 := real_inner_comm u1 us
  have s6 := real_inner_comm u2 us
  simp only [div_eq_inv_mul, mul_one] at hP hD ⊢
  rw [s1, s2, s3] at *
  rw [s4, s5, s6] at *
  nlinarith

end two

theorem theta_pos_lt_one (c : ℝ) (hc : 0 < c) :
    0 < 1 / Real.sqrt (1 + c) ∧ 1 / Real.sqrt (1 + c) < 1 := by
  have h1 : 1 < Real.sqrt (1 + c) := by
    rw [Real.lt_sqrt (by norm_num)]; linarith
  constructor
  · positivity
  · rw [div_lt_one (by linarith)]; exact h1


/-! ### the momentum rule over ℝ -/

theorem tnext_sq (t : ℝ) : ((1 + Real.sqrt (1 + 4 * (t * t))) / 2) ^ 2 - (1 + Real.sqrt (1 + 4 * (t * t))) / 2 = t ^ 2 := by
  have h : Real.sqrt (1 + 4 * (t * t)) ^ 2 = 1 + 4 * (t * t) := Real.sq_sqrt (by nlinarith [mul_self_nonneg t])
  nlinarith

theorem tnext_ge (t : ℝ) : t + 1 / 2 ≤ (1 + Real.sqrt (1 + 4 * (t * t))) / 2 := by
  have h : 2 * t ≤ Real.sqrt (1 + 4 * (t * t)) := by
    apply Real.le_sqrt_of_sq_le; nlinarith
  linarith

end SigpyVerif.C13
