import Mathlib.Analysis.InnerProductSpace.Basic
import Mathlib.Analysis.Real.Sqrt
import Mathlib.Analysis.InnerProductSpace.PiL2
/-
  Helper lemmas for C13 (real inner-product space algebra; no sigpy content).
-/
namespace SigpyVerif.C13
open RealInnerProductSpace

variable {E : Type*} [NormedAddCommGroup E] [InnerProductSpace ℝ E]

/-- Variational characterisation of `p = prox_{α g}(v)`:
    `g(w) ≥ g(p) + ⟨(v - p)/α, w - p⟩` for all `w`. -/
def IsProx (g : E → ℝ) (α : ℝ) (v p : E) : Prop :=
  ∀ w, g p + ⟪(1 / α) • (v - p), w - p⟫ ≤ g w

/-- the prox point is unique (for `α > 0`) -/
theorem isProx_unique {g : E → ℝ} {α : ℝ} {v p q : E} (hα : 0 < α)
    (hp : IsProx g α v p) (hq : IsProx g α v q) : p = q := by
  have h1 := hp q
  have h2 := hq p
  rw [real_inner_smul_left] at h1 h2
  have e : ⟪v - p, q - p⟫ + ⟪v - q, p - q⟫ = ‖p - q‖ ^ 2 := by
    rw [← real_inner_self_eq_norm_sq]
    have a1 : ⟪v - p, q - p⟫ = - ⟪v - p, p - q⟫ := by
      rw [← inner_neg_right]; congr 1; abel
    rw [a1, ← sub_eq_neg_add, ← inner_sub_left]; congr 1; abel
  have h3 : (1 / α) * ‖p - q‖ ^ 2 ≤ 0 := by
    rw [← e, mul_add]; linarith
  have h4 : ‖p - q‖ ^ 2 ≤ 0 := by
    have : 0 < 1 / α := by positivity
    nlinarith
  have h5 : ‖p - q‖ = 0 := by
    have := sq_nonneg ‖p - q‖
    exact pow_eq_zero_iff (two_ne_zero) |>.mp (le_antisymm h4 this)
  exact sub_eq_zero.mp (norm_eq_zero.mp h5)

/-- The fundamental prox-gradient inequality at an arbitrary base point `y`
    (`p` the prox-gradient point of `y`), multiplied by `2α`. -/
theorem step_ineq (f g : E → ℝ) (gf : E → E) (α L : ℝ) (hα : 0 < α) (hL : α * L ≤ 1) (y w p : E)
    (hconv : f y + ⟪gf y, w - y⟫ ≤ f w)
    (hdesc : f p ≤ f y + ⟪gf y, p - y⟫ + L / 2 * ‖p - y‖ ^ 2)
    (hp : IsProx g α (y - α • gf y) p) :
    2 * α * ((f p + g p) - (f w + g w)) ≤ ‖y - w‖ ^ 2 - ‖p - w‖ ^ 2 := by
  have h1 := hp w
  have hLa : α * (L * ‖p - y‖ ^ 2) ≤ ‖p - y‖ ^ 2 := by
    have := mul_le_mul_of_nonneg_right hL (sq_nonneg ‖p - y‖)
    linarith
  have e1 : ‖y - w‖ ^ 2 = ‖y - p‖ ^ 2 + 2 * ⟪y - p, p - w⟫ + ‖p - w‖ ^ 2 := by
    have : y - w = (y - p) + (p - w) := by abel
    rw [this, norm_add_sq_real]
  have e2 : ‖p - y‖ = ‖y - p‖ := norm_sub_rev _ _
  have e3 : α * ⟪(1 / α) • (y - α • gf y - p), w - p⟫ = ⟪y - p, w - p⟫ - α * ⟪gf y, w - p⟫ := by
    have : y - α • gf y - p = (y - p) - α • gf y := by abel
    rw [this, real_inner_smul_left, inner_sub_left, real_inner_smul_left]
    field_simp
  have e4 : ⟪gf y, w - y⟫ = ⟪gf y, w - p⟫ + ⟪gf y, p - y⟫ := by
    rw [← inner_add_right]; congr 1; abel
  have e5 : ⟪y - p, p - w⟫ = - ⟪y - p, w - p⟫ := by
    rw [← inner_neg_right]; congr 1; abel
  have h1' := mul_le_mul_of_nonneg_left h1 hα.le
  rw [mul_add, e3] at h1'
  have hd' := mul_le_mul_of_nonneg_left hdesc hα.le
  have hc' := mul_le_mul_of_nonneg_left hconv hα.le
  rw [e4] at hc'
  rw [e1, e5]
  rw [e2] at hLa hd'
  nlinarith

/-- `‖t a - (t-1) x - w‖²` in terms of the pairwise distances -/
theorem norm_comb (t : ℝ) (a x w : E) :
    ‖t • a - (t - 1) • x - w‖ ^ 2
      = t * (t - 1) * ‖a - x‖ ^ 2 + t * ‖a - w‖ ^ 2 - (t - 1) * ‖x - w‖ ^ 2 := by
  have e : t • a - (t - 1) • x - w = (t - 1) • (a - x) + (a - w) := by
    simp only [sub_smul, smul_sub, one_smul]; abel
  have e2 : x - w = (a - w) - (a - x) := by abel
  rw [e, e2, norm_add_sq_real, norm_sub_sq_real (a - w) (a - x), norm_smul, real_inner_smul_left, mul_pow,
    Real.norm_eq_abs, sq_abs, real_inner_comm (a - x) (a - w)]
  ring

omit [InnerProductSpace ℝ E] in
/-- the Chambolle–Pock metric is positive semidefinite when `τ σ L² ≤ 1` -/
theorem metric_psd {F : Type*} [NormedAddCommGroup F] [InnerProductSpace ℝ F]
    (τ σ L : ℝ) (hτ : 0 < τ) (hσ : 0 < σ) (hstep : τ * σ * L ^ 2 ≤ 1)
    (a : E) (b c : F) (hc : ‖c‖ ≤ L * ‖a‖) :
    0 ≤ ‖a‖ ^ 2 / τ - 2 * ⟪c, b⟫ + ‖b‖ ^ 2 / σ := by
  have h1 : ⟪c, b⟫ ≤ L * ‖a‖ * ‖b‖ :=
    (real_inner_le_norm c b).trans (mul_le_mul_of_nonneg_right hc (norm_nonneg b))
  have key : 0 ≤ σ * ‖a‖ ^ 2 + τ * ‖b‖ ^ 2 - 2 * (τ * σ) * (L * ‖a‖ * ‖b‖) := by
    have h2 : 0 ≤ τ * ‖b‖ ^ 2 * (1 - τ * σ * L ^ 2) :=
      mul_nonneg (mul_nonneg hτ.le (sq_nonneg _)) (by linarith)
    nlinarith [mul_nonneg hσ.le (sq_nonneg (‖a‖ - L * τ * ‖b‖))]
  have e : ‖a‖ ^ 2 / τ - 2 * ⟪c, b⟫ + ‖b‖ ^ 2 / σ
      = (σ * ‖a‖ ^ 2 + τ * ‖b‖ ^ 2 - 2 * (τ * σ) * ⟪c, b⟫) / (τ * σ) := by
    field_simp
    ring
  rw [e]
  apply div_nonneg _ (mul_pos hτ hσ).le
  have : 2 * (τ * σ) * ⟪c, b⟫ ≤ 2 * (τ * σ) * (L * ‖a‖ * ‖b‖) :=
    mul_le_mul_of_nonneg_left h1 (by positivity)
  linarith

section two
variable {F : Type*} [NormedAddCommGroup F] [InnerProductSpace ℝ F]

theorem isProx_shift_iff (g : E → ℝ) (α : ℝ) (hα : 0 < α) (p d : E) :
    IsProx g α (p + α • d) p ↔ ∀ w, g p + ⟪d, w - p⟫ ≤ g w := by
  have e : (1 / α) • (p + α • d - p) = d := by
    rw [add_sub_cancel_left, smul_smul, one_div, inv_mul_cancel₀ hα.ne', one_smul]
  unfold IsProx
  rw [e]

theorem inner_prox_arg (α : ℝ) (hα : 0 < α) (v d p w : E) :
    ⟪(1 / α) • (v + α • d - p), w⟫ = (1 / α) * ⟪v - p, w⟫ + ⟪d, w⟫ := by
  have : v + α • d - p = (v - p) + α • d := by abel
  rw [this, real_inner_smul_left, inner_add_left, real_inner_smul_left]
  field_simp

/-- the coupled ("step-size weighted") squared distance of Chambolle–Pock -/
noncomputable def coupled (A : E → F) (τ σ : ℝ) (a : E) (b : F) : ℝ :=
  ‖a‖ ^ 2 / τ - 2 * ⟪A a, b⟫ + ‖b‖ ^ 2 / σ

theorem fejer_core (A : E →ₗ[ℝ] F) (AH : F → E) (hadj : ∀ x u, ⟪A x, u⟫ = ⟪x, AH u⟫)
    (τ σ : ℝ) (x x1 xs : E) (u1 u2 us : F)
    (hP : (1 / τ) * ⟪x - x1, xs - x1⟫ - ⟪AH u1, xs - x1⟫ - ⟪AH us, x1 - xs⟫ ≤ 0)
    (hD : (1 / σ) * ⟪u1 - u2, us - u2⟫ + ⟪A (x1 + (x1 - x)), us - u2⟫ + ⟪A xs, u2 - us⟫ ≤ 0) :
    coupled A τ σ (x1 - xs) (u2 - us) + coupled A τ σ (x1 - x) (u2 - u1)
      ≤ coupled A τ σ (x - xs) (u1 - us) := by
  have hA1 : ⟪AH u1, xs - x1⟫ = ⟪A (xs - x1), u1⟫ := (real_inner_comm _ _).trans (hadj _ _).symm
  have hA2 : ⟪AH us, x1 - xs⟫ = ⟪A (x1 - xs), us⟫ := (real_inner_comm _ _).trans (hadj _ _).symm
  rw [hA1, hA2] at hP
  unfold coupled
  simp only [← real_inner_self_eq_norm_sq, map_sub, map_add, inner_sub_left, inner_sub_right,
    inner_add_left] at hP hD ⊢
  have s1 := real_inner_comm x x1
  have s2 := real_inner_comm x xs
  have s3 := real_inner_comm x1 xs
  have s4 := real_inner_comm u1 u2
  have s5 := real_inner_comm u1 us
  have s6 := real_inner_comm u2 us
  simp only [div_eq_inv_mul, mul_one] at hP hD ⊢
  rw [s1, s2, s3] at *
  rw [s4, s5, s6] at *
  nlinarith

end two

/-! ### array-valued ("diagonal") steps: a step acting on the space as an operator -/

/-- A step size as the code uses it: the operator `v ↦ τ ⊙ v` (`util.axpy(x, -tau, ·)` multiplies
    elementwise) together with its inverse `v ↦ v / τ` (the weight of `norm(v / tau**0.5)**2` and of the
    prox).  A scalar step is `τ • id`; an array step is `diag(τ_i)`. -/
structure StepOp (E : Type*) [NormedAddCommGroup E] [InnerProductSpace ℝ E] where
  op : E →ₗ[ℝ] E
  inv : E →ₗ[ℝ] E

set_option linter.unusedSimpArgs false
namespace StepOp
variable {G : Type*} [NormedAddCommGroup G] [InnerProductSpace ℝ G]

/-- `-tau` -/
instance : Neg (StepOp G) := ⟨fun T => ⟨-T.op, -T.inv⟩⟩
/-- `tau * v` (elementwise) -/
instance : SMul (StepOp G) G := ⟨fun T v => T.op v⟩
/-- `tau *= theta` -/
noncomputable instance : SMul ℝ (StepOp G) := ⟨fun c T => ⟨c • T.op, c⁻¹ • T.inv⟩⟩
/-- `tau /= theta` -/
noncomputable instance : HDiv (StepOp G) ℝ (StepOp G) := ⟨fun T c => ⟨c⁻¹ • T.op, c • T.inv⟩⟩

/-- the scalar step `τ` -/
noncomputable def scalar (τ : ℝ) : StepOp G := ⟨τ • LinearMap.id, τ⁻¹ • LinearMap.id⟩

/-- "all entries of the step are positive": `inv` inverts `op`, and `⟨T⁻¹·,·⟩` is a symmetric positive
    definite form (for `T = diag(τ_i)`: `Σ_i |v_i|²/τ_i`, every `τ_i > 0`). -/
structure Pos (T : StepOp G) : Prop where
  left_inv : ∀ x, T.inv (T.op x) = x
  right_inv : ∀ x, T.op (T.inv x) = x
  symm : ∀ x y, ⟪T.inv x, y⟫ = ⟪x, T.inv y⟫
  pos : ∀ x, x ≠ 0 → 0 < ⟪T.inv x, x⟫

theorem smul_act (T : StepOp G) (v : G) : T • v = T.op v := rfl
theorem neg_act (T : StepOp G) (v : G) : (-T) • v = -(T.op v) := rfl
theorem smul_op (c : ℝ) (T : StepOp G) : (c • T).op = c • T.op := rfl
theorem smul_inv (c : ℝ) (T : StepOp G) : (c • T).inv = c⁻¹ • T.inv := rfl
theorem div_op (c : ℝ) (T : StepOp G) : (T / c).op = c⁻¹ • T.op := rfl
theorem div_inv (c : ℝ) (T : StepOp G) : (T / c).inv = c • T.inv := rfl

theorem Pos.nonneg {T : StepOp G} (h : T.Pos) (x : G) : 0 ≤ ⟪T.inv x, x⟫ := by
  by_cases hx : x = 0
  · simp [hx]
  · exact (h.pos x hx).le

theorem Pos.eq_zero {T : StepOp G} (h : T.Pos) {x : G} (hx : ⟪T.inv x, x⟫ ≤ 0) : x = 0 := by
  by_contra hne
  exact absurd (h.pos x hne) (not_lt.mpr hx)

/-- a positive scalar step is a positive step -/
theorem scalar_pos {τ : ℝ} (hτ : 0 < τ) : (scalar τ : StepOp G).Pos where
  left_inv x := by simp [scalar, smul_smul, hτ.ne']
  right_inv x := by simp [scalar, smul_smul, hτ.ne']
  symm x y := by simp [scalar, real_inner_smul_left, real_inner_smul_right]
  pos x hx := by
    simp only [scalar, LinearMap.smul_apply, LinearMap.id_apply, real_inner_smul_left]
    have : 0 < ⟪x, x⟫ := by rw [real_inner_self_eq_norm_sq]; positivity
    positivity

/-- rescaling by a positive factor (`tau *= theta`) keeps a step positive -/
theorem Pos.smul {T : StepOp G} (h : T.Pos) {c : ℝ} (hc : 0 < c) : (c • T).Pos where
  left_inv x := by
    simp only [smul_op, smul_inv, LinearMap.smul_apply, map_smul, smul_smul, h.left_inv,
      inv_mul_cancel₀ hc.ne', inv_mul_cancel₀ hc.ne', mul_inv_cancel₀ hc.ne', one_smul]
  right_inv x := by
    simp only [smul_op, smul_inv, LinearMap.smul_apply, map_smul, smul_smul, h.right_inv,
      inv_mul_cancel₀ hc.ne', mul_inv_cancel₀ hc.ne', one_smul]
  symm x y := by
    simp only [smul_inv, LinearMap.smul_apply, real_inner_smul_left, real_inner_smul_right, h.symm]
  pos x hx := by
    simp only [smul_inv, LinearMap.smul_apply, real_inner_smul_left]
    exact mul_pos (inv_pos.mpr hc) (h.pos x hx)

/-- `tau /= theta` with `theta > 0` keeps a step positive -/
theorem Pos.div {T : StepOp G} (h : T.Pos) {c : ℝ} (hc : 0 < c) : (T / c).Pos where
  left_inv x := by
    simp only [div_op, div_inv, LinearMap.smul_apply, map_smul, smul_smul, h.left_inv,
      inv_mul_cancel₀ hc.ne', mul_inv_cancel₀ hc.ne', one_smul]
  right_inv x := by
    simp only [div_op, div_inv, LinearMap.smul_apply, map_smul, smul_smul, h.right_inv,
      inv_mul_cancel₀ hc.ne', inv_mul_cancel₀ hc.ne', mul_inv_cancel₀ hc.ne', one_smul]
  symm x y := by
    simp only [div_inv, LinearMap.smul_apply, real_inner_smul_left, real_inner_smul_right, h.symm]
  pos x hx := by
    simp only [div_inv, LinearMap.smul_apply, real_inner_smul_left]
    exact mul_pos hc (h.pos x hx)

end StepOp

/-- Variational characterisation of the prox with an operator step, i.e. in the `T⁻¹`-weighted inner
    product: `p = argmin_w g(w) + ½⟨T⁻¹(w - v), w - v⟩  ⇔  ∀ w, g(w) ≥ g(p) + ⟨T⁻¹(v - p), w - p⟩`.
    For `T = diag(τ_i)` and a separable `g = Σ g_i` this is the elementwise prox with step `τ_i` in
    entry `i` — what `proxg(tau, ·)` of sigpy.prox computes when `tau` is an array. -/
def IsProxW (g : E → ℝ) (T : StepOp E) (v p : E) : Prop :=
  ∀ w, g p + ⟪T.inv (v - p), w - p⟫ ≤ g w

/-- for a scalar step the weighted characterisation is the usual one -/
theorem isProxW_scalar (g : E → ℝ) (α : ℝ) (v p : E) :
    IsProxW g (StepOp.scalar α) v p ↔ IsProx g α v p := by
  unfold IsProxW IsProx StepOp.scalar
  simp only [LinearMap.smul_apply, LinearMap.id_apply, one_div]

theorem isProxW_unique {g : E → ℝ} {T : StepOp E} (hT : T.Pos) {v p q : E}
    (hp : IsProxW g T v p) (hq : IsProxW g T v q) : p = q := by
  have h1 := hp q
  have h2 := hq p
  have e : ⟪T.inv (v - p), q - p⟫ + ⟪T.inv (v - q), p - q⟫ = ⟪T.inv (p - q), p - q⟫ := by
    have hs := hT.symm p q
    simp only [map_sub, inner_sub_left, inner_sub_right] at hs ⊢
    have s1 := hT.symm v p
    have s2 := hT.symm v q
    linarith
  have h3 : ⟪T.inv (p - q), p - q⟫ ≤ 0 := by rw [← e]; linarith
  exact sub_eq_zero.mp (hT.eq_zero h3)

theorem isProxW_shift_iff (g : E → ℝ) {T : StepOp E} (hT : T.Pos) (p d : E) :
    IsProxW g T (p + T.op d) p ↔ ∀ w, g p + ⟪d, w - p⟫ ≤ g w := by
  unfold IsProxW
  rw [add_sub_cancel_left, hT.left_inv]

section twoW
variable {F : Type*} [NormedAddCommGroup F] [InnerProductSpace ℝ F]

/-- the coupled squared distance for operator steps:
    `⟨T⁻¹a, a⟩ - 2⟨A a, b⟩ + ⟨Σ⁻¹b, b⟩` -/
noncomputable def coupledW (A : E → F) (T : StepOp E) (Sg : StepOp F) (a : E) (b : F) : ℝ :=
  ⟪T.inv a, a⟫ - 2 * ⟪A a, b⟫ + ⟪Sg.inv b, b⟫

/-- algebraic core of the Fejér inequality for operator steps (same identity as `fejer_core`, with
    `(1/τ)⟨·,·⟩` replaced by the symmetric form `⟨T⁻¹·,·⟩`) -/
theorem fejer_coreW (A : E →ₗ[ℝ] F) (AH : F → E) (hadj : ∀ x u, ⟪A x, u⟫ = ⟪x, AH u⟫)
    (T : StepOp E) (Sg : StepOp F) (hT : ∀ x y, ⟪T.inv x, y⟫ = ⟪x, T.inv y⟫)
    (hS : ∀ x y, ⟪Sg.inv x, y⟫ = ⟪x, Sg.inv y⟫) (x x1 xs : E) (u1 u2 us : F)
    (hP : ⟪T.inv (x - x1), xs - x1⟫ - ⟪AH u1, xs - x1⟫ - ⟪AH us, x1 - xs⟫ ≤ 0)
    (hD : ⟪Sg.inv (u1 - u2), us - u2⟫ + ⟪A (x1 + (x1 - x)), us - u2⟫ + ⟪A xs, u2 - us⟫ ≤ 0) :
    coupledW A T Sg (x1 - xs) (u2 - us) + coupledW A T Sg (x1 - x) (u2 - u1)
      ≤ coupledW A T Sg (x - xs) (u1 - us) := by
  have hA1 : ⟪AH u1, xs - x1⟫ = ⟪A (xs - x1), u1⟫ := (real_inner_comm _ _).trans (hadj _ _).symm
  have hA2 : ⟪AH us, x1 - xs⟫ = ⟪A (x1 - xs), us⟫ := (real_inner_comm _ _).trans (hadj _ _).symm
  rw [hA1, hA2] at hP
  unfold coupledW
  simp only [map_sub, map_add, inner_sub_left, inner_sub_right, inner_add_left] at hP hD ⊢
  have sy : ∀ a b : E, ⟪T.inv a, b⟫ = ⟪T.inv b, a⟫ := fun a b => (hT a b).trans (real_inner_comm _ _)
  have sz : ∀ a b : F, ⟪Sg.inv a, b⟫ = ⟪Sg.inv b, a⟫ := fun a b => (hS a b).trans (real_inner_comm _ _)
  have s1 := sy x x1
  have s2 := sy x xs
  have s3 := sy x1 xs
  have s4 := sz u1 u2
  have s5 := sz u1 us
  have s6 := sz u2 us
  linarith

end twoW


/-! ### the concrete case: arrays on `ℝⁿ`, matrices, and Pock–Chambolle's diagonal preconditioning rule -/
section concrete

/-- elementwise multiplication by the array `τ` on `ℝⁿ` -/
noncomputable def mulVecOp {n : ℕ} (τ : Fin n → ℝ) : EuclideanSpace ℝ (Fin n) →ₗ[ℝ] EuclideanSpace ℝ (Fin n) where
  toFun x := WithLp.toLp 2 (fun i => τ i * x i)
  map_add' x y := by ext i; simp [mul_add]
  map_smul' c x := by ext i; simp; ring

/-- the array-valued step `tau` on `ℝⁿ`: multiply / divide elementwise -/
noncomputable def StepOp.diag {n : ℕ} (τ : Fin n → ℝ) : StepOp (EuclideanSpace ℝ (Fin n)) :=
  ⟨mulVecOp τ, mulVecOp (fun i => (τ i)⁻¹)⟩

theorem StepOp.diag_pos {n : ℕ} (τ : Fin n → ℝ) (hτ : ∀ i, 0 < τ i) : (StepOp.diag τ).Pos where
  left_inv x := by
    ext i; simp [StepOp.diag, mulVecOp, (hτ i).ne']
  right_inv x := by
    ext i; simp [StepOp.diag, mulVecOp, (hτ i).ne']
  symm x y := by
    simp only [StepOp.diag, mulVecOp, LinearMap.coe_mk, AddHom.coe_mk, PiLp.inner_apply]
    apply Finset.sum_congr rfl
    intro i _
    simp; ring
  pos x hx := by
    simp only [StepOp.diag, mulVecOp, LinearMap.coe_mk, AddHom.coe_mk, PiLp.inner_apply]
    have hne : ∃ i, x i ≠ 0 := by
      by_contra h
      push Not at h
      exact hx (by ext i; simp [h i])
    obtain ⟨i, hi⟩ := hne
    apply Finset.sum_pos'
    · intro j _
      simp
      have h1 : 0 < (τ j)⁻¹ := inv_pos.mpr (hτ j)
      nlinarith [mul_self_nonneg (x.ofLp j)]
    · refine ⟨i, Finset.mem_univ i, ?_⟩
      simp
      have h1 : 0 < (τ i)⁻¹ := inv_pos.mpr (hτ i)
      have h2 : 0 < x.ofLp i * x.ofLp i := mul_self_pos.mpr hi
      nlinarith [mul_pos h1 h2]

theorem two_mul_le_of_sq_le {a b c : ℝ} (ha : 0 ≤ a) (hb : 0 ≤ b) (h : c ^ 2 ≤ a * b) : 2 * |c| ≤ a + b := by
  by_contra hc
  rw [not_le] at hc
  have h0 : 0 ≤ a + b := by linarith
  have h1 : (a + b) ^ 2 < (2 * |c|) ^ 2 := by
    apply pow_lt_pow_left₀ hc h0 (by norm_num)
  have h2 : (2 * |c|) ^ 2 = 4 * c ^ 2 := by rw [mul_pow, sq_abs]; norm_num
  nlinarith [sq_nonneg (a - b)]

/-- finite-sum core of Pock–Chambolle's diagonal preconditioning lemma -/
theorem pock_chambolle_sum {m n : ℕ} (M : Fin m → Fin n → ℝ) (ti : Fin n → ℝ) (si : Fin m → ℝ)
    (p q : Fin m → Fin n → ℝ) (hp : ∀ i j, 0 ≤ p i j) (hq : ∀ i j, 0 ≤ q i j)
    (hpq : ∀ i j, (M i j) ^ 2 ≤ p i j * q i j)
    (hcol : ∀ j, ∑ i, p i j ≤ ti j) (hrow : ∀ i, ∑ j, q i j ≤ si i) (x : Fin n → ℝ) (u : Fin m → ℝ) :
    2 * |∑ i, (∑ j, M i j * x j) * u i| ≤ ∑ j, ti j * x j ^ 2 + ∑ i, si i * u i ^ 2 := by
  have hterm : ∀ i j, 2 * |M i j * x j * u i| ≤ p i j * x j ^ 2 + q i j * u i ^ 2 := by
    intro i j
    apply two_mul_le_of_sq_le (mul_nonneg (hp i j) (sq_nonneg _)) (mul_nonneg (hq i j) (sq_nonneg _))
    have := mul_le_mul_of_nonneg_right (hpq i j) (mul_nonneg (sq_nonneg (x j)) (sq_nonneg (u i)))
    nlinarith
  have h1 : |∑ i, (∑ j, M i j * x j) * u i| ≤ ∑ i, ∑ j, |M i j * x j * u i| := by
    calc |∑ i, (∑ j, M i j * x j) * u i| ≤ ∑ i, |(∑ j, M i j * x j) * u i| := Finset.abs_sum_le_sum_abs _ _
      _ ≤ ∑ i, ∑ j, |M i j * x j * u i| := by
        apply Finset.sum_le_sum; intro i _
        rw [Finset.sum_mul]
        exact Finset.abs_sum_le_sum_abs _ _
  have h2 : 2 * ∑ i, ∑ j, |M i j * x j * u i| ≤ ∑ i, ∑ j, (p i j * x j ^ 2 + q i j * u i ^ 2) := by
    rw [Finset.mul_sum]
    apply Finset.sum_le_sum; intro i _
    rw [Finset.mul_sum]
    apply Finset.sum_le_sum; intro j _
    exact hterm i j
  have h3 : ∑ i, ∑ j, (p i j * x j ^ 2 + q i j * u i ^ 2)
      = ∑ j, (∑ i, p i j) * x j ^ 2 + ∑ i, (∑ j, q i j) * u i ^ 2 := by
    simp only [Finset.sum_add_distrib]
    congr 1
    · rw [Finset.sum_comm]
      apply Finset.sum_congr rfl; intro j _
      rw [Finset.sum_mul]
    · apply Finset.sum_congr rfl; intro i _
      rw [Finset.sum_mul]
  have h4 : ∑ j, (∑ i, p i j) * x j ^ 2 ≤ ∑ j, ti j * x j ^ 2 :=
    Finset.sum_le_sum fun j _ => mul_le_mul_of_nonneg_right (hcol j) (sq_nonneg _)
  have h5 : ∑ i, (∑ j, q i j) * u i ^ 2 ≤ ∑ i, si i * u i ^ 2 :=
    Finset.sum_le_sum fun i _ => mul_le_mul_of_nonneg_right (hrow i) (sq_nonneg _)
  linarith
/-- the matrix `M` as the operator `v ↦ M @ v` on `ℝⁿ → ℝᵐ` -/
noncomputable def matOp {m n : ℕ} (M : Fin m → Fin n → ℝ) : EuclideanSpace ℝ (Fin n) →ₗ[ℝ] EuclideanSpace ℝ (Fin m) where
  toFun x := WithLp.toLp 2 (fun i => ∑ j, M i j * x j)
  map_add' x y := by ext i; simp [mul_add, Finset.sum_add_distrib]
  map_smul' c x := by
    ext i; simp only [PiLp.smul_apply, smul_eq_mul, RingHom.id_apply, Finset.mul_sum]
    apply Finset.sum_congr rfl; intro j _; ring

theorem diag_inv_inner {n : ℕ} (τ : Fin n → ℝ) (x : EuclideanSpace ℝ (Fin n)) :
    ⟪(StepOp.diag τ).inv x, x⟫ = ∑ j, (τ j)⁻¹ * x j ^ 2 := by
  simp only [StepOp.diag, mulVecOp, LinearMap.coe_mk, AddHom.coe_mk, PiLp.inner_apply]
  apply Finset.sum_congr rfl; intro j _; simp; ring

theorem matOp_inner {m n : ℕ} (M : Fin m → Fin n → ℝ) (x : EuclideanSpace ℝ (Fin n)) (u : EuclideanSpace ℝ (Fin m)) :
    ⟪matOp M x, u⟫ = ∑ i, (∑ j, M i j * x j) * u i := by
  simp only [matOp, LinearMap.coe_mk, AddHom.coe_mk, PiLp.inner_apply]
  apply Finset.sum_congr rfl; intro i _; simp; ring

theorem pock_chambolle_diag {m n : ℕ} (M : Fin m → Fin n → ℝ) (τ : Fin n → ℝ) (σ : Fin m → ℝ)
    (hτ : ∀ j, 0 < τ j) (hσ : ∀ i, 0 < σ i)
    (p q : Fin m → Fin n → ℝ) (hp : ∀ i j, 0 ≤ p i j) (hq : ∀ i j, 0 ≤ q i j)
    (hpq : ∀ i j, (M i j) ^ 2 ≤ p i j * q i j)
    (hcol : ∀ j, τ j * ∑ i, p i j ≤ 1) (hrow : ∀ i, σ i * ∑ j, q i j ≤ 1)
    (x : EuclideanSpace ℝ (Fin n)) (u : EuclideanSpace ℝ (Fin m)) :
    2 * |⟪matOp M x, u⟫| ≤ ⟪(StepOp.diag τ).inv x, x⟫ + ⟪(StepOp.diag σ).inv u, u⟫ := by
  rw [diag_inv_inner, diag_inv_inner, matOp_inner]
  apply pock_chambolle_sum M (fun j => (τ j)⁻¹) (fun i => (σ i)⁻¹) p q hp hq hpq
  · intro j
    rw [← one_div, le_div_iff₀ (hτ j), mul_comm]; exact hcol j
  · intro i
    rw [← one_div, le_div_iff₀ (hσ i), mul_comm]; exact hrow i

/-- `Aᴴ` of a real matrix is its transpose -/
theorem matOp_adjoint {m n : ℕ} (M : Fin m → Fin n → ℝ) (x : EuclideanSpace ℝ (Fin n)) (u : EuclideanSpace ℝ (Fin m)) :
    ⟪matOp M x, u⟫ = ⟪x, matOp (fun j i => M i j) u⟫ := by
  rw [matOp_inner, real_inner_comm, matOp_inner]
  simp only [Finset.sum_mul]
  rw [Finset.sum_comm]
  apply Finset.sum_congr rfl; intro j _
  apply Finset.sum_congr rfl; intro i _
  ring

end concrete

/-! ### from a one-step Fejér inequality to summability and a 1/N rate -/

theorem fejer_sum_le (D R : ℕ → ℝ) (h : ∀ k, D (k + 1) + R k ≤ D k) (N : ℕ) :
    D N + ∑ k ∈ Finset.range N, R k ≤ D 0 := by
  induction N with
  | zero => simp
  | succ n ih => rw [Finset.sum_range_succ]; linarith [h n]

theorem fejer_min_le (D R : ℕ → ℝ) (h : ∀ k, D (k + 1) + R k ≤ D k) (hD : ∀ k, 0 ≤ D k)
    (N : ℕ) (hN : 0 < N) : ∃ j, j < N ∧ R j ≤ D 0 / N := by
  by_contra hc
  push Not at hc
  have hne : (Finset.range N).Nonempty := ⟨0, Finset.mem_range.mpr hN⟩
  have hlt : ∑ _k ∈ Finset.range N, D 0 / N < ∑ k ∈ Finset.range N, R k :=
    Finset.sum_lt_sum_of_nonempty hne (fun j hj => hc j (Finset.mem_range.mp hj))
  have hN' : (0 : ℝ) < N := Nat.cast_pos.mpr hN
  rw [Finset.sum_const, Finset.card_range, nsmul_eq_mul, mul_div_cancel₀ _ hN'.ne'] at hlt
  linarith [fejer_sum_le D R h N, hD N]

theorem theta_pos_lt_one (c : ℝ) (hc : 0 < c) :
    0 < 1 / Real.sqrt (1 + c) ∧ 1 / Real.sqrt (1 + c) < 1 := by
  have h1 : 1 < Real.sqrt (1 + c) := by
    rw [Real.lt_sqrt (by norm_num)]; linarith
  constructor
  · positivity
  · rw [div_lt_one (by linarith)]; exact h1


/-! ### the momentum rule over ℝ -/

theorem tnext_sq (t : ℝ) : ((1 + Real.sqrt (1 + 4 * (t * t))) / 2) ^ 2 - (1 + Real.sqrt (1 + 4 * (t * t))) / 2 = t ^ 2 := by
  have h : Real.sqrt (1 + 4 * (t * t)) ^ 2 = 1 + 4 * (t * t) := Real.sq_sqrt (by nlinarith [mul_self_nonneg t])
  nlinarith

theorem tnext_ge (t : ℝ) : t + 1 / 2 ≤ (1 + Real.sqrt (1 + 4 * (t * t))) / 2 := by
  have h : 2 * t ≤ Real.sqrt (1 + 4 * (t * t)) := by
    apply Real.le_sqrt_of_sq_le; nlinarith
  linarith

end SigpyVerif.C13
