import SigpyVerif.Model.C05
import SigpyVerif.Lemmas.Py
import Mathlib.RingTheory.RootsOfUnity.Complex
import Mathlib.Analysis.RCLike.Basic
import Mathlib.LinearAlgebra.Matrix.ConjTranspose
import Mathlib.LinearAlgebra.Matrix.Kronecker
/-
  Helper lemmas for C05 (roots of unity, geometric sums).
-/
namespace SigpyVerif.C05
open SigpyVerif Finset

variable {K : Type*} [Field K]

/-- exponents of an `n`-th root of unity only matter modulo `n` -/
theorem zpow_emod_of_pow_eq_one {ω : K} {n : ℕ} (h1 : ω ^ n = 1) (hω : ω ≠ 0) (a : ℤ) :
    ω ^ (a % (n : ℤ)) = ω ^ a := by
  conv_rhs => rw [← Int.emod_add_mul_ediv a n]
  rw [zpow_add₀ hω, zpow_mul, zpow_natCast, h1, one_zpow, mul_one]

/-- geometric sum of a non-trivial `n`-th root of unity -/
theorem geom_sum_root {ζ : K} {n : ℕ} (h1 : ζ ^ n = 1) (hne : ζ ≠ 1) : ∑ k ∈ range n, ζ ^ k = 0 := by
  have h := geom_sum_mul ζ n
  rw [h1, sub_self] at h
  rcases mul_eq_zero.mp h with h | h
  · exact h
  · exact absurd (sub_eq_zero.mp h) hne

/-- orthogonality of the (shifted) DFT characters over any field -/
theorem char_orthogonality {ω : K} {n : ℕ} (hω : IsPrimitiveRoot ω n) (hn : 0 < n) (c : ℤ) (j j' : ℕ)
    (hj : j < n) (hj' : j' < n) :
    ∑ k ∈ range n, ω ^ (((k : ℤ) - c) * ((j : ℤ) - c)) * (ω⁻¹) ^ (((k : ℤ) - c) * ((j' : ℤ) - c)) =
      if j = j' then (n : K) else 0 := by
  have h0 : ω ≠ 0 := hω.ne_zero (by omega)
  have step : ∀ k : ℕ, ω ^ (((k : ℤ) - c) * ((j : ℤ) - c)) * (ω⁻¹) ^ (((k : ℤ) - c) * ((j' : ℤ) - c)) =
      ω ^ (-c * ((j : ℤ) - j')) * (ω ^ ((j : ℤ) - j')) ^ k := by
    intro k
    rw [inv_zpow', ← zpow_add₀ h0, ← zpow_natCast, ← zpow_mul, ← zpow_add₀ h0]
    congr 1; ring
  simp only [step]
  rw [← Finset.mul_sum]
  split_ifs with h
  · subst h
    simp
  · have hne : ω ^ ((j : ℤ) - j') ≠ 1 := by
      intro h1
      have hd := (hω.zpow_eq_one_iff_dvd _).mp h1
      have : (j : ℤ) - j' = 0 := Int.eq_zero_of_abs_lt_dvd hd (by rw [abs_lt]; omega)
      omega
    have h1 : (ω ^ ((j : ℤ) - j')) ^ n = 1 := by
      rw [← zpow_natCast, ← zpow_mul, mul_comm, zpow_mul, zpow_natCast, hω.pow_eq_one, one_zpow]
    rw [geom_sum_root h1 hne, mul_zero]

end SigpyVerif.C05
