import SigpyVerif.Lemmas.C01
import Mathlib.Data.List.Nodup
import Mathlib.Data.List.Perm.Basic
import SigpyVerif.Lemmas.Py
import Mathlib.Data.List.Forall2
import Mathlib.Data.List.Range
import Mathlib.Tactic.Ring
import Mathlib.Tactic.Linarith
/-
  Index lemmas for the C01 leaf proofs: `allIdx` enumerates exactly the in-bounds multi-indices,
  once each and in row-major order (`fl` of the o-th element is `o`); gathers whose index maps are
  mutually inverse partial bijections are permutations of each other's transpose; the bridge from
  the label-pushing form (`labelE` over a C09 array function) to the gather form.
-/
set_option linter.unusedSectionVars false
namespace SigpyVerif.C01
open SigpyVerif

/-- in-bounds multi-index of a shape -/
abbrev InB (sh k : List Int) : Prop := List.Forall₂ (fun n i : Int => 0 ≤ i ∧ i < n) sh k

theorem mem_allIdx {sh k : List Int} : k ∈ allIdx sh ↔ InB sh k := by
  induction sh generalizing k with
  | nil => simp [allIdx, InB]
  | cons n rest ih =>
    simp only [allIdx, List.mem_flatMap, List.mem_map, InB, List.forall₂_cons_left_iff]
    constructor
    · rintro ⟨i, hi, k', hk', rfl⟩
      exact ⟨i, k', mem_pyRange0.mp hi, ih.mp hk', rfl⟩
    · rintro ⟨i, k', hi, hk', rfl⟩
      exact ⟨i, mem_pyRange0.mpr hi, k', ih.mpr hk', rfl⟩

theorem InB.length {sh k : List Int} (h : InB sh k) : sh.length = k.length := List.Forall₂.length_eq h

/-- a Python `range(a, b, s)` never repeats a value -/
theorem pyRange_nodup_idx (a b s : Int) : (pyRange a b s).Nodup := by
  unfold pyRange
  split_ifs with hs
  · exact List.nodup_nil
  · refine List.Nodup.map ?_ List.nodup_range
    intro k₁ k₂ h
    have h' : (k₁ : Int) * s = (k₂ : Int) * s := by simpa using h
    have : (k₁ : Int) = (k₂ : Int) := Int.eq_of_mul_eq_mul_right (by omega) h'
    exact_mod_cast this

theorem nodup_flatMap_key_idx {α β : Type} {l : List α} {f : α → List β} (key : β → α)
    (hl : l.Nodup) (hf : ∀ x, (f x).Nodup) (hkey : ∀ x, ∀ y ∈ f x, key y = x) :
    (l.flatMap f).Nodup := by
  rw [List.nodup_flatMap]
  refine ⟨fun x _ => hf x, hl.pairwise_of_forall_ne ?_⟩
  intro a _ b _ hab
  show List.Disjoint (f a) (f b)
  rw [List.disjoint_left]
  intro y hya hyb
  exact hab ((hkey a y hya).symm.trans (hkey b y hyb))

theorem allIdx_nodup (sh : List Int) : (allIdx sh).Nodup := by
  induction sh with
  | nil => simp [allIdx]
  | cons n rest ih =>
    unfold allIdx
    refine nodup_flatMap_key_idx (fun k => k.headD 0) (pyRange_nodup_idx _ _ _) (fun i => ?_) ?_
    · exact ih.map (fun a b h => by simpa using h)
    · intro i y hy
      obtain ⟨k, _, rfl⟩ := List.mem_map.mp hy
      rfl

theorem shapeProd_foldl (sh : List Int) (a : Int) : sh.foldl (· * ·) a = a * shapeProd sh := by
  induction sh generalizing a with
  | nil => simp [shapeProd]
  | cons n rest ih =>
    simp only [List.foldl_cons, shapeProd]
    rw [ih, ih (1 * n)]
    ring

theorem shapeProd_nil : shapeProd [] = 1 := rfl

theorem shapeProd_cons (n : Int) (sh : List Int) : shapeProd (n :: sh) = n * shapeProd sh := by
  unfold shapeProd
  rw [List.foldl_cons, shapeProd_foldl, shapeProd]
  ring

theorem ravel_acc (sh k : List Int) (h : sh.length = k.length) (acc : Int) :
    (List.zip sh k).foldl (fun acc (p : Int × Int) => acc * p.1 + p.2) acc
      = acc * shapeProd sh + ravel sh k := by
  induction sh generalizing k acc with
  | nil => simp [ravel, shapeProd_nil]
  | cons n rest ih =>
    cases k with
    | nil => simp at h
    | cons i k =>
      have hl : rest.length = k.length := by simpa using h
      simp only [List.zip_cons_cons, List.foldl_cons, ravel]
      rw [ih k hl, ih k hl (0 * n + i), shapeProd_cons]
      unfold ravel
      ring

theorem ravel_nil : ravel [] [] = 0 := rfl

theorem ravel_cons (n i : Int) (sh k : List Int) (h : sh.length = k.length) :
    ravel (n :: sh) (i :: k) = i * shapeProd sh + ravel sh k := by
  have := ravel_acc sh k h (0 * n + i)
  unfold ravel at this ⊢
  simp only [List.zip_cons_cons, List.foldl_cons]
  rw [this]
  ring

theorem ravel_bounds {sh k : List Int} (h : InB sh k) : 0 ≤ ravel sh k ∧ ravel sh k < shapeProd sh := by
  induction h with
  | nil => simp [ravel_nil, shapeProd_nil]
  | @cons n i sh k hi hk ih =>
    rw [ravel_cons n i sh k hk.length_eq, shapeProd_cons]
    obtain ⟨h0, h1⟩ := ih
    obtain ⟨i0, i1⟩ := hi
    constructor
    · have : 0 ≤ i * shapeProd sh := mul_nonneg i0 (by omega)
      omega
    · have : (i + 1) * shapeProd sh ≤ n * shapeProd sh :=
        mul_le_mul_of_nonneg_right (by omega) (by omega)
      nlinarith

theorem fl_lt {sh k : List Int} (h : InB sh k) : fl sh k < (shapeProd sh).toNat := by
  obtain ⟨h0, h1⟩ := ravel_bounds h
  unfold fl
  omega

theorem fl_cons (n i : Int) (sh k : List Int) (hk : InB sh k) (hi : 0 ≤ i) :
    fl (n :: sh) (i :: k) = i.toNat * (shapeProd sh).toNat + fl sh k := by
  obtain ⟨h0, h1⟩ := ravel_bounds hk
  unfold fl
  rw [ravel_cons n i sh k hk.length_eq]
  have hp : 0 ≤ shapeProd sh := by omega
  have : (i * shapeProd sh + ravel sh k).toNat = (i * shapeProd sh).toNat + (ravel sh k).toNat :=
    Int.toNat_add (mul_nonneg hi hp) h0
  rw [this, Int.toNat_mul hi hp]

theorem range_mul_flat (N P : Nat) :
    (List.range N).flatMap (fun i => (List.range P).map fun j => i * P + j) = List.range (N * P) := by
  induction N with
  | zero => simp
  | succ N ih =>
    rw [List.range_succ, List.flatMap_append, ih, Nat.succ_mul, List.range_add]
    simp

theorem pyRange0_eq (n : Int) : pyRange0 n = (List.range n.toNat).map fun (i : Nat) => (i : Int) := by
  unfold pyRange0 pyRange
  simp

/-- `allIdx` lists the multi-indices in row-major order: the flat index of the `o`-th one is `o` -/
theorem allIdx_map_fl (sh : List Int) (hsh : ∀ n ∈ sh, 0 ≤ n) :
    (allIdx sh).map (fl sh) = List.range (shapeProd sh).toNat := by
  induction sh with
  | nil => simp [allIdx, fl, ravel_nil, shapeProd_nil]
  | cons n rest ih =>
    have hn : 0 ≤ n := hsh n (List.mem_cons_self ..)
    have hrest : ∀ m ∈ rest, 0 ≤ m := fun m hm => hsh m (List.mem_cons_of_mem _ hm)
    have hP : 0 ≤ shapeProd rest := by
      clear ih hsh
      induction rest with
      | nil => simp [shapeProd_nil]
      | cons m r ihr =>
        rw [shapeProd_cons]
        exact mul_nonneg (hrest m (List.mem_cons_self ..))
          (ihr fun x hx => hrest x (List.mem_cons_of_mem _ hx))
    unfold allIdx
    rw [List.map_flatMap, pyRange0_eq, List.flatMap_map]
    have : ∀ i : Nat, ((allIdx rest).map fun k => ((i : Int) :: k)).map (fl (n :: rest))
        = (List.range (shapeProd rest).toNat).map fun j => i * (shapeProd rest).toNat + j := by
      intro i
      rw [← ih hrest, List.map_map, List.map_map]
      apply List.map_congr_left
      intro k hk
      simp only [Function.comp]
      rw [fl_cons n i rest k (mem_allIdx.mp hk) (Int.natCast_nonneg i)]
      simp
    simp only [this]
    rw [range_mul_flat, shapeProd_cons, Int.toNat_mul hn hP]

theorem allIdx_length (sh : List Int) (hsh : ∀ n ∈ sh, 0 ≤ n) :
    (allIdx sh).length = (shapeProd sh).toNat := by
  have := congrArg List.length (allIdx_map_fl sh hsh)
  simpa using this

/-- reading position `fl sh k` of an array laid out along `allIdx sh` gives the value at `k` -/
theorem getD_map_allIdx {β : Type} (sh : List Int) (hsh : ∀ n ∈ sh, 0 ≤ n) (b : List Int → β) (d : β)
    (k : List Int) (hk : k ∈ allIdx sh) : ((allIdx sh).map b).getD (fl sh k) d = b k := by
  obtain ⟨i, hi, rfl⟩ := List.mem_iff_getElem.mp hk
  have h1 : ((allIdx sh).map (fl sh))[i]'(by simpa using hi) = fl sh (allIdx sh)[i] := by simp
  have h2 : ((allIdx sh).map (fl sh))[i]'(by simpa using hi) = i := by
    simp only [allIdx_map_fl sh hsh]
    simp
  rw [← h1, h2]
  simp [List.getD_eq_getElem?_getD, hi]

theorem allIdx_eq_nil (sh : List Int) (h : ∃ n ∈ sh, n ≤ 0) : allIdx sh = [] := by
  induction sh with
  | nil => simp at h
  | cons n rest ih =>
    unfold allIdx
    by_cases hn : n ≤ 0
    · have : pyRange0 n = [] := by
        rw [pyRange0_eq]; simp; omega
      rw [this]; simp
    · obtain ⟨m, hm, hm0⟩ := h
      have : ∃ n ∈ rest, n ≤ 0 := by
        rcases List.mem_cons.mp hm with rfl | h'
        · exact absurd hm0 hn
        · exact ⟨m, h', hm0⟩
      rw [ih this]; simp

/-! ### gathers -/
section gather
variable {α : Type} [CommRing α] [StarRing α]

/-- the graph of a gather as a list of (output multi-index, input multi-index) pairs -/
def graphL (osh : List Int) (g : List Int → Option (List Int)) : List (List Int × List Int) :=
  (allIdx osh).filterMap fun k => (g k).map fun j => (k, j)

theorem mem_graphL {osh : List Int} {g : List Int → Option (List Int)} {p : List Int × List Int} :
    p ∈ graphL osh g ↔ p.1 ∈ allIdx osh ∧ g p.1 = some p.2 := by
  unfold graphL
  simp only [List.mem_filterMap, Option.map_eq_some_iff]
  constructor
  · rintro ⟨k, hk, j, hj, rfl⟩
    exact ⟨hk, hj⟩
  · rintro ⟨hk, hj⟩
    exact ⟨p.1, hk, p.2, hj, rfl⟩

theorem graphL_nodup (osh : List Int) (g : List Int → Option (List Int)) : (graphL osh g).Nodup := by
  unfold graphL
  refine (allIdx_nodup osh).filterMap ?_
  intro a a' b hb hb'
  simp only [Option.mem_def, Option.map_eq_some_iff] at hb hb'
  obtain ⟨j, _, rfl⟩ := hb
  obtain ⟨j', _, h⟩ := hb'
  simp only [Prod.mk.injEq] at h
  exact h.1.symm

theorem gatherE_eq_graph (osh ish : List Int) (g : List Int → Option (List Int)) :
    (gatherE osh ish g : List (Ent α)) = (graphL osh g).map fun p => (fl osh p.1, fl ish p.2, (1 : α)) := by
  unfold gatherE graphL
  rw [List.map_filterMap]
  congr 1
  funext k
  cases g k <;> rfl

/-- two gathers whose index maps are mutually inverse partial bijections between the in-bounds
    multi-indices are transposes of each other, as multisets of entries -/
theorem gatherE_perm_swap (osh ish : List Int) (g g' : List Int → Option (List Int))
    (h1 : ∀ k ∈ allIdx osh, ∀ j, g k = some j → j ∈ allIdx ish ∧ g' j = some k)
    (h2 : ∀ j ∈ allIdx ish, ∀ k, g' j = some k → k ∈ allIdx osh ∧ g k = some j) :
    (gatherE ish osh g' : List (Ent α)).Perm (swapE (gatherE osh ish g)) := by
  rw [gatherE_eq_graph, gatherE_eq_graph]
  unfold swapE
  rw [List.map_map]
  have hp : (graphL ish g').Perm ((graphL osh g).map fun p => (p.2, p.1)) := by
    rw [List.perm_ext_iff_of_nodup (graphL_nodup _ _)
      ((graphL_nodup _ _).map (fun a b h => by
        obtain ⟨a1, a2⟩ := a; obtain ⟨b1, b2⟩ := b
        simp only [Prod.mk.injEq] at h ⊢; exact ⟨h.2, h.1⟩))]
    rintro ⟨j, k⟩
    rw [mem_graphL, List.mem_map]
    constructor
    · rintro ⟨hj, hk⟩
      obtain ⟨hk', hg⟩ := h2 j hj k hk
      exact ⟨(k, j), mem_graphL.mpr ⟨hk', hg⟩, rfl⟩
    · rintro ⟨⟨k', j'⟩, hm, he⟩
      simp only [Prod.mk.injEq] at he
      obtain ⟨rfl, rfl⟩ := he
      obtain ⟨hk', hg⟩ := mem_graphL.mp hm
      exact h1 k' hk' j' hg
  have := hp.map fun p : List Int × List Int => ((fl ish p.1, fl osh p.2, (1 : α)) : Ent α)
  rw [List.map_map] at this
  exact this

theorem labels_getD (n i : Nat) (h : i < n) : ((Array.range n).map (· + 1)).getD i 0 = i + 1 := by
  simp [Array.getD, h]

/-- **bridge**: relabelling `1..n` by an array function that lays out, along `allIdx osh`, the value
    read at the flat position of `g k` (or 0) yields exactly the gather entries of `g` -/
theorem labelE_eq_gatherE_nonneg (osh ish : List Int) (hosh : ∀ n ∈ osh, 0 ≤ n)
    (g : List Int → Option (List Int)) (f : Array Nat → Array Nat)
    (hf : f ((Array.range (shapeProd ish).toNat).map (· + 1)) = ((allIdx osh).map fun k =>
      match g k with
      | some j => ((Array.range (shapeProd ish).toNat).map (· + 1)).getD (fl ish j) 0
      | none => 0).toArray)
    (hg : ∀ k ∈ allIdx osh, ∀ j, g k = some j → j ∈ allIdx ish) :
    (labelE (shapeProd ish).toNat f : List (Ent α)) = gatherE osh ish g := by
  unfold labelE gatherE
  simp only [hf, List.size_toArray, List.length_map]
  rw [allIdx_length osh hosh, ← allIdx_map_fl osh hosh, List.filterMap_map]
  apply List.filterMap_congr
  intro k hk
  simp only [Function.comp]
  have hget : ∀ b : List Int → Nat, (((allIdx osh).map b).toArray).getD (fl osh k) 0 = b k := by
    intro b
    have hlt : fl osh k < (allIdx osh).length := by
      rw [allIdx_length osh hosh]; exact fl_lt (mem_allIdx.mp hk)
    have := getD_map_allIdx osh hosh b 0 k hk
    simpa [Array.getD, List.getD_eq_getElem?_getD, hlt] using this
  rw [hget]
  cases hgk : g k with
  | none => simp
  | some j =>
    have hj := fl_lt (mem_allIdx.mp (hg k hk j hgk))
    simp only [labels_getD _ _ hj]
    simp

theorem labelE_eq_gatherE (osh ish : List Int)
    (g : List Int → Option (List Int)) (f : Array Nat → Array Nat)
    (hf : f ((Array.range (shapeProd ish).toNat).map (· + 1)) = ((allIdx osh).map fun k =>
      match g k with
      | some j => ((Array.range (shapeProd ish).toNat).map (· + 1)).getD (fl ish j) 0
      | none => 0).toArray)
    (hg : ∀ k ∈ allIdx osh, ∀ j, g k = some j → j ∈ allIdx ish) :
    (labelE (shapeProd ish).toNat f : List (Ent α)) = gatherE osh ish g := by
  by_cases hosh : ∀ n ∈ osh, 0 ≤ n
  · exact labelE_eq_gatherE_nonneg osh ish hosh g f hf hg
  · have hnil : allIdx osh = [] := by
      apply allIdx_eq_nil
      by_contra hc
      apply hosh
      intro n hn
      by_contra hn0
      exact hc ⟨n, hn, by omega⟩
    unfold labelE gatherE
    simp [hf, hnil]

/-! ### axis-wise index maps -/

/-- apply `φ axis length index` on every axis (the form of the index maps of `util.flip`, `numpy.roll`) -/
def axmapFrom (s : Nat) (φ : Nat → Int → Int → Int) (sh k : List Int) : List Int :=
  (List.zip (List.range' s sh.length) (List.zip sh k)).map fun (d, n, kd) => φ d n kd

def axmap (φ : Nat → Int → Int → Int) (sh k : List Int) : List Int :=
  (List.zip (List.range sh.length) (List.zip sh k)).map fun (d, n, kd) => φ d n kd

theorem axmap_eq (φ : Nat → Int → Int → Int) (sh k : List Int) : axmap φ sh k = axmapFrom 0 φ sh k := by
  unfold axmap axmapFrom; rw [List.range_eq_range']

theorem axmapFrom_nil (s : Nat) (φ : Nat → Int → Int → Int) : axmapFrom s φ [] [] = [] := rfl

theorem axmapFrom_cons (s : Nat) (φ : Nat → Int → Int → Int) (n i : Int) (sh k : List Int) :
    axmapFrom s φ (n :: sh) (i :: k) = φ s n i :: axmapFrom (s + 1) φ sh k := by
  unfold axmapFrom
  simp [List.range'_succ]

theorem axmapFrom_inB (φ : Nat → Int → Int → Int)
    (hφ : ∀ d n x, 0 ≤ x → x < n → 0 ≤ φ d n x ∧ φ d n x < n) {sh k : List Int} (h : InB sh k) (s : Nat) :
    InB sh (axmapFrom s φ sh k) := by
  induction h generalizing s with
  | nil => exact List.Forall₂.nil
  | @cons n i sh k hi hk ih =>
    rw [axmapFrom_cons]
    exact List.Forall₂.cons (hφ s n i hi.1 hi.2) (ih (s + 1))

theorem axmapFrom_comp (φ ψ : Nat → Int → Int → Int) {sh k : List Int} (h : InB sh k) (s : Nat) :
    axmapFrom s ψ sh (axmapFrom s φ sh k) = axmapFrom s (fun d n x => ψ d n (φ d n x)) sh k := by
  induction h generalizing s with
  | nil => rfl
  | @cons n i sh k hi hk ih =>
    rw [axmapFrom_cons, axmapFrom_cons, axmapFrom_cons, ih (s + 1)]

theorem axmapFrom_congr (φ ψ : Nat → Int → Int → Int)
    (hφ : ∀ d n x, 0 ≤ x → x < n → φ d n x = ψ d n x) {sh k : List Int} (h : InB sh k) (s : Nat) :
    axmapFrom s φ sh k = axmapFrom s ψ sh k := by
  induction h generalizing s with
  | nil => rfl
  | @cons n i sh k hi hk ih =>
    rw [axmapFrom_cons, axmapFrom_cons, ih (s + 1), hφ s n i hi.1 hi.2]

theorem axmapFrom_id (φ : Nat → Int → Int → Int)
    (hφ : ∀ d n x, 0 ≤ x → x < n → φ d n x = x) {sh k : List Int} (h : InB sh k) (s : Nat) :
    axmapFrom s φ sh k = k := by
  induction h generalizing s with
  | nil => rfl
  | @cons n i sh k hi hk ih =>
    rw [axmapFrom_cons, ih (s + 1), hφ s n i hi.1 hi.2]

theorem axmap_mem (φ : Nat → Int → Int → Int)
    (hφ : ∀ d n x, 0 ≤ x → x < n → 0 ≤ φ d n x ∧ φ d n x < n) {sh k : List Int} (h : k ∈ allIdx sh) :
    axmap φ sh k ∈ allIdx sh := by
  rw [axmap_eq]; exact mem_allIdx.mpr (axmapFrom_inB φ hφ (mem_allIdx.mp h) 0)

/-- `ψ` undoes `φ` on every axis ⇒ the axis-wise maps undo each other on in-bounds multi-indices -/
theorem axmap_inverse (φ ψ : Nat → Int → Int → Int)
    (_hφ : ∀ d n x, 0 ≤ x → x < n → 0 ≤ φ d n x ∧ φ d n x < n)
    (hinv : ∀ d n x, 0 ≤ x → x < n → ψ d n (φ d n x) = x) {sh k : List Int} (h : k ∈ allIdx sh) :
    axmap ψ sh (axmap φ sh k) = k := by
  rw [axmap_eq, axmap_eq, axmapFrom_comp φ ψ (mem_allIdx.mp h) 0]
  exact axmapFrom_id _ hinv (mem_allIdx.mp h) 0

theorem axmap_comp (φ ψ : Nat → Int → Int → Int) {sh k : List Int} (h : k ∈ allIdx sh) :
    axmap ψ sh (axmap φ sh k) = axmap (fun d n x => ψ d n (φ d n x)) sh k := by
  rw [axmap_eq, axmap_eq, axmap_eq, axmapFrom_comp φ ψ (mem_allIdx.mp h) 0]

theorem axmap_congr (φ ψ : Nat → Int → Int → Int)
    (hφ : ∀ d n x, 0 ≤ x → x < n → φ d n x = ψ d n x) {sh k : List Int} (h : k ∈ allIdx sh) :
    axmap φ sh k = axmap ψ sh k := by
  rw [axmap_eq, axmap_eq]; exact axmapFrom_congr φ ψ hφ (mem_allIdx.mp h) 0

/-- a pair of mutually inverse axis-wise bijections gives a gather and its transpose -/
theorem gatherE_axmap_perm (sh : List Int) (φ ψ : Nat → Int → Int → Int)
    (hφ : ∀ d n x, 0 ≤ x → x < n → 0 ≤ φ d n x ∧ φ d n x < n)
    (hψ : ∀ d n x, 0 ≤ x → x < n → 0 ≤ ψ d n x ∧ ψ d n x < n)
    (h1 : ∀ d n x, 0 ≤ x → x < n → ψ d n (φ d n x) = x)
    (h2 : ∀ d n x, 0 ≤ x → x < n → φ d n (ψ d n x) = x) :
    (gatherE sh sh (fun k => some (axmap ψ sh k)) : List (Ent α)).Perm
      (swapE (gatherE sh sh fun k => some (axmap φ sh k))) := by
  apply gatherE_perm_swap
  · intro k hk j hj
    simp only [Option.some.injEq] at hj
    subst hj
    exact ⟨axmap_mem φ hφ hk, by rw [axmap_inverse φ ψ hφ h1 hk]⟩
  · intro j hj k hk
    simp only [Option.some.injEq] at hk
    subst hk
    exact ⟨axmap_mem ψ hψ hj, by rw [axmap_inverse ψ φ hψ h2 hj]⟩

/-! ### axis permutations -/

theorem getI_eq_getElem (l : List Int) (d : Nat) (h : d < l.length) : getI l d = l[d] := by
  simp [getI, List.getD_eq_getElem?_getD, h]

theorem inB_iff_getI {sh k : List Int} :
    InB sh k ↔ k.length = sh.length ∧ ∀ d, d < sh.length → 0 ≤ getI k d ∧ getI k d < getI sh d := by
  unfold InB
  rw [List.forall₂_iff_get]
  constructor
  · rintro ⟨hl, h⟩
    refine ⟨hl.symm, fun d hd => ?_⟩
    have := h d hd (hl ▸ hd)
    rw [getI_eq_getElem k d (hl ▸ hd), getI_eq_getElem sh d hd]
    simpa using this
  · rintro ⟨hl, h⟩
    refine ⟨hl.symm, fun d h1 h2 => ?_⟩
    have := h d h1
    rw [getI_eq_getElem k d h2, getI_eq_getElem sh d h1] at this
    simpa using this

theorem ext_getI {l1 l2 : List Int} (hl : l1.length = l2.length)
    (h : ∀ d, d < l1.length → getI l1 d = getI l2 d) : l1 = l2 := by
  apply List.ext_getElem hl
  intro i h1 h2
  have := h i h1
  rwa [getI_eq_getElem l1 i h1, getI_eq_getElem l2 i h2] at this

/-- the multi-index whose axis `a` is axis `τ a` of `j` -/
def permIdx (τ : Nat → Nat) (n : Nat) (j : List Int) : List Int :=
  (List.range n).map fun (a : Nat) => getI j (τ a)

theorem permIdx_length (τ : Nat → Nat) (n : Nat) (j : List Int) : (permIdx τ n j).length = n := by
  simp [permIdx]

theorem getI_permIdx (τ : Nat → Nat) (n : Nat) (j : List Int) (d : Nat) (hd : d < n) :
    getI (permIdx τ n j) d = getI j (τ d) := by
  rw [getI_eq_getElem _ _ (by simpa [permIdx] using hd)]
  simp [permIdx]

theorem permIdx_step (n : Nat) (osh ish : List Int) (σ τ : Nat → Nat) (hl : osh.length = n)
    (hl' : ish.length = n) (hσ : ∀ a, a < n → σ a < n) (hτ : ∀ d, d < n → τ d < n)
    (h2 : ∀ d, d < n → σ (τ d) = d) (hsh : ∀ a, a < n → getI ish a = getI osh (σ a))
    (k : List Int) (hk : InB osh k) :
    InB ish (permIdx σ n k) ∧ permIdx τ n (permIdx σ n k) = k := by
  obtain ⟨hkl, hkb⟩ := inB_iff_getI.mp hk
  constructor
  · rw [inB_iff_getI]
    refine ⟨by rw [permIdx_length, hl'], fun a ha => ?_⟩
    rw [hl'] at ha
    rw [getI_permIdx σ n k a ha, hsh a ha]
    exact hkb (σ a) (by rw [hl]; exact hσ a ha)
  · apply ext_getI
    · rw [permIdx_length, hkl, hl]
    · intro d hd
      rw [permIdx_length] at hd
      rw [getI_permIdx τ n _ d hd, getI_permIdx σ n k _ (hτ d hd), h2 d hd]

/-- gathers along mutually inverse axis permutations are transposes of each other -/
theorem gatherE_permIdx_perm (n : Nat) (osh ish : List Int) (σ τ : Nat → Nat) (hl : osh.length = n)
    (hl' : ish.length = n) (hσ : ∀ a, a < n → σ a < n) (hτ : ∀ d, d < n → τ d < n)
    (h1 : ∀ a, a < n → τ (σ a) = a) (h2 : ∀ d, d < n → σ (τ d) = d)
    (hsh : ∀ a, a < n → getI ish a = getI osh (σ a)) :
    (gatherE ish osh (fun j => some (permIdx τ n j)) : List (Ent α)).Perm
      (swapE (gatherE osh ish fun k => some (permIdx σ n k))) := by
  have hsh' : ∀ d, d < n → getI osh d = getI ish (τ d) := by
    intro d hd; rw [hsh (τ d) (hτ d hd), h2 d hd]
  apply gatherE_perm_swap
  · intro k hk j hj
    simp only [Option.some.injEq] at hj
    subst hj
    obtain ⟨i1, i2⟩ := permIdx_step n osh ish σ τ hl hl' hσ hτ h2 hsh k (mem_allIdx.mp hk)
    exact ⟨mem_allIdx.mpr i1, by rw [i2]⟩
  · intro j hj k hk
    simp only [Option.some.injEq] at hk
    subst hk
    obtain ⟨i1, i2⟩ := permIdx_step n ish osh τ σ hl' hl hτ hσ h1 hsh' j (mem_allIdx.mp hj)
    exact ⟨mem_allIdx.mpr i1, by rw [i2]⟩

/-! ### removing axes / broadcasting (Sum after Multiply) -/

def rmFrom (s : Nat) (rm : Nat → Bool) (k : List Int) : List Int :=
  ((List.range' s k.length).zip k).filterMap fun (d, v) => if rm d then none else some v

theorem removeAxes_eq (axes k : List Int) :
    removeAxes axes k = rmFrom 0 (fun d => axes.contains (d : Int)) k := by
  unfold removeAxes rmFrom
  rw [List.range_eq_range']

theorem rmFrom_cons (s : Nat) (rm : Nat → Bool) (v : Int) (k : List Int) :
    rmFrom s rm (v :: k) = if rm s then rmFrom (s + 1) rm k else v :: rmFrom (s + 1) rm k := by
  unfold rmFrom
  simp only [List.length_cons, List.range'_succ, List.zip_cons_cons, List.filterMap_cons]
  cases rm s <;> simp

theorem bcast_cons (n v : Int) (sh k : List Int) :
    bcast (n :: sh) (v :: k) = (if n = 1 then 0 else v) :: bcast sh k := by
  simp [bcast]

theorem getI_cons_succ (x : Int) (l : List Int) (t : Nat) : getI (x :: l) (t + 1) = getI l t := by
  simp [getI]

theorem getI_cons_zero (x : Int) (l : List Int) : getI (x :: l) 0 = x := by
  simp [getI]

/-- dropping the axes marked by `rm` (all of size 1 in `ie`) from an index of `osh` gives the same
    flat position as broadcasting the index into `ie`, when the kept axes have equal sizes -/
theorem rm_bcast (rm : Nat → Bool) {osh k : List Int} (hk : InB osh k) (s : Nat) (ie : List Int)
    (hl : ie.length = osh.length)
    (h : ∀ t, t < osh.length →
      (rm (s + t) = true → getI ie t = 1) ∧ (rm (s + t) = false → getI ie t = getI osh t)) :
    InB (rmFrom s rm osh) (rmFrom s rm k) ∧ InB ie (bcast ie k) ∧
      ravel (rmFrom s rm osh) (rmFrom s rm k) = ravel ie (bcast ie k) ∧
      shapeProd (rmFrom s rm osh) = shapeProd ie := by
  induction hk generalizing s ie with
  | nil =>
    cases ie with
    | nil => exact ⟨List.Forall₂.nil, List.Forall₂.nil, rfl, rfl⟩
    | cons _ _ => simp at hl
  | @cons n i osh k hi hk ih =>
    cases ie with
    | nil => simp at hl
    | cons m ie' =>
      have hl' : ie'.length = osh.length := by simpa using hl
      have h0 := h 0 (by simp)
      simp only [Nat.add_zero, getI_cons_zero] at h0
      have h' : ∀ t, t < osh.length →
          (rm (s + 1 + t) = true → getI ie' t = 1) ∧ (rm (s + 1 + t) = false → getI ie' t = getI osh t) := by
        intro t ht
        have := h (t + 1) (by simpa using ht)
        simp only [getI_cons_succ] at this
        rwa [show s + (t + 1) = s + 1 + t by omega] at this
      obtain ⟨a1, a2, a3, a4⟩ := ih (s + 1) ie' hl' h'
      rw [rmFrom_cons, rmFrom_cons, bcast_cons]
      cases hr : rm s with
      | true =>
        have hm : m = 1 := h0.1 hr
        subst hm
        simp only [if_true]
        refine ⟨a1, List.Forall₂.cons ⟨le_refl _, by omega⟩ a2, ?_, ?_⟩
        · rw [ravel_cons _ _ _ _ a2.length_eq, a3]; ring
        · rw [shapeProd_cons, a4]; ring
      | false =>
        have hm : m = n := h0.2 hr
        subst hm
        have hv : (if m = 1 then 0 else i) = i := by
          split_ifs with h1
          · omega
          · rfl
        simp only [Bool.false_eq_true, if_false, hv]
        refine ⟨List.Forall₂.cons hi a1, List.Forall₂.cons hi a2, ?_, ?_⟩
        · rw [ravel_cons _ _ _ _ a1.length_eq, ravel_cons _ _ _ _ a2.length_eq, a3, a4]
        · rw [shapeProd_cons, shapeProd_cons, a4]

theorem rm_prod (rm : Nat → Bool) (osh : List Int) (s : Nat) (ie : List Int) (hl : ie.length = osh.length)
    (h : ∀ t, t < osh.length →
      (rm (s + t) = true → getI ie t = 1) ∧ (rm (s + t) = false → getI ie t = getI osh t)) :
    shapeProd (rmFrom s rm osh) = shapeProd ie := by
  induction osh generalizing s ie with
  | nil =>
    cases ie with
    | nil => rfl
    | cons _ _ => simp at hl
  | cons n osh ih =>
    cases ie with
    | nil => simp at hl
    | cons m ie' =>
      have hl' : ie'.length = osh.length := by simpa using hl
      have h0 := h 0 (by simp)
      simp only [Nat.add_zero, getI_cons_zero] at h0
      have h' : ∀ t, t < osh.length →
          (rm (s + 1 + t) = true → getI ie' t = 1) ∧ (rm (s + 1 + t) = false → getI ie' t = getI osh t) := by
        intro t ht
        have := h (t + 1) (by simpa using ht)
        simp only [getI_cons_succ] at this
        rwa [show s + (t + 1) = s + 1 + t by omega] at this
      have a4 := ih (s + 1) ie' hl' h'
      rw [rmFrom_cons]
      cases hr : rm s with
      | true =>
        rw [h0.1 hr, if_pos rfl, shapeProd_cons, a4]; ring
      | false =>
        rw [h0.2 hr, if_neg (by simp), shapeProd_cons, shapeProd_cons, a4]

theorem bcast_self {sh k : List Int} (hk : InB sh k) : bcast sh k = k := by
  induction hk with
  | nil => rfl
  | @cons n i sh k hi hk ih =>
    rw [bcast_cons, ih]
    congr 1
    split_ifs with h1
    · omega
    · rfl

theorem bshape_cons (x y : Int) (a b o : List Int) :
    bshape (x :: a) (y :: b) = some o ↔
      ∃ o', (x = y ∨ x = 1 ∨ y = 1) ∧ bshape a b = some o' ∧ o = max x y :: o' := by
  unfold bshape
  simp only [List.zip_cons_cons, List.mapM_cons, Option.bind_eq_bind, Option.pure_def,
    Option.bind_eq_some_iff]
  constructor
  · rintro ⟨v, hv, vs, hvs, he⟩
    split_ifs at hv with hc
    simp only [Option.some.injEq] at hv he
    exact ⟨vs, hc, hvs, by rw [← he, ← hv]⟩
  · rintro ⟨o', hc, ho', rfl⟩
    exact ⟨max x y, by rw [if_pos hc], o', ho', rfl⟩

theorem bshape_nil_iff (o : List Int) : bshape [] [] = some o ↔ o = [] := by
  unfold bshape
  simp [eq_comm]

theorem bshape_spec {a b o : List Int} (h : bshape a b = some o) (hl : a.length = b.length) :
    o.length = a.length ∧ ∀ t, t < a.length →
      (getI a t = getI b t ∨ getI a t = 1 ∨ getI b t = 1) ∧ getI o t = max (getI a t) (getI b t) := by
  induction a generalizing b o with
  | nil =>
    cases b with
    | nil => rw [bshape_nil_iff] at h; subst h; simp
    | cons _ _ => simp at hl
  | cons x a ih =>
    cases b with
    | nil => simp at hl
    | cons y b =>
      rw [bshape_cons] at h
      obtain ⟨o', hc, ho', rfl⟩ := h
      obtain ⟨l1, l2⟩ := ih ho' (by simpa using hl)
      refine ⟨by simp [l1], ?_⟩
      intro t ht
      cases t with
      | zero => rw [getI_cons_zero, getI_cons_zero, getI_cons_zero]; exact ⟨hc, rfl⟩
      | succ t => simp only [getI_cons_succ]; exact l2 t (by simpa using ht)

theorem bshape_idem {a b o : List Int} (h : bshape a b = some o) (hl : a.length = b.length) :
    bshape o b = some o := by
  induction a generalizing b o with
  | nil =>
    cases b with
    | nil => rw [bshape_nil_iff] at h; subst h; rfl
    | cons _ _ => simp at hl
  | cons x a ih =>
    cases b with
    | nil => simp at hl
    | cons y b =>
      rw [bshape_cons] at h
      obtain ⟨o', hc, ho', rfl⟩ := h
      rw [bshape_cons]
      refine ⟨o', ?_, ih ho' (by simpa using hl), ?_⟩
      · rcases hc with h1 | h1 | h1 <;> omega
      · congr 1; omega

/-! ### composing entry lists indexed by the same duplicate-free list -/

theorem filterMap_single {β γ : Type} [DecidableEq γ] (L : List β) (hL : L.Nodup) (key : β → γ)
    (F : β → Ent α) (j : β) (hj : j ∈ L) (hinj : ∀ k ∈ L, key j = key k → j = k) :
    L.filterMap (fun k => if key j = key k then some (F k) else none) = [F j] := by
  induction L with
  | nil => simp at hj
  | cons a L ih =>
    rw [List.nodup_cons] at hL
    rw [List.filterMap_cons]
    by_cases hja : j = a
    · subst hja
      simp only [if_true]
      have : L.filterMap (fun k => if key j = key k then some (F k) else none) = [] := by
        rw [List.filterMap_eq_nil_iff]
        intro k hk
        have : ¬ key j = key k := fun h => hL.1 ((hinj k (List.mem_cons_of_mem _ hk) h) ▸ hk)
        simp [this]
      rw [this]
    · have hj' : j ∈ L := by
        rcases List.mem_cons.mp hj with h | h
        · exact absurd h hja
        · exact h
      have hne : ¬ key j = key a := fun h => hja (hinj a (List.mem_cons_self ..) h)
      simp only [hne, if_false]
      exact ih hL.2 hj' (fun k hk => hinj k (List.mem_cons_of_mem _ hk))

theorem flatMap_singleton_of {β γ : Type} (L : List β) (f : β → List γ) (g : β → γ)
    (h : ∀ j ∈ L, f j = [g j]) : L.flatMap f = L.map g := by
  induction L with
  | nil => rfl
  | cons a L ih =>
    rw [List.flatMap_cons, h a (List.mem_cons_self ..), ih fun j hj => h j (List.mem_cons_of_mem _ hj)]
    rfl

/-- product of two entry lists laid out along the same duplicate-free list `L`, the first reading
    where the second writes (`key`, injective on `L`): one product entry per element of `L` -/
theorem compE_along {β : Type} (L : List β) (hL : L.Nodup) (key : β → Nat)
    (hinj : ∀ j ∈ L, ∀ k ∈ L, key j = key k → j = k) (oa ib : β → Nat) (wa wb : β → α) :
    compE (L.map fun j => ((oa j, key j, wa j) : Ent α)) (L.map fun k => ((key k, ib k, wb k) : Ent α))
      = L.map fun j => ((oa j, ib j, wa j * wb j) : Ent α) := by
  unfold compE
  rw [List.flatMap_map]
  apply flatMap_singleton_of
  intro j hj
  rw [List.filterMap_map]
  exact filterMap_single L hL key (fun k => (oa j, ib k, wa j * wb k)) j hj (hinj j hj)

theorem fl_inj (sh : List Int) {k k' : List Int} (hk : k ∈ allIdx sh) (hk' : k' ∈ allIdx sh)
    (h : fl sh k = fl sh k') : k = k' := by
  by_cases hsh : ∀ n ∈ sh, 0 ≤ n
  · have hnd : ((allIdx sh).map (fl sh)).Nodup := by rw [allIdx_map_fl sh hsh]; exact List.nodup_range
    exact List.inj_on_of_nodup_map hnd hk hk' h
  · have hnil : allIdx sh = [] := by
      apply allIdx_eq_nil
      by_contra hc
      apply hsh
      intro n hn
      by_contra hn0
      exact hc ⟨n, hn, by omega⟩
    rw [hnil] at hk; simp at hk

theorem inRangeE_id (n m : Nat) (E : List (Ent α)) (h : InRange n m E) : inRangeE n m E = E := by
  unfold inRangeE
  rw [List.filter_eq_self]
  intro e he
  simpa using h e he

end gather
end SigpyVerif.C01
