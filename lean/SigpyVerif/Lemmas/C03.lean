import SigpyVerif.Model.C03
import SigpyVerif.Lemmas.Py
import Mathlib.Tactic.Ring
import Mathlib.Tactic.Linarith
/-
  Helper lemmas for property C03 (stacking parameters, slab bounds, 1-D slab partition).
-/
namespace SigpyVerif.C03

/-- `[s, s+x₀, s+x₀+x₁, …]` (one entry per size): running offsets -/
def prefixFrom : Nat → List Nat → List Nat
  | _, [] => []
  | s, x :: xs => s :: prefixFrom (s + x) xs

/-- the documented shape predicate for one further operand: same rank, equal off the axis -/
def Fits (a : Nat) (s0 sh : List Nat) : Prop :=
  sh.length = s0.length ∧ ∀ i, i < s0.length → i ≠ a → sh.getD i 0 = s0.getD i 0

theorem compat_iff (a : Nat) (acc sh : List Nat) : compat a acc sh = true ↔ Fits a acc sh := by
  unfold compat Fits
  simp only [Bool.and_eq_true, decide_eq_true_eq, List.all_eq_true, List.mem_range, Bool.or_eq_true]
  constructor
  · rintro ⟨h1, h2⟩
    refine ⟨h1, fun i hi hne => ?_⟩
    rcases h2 i hi with h | h
    · exact absurd h hne
    · exact h
  · rintro ⟨h1, h2⟩
    refine ⟨h1, fun i hi => ?_⟩
    by_cases h : i = a
    · exact Or.inl h
    · exact Or.inr (h2 i hi h)

theorem fits_set (a v : Nat) (acc sh : List Nat) : Fits a (acc.set a v) sh ↔ Fits a acc sh := by
  unfold Fits
  simp only [List.length_set]
  constructor
  · rintro ⟨h1, h2⟩
    refine ⟨h1, fun i hi hne => ?_⟩
    have := h2 i hi hne
    rw [this]
    simp [List.getD_eq_getElem?_getD, List.getElem?_set_ne (Ne.symm hne)]
  · rintro ⟨h1, h2⟩
    refine ⟨h1, fun i hi hne => ?_⟩
    rw [h2 i hi hne]
    simp [List.getD_eq_getElem?_getD, List.getElem?_set_ne (Ne.symm hne)]

/-- `stackFold` succeeds exactly when every further shape fits, and then returns the shape with the
    axis entry summed and the running offsets appended. -/
theorem stackFold_spec (a : Nat) (rest : List (List Nat)) :
    ∀ (acc : List Nat) (idx : Nat) (ind : List Nat) (osh indices : List Nat),
      stackFold a rest acc idx ind = .ok (osh, indices) ↔
        ((∀ sh ∈ rest, Fits a acc sh) ∧
          osh = acc.set a (acc.getD a 0 + (rest.map (·.getD a 0)).sum) ∧
          indices = ind ++ prefixFrom idx (rest.map (·.getD a 0))) := by
  induction rest with
  | nil =>
    intro acc idx ind osh indices
    simp only [stackFold, List.map_nil, List.sum_nil, Nat.add_zero, prefixFrom, List.append_nil,
      List.not_mem_nil, false_imp_iff, implies_true, true_and, Except.ok.injEq, Prod.mk.injEq]
    have : acc.set a (acc.getD a 0) = acc := by
      apply List.ext_getElem?
      intro i
      by_cases h : a = i
      · subst h
        by_cases h2 : a < acc.length
        · simp [h2, List.getD_eq_getElem?_getD]
        · simp [h2]
      · simp [List.getElem?_set_ne h]
    rw [this]
    constructor
    · rintro ⟨rfl, rfl⟩; exact ⟨rfl, rfl⟩
    · rintro ⟨rfl, rfl⟩; exact ⟨rfl, rfl⟩
  | cons sh rest ih =>
    intro acc idx ind osh indices
    unfold stackFold
    by_cases hc : compat a acc sh = true
    · rw [if_pos hc, ih]
      have hf := (compat_iff a acc sh).mp hc
      simp only [List.mem_cons, forall_eq_or_imp, List.map_cons, List.sum_cons, prefixFrom,
        List.append_assoc, List.singleton_append]
      have hset : ∀ v w : Nat, (acc.set a v).set a w = acc.set a w := fun v w => by simp
      have hget : (acc.set a (acc.getD a 0 + sh.getD a 0)).getD a 0 + (rest.map (·.getD a 0)).sum =
          acc.getD a 0 + (sh.getD a 0 + (rest.map (·.getD a 0)).sum) ∨ ¬ a < acc.length := by
        by_cases h2 : a < acc.length
        · left
          simp [List.getD_eq_getElem?_getD, h2]
          omega
        · right; exact h2
      have hshape : (acc.set a (acc.getD a 0 + sh.getD a 0)).set a
            ((acc.set a (acc.getD a 0 + sh.getD a 0)).getD a 0 + (rest.map (·.getD a 0)).sum) =
          acc.set a (acc.getD a 0 + (sh.getD a 0 + (rest.map (·.getD a 0)).sum)) := by
        rcases hget with h | h
        · rw [h, hset]
        · rw [hset]
          rw [List.set_eq_of_length_le (by omega), List.set_eq_of_length_le (by omega)]
      rw [hshape]
      constructor
      · rintro ⟨h1, h2, h3⟩
        exact ⟨⟨hf, fun s hs => (fits_set a _ acc s).mp (h1 s hs)⟩, h2, h3⟩
      · rintro ⟨⟨_, h1⟩, h2, h3⟩
        exact ⟨fun s hs => (fits_set a _ acc s).mpr (h1 s hs), h2, h3⟩
    · rw [if_neg hc]
      have hf : ¬ Fits a acc sh := fun h => hc ((compat_iff a acc sh).mpr h)
      constructor
      · intro h; cases h
      · rintro ⟨h1, _⟩
        exact absurd (h1 sh (List.mem_cons_self)) hf


/-! ### slab bounds -/

/-- the slab bounds the statement asks for: operand `k` owns `[S_k, S_{k+1})`, the last one is open-ended -/
def specBounds : Nat → List Nat → List (Nat × Option Nat)
  | _, [] => []
  | s, [_] => [(s, none)]
  | s, x :: y :: r => (s, some (s + x)) :: specBounds (s + x) (y :: r)

theorem length_prefixFrom (s : Nat) (l : List Nat) : (prefixFrom s l).length = l.length := by
  induction l generalizing s with
  | nil => rfl
  | cons x xs ih => simp [prefixFrom, ih]

theorem zip_bounds (sizes : List Nat) : ∀ (s x : Nat),
    List.zip (s :: prefixFrom (s + x) sizes) ((prefixFrom (s + x) sizes).map some ++ [none]) =
      specBounds s (x :: sizes) := by
  induction sizes with
  | nil => intro s x; simp [prefixFrom, specBounds]
  | cons y r ih =>
    intro s x
    have := ih (s + x) y
    simp only [prefixFrom, List.map_cons, List.cons_append, List.zip_cons_cons, specBounds]
    rw [this]

/-- with the indices `_hstack_params` returns, the `start/end` of the `_apply` loops are the slab bounds -/
theorem bounds_prefix (x : Nat) (sizes : List Nat) :
    bounds (prefixFrom x sizes) (sizes.length + 1) = .ok (specBounds 0 (x :: sizes)) := by
  unfold bounds
  rw [if_pos (by rw [length_prefixFrom])]
  have := zip_bounds sizes 0 x
  simp only [Nat.zero_add] at this
  rw [this]

theorem specBounds_scale (c : Nat) (sizes : List Nat) : ∀ s : Nat,
    (specBounds s sizes).map (fun b => (b.1 * c, b.2.map (· * c))) = specBounds (s * c) (sizes.map (· * c)) := by
  induction sizes with
  | nil => intro s; rfl
  | cons x r ih =>
    intro s
    cases r with
    | nil => rfl
    | cons y r' =>
      have := ih (s + x)
      simp only [specBounds, List.map_cons, Option.map_some, Nat.add_mul] at this ⊢
      rw [this]

/-! ### one row: slabs at the spec bounds partition the row -/

/-- reading the slabs `[S_k, S_{k+1})` (last one open-ended) out of a concatenation returns the parts -/
theorem selRange_concat {β : Type} (segs : List (List β)) : ∀ (pre : List β),
    (specBounds pre.length (segs.map List.length)).map (fun b => selRange b.1 b.2 (pre ++ segs.flatten)) = segs := by
  induction segs with
  | nil => intro pre; rfl
  | cons seg r ih =>
    intro pre
    cases r with
    | nil =>
      simp [specBounds, selRange]
    | cons seg2 r' =>
      have := ih (pre ++ seg)
      simp only [List.length_append, List.map_cons, List.flatten_cons, List.append_assoc] at this
      simp only [List.map_cons, specBounds, List.flatten_cons, List.cons.injEq]
      refine ⟨?_, this⟩
      simp [selRange]

/-- writing the parts into the slabs `[S_k, S_{k+1})` of a fresh row, one after the other, yields their
    concatenation (nothing is left unwritten, nothing is overwritten) -/
theorem rowWrites_concat {β : Type} (z : β) (segs : List (List β)) : ∀ (pre : List β), segs ≠ [] →
    rowWrites (pre ++ List.replicate ((segs.map List.length).sum) z)
      (specBounds pre.length (segs.map List.length)) segs = .ok (pre ++ segs.flatten) := by
  induction segs with
  | nil => intro pre h; exact absurd rfl h
  | cons seg r ih =>
    intro pre _
    cases r with
    | nil =>
      have h1 : (pre ++ List.replicate seg.length z).length - pre.length = seg.length := by simp
      simp only [List.map_cons, List.map_nil, List.sum_cons, List.sum_nil, Nat.add_zero, specBounds,
        rowWrites, rowWrite]
      rw [if_pos h1]
      rw [List.take_left' rfl, List.drop_eq_nil_of_le (by simp)]
      simp
    | cons seg2 r' =>
      have := ih (pre ++ seg) (by simp)
      simp only [List.length_append, List.map_cons, List.flatten_cons, List.append_assoc] at this
      simp only [List.map_cons, List.sum_cons, specBounds, rowWrites, rowWrite, List.length_append,
        List.length_replicate, List.flatten_cons]
      have hmin : min (pre.length + seg.length)
          (pre.length + (seg.length + (seg2.length + (r'.map List.length).sum))) - pre.length = seg.length := by
        omega
      rw [if_pos hmin, List.take_left' rfl]
      have hrow : pre ++ List.replicate (seg.length + (seg2.length + (r'.map List.length).sum)) z =
          (pre ++ List.replicate seg.length z) ++ List.replicate (seg2.length + (r'.map List.length).sum) z := by
        rw [← List.replicate_append_replicate]; simp
      rw [hrow, List.drop_left' (by simp)]
      simp only [List.append_assoc]
      simpa using this


/-- reading: slicing the concatenation of the parts at the slab bounds returns the parts (Hstack/Diag input side,
    one row; `c` = number of entries behind the axis). -/
theorem slabs_read_concat {β : Type} (c : Nat) (segs : List (List β))
    (sizes : List Nat) (hs : segs.map List.length = sizes.map (· * c)) :
    ((specBounds 0 sizes).map (fun b => (b.1 * c, b.2.map (· * c)))).map
      (fun b => selRange b.1 b.2 segs.flatten) = segs := by
  rw [specBounds_scale, Nat.zero_mul, ← hs]
  simpa using selRange_concat segs []

/-! ### the exact shape guard on `Nat` shapes -/

theorem natGuard_cons (a b : Nat) (got adv : List Nat) :
    natGuard (a :: got) (b :: adv) = (decide (a = b) && natGuard got adv) := by
  unfold natGuard
  simp only [List.map_cons, zipGuard]
  have h1 : decide ((Int.ofNat b) = -1) = false := by
    simp only [decide_eq_false_iff_not, Int.ofNat_eq_natCast]; omega
  have h2 : decide (Int.ofNat a = Int.ofNat b) = decide (a = b) := by
    simp only [Int.ofNat_eq_natCast, Int.natCast_inj]
  rw [h1, h2, Bool.false_or]

theorem natGuard_nil_left (adv : List Nat) : natGuard [] adv = true := by
  unfold natGuard; simp [zipGuard]

theorem natGuard_nil_right (got : List Nat) : natGuard got [] = true := by
  unfold natGuard; cases got <;> simp [zipGuard]

/-- **the guard is a common-prefix test**: it passes exactly when the two shapes agree on the first
    `min (rank got) (rank adv)` entries -/
theorem natGuard_iff_prefix : ∀ (got adv : List Nat),
    natGuard got adv = true ↔ got.take adv.length = adv.take got.length := by
  intro got
  induction got with
  | nil => intro adv; simp [natGuard_nil_left]
  | cons a got ih =>
    intro adv
    cases adv with
    | nil => simp [natGuard_nil_right]
    | cons b adv =>
      rw [natGuard_cons]
      simp only [Bool.and_eq_true, decide_eq_true_eq, List.length_cons, List.take_succ_cons, List.cons.injEq, ih]

/-- for shapes of the same rank the guard is equality -/
theorem natGuard_eq_iff (got adv : List Nat) (h : got.length = adv.length) :
    natGuard got adv = true ↔ got = adv := by
  rw [natGuard_iff_prefix, h, List.take_length, ← h, List.take_length]

theorem natGuard_refl (s : List Nat) : natGuard s s = true := (natGuard_eq_iff s s rfl).mpr rfl

/-! ### N-d geometry: rows of a row-major array, concatenation along an axis -/

theorem length_rowOf {β} (k o : Nat) (l : List β) (h : (o + 1) * k ≤ l.length) :
    (rowOf k o l).length = k := by
  unfold rowOf
  have : o * k + k ≤ l.length := by rw [Nat.add_mul] at h; simpa using h
  simp only [List.length_take, List.length_drop]
  omega


/-- `np.concatenate(ys, axis=a)` in flat row-major form: for every index tuple in front of the axis, the
    rows of the operands one after the other (`inner` = number of entries behind the axis). -/
def concatAx {α} (outer inner : Nat) (a : Nat) (ys : List (NDArr α)) : List α :=
  ((List.range outer).map fun o =>
    (ys.map fun y => rowOf ((geom y.shape a).n * inner) o y.data).flatten).flatten


theorem rowOf_succ {β} (k o : Nat) (l : List β) : rowOf k (o + 1) l = rowOf k o (l.drop k) := by
  unfold rowOf
  rw [List.drop_drop]
  congr 2
  rw [Nat.add_mul]; omega

/-- cutting a flat array of `m` rows into its rows and gluing them again gives the array back -/
theorem flatten_rowOf {β} (k : Nat) : ∀ (m : Nat) (l : List β), l.length = m * k →
    ((List.range m).map fun o => rowOf k o l).flatten = l := by
  intro m
  induction m with
  | zero => intro l h; simp at h; simp [h]
  | succ m ih =>
    intro l h
    rw [List.range_succ_eq_map, List.map_cons, List.map_map, List.flatten_cons]
    have h2 : (l.drop k).length = m * k := by
      rw [List.length_drop, h, Nat.add_mul]; omega
    have := ih (l.drop k) h2
    simp only [Function.comp_def, Nat.succ_eq_add_one, rowOf_succ]
    rw [this]
    simp [rowOf]

/-- row `o` of a flat array that is a concatenation of rows of length `k` is the `o`-th of them -/
theorem rowOf_flatten {β} (k : Nat) : ∀ (rows : List (List β)) (o : Nat) (r : List β), (∀ r ∈ rows, r.length = k) →
    rows[o]? = some r → rowOf k o rows.flatten = r := by
  intro rows
  induction rows with
  | nil => intro o r _ h; simp at h
  | cons r0 rs ih =>
    intro o r hk h
    have h0 : r0.length = k := hk r0 (by simp)
    cases o with
    | zero =>
      simp at h; subst h
      simp [rowOf, List.take_left' h0]
    | succ o =>
      rw [rowOf_succ, List.flatten_cons, List.drop_left' h0]
      exact ih o r (fun r hr => hk r (by simp [hr])) (by simpa using h)

theorem take_set_self (S : List Nat) : ∀ (a v : Nat), (S.set a v).take a = S.take a := by
  induction S with
  | nil => intro a v; simp
  | cons h t ih => intro a v; cases a with
    | zero => simp
    | succ a => simp [ih]

theorem drop_set_succ (S : List Nat) : ∀ (a v : Nat), (S.set a v).drop (a + 1) = S.drop (a + 1) := by
  induction S with
  | nil => intro a v; simp
  | cons h t ih => intro a v; cases a with
    | zero => simp
    | succ a => simp [ih]

theorem sprod_cons (h : Nat) (t : List Nat) : sprod (h :: t) = h * sprod t := rfl

theorem sprod_split (S : List Nat) : ∀ a, a < S.length →
    sprod S = sprod (S.take a) * (S.getD a 0 * sprod (S.drop (a + 1))) := by
  induction S with
  | nil => intro a h; simp at h
  | cons h t ih =>
    intro a ha
    cases a with
    | zero => simp [sprod]
    | succ a =>
      have := ih a (by simpa using ha)
      simp only [List.take_succ_cons, List.drop_succ_cons, sprod_cons, List.getD_cons_succ]
      rw [this, Nat.mul_assoc]


/-- a well-formed dense array: as many entries as the shape says -/
def NDArr.WF {α} (x : NDArr α) : Prop := x.data.length = sprod x.shape

/-- the part shapes `shs` stack to `S` along axis `a`: every part agrees with `S` off the axis and the axis
    entries add up (what `_hstack_params/_vstack_params` establish, see `stackParams_stacked`) -/
structure Stacked (a : Nat) (S : List Nat) (shs : List (List Nat)) : Prop where
  lt : a < S.length
  shape : ∀ sh ∈ shs, sh = S.set a (sh.getD a 0)
  total : S.getD a 0 = (shs.map (·.getD a 0)).sum

theorem length_specBounds (sizes : List Nat) : ∀ s, (specBounds s sizes).length = sizes.length := by
  induction sizes with
  | nil => intro s; rfl
  | cons x r ih => intro s; cases r with
    | nil => rfl
    | cons y r' => simp [specBounds, ih]

/-- the slab `[S_k, S_{k+1})` (last: open-ended) of an axis of length `Σ sizes` has `sizes_k` entries -/
theorem selLen_specBounds (sizes : List Nat) : ∀ s,
    (specBounds s sizes).map (fun b => selLen (s + sizes.sum) b.1 b.2) = sizes := by
  induction sizes with
  | nil => intro s; rfl
  | cons x r ih =>
    intro s
    cases r with
    | nil => simp [specBounds, selLen]
    | cons y r' =>
      have := ih (s + x)
      simp only [specBounds, List.map_cons, List.sum_cons, List.cons.injEq] at this ⊢
      refine ⟨by simp [selLen], ?_⟩
      rw [← Nat.add_assoc]; exact this

theorem map_eq_at {β γ} {f : β → γ} {l : List β} {m : List γ} (h : l.map f = m) (k : Nat) (b : β) (c : γ)
    (hb : l[k]? = some b) (hc : m[k]? = some c) : f b = c := by
  have := congrArg (·[k]?) h
  simp [hb, hc] at this; exact this

theorem geom_part (a : Nat) (S sh : List Nat) (hlt : a < S.length) (h : sh = S.set a (sh.getD a 0)) :
    (geom sh a).outer = (geom S a).outer ∧ (geom sh a).inner = (geom S a).inner ∧
      sprod sh = (geom S a).outer * ((geom sh a).n * (geom S a).inner) := by
  have hl : a < sh.length := by rw [h]; simpa using hlt
  refine ⟨?_, ?_, ?_⟩
  · simp only [geom]; rw [h, take_set_self]
  · simp only [geom]; rw [h, drop_set_succ]
  · rw [sprod_split sh a hl]
    simp only [geom]
    congr 1
    · rw [h, take_set_self]
    · congr 1; rw [h, drop_set_succ]


/-- the rows of the concatenation: row `o` of `concatAx` is the concatenation of the rows `o` of the parts -/
theorem rowOf_concatAx {α} (outer inner a : Nat) (xs : List (NDArr α)) (N : Nat)
    (hN : N = (xs.map fun y => (geom y.shape a).n).sum)
    (hlen : ∀ y ∈ xs, y.data.length = outer * ((geom y.shape a).n * inner)) (o : Nat) (ho : o < outer) :
    rowOf (N * inner) o (concatAx outer inner a xs) =
      (xs.map fun y => rowOf ((geom y.shape a).n * inner) o y.data).flatten := by
  unfold concatAx
  apply rowOf_flatten
  · intro r hr
    simp only [List.mem_map, List.mem_range] at hr
    obtain ⟨o', ho', rfl⟩ := hr
    rw [List.length_flatten, List.map_map, hN]
    clear hN
    induction xs with
    | nil => simp
    | cons y ys ih =>
      simp only [List.map_cons, List.sum_cons, Nat.add_mul, Function.comp]
      rw [ih (fun z hz => hlen z (by simp [hz]))]
      congr 1
      apply length_rowOf
      rw [hlen y (by simp)]
      exact Nat.mul_le_mul_right _ (by omega)
  · simp [ho]

/-- **N-d read side**: slicing the concatenation (along axis `a`) of well-formed parts at the slab bounds
    `[S_k, S_{k+1})` (last one open-ended) returns exactly the parts, in order — shape and data. -/
theorem sliceAx_concat {α} (a : Nat) (S : List Nat) (xs : List (NDArr α))
    (hst : Stacked a S (xs.map (·.shape))) (hwf : ∀ y ∈ xs, y.WF) :
    (specBounds 0 (xs.map fun y => (geom y.shape a).n)).map
      (fun b => sliceAx ⟨S, concatAx (geom S a).outer (geom S a).inner a xs⟩ a b.1 b.2) = xs := by
  have hshape : ∀ y ∈ xs, y.shape = S.set a (y.shape.getD a 0) := fun y hy =>
    hst.shape y.shape (List.mem_map.mpr ⟨y, hy, rfl⟩)
  have hlen : ∀ y ∈ xs, y.data.length = (geom S a).outer * ((geom y.shape a).n * (geom S a).inner) := by
    intro y hy
    rw [hwf y hy]; exact (geom_part a S y.shape hst.lt (hshape y hy)).2.2
  have hN : (geom S a).n = (xs.map fun y => (geom y.shape a).n).sum := by
    have := hst.total
    simpa [geom, List.map_map, Function.comp_def] using this
  apply List.ext_getElem?
  intro k
  rw [List.getElem?_map]
  cases hb : (specBounds 0 (xs.map fun y => (geom y.shape a).n))[k]? with
  | none =>
    have : xs.length ≤ k := by
      have := List.getElem?_eq_none_iff.mp hb
      simpa [length_specBounds] using this
    simp [List.getElem?_eq_none_iff.mpr this]
  | some b =>
    have hk : k < xs.length := by
      have := (List.getElem?_eq_some_iff.mp hb).1
      simpa [length_specBounds] using this
    have hy : xs[k]? = some xs[k] := List.getElem?_eq_getElem hk
    have hmem : xs[k] ∈ xs := List.getElem_mem hk
    rw [hy]
    simp only [Option.map_some, Option.some.injEq]
    -- shape
    have hsel := map_eq_at (selLen_specBounds (xs.map fun y => (geom y.shape a).n) 0) k b
      ((geom xs[k].shape a).n) hb (by simp [hy])
    rw [Nat.zero_add, ← hN] at hsel
    -- data
    have hrow : ∀ o, o < (geom S a).outer →
        selRange (b.1 * (geom S a).inner) (b.2.map (· * (geom S a).inner))
          (rowOf ((geom S a).n * (geom S a).inner) o (concatAx (geom S a).outer (geom S a).inner a xs)) =
        rowOf ((geom xs[k].shape a).n * (geom S a).inner) o xs[k].data := by
      intro o ho
      rw [rowOf_concatAx _ _ _ _ _ hN hlen o ho]
      have hs : (xs.map fun y => rowOf ((geom y.shape a).n * (geom S a).inner) o y.data).map List.length =
          (xs.map fun y => (geom y.shape a).n).map (· * (geom S a).inner) := by
        rw [List.map_map, List.map_map]
        apply List.map_congr_left
        intro y hy'
        simp only [Function.comp]
        apply length_rowOf
        rw [hlen y hy']
        exact Nat.mul_le_mul_right _ (by omega)
      have := slabs_read_concat (geom S a).inner _ _ hs
      exact map_eq_at this k (b.1 * (geom S a).inner, b.2.map (· * (geom S a).inner)) _
        (by simp [hb]) (by simp [hy])
    unfold sliceAx
    simp only
    have hdata : ((List.range (geom S a).outer).map fun o =>
        selRange (b.1 * (geom S a).inner) (b.2.map (· * (geom S a).inner))
          (rowOf ((geom S a).n * (geom S a).inner) o (concatAx (geom S a).outer (geom S a).inner a xs))).flatten =
        xs[k].data := by
      rw [List.map_congr_left (fun o ho => hrow o (List.mem_range.mp ho))]
      exact flatten_rowOf _ _ _ (hlen _ hmem)
    rw [hdata, hsel]
    have : S.set a (geom xs[k].shape a).n = xs[k].shape := (hshape _ hmem).symm
    rw [this]

end SigpyVerif.C03
