import SigpyVerif.Model.C03
import SigpyVerif.Lemmas.Py
import Mathlib.Tactic.Ring
import Mathlib.Tactic.Linarith
/-
  Helper lemmas for property C03 (stacking parameters, slab bounds, 1-D slab partition).
-/
namespace SigpyVerif.C03

/-- `[s, s+x₀, s+x₀+x₁, …]` (one entry per size): running offsets -/
def prefixFrom : Nat → List Nat → List Nat
  | _, [] => []
  | s, x :: xs => s :: prefixFrom (s + x) xs

/-- the documented shape predicate for one further operand: same rank, equal off the axis -/
def Fits (a : Nat) (s0 sh : List Nat) : Prop :=
  sh.length = s0.length ∧ ∀ i, i < s0.length → i ≠ a → sh.getD i 0 = s0.getD i 0

theorem compat_iff (a : Nat) (acc sh : List Nat) : compat a acc sh = true ↔ Fits a acc sh := by
  unfold compat Fits
  simp only [Bool.and_eq_true, decide_eq_true_eq, List.all_eq_true, List.mem_range, Bool.or_eq_true]
  constructor
  · rintro ⟨h1, h2⟩
    refine ⟨h1, fun i hi hne => ?_⟩
    rcases h2 i hi with h | h
    · exact absurd h hne
    · exact h
  · rintro ⟨h1, h2⟩
    refine ⟨h1, fun i hi => ?_⟩
    by_cases h : i = a
    · exact Or.inl h
    · exact Or.inr (h2 i hi h)

theorem fits_set (a v : Nat) (acc sh : List Nat) : Fits a (acc.set a v) sh ↔ Fits a acc sh := by
  unfold Fits
  simp only [List.length_set]
  constructor
  · rintro ⟨h1, h2⟩
    refine ⟨h1, fun i hi hne => ?_⟩
    have := h2 i hi hne
    rw [this]
    simp [List.getD_eq_getElem?_getD, List.getElem?_set_ne (Ne.symm hne)]
  · rintro ⟨h1, h2⟩
    refine ⟨h1, fun i hi hne => ?_⟩
    rw [h2 i hi hne]
    simp [List.getD_eq_getElem?_getD, List.getElem?_set_ne (Ne.symm hne)]

/-- `stackFold` succeeds exactly when every further shape fits, and then returns the shape with the
    axis entry summed and the running offsets appended. -/
theorem stackFold_spec (a : Nat) (rest : List (List Nat)) :
    ∀ (acc : List Nat) (idx : Nat) (ind : List Nat) (osh indices : List Nat),
      stackFold a rest acc idx ind = .ok (osh, indices) ↔
        ((∀ sh ∈ rest, Fits a acc sh) ∧
          osh = acc.set a (acc.getD a 0 + (rest.map (·.getD a 0)).sum) ∧
          indices = ind ++ prefixFrom idx (rest.map (·.getD a 0))) := by
  induction rest with
  | nil =>
    intro acc idx ind osh indices
    simp only [stackFold, List.map_nil, List.sum_nil, Nat.add_zero, prefixFrom, List.append_nil,
      List.not_mem_nil, false_imp_iff, implies_true, true_and, Except.ok.injEq, Prod.mk.injEq]
    have : acc.set a (acc.getD a 0) = acc := by
      apply List.ext_getElem?
      intro i
      by_cases h : a = i
      · subst h
        by_cases h2 : a < acc.length
        · simp [h2, List.getD_eq_getElem?_getD]
        · simp [h2]
      · simp [List.getElem?_set_ne h]
    rw [this]
    constructor
    · rintro ⟨rfl, rfl⟩; exact ⟨rfl, rfl⟩
    · rintro ⟨rfl, rfl⟩; exact ⟨rfl, rfl⟩
  | cons sh rest ih =>
    intro acc idx ind osh indices
    unfold stackFold
    by_cases hc : compat a acc sh = true
    · rw [if_pos hc, ih]
      have hf := (compat_iff a acc sh).mp hc
      simp only [List.mem_cons, forall_eq_or_imp, List.map_cons, List.sum_cons, prefixFrom,
        List.append_assoc, List.singleton_append]
      have hset : ∀ v w : Nat, (acc.set a v).set a w = acc.set a w := fun v w => by simp
      have hget : (acc.set a (acc.getD a 0 + sh.getD a 0)).getD a 0 + (rest.map (·.getD a 0)).sum =
          acc.getD a 0 + (sh.getD a 0 + (rest.map (·.getD a 0)).sum) ∨ ¬ a < acc.length := by
        by_cases h2 : a < acc.length
        · left
          simp [List.getD_eq_getElem?_getD, h2]
          omega
        · right; exact h2
      have hshape : (acc.set a (acc.getD a 0 + sh.getD a 0)).set a
            ((acc.set a (acc.getD a 0 + sh.getD a 0)).getD a 0 + (rest.map (·.getD a 0)).sum) =
          acc.set a (acc.getD a 0 + (sh.getD a 0 + (rest.map (·.getD a 0)).sum)) := by
        rcases hget with h | h
        · rw [h, hset]
        · rw [hset]
          rw [List.set_eq_of_length_le (by omega), List.set_eq_of_length_le (by omega)]
      rw [hshape]
      constructor
      · rintro ⟨h1, h2, h3⟩
        exact ⟨⟨hf, fun s hs => (fits_set a _ acc s).mp (h1 s hs)⟩, h2, h3⟩
      · rintro ⟨⟨_, h1⟩, h2, h3⟩
        exact ⟨fun s hs => (fits_set a _ acc s).mpr (h1 s hs), h2, h3⟩
    · rw [if_neg hc]
      have hf : ¬ Fits a acc sh := fun h => hc ((compat_iff a acc sh).mpr h)
      constructor
      · intro h; cases h
      · rintro ⟨h1, _⟩
        exact absurd (h1 sh (List.mem_cons_self)) hf


/-! ### slab bounds -/

/-- the slab bounds the statement asks for: operand `k` owns `[S_k, S_{k+1})`, the last one is open-ended -/
def specBounds : Nat → List Nat → List (Nat × Option Nat)
  | _, [] => []
  | s, [_] => [(s, none)]
  | s, x :: y :: r => (s, some (s + x)) :: specBounds (s + x) (y :: r)

theorem length_prefixFrom (s : Nat) (l : List Nat) : (prefixFrom s l).length = l.length := by
  induction l generalizing s with
  | nil => rfl
  | cons x xs ih => simp [prefixFrom, ih]

theorem zip_bounds (sizes : List Nat) : ∀ (s x : Nat),
    List.zip (s :: prefixFrom (s + x) sizes) ((prefixFrom (s + x) sizes).map some ++ [none]) =
      specBounds s (x :: sizes) := by
  induction sizes with
  | nil => intro s x; simp [prefixFrom, specBounds]
  | cons y r ih =>
    intro s x
    have := ih (s + x) y
    simp only [prefixFrom, List.map_cons, List.cons_append, List.zip_cons_cons, specBounds]
    rw [this]

/-- with the indices `_hstack_params` returns, the `start/end` of the `_apply` loops are the slab bounds -/
theorem bounds_prefix (x : Nat) (sizes : List Nat) :
    bounds (prefixFrom x sizes) (sizes.length + 1) = .ok (specBounds 0 (x :: sizes)) := by
  unfold bounds
  rw [if_pos (by rw [length_prefixFrom])]
  have := zip_bounds sizes 0 x
  simp only [Nat.zero_add] at this
  rw [this]

theorem specBounds_scale (c : Nat) (sizes : List Nat) : ∀ s : Nat,
    (specBounds s sizes).map (fun b => (b.1 * c, b.2.map (· * c))) = specBounds (s * c) (sizes.map (· * c)) := by
  induction sizes with
  | nil => intro s; rfl
  | cons x r ih =>
    intro s
    cases r with
    | nil => rfl
    | cons y r' =>
      have := ih (s + x)
      simp only [specBounds, List.map_cons, Option.map_some, Nat.add_mul] at this ⊢
      rw [this]

/-! ### one row: slabs at the spec bounds partition the row -/

/-- reading the slabs `[S_k, S_{k+1})` (last one open-ended) out of a concatenation returns the parts -/
theorem selRange_concat {β : Type} (segs : List (List β)) : ∀ (pre : List β),
    (specBounds pre.length (segs.map List.length)).map (fun b => selRange b.1 b.2 (pre ++ segs.flatten)) = segs := by
  induction segs with
  | nil => intro pre; rfl
  | cons seg r ih =>
    intro pre
    cases r with
    | nil =>
      simp [specBounds, selRange]
    | cons seg2 r' =>
      have := ih (pre ++ seg)
      simp only [List.length_append, List.map_cons, List.flatten_cons, List.append_assoc] at this
      simp only [List.map_cons, specBounds, List.flatten_cons, List.cons.injEq]
      refine ⟨?_, this⟩
      simp [selRange]

/-- writing the parts into the slabs `[S_k, S_{k+1})` of a fresh row, one after the other, yields their
    concatenation (nothing is left unwritten, nothing is overwritten) -/
theorem rowWrites_concat {β : Type} (z : β) (segs : List (List β)) : ∀ (pre : List β), segs ≠ [] →
    rowWrites (pre ++ List.replicate ((segs.map List.length).sum) z)
      (specBounds pre.length (segs.map List.length)) segs = .ok (pre ++ segs.flatten) := by
  induction segs with
  | nil => intro pre h; exact absurd rfl h
  | cons seg r ih =>
    intro pre _
    cases r with
    | nil =>
      have h1 : (pre ++ List.replicate seg.length z).length - pre.length = seg.length := by simp
      simp only [List.map_cons, List.map_nil, List.sum_cons, List.sum_nil, Nat.add_zero, specBounds,
        rowWrites, rowWrite]
      rw [if_pos h1]
      rw [List.take_left' rfl, List.drop_eq_nil_of_le (by simp)]
      simp
    | cons seg2 r' =>
      have := ih (pre ++ seg) (by simp)
      simp only [List.length_append, List.map_cons, List.flatten_cons, List.append_assoc] at this
      simp only [List.map_cons, List.sum_cons, specBounds, rowWrites, rowWrite, List.length_append,
        List.length_replicate, List.flatten_cons]
      have hmin : min (pre.length + seg.length)
          (pre.length + (seg.length + (seg2.length + (r'.map List.length).sum))) - pre.length = seg.length := by
        omega
      rw [if_pos hmin, List.take_left' rfl]
      have hrow : pre ++ List.replicate (seg.length + (seg2.length + (r'.map List.length).sum)) z =
          (pre ++ List.replicate seg.length z) ++ List.replicate (seg2.length + (r'.map List.length).sum) z := by
        rw [← List.replicate_append_replicate]; simp
      rw [hrow, List.drop_left' (by simp)]
      simp only [List.append_assoc]
      simpa using this

end SigpyVerif.C03
