import SigpyVerif.Model.C08
import SigpyVerif.Lemmas.C08
import SigpyVerif.Lemmas.C09
/-
  Helper lemmas for Props/C08Flat.lean: the flat-array executable layer of Model/C08.lean (`sumList` over `allIdx`,
  zero-extended reads, `convNDAt`, `corrNDAt`, `loopSumL`) equals the recursive index-level layer the adjoint
  theorems are about (`sumD`, `convD`, `corrD`, `stuffD`, `loopSum`).
-/
namespace SigpyVerif.C08
open SigpyVerif

section sums
variable {α : Type} [CommRing α]

theorem sumList_eq_sum {β : Type} (l : List β) (g : β → α) : sumList l g = (l.map g).sum := by
  unfold sumList
  rw [List.sum_eq_foldl, List.foldl_map]

theorem sumList_flatMap_range {β : Type} (N : Nat) (F : Int → List β) (g : β → α) :
    sumList (((List.range N).map (fun k : Nat => (k : Int))).flatMap F) g = sumTo N (fun i => sumList (F i) g) := by
  induction N with
  | zero => simp [sumList, sumTo]
  | succ k ih =>
    rw [sumList_eq_sum] at ih ⊢
    rw [List.range_succ, List.map_append, List.flatMap_append, List.map_append, List.sum_append, ih]
    simp [sumTo, sumList_eq_sum]

/-- the flat enumeration of a shape sums like the nested loops -/
theorem sumList_allIdx (ns : List Int) (g : List Int → α) : sumList (allIdx ns) g = sumD ns g := by
  induction ns generalizing g with
  | nil => simp [allIdx, sumList, sumD]
  | cons n ns ih =>
    rw [C09.allIdx_cons, C09.pyRange0_eq, sumList_flatMap_range]
    simp only [sumD]
    congr 1
    funext i
    rw [sumList_eq_sum, List.map_map, ← sumList_eq_sum, ih]
    rfl

/-- the executable loop nest is the loop nest of the theorems -/
theorem loopSumL_eq (B co ci : Int) (acc : Gen.ConvDim × Gen.ConvDim) (s1 s2 : Int) (term : Int → Int → Int → α) :
    loopSumL B co ci acc s1 s2 term = loopSum B.toNat co.toNat ci.toNat acc s1 s2 term := by
  unfold loopSumL loopSum
  rw [sumList_allIdx]
  simp only [sumD]

end sums

/-! ### in-bounds test, zero-extended reads -/

theorem inBounds_cons (n : Int) (ns : List Int) (i : Int) (is : List Int) :
    inBounds (n :: ns) (i :: is) = (decide (0 ≤ i ∧ i < n) && inBounds ns is) := by
  unfold inBounds
  simp only [List.length_cons, List.zip_cons_cons, List.all_cons]
  cases h1 : (ns.length == is.length) <;> cases h2 : decide (0 ≤ i ∧ i < n) <;> simp_all

theorem inBounds_iff_mem_allIdx (sh k : List Int) : inBounds sh k = true ↔ k ∈ allIdx sh := by
  induction sh generalizing k with
  | nil => cases k <;> simp [inBounds, allIdx]
  | cons n sh ih =>
    cases k with
    | nil => simp [inBounds, C09.mem_allIdx]
    | cons i k =>
      rw [inBounds_cons, Bool.and_eq_true, ih, C09.mem_allIdx, C09.mem_allIdx, List.forall₂_cons]
      simp

section conv
variable {α : Type} [CommRing α]

theorem sumTo_zero (N : Nat) : sumTo N (fun _ => (0 : α)) = 0 := by
  rw [sumTo_eq_sum]; simp

theorem convD_zero_right (A : List Axis) (x v : List Int → α) (k : List Int) (hv : ∀ js, v js = 0) :
    convD A x v k = 0 := by
  induction A generalizing x v k with
  | nil => simp [convD, hv]
  | cons a R ih =>
    have : ∀ i1 j1 : Int, convD R (fun is => x (i1 :: is)) (fun js => v (j1 :: js)) k.tail = 0 :=
      fun i1 j1 => ih _ _ _ (fun js => hv _)
    simp [convD, this, sumTo_zero]

/-- **flat convolution = recursive definition.**  `convNDAt` (one sum over all data multi-indices, the filter read
    zero-extended at `k·s + off - i`) is the D-dimensional convolution `convD` by definition (on every axis a sum over
    the index pairs with `i + j = k·s + off`), for a filter function that vanishes outside its box. -/
theorem convNDAt_eq_convD (A : List Axis) (x v : List Int → α) (k : List Int) (hk : k.length = A.length)
    (hv : ∀ js, inBounds (A.map (·.n)) js = false → v js = 0) :
    convNDAt (A.map (·.m)) x v (A.map (·.off)) (A.map (·.s)) k = convD A x v k := by
  induction A generalizing x v k with
  | nil =>
    cases k with
    | nil => simp [convNDAt, sumList, allIdx, zip3With, convD]
    | cons _ _ => simp at hk
  | cons a R ih =>
    cases k with
    | nil => simp at hk
    | cons k1 kr =>
      have hkr : kr.length = R.length := by simpa using hk
      unfold convNDAt
      rw [sumList_allIdx]
      simp only [List.map_cons, sumD, zip3With, List.zipWith_cons_cons, convD, List.headD_cons, List.tail_cons,
        sumTo_eq_sum]
      apply Finset.sum_congr rfl
      intro i1 _
      have e1 : sumD (R.map (·.m)) (fun is => x ((i1 : Int) :: is) *
            v ((k1 * a.s + a.off - (i1 : Int)) :: List.zipWith (· - ·)
              (zip3With (fun kd sd od => kd * sd + od) kr (R.map (·.s)) (R.map (·.off))) is)) =
          convNDAt (R.map (·.m)) (fun is => x ((i1 : Int) :: is))
            (fun js => v ((k1 * a.s + a.off - (i1 : Int)) :: js)) (R.map (·.off)) (R.map (·.s)) kr := by
        unfold convNDAt
        rw [sumList_allIdx]
      rw [e1, ih _ _ _ hkr (fun js hjs => hv _ (by rw [List.map_cons, inBounds_cons, hjs]; simp))]
      by_cases hj : 0 ≤ k1 * a.s + a.off - (i1 : Int) ∧ k1 * a.s + a.off - (i1 : Int) < a.n
      · have hmem : (k1 * a.s + a.off - (i1 : Int)).toNat ∈ Finset.range a.n.toNat := by
          rw [Finset.mem_range]; omega
        rw [Finset.sum_eq_single_of_mem _ hmem]
        · have e : (((k1 * a.s + a.off - (i1 : Int)).toNat : Nat) : Int) = k1 * a.s + a.off - (i1 : Int) :=
            Int.toNat_of_nonneg hj.1
          rw [e]
          simp
        · intro j _ hne
          have h : ¬ ((i1 : Int) + (j : Int) = k1 * a.s + a.off) := by
            intro h
            apply hne
            omega
          simp [h]
      · rw [convD_zero_right _ _ _ _ (fun js => hv _ (by rw [List.map_cons, inBounds_cons, decide_eq_false hj, Bool.false_and]))]
        symm
        apply Finset.sum_eq_zero
        intro j hj'
        rw [Finset.mem_range] at hj'
        have h : ¬ ((i1 : Int) + (j : Int) = k1 * a.s + a.off) := by
          intro h
          apply hj
          omega
        simp [h]

end conv


/-! ### the adjoints: flat correlate / zero-stuffing vs the recursive definitions -/

section corr
variable {α : Type} [CommRing α]

/-- **flat correlate = recursive definition** (`scipy.signal.correlate` at one index) -/
theorem corrNDAt_eq_corrD (conj : α → α) (A : List Axis) (z v : List Int → α) (is : List Int)
    (his : is.length = A.length) :
    corrNDAt conj (A.map (·.n)) z v (A.map (·.shift)) is = corrD conj A z v is := by
  induction A generalizing z v is with
  | nil =>
    cases is with
    | nil => simp [corrNDAt, sumList, allIdx, zip3With, corrD]
    | cons _ _ => simp at his
  | cons a R ih =>
    cases is with
    | nil => simp at his
    | cons i1 ir =>
      have hir : ir.length = R.length := by simpa using his
      unfold corrNDAt
      rw [sumList_allIdx]
      simp only [List.map_cons, sumD, zip3With, corrD, List.headD_cons, List.tail_cons, sumTo_eq_sum]
      apply Finset.sum_congr rfl
      intro j1 _
      have e1 : sumD (R.map (·.n)) (fun js => z ((i1 + (j1 : Int) - a.shift) ::
            zip3With (fun kd jd sd => kd + jd - sd) ir js (R.map (·.shift))) * conj (v ((j1 : Int) :: js))) =
          corrNDAt conj (R.map (·.n)) (fun ts => z ((i1 + (j1 : Int) - a.shift) :: ts))
            (fun js => v ((j1 : Int) :: js)) (R.map (·.shift)) ir := by
        unfold corrNDAt
        rw [sumList_allIdx]
      rw [e1, ih _ _ _ hir]

/-- `correlate` only reads its first operand at index tuples of the right length -/
theorem corrD_congr (conj : α → α) (A : List Axis) (z z' v : List Int → α) (is : List Int)
    (h : ∀ ts, ts.length = A.length → z ts = z' ts) : corrD conj A z v is = corrD conj A z' v is := by
  induction A generalizing z z' v is with
  | nil => simp [corrD, h [] rfl]
  | cons a R ih =>
    simp only [corrD]
    congr 1
    funext j1
    exact ih _ _ _ _ (fun ts hts => h _ (by simp [hts]))

/-- **flat zero-stuffing = recursive definition**: `output_kj = zeros(L); output_kj[::s_1, …, ::s_D] = y` read at `t`
    is `y[t / s]` when `t` is inside the buffer and a multiple of the strides on every axis, else 0 -/
theorem stuffD_eq (A : List Axis) (Y : List Int → α) (t : List Int) (ht : t.length = A.length) :
    stuffD A Y t = if inBounds (A.map (·.L)) t = true ∧
        (List.zip t (A.map (·.s))).all (fun x => pyMod x.1 x.2 == 0) = true
      then Y (List.zipWith pyDiv t (A.map (·.s))) else 0 := by
  induction A generalizing Y t with
  | nil =>
    cases t with
    | nil => simp [stuffD, inBounds]
    | cons _ _ => simp at ht
  | cons a R ih =>
    cases t with
    | nil => simp at ht
    | cons t1 tr =>
      have htr : tr.length = R.length := by simpa using ht
      simp only [stuffD, List.headD_cons, List.tail_cons, stuff]
      rw [ih _ tr htr]
      simp only [List.map_cons, inBounds_cons, List.zip_cons_cons,
        List.all_cons, List.zipWith_cons_cons, Bool.and_eq_true, decide_eq_true_eq, beq_iff_eq]
      generalize inBounds (R.map (·.L)) tr = c1
      generalize (List.zip tr (R.map (·.s))).all (fun x => pyMod x.1 x.2 == 0) = c2
      by_cases h1 : 0 ≤ t1 ∧ t1 < a.L <;> by_cases h2 : pyMod t1 a.s = 0 <;> cases c1 <;> cases c2 <;>
        simp [h1, h2]

end corr

/-! ### list plumbing -/

theorem zipWith_zipWith_snd {β : Type} (G : Int → Int → β) (H : Int → Int → Int) (m n : List Int) :
    List.zipWith G (List.zipWith H m n) n = List.zipWith (fun a b => G (H a b) b) m n := by
  induction m generalizing n with
  | nil => simp
  | cons a m ih => cases n with
    | nil => simp
    | cons b n => simp [ih]

theorem zipWith_zipWith_fst {β : Type} (G : Int → Int → β) (H : Int → Int → Int) (m n : List Int) :
    List.zipWith G (List.zipWith H m n) m = List.zipWith (fun a b => G (H a b) a) m n := by
  induction m generalizing n with
  | nil => simp
  | cons a m ih => cases n with
    | nil => simp
    | cons b n => simp [ih]

theorem zipWith_congr_mem {β : Type} (f g : Int → Int → β) (m n : List Int)
    (h : ∀ a b, (a, b) ∈ List.zip m n → f a b = g a b) : List.zipWith f m n = List.zipWith g m n := by
  induction m generalizing n with
  | nil => simp
  | cons a m ih => cases n with
    | nil => simp
    | cons b n =>
      simp only [List.zipWith_cons_cons]
      rw [h a b (by simp), ih n (fun a' b' hab => h a' b' (by simp [hab]))]

theorem all_zip_zipWith_snd (H : Int → Int → Int) (P : Int → Int → Bool) (m n : List Int) :
    (List.zip (List.zipWith H m n) n).all (fun (x, y) => P x y) =
      (List.zip m n).all (fun (a, b) => P (H a b) b) := by
  induction m generalizing n with
  | nil => simp
  | cons a m ih => cases n with
    | nil => simp
    | cons b n => simp [ih]

theorem all_zip_zipWith_fst (H : Int → Int → Int) (P : Int → Int → Bool) (m n : List Int) :
    (List.zip (List.zipWith H m n) m).all (fun (x, y) => P x y) =
      (List.zip m n).all (fun (a, b) => P (H a b) a) := by
  induction m generalizing n with
  | nil => simp
  | cons a m ih => cases n with
    | nil => simp
    | cons b n => simp [ih]


theorem mem_zip_zipWith_snd (H : Int → Int → Int) (m n : List Int) (x : Int × Int)
    (hx : x ∈ List.zip (List.zipWith H m n) n) : ∃ a b, (a, b) ∈ List.zip m n ∧ x = (H a b, b) := by
  induction m generalizing n with
  | nil => simp at hx
  | cons a m ih => cases n with
    | nil => simp at hx
    | cons b n =>
      simp only [List.zipWith_cons_cons, List.zip_cons_cons, List.mem_cons] at hx
      rcases hx with rfl | hx
      · exact ⟨a, b, by simp, rfl⟩
      · obtain ⟨a', b', hab, rfl⟩ := ih n hx
        exact ⟨a', b', by simp [hab], rfl⟩

theorem mem_zip_zipWith_fst (H : Int → Int → Int) (m n : List Int) (x : Int × Int)
    (hx : x ∈ List.zip (List.zipWith H m n) m) : ∃ a b, (a, b) ∈ List.zip m n ∧ x = (H a b, a) := by
  induction m generalizing n with
  | nil => simp at hx
  | cons a m ih => cases n with
    | nil => simp at hx
    | cons b n =>
      simp only [List.zipWith_cons_cons, List.zip_cons_cons, List.mem_cons] at hx
      rcases hx with rfl | hx
      · exact ⟨a, b, by simp, rfl⟩
      · obtain ⟨a', b', hab, rfl⟩ := ih n hx
        exact ⟨a', b', by simp [hab], rfl⟩

end SigpyVerif.C08
