import SigpyVerif.Model.C08
import SigpyVerif.Lemmas.Py
import Mathlib.Algebra.BigOperators.Group.Finset.Basic
import Mathlib.Algebra.BigOperators.Ring.Finset
import Mathlib.Algebra.Star.BigOperators
import Mathlib.Tactic.Ring
import Mathlib.Tactic.Linarith
/-
  Helper lemmas for C08: the recursive sum of the model is a `Finset` sum; counting multiples of the
  stride; the zero-stuffed buffer as a sum of unit impulses.
-/
namespace SigpyVerif.C08
open SigpyVerif

theorem sumTo_eq_sum {α : Type} [AddCommMonoid α] (n : Nat) (g : Int → α) :
    sumTo n g = ∑ i ∈ Finset.range n, g (i : Int) := by
  induction n with
  | zero => simp [sumTo]
  | succ k ih => rw [sumTo, ih, Finset.sum_range_succ]

/-- `(L + s - 1) // s` is the number of multiples `0, s, 2s, …` below `L` (any `L`, `s ≥ 1`) -/
theorem ceil_count (L s k : Int) (hs : 0 < s) :
    (0 ≤ k ∧ k * s < L) ↔ (0 ≤ k ∧ k < pyDiv (L + s - 1) s) := by
  rw [pyDiv_of_pos _ hs]
  constructor
  · rintro ⟨h0, h1⟩
    refine ⟨h0, ?_⟩
    have : k + 1 ≤ (L + s - 1) / s := (Int.le_ediv_iff_mul_le hs).mpr (by nlinarith)
    omega
  · rintro ⟨h0, h1⟩
    refine ⟨h0, ?_⟩
    have : (k + 1) * s ≤ L + s - 1 := (Int.le_ediv_iff_mul_le hs).mp (by omega)
    nlinarith

theorem ceil_nonpos (L s : Int) (hs : 0 < s) (hL : L ≤ 0) : pyDiv (L + s - 1) s ≤ 0 := by
  by_contra hc
  have := (ceil_count L s 0 hs).mpr ⟨le_refl 0, by omega⟩
  omega

/-- the zero-stuffed buffer `zeros(L)[::s] = y` is `Σ_k y[k]·δ(t - k s)` when `y` has exactly as many
    entries as there are multiples of `s` below `L` -/
theorem stuff_eq_sum' {α : Type} [AddCommMonoid α] (L s : Int) (p : Nat) (y : Int → α) (hs : 0 < s)
    (hp : ∀ k : Int, (0 ≤ k ∧ k * s < L) ↔ (0 ≤ k ∧ k < (p : Int))) (t : Int) :
    stuff L s y t = ∑ k ∈ Finset.range p, if t = (k : Int) * s then y (k : Int) else 0 := by
  unfold stuff
  rw [pyMod_of_pos _ hs, pyDiv_of_pos _ hs]
  split_ifs with h
  · obtain ⟨h0, h1, h2⟩ := h
    have hq : t / s * s = t := Int.ediv_mul_cancel (Int.dvd_of_emod_eq_zero h2)
    have hq0 : 0 ≤ t / s := Int.ediv_nonneg h0 (le_of_lt hs)
    have hlt : t / s < (p : Int) := ((hp (t / s)).mp ⟨hq0, by rw [hq]; exact h1⟩).2
    have hmem : (t / s).toNat ∈ Finset.range p := by
      rw [Finset.mem_range]; omega
    rw [Finset.sum_eq_single_of_mem _ hmem]
    · have : (((t / s).toNat : Nat) : Int) = t / s := Int.toNat_of_nonneg hq0
      rw [this, if_pos hq.symm]
    · intro b _ hb
      rw [if_neg]
      intro hc
      apply hb
      have : (b : Int) = t / s := by
        rw [hc, Int.mul_ediv_cancel _ (ne_of_gt hs)]
      omega
  · symm
    apply Finset.sum_eq_zero
    intro k hk
    rw [if_neg]
    intro hc
    apply h
    have hk' : (k : Int) < p := by exact_mod_cast Finset.mem_range.mp hk
    have := (hp k).mpr ⟨Int.natCast_nonneg k, hk'⟩
    refine ⟨by rw [hc]; positivity, by rw [hc]; exact this.2, ?_⟩
    rw [hc]; simp

end SigpyVerif.C08

namespace SigpyVerif.C08
/-- reordering of a four-fold sum: the first two and the last two summations change places -/
theorem sum4_swap {β : Type} [AddCommMonoid β] (A B C E : Finset ℕ) (T : ℕ → ℕ → ℕ → ℕ → β) :
    ∑ a ∈ A, ∑ b ∈ B, ∑ c ∈ C, ∑ e ∈ E, T a b c e = ∑ c ∈ C, ∑ e ∈ E, ∑ a ∈ A, ∑ b ∈ B, T a b c e := by
  calc ∑ a ∈ A, ∑ b ∈ B, ∑ c ∈ C, ∑ e ∈ E, T a b c e
      = ∑ a ∈ A, ∑ c ∈ C, ∑ b ∈ B, ∑ e ∈ E, T a b c e := by
        apply Finset.sum_congr rfl; intro a _; rw [Finset.sum_comm]
    _ = ∑ c ∈ C, ∑ a ∈ A, ∑ b ∈ B, ∑ e ∈ E, T a b c e := Finset.sum_comm
    _ = ∑ c ∈ C, ∑ a ∈ A, ∑ e ∈ E, ∑ b ∈ B, T a b c e := by
        apply Finset.sum_congr rfl; intro c _; apply Finset.sum_congr rfl; intro a _; rw [Finset.sum_comm]
    _ = ∑ c ∈ C, ∑ e ∈ E, ∑ a ∈ A, ∑ b ∈ B, T a b c e := by
        apply Finset.sum_congr rfl; intro c _; rw [Finset.sum_comm]

/-- 2-D zero-stuffing as a sum of unit impulses -/
theorem stuff2_eq_sum' {α : Type} [AddCommMonoid α] (L1 L2 s1 s2 : Int) (p1 p2 : Nat) (y : Int → Int → α)
    (hs1 : 0 < s1) (hs2 : 0 < s2)
    (hp1 : ∀ k : Int, (0 ≤ k ∧ k * s1 < L1) ↔ (0 ≤ k ∧ k < (p1 : Int)))
    (hp2 : ∀ k : Int, (0 ≤ k ∧ k * s2 < L2) ↔ (0 ≤ k ∧ k < (p2 : Int))) (t1 t2 : Int) :
    stuff2 L1 L2 s1 s2 y t1 t2 = ∑ k1 ∈ Finset.range p1, ∑ k2 ∈ Finset.range p2,
      if t1 = (k1 : Int) * s1 ∧ t2 = (k2 : Int) * s2 then y k1 k2 else 0 := by
  have h : stuff2 L1 L2 s1 s2 y t1 t2 = stuff L1 s1 (fun a => stuff L2 s2 (y a) t2) t1 := by
    unfold stuff2 stuff
    by_cases h1 : 0 ≤ t1 ∧ t1 < L1 ∧ pyMod t1 s1 = 0 <;> by_cases h2 : 0 ≤ t2 ∧ t2 < L2 ∧ pyMod t2 s2 = 0 <;>
      simp [h1, h2]
  rw [h, stuff_eq_sum' L1 s1 p1 _ hs1 hp1]
  apply Finset.sum_congr rfl
  intro k1 _
  by_cases h1 : t1 = (k1 : Int) * s1
  · simp only [h1, true_and, if_true]
    exact stuff_eq_sum' L2 s2 p2 _ hs2 hp2 t2
  · simp [h1]
end SigpyVerif.C08

/-! ### D-dimensional sums -/
namespace SigpyVerif.C08

/-- all multi-indices of a shape, as a finset of lists -/
def idxSet : List Int → Finset (List Int)
  | [] => {[]}
  | n :: ns => ((Finset.range n.toNat) ×ˢ (idxSet ns)).image (fun q => (q.1 : Int) :: q.2)

theorem sum_idxSet_cons {β : Type} [AddCommMonoid β] (n : Int) (ns : List Int) (g : List Int → β) :
    ∑ k ∈ idxSet (n :: ns), g k =
      ∑ i ∈ Finset.range n.toNat, ∑ is ∈ idxSet ns, g ((i : Int) :: is) := by
  rw [idxSet, Finset.sum_image, Finset.sum_product]
  intro a _ b _ h
  simp only [List.cons.injEq, Nat.cast_inj] at h
  exact Prod.ext h.1 h.2

theorem sumD_eq {β : Type} [AddCommMonoid β] (ns : List Int) (g : List Int → β) :
    sumD ns g = ∑ k ∈ idxSet ns, g k := by
  induction ns generalizing g with
  | nil => simp [sumD, idxSet]
  | cons n ns ih =>
    rw [sumD, sumTo_eq_sum, sum_idxSet_cons]
    apply Finset.sum_congr rfl
    intro i _
    exact ih _

/-- `scipy.signal.correlate` is linear in its first argument (here: for a sum of switched terms) -/
theorem corrD_sum_ite {α : Type} [CommRing α] (conj : α → α) (axes : List Axis) {ι : Type} (K : Finset ι)
    (c : ι → Prop) [DecidablePred c] (Z : ι → List Int → α) (v : List Int → α) (is : List Int) :
    corrD conj axes (fun ts => ∑ k ∈ K, if c k then Z k ts else 0) v is =
      ∑ k ∈ K, if c k then corrD conj axes (Z k) v is else 0 := by
  induction axes generalizing Z v is with
  | nil =>
    simp only [corrD, Finset.sum_mul]
    apply Finset.sum_congr rfl
    intro k _
    split_ifs <;> simp
  | cons a rest ih =>
    simp only [corrD, sumTo_eq_sum]
    have : ∀ j1 ∈ Finset.range a.n.toNat,
        corrD conj rest (fun ts => ∑ k ∈ K, if c k then Z k ((is.headD 0 + (j1 : Int) - a.shift) :: ts) else 0)
          (fun js => v ((j1 : Int) :: js)) is.tail =
        ∑ k ∈ K, if c k then corrD conj rest (fun ts => Z k ((is.headD 0 + (j1 : Int) - a.shift) :: ts))
          (fun js => v ((j1 : Int) :: js)) is.tail else 0 := by
      intro j1 _
      exact ih (fun k ts => Z k ((is.headD 0 + (j1 : Int) - a.shift) :: ts)) _ _
    rw [Finset.sum_congr rfl this, Finset.sum_comm]
    apply Finset.sum_congr rfl
    intro k _
    split_ifs <;> simp

end SigpyVerif.C08

/-! ### the executable scalar type `GI` is a commutative *-ring (so the theorems apply to what the driver runs) -/
namespace SigpyVerif.C08

@[ext] theorem GI.ext' {a b : GI} (h1 : a.re = b.re) (h2 : a.im = b.im) : a = b := by
  cases a; cases b; simp_all

instance : One GI := ⟨⟨1, 0⟩⟩
instance : Neg GI := ⟨fun a => ⟨-a.re, -a.im⟩⟩

@[simp] theorem GI.zero_re : (0 : GI).re = 0 := rfl
@[simp] theorem GI.zero_im : (0 : GI).im = 0 := rfl
@[simp] theorem GI.one_re : (1 : GI).re = 1 := rfl
@[simp] theorem GI.one_im : (1 : GI).im = 0 := rfl
@[simp] theorem GI.add_re (a b : GI) : (a + b).re = a.re + b.re := rfl
@[simp] theorem GI.add_im (a b : GI) : (a + b).im = a.im + b.im := rfl
@[simp] theorem GI.mul_re (a b : GI) : (a * b).re = a.re * b.re - a.im * b.im := rfl
@[simp] theorem GI.mul_im (a b : GI) : (a * b).im = a.re * b.im + a.im * b.re := rfl
@[simp] theorem GI.neg_re (a : GI) : (-a).re = -a.re := rfl
@[simp] theorem GI.neg_im (a : GI) : (-a).im = -a.im := rfl
@[simp] theorem GI.conj_re (a : GI) : a.conj.re = a.re := rfl
@[simp] theorem GI.conj_im (a : GI) : a.conj.im = -a.im := rfl

instance : CommRing GI where
  add := (· + ·)
  zero := 0
  mul := (· * ·)
  one := 1
  neg := Neg.neg
  nsmul := nsmulRec
  zsmul := zsmulRec
  add_assoc := by intros; ext <;> simp <;> ring
  zero_add := by intros; ext <;> simp
  add_zero := by intros; ext <;> simp
  add_comm := by intros; ext <;> simp <;> ring
  neg_add_cancel := by intros; ext <;> simp
  mul_assoc := by intros; ext <;> simp <;> ring
  one_mul := by intros; ext <;> simp
  mul_one := by intros; ext <;> simp
  zero_mul := by intros; ext <;> simp
  mul_zero := by intros; ext <;> simp
  left_distrib := by intros; ext <;> simp <;> ring
  right_distrib := by intros; ext <;> simp <;> ring
  mul_comm := by intros; ext <;> simp <;> ring

instance : StarRing GI where
  star := GI.conj
  star_involutive := by intro a; ext <;> simp [GI.conj]
  star_mul := by intro a b; ext <;> simp [GI.conj] <;> ring
  star_add := by intro a b; ext <;> simp [GI.conj]; ring

end SigpyVerif.C08

/-! ### the generated loop nest: what lands in one slice of the accumulated array -/
namespace SigpyVerif.C08
open SigpyVerif

theorem sum_range_ite_eq {β : Type} [AddCommMonoid β] (n x : Nat) (hx : x < n) (g : Nat → β) :
    ∑ i ∈ Finset.range n, (if ((i : Int) = (x : Int)) then g i else 0) = g x := by
  rw [Finset.sum_eq_single_of_mem x (Finset.mem_range.mpr hx)]
  · simp
  · intro i _ hi
    rw [if_neg]
    exact_mod_cast hi

/-- `X[k, j] += T(k, j, i)`: slice `(b, o)` receives `Σ_i T(b, o, i)` -/
theorem loopSum_B_co {β : Type} [AddCommMonoid β] (B co ci b o : Nat) (hb : b < B) (ho : o < co)
    (T : Int → Int → Int → β) :
    loopSum B co ci (Gen.ConvDim.B, Gen.ConvDim.co) b o T = ∑ c ∈ Finset.range ci, T b o c := by
  unfold loopSum pick
  simp only [sumTo_eq_sum]
  have h1 : ∀ x ∈ Finset.range B, (∑ y ∈ Finset.range co, ∑ c ∈ Finset.range ci,
      if ((x : Int) = (b : Int) ∧ (y : Int) = (o : Int)) then T x y c else 0) =
      if ((x : Int) = (b : Int)) then (∑ y ∈ Finset.range co,
        if ((y : Int) = (o : Int)) then ∑ c ∈ Finset.range ci, T x y c else 0) else 0 := by
    intro x _
    by_cases hx : (x : Int) = (b : Int)
    · simp only [hx, true_and, if_true]
      apply Finset.sum_congr rfl
      intro y _
      by_cases hy : (y : Int) = (o : Int) <;> simp [hy]
    · simp [hx]
  rw [Finset.sum_congr rfl h1, sum_range_ite_eq B b hb, sum_range_ite_eq co o ho]

/-- `X[k, i] += T(k, j, i)`: slice `(b, c)` receives `Σ_j T(b, j, c)` -/
theorem loopSum_B_ci {β : Type} [AddCommMonoid β] (B co ci b c : Nat) (hb : b < B) (hc : c < ci)
    (T : Int → Int → Int → β) :
    loopSum B co ci (Gen.ConvDim.B, Gen.ConvDim.ci) b c T = ∑ o ∈ Finset.range co, T b o c := by
  unfold loopSum pick
  simp only [sumTo_eq_sum]
  have h1 : ∀ x ∈ Finset.range B, (∑ y ∈ Finset.range co, ∑ z ∈ Finset.range ci,
      if ((x : Int) = (b : Int) ∧ (z : Int) = (c : Int)) then T x y z else 0) =
      if ((x : Int) = (b : Int)) then (∑ y ∈ Finset.range co, T x y c) else 0 := by
    intro x _
    by_cases hx : (x : Int) = (b : Int)
    · simp only [hx, true_and, if_true]
      apply Finset.sum_congr rfl
      intro y _
      exact sum_range_ite_eq ci c hc (fun z => T b y z)
    · simp [hx]
  rw [Finset.sum_congr rfl h1, sum_range_ite_eq B b hb]

/-- `X[j, i] += T(k, j, i)`: slice `(o, c)` receives `Σ_k T(k, o, c)` -/
theorem loopSum_co_ci {β : Type} [AddCommMonoid β] (B co ci o c : Nat) (ho : o < co) (hc : c < ci)
    (T : Int → Int → Int → β) :
    loopSum B co ci (Gen.ConvDim.co, Gen.ConvDim.ci) o c T = ∑ b ∈ Finset.range B, T b o c := by
  unfold loopSum pick
  simp only [sumTo_eq_sum]
  apply Finset.sum_congr rfl
  intro x _
  have h1 : ∀ y ∈ Finset.range co, (∑ z ∈ Finset.range ci,
      if ((y : Int) = (o : Int) ∧ (z : Int) = (c : Int)) then T x y z else 0) =
      if ((y : Int) = (o : Int)) then T x y c else 0 := by
    intro y _
    by_cases hy : (y : Int) = (o : Int)
    · simp only [hy, true_and, if_true]
      exact sum_range_ite_eq ci c hc (fun z => T x o z)
    · simp [hy]
  rw [Finset.sum_congr rfl h1, sum_range_ite_eq co o ho]

end SigpyVerif.C08

/-! ### Python indexing / slicing from the end of a list -/
namespace SigpyVerif.C08
open SigpyVerif

theorem pyFrom_suffix (pre suf : List Int) (h : 1 ≤ suf.length) :
    pyFrom (pre ++ suf) (-(suf.length : Int)) = suf := by
  unfold pyFrom pyBound pyMax
  have h1 : (-(suf.length : Int)) < 0 := by omega
  simp only [h1, if_true, List.length_append]
  have : (if (-(suf.length : Int) + ((pre.length + suf.length : Nat) : Int)) ≥ 0
      then (-(suf.length : Int) + ((pre.length + suf.length : Nat) : Int)) else 0).toNat = pre.length := by
    split_ifs <;> omega
  rw [this]
  exact List.drop_left

theorem pyUpto_prefix (pre suf : List Int) (h : 1 ≤ suf.length) :
    pyUpto (pre ++ suf) (-(suf.length : Int)) = pre := by
  unfold pyUpto pyBound pyMax
  have h1 : (-(suf.length : Int)) < 0 := by omega
  simp only [h1, if_true, List.length_append]
  have : (if (-(suf.length : Int) + ((pre.length + suf.length : Nat) : Int)) ≥ 0
      then (-(suf.length : Int) + ((pre.length + suf.length : Nat) : Int)) else 0).toNat = pre.length := by
    split_ifs <;> omega
  rw [this]
  exact List.take_left

theorem pyGet_from_end (pre : List Int) (x : Int) (suf : List Int) :
    pyGet (pre ++ x :: suf) (-(suf.length : Int) - 1) = some x := by
  unfold pyGet
  have h1 : (-(suf.length : Int) - 1) < 0 := by omega
  simp only [h1, if_true, List.length_append, List.length_cons]
  have e : (-(suf.length : Int) - 1 + ((pre.length + (suf.length + 1) : Nat) : Int)) = (pre.length : Int) := by
    push_cast; ring
  rw [e]
  simp

end SigpyVerif.C08
