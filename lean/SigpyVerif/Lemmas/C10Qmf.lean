import SigpyVerif.Lemmas.C10
import Mathlib.Algebra.BigOperators.Finprod
import Mathlib.Algebra.Group.Equiv.Basic
import Mathlib.Data.Int.Interval
/-
  C10 helper lemmas for `complete_of_qmf_pair`: finite supports, re-indexing and parity split of sums over ℤ,
  the alternating flip of a filter (sequence and list form).
-/
namespace SigpyVerif.C10
open Finset
variable {R : Type*} [CommRing R]

theorem finite_support_of_bound (f : ℤ → R) (lo hi : ℤ) (hf : ∀ k, (k < lo ∨ hi < k) → f k = 0) :
    (Function.support f).Finite :=
  (Set.finite_Icc lo hi).subset (by
    intro k hk
    rw [Function.mem_support] at hk
    rw [Set.mem_Icc]
    by_contra hcon
    exact hk (hf k (by omega)))

theorem finsum_shift2 (F : ℤ → R) (c q : ℤ) :
    ∑ᶠ k : ℤ, F (2 * k + (c + 2 * q)) = ∑ᶠ k : ℤ, F (2 * k + c) := by
  rw [← finsum_comp_equiv (Equiv.addRight q) (f := fun k => F (2 * k + c))]
  apply finsum_congr; intro k
  simp only [Equiv.coe_addRight]
  congr 1; ring

theorem finsum_flip2 (F : ℤ → R) (c : ℤ) : ∑ᶠ k : ℤ, F (c - 2 * k) = ∑ᶠ k : ℤ, F (2 * k + c) := by
  rw [← finsum_comp_equiv (Equiv.neg ℤ) (f := fun k => F (2 * k + c))]
  apply finsum_congr; intro k
  simp only [Equiv.neg_apply]
  congr 1; ring

theorem finsum_even_odd (F : ℤ → R) (hF : (Function.support F).Finite) :
    ∑ᶠ j : ℤ, F j = ∑ᶠ k : ℤ, F (2 * k + 0) + ∑ᶠ k : ℤ, F (2 * k + 1) := by
  have hE : Function.Injective (fun k : ℤ => 2 * k + 0) := fun a b hab => by simp at hab; omega
  have hO : Function.Injective (fun k : ℤ => 2 * k + 1) := fun a b hab => by simp at hab; omega
  rw [← finsum_mem_range hE, ← finsum_mem_range hO, ← finsum_mem_union' _ (hF.subset Set.inter_subset_right)
    (hF.subset Set.inter_subset_right)]
  · have hu : (Set.range fun k : ℤ => 2 * k + 0) ∪ (Set.range fun k : ℤ => 2 * k + 1) = Set.univ := by
      ext j
      simp only [Set.mem_union, Set.mem_range, Set.mem_univ, iff_true]
      rcases Int.emod_two_eq_zero_or_one j with h0 | h1
      · exact Or.inl ⟨j / 2, by omega⟩
      · exact Or.inr ⟨j / 2, by omega⟩
    rw [hu, finsum_mem_univ]
  · rw [Set.disjoint_left]
    rintro j ⟨a, rfl⟩ ⟨b, hb⟩
    simp only at hb
    omega

/-- `(-1)^j` for `j ∈ ℤ` -/
def sgn (j : ℤ) : R := if j % 2 = 0 then 1 else -1

theorem sgn_mul_sgn (a b : ℤ) : (sgn a * sgn b : R) = if (a + b) % 2 = 0 then 1 else -1 := by
  unfold sgn
  split_ifs <;> first | omega | simp

/-- the alternating flip `g[j] = s·(-1)^j·h[L-1-j]` (`s = ±1`; PyWavelets: `dec_hi[j] = (-1)^(j+1) dec_lo[L-1-j]`) -/
def altFlip (s : R) (L : ℕ) (h : ℤ → R) (j : ℤ) : R := s * sgn j * h ((L : ℤ) - 1 - j)

theorem supportedOn_altFlip (s : R) {L : ℕ} {h : ℤ → R} (hh : SupportedOn L h) : SupportedOn L (altFlip s L h) := by
  intro j hj
  unfold altFlip
  rw [hh _ (by omega)]; ring


/-- list form of the alternating flip: `g[j] = s·(-1)^j·h[L-1-j]`, `0 ≤ j < L = len(h)` -/
def altFlipL (s : R) (h : List R) : List R :=
  (List.range h.length).map fun (j : ℕ) => s * sgn ((j : ℕ) : ℤ) * h.getD (h.length - 1 - j) 0

theorem ofList_altFlipL (s : R) (h : List R) : ofList (altFlipL s h) = altFlip s h.length (ofList h) := by
  funext j
  simp only [ofList, altFlip, altFlipL]
  by_cases h0 : 0 ≤ j
  · by_cases h1 : j < h.length
    · have hj : j.toNat < h.length := by omega
      rw [if_pos h0, if_pos (by omega), List.getD_eq_getElem?_getD,
        List.getElem?_eq_getElem (by simpa using hj)]
      simp only [List.getElem_map, List.getElem_range, Option.getD_some]
      have e1 : ((j.toNat : ℕ) : ℤ) = j := by omega
      have e2 : ((h.length : ℤ) - 1 - j).toNat = h.length - 1 - j.toNat := by omega
      rw [e1, e2]
    · rw [if_pos h0, if_neg (by omega), List.getD_eq_getElem?_getD, List.getElem?_eq_none (by simp; omega)]
      simp
  · rw [if_neg h0, if_pos (by omega), List.getD_eq_getElem?_getD (l := h), List.getElem?_eq_none (by omega)]
    simp

theorem altFlipL_length (s : R) (h : List R) : (altFlipL s h).length = h.length := by simp [altFlipL]

end SigpyVerif.C10
