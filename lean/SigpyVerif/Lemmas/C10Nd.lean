import SigpyVerif.Lemmas.C10
import SigpyVerif.Model.C10Nd
/-
  C10, N-d: arrays as functions of the multi-index (a list of naturals, one entry per axis), sums over a
  box, a 1-D linear map applied along one axis, and the lifting of 1-D isometry / adjointness / left
  inverse to a composition of per-axis maps over an arbitrary list of axes (induction over the list).
-/
namespace SigpyVerif.C10
open Finset

variable {R : Type*} [CommRing R]

/-- `Σ_{idx ∈ box(shape)} f idx` (row-major nesting) -/
def boxSum : List ℕ → (List ℕ → R) → R
  | [], f => f []
  | n :: s, f => ∑ i ∈ range n, boxSum s (fun idx => f (i :: idx))

/-- multi-index inside the box -/
def InBox : List ℕ → List ℕ → Prop
  | [], [] => True
  | n :: s, i :: idx => i < n ∧ InBox s idx
  | _, _ => False

/- `alongAxis`, `AxisMap`, `applyAxes`, `unapplyAxes`, `shapeAxes` are defined in Model/C10Nd.lean (core, executed) -/

/-- `fwd` preserves the sum of squares -/
def AxisMap.IsIso (F : AxisMap R) : Prop :=
  ∀ (N : ℕ) (x : ℕ → R), ∑ k ∈ range (F.len N), F.fwd N x k ^ 2 = ∑ n ∈ range N, x n ^ 2
/-- `bwd` is the transpose of `fwd` -/
def AxisMap.IsAdj (F : AxisMap R) : Prop :=
  ∀ (N : ℕ) (x c : ℕ → R), ∑ k ∈ range (F.len N), F.fwd N x k * c k = ∑ n ∈ range N, x n * F.bwd N c n
/-- `bwd` inverts `fwd` on the `N` samples and reads only the `len N` coefficients -/
def AxisMap.IsInv (F : AxisMap R) : Prop :=
  (∀ (N : ℕ) (x : ℕ → R) (n : ℕ), n < N → F.bwd N (F.fwd N x) n = x n) ∧
  (∀ (N : ℕ) (c c' : ℕ → R), (∀ k, k < F.len N → c k = c' k) → ∀ n, n < N → F.bwd N c n = F.bwd N c' n)

theorem alongAxis_zero (T : (ℕ → R) → ℕ → R) (X : List ℕ → R) (i : ℕ) (idx : List ℕ) :
    alongAxis 0 T X (i :: idx) = T (fun j => X (j :: idx)) i := rfl

theorem alongAxis_succ (a : ℕ) (T : (ℕ → R) → ℕ → R) (X : List ℕ → R) (i : ℕ) (idx : List ℕ) :
    alongAxis (a + 1) T X (i :: idx) = alongAxis a T (fun r => X (i :: r)) idx := rfl

theorem boxSum_sum_comm (m : ℕ) : ∀ (s : List ℕ) (F : ℕ → List ℕ → R),
    ∑ k ∈ range m, boxSum s (F k) = boxSum s (fun idx => ∑ k ∈ range m, F k idx) := by
  intro s
  induction s with
  | nil => intro F; rfl
  | cons n s ih =>
    intro F
    simp only [boxSum]
    rw [sum_comm]
    apply sum_congr rfl; intro i _
    exact ih (fun k idx => F k (i :: idx))

/-- a 1-D isometry (sum of squares, length `N` → length `N'`) applied along axis `a` of a box -/
theorem boxSum_alongAxis_sq (T : (ℕ → R) → ℕ → R) (N N' : ℕ)
    (hT : ∀ x : ℕ → R, ∑ k ∈ range N', T x k ^ 2 = ∑ n ∈ range N, x n ^ 2) :
    ∀ (shape : List ℕ) (a : ℕ) (X : List ℕ → R), a < shape.length → shape.getD a 0 = N →
      boxSum (shape.set a N') (fun idx => alongAxis a T X idx ^ 2) = boxSum shape (fun idx => X idx ^ 2) := by
  intro shape
  induction shape with
  | nil => intro a X ha; simp at ha
  | cons n s ih =>
    intro a X ha hN
    cases a with
    | zero =>
      simp only [List.getD_cons_zero] at hN
      subst hN
      simp only [List.set_cons_zero, boxSum, alongAxis_zero]
      rw [boxSum_sum_comm, boxSum_sum_comm]
      congr 1; funext idx
      exact hT (fun j => X (j :: idx))
    | succ a =>
      simp only [List.set_cons_succ, boxSum, alongAxis_succ]
      apply sum_congr rfl; intro i _
      exact ih a (fun r => X (i :: r)) (by simpa using ha) (by simpa using hN)

/-- a 1-D adjoint pair applied along axis `a` of a box -/
theorem boxSum_alongAxis_adj (T T' : (ℕ → R) → ℕ → R) (N N' : ℕ)
    (hT : ∀ x c : ℕ → R, ∑ k ∈ range N', T x k * c k = ∑ n ∈ range N, x n * T' c n) :
    ∀ (shape : List ℕ) (a : ℕ) (X C : List ℕ → R), a < shape.length → shape.getD a 0 = N →
      boxSum (shape.set a N') (fun idx => alongAxis a T X idx * C idx)
        = boxSum shape (fun idx => X idx * alongAxis a T' C idx) := by
  intro shape
  induction shape with
  | nil => intro a X C ha; simp at ha
  | cons n s ih =>
    intro a X C ha hN
    cases a with
    | zero =>
      simp only [List.getD_cons_zero] at hN
      subst hN
      simp only [List.set_cons_zero, boxSum, alongAxis_zero]
      rw [boxSum_sum_comm, boxSum_sum_comm]
      congr 1; funext idx
      exact hT (fun j => X (j :: idx)) (fun k => C (k :: idx))
    | succ a =>
      simp only [List.set_cons_succ, boxSum, alongAxis_succ]
      apply sum_congr rfl; intro i _
      exact ih a (fun r => X (i :: r)) (fun r => C (i :: r)) (by simpa using ha) (by simpa using hN)

/-- a 1-D left inverse applied along the same axis: exact at every multi-index whose `a`-th entry is `< N` -/
theorem alongAxis_left_inverse (T T' : (ℕ → R) → ℕ → R) (N : ℕ)
    (hT : ∀ (x : ℕ → R) (n : ℕ), n < N → T' (T x) n = x n) (a : ℕ) (X : List ℕ → R) (idx : List ℕ)
    (ha : a < idx.length) (hN : idx.getD a 0 < N) :
    alongAxis a T' (alongAxis a T X) idx = X idx := by
  unfold alongAxis
  have e : (fun i => T (fun j => X ((idx.set a i).set a j)) ((idx.set a i).getD a 0))
      = T (fun j => X (idx.set a j)) := by
    funext i
    rw [List.getD_eq_getElem?_getD, List.getElem?_set_self (by simpa using ha)]
    simp only [List.set_set, Option.getD_some]
  rw [e, hT _ _ hN]
  congr 1
  rw [List.getD_eq_getElem?_getD, List.getElem?_eq_getElem ha]
  simp

theorem shapeAxes_length : ∀ (steps : List (ℕ × AxisMap R)) (shape : List ℕ),
    (shapeAxes steps shape).length = shape.length := by
  intro steps
  induction steps with
  | nil => intro shape; rfl
  | cons s as ih => intro shape; obtain ⟨a, F⟩ := s; simp [shapeAxes, ih]

theorem shapeAxes_append : ∀ (s1 s2 : List (ℕ × AxisMap R)) (shape : List ℕ),
    shapeAxes (s1 ++ s2) shape = shapeAxes s2 (shapeAxes s1 shape) := by
  intro s1
  induction s1 with
  | nil => intro s2 shape; rfl
  | cons s as ih => intro s2 shape; obtain ⟨a, F⟩ := s; simp [shapeAxes, ih]

/-- **composition over an arbitrary list of per-axis steps, isometry** -/
theorem applyAxes_isometry : ∀ (steps : List (ℕ × AxisMap R)) (shape : List ℕ) (X : List ℕ → R),
    (∀ s ∈ steps, s.1 < shape.length ∧ s.2.IsIso) →
      boxSum (shapeAxes steps shape) (fun idx => applyAxes steps shape X idx ^ 2)
        = boxSum shape (fun idx => X idx ^ 2) := by
  intro steps
  induction steps with
  | nil => intro shape X _; rfl
  | cons s as ih =>
    intro shape X hax
    obtain ⟨a, F⟩ := s
    simp only [shapeAxes, applyAxes]
    rw [ih _ _ (by intro b hb; simpa using hax b (List.mem_cons_of_mem _ hb))]
    have h0 := hax (a, F) List.mem_cons_self
    exact boxSum_alongAxis_sq _ _ _ (h0.2 _) shape a X h0.1 rfl

/-- **composition over an arbitrary list of per-axis steps, adjoint** (the adjoints are applied in reverse order) -/
theorem applyAxes_adjoint : ∀ (steps : List (ℕ × AxisMap R)) (shape : List ℕ) (X C : List ℕ → R),
    (∀ s ∈ steps, s.1 < shape.length ∧ s.2.IsAdj) →
      boxSum (shapeAxes steps shape) (fun idx => applyAxes steps shape X idx * C idx)
        = boxSum shape (fun idx => X idx * unapplyAxes steps shape C idx) := by
  intro steps
  induction steps with
  | nil => intro shape X C _; rfl
  | cons s as ih =>
    intro shape X C hax
    obtain ⟨a, F⟩ := s
    simp only [shapeAxes, applyAxes, unapplyAxes]
    rw [ih _ _ _ (by intro b hb; simpa using hax b (List.mem_cons_of_mem _ hb))]
    have h0 := hax (a, F) List.mem_cons_self
    exact boxSum_alongAxis_adj _ _ _ _ (h0.2 _) shape a X _ h0.1 rfl

theorem InBox.length_eq : ∀ {shape idx : List ℕ}, InBox shape idx → idx.length = shape.length
  | [], [], _ => rfl
  | _ :: _, _ :: _, h => by simp [InBox.length_eq h.2]
  | [], _ :: _, h => h.elim
  | _ :: _, [], h => h.elim

theorem InBox.getD_lt : ∀ {shape idx : List ℕ}, InBox shape idx → ∀ a, a < shape.length →
    idx.getD a 0 < shape.getD a 0
  | [], [], _, a, ha => by simp at ha
  | n :: s, i :: idx, h, 0, _ => by simpa using h.1
  | n :: s, i :: idx, h, a + 1, ha => by
      simpa using InBox.getD_lt h.2 a (by simpa using ha)
  | [], _ :: _, h, _, _ => h.elim
  | _ :: _, [], h, _, _ => h.elim

theorem InBox.set : ∀ {shape idx : List ℕ}, InBox shape idx → ∀ (a m i : ℕ), i < m →
    InBox (shape.set a m) (idx.set a i)
  | [], [], _, _, _, _, _ => trivial
  | n :: s, j :: idx, h, 0, m, i, hi => ⟨hi, h.2⟩
  | n :: s, j :: idx, h, a + 1, m, i, hi => ⟨h.1, InBox.set h.2 a m i hi⟩
  | [], _ :: _, h, _, _, _, _ => h.elim
  | _ :: _, [], h, _, _, _, _ => h.elim

/-- **composition over an arbitrary list of per-axis steps, left inverse**: if each `bwd N` inverts `fwd N`
    on the `N` samples and reads only the `len N` coefficients, undoing the steps last-to-first recovers the
    array at every multi-index of the box. -/
theorem applyAxes_left_inverse : ∀ (steps : List (ℕ × AxisMap R)) (shape : List ℕ) (X : List ℕ → R)
    (idx : List ℕ), (∀ s ∈ steps, s.1 < shape.length ∧ s.2.IsInv) → InBox shape idx →
      unapplyAxes steps shape (applyAxes steps shape X) idx = X idx := by
  intro steps
  induction steps with
  | nil => intro shape X idx _ _; rfl
  | cons s as ih =>
    intro shape X idx hax hbox
    obtain ⟨a, F⟩ := s
    have h0 := hax (a, F) List.mem_cons_self
    have ha : a < shape.length := h0.1
    have hlt := hbox.getD_lt a ha
    simp only [applyAxes, unapplyAxes]
    rw [← alongAxis_left_inverse (F.fwd (shape.getD a 0)) (F.bwd (shape.getD a 0)) (shape.getD a 0) (h0.2.1 _) a X idx
      (by rw [hbox.length_eq]; exact ha) hlt]
    unfold alongAxis
    apply h0.2.2 _ _ _ _ _ hlt
    intro k hk
    exact ih _ _ _ (by intro b hb; simpa using hax b (List.mem_cons_of_mem _ hb)) (hbox.set a _ k hk)

end SigpyVerif.C10
