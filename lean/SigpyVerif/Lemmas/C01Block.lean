import SigpyVerif.Props.C09
import SigpyVerif.Gen.Interp
import SigpyVerif.Model.Apply
import Mathlib.Data.List.Basic
import Mathlib.Data.List.Nodup
import Mathlib.Data.List.Perm.Basic

namespace SigpyVerif.C01
open SigpyVerif

/-! ### gridding is the index-swapped interpolation -/

/-- `_gridding1` emits literally the same (index, index, weight) triples as `_interpolate1`, with
    the roles of output and input index swapped, for an arbitrary kernel: gridding is the transpose
    (adjoint for real kernels) of interpolation in 1-D. -/
theorem grid1_eq_swap_interp1 (K : Rat → Rat → Rat) (osh ish osh' ish' csh : Int → Int)
    (coord : Int → Int → Rat) (width param : Int → Rat)
    (h0 : osh 0 = ish' 0) (h1 : osh 1 = ish' 1) :
    Gen.grid1 K osh ish csh coord width param =
      (Gen.interp1 K osh' ish' csh coord width param).map (fun u => (u.2.1, u.1, u.2.2)) := by
  unfold Gen.grid1 Gen.interp1
  simp only [List.map_flatMap, List.map_cons, List.map_nil]
  rw [h0, h1]

/-- `_gridding2` is the index-swapped list of `_interpolate2`: gridding is the transpose of
    interpolation in 2-D. -/
theorem grid2_eq_swap_interp2 (K : Rat → Rat → Rat) (osh ish osh' ish' csh : Int → Int)
    (coord : Int → Int → Rat) (width param : Int → Rat)
    (h0 : osh 0 = ish' 0) (h1 : osh 1 = ish' 1) (h2 : osh 2 = ish' 2) :
    Gen.grid2 K osh ish csh coord width param =
      (Gen.interp2 K osh' ish' csh coord width param).map (fun u => (u.2.1, u.1, u.2.2)) := by
  unfold Gen.grid2 Gen.interp2
  simp only [List.map_flatMap, List.map_cons, List.map_nil]
  rw [h0, h1, h2]

/-- `_gridding3` is the index-swapped list of `_interpolate3`: gridding is the transpose of
    interpolation in 3-D. -/
theorem grid3_eq_swap_interp3 (K : Rat → Rat → Rat) (osh ish osh' ish' csh : Int → Int)
    (coord : Int → Int → Rat) (width param : Int → Rat)
    (h0 : osh 0 = ish' 0) (h1 : osh 1 = ish' 1) (h2 : osh 2 = ish' 2) (h3 : osh 3 = ish' 3) :
    Gen.grid3 K osh ish csh coord width param =
      (Gen.interp3 K osh' ish' csh coord width param).map (fun u => (u.2.1, u.1, u.2.2)) := by
  unfold Gen.grid3 Gen.interp3
  simp only [List.map_flatMap, List.map_cons, List.map_nil]
  rw [h0, h1, h2, h3]

/-! ### 2-D blocks -/

/-- `_array_to_blocks2`: block `(ny, nx, y, x)` reads array element `(ny·Sy + y, nx·Sx + x)` for
    every batch, exactly when that element is inside the array, and nothing else is written. -/
theorem a2b2_mem (osh ish : Int → Int) (batch Bx By Sx Sy Nx Ny : Int) (u : Upd Rat) :
    u ∈ Gen.a2b2 osh ish batch Bx By Sx Sy Nx Ny ↔
      ∃ b ny nx y x, 0 ≤ b ∧ b < batch ∧ 0 ≤ ny ∧ ny < Ny ∧ 0 ≤ nx ∧ nx < Nx ∧
        0 ≤ y ∧ y < By ∧ 0 ≤ x ∧ x < Bx ∧ nx * Sx + x < ish (-1) ∧ ny * Sy + y < ish (-2) ∧
        u = ([b, ny, nx, y, x], [b, ny * Sy + y, nx * Sx + x], 1) := by
  unfold Gen.a2b2
  simp only [List.mem_flatMap, mem_pyRange0']
  constructor
  · rintro ⟨b, ⟨hb0, hb1⟩, ny, ⟨hny0, hny1⟩, nx, ⟨hnx0, hnx1⟩, y, ⟨hy0, hy1⟩, x, ⟨hx0, hx1⟩, h⟩
    split_ifs at h with hg
    · simp at h
      exact ⟨b, ny, nx, y, x, hb0, hb1, hny0, hny1, hnx0, hnx1, hy0, hy1, hx0, hx1, hg.1, hg.2, h⟩
    · simp at h
  · rintro ⟨b, ny, nx, y, x, hb0, hb1, hny0, hny1, hnx0, hnx1, hy0, hy1, hx0, hx1, hg1, hg2, rfl⟩
    refine ⟨b, ⟨hb0, hb1⟩, ny, ⟨hny0, hny1⟩, nx, ⟨hnx0, hnx1⟩, y, ⟨hy0, hy1⟩, x, ⟨hx0, hx1⟩, ?_⟩
    simp [hg1, hg2]

/-- quotient recovered by the scatter loop: `((n·S + x) - x) // S = n` -/
theorem pyDiv_block (n S x : Int) (hS : 0 < S) : pyDiv (n * S + x - x) S = n := by
  rw [pyDiv_of_pos _ hS]; simp [Int.mul_ediv_cancel _ (ne_of_gt hS)]

/-- `_blocks_to_array2` adds block entry `(ny, nx, y, x)` into array element
    `(ny·Sy + y, nx·Sx + x)` for every in-range tuple, and touches nothing else. -/
theorem b2a2_mem (osh ish : Int → Int) (batch Bx By Sx Sy Nx Ny : Int) (hSx : 0 < Sx) (hSy : 0 < Sy)
    (u : Upd Rat) :
    u ∈ Gen.b2a2 osh ish batch Bx By Sx Sy Nx Ny ↔
      ∃ b ny nx y x, 0 ≤ b ∧ b < batch ∧ 0 ≤ ny ∧ ny < Ny ∧ 0 ≤ nx ∧ nx < Nx ∧
        0 ≤ y ∧ y < By ∧ 0 ≤ x ∧ x < Bx ∧ nx * Sx + x < osh (-1) ∧ ny * Sy + y < osh (-2) ∧
        u = ([b, ny * Sy + y, nx * Sx + x], [b, ny, nx, y, x], 1) := by
  unfold Gen.b2a2
  simp only [List.mem_flatMap, mem_pyRange0']
  constructor
  · rintro ⟨b, ⟨hb0, hb1⟩, iy, ⟨hiy0, hiy1⟩, ix, ⟨hix0, hix1⟩, y, hy, h⟩
    split_ifs at h with hgy
    · simp only [List.mem_flatMap] at h
      obtain ⟨x, hx, h⟩ := h
      split_ifs at h with hgx
      · obtain ⟨y0, y1, ny0, ny1, ey⟩ := (scatter_iff Sy By Ny iy y hSy).mp ⟨hy, hgy.1, hgy.2⟩
        obtain ⟨x0, x1, nx0, nx1, ex⟩ := (scatter_iff Sx Bx Nx ix x hSx).mp ⟨hx, hgx.1, hgx.2⟩
        simp at h
        refine ⟨b, pyDiv (iy - y) Sy, pyDiv (ix - x) Sx, y, x, hb0, hb1, ny0, ny1, nx0, nx1,
          y0, y1, x0, x1, by omega, by omega, ?_⟩
        rw [h, ← ey, ← ex]
      · simp at h
    · simp at h
  · rintro ⟨b, ny, nx, y, x, hb0, hb1, hny0, hny1, hnx0, hnx1, hy0, hy1, hx0, hx1, hg1, hg2, rfl⟩
    have hqy := pyDiv_block ny Sy y hSy
    have hqx := pyDiv_block nx Sx x hSx
    have sy := (scatter_iff Sy By Ny (ny * Sy + y) y hSy).mpr
      ⟨hy0, hy1, by rw [hqy]; exact hny0, by rw [hqy]; exact hny1, by rw [hqy]⟩
    have sx := (scatter_iff Sx Bx Nx (nx * Sx + x) x hSx).mpr
      ⟨hx0, hx1, by rw [hqx]; exact hnx0, by rw [hqx]; exact hnx1, by rw [hqx]⟩
    refine ⟨b, ⟨hb0, hb1⟩, ny * Sy + y, ⟨by positivity, hg2⟩, nx * Sx + x, ⟨by positivity, hg1⟩,
      y, sy.1, ?_⟩
    rw [if_pos ⟨by rw [hqy]; exact hny0, by rw [hqy]; exact hny1⟩]
    simp only [List.mem_flatMap]
    refine ⟨x, sx.1, ?_⟩
    rw [if_pos ⟨by rw [hqx]; exact hnx0, by rw [hqx]; exact hnx1⟩, hqy, hqx]
    simp

/-- `BlocksToArray`'s scatter loop is exactly the transpose of `ArrayToBlocks`' gather loop in 2-D
    (when both see the same array extents). -/
theorem b2a2_transpose_a2b2 (osh ish osh' ish' : Int → Int) (batch Bx By Sx Sy Nx Ny : Int)
    (hSx : 0 < Sx) (hSy : 0 < Sy) (hlen1 : osh (-1) = ish' (-1)) (hlen2 : osh (-2) = ish' (-2))
    (d s : List Int) (w : Rat) :
    (d, s, w) ∈ Gen.b2a2 osh ish batch Bx By Sx Sy Nx Ny ↔
      (s, d, w) ∈ Gen.a2b2 osh' ish' batch Bx By Sx Sy Nx Ny := by
  rw [b2a2_mem _ _ _ _ _ _ _ _ _ hSx hSy, a2b2_mem, hlen1, hlen2]
  constructor <;> rintro ⟨b, ny, nx, y, x, h1, h2, h3, h4, h5, h6, h7, h8, h9, h10, h11, h12, h13⟩ <;>
    refine ⟨b, ny, nx, y, x, h1, h2, h3, h4, h5, h6, h7, h8, h9, h10, h11, h12, ?_⟩ <;>
    simp only [Prod.mk.injEq] at h13 ⊢ <;> tauto

/-! ### 3-D blocks -/

/-- `_array_to_blocks3`: block `(nz, ny, nx, z, y, x)` reads array element
    `(nz·Sz + z, ny·Sy + y, nx·Sx + x)` for every batch, exactly when that element is inside the
    array, and nothing else is written. -/
theorem a2b3_mem (osh ish : Int → Int) (batch Bx By Bz Sx Sy Sz Nx Ny Nz : Int) (u : Upd Rat) :
    u ∈ Gen.a2b3 osh ish batch Bx By Bz Sx Sy Sz Nx Ny Nz ↔
      ∃ b nz ny nx z y x, 0 ≤ b ∧ b < batch ∧ 0 ≤ nz ∧ nz < Nz ∧ 0 ≤ ny ∧ ny < Ny ∧
        0 ≤ nx ∧ nx < Nx ∧ 0 ≤ z ∧ z < Bz ∧ 0 ≤ y ∧ y < By ∧ 0 ≤ x ∧ x < Bx ∧
        nx * Sx + x < ish (-1) ∧ ny * Sy + y < ish (-2) ∧ nz * Sz + z < ish (-3) ∧
        u = ([b, nz, ny, nx, z, y, x], [b, nz * Sz + z, ny * Sy + y, nx * Sx + x], 1) := by
  unfold Gen.a2b3
  simp only [List.mem_flatMap, mem_pyRange0']
  constructor
  · rintro ⟨b, ⟨hb0, hb1⟩, nz, ⟨hnz0, hnz1⟩, ny, ⟨hny0, hny1⟩, nx, ⟨hnx0, hnx1⟩,
      z, ⟨hz0, hz1⟩, y, ⟨hy0, hy1⟩, x, ⟨hx0, hx1⟩, h⟩
    split_ifs at h with hg
    · simp at h
      exact ⟨b, nz, ny, nx, z, y, x, hb0, hb1, hnz0, hnz1, hny0, hny1, hnx0, hnx1,
        hz0, hz1, hy0, hy1, hx0, hx1, hg.1, hg.2.1, hg.2.2, h⟩
    · simp at h
  · rintro ⟨b, nz, ny, nx, z, y, x, hb0, hb1, hnz0, hnz1, hny0, hny1, hnx0, hnx1,
      hz0, hz1, hy0, hy1, hx0, hx1, hg1, hg2, hg3, rfl⟩
    refine ⟨b, ⟨hb0, hb1⟩, nz, ⟨hnz0, hnz1⟩, ny, ⟨hny0, hny1⟩, nx, ⟨hnx0, hnx1⟩,
      z, ⟨hz0, hz1⟩, y, ⟨hy0, hy1⟩, x, ⟨hx0, hx1⟩, ?_⟩
    simp [hg1, hg2, hg3]

/-- `_blocks_to_array3` adds block entry `(nz, ny, nx, z, y, x)` into array element
    `(nz·Sz + z, ny·Sy + y, nx·Sx + x)` for every in-range tuple, and touches nothing else. -/
theorem b2a3_mem (osh ish : Int → Int) (batch Bx By Bz Sx Sy Sz Nx Ny Nz : Int)
    (hSx : 0 < Sx) (hSy : 0 < Sy) (hSz : 0 < Sz) (u : Upd Rat) :
    u ∈ Gen.b2a3 osh ish batch Bx By Bz Sx Sy Sz Nx Ny Nz ↔
      ∃ b nz ny nx z y x, 0 ≤ b ∧ b < batch ∧ 0 ≤ nz ∧ nz < Nz ∧ 0 ≤ ny ∧ ny < Ny ∧
        0 ≤ nx ∧ nx < Nx ∧ 0 ≤ z ∧ z < Bz ∧ 0 ≤ y ∧ y < By ∧ 0 ≤ x ∧ x < Bx ∧
        nx * Sx + x < osh (-1) ∧ ny * Sy + y < osh (-2) ∧ nz * Sz + z < osh (-3) ∧
        u = ([b, nz * Sz + z, ny * Sy + y, nx * Sx + x], [b, nz, ny, nx, z, y, x], 1) := by
  unfold Gen.b2a3
  simp only [List.mem_flatMap, mem_pyRange0']
  constructor
  · rintro ⟨b, ⟨hb0, hb1⟩, iz, ⟨hiz0, hiz1⟩, iy, ⟨hiy0, hiy1⟩, ix, ⟨hix0, hix1⟩,
      z, hz, y, hy, x, hx, h⟩
    split_ifs at h with hg
    · obtain ⟨gx0, gx1, gy0, gy1, gz0, gz1⟩ := hg
      obtain ⟨z0, z1, nz0, nz1, ez⟩ := (scatter_iff Sz Bz Nz iz z hSz).mp ⟨hz, gz0, gz1⟩
      obtain ⟨y0, y1, ny0, ny1, ey⟩ := (scatter_iff Sy By Ny iy y hSy).mp ⟨hy, gy0, gy1⟩
      obtain ⟨x0, x1, nx0, nx1, ex⟩ := (scatter_iff Sx Bx Nx ix x hSx).mp ⟨hx, gx0, gx1⟩
      simp at h
      refine ⟨b, pyDiv (iz - z) Sz, pyDiv (iy - y) Sy, pyDiv (ix - x) Sx, z, y, x, hb0, hb1,
        nz0, nz1, ny0, ny1, nx0, nx1, z0, z1, y0, y1, x0, x1, by omega, by omega, by omega, ?_⟩
      rw [h, ← ez, ← ey, ← ex]
    · simp at h
  · rintro ⟨b, nz, ny, nx, z, y, x, hb0, hb1, hnz0, hnz1, hny0, hny1, hnx0, hnx1,
      hz0, hz1, hy0, hy1, hx0, hx1, hg1, hg2, hg3, rfl⟩
    have hqz := pyDiv_block nz Sz z hSz
    have hqy := pyDiv_block ny Sy y hSy
    have hqx := pyDiv_block nx Sx x hSx
    have sz := (scatter_iff Sz Bz Nz (nz * Sz + z) z hSz).mpr
      ⟨hz0, hz1, by rw [hqz]; exact hnz0, by rw [hqz]; exact hnz1, by rw [hqz]⟩
    have sy := (scatter_iff Sy By Ny (ny * Sy + y) y hSy).mpr
      ⟨hy0, hy1, by rw [hqy]; exact hny0, by rw [hqy]; exact hny1, by rw [hqy]⟩
    have sx := (scatter_iff Sx Bx Nx (nx * Sx + x) x hSx).mpr
      ⟨hx0, hx1, by rw [hqx]; exact hnx0, by rw [hqx]; exact hnx1, by rw [hqx]⟩
    refine ⟨b, ⟨hb0, hb1⟩, nz * Sz + z, ⟨by positivity, hg3⟩, ny * Sy + y, ⟨by positivity, hg2⟩,
      nx * Sx + x, ⟨by positivity, hg1⟩, z, sz.1, y, sy.1, x, sx.1, ?_⟩
    rw [hqz, hqy, hqx, if_pos ⟨hnx0, hnx1, hny0, hny1, hnz0, hnz1⟩]
    simp

/-- `BlocksToArray`'s scatter loop is exactly the transpose of `ArrayToBlocks`' gather loop in 3-D
    (when both see the same array extents). -/
theorem b2a3_transpose_a2b3 (osh ish osh' ish' : Int → Int)
    (batch Bx By Bz Sx Sy Sz Nx Ny Nz : Int) (hSx : 0 < Sx) (hSy : 0 < Sy) (hSz : 0 < Sz)
    (hlen1 : osh (-1) = ish' (-1)) (hlen2 : osh (-2) = ish' (-2)) (hlen3 : osh (-3) = ish' (-3))
    (d s : List Int) (w : Rat) :
    (d, s, w) ∈ Gen.b2a3 osh ish batch Bx By Bz Sx Sy Sz Nx Ny Nz ↔
      (s, d, w) ∈ Gen.a2b3 osh' ish' batch Bx By Bz Sx Sy Sz Nx Ny Nz := by
  rw [b2a3_mem _ _ _ _ _ _ _ _ _ _ _ _ hSx hSy hSz, a2b3_mem, hlen1, hlen2, hlen3]
  constructor <;>
    rintro ⟨b, nz, ny, nx, z, y, x, h1, h2, h3, h4, h5, h6, h7, h8, h9, h10, h11, h12, h13, h14,
      h15, h16, h17, h18⟩ <;>
    refine ⟨b, nz, ny, nx, z, y, x, h1, h2, h3, h4, h5, h6, h7, h8, h9, h10, h11, h12, h13, h14,
      h15, h16, h17, ?_⟩ <;>
    simp only [Prod.mk.injEq] at h18 ⊢ <;> tauto

/-! ### multiplicities: the loop nests never emit the same triple twice -/

/-- a Python `range(a, b, s)` never repeats a value -/
theorem pyRange_nodup (a b s : Int) : (pyRange a b s).Nodup := by
  unfold pyRange
  split_ifs with hs
  · exact List.nodup_nil
  · refine List.Nodup.map ?_ List.nodup_range
    intro k₁ k₂ h
    have h' : (k₁ : Int) * s = (k₂ : Int) * s := by simpa using h
    have : (k₁ : Int) = (k₂ : Int) := Int.eq_of_mul_eq_mul_right (by omega) h'
    exact_mod_cast this

/-- a loop whose body records its own loop variable (recoverable by `key`) emits no duplicates as
    soon as each single iteration emits none -/
theorem nodup_flatMap_key {α β : Type} {l : List α} {f : α → List β} (key : β → α)
    (hl : l.Nodup) (hf : ∀ x, (f x).Nodup) (hkey : ∀ x, ∀ y ∈ f x, key y = x) :
    (l.flatMap f).Nodup := by
  rw [List.nodup_flatMap]
  refine ⟨fun x _ => hf x, hl.pairwise_of_forall_ne ?_⟩
  intro a _ b _ hab
  show List.Disjoint (f a) (f b)
  rw [List.disjoint_left]
  intro y hya hyb
  exact hab ((hkey a y hya).symm.trans (hkey b y hyb))

/-- the swap of output and input index is injective -/
theorem swap_injective :
    Function.Injective (fun u : Upd Rat => ((u.2.1, u.1, u.2.2) : Upd Rat)) := by
  rintro ⟨a, b, c⟩ ⟨a', b', c'⟩ h
  simp only [Prod.mk.injEq] at h ⊢
  tauto

/-- two duplicate-free update lists that are transposed as relations are transposed as multisets:
    one is a permutation of the index-swapped other -/
theorem perm_swap_of_transpose {L₁ L₂ : List (Upd Rat)} (h₁ : L₁.Nodup) (h₂ : L₂.Nodup)
    (h : ∀ d s w, (d, s, w) ∈ L₁ ↔ (s, d, w) ∈ L₂) :
    L₁.Perm (L₂.map (fun u => (u.2.1, u.1, u.2.2))) := by
  rw [List.perm_ext_iff_of_nodup h₁ (h₂.map swap_injective)]
  rintro ⟨d, s, w⟩
  rw [h, List.mem_map]
  constructor
  · intro hm; exact ⟨(s, d, w), hm, rfl⟩
  · rintro ⟨⟨s', d', w'⟩, hm, he⟩
    simp only [Prod.mk.injEq] at he
    obtain ⟨rfl, rfl, rfl⟩ := he
    exact hm

/-- proves `∀ x, ∀ y ∈ body x, key y = x` for a loop-nest body ending in a guarded singleton -/
macro "key_tac" : tactic => `(tactic| (
  simp only [List.mem_flatMap, List.mem_ite_nil_right, List.mem_singleton, forall_exists_index,
    and_imp]
  intros
  subst_vars
  rfl))

/-- innermost guarded singleton has no duplicates -/
macro "leaf_tac" : tactic => `(tactic| ((try dsimp only); split_ifs <;> simp))

/-- `_array_to_blocks1` writes every block entry at most once. -/
theorem a2b1_nodup (osh ish : Int → Int) (batch B S N : Int) :
    (Gen.a2b1 osh ish batch B S N).Nodup := by
  unfold Gen.a2b1
  refine nodup_flatMap_key (fun u => u.1.getD 0 0) (pyRange_nodup _ _ _) (fun b => ?_) (by key_tac)
  refine nodup_flatMap_key (fun u => u.1.getD 1 0) (pyRange_nodup _ _ _) (fun n => ?_) (by key_tac)
  refine nodup_flatMap_key (fun u => u.1.getD 2 0) (pyRange_nodup _ _ _) (fun x => ?_) (by key_tac)
  leaf_tac

/-- `_blocks_to_array1` accumulates every (array index, block entry) pair at most once. -/
theorem b2a1_nodup (osh ish : Int → Int) (batch B S N : Int) :
    (Gen.b2a1 osh ish batch B S N).Nodup := by
  unfold Gen.b2a1
  refine nodup_flatMap_key (fun u => u.1.getD 0 0) (pyRange_nodup _ _ _) (fun b => ?_) (by key_tac)
  refine nodup_flatMap_key (fun u => u.1.getD 1 0) (pyRange_nodup _ _ _) (fun ix => ?_) (by key_tac)
  refine nodup_flatMap_key (fun u => u.2.1.getD 2 0) (pyRange_nodup _ _ _) (fun x => ?_) (by key_tac)
  leaf_tac

/-- As multisets of (output index, input index, weight) triples, `_blocks_to_array1` is exactly
    the index-swapped `_array_to_blocks1`: BlocksToArray is the transpose of ArrayToBlocks with
    the right multiplicities (each overlap is accumulated exactly once). -/
theorem b2a1_perm_swap_a2b1 (osh ish osh' ish' : Int → Int) (batch B S N : Int) (hS : 0 < S)
    (hlen : osh (-1) = ish' (-1)) :
    (Gen.b2a1 osh ish batch B S N).Perm
      ((Gen.a2b1 osh' ish' batch B S N).map (fun u => (u.2.1, u.1, u.2.2))) :=
  perm_swap_of_transpose (b2a1_nodup _ _ _ _ _ _) (a2b1_nodup _ _ _ _ _ _)
    (C09.b2a1_transpose_a2b1 osh ish osh' ish' batch B S N hS hlen)

/-- `_array_to_blocks2` writes every block entry at most once. -/
theorem a2b2_nodup (osh ish : Int → Int) (batch Bx By Sx Sy Nx Ny : Int) :
    (Gen.a2b2 osh ish batch Bx By Sx Sy Nx Ny).Nodup := by
  unfold Gen.a2b2
  refine nodup_flatMap_key (fun u => u.1.getD 0 0) (pyRange_nodup _ _ _) (fun b => ?_) (by key_tac)
  refine nodup_flatMap_key (fun u => u.1.getD 1 0) (pyRange_nodup _ _ _) (fun ny => ?_) (by key_tac)
  refine nodup_flatMap_key (fun u => u.1.getD 2 0) (pyRange_nodup _ _ _) (fun nx => ?_) (by key_tac)
  refine nodup_flatMap_key (fun u => u.1.getD 3 0) (pyRange_nodup _ _ _) (fun y => ?_) (by key_tac)
  refine nodup_flatMap_key (fun u => u.1.getD 4 0) (pyRange_nodup _ _ _) (fun x => ?_) (by key_tac)
  leaf_tac

/-- `_blocks_to_array2` accumulates every (array element, block entry) pair at most once. -/
theorem b2a2_nodup (osh ish : Int → Int) (batch Bx By Sx Sy Nx Ny : Int) :
    (Gen.b2a2 osh ish batch Bx By Sx Sy Nx Ny).Nodup := by
  unfold Gen.b2a2
  refine nodup_flatMap_key (fun u => u.1.getD 0 0) (pyRange_nodup _ _ _) (fun b => ?_) (by key_tac)
  refine nodup_flatMap_key (fun u => u.1.getD 1 0) (pyRange_nodup _ _ _) (fun iy => ?_) (by key_tac)
  refine nodup_flatMap_key (fun u => u.1.getD 2 0) (pyRange_nodup _ _ _) (fun ix => ?_) (by key_tac)
  refine nodup_flatMap_key (fun u => u.2.1.getD 3 0) (pyRange_nodup _ _ _) (fun y => ?_) (by key_tac)
  dsimp only
  split_ifs
  · refine nodup_flatMap_key (fun u => u.2.1.getD 4 0) (pyRange_nodup _ _ _) (fun x => ?_)
      (by key_tac)
    leaf_tac
  · exact List.nodup_nil

/-- As multisets of (output index, input index, weight) triples, `_blocks_to_array2` is exactly
    the index-swapped `_array_to_blocks2`: BlocksToArray is the transpose of ArrayToBlocks in 2-D
    with the right multiplicities. -/
theorem b2a2_perm_swap_a2b2 (osh ish osh' ish' : Int → Int) (batch Bx By Sx Sy Nx Ny : Int)
    (hSx : 0 < Sx) (hSy : 0 < Sy) (hlen1 : osh (-1) = ish' (-1)) (hlen2 : osh (-2) = ish' (-2)) :
    (Gen.b2a2 osh ish batch Bx By Sx Sy Nx Ny).Perm
      ((Gen.a2b2 osh' ish' batch Bx By Sx Sy Nx Ny).map (fun u => (u.2.1, u.1, u.2.2))) :=
  perm_swap_of_transpose (b2a2_nodup _ _ _ _ _ _ _ _ _) (a2b2_nodup _ _ _ _ _ _ _ _ _)
    (b2a2_transpose_a2b2 osh ish osh' ish' batch Bx By Sx Sy Nx Ny hSx hSy hlen1 hlen2)

/-- `_array_to_blocks3` writes every block entry at most once. -/
theorem a2b3_nodup (osh ish : Int → Int) (batch Bx By Bz Sx Sy Sz Nx Ny Nz : Int) :
    (Gen.a2b3 osh ish batch Bx By Bz Sx Sy Sz Nx Ny Nz).Nodup := by
  unfold Gen.a2b3
  refine nodup_flatMap_key (fun u => u.1.getD 0 0) (pyRange_nodup _ _ _) (fun b => ?_) (by key_tac)
  refine nodup_flatMap_key (fun u => u.1.getD 1 0) (pyRange_nodup _ _ _) (fun nz => ?_) (by key_tac)
  refine nodup_flatMap_key (fun u => u.1.getD 2 0) (pyRange_nodup _ _ _) (fun ny => ?_) (by key_tac)
  refine nodup_flatMap_key (fun u => u.1.getD 3 0) (pyRange_nodup _ _ _) (fun nx => ?_) (by key_tac)
  refine nodup_flatMap_key (fun u => u.1.getD 4 0) (pyRange_nodup _ _ _) (fun z => ?_) (by key_tac)
  refine nodup_flatMap_key (fun u => u.1.getD 5 0) (pyRange_nodup _ _ _) (fun y => ?_) (by key_tac)
  refine nodup_flatMap_key (fun u => u.1.getD 6 0) (pyRange_nodup _ _ _) (fun x => ?_) (by key_tac)
  leaf_tac

/-- `_blocks_to_array3` accumulates every (array element, block entry) pair at most once. -/
theorem b2a3_nodup (osh ish : Int → Int) (batch Bx By Bz Sx Sy Sz Nx Ny Nz : Int) :
    (Gen.b2a3 osh ish batch Bx By Bz Sx Sy Sz Nx Ny Nz).Nodup := by
  unfold Gen.b2a3
  refine nodup_flatMap_key (fun u => u.1.getD 0 0) (pyRange_nodup _ _ _) (fun b => ?_) (by key_tac)
  refine nodup_flatMap_key (fun u => u.1.getD 1 0) (pyRange_nodup _ _ _) (fun iz => ?_) (by key_tac)
  refine nodup_flatMap_key (fun u => u.1.getD 2 0) (pyRange_nodup _ _ _) (fun iy => ?_) (by key_tac)
  refine nodup_flatMap_key (fun u => u.1.getD 3 0) (pyRange_nodup _ _ _) (fun ix => ?_) (by key_tac)
  refine nodup_flatMap_key (fun u => u.2.1.getD 4 0) (pyRange_nodup _ _ _) (fun z => ?_) (by key_tac)
  refine nodup_flatMap_key (fun u => u.2.1.getD 5 0) (pyRange_nodup _ _ _) (fun y => ?_) (by key_tac)
  refine nodup_flatMap_key (fun u => u.2.1.getD 6 0) (pyRange_nodup _ _ _) (fun x => ?_) (by key_tac)
  leaf_tac

/-- As multisets of (output index, input index, weight) triples, `_blocks_to_array3` is exactly
    the index-swapped `_array_to_blocks3`: BlocksToArray is the transpose of ArrayToBlocks in 3-D
    with the right multiplicities. -/
theorem b2a3_perm_swap_a2b3 (osh ish osh' ish' : Int → Int)
    (batch Bx By Bz Sx Sy Sz Nx Ny Nz : Int) (hSx : 0 < Sx) (hSy : 0 < Sy) (hSz : 0 < Sz)
    (hlen1 : osh (-1) = ish' (-1)) (hlen2 : osh (-2) = ish' (-2)) (hlen3 : osh (-3) = ish' (-3)) :
    (Gen.b2a3 osh ish batch Bx By Bz Sx Sy Sz Nx Ny Nz).Perm
      ((Gen.a2b3 osh' ish' batch Bx By Bz Sx Sy Sz Nx Ny Nz).map (fun u => (u.2.1, u.1, u.2.2))) :=
  perm_swap_of_transpose (b2a3_nodup _ _ _ _ _ _ _ _ _ _ _ _) (a2b3_nodup _ _ _ _ _ _ _ _ _ _ _ _)
    (b2a3_transpose_a2b3 osh ish osh' ish' batch Bx By Bz Sx Sy Sz Nx Ny Nz hSx hSy hSz
      hlen1 hlen2 hlen3)

/-! ### non-vacuity: concrete members of the generated lists -/

/-- 4×4 array, 2×2 blocks, stride 2: block (1,1) entry (0,1) reads array element (2,3). -/
example : (([0, 1, 1, 0, 1], [0, 2, 3], (1 : Rat)) : Upd Rat) ∈
    Gen.a2b2 (shapeFn [1, 2, 2, 2, 2]) (shapeFn [1, 4, 4]) 1 2 2 2 2 2 2 := by decide

/-- and the scatter loop visits the swapped triple. -/
example : (([0, 2, 3], [0, 1, 1, 0, 1], (1 : Rat)) : Upd Rat) ∈
    Gen.b2a2 (shapeFn [1, 4, 4]) (shapeFn [1, 2, 2, 2, 2]) 1 2 2 2 2 2 2 := by decide

/-- overlapping 1-D blocks (length 5, block 3, stride 1): array index 2 receives three block
    entries, so the `+=` in `_blocks_to_array1` matters. -/
example : ((Gen.b2a1 (shapeFn [1, 5]) (shapeFn [1, 3, 3]) 1 3 1 3).filter
    (fun u => u.1 == [0, 2])).length = 3 := by decide

/-- 1-D gridding with a constant kernel, one point at coordinate 0, width 2, 4 grid cells: three
    entries are emitted and the left neighbour wraps around to cell 3 (the swap theorem is not about
    empty lists).  `+kernel` only because `Rat.ceil/floor` do not unfold in the elaborator. -/
example : Gen.grid1 (fun _ _ => 1) (shapeFn [1, 4]) (shapeFn [1, 1]) (shapeFn [1, 1])
    (fun _ _ => 0) (fun _ => 2) (fun _ => 0) =
      [([0, 3], [0, 0], 1), ([0, 0], [0, 0], 1), ([0, 1], [0, 0], 1)] := by decide +kernel

end SigpyVerif.C01
