import SigpyVerif.Model.C07
import SigpyVerif.Lemmas.C09
import Mathlib.Tactic.Ring
import Mathlib.Tactic.Linarith
/-
  Facts about the Python list semantics of `Model/C07Py.lean` (negative indices and slice bounds,
  list repetition, reshape) in the forms the generated wrappers `Gen.interpolateW` / `Gen.griddingW` use.
-/
namespace SigpyVerif.C07
open SigpyVerif

variable {α : Type}

/-- `(l ++ [a])[-1] = a` -/
theorem pyGet?_append_last (l : List α) (a : α) : pyGet? (l ++ [a]) (-(1 : Int)) = some a := by
  unfold pyGet? pyNorm
  simp only [List.length_append, List.length_singleton]
  have h1 : (-(1 : Int)) < 0 := by omega
  simp only [h1, if_true]
  have h2 : (0 : Int) ≤ -1 + ((l.length + 1 : Nat) : Int) ∧ -1 + ((l.length + 1 : Nat) : Int) < ((l.length + 1 : Nat) : Int) := by
    constructor <;> omega
  rw [if_pos h2]
  have h3 : (-1 + ((l.length + 1 : Nat) : Int)).toNat = l.length := by omega
  rw [h3]
  simp

theorem pyClamp_neg (n k : Nat) (hk : 0 < k) (hkn : k ≤ n) : pyClamp n (-(k : Int)) = n - k := by
  unfold pyClamp pyNorm
  have h1 : (-(k : Int)) < 0 := by omega
  simp only [h1, if_true]
  rw [if_neg (by omega), if_neg (by omega)]
  omega

/-- `(a ++ b)[:-len(b)] = a` for non-empty `b` (for empty `b` Python gives `[]`: `l[:-0] = l[:0]`) -/
theorem pySliceTo_append_neg (a b : List α) (hb : 0 < b.length) :
    pySliceTo (a ++ b) (-(b.length : Int)) = a := by
  unfold pySliceTo
  rw [pyClamp_neg _ _ hb (by simp)]
  simp

/-- `(a ++ b)[-len(b):] = b` for non-empty `b` -/
theorem pySliceFrom_append_neg (a b : List α) (hb : 0 < b.length) :
    pySliceFrom (a ++ b) (-(b.length : Int)) = b := by
  unfold pySliceFrom
  rw [pyClamp_neg _ _ hb (by simp)]
  simp

/-- `(l ++ [a])[:-1] = l` -/
theorem pySliceTo_append_last (l : List α) (a : α) : pySliceTo (l ++ [a]) (-(1 : Int)) = l := by
  have := pySliceTo_append_neg l [a] (by simp)
  simpa using this

/-- `[v] * n` is `n` copies of `v` -/
theorem pyRepeat_singleton (v : α) (n : Nat) : pyRepeat [v] (n : Int) = List.replicate n v := by
  unfold pyRepeat
  simp only [Int.toNat_natCast]
  induction n with
  | zero => rfl
  | succ n ih => rw [List.replicate_succ, List.flatten_cons, ih, List.replicate_succ]; rfl

theorem pyRepeat_singleton' (v : α) (n : Int) : pyRepeat [v] n = List.replicate n.toNat v := by
  have := pyRepeat_singleton v n.toNat
  unfold pyRepeat at *
  simp at this ⊢

/-- the `np.isscalar` branches of the generated wrappers against the specification `Bc.toList` -/
theorem bcast_spec (p : Bc) (n : Nat) :
    (match p with | .scalar v => pyRepeat [v] (n : Int) | .perAxis l => l) = p.toList n := by
  cases p with
  | scalar v => exact pyRepeat_singleton v n
  | perAxis l => rfl

theorem pyReshape_ok (old new : List Int) (h : shapeProd old = shapeProd new) (hn : ∀ n ∈ new, 0 ≤ n) :
    pyReshape old new = some new := by
  unfold pyReshape
  rw [if_pos]
  refine ⟨h, ?_⟩
  simpa using hn

end SigpyVerif.C07
