import SigpyVerif.Model.Py
import Mathlib.Tactic.Ring
import Mathlib.Tactic.Linarith
import Mathlib.Algebra.Order.Ring.Int

namespace SigpyVerif

theorem pyDiv_of_pos (a : Int) {b : Int} (h : 0 < b) : pyDiv a b = a / b :=
  Int.fdiv_eq_ediv_of_nonneg a (Int.le_of_lt h)

theorem pyMod_of_pos (a : Int) {b : Int} (h : 0 < b) : pyMod a b = a % b := by
  unfold pyMod; exact Int.fmod_eq_emod_of_nonneg a (Int.le_of_lt h)

/-- membership in a Python range with positive step -/
theorem mem_pyRange {a b s x : Int} (hs : 0 < s) :
    x ∈ pyRange a b s ↔ a ≤ x ∧ x < b ∧ (x - a) % s = 0 := by
  unfold pyRange
  rw [if_neg (by omega)]
  simp only [List.mem_map, List.mem_range]
  constructor
  · rintro ⟨k, hk, rfl⟩
    have hk' : (k : Int) < (b - a + s - 1) / s := by
      have : (k : Int) < (((b - a + s - 1) / s).toNat : Int) := by exact_mod_cast hk
      have h0 : 0 ≤ (b - a + s - 1) / s ∨ (b - a + s - 1) / s < 0 := by omega
      rcases h0 with h0 | h0
      · rwa [Int.toNat_of_nonneg h0] at this
      · rw [Int.toNat_of_nonpos (le_of_lt h0)] at this; omega
    have h1 : ((k : Int) + 1) * s ≤ b - a + s - 1 := by
      have := Int.le_ediv_iff_mul_le (c := s) (a := (k : Int) + 1) (b := b - a + s - 1) hs
      exact this.mp (by omega)
    have hk0 : (0 : Int) ≤ k := Int.natCast_nonneg k
    refine ⟨by nlinarith, by nlinarith, ?_⟩
    simp
  · rintro ⟨h1, h2, h3⟩
    have hd : s ∣ (x - a) := Int.dvd_of_emod_eq_zero h3
    obtain ⟨q, hq⟩ := hd
    have hq0 : 0 ≤ q := by
      by_contra hneg
      have : q ≤ -1 := by omega
      have : s * q ≤ s * (-1) := by nlinarith
      omega
    refine ⟨q.toNat, ?_, ?_⟩
    · have : q < (b - a + s - 1) / s := by
        have := Int.le_ediv_iff_mul_le (c := s) (a := q + 1) (b := b - a + s - 1) hs
        have h4 : (q + 1) * s ≤ b - a + s - 1 := by nlinarith
        have := this.mpr h4
        omega
      omega
    · rw [Int.toNat_of_nonneg hq0]; linarith [hq, mul_comm s q]

theorem mem_pyRange0 {n x : Int} : x ∈ pyRange0 n ↔ 0 ≤ x ∧ x < n := by
  unfold pyRange0
  rw [mem_pyRange (by omega)]
  simp

end SigpyVerif

namespace SigpyVerif
/-- the form the translator emits for `range(n)` -/
theorem mem_pyRange0' {n x : Int} : x ∈ pyRange (0 : Int) n (1 : Int) ↔ 0 ≤ x ∧ x < n := by
  rw [mem_pyRange (by omega)]; simp
end SigpyVerif

namespace SigpyVerif
/-- The scatter loop `for bx in range(ix % S, B, S): nx = (ix - bx) // S; if 0 ≤ nx < N` visits exactly
    the (block, offset) pairs with `nx·S + bx = ix`. -/
theorem scatter_iff (S B N ix bx : Int) (hS : 0 < S) :
    (bx ∈ pyRange (pyMod ix S) B S ∧ 0 ≤ pyDiv (ix - bx) S ∧ pyDiv (ix - bx) S < N) ↔
      (0 ≤ bx ∧ bx < B ∧ 0 ≤ pyDiv (ix - bx) S ∧ pyDiv (ix - bx) S < N ∧ ix = pyDiv (ix - bx) S * S + bx) := by
  rw [mem_pyRange hS, pyMod_of_pos _ hS, pyDiv_of_pos _ hS]
  have hr0 : 0 ≤ ix % S := Int.emod_nonneg _ (by omega)
  constructor
  · rintro ⟨⟨h1, h2, h3⟩, h4, h5⟩
    have hd : S ∣ ix - bx := by
      have : S ∣ bx - ix % S := Int.dvd_of_emod_eq_zero h3
      have h6 : S ∣ ix - ix % S := Int.dvd_self_sub_emod
      have : ix - bx = (ix - ix % S) - (bx - ix % S) := by ring
      rw [this]; exact Int.dvd_sub h6 ‹_›
    refine ⟨by omega, h2, h4, h5, ?_⟩
    have := Int.ediv_mul_cancel hd
    linarith
  · rintro ⟨h0, h2, h4, h5, h6⟩
    refine ⟨⟨?_, h2, ?_⟩, h4, h5⟩
    · have : ix % S = bx % S := by
        conv_lhs => rw [h6]
        simp [Int.add_emod]  
      rw [this]
      have h9 := Int.emod_add_mul_ediv bx S
      have h10 : 0 ≤ bx / S := Int.ediv_nonneg h0 (by omega)
      nlinarith
    · have : bx - ix % S = (bx - ix) + (ix - ix % S) := by ring
      have h7 : S ∣ ix - ix % S := Int.dvd_self_sub_emod
      have h8 : S ∣ bx - ix := ⟨-((ix - bx) / S), by linarith⟩
      exact Int.emod_eq_zero_of_dvd (this ▸ Int.dvd_add h8 h7)
end SigpyVerif
