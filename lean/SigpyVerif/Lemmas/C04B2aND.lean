import SigpyVerif.Lemmas.C04CoverND
import SigpyVerif.Lemmas.C04CoverIff
/-
  C04 — `BlocksToArray.N = A Aᴴ` on block arrays in 2-D and 3-D (the generated loop nests `Gen.a2b2 / b2a2 /
  a2b3 / b2a3`): the identity iff on EVERY block axis the blocks do not overlap (`B ≤ S`) or there is a single
  block (`b2a2_normal_identity_iff`, `b2a3_normal_identity_iff`), extending the 1-D `b2a_normal_identity_iff`.
  The core is per axis: under `B ≤ S ∨ N ≤ 1` the scatter loop of one axis visits exactly one (block, offset)
  pair for each target (`scatter_sum_unique`); with an all-ones block array it counts the cover (`scatter_sum_const`).
-/
namespace SigpyVerif.C04
open SigpyVerif SigpyVerif.C01

/-- one axis, no overlap or one block: the scatter loop over the offsets `bx` that can reach the target
    `n·S + x` of block entry `(n, x)` finds that entry and nothing else -/
theorem scatter_sum_unique (B S N : Int) (hS : 0 < S) (h : B ≤ S ∨ N ≤ 1) (n x : Int) (hn : 0 ≤ n ∧ n < N)
    (hx : 0 ≤ x ∧ x < B) (f : Int → Int → Rat) :
    ((pyRange (pyMod (n * S + x) S) B S).map fun bx =>
        if (0 ≤ pyDiv (n * S + x - bx) S ∧ pyDiv (n * S + x - bx) S < N) then f (pyDiv (n * S + x - bx) S) bx
        else 0).sum = f n x := by
  have hle := (cover_le_one_iff B S N hS).mpr h (n * S + x)
  rw [coverPairs_eq_length] at hle
  have hq : pyDiv (n * S + x - x) S = n := pyDiv_block' n S x hS
  have hxm : x ∈ coverList B S N (n * S + x) := mem_coverList.mpr ⟨n, hn.1, hn.2, hx.1, hx.2, rfl⟩
  have hxv := (scatter_iff S B N (n * S + x) x hS).mpr
    ⟨hx.1, hx.2, by rw [hq]; exact hn.1, by rw [hq]; exact hn.2, by rw [hq]⟩
  have e1 : ((pyRange (pyMod (n * S + x) S) B S).map fun bx =>
        if (0 ≤ pyDiv (n * S + x - bx) S ∧ pyDiv (n * S + x - bx) S < N) then f (pyDiv (n * S + x - bx) S) bx
        else 0)
      = (pyRange (pyMod (n * S + x) S) B S).map fun bx => if bx = x then (fun _ => f n x) bx else 0 := by
    apply List.map_congr_left
    intro bx hbx
    by_cases hv : 0 ≤ pyDiv (n * S + x - bx) S ∧ pyDiv (n * S + x - bx) S < N
    · obtain ⟨v1, v2, v3, v4, v5⟩ := (scatter_iff S B N (n * S + x) bx hS).mp ⟨hbx, hv.1, hv.2⟩
      have hbm : bx ∈ coverList B S N (n * S + x) :=
        mem_coverList.mpr ⟨pyDiv (n * S + x - bx) S, v3, v4, v1, v2, v5.symm⟩
      have : bx = x := eq_of_length_le_one _ hle bx x hbm hxm
      subst this
      rw [if_pos hv, if_pos rfl, hq]
    · have hne : bx ≠ x := by
        rintro rfl
        exact hv ⟨hxv.2.1, hxv.2.2⟩
      rw [if_neg hv, if_neg hne]
  rw [e1, sum_map_ite_pyRange, if_pos hxv.1]

/-- one axis, constant summand: the scatter loop counts the (block, offset) pairs landing on `i` -/
theorem scatter_sum_const (B S N i : Int) (c : Rat) :
    ((pyRange (pyMod i S) B S).map fun bx =>
        if (0 ≤ pyDiv (i - bx) S ∧ pyDiv (i - bx) S < N) then c else 0).sum = (coverScatter B S N i : Rat) * c := by
  unfold coverScatter
  exact sum_map_ite_const _ _ _

theorem cover_origin_pos (B S N : Int) (hB : 0 < B) (hN : 0 < N) : 1 ≤ coverPairs B S N 0 := by
  have := (cover_pos_iff B S N 0).mpr ⟨0, 0, le_refl _, hN, le_refl _, hB, by ring⟩
  omega

theorem nat_cast_mul_eq_one {a b : Nat} (h : ((a : Rat) * (b : Rat)) = 1) : a = 1 ∧ b = 1 := by
  have : a * b = 1 := by exact_mod_cast h
  exact nat_mul_eq_one this

/-! ### 2-D -/

/-- `BlocksToArray.N` in 2-D as a function: `A (Aᴴ y)` at block entry `(b, ny, nx, y', x')` sums the block entries
    that share its array target `(ny·Sy + y', nx·Sx + x')` -/
theorem a2b2_b2a2_apply (osh ish osh' ish' : Int → Int) (batch Bx By Sx Sy Nx Ny : Int) (hSx : 0 < Sx) (hSy : 0 < Sy)
    (hlen1 : osh (-1) = ish' (-1)) (hlen2 : osh (-2) = ish' (-2)) (y : List Int → Rat) (b ny nx y' x' : Int)
    (hb : 0 ≤ b ∧ b < batch) (hny : 0 ≤ ny ∧ ny < Ny) (hnx : 0 ≤ nx ∧ nx < Nx) (hy : 0 ≤ y' ∧ y' < By)
    (hx : 0 ≤ x' ∧ x' < Bx) (hfy : ny * Sy + y' < osh (-2)) (hfx : nx * Sx + x' < osh (-1)) :
    applyF (Gen.a2b2 osh' ish' batch Bx By Sx Sy Nx Ny) (applyF (Gen.b2a2 osh ish batch Bx By Sx Sy Nx Ny) y)
        [b, ny, nx, y', x']
      = ((pyRange (pyMod (ny * Sy + y') Sy) By Sy).map fun by' =>
          if (0 ≤ pyDiv (ny * Sy + y' - by') Sy ∧ pyDiv (ny * Sy + y' - by') Sy < Ny) then
            ((pyRange (pyMod (nx * Sx + x') Sx) Bx Sx).map fun bx =>
              if (0 ≤ pyDiv (nx * Sx + x' - bx) Sx ∧ pyDiv (nx * Sx + x' - bx) Sx < Nx) then
                y [b, pyDiv (ny * Sy + y' - by') Sy, pyDiv (nx * Sx + x' - bx) Sx, by', bx] else 0).sum
          else 0).sum := by
  have h0y : 0 ≤ ny * Sy + y' := add_nonneg (mul_nonneg hny.1 (le_of_lt hSy)) hy.1
  have h0x : 0 ≤ nx * Sx + x' := add_nonneg (mul_nonneg hnx.1 (le_of_lt hSx)) hx.1
  rw [a2b2_apply, if_pos hb, if_pos hny, if_pos hnx, if_pos hy, if_pos hx,
    if_pos ⟨hlen1 ▸ hfx, hlen2 ▸ hfy⟩, b2a2_apply, if_pos hb, if_pos ⟨h0y, hfy⟩, if_pos ⟨h0x, hfx⟩]

/-- **`BlocksToArray.N` in 2-D is the identity iff on both block axes the blocks do not overlap or there is a
    single block.**  For the generated 2-D loop nests with at least one block of positive size per axis, all
    blocks fitting into the array (what `num_blks` guarantees): `A (Aᴴ y) = y` for every block array `y`
    ⇔ `(By ≤ Sy ∨ Ny ≤ 1) ∧ (Bx ≤ Sx ∨ Nx ≤ 1)`. -/
theorem b2a2_normal_identity_iff (osh ish osh' ish' : Int → Int) (batch Bx By Sx Sy Nx Ny : Int)
    (hSx : 0 < Sx) (hSy : 0 < Sy) (hBx : 0 < Bx) (hBy : 0 < By) (hNx : 0 < Nx) (hNy : 0 < Ny) (hbatch : 0 < batch)
    (hlen1 : osh (-1) = ish' (-1)) (hlen2 : osh (-2) = ish' (-2))
    (hfitx : ∀ n, 0 ≤ n → n < Nx → n * Sx + Bx ≤ osh (-1)) (hfity : ∀ n, 0 ≤ n → n < Ny → n * Sy + By ≤ osh (-2)) :
    (∀ (y : List Int → Rat) (b ny nx y' x' : Int), 0 ≤ b ∧ b < batch → 0 ≤ ny ∧ ny < Ny → 0 ≤ nx ∧ nx < Nx →
      0 ≤ y' ∧ y' < By → 0 ≤ x' ∧ x' < Bx →
      applyF (Gen.a2b2 osh' ish' batch Bx By Sx Sy Nx Ny) (applyF (Gen.b2a2 osh ish batch Bx By Sx Sy Nx Ny) y)
          [b, ny, nx, y', x'] = y [b, ny, nx, y', x']) ↔ (By ≤ Sy ∨ Ny ≤ 1) ∧ (Bx ≤ Sx ∨ Nx ≤ 1) := by
  constructor
  · intro h
    -- all-ones block array: the value at a block entry is cover_y · cover_x of its target
    have key : ∀ ny nx y' x', 0 ≤ ny ∧ ny < Ny → 0 ≤ nx ∧ nx < Nx → 0 ≤ y' ∧ y' < By → 0 ≤ x' ∧ x' < Bx →
        coverPairs By Sy Ny (ny * Sy + y') = 1 ∧ coverPairs Bx Sx Nx (nx * Sx + x') = 1 := by
      intro ny nx y' x' hny hnx hy hx
      have h1 := h (fun _ => 1) 0 ny nx y' x' ⟨le_refl _, hbatch⟩ hny hnx hy hx
      have fy := hfity ny hny.1 hny.2
      have fx := hfitx nx hnx.1 hnx.2
      rw [a2b2_b2a2_apply osh ish osh' ish' batch Bx By Sx Sy Nx Ny hSx hSy hlen1 hlen2 _ 0 ny nx y' x'
        ⟨le_refl _, hbatch⟩ hny hnx hy hx (by omega) (by omega)] at h1
      simp only [scatter_sum_const, mul_one] at h1
      rw [coverScatter_eq_coverPairs _ _ _ _ hSy, coverScatter_eq_coverPairs _ _ _ _ hSx] at h1
      exact nat_cast_mul_eq_one h1
    constructor
    · by_contra hc
      have hc' : Sy < By ∧ 2 ≤ Ny := by omega
      have := (key 1 0 0 0 ⟨by omega, by omega⟩ ⟨le_refl _, hNx⟩ ⟨le_refl _, hBy⟩ ⟨le_refl _, hBx⟩).1
      have e : (1 : Int) * Sy + 0 = Sy := by ring
      rw [e] at this
      have := cover_overlap By Sy Ny hSy hc'.1 hc'.2
      omega
    · by_contra hc
      have hc' : Sx < Bx ∧ 2 ≤ Nx := by omega
      have := (key 0 1 0 0 ⟨le_refl _, hNy⟩ ⟨by omega, by omega⟩ ⟨le_refl _, hBy⟩ ⟨le_refl _, hBx⟩).2
      have e : (1 : Int) * Sx + 0 = Sx := by ring
      rw [e] at this
      have := cover_overlap Bx Sx Nx hSx hc'.1 hc'.2
      omega
  · rintro ⟨hy2, hx2⟩ y b ny nx y' x' hb hny hnx hy hx
    have fy := hfity ny hny.1 hny.2
    have fx := hfitx nx hnx.1 hnx.2
    rw [a2b2_b2a2_apply osh ish osh' ish' batch Bx By Sx Sy Nx Ny hSx hSy hlen1 hlen2 y b ny nx y' x'
      hb hny hnx hy hx (by omega) (by omega)]
    have h1 := scatter_sum_unique By Sy Ny hSy hy2 ny y' hny hy (fun ny0 by0 =>
      ((pyRange (pyMod (nx * Sx + x') Sx) Bx Sx).map fun bx =>
        if (0 ≤ pyDiv (nx * Sx + x' - bx) Sx ∧ pyDiv (nx * Sx + x' - bx) Sx < Nx) then
          y [b, ny0, pyDiv (nx * Sx + x' - bx) Sx, by0, bx] else 0).sum)
    have h2 := scatter_sum_unique Bx Sx Nx hSx hx2 nx x' hnx hx (fun nx0 bx0 => y [b, ny, nx0, y', bx0])
    beta_reduce at h1 h2
    rw [h1, h2]

/-! ### 3-D -/

theorem ite_and6 (a1 a2 b1 b2 c1 c2 : Prop) [Decidable a1] [Decidable a2] [Decidable b1] [Decidable b2]
    [Decidable c1] [Decidable c2] (t : Rat) :
    (if a1 ∧ a2 ∧ b1 ∧ b2 ∧ c1 ∧ c2 then t else 0)
      = if c1 ∧ c2 then (if b1 ∧ b2 then (if a1 ∧ a2 then t else 0) else 0) else 0 := by
  by_cases h1 : a1 <;> by_cases h2 : a2 <;> by_cases h3 : b1 <;> by_cases h4 : b2 <;> by_cases h5 : c1 <;>
    by_cases h6 : c2 <;> simp [h1, h2, h3, h4, h5, h6]

/-- `BlocksToArray.N` in 3-D as a function (the joint guard of the three scatter loops split per axis) -/
theorem a2b3_b2a3_apply (osh ish osh' ish' : Int → Int) (batch Bx By Bz Sx Sy Sz Nx Ny Nz : Int)
    (hSx : 0 < Sx) (hSy : 0 < Sy) (hSz : 0 < Sz)
    (hlen1 : osh (-1) = ish' (-1)) (hlen2 : osh (-2) = ish' (-2)) (hlen3 : osh (-3) = ish' (-3))
    (y : List Int → Rat) (b nz ny nx z' y' x' : Int)
    (hb : 0 ≤ b ∧ b < batch) (hnz : 0 ≤ nz ∧ nz < Nz) (hny : 0 ≤ ny ∧ ny < Ny) (hnx : 0 ≤ nx ∧ nx < Nx)
    (hz : 0 ≤ z' ∧ z' < Bz) (hy : 0 ≤ y' ∧ y' < By) (hx : 0 ≤ x' ∧ x' < Bx)
    (hfz : nz * Sz + z' < osh (-3)) (hfy : ny * Sy + y' < osh (-2)) (hfx : nx * Sx + x' < osh (-1)) :
    applyF (Gen.a2b3 osh' ish' batch Bx By Bz Sx Sy Sz Nx Ny Nz)
        (applyF (Gen.b2a3 osh ish batch Bx By Bz Sx Sy Sz Nx Ny Nz) y) [b, nz, ny, nx, z', y', x']
      = ((pyRange (pyMod (nz * Sz + z') Sz) Bz Sz).map fun bz =>
          if (0 ≤ pyDiv (nz * Sz + z' - bz) Sz ∧ pyDiv (nz * Sz + z' - bz) Sz < Nz) then
            ((pyRange (pyMod (ny * Sy + y') Sy) By Sy).map fun by' =>
              if (0 ≤ pyDiv (ny * Sy + y' - by') Sy ∧ pyDiv (ny * Sy + y' - by') Sy < Ny) then
                ((pyRange (pyMod (nx * Sx + x') Sx) Bx Sx).map fun bx =>
                  if (0 ≤ pyDiv (nx * Sx + x' - bx) Sx ∧ pyDiv (nx * Sx + x' - bx) Sx < Nx) then
                    y [b, pyDiv (nz * Sz + z' - bz) Sz, pyDiv (ny * Sy + y' - by') Sy, pyDiv (nx * Sx + x' - bx) Sx,
                      bz, by', bx] else 0).sum
              else 0).sum
          else 0).sum := by
  have h0z : 0 ≤ nz * Sz + z' := add_nonneg (mul_nonneg hnz.1 (le_of_lt hSz)) hz.1
  have h0y : 0 ≤ ny * Sy + y' := add_nonneg (mul_nonneg hny.1 (le_of_lt hSy)) hy.1
  have h0x : 0 ≤ nx * Sx + x' := add_nonneg (mul_nonneg hnx.1 (le_of_lt hSx)) hx.1
  rw [a2b3_apply, if_pos hb, if_pos hnz, if_pos hny, if_pos hnx, if_pos hz, if_pos hy, if_pos hx,
    if_pos ⟨hlen1 ▸ hfx, hlen2 ▸ hfy, hlen3 ▸ hfz⟩, b2a3_apply, if_pos hb, if_pos ⟨h0z, hfz⟩, if_pos ⟨h0y, hfy⟩,
    if_pos ⟨h0x, hfx⟩]
  simp only [ite_and6, sum_map_ite_out]

/-- **`BlocksToArray.N` in 3-D is the identity iff on all three block axes the blocks do not overlap or there is
    a single block.** -/
theorem b2a3_normal_identity_iff (osh ish osh' ish' : Int → Int) (batch Bx By Bz Sx Sy Sz Nx Ny Nz : Int)
    (hSx : 0 < Sx) (hSy : 0 < Sy) (hSz : 0 < Sz) (hBx : 0 < Bx) (hBy : 0 < By) (hBz : 0 < Bz)
    (hNx : 0 < Nx) (hNy : 0 < Ny) (hNz : 0 < Nz) (hbatch : 0 < batch)
    (hlen1 : osh (-1) = ish' (-1)) (hlen2 : osh (-2) = ish' (-2)) (hlen3 : osh (-3) = ish' (-3))
    (hfitx : ∀ n, 0 ≤ n → n < Nx → n * Sx + Bx ≤ osh (-1)) (hfity : ∀ n, 0 ≤ n → n < Ny → n * Sy + By ≤ osh (-2))
    (hfitz : ∀ n, 0 ≤ n → n < Nz → n * Sz + Bz ≤ osh (-3)) :
    (∀ (y : List Int → Rat) (b nz ny nx z' y' x' : Int), 0 ≤ b ∧ b < batch → 0 ≤ nz ∧ nz < Nz → 0 ≤ ny ∧ ny < Ny →
      0 ≤ nx ∧ nx < Nx → 0 ≤ z' ∧ z' < Bz → 0 ≤ y' ∧ y' < By → 0 ≤ x' ∧ x' < Bx →
      applyF (Gen.a2b3 osh' ish' batch Bx By Bz Sx Sy Sz Nx Ny Nz)
          (applyF (Gen.b2a3 osh ish batch Bx By Bz Sx Sy Sz Nx Ny Nz) y) [b, nz, ny, nx, z', y', x']
        = y [b, nz, ny, nx, z', y', x']) ↔
      (Bz ≤ Sz ∨ Nz ≤ 1) ∧ (By ≤ Sy ∨ Ny ≤ 1) ∧ (Bx ≤ Sx ∨ Nx ≤ 1) := by
  constructor
  · intro h
    have key : ∀ nz ny nx z' y' x', 0 ≤ nz ∧ nz < Nz → 0 ≤ ny ∧ ny < Ny → 0 ≤ nx ∧ nx < Nx → 0 ≤ z' ∧ z' < Bz →
        0 ≤ y' ∧ y' < By → 0 ≤ x' ∧ x' < Bx →
        coverPairs Bz Sz Nz (nz * Sz + z') = 1 ∧ coverPairs By Sy Ny (ny * Sy + y') = 1 ∧
          coverPairs Bx Sx Nx (nx * Sx + x') = 1 := by
      intro nz ny nx z' y' x' hnz hny hnx hz hy hx
      have h1 := h (fun _ => 1) 0 nz ny nx z' y' x' ⟨le_refl _, hbatch⟩ hnz hny hnx hz hy hx
      have fz := hfitz nz hnz.1 hnz.2
      have fy := hfity ny hny.1 hny.2
      have fx := hfitx nx hnx.1 hnx.2
      rw [a2b3_b2a3_apply osh ish osh' ish' batch Bx By Bz Sx Sy Sz Nx Ny Nz hSx hSy hSz hlen1 hlen2 hlen3 _ 0
        nz ny nx z' y' x' ⟨le_refl _, hbatch⟩ hnz hny hnx hz hy hx (by omega) (by omega) (by omega)] at h1
      simp only [scatter_sum_const, mul_one] at h1
      rw [coverScatter_eq_coverPairs _ _ _ _ hSz, coverScatter_eq_coverPairs _ _ _ _ hSy,
        coverScatter_eq_coverPairs _ _ _ _ hSx] at h1
      have h2 : ((coverPairs Bz Sz Nz (nz * Sz + z') : Rat)) *
          ((coverPairs By Sy Ny (ny * Sy + y') * coverPairs Bx Sx Nx (nx * Sx + x') : Nat) : Rat) = 1 := by
        push_cast; exact h1
      obtain ⟨a1, a2⟩ := nat_cast_mul_eq_one h2
      obtain ⟨a3, a4⟩ := nat_mul_eq_one a2
      exact ⟨a1, a3, a4⟩
    have e : ∀ S : Int, (1 : Int) * S + 0 = S := fun S => by ring
    refine ⟨?_, ?_, ?_⟩
    · by_contra hc
      have hc' : Sz < Bz ∧ 2 ≤ Nz := by omega
      have := (key 1 0 0 0 0 0 ⟨by omega, by omega⟩ ⟨le_refl _, hNy⟩ ⟨le_refl _, hNx⟩ ⟨le_refl _, hBz⟩
        ⟨le_refl _, hBy⟩ ⟨le_refl _, hBx⟩).1
      rw [e] at this
      have := cover_overlap Bz Sz Nz hSz hc'.1 hc'.2
      omega
    · by_contra hc
      have hc' : Sy < By ∧ 2 ≤ Ny := by omega
      have := (key 0 1 0 0 0 0 ⟨le_refl _, hNz⟩ ⟨by omega, by omega⟩ ⟨le_refl _, hNx⟩ ⟨le_refl _, hBz⟩
        ⟨le_refl _, hBy⟩ ⟨le_refl _, hBx⟩).2.1
      rw [e] at this
      have := cover_overlap By Sy Ny hSy hc'.1 hc'.2
      omega
    · by_contra hc
      have hc' : Sx < Bx ∧ 2 ≤ Nx := by omega
      have := (key 0 0 1 0 0 0 ⟨le_refl _, hNz⟩ ⟨le_refl _, hNy⟩ ⟨by omega, by omega⟩ ⟨le_refl _, hBz⟩
        ⟨le_refl _, hBy⟩ ⟨le_refl _, hBx⟩).2.2
      rw [e] at this
      have := cover_overlap Bx Sx Nx hSx hc'.1 hc'.2
      omega
  · rintro ⟨hz2, hy2, hx2⟩ y b nz ny nx z' y' x' hb hnz hny hnx hz hy hx
    have fz := hfitz nz hnz.1 hnz.2
    have fy := hfity ny hny.1 hny.2
    have fx := hfitx nx hnx.1 hnx.2
    rw [a2b3_b2a3_apply osh ish osh' ish' batch Bx By Bz Sx Sy Sz Nx Ny Nz hSx hSy hSz hlen1 hlen2 hlen3 y b
      nz ny nx z' y' x' hb hnz hny hnx hz hy hx (by omega) (by omega) (by omega)]
    have h1 := scatter_sum_unique Bz Sz Nz hSz hz2 nz z' hnz hz (fun nz0 bz0 =>
      ((pyRange (pyMod (ny * Sy + y') Sy) By Sy).map fun by' =>
        if (0 ≤ pyDiv (ny * Sy + y' - by') Sy ∧ pyDiv (ny * Sy + y' - by') Sy < Ny) then
          ((pyRange (pyMod (nx * Sx + x') Sx) Bx Sx).map fun bx =>
            if (0 ≤ pyDiv (nx * Sx + x' - bx) Sx ∧ pyDiv (nx * Sx + x' - bx) Sx < Nx) then
              y [b, nz0, pyDiv (ny * Sy + y' - by') Sy, pyDiv (nx * Sx + x' - bx) Sx, bz0, by', bx] else 0).sum
        else 0).sum)
    have h2 := scatter_sum_unique By Sy Ny hSy hy2 ny y' hny hy (fun ny0 by0 =>
      ((pyRange (pyMod (nx * Sx + x') Sx) Bx Sx).map fun bx =>
        if (0 ≤ pyDiv (nx * Sx + x' - bx) Sx ∧ pyDiv (nx * Sx + x' - bx) Sx < Nx) then
          y [b, nz, ny0, pyDiv (nx * Sx + x' - bx) Sx, z', by0, bx] else 0).sum)
    have h3 := scatter_sum_unique Bx Sx Nx hSx hx2 nx x' hnx hx (fun nx0 bx0 => y [b, nz, ny, nx0, z', y', bx0])
    beta_reduce at h1 h2 h3
    rw [h1, h2, h3]

/-! ### non-vacuity -/

/-- 3 × 5 array, 2 × 2 blocks at stride 1 × 1 (2 × 4 blocks, all fit): the layout overlaps on both axes, so
    `BlocksToArray.N ≠ Identity` -/
example : ¬ (∀ (y : List Int → Rat) (b ny nx y' x' : Int), 0 ≤ b ∧ b < 1 → 0 ≤ ny ∧ ny < 2 → 0 ≤ nx ∧ nx < 4 →
    0 ≤ y' ∧ y' < 2 → 0 ≤ x' ∧ x' < 2 →
    applyF (Gen.a2b2 (shapeFn [1,2,4,2,2]) (shapeFn [1,3,5]) 1 2 2 1 1 4 2)
      (applyF (Gen.b2a2 (shapeFn [1,3,5]) (shapeFn [1,2,4,2,2]) 1 2 2 1 1 4 2) y) [b, ny, nx, y', x']
        = y [b, ny, nx, y', x']) := by
  rw [b2a2_normal_identity_iff (shapeFn [1,3,5]) (shapeFn [1,2,4,2,2]) (shapeFn [1,2,4,2,2]) (shapeFn [1,3,5])
    1 2 2 1 1 4 2 (by decide) (by decide) (by decide) (by decide) (by decide) (by decide) (by decide) rfl rfl
    (by intro n h0 h1; show n * 1 + 2 ≤ 5; omega) (by intro n h0 h1; show n * 1 + 2 ≤ 3; omega)]
  decide

/-- 4 × 6 array, 2 × 3 blocks at stride 2 × 3: tiling, `BlocksToArray.N = Identity` -/
example : (∀ (y : List Int → Rat) (b ny nx y' x' : Int), 0 ≤ b ∧ b < 1 → 0 ≤ ny ∧ ny < 2 → 0 ≤ nx ∧ nx < 2 →
    0 ≤ y' ∧ y' < 2 → 0 ≤ x' ∧ x' < 3 →
    applyF (Gen.a2b2 (shapeFn [1,2,2,2,3]) (shapeFn [1,4,6]) 1 3 2 3 2 2 2)
      (applyF (Gen.b2a2 (shapeFn [1,4,6]) (shapeFn [1,2,2,2,3]) 1 3 2 3 2 2 2) y) [b, ny, nx, y', x']
        = y [b, ny, nx, y', x']) := by
  rw [b2a2_normal_identity_iff (shapeFn [1,4,6]) (shapeFn [1,2,2,2,3]) (shapeFn [1,2,2,2,3]) (shapeFn [1,4,6])
    1 3 2 3 2 2 2 (by decide) (by decide) (by decide) (by decide) (by decide) (by decide) (by decide) rfl rfl
    (by intro n h0 h1; show n * 3 + 3 ≤ 6; omega) (by intro n h0 h1; show n * 2 + 2 ≤ 4; omega)]
  decide

end SigpyVerif.C04
