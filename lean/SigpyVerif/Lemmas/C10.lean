import SigpyVerif.Model.C10
import Mathlib.Algebra.BigOperators.Finprod
import Mathlib.Algebra.BigOperators.Ring.Finset
import Mathlib.Tactic.Ring
import Mathlib.Tactic.Linarith
import Mathlib.Tactic.LinearCombination
/-
  C10 helper lemmas: the executable `sumN` is a `Finset.range` sum; filter-bank notions
  (support, completeness, orthonormality) and the window lemma that turns the sum over ℤ of the
  completeness condition into the finite sum over the coefficients PyWavelets keeps.
-/
namespace SigpyVerif.C10
open Finset

theorem sumN_eq_sum {α} [AddCommMonoid α] (n : Nat) (f : Nat → α) : sumN n f = ∑ i ∈ range n, f i := by
  induction n with
  | zero => simp [sumN]
  | succ n ih => rw [sumN, ih, sum_range_succ]

variable {R : Type*} [CommRing R]

/-- the sequence vanishes outside `0 ≤ j < L` (a filter of length `L`) -/
def SupportedOn (L : ℕ) (h : ℤ → R) : Prop := ∀ j : ℤ, (j < 0 ∨ (L : ℤ) ≤ j) → h j = 0

/-- completeness (resolution of the identity) of the two-channel bank, PyWavelets indexing:
    `Σ_{k∈ℤ} h[2k+1-n]·h[2k+1-n'] + g[2k+1-n]·g[2k+1-n'] = δ_{n n'}` -/
def Complete (h g : ℤ → R) : Prop :=
  ∀ n n' : ℤ, (∑ᶠ k : ℤ, (h (2 * k + 1 - n) * h (2 * k + 1 - n') + g (2 * k + 1 - n) * g (2 * k + 1 - n')))
    = if n = n' then 1 else 0

/-- orthonormality of the even shifts: `Σ_n h[n]h[n+2m] = δ_m`, the same for `g`, `Σ_n h[n]g[n+2m] = 0` -/
def Orthonormal (h g : ℤ → R) : Prop :=
  (∀ m : ℤ, (∑ᶠ n : ℤ, h n * h (n + 2 * m)) = if m = 0 then 1 else 0) ∧
  (∀ m : ℤ, (∑ᶠ n : ℤ, g n * g (n + 2 * m)) = if m = 0 then 1 else 0) ∧
  (∀ m : ℤ, (∑ᶠ n : ℤ, h n * g (n + 2 * m)) = 0)

/-- Window lemma.  For a signal position `n < N` the only `k ∈ ℤ` with `h[2k+1-n] ≠ 0` or `g[2k+1-n] ≠ 0`
    satisfy `0 ≤ k < M` as soon as `L + N ≤ 2M + 2` — i.e. `M ≥ ⌊(N+L-1)/2⌋`, the number of coefficients
    `pywt.dwt(mode='zero')` keeps: nothing is lost by keeping only those. -/
theorem complete_window {L N M : ℕ} {h g : ℤ → R} (hh : SupportedOn L h) (hg : SupportedOn L g)
    (hc : Complete h g) (hM : L + N ≤ 2 * M + 2) {n : ℕ} (hn : n < N) (n' : ℕ) :
    (∑ k ∈ range M, (h (2 * (k : ℤ) + 1 - n) * h (2 * (k : ℤ) + 1 - n')
        + g (2 * (k : ℤ) + 1 - n) * g (2 * (k : ℤ) + 1 - n'))) = if n = n' then 1 else 0 := by
  have key := hc n n'
  rw [finsum_eq_sum_of_support_subset (s := (range M).image (Nat.cast : ℕ → ℤ))] at key
  · rw [sum_image (fun a _ b _ hab => Nat.cast_injective hab)] at key
    rw [key]
    simp only [Nat.cast_inj]
  · intro k hk
    rw [Function.mem_support] at hk
    simp only [coe_image, Set.mem_image, mem_coe, mem_range]
    by_contra hcon
    apply hk
    have hk' : k < 0 ∨ (M : ℤ) ≤ k := by
      by_contra h2
      push Not at h2
      exact hcon ⟨k.toNat, by omega, by omega⟩
    have h0 : h (2 * k + 1 - n) = 0 := hh _ (by omega)
    have g0 : g (2 * k + 1 - n) = 0 := hg _ (by omega)
    rw [h0, g0]; ring

/-- a list read on ℤ is supported on `0 ≤ j < length` -/
theorem supportedOn_ofList (l : List R) : SupportedOn l.length (ofList l) := by
  intro j hj
  unfold ofList
  split_ifs with h0
  · rw [List.getD_eq_getElem?_getD, List.getElem?_eq_none (by omega)]
    rfl
  · rfl

end SigpyVerif.C10
