import SigpyVerif.Lemmas.C10
import SigpyVerif.Props.C09
import Mathlib.Algebra.BigOperators.Group.List.Basic
/-
  C10 list-level helper lemmas: sums of squares / inner products of coefficient lists, reading a list as a
  zero-extended sequence, congruence of `ana`/`syn`, splitting a packed array by stored lengths.
-/
namespace SigpyVerif.C10
open Finset

variable {R : Type*} [CommRing R]

/-- sum of squares of a list / of a list of coefficient lists -/
def nsq (l : List R) : R := (l.map (· ^ 2)).sum
def nsqs (c : List (List R)) : R := (c.map nsq).sum

/-- real inner product of two lists (over the common prefix) / of two lists of coefficient lists -/
def dot (x y : List R) : R := (List.zipWith (· * ·) x y).sum
def dots (c c' : List (List R)) : R := (List.zipWith dot c c').sum

theorem nsq_map_range (M : ℕ) (f : ℕ → R) : nsq ((List.range M).map f) = ∑ k ∈ range M, f k ^ 2 := by
  unfold nsq
  induction M with
  | zero => simp
  | succ M ih =>
    rw [List.range_succ, List.map_append, List.map_append, List.sum_append, ih, sum_range_succ]
    simp

theorem map_range_ofListN (x : List R) : (List.range x.length).map (ofListN x) = x := by
  apply List.ext_getElem
  · simp
  · intro i h1 h2
    simp [ofListN, List.getElem?_eq_getElem h2]

theorem nsq_eq_sum (x : List R) : nsq x = ∑ n ∈ range x.length, ofListN x n ^ 2 := by
  calc nsq x = nsq ((List.range x.length).map (ofListN x)) := by rw [map_range_ofListN]
    _ = _ := nsq_map_range _ _

theorem nsq_flatten (c : List (List R)) : nsq c.flatten = nsqs c := by
  induction c with
  | nil => simp [nsq, nsqs]
  | cons a c ih =>
    unfold nsq nsqs at *
    rw [List.flatten_cons, List.map_append, List.sum_append, ih]
    simp [nsq]

theorem ofListN_of_le (x : List R) {n : ℕ} (h : x.length ≤ n) : ofListN x n = 0 := by
  unfold ofListN
  rw [List.getD_eq_getElem?_getD, List.getElem?_eq_none h]; rfl

theorem ofListN_map_range (M : ℕ) (f : ℕ → R) {k : ℕ} (hk : k < M) :
    ofListN ((List.range M).map f) k = f k := by
  unfold ofListN
  rw [List.getD_eq_getElem?_getD, List.getElem?_eq_getElem (by simpa using hk)]
  simp

/-- reading a list beyond its end gives the zero padding -/
theorem map_range_ofListN_ge (x : List R) (K : ℕ) (hK : x.length ≤ K) :
    (List.range K).map (ofListN x) = x ++ List.replicate (K - x.length) 0 := by
  apply List.ext_getElem
  · simp; omega
  · intro i h1 h2
    simp only [List.getElem_map, List.getElem_range]
    by_cases hi : i < x.length
    · rw [List.getElem_append_left hi]
      simp [ofListN, List.getElem?_eq_getElem hi]
    · rw [List.getElem_append_right (by omega), ofListN_of_le x (by omega)]
      simp

/-- `dot` as a finite sum of the zero-extended sequences, over any range covering the common prefix -/
theorem dot_eq_sum (x y : List R) (K : ℕ) (hK : min x.length y.length ≤ K) :
    dot x y = ∑ n ∈ range K, ofListN x n * ofListN y n := by
  induction x generalizing y K with
  | nil =>
    simp only [dot, List.zipWith_nil_left, List.sum_nil]
    symm; apply sum_eq_zero; intro n _
    simp [ofListN]
  | cons a x ih =>
    cases y with
    | nil =>
      simp only [dot, List.zipWith_nil_right, List.sum_nil]
      symm; apply sum_eq_zero; intro n _
      simp [ofListN]
    | cons b y =>
      cases K with
      | zero => simp at hK
      | succ K =>
        have h1 : dot (a :: x) (b :: y) = a * b + dot x y := by simp [dot]
        rw [h1, ih y K (by simpa using hK), sum_range_succ', add_comm]
        simp [ofListN]

theorem dot_take (x y : List R) : dot x (y.take x.length) = dot x y := by
  unfold dot
  induction x generalizing y with
  | nil => simp
  | cons a x ih =>
    cases y with
    | nil => simp
    | cons b y => simp [ih y]

theorem dots_append (c c' : List (List R)) (d d' : List R) (hlen : c.length = c'.length) :
    dots (c ++ [d]) (c' ++ [d']) = dots c c' + dot d d' := by
  unfold dots
  rw [List.zipWith_append hlen]
  simp

/-- `ana` only reads the first `N` samples, and more samples may be included when they are zero -/
theorem ana_extend (h : ℤ → R) {N N' : ℕ} (hN : N ≤ N') (x : ℕ → R) (hx : ∀ n, N ≤ n → x n = 0) (k : ℕ) :
    ana h N' x k = ana h N x k := by
  induction N' with
  | zero => have : N = 0 := by omega
            subst this; rfl
  | succ N' ih =>
    by_cases hh : N = N' + 1
    · subst hh; rfl
    · have : ana h (N' + 1) x k = ana h N' x k := by
        simp only [ana, sumN]
        rw [hx N' (by omega)]; simp
      rw [this, ih (by omega)]

theorem syn_congr (h g : ℤ → R) (M : ℕ) {a a' d d' : ℕ → R} (ha : ∀ k, k < M → a k = a' k)
    (hd : ∀ k, k < M → d k = d' k) (n : ℕ) : syn h g M a d n = syn h g M a' d' n := by
  simp only [syn, sumN_eq_sum]
  apply sum_congr rfl; intro k hk
  rw [ha k (mem_range.mp hk), hd k (mem_range.mp hk)]

/-! ### packing: `flatten` and `splitLens` with the stored lengths -/

theorem splitLens_flatten {α} (c : List (List α)) : splitLens (c.map List.length) c.flatten = c := by
  induction c with
  | nil => rfl
  | cons a c ih => simp [splitLens, ih]

theorem splitLens_map_length {α} (lens : List ℕ) (l : List α) (hl : l.length = lens.sum) :
    (splitLens lens l).map List.length = lens := by
  induction lens generalizing l with
  | nil => rfl
  | cons n ns ih =>
    simp only [splitLens, List.map_cons, List.length_take, List.sum_cons] at *
    rw [ih (l.drop n) (by simp; omega)]
    congr 1; omega

theorem flatten_splitLens {α} (lens : List ℕ) (l : List α) (hl : l.length = lens.sum) :
    (splitLens lens l).flatten = l := by
  induction lens generalizing l with
  | nil => simp [splitLens]; simpa using hl
  | cons n ns ih =>
    simp only [splitLens, List.flatten_cons, List.sum_cons] at *
    rw [ih (l.drop n) (by simp; omega)]
    simp

theorem dot_append (x y x' y' : List R) (hlen : x.length = x'.length) :
    dot (x ++ y) (x' ++ y') = dot x x' + dot y y' := by
  unfold dot
  rw [List.zipWith_append hlen, List.sum_append]

/-- the inner product of packed arrays is the sum of the inner products of the pieces -/
theorem dot_flatten (c c' : List (List R)) (hs : c.map List.length = c'.map List.length) :
    dot c.flatten c'.flatten = dots c c' := by
  induction c generalizing c' with
  | nil => cases c' with
    | nil => simp [dot, dots]
    | cons b c' => simp at hs
  | cons a c ih =>
    cases c' with
    | nil => simp at hs
    | cons b c' =>
      simp only [List.map_cons, List.cons.injEq] at hs
      rw [List.flatten_cons, List.flatten_cons, dot_append _ _ _ _ hs.1, ih c' hs.2]
      simp [dots]

/-! ### `util.resize` (C09 model) on a 1-D array, as a list -/

open SigpyVerif in
/-- 1-D `util.resize` with default shifts: the early return for equal shapes, otherwise every output
    position reads where `resizeSrc1` (C09) says -/
theorem resize1d {α} [Zero α] (i o : Int) (x : List α) :
    (C09.resize [i] [o] none none x.toArray).toList =
      if i = o then x else (List.range o.toNat).map fun (k : Nat) =>
        match C09.resizeSrc1 i o (Gen.resizeIshiftDefault i o) (Gen.resizeOshiftDefault i o) k with
        | some j => x.getD j.toNat 0
        | none => 0 := by
  unfold C09.resize C09.expandShapes
  simp only [List.length_cons, List.length_nil, Nat.zero_add, max_self, Nat.sub_self, List.replicate_zero, List.nil_append,
    Option.getD_none, List.zipWith_cons_cons, List.zipWith_nil_right]
  by_cases hio : i = o
  · simp [hio]
  · have : ([i] == [o]) = false := by simp [hio]
    rw [this]
    simp only [Bool.false_eq_true, if_false, if_neg hio]
    simp only [allIdx, pyRange]
    have fm : ∀ l : List Nat, List.flatMap (fun a : Nat => [[(Nat.cast a : Int)]]) l = l.map (fun a : Nat => [(Nat.cast a : Int)]) := by
      intro l; induction l with
      | nil => rfl
      | cons a l ih => simp [ih]
    simp [List.flatMap_map, C09.resizeSrc, ravel]
    rw [fm, List.map_map]
    apply List.map_congr_left
    intro k _
    simp only [Function.comp, C09.resizeSrc.go]
    cases C09.resizeSrc1 i o (Gen.resizeIshiftDefault i o) (Gen.resizeOshiftDefault i o) k <;> simp

end SigpyVerif.C10
