/-
  C20 helper lemmas: the unit pulse shape `pulse r n` over ℝ (sum, end points, range, sample-to-sample
  differences), and the real instance `opsR` of the operations record.
-/
import Mathlib.Analysis.Real.Sqrt
import Mathlib.Algebra.Order.Floor.Semiring
import Mathlib.Algebra.BigOperators.Group.List.Basic
import Mathlib.Data.List.Chain
import Mathlib.Data.List.Range
import Mathlib.Tactic.Ring
import Mathlib.Tactic.Linarith
import Mathlib.Tactic.Positivity
import Mathlib.Tactic.FieldSimp
import Mathlib.Tactic.NormNum
import SigpyVerif.Model.C20
namespace SigpyVerif.C20
open SigpyVerif.Gen.TrapGrad

/-- the float operations read over ℝ -/
noncomputable def opsR : Ops ℝ :=
  ⟨fun _ x => ⌈x⌉₊, fun x y z => ⌈Real.sqrt x / y / z⌉₊, fun x s z => ⌊x / Real.sqrt s / z⌋₊,
   fun _ a b => decide (a < b)⟩

@[simp] theorem opsR_lt (site : ℕ) (a b : ℝ) : opsR.lt site a b = decide (a < b) := rfl
@[simp] theorem opsR_ceil (site : ℕ) (x : ℝ) : opsR.ceil site x = ⌈x⌉₊ := rfl

theorem sum_range_div (n : ℕ) (d : ℝ) :
    ((List.range n).map fun k => ((k : ℕ) : ℝ) / d).sum = (n : ℝ) * ((n : ℝ) - 1) / 2 / d := by
  induction n with
  | zero => simp
  | succ n ih =>
    rw [List.range_succ, List.map_append, List.sum_append, ih]
    simp only [List.map_cons, List.map_nil, List.sum_cons, List.sum_nil, Nat.cast_add, Nat.cast_one]
    ring

theorem sum_range_sub_div (r n : ℕ) (hn : n ≤ r + 1) (d : ℝ) :
    ((List.range n).map fun k => (((r - k : ℕ)) : ℝ) / d).sum
      = ((n : ℝ) * r - (n : ℝ) * ((n : ℝ) - 1) / 2) / d := by
  induction n with
  | zero => simp
  | succ n ih =>
    rw [List.range_succ, List.map_append, List.sum_append, ih (by omega)]
    have : ((r - n : ℕ) : ℝ) = (r : ℝ) - n := Nat.cast_sub (by omega)
    simp only [List.map_cons, List.map_nil, List.sum_cons, List.sum_nil, Nat.cast_add, Nat.cast_one, this]
    ring

theorem sum_rampUp (r : ℕ) (hr : 1 ≤ r) : (rampUp r : List ℝ).sum = ((r : ℝ) + 1) / 2 := by
  have h : (r : ℝ) ≠ 0 := by positivity
  unfold rampUp
  rw [sum_range_div]
  push_cast
  field_simp
  ring

theorem sum_rampDn (r : ℕ) (hr : 1 ≤ r) : (rampDn r : List ℝ).sum = ((r : ℝ) + 1) / 2 := by
  have h : (r : ℝ) ≠ 0 := by positivity
  unfold rampDn
  rw [sum_range_sub_div r (r + 1) le_rfl]
  push_cast
  field_simp
  ring

/-- `Σ pulse = ramppts + 1 + nflat` -/
theorem sum_pulse (r n : ℕ) (hr : 1 ≤ r) : (pulse r n : List ℝ).sum = (r : ℝ) + 1 + n := by
  unfold pulse
  rw [List.sum_append, List.sum_append, sum_rampUp r hr, sum_rampDn r hr, List.sum_replicate]
  simp
  ring

theorem length_pulse (r n : ℕ) : (pulse r n : List ℝ).length = 2 * (r + 1) + n := by
  simp [pulse, rampUp, rampDn]; ring

theorem mem_rampUp {r : ℕ} {x : ℝ} (hx : x ∈ (rampUp r : List ℝ)) : ∃ k ≤ r, x = (k : ℝ) / r := by
  simp only [rampUp, List.mem_map, List.mem_range] at hx
  obtain ⟨k, hk, rfl⟩ := hx
  exact ⟨k, by omega, rfl⟩

theorem mem_rampDn {r : ℕ} {x : ℝ} (hx : x ∈ (rampDn r : List ℝ)) : ∃ k ≤ r, x = (k : ℝ) / r := by
  simp only [rampDn, List.mem_map, List.mem_range] at hx
  obtain ⟨k, hk, rfl⟩ := hx
  exact ⟨r - k, by omega, rfl⟩

/-- every sample of the unit pulse lies in `[0, 1]` -/
theorem pulse_range {r n : ℕ} (hr : 1 ≤ r) {x : ℝ} (hx : x ∈ (pulse r n : List ℝ)) : 0 ≤ x ∧ x ≤ 1 := by
  have h : (0 : ℝ) < r := by positivity
  have key : ∀ k ≤ r, 0 ≤ (k : ℝ) / r ∧ (k : ℝ) / r ≤ 1 := fun k hk =>
    ⟨by positivity, by rw [div_le_one h]; exact_mod_cast hk⟩
  simp only [pulse, List.mem_append, List.mem_replicate] at hx
  rcases hx with hx | ⟨_, rfl⟩ | hx
  · obtain ⟨k, hk, rfl⟩ := mem_rampUp hx; exact key k hk
  · simp
  · obtain ⟨k, hk, rfl⟩ := mem_rampDn hx; exact key k hk

theorem head_rampUp (r : ℕ) : (rampUp r : List ℝ).head? = some 0 := by
  simp [rampUp, List.range_succ_eq_map]

theorem getLast_rampUp (r : ℕ) (hr : 1 ≤ r) : (rampUp r : List ℝ).getLast? = some 1 := by
  have h : (r : ℝ) ≠ 0 := by positivity
  simp [rampUp, List.range_succ, h]

theorem head_rampDn (r : ℕ) (hr : 1 ≤ r) : (rampDn r : List ℝ).head? = some 1 := by
  have h : (r : ℝ) ≠ 0 := by positivity
  simp [rampDn, List.range_succ_eq_map, h]

theorem getLast_rampDn (r : ℕ) : (rampDn r : List ℝ).getLast? = some 0 := by
  simp [rampDn, List.range_succ]

/-- the unit pulse starts and ends at 0 -/
theorem pulse_ends (r n : ℕ) : (pulse r n : List ℝ).head? = some 0 ∧ (pulse r n : List ℝ).getLast? = some 0 := by
  constructor
  · simp [pulse, List.head?_append, head_rampUp]
  · have : (rampDn r : List ℝ) ≠ [] := by simp [rampDn]
    simp [pulse, List.getLast?_append, getLast_rampDn]

/-- neighbouring samples of the unit pulse differ by at most `1 / ramppts` -/
theorem pulse_chain (r n : ℕ) (hr : 1 ≤ r) :
    List.IsChain (fun x y : ℝ => |y - x| ≤ 1 / r) (pulse r n : List ℝ) := by
  have h : (0 : ℝ) < r := by positivity
  have h1 : (0 : ℝ) ≤ 1 / r := by positivity
  have up : List.IsChain (fun x y : ℝ => |y - x| ≤ 1 / r) (rampUp r : List ℝ) := by
    unfold rampUp
    rw [List.isChain_map, List.isChain_range_succ]
    intro m _
    have : ((m.succ : ℕ) : ℝ) / r - (m : ℝ) / r = 1 / r := by push_cast; ring
    rw [this, abs_of_nonneg h1]
  have dn : List.IsChain (fun x y : ℝ => |y - x| ≤ 1 / r) (rampDn r : List ℝ) := by
    unfold rampDn
    rw [List.isChain_map, List.isChain_range_succ]
    intro m hm
    have e1 : ((r - m.succ : ℕ) : ℝ) = (r : ℝ) - (m + 1) := by
      rw [Nat.cast_sub (by omega)]; push_cast; ring
    have e2 : ((r - m : ℕ) : ℝ) = (r : ℝ) - m := Nat.cast_sub (by omega)
    have : ((r - m.succ : ℕ) : ℝ) / r - ((r - m : ℕ) : ℝ) / r = -(1 / r) := by rw [e1, e2]; ring
    rw [this, abs_neg, abs_of_nonneg h1]
  have rep : List.IsChain (fun x y : ℝ => |y - x| ≤ 1 / r) (List.replicate n (((1 : ℕ) : ℝ))) :=
    List.isChain_replicate_of_rel n (by simp)
  unfold pulse
  rw [List.isChain_append, List.isChain_append]
  refine ⟨up, ⟨rep, dn, ?_⟩, ?_⟩
  · intro x hx y hy
    rw [head_rampDn r hr] at hy
    obtain rfl : y = 1 := by simpa using hy.symm
    have : x = 1 := by
      have := List.mem_of_mem_getLast? hx
      simp only [List.mem_replicate] at this
      simpa using this.2
    subst this; simp
  · intro x hx y hy
    rw [getLast_rampUp r hr] at hx
    obtain rfl : x = 1 := by simpa using hx.symm
    have : y = 1 := by
      rcases n with _ | n
      · simp only [List.replicate_zero, List.nil_append, head_rampDn r hr] at hy
        simpa using hy.symm
      · simp only [List.replicate_succ, List.cons_append, List.head?_cons] at hy
        simpa using hy.symm
    subst this; simp

end SigpyVerif.C20
