import SigpyVerif.Model.C18
import Mathlib.Data.Rat.Floor
import Mathlib.Tactic.Linarith
import Mathlib.Tactic.Positivity
import Mathlib.Tactic.Ring
import Mathlib.Tactic.NormNum
/-
  C18 helper lemmas: truncation of half-integers, the radius coordinate, list facts for the active list.
-/
namespace SigpyVerif.C18
open SigpyVerif

theorem ratFloor_eq (q : ℚ) : Rat.floor q = ⌊q⌋ := rfl

/-- `int(m / 2)` for a non-negative integer `m` is `m // 2` -/
theorem ratTrunc_half (m : Int) (hm : 0 ≤ m) : ratTrunc ((m : Rat) / 2) = m / 2 := by
  unfold ratTrunc
  have h : ¬ ((m : ℚ) / 2 < 0) := by
    have : (0:ℚ) ≤ (m:ℚ) := by exact_mod_cast hm
    have : (0:ℚ) ≤ (m : ℚ) / 2 := by positivity
    linarith
  rw [if_neg h, ratFloor_eq]
  have := Rat.floor_intCast_div_natCast m 2
  simpa using this

/-- truncation of a non-negative rational is its floor, so `0 ≤ q < n` gives `0 ≤ int(q) < n` -/
theorem ratTrunc_range (q : ℚ) (n : Int) (h0 : 0 ≤ q) (h1 : q < n) : 0 ≤ ratTrunc q ∧ ratTrunc q < n := by
  unfold ratTrunc
  rw [if_neg (by linarith), ratFloor_eq]
  exact ⟨Int.floor_nonneg.mpr h0, Int.floor_lt.mpr h1⟩

/-- `int(q)` for any expression equal to the half-integer `m/2`, `m ≥ 0` (robust against algebraic rewrites
    of the slice-bound expression in the source) -/
theorem ratTrunc_of_eq_half (q : ℚ) (m : Int) (hm : 0 ≤ m) (h : q = (m : ℚ) / 2) : ratTrunc q = m / 2 :=
  h ▸ ratTrunc_half m hm

theorem getLastD_mem {α} (l : List α) (d : α) (h : l ≠ []) : l.getLastD d ∈ l := by
  induction l with
  | nil => exact absurd rfl h
  | cons a t ih =>
    cases t with
    | nil => simp [List.getLastD]
    | cons b t' =>
      have := ih (by simp)
      simp only [List.getLastD] at this ⊢
      simp only [List.mem_cons] at this ⊢
      right; exact this

/-- every element of the retired list `(l.set i last).dropLast` was in `l` -/
theorem mem_retire {α} (l : List α) (i : Nat) (d a : α) (h : a ∈ (l.set i (l.getLastD d)).dropLast) : a ∈ l := by
  have h1 := List.mem_of_mem_dropLast h
  rcases List.mem_or_eq_of_mem_set h1 with h2 | h2
  · exact h2
  · by_cases hl : l = []
    · subst hl; simp at h1
    · rw [h2]; exact getLastD_mem l d hl

end SigpyVerif.C18

namespace SigpyVerif.C18
open SigpyVerif

/-- the un-normalised radius coordinate with the casts cleaned up -/
def coord (n c x : Int) : ℚ := ratMax (ratAbs ((x : ℚ) - (n : ℚ) / 2) - (c : ℚ) / 2) 0

theorem radX_eq (n c x : Int) : Gen.Samp.radX n c x = coord n c x := by
  unfold Gen.Samp.radX coord; push_cast; rfl

theorem radY_eq (n c x : Int) : Gen.Samp.radY n c x = coord n c x := by
  unfold Gen.Samp.radY coord; push_cast; rfl

theorem coord_zero (n c : Int) (h0 : 0 ≤ c) (h1 : c ≤ n) : coord n c 0 = ((n : ℚ) - c) / 2 := by
  have a0 : (0:ℚ) ≤ (c:ℚ) := by exact_mod_cast h0
  have a1 : (c:ℚ) ≤ (n:ℚ) := by exact_mod_cast h1
  unfold coord ratMax ratAbs
  push_cast
  split_ifs <;> linarith

/-- a calibration-block index is at most half a sample outside the flat part of the radius coordinate -/
theorem coord_block (n c x : Int) (h0 : 0 ≤ c) (h1 : c ≤ n) (hlo : (n - c) / 2 ≤ x) (hhi : x < (n + c) / 2) :
    0 ≤ coord n c x ∧ coord n c x ≤ 1 / 2 := by
  have i1 : n - c - 1 ≤ 2 * x := by omega
  have i2 : 2 * x ≤ n + c - 2 := by omega
  have q1 : (n:ℚ) - c - 1 ≤ 2 * x := by exact_mod_cast i1
  have q2 : 2 * (x:ℚ) ≤ n + c - 2 := by exact_mod_cast i2
  unfold coord ratMax ratAbs
  constructor <;> split_ifs <;> linarith

/-- normalised coordinate of a block index when `n - c ≥ 2` -/
theorem coord_block_norm (n c x : Int) (h0 : 0 ≤ c) (h2 : c + 2 ≤ n) (hlo : (n - c) / 2 ≤ x) (hhi : x < (n + c) / 2) :
    0 ≤ coord n c x / coord n c 0 ∧ coord n c x / coord n c 0 ≤ 1 / 2 := by
  obtain ⟨a, b⟩ := coord_block n c x h0 (by omega) hlo hhi
  have z := coord_zero n c h0 (by omega)
  have hq : (c:ℚ) + 2 ≤ n := by exact_mod_cast h2
  have zpos : (1:ℚ) ≤ coord n c 0 := by rw [z]; linarith
  constructor
  · exact div_nonneg a (by linarith)
  · rw [div_le_iff₀ (by linarith)]; linarith

end SigpyVerif.C18
