import SigpyVerif.Model.C07
import SigpyVerif.Lemmas.C07
import SigpyVerif.Lemmas.C09
import Mathlib.Tactic.Ring
/-
  The executable array application `applyUpd` (Model/Apply.lean — what the driver runs) against the
  function-level semantics `runUpd` (Lemmas/C07.lean — what `runUpd_acc_eq_sum`, `transpose_pairing` are about).
-/
namespace SigpyVerif.C07
open SigpyVerif

/-- `inBounds` (the executable test) is membership in `allIdx` (the index set the row-major lemmas are about) -/
theorem inBounds_iff_forall₂ (sh k : List Int) :
    inBounds sh k = true ↔ List.Forall₂ (fun n i => 0 ≤ i ∧ i < n) sh k := by
  induction sh generalizing k with
  | nil => cases k <;> simp [inBounds]
  | cons n sh ih =>
    cases k with
    | nil => simp [inBounds]
    | cons i k =>
      rw [List.forall₂_cons, ← ih]
      simp [inBounds, and_assoc, and_left_comm]

theorem inBounds_iff_mem_allIdx (sh k : List Int) : inBounds sh k = true ↔ k ∈ allIdx sh := by
  rw [inBounds_iff_forall₂, C09.mem_allIdx]

/-- an in-bounds multi-index has an in-range flat index -/
theorem ravel_lt_of_inBounds {sh k : List Int} (h : inBounds sh k = true) :
    (ravel sh k).toNat < (shapeProd sh).toNat := by
  obtain ⟨h0, h1, _⟩ := C09.allIdx_getElem?_ravel ((inBounds_iff_mem_allIdx sh k).mp h)
  omega

/-- `ravel` is injective on in-bounds multi-indices, also after `toNat` -/
theorem ravel_toNat_inj {sh k k' : List Int} (h : inBounds sh k = true) (h' : inBounds sh k' = true)
    (e : (ravel sh k).toNat = (ravel sh k').toNat) : k = k' := by
  have m := (inBounds_iff_mem_allIdx sh k).mp h
  have m' := (inBounds_iff_mem_allIdx sh k').mp h'
  obtain ⟨h0, _, _⟩ := C09.allIdx_getElem?_ravel m
  obtain ⟨h0', _, _⟩ := C09.allIdx_getElem?_ravel m'
  exact C09.ravel_injective m m' (by omega)

/-- function-level semantics with an arbitrary scalar action (for `smul = (· * ·)` this is `runUpd`) -/
def runG {α : Type} [Add α] [Zero α] (smul : Rat → α → α) (acc : Bool) (E : List (Upd Rat))
    (x : List Int → α) (out : List Int → α) : List Int → α :=
  E.foldl (fun o u => Function.update o u.1 ((if acc then o u.1 else 0) + smul u.2.2 (x u.2.1))) out

theorem runG_mul (acc : Bool) (E : List (Upd Rat)) (x out : List Int → Rat) :
    runG (· * ·) acc E x out = runUpd acc E x out := rfl

/-- one step of `applyUpd` -/
def applyStep {α} [Add α] [Zero α] (smul : Rat → α → α) (acc : Bool) (oshape ishape : List Int) (x : Array α)
    (out : Array α) (u : Upd Rat) : Option (Array α) :=
  let (o, i, w) := u
  if inBounds oshape o && inBounds ishape i then
    let oi := (ravel oshape o).toNat
    let ii := (ravel ishape i).toNat
    if h : oi < out.size then
      some (out.set oi ((if acc then out[oi] else 0) + smul w (x.getD ii 0)))
    else none
  else none

theorem applyUpd_eq_foldlM {α} [Add α] [Zero α] (smul : Rat → α → α) (acc : Bool) (oshape ishape : List Int)
    (E : List (Upd Rat)) (x : Array α) :
    applyUpd smul acc oshape ishape E x =
      E.foldlM (applyStep smul acc oshape ishape x) (Array.replicate (shapeProd oshape).toNat 0) := rfl

/-- the fold of `applyUpd` from any array of the right size that represents a function `f` on the
    in-bounds multi-indices -/
theorem foldlM_applyStep {α : Type} [Add α] [Zero α] (smul : Rat → α → α) (acc : Bool) (oshape ishape : List Int)
    (x : Array α) (E : List (Upd Rat))
    (hE : ∀ u ∈ E, inBounds oshape u.1 = true ∧ inBounds ishape u.2.1 = true)
    (out0 : Array α) (f : List Int → α) (hsz : out0.size = (shapeProd oshape).toNat)
    (hf : ∀ d, inBounds oshape d = true → out0.getD (ravel oshape d).toNat 0 = f d) :
    ∃ out, E.foldlM (applyStep smul acc oshape ishape x) out0 = some out ∧
      out.size = (shapeProd oshape).toNat ∧
      ∀ d, inBounds oshape d = true →
        out.getD (ravel oshape d).toNat 0 =
          runG smul acc E (fun i => x.getD (ravel ishape i).toNat 0) f d := by
  induction E generalizing out0 f with
  | nil => exact ⟨out0, rfl, hsz, fun d hd => hf d hd⟩
  | cons u E ih =>
    obtain ⟨o, i, w⟩ := u
    have hu := hE (o, i, w) List.mem_cons_self
    have ho : inBounds oshape o = true := hu.1
    have hi : inBounds ishape i = true := hu.2
    have hlt : (ravel oshape o).toNat < out0.size := by rw [hsz]; exact ravel_lt_of_inBounds ho
    have hstep : applyStep smul acc oshape ishape x out0 (o, i, w) =
        some (out0.set (ravel oshape o).toNat
          ((if acc then out0[(ravel oshape o).toNat] else 0) + smul w (x.getD (ravel ishape i).toNat 0))) := by
      simp only [applyStep, ho, hi, Bool.and_self, if_true, hlt, dite_true]
    rw [List.foldlM_cons, hstep]
    simp only [Option.bind_eq_bind, Option.bind_some]
    have hget : out0[(ravel oshape o).toNat] = f o := by
      rw [← hf o ho, Array.getD_eq_getD_getElem?, Array.getElem?_eq_getElem hlt]; rfl
    obtain ⟨out, h1, h2, h3⟩ := ih (fun v hv => hE v (List.mem_cons_of_mem _ hv))
      (out0.set (ravel oshape o).toNat
          ((if acc then out0[(ravel oshape o).toNat] else 0) + smul w (x.getD (ravel ishape i).toNat 0)))
      (Function.update f o ((if acc then f o else 0) + smul w (x.getD (ravel ishape i).toNat 0)))
      (by simp [hsz])
      (by
        intro d hd
        by_cases hdo : d = o
        · subst hdo
          simp [Array.getD_eq_getD_getElem?, hlt, hget]
        · have hne : (ravel oshape o).toNat ≠ (ravel oshape d).toNat := fun e =>
            hdo (ravel_toNat_inj hd ho e.symm)
          rw [Function.update_of_ne hdo, ← hf d hd]
          simp [Array.getD_eq_getD_getElem?, hne])
    exact ⟨out, h1, h2, h3⟩

/-- if some update is out of bounds the application fails (Python: IndexError / numba: memory corruption) -/
theorem foldlM_applyStep_none {α : Type} [Add α] [Zero α] (smul : Rat → α → α) (acc : Bool)
    (oshape ishape : List Int) (x : Array α) (E : List (Upd Rat))
    (hE : ∃ u ∈ E, ¬ (inBounds oshape u.1 = true ∧ inBounds ishape u.2.1 = true))
    (out0 : Array α) : E.foldlM (applyStep smul acc oshape ishape x) out0 = none := by
  induction E generalizing out0 with
  | nil => simp at hE
  | cons u E ih =>
    rw [List.foldlM_cons]
    cases hs : applyStep smul acc oshape ishape x out0 u with
    | none => rfl
    | some out' =>
      simp only [Option.bind_eq_bind, Option.bind_some]
      apply ih
      obtain ⟨v, hv, hbad⟩ := hE
      rcases List.mem_cons.mp hv with rfl | hv
      · exfalso
        obtain ⟨o, i, w⟩ := v
        simp only [applyStep] at hs
        split at hs
        · rename_i hc
          simp only [Bool.and_eq_true] at hc
          exact hbad hc
        · cases hs
      · exact ⟨v, hv, hbad⟩

/-- row-major index of a concatenated multi-index: `out[batch…, pts…]` lives at
    `ravel batch b * prod pts + ravel pts p` -/
theorem ravel_append (a b i j : List Int) (ha : i.length = a.length) (hb : j.length = b.length) :
    ravel (a ++ b) (i ++ j) = ravel a i * shapeProd b + ravel b j := by
  induction a generalizing i with
  | nil =>
    have : i = [] := List.length_eq_zero_iff.mp (by simpa using ha)
    subst this
    simp [C09.ravel_nil]
  | cons n a ih =>
    cases i with
    | nil => simp at ha
    | cons i0 i =>
      have ha' : i.length = a.length := by simpa using ha
      rw [List.cons_append, List.cons_append, C09.ravel_cons n i0 (a ++ b) (i ++ j) (by simp [ha', hb]),
        C09.ravel_cons n i0 a i ha', ih i ha', C09.shapeProd_append]
      ring

theorem ravel_pair (B N b j : Int) : ravel [B, N] [b, j] = b * N + j := by
  simp [ravel]

/-! ### filtering a loop nest by destination -/

theorem pyRange_nodup (a b s : Int) : (pyRange a b s).Nodup := by
  unfold pyRange
  split_ifs with hs
  · exact List.nodup_nil
  · refine List.Nodup.map ?_ List.nodup_range
    intro k₁ k₂ h
    have h' : (k₁ : Int) * s = (k₂ : Int) * s := by simpa using h
    have : (k₁ : Int) = (k₂ : Int) := Int.eq_of_mul_eq_mul_right (by omega) h'
    exact_mod_cast this

theorem filter_flatMap_none {α β : Type} (l : List α) (F : α → List β) (p : β → Bool)
    (hp : ∀ a ∈ l, ∀ y ∈ F a, p y = false) : (l.flatMap F).filter p = [] := by
  rw [List.filter_eq_nil_iff]
  intro y hy
  obtain ⟨a, ha, hya⟩ := List.mem_flatMap.mp hy
  simp [hp a ha y hya]

/-- filtering a `flatMap` whose blocks are separated by the predicate keeps the one matching block -/
theorem filter_flatMap_unique {α β : Type} (l : List α) (F : α → List β) (p : β → Bool) (a0 : α)
    (hl : l.Nodup) (ha : a0 ∈ l) (hp : ∀ a ∈ l, a ≠ a0 → ∀ y ∈ F a, p y = false) :
    (l.flatMap F).filter p = (F a0).filter p := by
  induction l with
  | nil => simp at ha
  | cons a l ih =>
    rw [List.flatMap_cons, List.filter_append]
    have hnd := List.nodup_cons.mp hl
    by_cases h : a = a0
    · subst h
      rw [filter_flatMap_none l F p, List.append_nil]
      intro b hb y hy
      exact hp b (List.mem_cons_of_mem _ hb) (fun e => hnd.1 (e ▸ hb)) y hy
    · have : (F a).filter p = [] := by
        rw [List.filter_eq_nil_iff]
        intro y hy
        simp [hp a List.mem_cons_self h y hy]
      rw [this, List.nil_append]
      exact ih hnd.2 ((List.mem_cons.mp ha).resolve_left (fun e => h e.symm))
        (fun b hb => hp b (List.mem_cons_of_mem _ hb))

end SigpyVerif.C07
