import Mathlib.Analysis.InnerProductSpace.Basic
import Mathlib.Analysis.Normed.Lp.PiLp
import Mathlib.Analysis.Normed.Lp.ProdLp
import Mathlib.Tactic.Linarith
import Mathlib.Tactic.Ring
import Mathlib.Tactic.FieldSimp
import Mathlib.Tactic.Positivity
/-
  C11 — abstract theory of proximal operators used by `Props/C11.lean`.

  `IsProxOn C F y p` says: `p ∈ C` and for every `x ∈ C`
      F p + ½‖p - y‖² + ½‖x - p‖² ≤ F x + ½‖x - y‖².
  For `g = F + indicator(C)` this is the statement "`p` minimises `½‖x - y‖² + g x`" in its strong
  (1-strongly-convex) form; it gives minimality (`IsProxOn.le`) and uniqueness (`IsProxOn.unique`).
  In an inner product space it is *equivalent* to the subgradient / variational inequality
      ∀ x ∈ C, F p + ⟪y - p, x - p⟫ ≤ F x         (`isProxOn_iff_subgrad`)
  (for `F = 0`: `⟪y - p, x - p⟫ ≤ 0`, the projection characterisation), so nothing is lost by using it
  as *the* definition of "P(α,y) is the exact minimiser".
-/
namespace SigpyVerif.C11
open InnerProductSpace

section Basic
variable {E : Type*} [NormedAddCommGroup E]

/-- `p = argmin_{x ∈ C} ½‖x - y‖² + F x`, strong form. -/
def IsProxOn (C : Set E) (F : E → ℝ) (y p : E) : Prop :=
  p ∈ C ∧ ∀ x ∈ C, F p + ‖p - y‖ ^ 2 / 2 + ‖x - p‖ ^ 2 / 2 ≤ F x + ‖x - y‖ ^ 2 / 2

/-- projection onto `C`: the prox of the indicator of `C` -/
abbrev IsProjOn (C : Set E) (y p : E) : Prop := IsProxOn C (fun _ => (0 : ℝ)) y p

/-- minimality: the objective at `p` is ≤ the objective at every feasible `x` -/
theorem IsProxOn.le {C : Set E} {F : E → ℝ} {y p : E} (h : IsProxOn C F y p) {x : E} (hx : x ∈ C) :
    F p + ‖p - y‖ ^ 2 / 2 ≤ F x + ‖x - y‖ ^ 2 / 2 := by
  have := h.2 x hx
  have h2 : 0 ≤ ‖x - p‖ ^ 2 / 2 := by positivity
  linarith

/-- uniqueness: any feasible point that is at least as good as `p` *is* `p` -/
theorem IsProxOn.unique {C : Set E} {F : E → ℝ} {y p : E} (h : IsProxOn C F y p) {x : E} (hx : x ∈ C)
    (hle : F x + ‖x - y‖ ^ 2 / 2 ≤ F p + ‖p - y‖ ^ 2 / 2) : x = p := by
  have := h.2 x hx
  have h2 : ‖x - p‖ ^ 2 ≤ 0 := by linarith
  have h3 : ‖x - p‖ = 0 := by
    have := norm_nonneg (x - p)
    nlinarith
  exact sub_eq_zero.mp (norm_eq_zero.mp h3)

/-- two points satisfying the characterisation coincide -/
theorem IsProxOn.eq {C : Set E} {F : E → ℝ} {y p q : E} (h : IsProxOn C F y p) (h' : IsProxOn C F y q) :
    q = p := h.unique h'.1 (h'.le h.1)

/-- a feasible point is its own projection … -/
theorem isProjOn_self {C : Set E} {y : E} (hy : y ∈ C) : IsProjOn C y y := by
  refine ⟨hy, fun x _ => ?_⟩
  simp

/-- … so whatever satisfies the projection characterisation returns a feasible `y` unchanged -/
theorem IsProxOn.fixed_of_feasible {C : Set E} {y p : E} (h : IsProjOn C y p) (hy : y ∈ C) : p = y :=
  (isProjOn_self hy).eq h

/-- projections are idempotent -/
theorem IsProxOn.idempotent {C : Set E} {y p q : E} (h : IsProjOn C y p) (h' : IsProjOn C p q) : q = p :=
  h'.fixed_of_feasible h.1

end Basic

section Inner
variable {E : Type*} [NormedAddCommGroup E] [InnerProductSpace ℝ E]

theorem prox_gap_identity (x y p : E) :
    ‖x - y‖ ^ 2 / 2 - ‖p - y‖ ^ 2 / 2 - ‖x - p‖ ^ 2 / 2 = - ⟪y - p, x - p⟫_ℝ := by
  have h1 : x - y = (x - p) - (y - p) := by abel
  have h2 : p - y = -(y - p) := by abel
  rw [h1, h2, norm_sub_sq_real, norm_neg, real_inner_comm]
  ring

/-- the strong minimiser inequality is the variational (subgradient) inequality -/
theorem isProxOn_iff_subgrad {C : Set E} {F : E → ℝ} {y p : E} :
    IsProxOn C F y p ↔ p ∈ C ∧ ∀ x ∈ C, F p + ⟪y - p, x - p⟫_ℝ ≤ F x := by
  unfold IsProxOn
  refine and_congr_right fun _ => forall₂_congr fun x _ => ?_
  have := prox_gap_identity x y p
  constructor <;> intro h <;> linarith

/-- projection characterisation `⟪y - p, q - p⟫ ≤ 0` -/
theorem isProjOn_iff {C : Set E} {y p : E} :
    IsProjOn C y p ↔ p ∈ C ∧ ∀ q ∈ C, ⟪y - p, q - p⟫_ℝ ≤ 0 := by
  rw [IsProjOn, isProxOn_iff_subgrad]; simp

omit [InnerProductSpace ℝ E] in
/-- translation by a bias `b`: `prox` of `F(· - b)` on `C + b` at `y + b` is `p + b`
    (`L2Proj(y=b)`, `LInfProj(bias=b)` compute `proj(input - b) + b`). -/
theorem IsProxOn.translate {C : Set E} {F : E → ℝ} {y p : E} (h : IsProxOn C F y p) (b : E) :
    IsProxOn {x | x - b ∈ C} (fun x => F (x - b)) (y + b) (p + b) := by
  refine ⟨by simpa using h.1, fun x hx => ?_⟩
  have := h.2 (x - b) hx
  have e1 : p + b - (y + b) = p - y := by abel
  have e2 : x - (p + b) = x - b - p := by abel
  have e3 : x - (y + b) = x - b - y := by abel
  simp only [add_sub_cancel_right, e1, e2, e3]
  exact this

/-- **L2Reg closed form.**  With `β = α/(1+λα)` and `u = (y + λα z)/(1+λα)`:
    if `p = prox_{β h}(u)` (on `C`) then `p = prox_{α(λ/2‖·-z‖² + h)}(y)` (on `C`). -/
theorem l2reg_prox {C : Set E} {h : E → ℝ} {α lam : ℝ} (hα : 0 < α) (hl : 0 ≤ lam) (y z p : E)
    (hp : IsProxOn C (fun x => α / (1 + lam * α) * h x) ((1 + lam * α)⁻¹ • (y + (lam * α) • z)) p) :
    IsProxOn C (fun x => α * (lam / 2 * ‖x - z‖ ^ 2 + h x)) y p := by
  rw [isProxOn_iff_subgrad] at hp ⊢
  refine ⟨hp.1, fun x hx => ?_⟩
  have hd : 0 < 1 + lam * α := by positivity
  have key := hp.2 x hx
  -- multiply the hypothesis by (1 + λα)
  rw [inner_sub_left, real_inner_smul_left, inner_add_left, real_inner_smul_left] at key
  have key2 : α * h p + (⟪y - p, x - p⟫_ℝ + lam * α * ⟪z - p, x - p⟫_ℝ) ≤ α * h x := by
    have := mul_le_mul_of_nonneg_left key hd.le
    rw [inner_sub_left, inner_sub_left]
    have e1 : (1 + lam * α) * (α / (1 + lam * α) * h p) = α * h p := by field_simp
    have e2 : (1 + lam * α) * (α / (1 + lam * α) * h x) = α * h x := by field_simp
    have e3 : (1 + lam * α) * ((1 + lam * α)⁻¹ * (⟪y, x - p⟫_ℝ + lam * α * ⟪z, x - p⟫_ℝ))
        = ⟪y, x - p⟫_ℝ + lam * α * ⟪z, x - p⟫_ℝ := by field_simp
    rw [mul_add, mul_sub, e1, e2, e3] at this
    linarith
  -- ‖x - z‖² = ‖x - p‖² + 2⟪x - p, p - z⟫ + ‖p - z‖²
  have hx : ‖x - z‖ ^ 2 = ‖x - p‖ ^ 2 - 2 * ⟪z - p, x - p⟫_ℝ + ‖p - z‖ ^ 2 := by
    have h1 : x - z = (x - p) - (z - p) := by abel
    have h2 : p - z = -(z - p) := by abel
    rw [h1, h2, norm_sub_sq_real, norm_neg, real_inner_comm]
  have hsq : 0 ≤ ‖x - p‖ ^ 2 := by positivity
  have hla : 0 ≤ lam * α := by positivity
  nlinarith [mul_nonneg hla hsq]

/-- Fenchel conjugate, possibly extended-valued: `g* = gs + indicator(D)` is the conjugate of
    `g + indicator(C)`: `q ∈ D` iff `x ↦ ⟪q,x⟫ - g x` is bounded above on `C`, and then `gs q` is
    its least upper bound. -/
def IsConjOn (C : Set E) (g : E → ℝ) (D : Set E) (gs : E → ℝ) : Prop :=
  ∀ q, (q ∈ D ↔ BddAbove ((fun x => ⟪q, x⟫_ℝ - g x) '' C)) ∧
       (q ∈ D → IsLUB ((fun x => ⟪q, x⟫_ℝ - g x) '' C) (gs q))

/-- **Moreau identity (`Conj`).**  If `p = prox_{g/α}(x/α)` then `x - α p = prox_{α g*}(x)`. -/
theorem moreau {C D : Set E} {g gs : E → ℝ} (hc : IsConjOn C g D gs) {α : ℝ} (hα : 0 < α) (x p : E)
    (hp : IsProxOn C (fun u => (1 / α) * g u) ((1 / α) • x) p) :
    IsProxOn D (fun q => α * gs q) x (x - α • p) := by
  rw [isProxOn_iff_subgrad] at hp ⊢
  obtain ⟨hpC, hp⟩ := hp
  -- q := x - αp is a subgradient of g at p
  have hsub : ∀ u ∈ C, g p + ⟪x - α • p, u - p⟫_ℝ ≤ g u := by
    intro u hu
    have := hp u hu
    have e : (1 / α) • x - p = (1 / α) • (x - α • p) := by
      rw [smul_sub, smul_smul, one_div, inv_mul_cancel₀ hα.ne', one_smul]
    rw [e, real_inner_smul_left] at this
    have := mul_le_mul_of_nonneg_left this hα.le
    have e1 : α * (1 / α * g p + 1 / α * ⟪x - α • p, u - p⟫_ℝ) = g p + ⟪x - α • p, u - p⟫_ℝ := by
      field_simp
    have e2 : α * (1 / α * g u) = g u := by field_simp
    rw [e1, e2] at this; exact this
  set q := x - α • p with hq
  have hub : ∀ u ∈ C, ⟪q, u⟫_ℝ - g u ≤ ⟪q, p⟫_ℝ - g p := by
    intro u hu
    have := hsub u hu
    rw [inner_sub_right] at this; linarith
  have hqD : q ∈ D := (hc q).1.mpr ⟨_, by rintro _ ⟨u, hu, rfl⟩; exact hub u hu⟩
  have hgsq : gs q = ⟪q, p⟫_ℝ - g p := by
    have hl := (hc q).2 hqD
    apply le_antisymm
    · exact hl.2 (by rintro _ ⟨u, hu, rfl⟩; exact hub u hu)
    · exact hl.1 ⟨p, hpC, rfl⟩
  refine ⟨hqD, fun q' hq' => ?_⟩
  have hl := ((hc q').2 hq').1 ⟨p, hpC, rfl⟩
  simp only at hl
  have e : x - q = α • p := by rw [hq]; abel
  rw [e, real_inner_smul_left, hgsq]
  have : ⟪p, q' - q⟫_ℝ = ⟪q', p⟫_ℝ - ⟪q, p⟫_ℝ := by
    rw [inner_sub_right, real_inner_comm, real_inner_comm p q]
  rw [this]
  nlinarith

/-- **UnitaryTransform.**  `A` linear with adjoint `AH`, `AH ∘ A = id`, `A ∘ AH = id`:
    if `p = prox_g(A y)` then `AH p = prox_{g∘A}(y)`. -/
theorem unitary_transform {F' : Type*} [NormedAddCommGroup F'] [InnerProductSpace ℝ F']
    (A : E →ₗ[ℝ] F') (AH : F' →ₗ[ℝ] E) (hadj : ∀ u v, ⟪A u, v⟫_ℝ = ⟪u, AH v⟫_ℝ)
    (hAHA : ∀ u, AH (A u) = u) (hAAH : ∀ v, A (AH v) = v)
    {C : Set F'} {g : F' → ℝ} (y : E) (p : F') (hp : IsProxOn C g (A y) p) :
    IsProxOn {x | A x ∈ C} (fun x => g (A x)) y (AH p) := by
  rw [isProxOn_iff_subgrad] at hp ⊢
  refine ⟨by simpa [hAAH] using hp.1, fun x hx => ?_⟩
  have := hp.2 (A x) hx
  have e : ⟪A y - p, A x - p⟫_ℝ = ⟪y - AH p, x - AH p⟫_ℝ := by
    have h1 : A y - p = A (y - AH p) := by rw [map_sub, hAAH]
    have h2 : A x - p = A (x - AH p) := by rw [map_sub, hAAH]
    rw [h1, h2, hadj, hAHA]
  simp only [hAAH]
  rw [← e]; exact this

/-- **l2-ball projection** incl. the boundary: `y` if `‖y‖ < ε`, else `(ε/‖y‖) y`. -/
theorem l2_ball_proj {ε : ℝ} (hε : 0 ≤ ε) (y : E) :
    IsProjOn {x | ‖x‖ ≤ ε} y (if ‖y‖ < ε then y else (ε / ‖y‖) • y) := by
  split_ifs with h
  · exact isProjOn_self (le_of_lt h)
  · rw [not_lt] at h
    rw [isProjOn_iff]
    rcases eq_or_lt_of_le hε with h0 | hpos
    · -- ε = 0
      subst h0
      simp only [zero_div, zero_smul, norm_zero, le_refl, Set.mem_ofPred_eq, true_and]
      intro q hq
      have : q = 0 := norm_le_zero_iff.mp hq
      simp [this]
    have hy : 0 < ‖y‖ := lt_of_lt_of_le hpos h
    refine ⟨?_, fun q hq => ?_⟩
    · simp only [Set.mem_ofPred_eq, norm_smul, Real.norm_eq_abs]
      rw [abs_of_nonneg (by positivity)]
      field_simp; exact le_refl _
    · have hq : ‖q‖ ≤ ε := hq
      have e1 : y - (ε / ‖y‖) • y = (1 - ε / ‖y‖) • y := by rw [sub_smul, one_smul]
      rw [e1, real_inner_smul_left, inner_sub_right, real_inner_smul_right, real_inner_self_eq_norm_sq]
      have hcs : ⟪y, q⟫_ℝ ≤ ‖y‖ * ‖q‖ := real_inner_le_norm y q
      have hc : 0 ≤ 1 - ε / ‖y‖ := by
        rw [sub_nonneg, div_le_one hy]; exact h
      have : ⟪y, q⟫_ℝ - ε / ‖y‖ * ‖y‖ ^ 2 ≤ 0 := by
        have e2 : ε / ‖y‖ * ‖y‖ ^ 2 = ε * ‖y‖ := by field_simp
        rw [e2]
        nlinarith [norm_nonneg q]
      exact mul_nonpos_of_nonneg_of_nonpos hc this

/-- a prox of `θ·N` whose value sits on the level set `N p = ε` is the projection onto the sublevel
    set `{N ≤ ε}` (KKT for `l1_proj`: `N = ‖·‖₁`, `p = soft(θ, y)`). -/
theorem proj_of_prox_on_level {N : E → ℝ} {θ ε : ℝ} (hθ : 0 ≤ θ) {y p : E}
    (hp : IsProxOn Set.univ (fun x => θ * N x) y p) (hN : N p = ε) :
    IsProjOn {x | N x ≤ ε} y p := by
  rw [isProxOn_iff_subgrad] at hp
  rw [isProjOn_iff]
  refine ⟨by simp [hN], fun q hq => ?_⟩
  have := hp.2 q (Set.mem_univ _)
  have hq : N q ≤ ε := hq
  rw [hN] at this
  nlinarith

end Inner


/-- the same statement for an equal feasible set and a pointwise equal objective -/
theorem IsProxOn.congr {E : Type*} [NormedAddCommGroup E] {C C' : Set E} {F F' : E → ℝ} {y p : E}
    (h : IsProxOn C F y p) (hC : C' = C) (hF : ∀ x, F' x = F x) : IsProxOn C' F' y p := by
  subst hC
  refine ⟨h.1, fun x hx => ?_⟩
  rw [hF, hF]; exact h.2 x hx

section BlockSoft
variable {E : Type*} [NormedAddCommGroup E] [InnerProductSpace ℝ E]

/-- block soft threshold `(‖y‖ - λ)₊ · y/‖y‖` -/
noncomputable def blockSoft (lam : ℝ) (y : E) : E := if ‖y‖ ≤ lam then 0 else (1 - lam / ‖y‖) • y

theorem norm_blockSoft {lam : ℝ} (hl : 0 ≤ lam) (y : E) : ‖blockSoft lam y‖ = max (‖y‖ - lam) 0 := by
  unfold blockSoft
  split_ifs with h
  · rw [norm_zero, max_eq_right (by linarith)]
  · rw [not_le] at h
    have hy : 0 < ‖y‖ := lt_of_le_of_lt hl h
    rw [norm_smul, Real.norm_eq_abs, abs_of_nonneg, max_eq_left (by linarith)]
    · field_simp
    · rw [sub_nonneg, div_le_one hy]; exact h.le

/-- **soft threshold = prox of `λ‖·‖`** in any real inner product space (ℝ: `λ|x|`, ℂ: `λ|z|`). -/
theorem norm_prox {lam : ℝ} (hl : 0 ≤ lam) (y : E) :
    IsProxOn Set.univ (fun x => lam * ‖x‖) y (blockSoft lam y) := by
  rw [isProxOn_iff_subgrad]
  refine ⟨Set.mem_univ _, fun x _ => ?_⟩
  have hcs : ⟪y, x⟫_ℝ ≤ ‖y‖ * ‖x‖ := real_inner_le_norm y x
  unfold blockSoft
  split_ifs with h
  · simp only [norm_zero, mul_zero, sub_zero, zero_add]
    nlinarith [norm_nonneg x, norm_nonneg y]
  · rw [not_le] at h
    have hy : 0 < ‖y‖ := lt_of_le_of_lt hl h
    have hc : 0 ≤ 1 - lam / ‖y‖ := by rw [sub_nonneg, div_le_one hy]; exact h.le
    have e1 : y - (1 - lam / ‖y‖) • y = (lam / ‖y‖) • y := by
      rw [sub_smul, one_smul]; abel
    rw [e1, norm_smul, Real.norm_eq_abs, abs_of_nonneg hc, real_inner_smul_left, inner_sub_right,
      real_inner_smul_right, real_inner_self_eq_norm_sq]
    have e2 : lam / ‖y‖ * (⟪y, x⟫_ℝ - (1 - lam / ‖y‖) * ‖y‖ ^ 2)
        = lam / ‖y‖ * ⟪y, x⟫_ℝ - lam * ((1 - lam / ‖y‖) * ‖y‖) := by field_simp
    rw [e2]
    have e3 : lam / ‖y‖ * ⟪y, x⟫_ℝ ≤ lam * ‖x‖ := by
      have : lam / ‖y‖ * ⟪y, x⟫_ℝ ≤ lam / ‖y‖ * (‖y‖ * ‖x‖) :=
        mul_le_mul_of_nonneg_left hcs (by positivity)
      have e4 : lam / ‖y‖ * (‖y‖ * ‖x‖) = lam * ‖x‖ := by field_simp
      linarith
    linarith

/-- `y - soft(ε, y)` is the projection of `y` onto the ball of radius `ε` (this is `linf_proj` per entry). -/
theorem sub_blockSoft_eq {ε : ℝ} (y : E) :
    y - blockSoft ε y = if ‖y‖ < ε then y else (ε / ‖y‖) • y := by
  unfold blockSoft
  by_cases h : ‖y‖ ≤ ε
  · rw [if_pos h, sub_zero]
    rcases lt_or_eq_of_le h with h' | h'
    · rw [if_pos h']
    · rw [if_neg (by rw [h']; exact lt_irrefl _)]
      by_cases hy : ‖y‖ = 0
      · have : y = 0 := norm_eq_zero.mp hy
        simp [this]
      · rw [← h', div_self hy, one_smul]
  · rw [if_neg h, if_neg (fun h' => h (le_of_lt h')), sub_smul, one_smul]; abel

theorem sub_blockSoft_proj {ε : ℝ} (hε : 0 ≤ ε) (y : E) :
    IsProjOn {x | ‖x‖ ≤ ε} y (y - blockSoft ε y) := by
  rw [sub_blockSoft_eq]; exact l2_ball_proj hε y

end BlockSoft

section Separable
open scoped ENNReal
variable {ι : Type*} [Fintype ι] {β : ι → Type*} [∀ i, NormedAddCommGroup (β i)]

/-- **separability (`Stack`, and every elementwise prox).**  Coordinatewise minimisers assemble to
    the minimiser of the separable sum over the `ℓ²` product (`‖x‖² = Σ ‖x i‖²`). -/
theorem isProxOn_pi {C : ∀ i, Set (β i)} {F : ∀ i, β i → ℝ} (y p : PiLp 2 β)
    (h : ∀ i, IsProxOn (C i) (F i) (y i) (p i)) :
    IsProxOn {x : PiLp 2 β | ∀ i, x i ∈ C i} (fun x => ∑ i, F i (x i)) y p := by
  refine ⟨fun i => (h i).1, fun x hx => ?_⟩
  rw [PiLp.norm_sq_eq_of_L2, PiLp.norm_sq_eq_of_L2, PiLp.norm_sq_eq_of_L2]
  simp only [PiLp.sub_apply]
  have := Finset.sum_le_sum (fun i (_ : i ∈ Finset.univ) => (h i).2 (x i) (hx i))
  simp only [Finset.sum_add_distrib, ← Finset.sum_div] at this
  linarith

variable {E₁ E₂ : Type*} [NormedAddCommGroup E₁] [NormedAddCommGroup E₂]

/-- binary version: `Stack([P₁, P₂])` on the `ℓ²` product `E₁ × E₂` -/
theorem isProxOn_prod {C₁ : Set E₁} {C₂ : Set E₂} {F₁ : E₁ → ℝ} {F₂ : E₂ → ℝ} (y p : WithLp 2 (E₁ × E₂))
    (h1 : IsProxOn C₁ F₁ y.fst p.fst) (h2 : IsProxOn C₂ F₂ y.snd p.snd) :
    IsProxOn {x : WithLp 2 (E₁ × E₂) | x.fst ∈ C₁ ∧ x.snd ∈ C₂} (fun x => F₁ x.fst + F₂ x.snd) y p := by
  refine ⟨⟨h1.1, h2.1⟩, fun x hx => ?_⟩
  rw [WithLp.prod_norm_sq_eq_of_L2, WithLp.prod_norm_sq_eq_of_L2, WithLp.prod_norm_sq_eq_of_L2]
  have a := h1.2 x.fst hx.1
  have b := h2.2 x.snd hx.2
  simp only [WithLp.sub_fst, WithLp.sub_snd]
  linarith

end Separable
/-- non-vacuity of `IsConjOn`: `g = ½‖·‖²` is its own conjugate (`Conj(L2Reg(shape, 1))`). -/
theorem isConjOn_half_sq {E : Type*} [NormedAddCommGroup E] [InnerProductSpace ℝ E] :
    IsConjOn (Set.univ : Set E) (fun x => ‖x‖ ^ 2 / 2) Set.univ (fun q => ‖q‖ ^ 2 / 2) := by
  intro q
  have hb : ∀ x : E, ⟪q, x⟫_ℝ - ‖x‖ ^ 2 / 2 ≤ ‖q‖ ^ 2 / 2 := by
    intro x
    have := norm_sub_sq_real q x
    nlinarith [sq_nonneg ‖q - x‖]
  refine ⟨⟨fun _ => ⟨‖q‖ ^ 2 / 2, ?_⟩, fun _ => Set.mem_univ _⟩, fun _ => ⟨?_, ?_⟩⟩
  · rintro _ ⟨x, _, rfl⟩; exact hb x
  · rintro _ ⟨x, _, rfl⟩; exact hb x
  · intro b hb'
    have := hb' ⟨q, Set.mem_univ _, rfl⟩
    simp only [real_inner_self_eq_norm_sq] at this
    linarith

end SigpyVerif.C11
