import SigpyVerif.Lemmas.C06
import Mathlib.LinearAlgebra.Matrix.Kronecker
set_option linter.unusedTactic false
set_option linter.unreachableTactic false
/-
  Bridging lemmas for C06 in several dimensions: the constructions of Lemmas/C06.lean for an arbitrary finite index
  type `ι` with an injective multi-index map `ix : ι → List Int` (e.g. `Fin L₁ × Fin L₂` with `(a, b) ↦ [0, a, b]`).

  * `resizeMatNd`   — the 0/1 matrix of C09's N-d `resizeSrc` with default shifts; `resizeMatNd_conjTranspose` uses
                       C09's `resize_transpose_nd` (and `resize_default_swap` per axis);
  * `updLinG`       — update list as a linear map between `EuclideanSpace ℂ ι` and `EuclideanSpace ℂ κ`;
                       `updLinG_adjoint` from C07's `transpose_pairing`.
-/
namespace SigpyVerif.C06
open SigpyVerif Matrix ComplexConjugate
open scoped InnerProductSpace

/-! ### N-d zero-pad / crop -/

theorem zipWith_default_swap (a b : List Int) :
    List.zipWith Gen.resizeOshiftDefault a b = List.zipWith Gen.resizeIshiftDefault b a ∧
    List.zipWith Gen.resizeIshiftDefault a b = List.zipWith Gen.resizeOshiftDefault b a := by
  constructor
  · rw [List.zipWith_comm]
    congr 1
    all_goals (funext x y; exact (C09.resize_default_swap x y).symm)
  · rw [List.zipWith_comm]
    congr 1
    all_goals (funext x y; exact C09.resize_default_swap y x)

/-- `util.resize` with default shifts from shape `ish` to shape `osh` (C09's N-d source map `resizeSrc`) as a 0/1
    matrix between arbitrary index types carrying their multi-indices -/
def resizeMatNd {ι κ : Type} (ish osh : List Int) (ix : ι → List Int) (kx : κ → List Int) : Matrix κ ι ℂ :=
  Matrix.of fun k j =>
    if C09.resizeSrc ish osh (List.zipWith Gen.resizeIshiftDefault ish osh)
        (List.zipWith Gen.resizeOshiftDefault ish osh) (kx k) = some (ix j) then 1 else 0

/-- crop = (zero-pad)ᴴ in any number of dimensions: C09's `resize_transpose_nd` -/
theorem resizeMatNd_conjTranspose {ι κ : Type} (ish osh : List Int) (ix : ι → List Int) (kx : κ → List Int) :
    (resizeMatNd ish osh ix kx)ᴴ = resizeMatNd osh ish kx ix := by
  ext j k
  simp only [resizeMatNd, conjTranspose_apply, of_apply]
  have h := C09.resize_transpose_nd ish osh (List.zipWith Gen.resizeIshiftDefault ish osh)
    (List.zipWith Gen.resizeOshiftDefault ish osh) (kx k) (ix j)
  rw [(zipWith_default_swap ish osh).1.symm, (zipWith_default_swap osh ish).1]
  simp only [← h]
  split_ifs <;> simp

/-! ### update lists over general index types -/

section general
set_option linter.unusedSectionVars false
variable {ι κ : Type} [Fintype ι] [Fintype κ]

def embG (ix : ι → List Int) (x : ι → ℂ) (l : List Int) : ℂ := ∑ s : ι, if l = ix s then x s else 0

theorem embG_apply {ix : ι → List Int} (hix : Function.Injective ix) (x : ι → ℂ) (s : ι) : embG ix x (ix s) = x s := by
  unfold embG
  rw [Finset.sum_eq_single s]
  · simp
  · intro b _ hb
    rw [if_neg]
    intro h
    exact hb (hix h).symm
  · simp

theorem embG_add (ix : ι → List Int) (x y : ι → ℂ) (l : List Int) : embG ix (x + y) l = embG ix x l + embG ix y l := by
  unfold embG
  rw [← Finset.sum_add_distrib]
  apply Finset.sum_congr rfl
  intro s _
  split_ifs <;> simp

theorem embG_smul (ix : ι → List Int) (c : ℂ) (x : ι → ℂ) (l : List Int) : embG ix (c • x) l = c * embG ix x l := by
  unfold embG
  rw [Finset.mul_sum]
  apply Finset.sum_congr rfl
  intro s _
  split_ifs <;> simp

theorem embG_conj (ix : ι → List Int) (x : ι → ℂ) (l : List Int) :
    conj (embG ix x l) = embG ix (fun s => conj (x s)) l := by
  unfold embG
  rw [map_sum]
  apply Finset.sum_congr rfl
  intro s _
  split_ifs <;> simp

/-- run the update list (C07's `+=` semantics, zero-initialised output) on `x` and read the result at `jx j` -/
def updFunG (E : List (Upd ℂ)) (ix : ι → List Int) (jx : κ → List Int) (x : ι → ℂ) : κ → ℂ :=
  fun j => C07.runUpd true E (embG ix x) (fun _ => 0) (jx j)

theorem updFunG_eq (E : List (Upd ℂ)) (ix : ι → List Int) (jx : κ → List Int) (x : ι → ℂ) (j : κ) :
    updFunG E ix jx x j = ((E.filter (fun u => u.1 = jx j)).map (fun u => u.2.2 * embG ix x u.2.1)).sum := by
  unfold updFunG
  rw [C07.runUpd_acc_eq_sum, zero_add]

theorem updFunG_add (E : List (Upd ℂ)) (ix : ι → List Int) (jx : κ → List Int) (x y : ι → ℂ) :
    updFunG E ix jx (x + y) = updFunG E ix jx x + updFunG E ix jx y := by
  funext j
  simp only [Pi.add_apply, updFunG_eq, embG_add, mul_add, list_sum_map_add]

theorem updFunG_smul (E : List (Upd ℂ)) (ix : ι → List Int) (jx : κ → List Int) (c : ℂ) (x : ι → ℂ) :
    updFunG E ix jx (c • x) = c • updFunG E ix jx x := by
  funext j
  simp only [Pi.smul_apply, smul_eq_mul, updFunG_eq, embG_smul]
  rw [← list_sum_map_mul_left]
  congr 1
  apply List.map_congr_left
  intro u _
  ring

theorem updFunG_conj (E : List (Upd ℂ)) (ix : ι → List Int) (jx : κ → List Int)
    (hw : ∀ u ∈ E, conj u.2.2 = u.2.2) (x : ι → ℂ) (j : κ) :
    conj (updFunG E ix jx x j) = updFunG E ix jx (fun s => conj (x s)) j := by
  simp only [updFunG_eq, list_sum_map_conj]
  congr 1
  apply List.map_congr_left
  intro u hu
  rw [map_mul, hw u (List.mem_of_mem_filter hu), embG_conj]

noncomputable def updLinG (E : List (Upd ℂ)) (ix : ι → List Int) (jx : κ → List Int) :
    EuclideanSpace ℂ ι →ₗ[ℂ] EuclideanSpace ℂ κ where
  toFun x := WithLp.toLp 2 (updFunG E ix jx (WithLp.ofLp x))
  map_add' x y := by
    simp only [WithLp.ofLp_add, updFunG_add, WithLp.toLp_add]
  map_smul' c x := by
    simp only [WithLp.ofLp_smul, updFunG_smul, WithLp.toLp_smul, RingHom.id_apply]

theorem updLinG_apply (E : List (Upd ℂ)) (ix : ι → List Int) (jx : κ → List Int) (x : EuclideanSpace ℂ ι) (j : κ) :
    WithLp.ofLp (updLinG E ix jx x) j = updFunG E ix jx (WithLp.ofLp x) j := rfl

theorem sum_embG_image {ix : ι → List Int} (hix : Function.Injective ix) (y : ι → ℂ) (f : List Int → ℂ) :
    ∑ d ∈ (Finset.univ.image ix), embG ix y d * f d = ∑ s : ι, y s * f (ix s) := by
  rw [Finset.sum_image (fun a _ b _ h => hix h)]
  apply Finset.sum_congr rfl
  intro s _
  rw [embG_apply hix]

/-- gridding = interpolationᴴ for update lists with real weights over any index types (C07's `transpose_pairing`) -/
theorem updLinG_adjoint (E : List (Upd ℂ)) {ix : ι → List Int} {jx : κ → List Int} (hix : Function.Injective ix)
    (hjx : Function.Injective jx) (hw : ∀ u ∈ E, conj u.2.2 = u.2.2)
    (hd : ∀ u ∈ E, ∃ j : κ, u.1 = jx j) (hs : ∀ u ∈ E, ∃ s : ι, u.2.1 = ix s)
    (x : EuclideanSpace ℂ ι) (y : EuclideanSpace ℂ κ) :
    ⟪updLinG E ix jx x, y⟫_ℂ = ⟪x, updLinG (E.map C07.swapUpd) jx ix y⟫_ℂ := by
  rw [EuclideanSpace.inner_eq_star_dotProduct, EuclideanSpace.inner_eq_star_dotProduct]
  simp only [dotProduct, Pi.star_apply, RCLike.star_def, updLinG_apply]
  simp only [updFunG_conj E ix jx hw]
  have key := C07.transpose_pairing E (embG ix fun s => conj (WithLp.ofLp x s)) (embG jx (WithLp.ofLp y))
    (Finset.univ.image ix) (Finset.univ.image jx)
    (fun u hu => by
      obtain ⟨s, hs'⟩ := hs u hu
      rw [hs']; exact Finset.mem_image_of_mem _ (Finset.mem_univ s))
    (fun u hu => by
      obtain ⟨j, hj'⟩ := hd u hu
      rw [hj']; exact Finset.mem_image_of_mem _ (Finset.mem_univ j))
  rw [sum_embG_image hix, sum_embG_image hjx] at key
  unfold updFunG
  rw [← key]
  apply Finset.sum_congr rfl
  intro s _
  ring

end general

end SigpyVerif.C06
