import SigpyVerif.Model.C07
import SigpyVerif.Lemmas.Py
import Mathlib.Tactic.Ring
import Mathlib.Tactic.Linarith
import Mathlib.Tactic.NormNum
import Mathlib.Data.List.Basic
import Mathlib.Algebra.Order.Field.Rat
import Mathlib.Algebra.Order.AbsoluteValue.Basic
import Mathlib.Algebra.BigOperators.Group.Finset.Basic
import Mathlib.Algebra.BigOperators.Ring.Finset
import Mathlib.Algebra.BigOperators.Group.Finset.Piecewise
/-
  Helper lemmas for C07 (and for C06, which reuses the window / period facts).
  `runUpd` (function-level semantics of an update list) is linked to the executable `applyUpd` in
  Lemmas/C07Apply.lean / Props/C07Wrap.lean (`applyUpd_eq_runUpd`).
-/
namespace SigpyVerif.C07
open SigpyVerif

theorem ratAbs_eq_abs (a : Rat) : ratAbs a = |a| := by
  unfold ratAbs
  split_ifs with h
  · exact (abs_of_neg h).symm
  · exact (abs_of_nonneg (not_lt.mp h)).symm

theorem cast2 : (((2 : Int) : Int) : Rat) = 2 := by norm_num

/-- the integers between `⌈c - W/2⌉` and `⌊c + W/2⌋` are exactly those within `W/2` of `c` -/
theorem window_iff_abs' (c W : Rat) (i : Int) :
    (Rat.ceil (c - W / 2) ≤ i ∧ i ≤ Rat.floor (c + W / 2)) ↔ |(i : Rat) - c| ≤ W / 2 := by
  rw [Rat.ceil_le_iff, Rat.le_floor_iff, abs_le]
  constructor <;> rintro ⟨h1, h2⟩ <;> constructor <;> linarith

/-- membership in the generated window loop `range(x0, x1 + 1)` (in the exact form the translator emits) -/
theorem mem_window (c W : Rat) (x : Int) :
    x ∈ pyRange (Rat.ceil (c - W / (((2 : Int) : Int) : Rat)))
        (Rat.floor (c + W / (((2 : Int) : Int) : Rat)) + (1 : Int)) (1 : Int)
      ↔ |(x : Rat) - c| ≤ W / 2 := by
  rw [mem_pyRange (by omega), ← window_iff_abs', cast2]
  constructor
  · rintro ⟨h1, h2, _⟩; exact ⟨h1, by omega⟩
  · rintro ⟨h1, h2⟩; exact ⟨h1, by omega, by simp⟩

theorem pyRange_shift (a b n : Int) : pyRange (a + n) (b + n) 1 = (pyRange a b 1).map (· + n) := by
  unfold pyRange
  simp only [show ¬ ((1 : Int) ≤ 0) by omega, if_false, List.map_map]
  have : b + n - (a + n) + 1 - 1 = b - a + 1 - 1 := by ring
  rw [this]
  apply List.map_congr_left
  intro k _
  simp only [Function.comp]; ring

/-- shifting the centre by an integer shifts the generated window loop by the same integer -/
theorem window_shift (c W : Rat) (M : Int) :
    pyRange (Rat.ceil (c + (M : Rat) - W / (((2 : Int) : Int) : Rat)))
        (Rat.floor (c + (M : Rat) + W / (((2 : Int) : Int) : Rat)) + (1 : Int)) (1 : Int) =
      (pyRange (Rat.ceil (c - W / (((2 : Int) : Int) : Rat)))
        (Rat.floor (c + W / (((2 : Int) : Int) : Rat)) + (1 : Int)) (1 : Int)).map (· + M) := by
  have e1 : c + (M : Rat) - W / (((2 : Int) : Int) : Rat) = (c - W / (((2 : Int) : Int) : Rat)) + (M : Rat) := by ring
  have e2 : c + (M : Rat) + W / (((2 : Int) : Int) : Rat) = (c + W / (((2 : Int) : Int) : Rat)) + (M : Rat) := by ring
  rw [e1, e2, Rat.ceil_add_intCast, Rat.floor_add_intCast,
    show ∀ a b c : Int, a + b + c = a + c + b by intros; ring, pyRange_shift]

theorem cast_shift_sub (x M : Int) (c : Rat) :
    (((x + M : Int) : Int) : Rat) - (c + (M : Rat)) = ((x : Int) : Rat) - c := by
  push_cast; ring

theorem pyMod_add_mul (x m n : Int) (hn : 0 < n) : pyMod (x + m * n) n = pyMod x n := by
  rw [pyMod_of_pos _ hn, pyMod_of_pos _ hn, Int.add_mul_emod_self_right]

theorem pyMod_range (x n : Int) (hn : 0 < n) : 0 ≤ pyMod x n ∧ pyMod x n < n := by
  rw [pyMod_of_pos _ hn]; exact ⟨Int.emod_nonneg _ (by omega), Int.emod_lt_of_pos _ hn⟩

/-! ### semantics of an update list -/

/-- sequential semantics of the numba loops on an array viewed as a function of the multi-index:
    one update is `out[dst] += w * x[src]` (`acc = true`) or `out[dst] = w * x[src]` (`acc = false`). -/
def runUpd {R : Type} [Semiring R] (acc : Bool) (E : List (Upd R)) (x : List Int → R) (out : List Int → R) :
    List Int → R :=
  E.foldl (fun o u => Function.update o u.1 ((if acc then o u.1 else 0) + u.2.2 * x u.2.1)) out

/-- the bilinear pairing `Σ_updates y[dst] * w * x[src]` -/
def pairing {R : Type} [CommSemiring R] (E : List (Upd R)) (y x : List Int → R) : R :=
  (E.map fun u => y u.1 * (u.2.2 * x u.2.1)).sum

theorem pairing_swap {R : Type} [CommSemiring R] (E : List (Upd R)) (y x : List Int → R) :
    pairing (E.map swapUpd) x y = pairing E y x := by
  unfold pairing
  rw [List.map_map]
  congr 1
  apply List.map_congr_left
  intro u _
  simp only [Function.comp, swapUpd]; ring

end SigpyVerif.C07
