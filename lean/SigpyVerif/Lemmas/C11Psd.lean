import Mathlib.LinearAlgebra.Matrix.PosDef
import Mathlib.Analysis.RCLike.Basic
import Mathlib.Tactic.Linarith
import Mathlib.Tactic.Ring
/-
  C11 — trace / Frobenius lemmas for `thresh.psd_proj` (used by `Props/C11Psd.lean`).

  `frobRe A B = Re tr(Aᴴ B)` is the real Frobenius inner product of two square matrices over `𝕜 = ℝ` or `ℂ`
  (`frobRe A A = Σ |a_ij|²`).  `dg w` is the diagonal matrix of a real vector.  The main lemma
  `psd_spectral_core`: for any `U` with `Uᴴ U = 1` and real `w`, with `H = U dg(w) Uᴴ` and `P = U dg(w₊) Uᴴ`:
  `P` is PSD, `P - H` is PSD, `(H - P) P = 0`, and `Re⟨H - P, Q - P⟩ ≤ 0` for every PSD `Q`.
-/
set_option linter.unusedSectionVars false
namespace SigpyVerif.C11
open Matrix
open scoped ComplexOrder
variable {n : Type} [Fintype n] {𝕜 : Type} [RCLike 𝕜]


noncomputable def frobRe (A B : Matrix n n 𝕜) : ℝ := RCLike.re (trace (Aᴴ * B))

theorem frobRe_add_left (A B C : Matrix n n 𝕜) : frobRe (A + B) C = frobRe A C + frobRe B C := by
  unfold frobRe; rw [conjTranspose_add, add_mul, trace_add, map_add]
theorem frobRe_add_right (A B C : Matrix n n 𝕜) : frobRe A (B + C) = frobRe A B + frobRe A C := by
  unfold frobRe; rw [mul_add, trace_add, map_add]
theorem frobRe_neg_left (A B : Matrix n n 𝕜) : frobRe (-A) B = - frobRe A B := by
  unfold frobRe; rw [conjTranspose_neg, neg_mul, trace_neg, map_neg]
theorem frobRe_neg_right (A B : Matrix n n 𝕜) : frobRe A (-B) = - frobRe A B := by
  unfold frobRe; rw [mul_neg, trace_neg, map_neg]
theorem frobRe_sub_left (A B C : Matrix n n 𝕜) : frobRe (A - B) C = frobRe A C - frobRe B C := by
  rw [sub_eq_add_neg, frobRe_add_left, frobRe_neg_left]; ring
theorem frobRe_sub_right (A B C : Matrix n n 𝕜) : frobRe A (B - C) = frobRe A B - frobRe A C := by
  rw [sub_eq_add_neg, frobRe_add_right, frobRe_neg_right]; ring

/-- skew-Hermitian ⟂ Hermitian -/
theorem frobRe_skew_herm {K S : Matrix n n 𝕜} (hK : Kᴴ = -K) (hS : Sᴴ = S) : frobRe K S = 0 := by
  unfold frobRe
  have h : star (trace (Kᴴ * S)) = - trace (Kᴴ * S) := by
    rw [← trace_conjTranspose, conjTranspose_mul, conjTranspose_conjTranspose, hS, trace_mul_comm, hK]
    simp
  have := congrArg RCLike.re h
  rw [RCLike.star_def, RCLike.conj_re, map_neg] at this
  linarith

variable [DecidableEq n]
/-- real diagonal matrix -/
noncomputable def dg (w : n → ℝ) : Matrix n n 𝕜 := diagonal fun i => ((w i : ℝ) : 𝕜)

theorem dg_posSemidef {w : n → ℝ} (h : ∀ i, 0 ≤ w i) : (dg w : Matrix n n 𝕜).PosSemidef := by
  unfold dg
  rw [posSemidef_diagonal_iff]
  intro i
  exact RCLike.ofReal_nonneg.mpr (h i)

theorem dg_conjTranspose (w : n → ℝ) : (dg w : Matrix n n 𝕜)ᴴ = dg w := by
  unfold dg
  rw [diagonal_conjTranspose]
  congr 1; funext i; simp

/-- `re tr(U diag(d) Uᴴ Q) ≥ 0` for `d ≥ 0` and `Q` PSD -/
theorem re_trace_conj_diag_mul_nonneg (U : Matrix n n 𝕜) {d : n → ℝ} (hd : ∀ i, 0 ≤ d i)
    {Q : Matrix n n 𝕜} (hQ : Q.PosSemidef) : 0 ≤ RCLike.re (trace (U * dg d * Uᴴ * Q)) := by
  have e : trace (U * dg d * Uᴴ * Q) = trace (dg d * (Uᴴ * Q * U)) := by
    rw [mul_assoc, mul_assoc, trace_mul_comm, mul_assoc, mul_assoc]
  rw [e]
  have hM := hQ.conjTranspose_mul_mul_same U
  simp only [trace, diag_apply, dg, diagonal_mul, map_sum]
  refine Finset.sum_nonneg fun i _ => ?_
  rw [RCLike.re_ofReal_mul]
  exact mul_nonneg (hd i) (RCLike.nonneg_iff.mp hM.diag_nonneg).1

theorem dg_mul_dg (a b : n → ℝ) : (dg a * dg b : Matrix n n 𝕜) = dg fun i => a i * b i := by
  unfold dg; rw [diagonal_mul_diagonal]; congr 1; funext i; simp
theorem dg_sub (a b : n → ℝ) : (dg a - dg b : Matrix n n 𝕜) = dg fun i => a i - b i := by
  unfold dg; rw [diagonal_sub]; congr 1; funext i; simp
theorem dg_zero : (dg (fun _ => 0) : Matrix n n 𝕜) = 0 := by
  unfold dg; simp

theorem conj_sub (U A B : Matrix n n 𝕜) : U * A * Uᴴ - U * B * Uᴴ = U * (A - B) * Uᴴ := by
  rw [mul_sub, sub_mul]

/-- spectral projection facts -/
theorem psd_spectral_core (U : Matrix n n 𝕜) (hU : Uᴴ * U = 1) (w : n → ℝ) :
    (U * dg (fun i => max (w i) 0) * Uᴴ).PosSemidef ∧
    (U * dg (fun i => max (w i) 0) * Uᴴ - U * dg w * Uᴴ).PosSemidef ∧
    (U * dg w * Uᴴ - U * dg (fun i => max (w i) 0) * Uᴴ) * (U * dg (fun i => max (w i) 0) * Uᴴ) = 0 ∧
    ∀ Q : Matrix n n 𝕜, Q.PosSemidef →
      frobRe (U * dg w * Uᴴ - U * dg (fun i => max (w i) 0) * Uᴴ) (Q - U * dg (fun i => max (w i) 0) * Uᴴ) ≤ 0 := by
  have hP : (U * dg (fun i => max (w i) 0) * Uᴴ : Matrix n n 𝕜).PosSemidef :=
    (dg_posSemidef fun i => le_max_right _ _).mul_mul_conjTranspose_same U
  have hm : ∀ i, 0 ≤ max (w i) 0 - w i := fun i => sub_nonneg.mpr (le_max_left _ _)
  have hz : (U * dg w * Uᴴ - U * dg (fun i => max (w i) 0) * Uᴴ) * (U * dg (fun i => max (w i) 0) * Uᴴ) = 0 := by
    rw [conj_sub, dg_sub]
    have : U * (dg fun i => w i - max (w i) 0) * Uᴴ * (U * (dg fun i => max (w i) 0) * Uᴴ)
        = U * ((dg fun i => w i - max (w i) 0) * (Uᴴ * U) * (dg fun i => max (w i) 0)) * Uᴴ := by
      simp only [mul_assoc]
    rw [this, hU, mul_one, dg_mul_dg]
    have : (fun i => (w i - max (w i) 0) * max (w i) 0) = fun _ => 0 := by
      funext i
      rcases le_total (w i) 0 with h | h
      · rw [max_eq_right h]; ring
      · rw [max_eq_left h]; ring
    rw [this, dg_zero]; simp
  refine ⟨hP, ?_, hz, fun Q hQ => ?_⟩
  · rw [conj_sub, dg_sub]
    exact (dg_posSemidef hm).mul_mul_conjTranspose_same U
  · have hH : (U * dg w * Uᴴ - U * dg (fun i => max (w i) 0) * Uᴴ)ᴴ
        = U * dg w * Uᴴ - U * dg (fun i => max (w i) 0) * Uᴴ := by
      simp only [conjTranspose_sub, conjTranspose_mul, conjTranspose_conjTranspose, dg_conjTranspose, mul_assoc]
    rw [frobRe_sub_right]
    have h0 : frobRe (U * dg w * Uᴴ - U * dg (fun i => max (w i) 0) * Uᴴ) (U * dg (fun i => max (w i) 0) * Uᴴ) = 0 := by
      unfold frobRe; rw [hH, hz]; simp
    rw [h0, sub_zero]
    unfold frobRe
    rw [hH, conj_sub, dg_sub]
    have := re_trace_conj_diag_mul_nonneg U hm hQ
    have e : U * (dg fun i => w i - max (w i) 0) * Uᴴ * Q = - (U * (dg fun i => max (w i) 0 - w i) * Uᴴ * Q) := by
      rw [← neg_mul, ← neg_mul, ← mul_neg]
      congr 3
      unfold dg
      rw [diagonal_neg]; congr 1; funext i; simp
    rw [e, trace_neg, map_neg]
    linarith

omit [DecidableEq n] in
theorem frobRe_self (A : Matrix n n 𝕜) : frobRe A A = ∑ i, ∑ j, ‖A i j‖ ^ 2 := by
  unfold frobRe
  simp only [trace, diag_apply, mul_apply, conjTranspose_apply, map_sum]
  rw [Finset.sum_comm]
  refine Finset.sum_congr rfl fun i _ => Finset.sum_congr rfl fun j _ => ?_
  rw [RCLike.star_def, RCLike.conj_mul]
  norm_cast

omit [DecidableEq n] in
theorem frobRe_comm (A B : Matrix n n 𝕜) : frobRe A B = frobRe B A := by
  unfold frobRe
  rw [← RCLike.conj_re, ← RCLike.star_def, ← trace_conjTranspose, conjTranspose_mul, conjTranspose_conjTranspose]

omit [DecidableEq n] in
/-- `‖A + B‖² = ‖A‖² + ‖B‖² + 2 Re⟨A, B⟩` -/
theorem frobRe_add_self (A B : Matrix n n 𝕜) :
    frobRe (A + B) (A + B) = frobRe A A + frobRe B B + 2 * frobRe A B := by
  rw [frobRe_add_left, frobRe_add_right, frobRe_add_right, frobRe_comm B A]; ring

end SigpyVerif.C11
