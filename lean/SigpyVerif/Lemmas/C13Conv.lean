import SigpyVerif.Lemmas.C13
import Mathlib.Topology.MetricSpace.ProperSpace
import Mathlib.Topology.Sequences
import Mathlib.Topology.Algebra.InfiniteSum.Real
import Mathlib.Analysis.Normed.Module.FiniteDimension
import Mathlib.Algebra.QuadraticDiscriminant
import Mathlib.Analysis.Convex.Strong
import Mathlib.Analysis.Convex.Jensen
/-
  Helper lemmas for the convergence theorems of C13 (Props/C13Conv.lean); no sigpy content.

  * `opial_core` — the compactness step: a sequence `z (k+1) = Tm (z k)` in a proper normed space that is
    Fejér monotone (in a possibly DEGENERATE quadratic distance `q`) with respect to the fixed points of
    `Tm`, asymptotically regular in `q`, with `‖Tm a - Tm b‖² ≤ K q(a - b)`, converges to a fixed point.
  * prox maps are 1-Lipschitz (`isProx_nonexpansive`, weighted: `isProxW_lipschitz`), gradient steps of a
    convex function with the descent lemma are nonexpansive (`grad_step_nonexpansive`), positive steps are
    coercive in finite dimension (`StepOp.Pos.coercive`).
  * the Chambolle–Pock map in "primal first" form, `cpMap`, factors through the (possibly degenerate) metric
    of the steps: `cpMap_lipschitz_metric`.
-/
namespace SigpyVerif.C13
open RealInnerProductSpace Filter Topology

section opial
variable {Z : Type*} [NormedAddCommGroup Z] [ProperSpace Z]

/-- nonnegative terms with bounded partial sums tend to zero -/
theorem tendsto_zero_of_sum_le (R : ℕ → ℝ) (hR : ∀ k, 0 ≤ R k) (B : ℝ)
    (h : ∀ N, ∑ k ∈ Finset.range N, R k ≤ B) : Tendsto R atTop (𝓝 0) :=
  (summable_of_sum_range_le hR h).tendsto_atTop_zero

/-- Opial's argument in a proper (finite-dimensional) space, for a possibly degenerate distance `q`. -/
theorem opial_core (z : ℕ → Z) (Tm : Z → Z) (q : Z → ℝ) (K : ℝ) (hK : 0 ≤ K)
    (hstep : ∀ k, z (k + 1) = Tm (z k))
    (hq0 : ∀ a, 0 ≤ q a) (hqc : Continuous q) (hqz : q 0 = 0) (hqs : ∀ a, q (-a) = q a)
    (hTq : ∀ a b, ‖Tm a - Tm b‖ ^ 2 ≤ K * q (a - b))
    (hfej : ∀ w, Tm w = w → ∀ k, q (z (k + 1) - w) ≤ q (z k - w))
    (hreg : Tendsto (fun k => q (z (k + 1) - z k)) atTop (𝓝 0))
    (hfix : ∃ w, Tm w = w) :
    ∃ w, Tm w = w ∧ Tendsto z atTop (𝓝 w) := by
  obtain ⟨w0, hw0⟩ := hfix
  have hnb : ∀ a b, ‖Tm a - Tm b‖ ≤ Real.sqrt (K * q (a - b)) := fun a b =>
    Real.le_sqrt_of_sq_le (hTq a b)
  have hB : ∀ k, q (z k - w0) ≤ q (z 0 - w0) := by
    intro k
    induction k with
    | zero => exact le_rfl
    | succ k ih => exact (hfej w0 hw0 k).trans ih
  have hball : ∀ k, z (k + 1) ∈ Metric.closedBall w0 (Real.sqrt (K * q (z 0 - w0))) := by
    intro k
    rw [mem_closedBall_iff_norm]
    apply Real.le_sqrt_of_sq_le
    calc ‖z (k + 1) - w0‖ ^ 2 = ‖Tm (z k) - Tm w0‖ ^ 2 := by rw [hstep, hw0]
      _ ≤ K * q (z k - w0) := hTq _ _
      _ ≤ K * q (z 0 - w0) := mul_le_mul_of_nonneg_left (hB k) hK
  obtain ⟨zb, -, φ, hφ, hlim⟩ := (isCompact_closedBall w0 _).tendsto_subseq hball
  have hTt : ∀ b, Tendsto Tm (𝓝 b) (𝓝 (Tm b)) := by
    intro b
    rw [tendsto_iff_norm_sub_tendsto_zero]
    have hc : Continuous (fun a => Real.sqrt (K * q (a - b))) :=
      Real.continuous_sqrt.comp (continuous_const.mul (hqc.comp (continuous_id.sub continuous_const)))
    have h0 := hc.tendsto b
    simp only [sub_self, hqz, mul_zero, Real.sqrt_zero] at h0
    exact squeeze_zero (fun a => norm_nonneg _) (fun a => hnb a b) h0
  have hlim' : Tendsto (fun j => z (φ j + 1)) atTop (𝓝 zb) := hlim
  have h1 : Tendsto (fun j => z (φ j + 2)) atTop (𝓝 (Tm zb)) := by
    refine ((hTt zb).comp hlim').congr (fun j => ?_)
    exact (hstep (φ j + 1)).symm
  have h2 : Tendsto (fun j => q (z (φ j + 2) - z (φ j + 1))) atTop (𝓝 (q (Tm zb - zb))) :=
    (hqc.tendsto _).comp (h1.sub hlim')
  have hφ1 : Tendsto (fun j => φ j + 1) atTop atTop :=
    tendsto_atTop_mono (fun j => Nat.le_succ _) hφ.tendsto_atTop
  have h3 : Tendsto (fun j => q (z (φ j + 2) - z (φ j + 1))) atTop (𝓝 0) := hreg.comp hφ1
  have hq1 : q (Tm zb - zb) = 0 := tendsto_nhds_unique h2 h3
  have hq2 : q (zb - Tm zb) = 0 := by rw [← hqs, neg_sub]; exact hq1
  have hz' : Tm (Tm zb) = Tm zb := by
    have := hTq (Tm zb) zb
    rw [hq1, mul_zero] at this
    have h0 : ‖Tm (Tm zb) - Tm zb‖ = 0 := by
      have := sq_nonneg ‖Tm (Tm zb) - Tm zb‖
      exact pow_eq_zero_iff (two_ne_zero) |>.mp (le_antisymm ‹_› this)
    exact sub_eq_zero.mp (norm_eq_zero.mp h0)
  have hq4 : Tendsto (fun j => q (z (φ j + 1) - Tm zb)) atTop (𝓝 0) := by
    have := (hqc.tendsto _).comp (hlim'.sub_const (Tm zb))
    rw [hq2] at this
    exact this
  have hmono : ∀ k m, k ≤ m → q (z m - Tm zb) ≤ q (z k - Tm zb) := by
    intro k m hkm
    induction m, hkm using Nat.le_induction with
    | base => exact le_rfl
    | succ m _ ih => exact (hfej _ hz' m).trans ih
  have hq5 : Tendsto (fun k => q (z k - Tm zb)) atTop (𝓝 0) := by
    rw [Metric.tendsto_atTop]
    intro ε hε
    obtain ⟨j, hj⟩ := ((tendsto_order.1 hq4).2 ε hε).exists
    refine ⟨φ j + 1, fun k hk => ?_⟩
    rw [Real.dist_eq, sub_zero, abs_of_nonneg (hq0 _)]
    exact (hmono _ _ hk).trans_lt hj
  refine ⟨Tm zb, hz', ?_⟩
  rw [← tendsto_add_atTop_iff_nat 1, tendsto_iff_norm_sub_tendsto_zero]
  have h0 : Tendsto (fun k => Real.sqrt (K * q (z k - Tm zb))) atTop (𝓝 0) := by
    have := (Real.continuous_sqrt.tendsto _).comp (hq5.const_mul K)
    simp only [mul_zero, Real.sqrt_zero] at this
    exact this
  refine squeeze_zero (fun k => norm_nonneg _) (fun k => ?_) h0
  calc ‖z (k + 1) - Tm zb‖ = ‖Tm (z k) - Tm (Tm zb)‖ := by rw [hstep, hz']
    _ ≤ _ := hnb _ _
end opial

variable {E : Type*} [NormedAddCommGroup E] [InnerProductSpace ℝ E]

/-! ### prox maps and gradient steps are nonexpansive -/

/-- the proximal map is 1-Lipschitz (from its variational characterisation alone) -/
theorem isProx_nonexpansive {g : E → ℝ} {α : ℝ} (hα : 0 < α) {v v' p p' : E}
    (hp : IsProx g α v p) (hp' : IsProx g α v' p') : ‖p - p'‖ ≤ ‖v - v'‖ := by
  have h1 := hp p'
  have h2 := hp' p
  rw [real_inner_smul_left] at h1 h2
  have hpos : 0 < 1 / α := by positivity
  have hs : ⟪v - p, p' - p⟫ + ⟪v' - p', p - p'⟫ ≤ 0 := by
    by_contra h
    push Not at h
    have := mul_pos hpos h
    rw [mul_add] at this
    linarith
  have e : ⟪v - p, p' - p⟫ + ⟪v' - p', p - p'⟫ = ‖p - p'‖ ^ 2 - ⟪v - v', p - p'⟫ := by
    rw [← real_inner_self_eq_norm_sq]
    simp only [inner_sub_left, inner_sub_right]; ring
  have hcs := real_inner_le_norm (v - v') (p - p')
  by_contra hc
  push Not at hc
  nlinarith [norm_nonneg (p - p'), norm_nonneg (v - v')]

/-- co-coercivity of the gradient of a convex function that satisfies the descent lemma with `L = 1/α`
    (Baillon–Haddad): `α ‖∇f(y) - ∇f(x)‖² ≤ ⟨∇f(y) - ∇f(x), y - x⟩` -/
theorem grad_cocoercive (f : E → ℝ) (gf : E → E) (α : ℝ) (hα : 0 < α)
    (hconv : ∀ y w, f y + ⟪gf y, w - y⟫ ≤ f w)
    (hdesc : ∀ y p, f p ≤ f y + ⟪gf y, p - y⟫ + (1 / α) / 2 * ‖p - y‖ ^ 2) (x y : E) :
    α * ‖gf y - gf x‖ ^ 2 ≤ ⟪gf y - gf x, y - x⟫ := by
  have key : ∀ x y : E, f x + ⟪gf x, y - x⟫ + α / 2 * ‖gf y - gf x‖ ^ 2 ≤ f y := by
    intro x y
    set d := gf y - gf x with hd
    have h1 := hdesc y (y - α • d)
    have h2 := hconv x (y - α • d)
    have e1 : y - α • d - y = -(α • d) := by abel
    have e2 : y - α • d - x = (y - x) - α • d := by abel
    rw [e1, norm_neg, norm_smul, inner_neg_right, real_inner_smul_right, Real.norm_eq_abs, abs_of_pos hα] at h1
    rw [e2, inner_sub_right, real_inner_smul_right] at h2
    have e3 : ⟪gf y, d⟫ - ⟪gf x, d⟫ = ‖d‖ ^ 2 := by
      rw [← inner_sub_left, real_inner_self_eq_norm_sq]
    have e4 : 1 / α / 2 * (α * ‖d‖) ^ 2 = α / 2 * ‖d‖ ^ 2 := by
      field_simp
    rw [e4] at h1
    nlinarith
  have k1 := key x y
  have k2 := key y x
  have e : ‖gf x - gf y‖ = ‖gf y - gf x‖ := norm_sub_rev _ _
  rw [e] at k2
  have e5 : ⟪gf y - gf x, y - x⟫ = - ⟪gf x, y - x⟫ - ⟪gf y, x - y⟫ := by
    have : x - y = -(y - x) := by abel
    rw [this, inner_neg_right, inner_sub_left]; ring
  rw [e5]
  linarith

/-- the gradient step `y ↦ y - α ∇f(y)` with `α ≤ 1/L` is nonexpansive -/
theorem grad_step_nonexpansive (f : E → ℝ) (gf : E → E) (α L : ℝ) (hα : 0 < α) (hL : α * L ≤ 1)
    (hconv : ∀ y w, f y + ⟪gf y, w - y⟫ ≤ f w)
    (hdesc : ∀ y p, f p ≤ f y + ⟪gf y, p - y⟫ + L / 2 * ‖p - y‖ ^ 2) (x y : E) :
    ‖(y - α • gf y) - (x - α • gf x)‖ ≤ ‖y - x‖ := by
  have hL' : L ≤ 1 / α := by rw [le_div_iff₀ hα]; linarith
  have hdesc' : ∀ y p, f p ≤ f y + ⟪gf y, p - y⟫ + (1 / α) / 2 * ‖p - y‖ ^ 2 := by
    intro y p
    have := hdesc y p
    have h2 : L / 2 * ‖p - y‖ ^ 2 ≤ (1 / α) / 2 * ‖p - y‖ ^ 2 :=
      mul_le_mul_of_nonneg_right (by linarith) (sq_nonneg _)
    linarith
  have hc := grad_cocoercive f gf α hα hconv hdesc' x y
  have e : (y - α • gf y) - (x - α • gf x) = (y - x) - α • (gf y - gf x) := by
    rw [smul_sub]; abel
  have h2 : ‖(y - x) - α • (gf y - gf x)‖ ^ 2 ≤ ‖y - x‖ ^ 2 := by
    rw [norm_sub_sq_real, real_inner_smul_right, norm_smul, Real.norm_eq_abs, abs_of_pos hα,
      real_inner_comm]
    nlinarith [sq_nonneg ‖gf y - gf x‖]
  rw [e]
  exact abs_le_of_sq_le_sq' h2 (norm_nonneg _) |>.2

/-! ### positive steps in finite dimension -/

/-- in finite dimension a positive step is coercive: `c ‖x‖² ≤ ⟨T⁻¹x, x⟩` for some `c > 0` -/
theorem StepOp.Pos.coercive {G : Type*} [NormedAddCommGroup G] [InnerProductSpace ℝ G] [FiniteDimensional ℝ G]
    {T : StepOp G} (h : T.Pos) : ∃ c : ℝ, 0 < c ∧ ∀ x, c * ‖x‖ ^ 2 ≤ ⟪T.inv x, x⟫ := by
  by_cases hne : (Metric.sphere (0 : G) 1).Nonempty
  · have hcont : ContinuousOn (fun x : G => ⟪T.inv x, x⟫) (Metric.sphere 0 1) := by
      have : Continuous T.inv := T.inv.continuous_of_finiteDimensional
      exact (this.inner continuous_id).continuousOn
    obtain ⟨x0, hx0, hmin⟩ := (isCompact_sphere (0 : G) 1).exists_isMinOn hne hcont
    have hx0n : x0 ≠ 0 := by
      intro h0; rw [h0] at hx0; simp at hx0
    refine ⟨⟪T.inv x0, x0⟫, h.pos x0 hx0n, fun x => ?_⟩
    by_cases hx : x = 0
    · simp [hx]
    · have hn : 0 < ‖x‖ := norm_pos_iff.mpr hx
      have hmem : (‖x‖⁻¹ • x) ∈ Metric.sphere (0 : G) 1 := by
        simp [norm_smul, hn.ne']
      have hm := isMinOn_iff.mp hmin _ hmem
      simp only [map_smul, real_inner_smul_left, real_inner_smul_right] at hm
      calc ⟪T.inv x0, x0⟫ * ‖x‖ ^ 2 ≤ (‖x‖⁻¹ * (‖x‖⁻¹ * ⟪T.inv x, x⟫)) * ‖x‖ ^ 2 :=
            mul_le_mul_of_nonneg_right hm (sq_nonneg _)
        _ = ⟪T.inv x, x⟫ := by field_simp
  · refine ⟨1, one_pos, fun x => ?_⟩
    have : x = 0 := by
      by_contra hx
      apply hne
      exact ⟨‖x‖⁻¹ • x, by simp [norm_smul, (norm_pos_iff.mpr hx).ne']⟩
    simp [this]

/-- the weighted prox is Lipschitz as a function of the "dual" argument `m` (`v = T m`) -/
theorem isProxW_lipschitz {g : E → ℝ} {T : StepOp E} (hT : T.Pos) {c : ℝ}
    (hco : ∀ x, c * ‖x‖ ^ 2 ≤ ⟪T.inv x, x⟫) {m m' p p' : E}
    (hp : IsProxW g T (T.op m) p) (hp' : IsProxW g T (T.op m') p') : c * ‖p - p'‖ ^ 2 ≤ ‖m - m'‖ * ‖p - p'‖ := by
  have h1 := hp p'
  have h2 := hp' p
  rw [map_sub, hT.left_inv] at h1 h2
  have e : ⟪m - T.inv p, p' - p⟫ + ⟪m' - T.inv p', p - p'⟫ = ⟪T.inv (p - p'), p - p'⟫ - ⟪m - m', p - p'⟫ := by
    simp only [map_sub, inner_sub_left, inner_sub_right]; ring
  have hcs := real_inner_le_norm (m - m') (p - p')
  have := hco (p - p')
  linarith

/-! ### the Chambolle–Pock sweep on the pair the algorithm couples -/
section cp
variable {F : Type*} [NormedAddCommGroup F] [InnerProductSpace ℝ F]

/-- one sweep in "primal first" form on the pair `(x_k, u_{k+1})`: `x⁺ = proxg(T, x - T Aᴴu)`,
    `u⁺ = proxfc(Σ, u + Σ A(2x⁺ - x))` -/
def cpMap (A : E → F) (AH : F → E) (T : StepOp E) (Sg : StepOp F) (proxg : StepOp E → E → E)
    (proxfc : StepOp F → F → F) (z : E × F) : E × F :=
  (proxg T (z.1 + T.op (-(AH z.2))),
   proxfc Sg (z.2 + Sg.op (A (proxg T (z.1 + T.op (-(AH z.2))) + (proxg T (z.1 + T.op (-(AH z.2))) - z.1)))))

/-- the metric of the steps as a function on pairs -/
noncomputable def cpQ (A : E → F) (T : StepOp E) (Sg : StepOp F) (z : E × F) : ℝ := coupledW A T Sg z.1 z.2

/-- `‖M w‖² ≤ C ⟨M w, w⟩` for the (positive SEMI-definite) metric `M = [[T⁻¹, -Aᴴ], [-A, Σ⁻¹]]`
    (Cauchy–Schwarz for the form `⟨M·,·⟩`) -/
theorem metric_range_le (A : E →ₗ[ℝ] F) (AH : F →ₗ[ℝ] E) (hadj : ∀ x u, ⟪A x, u⟫ = ⟪x, AH u⟫)
    (T : StepOp E) (Sg : StepOp F) (hT : T.Pos) (hS : Sg.Pos)
    (hM : ∀ x u, 2 * |⟪A x, u⟫| ≤ ⟪T.inv x, x⟫ + ⟪Sg.inv u, u⟫)
    (kT kS : ℝ) (hkT0 : 0 ≤ kT) (hkS0 : 0 ≤ kS)
    (hkT : ∀ x, ⟪T.inv x, x⟫ ≤ kT * ‖x‖ ^ 2) (hkS : ∀ u, ⟪Sg.inv u, u⟫ ≤ kS * ‖u‖ ^ 2) (a : E) (b : F) :
    ‖T.inv a - AH b‖ ^ 2 + ‖Sg.inv b - A a‖ ^ 2 ≤ 2 * (kT + kS) * coupledW A T Sg a b := by
  have hQ : ∀ (a : E) (b : F), 0 ≤ coupledW A T Sg a b := by
    intro a b
    have := hM a b
    have h2 := le_abs_self ⟪A a, b⟫
    unfold coupledW
    linarith
  set p := T.inv a - AH b with hp
  set r := Sg.inv b - A a with hr
  have f1 : ⟪T.inv a, p⟫ = ‖p‖ ^ 2 + ⟪A p, b⟫ := by
    rw [hadj, real_inner_comm (AH b) p, ← real_inner_self_eq_norm_sq, ← inner_add_left, hp]
    congr 1; abel
  have f2 : ⟪Sg.inv b, r⟫ = ‖r‖ ^ 2 + ⟪A a, r⟫ := by
    rw [← real_inner_self_eq_norm_sq, ← inner_add_left, hr]
    congr 1; abel
  have f3 : ⟪T.inv p, a⟫ = ⟪T.inv a, p⟫ := (hT.symm p a).trans (real_inner_comm _ _)
  have f4 : ⟪Sg.inv r, b⟫ = ⟪Sg.inv b, r⟫ := (hS.symm r b).trans (real_inner_comm _ _)
  have hexp : ∀ t : ℝ, 0 ≤ coupledW A T Sg p r * (t * t) + (2 * (‖p‖ ^ 2 + ‖r‖ ^ 2)) * t + coupledW A T Sg a b := by
    intro t
    have h := hQ (a + t • p) (b + t • r)
    have e : coupledW A T Sg (a + t • p) (b + t • r)
        = coupledW A T Sg p r * (t * t) + (2 * (‖p‖ ^ 2 + ‖r‖ ^ 2)) * t + coupledW A T Sg a b := by
      unfold coupledW
      simp only [map_add, map_smul, inner_add_left, inner_add_right, real_inner_smul_left,
        real_inner_smul_right]
      rw [f3, f4, f1, f2]; ring
    rw [e] at h; exact h
  have hd := discrim_le_zero hexp
  unfold discrim at hd
  have hpr : coupledW A T Sg p r ≤ 2 * (kT + kS) * (‖p‖ ^ 2 + ‖r‖ ^ 2) := by
    have h1 := hM p r
    have h2 := neg_abs_le ⟪A p, r⟫
    have h3 := hkT p
    have h4 := hkS r
    have h5 : 0 ≤ kT * ‖r‖ ^ 2 := by positivity
    have h6 : 0 ≤ kS * ‖p‖ ^ 2 := by positivity
    unfold coupledW
    nlinarith
  set N := ‖p‖ ^ 2 + ‖r‖ ^ 2 with hN
  have hN0 : 0 ≤ N := by positivity
  have hab := hQ a b
  by_contra hc
  push Not at hc
  have hNpos : 0 < N := by nlinarith
  have h7 : N * N ≤ (2 * (kT + kS) * coupledW A T Sg a b) * N := by
    have : coupledW A T Sg p r * coupledW A T Sg a b ≤ (2 * (kT + kS) * N) * coupledW A T Sg a b :=
      mul_le_mul_of_nonneg_right hpr hab
    nlinarith
  have h8 : (2 * (kT + kS) * coupledW A T Sg a b) * N < N * N := mul_lt_mul_of_pos_right hc hNpos
  linarith

omit [InnerProductSpace ℝ E] [InnerProductSpace ℝ F] in
theorem prod_norm_sq_le (z : E × F) : ‖z‖ ^ 2 ≤ ‖z.1‖ ^ 2 + ‖z.2‖ ^ 2 := by
  rw [Prod.norm_def]
  rcases max_choice ‖z.1‖ ‖z.2‖ with h | h <;> rw [h] <;> nlinarith [sq_nonneg ‖z.1‖, sq_nonneg ‖z.2‖]

theorem le_of_sq_le_mul {c d M : ℝ} (hd : 0 ≤ d) (hM : 0 ≤ M) (h : c * d ^ 2 ≤ M * d) : c * d ≤ M := by
  by_contra hc; push Not at hc
  have hpos : 0 < d := by
    by_contra h0; push Not at h0
    have : d = 0 := le_antisymm h0 hd
    rw [this] at hc; linarith
  nlinarith

theorem cp_arith {c1 c2 kA dx du d1 d2 : ℝ} (hc1 : 0 < c1) (hc2 : 0 < c2) (_hkA : 0 ≤ kA)
    (hdx : 0 ≤ dx) (hdu : 0 ≤ du) (_hd1 : 0 ≤ d1) (_hd2 : 0 ≤ d2)
    (g1 : c1 * dx ≤ d1) (g2 : c2 * du ≤ d2 + 2 * kA * dx) :
    dx ^ 2 + du ^ 2 ≤ (1 / c1 ^ 2 + (2 * c1 ^ 2 + 8 * kA ^ 2) / (c1 ^ 2 * c2 ^ 2)) * (d1 ^ 2 + d2 ^ 2) := by
  have g3 : c1 ^ 2 * dx ^ 2 ≤ d1 ^ 2 := by
    have : (c1 * dx) ^ 2 ≤ d1 ^ 2 := pow_le_pow_left₀ (by positivity) g1 2
    linarith [mul_pow c1 dx 2]
  have g4 : c2 ^ 2 * du ^ 2 ≤ 2 * d2 ^ 2 + 8 * kA ^ 2 * dx ^ 2 := by
    have : (c2 * du) ^ 2 ≤ (d2 + 2 * kA * dx) ^ 2 := pow_le_pow_left₀ (by positivity) g2 2
    nlinarith [sq_nonneg (d2 - 2 * kA * dx)]
  have g5 : dx ^ 2 ≤ (d1 ^ 2 + d2 ^ 2) / c1 ^ 2 := by
    rw [le_div_iff₀ (by positivity)]; nlinarith [sq_nonneg d2]
  have g6 : du ^ 2 ≤ (2 * c1 ^ 2 + 8 * kA ^ 2) * (d1 ^ 2 + d2 ^ 2) / (c1 ^ 2 * c2 ^ 2) := by
    rw [le_div_iff₀ (by positivity)]
    have h8 : 8 * kA ^ 2 * (c1 ^ 2 * dx ^ 2) ≤ 8 * kA ^ 2 * d1 ^ 2 := mul_le_mul_of_nonneg_left g3 (by positivity)
    have h9 : c1 ^ 2 * (c2 ^ 2 * du ^ 2) ≤ c1 ^ 2 * (2 * d2 ^ 2 + 8 * kA ^ 2 * dx ^ 2) :=
      mul_le_mul_of_nonneg_left g4 (by positivity)
    have h11 : 0 ≤ c1 ^ 2 * d1 ^ 2 := by positivity
    have h12 : 0 ≤ kA ^ 2 * d2 ^ 2 := by positivity
    nlinarith
  have : (1 / c1 ^ 2 + (2 * c1 ^ 2 + 8 * kA ^ 2) / (c1 ^ 2 * c2 ^ 2)) * (d1 ^ 2 + d2 ^ 2)
      = (d1 ^ 2 + d2 ^ 2) / c1 ^ 2 + (2 * c1 ^ 2 + 8 * kA ^ 2) * (d1 ^ 2 + d2 ^ 2) / (c1 ^ 2 * c2 ^ 2) := by ring
  rw [this]; linarith

/-- two sweeps from "dual" arguments `(m1, m2)`, `(m1', m2')` stay close -/
theorem cp_pair_lipschitz (A : E →ₗ[ℝ] F) (T : StepOp E) (Sg : StepOp F) (hT : T.Pos) (hS : Sg.Pos)
    {c1 c2 kA : ℝ} (hc1 : 0 < c1) (hc2 : 0 < c2) (hco1 : ∀ x, c1 * ‖x‖ ^ 2 ≤ ⟪T.inv x, x⟫)
    (hco2 : ∀ x, c2 * ‖x‖ ^ 2 ≤ ⟪Sg.inv x, x⟫) (hA : ∀ x, ‖A x‖ ≤ kA * ‖x‖) (hkA : 0 ≤ kA)
    (g : E → ℝ) (fc : F → ℝ) {m1 m1' x1 x1' : E} {m2 m2' u2 u2' : F}
    (hP : IsProxW g T (T.op m1) x1) (hP' : IsProxW g T (T.op m1') x1')
    (hD : IsProxW fc Sg (Sg.op (m2 + (A x1 + A x1))) u2) (hD' : IsProxW fc Sg (Sg.op (m2' + (A x1' + A x1'))) u2') :
    ‖x1 - x1'‖ ^ 2 + ‖u2 - u2'‖ ^ 2
      ≤ (1 / c1 ^ 2 + (2 * c1 ^ 2 + 8 * kA ^ 2) / (c1 ^ 2 * c2 ^ 2)) * (‖m1 - m1'‖ ^ 2 + ‖m2 - m2'‖ ^ 2) := by
  have hl1 := isProxW_lipschitz hT hco1 hP hP'
  have hl2 := isProxW_lipschitz hS hco2 hD hD'
  have em2 : (m2 + (A x1 + A x1)) - (m2' + (A x1' + A x1')) = (m2 - m2') + (A (x1 - x1') + A (x1 - x1')) := by
    simp only [map_sub]; abel
  rw [em2] at hl2
  have hn2 : ‖(m2 - m2') + (A (x1 - x1') + A (x1 - x1'))‖ ≤ ‖m2 - m2'‖ + 2 * kA * ‖x1 - x1'‖ := by
    have t1 := norm_add_le (m2 - m2') (A (x1 - x1') + A (x1 - x1'))
    have t2 := norm_add_le (A (x1 - x1')) (A (x1 - x1'))
    have t3 := hA (x1 - x1')
    linarith
  have g1 := le_of_sq_le_mul (norm_nonneg _) (norm_nonneg _) hl1
  have g2' := le_of_sq_le_mul (norm_nonneg _) (norm_nonneg _) hl2
  exact cp_arith hc1 hc2 hkA (norm_nonneg _) (norm_nonneg _) (norm_nonneg _) (norm_nonneg _) g1 (g2'.trans hn2)

/-- the two components of a sweep as prox points of the "dual" arguments `M z` -/
theorem cpMap_prox (A : E →ₗ[ℝ] F) (AH : F →ₗ[ℝ] E) (T : StepOp E) (Sg : StepOp F) (hT : T.Pos) (hS : Sg.Pos)
    (g : E → ℝ) (fc : F → ℝ) (proxg : StepOp E → E → E) (proxfc : StepOp F → F → F)
    (hg : ∀ v, IsProxW g T v (proxg T v)) (hfc : ∀ v, IsProxW fc Sg v (proxfc Sg v)) (z : E × F) :
    IsProxW g T (T.op (T.inv z.1 - AH z.2)) (cpMap A AH T Sg proxg proxfc z).1 ∧
    IsProxW fc Sg (Sg.op (Sg.inv z.2 - A z.1 + (A (cpMap A AH T Sg proxg proxfc z).1 + A (cpMap A AH T Sg proxg proxfc z).1)))
      (cpMap A AH T Sg proxg proxfc z).2 := by
  have e1 : z.1 + T.op (-(AH z.2)) = T.op (T.inv z.1 - AH z.2) := by
    rw [map_sub, hT.right_inv, map_neg]; abel
  have e2 : ∀ y : E, z.2 + Sg.op (A (y + (y - z.1))) = Sg.op (Sg.inv z.2 - A z.1 + (A y + A y)) := by
    intro y; simp only [map_add, map_sub, hS.right_inv]; abel
  constructor
  · rw [← e1]; exact hg _
  · rw [← e2]; exact hfc _

/-- the sweep depends on its argument only through the metric: `‖cpMap z - cpMap z'‖² ≤ K · ⟨M(z-z'), z-z'⟩`,
    also when the metric is only positive SEMI-definite (`τσ‖A‖² = 1` allowed) -/
theorem cpMap_lipschitz_metric [FiniteDimensional ℝ E] [FiniteDimensional ℝ F]
    (A : E →ₗ[ℝ] F) (AH : F →ₗ[ℝ] E) (hadj : ∀ x u, ⟪A x, u⟫ = ⟪x, AH u⟫)
    (T : StepOp E) (Sg : StepOp F) (hT : T.Pos) (hS : Sg.Pos)
    (hM : ∀ x u, 2 * |⟪A x, u⟫| ≤ ⟪T.inv x, x⟫ + ⟪Sg.inv u, u⟫)
    (g : E → ℝ) (fc : F → ℝ) (proxg : StepOp E → E → E) (proxfc : StepOp F → F → F)
    (hg : ∀ v, IsProxW g T v (proxg T v)) (hfc : ∀ v, IsProxW fc Sg v (proxfc Sg v)) :
    ∃ K : ℝ, 0 ≤ K ∧ ∀ z z' : E × F,
      ‖cpMap A AH T Sg proxg proxfc z - cpMap A AH T Sg proxg proxfc z'‖ ^ 2 ≤ K * cpQ A T Sg (z - z') := by
  obtain ⟨c1, hc1, hco1⟩ := hT.coercive
  obtain ⟨c2, hc2, hco2⟩ := hS.coercive
  obtain ⟨kA, hkA0, hA⟩ : ∃ kA : ℝ, 0 ≤ kA ∧ ∀ x, ‖A x‖ ≤ kA * ‖x‖ :=
    ⟨‖LinearMap.toContinuousLinearMap A‖, norm_nonneg _, fun x => (LinearMap.toContinuousLinearMap A).le_opNorm x⟩
  obtain ⟨kT, hkT0, hTb⟩ : ∃ kT : ℝ, 0 ≤ kT ∧ ∀ x, ⟪T.inv x, x⟫ ≤ kT * ‖x‖ ^ 2 := by
    refine ⟨‖LinearMap.toContinuousLinearMap T.inv‖, norm_nonneg _, fun x => ?_⟩
    have h1 := real_inner_le_norm (T.inv x) x
    have h2 : ‖T.inv x‖ ≤ ‖LinearMap.toContinuousLinearMap T.inv‖ * ‖x‖ :=
      (LinearMap.toContinuousLinearMap T.inv).le_opNorm x
    have := mul_le_mul_of_nonneg_right h2 (norm_nonneg x)
    nlinarith
  obtain ⟨kS, hkS0, hSb⟩ : ∃ kS : ℝ, 0 ≤ kS ∧ ∀ x, ⟪Sg.inv x, x⟫ ≤ kS * ‖x‖ ^ 2 := by
    refine ⟨‖LinearMap.toContinuousLinearMap Sg.inv‖, norm_nonneg _, fun x => ?_⟩
    have h1 := real_inner_le_norm (Sg.inv x) x
    have h2 : ‖Sg.inv x‖ ≤ ‖LinearMap.toContinuousLinearMap Sg.inv‖ * ‖x‖ :=
      (LinearMap.toContinuousLinearMap Sg.inv).le_opNorm x
    have := mul_le_mul_of_nonneg_right h2 (norm_nonneg x)
    nlinarith
  have hK0 : 0 ≤ (1 / c1 ^ 2 + (2 * c1 ^ 2 + 8 * kA ^ 2) / (c1 ^ 2 * c2 ^ 2)) := by positivity
  refine ⟨(1 / c1 ^ 2 + (2 * c1 ^ 2 + 8 * kA ^ 2) / (c1 ^ 2 * c2 ^ 2)) * (2 * (kT + kS)), by positivity, ?_⟩
  intro z z'
  have hrange := metric_range_le A AH hadj T Sg hT hS hM kT kS hkT0 hkS0 hTb hSb (z - z').1 (z - z').2
  obtain ⟨hP, hD⟩ := cpMap_prox A AH T Sg hT hS g fc proxg proxfc hg hfc z
  obtain ⟨hP', hD'⟩ := cpMap_prox A AH T Sg hT hS g fc proxg proxfc hg hfc z'
  have hl := cp_pair_lipschitz A T Sg hT hS hc1 hc2 hco1 hco2 hA hkA0 g fc hP hP' hD hD'
  have em1 : (T.inv z.1 - AH z.2) - (T.inv z'.1 - AH z'.2) = T.inv (z - z').1 - AH (z - z').2 := by
    simp only [Prod.fst_sub, Prod.snd_sub, map_sub]; abel
  have em2 : (Sg.inv z.2 - A z.1) - (Sg.inv z'.2 - A z'.1) = Sg.inv (z - z').2 - A (z - z').1 := by
    simp only [Prod.fst_sub, Prod.snd_sub, map_sub]; abel
  rw [em1, em2] at hl
  have hn := prod_norm_sq_le (cpMap A AH T Sg proxg proxfc z - cpMap A AH T Sg proxg proxfc z')
  have hmul := mul_le_mul_of_nonneg_left hrange hK0
  calc ‖cpMap A AH T Sg proxg proxfc z - cpMap A AH T Sg proxg proxfc z'‖ ^ 2
      ≤ _ := hn
    _ ≤ _ := hl
    _ ≤ _ := hmul
    _ = _ := by unfold cpQ; ring

/-- the metric is continuous on pairs (finite dimension) -/
theorem cpQ_continuous [FiniteDimensional ℝ E] [FiniteDimensional ℝ F] (A : E →ₗ[ℝ] F) (T : StepOp E) (Sg : StepOp F) :
    Continuous (cpQ A T Sg) := by
  have h1 : Continuous T.inv := T.inv.continuous_of_finiteDimensional
  have h2 : Continuous Sg.inv := Sg.inv.continuous_of_finiteDimensional
  have h3 : Continuous A := A.continuous_of_finiteDimensional
  unfold cpQ coupledW
  exact (((h1.comp continuous_fst).inner continuous_fst).sub
    (continuous_const.mul ((h3.comp continuous_fst).inner continuous_snd))).add
    ((h2.comp continuous_snd).inner continuous_snd)

/-- algebraic core of the Fejér inequality with the primal–dual gap kept (`fejer_coreW` is the case where the gap
    is dropped at a saddle point) -/
theorem fejer_coreW_gap (A : E →ₗ[ℝ] F) (AH : F → E) (hadj : ∀ x u, ⟪A x, u⟫ = ⟪x, AH u⟫)
    (T : StepOp E) (Sg : StepOp F) (hT : ∀ x y, ⟪T.inv x, y⟫ = ⟪x, T.inv y⟫)
    (hS : ∀ x y, ⟪Sg.inv x, y⟫ = ⟪x, Sg.inv y⟫) (x x1 w : E) (u1 u2 v : F) (G : ℝ)
    (h : ⟪T.inv (x - x1), w - x1⟫ - ⟪AH u1, w - x1⟫ + ⟪Sg.inv (u1 - u2), v - u2⟫
        + ⟪A (x1 + (x1 - x)), v - u2⟫ - ⟪A x1, v⟫ + ⟪A w, u2⟫ ≤ -G) :
    coupledW A T Sg (x1 - w) (u2 - v) + coupledW A T Sg (x1 - x) (u2 - u1) + 2 * G
      ≤ coupledW A T Sg (x - w) (u1 - v) := by
  have hA1 : ⟪AH u1, w - x1⟫ = ⟪A (w - x1), u1⟫ := (real_inner_comm _ _).trans (hadj _ _).symm
  rw [hA1] at h
  unfold coupledW
  simp only [map_sub, map_add, inner_sub_left, inner_sub_right, inner_add_left] at h ⊢
  have sy : ∀ a b : E, ⟪T.inv a, b⟫ = ⟪T.inv b, a⟫ := fun a b => (hT a b).trans (real_inner_comm _ _)
  have sz : ∀ a b : F, ⟪Sg.inv a, b⟫ = ⟪Sg.inv b, a⟫ := fun a b => (hS a b).trans (real_inner_comm _ _)
  have s1 := sy x x1
  have s2 := sy x w
  have s3 := sy x1 w
  have s4 := sz u1 u2
  have s5 := sz u1 v
  have s6 := sz u2 v
  linarith

end cp


/-! ### accelerated PDHG (Chambolle–Pock Alg. 2): algebraic core of the one-step inequality -/
section accel
variable {F : Type*} [NormedAddCommGroup F] [InnerProductSpace ℝ F]

omit [InnerProductSpace ℝ E] in
theorem young_op (A : E → F) (L : ℝ) (hA : ∀ x, ‖A x‖ ≤ L * ‖x‖) (σ : ℝ) (hσ : 0 < σ) (e : E) (d : F) :
    ⟪A e, d⟫ ≤ L ^ 2 * σ / 2 * ‖e‖ ^ 2 + ‖d‖ ^ 2 / (2 * σ) := by
  have h1 : ⟪A e, d⟫ ≤ L * ‖e‖ * ‖d‖ :=
    (real_inner_le_norm _ _).trans (mul_le_mul_of_nonneg_right (hA e) (norm_nonneg d))
  have h2 : L ^ 2 * σ / 2 * ‖e‖ ^ 2 + ‖d‖ ^ 2 / (2 * σ) - L * ‖e‖ * ‖d‖ = (σ * L * ‖e‖ - ‖d‖) ^ 2 / (2 * σ) := by
    field_simp; ring
  have h3 : 0 ≤ (σ * L * ‖e‖ - ‖d‖) ^ 2 / (2 * σ) := by positivity
  linarith

/-- `a = x - x*`, `a' = x⁺ - x*`, `b = u - u*`, `b' = u⁺ - u*`, `e = x_ext - x`; `hP` / `hD` are the (strongly
    convex) primal and the dual prox inequality added to the saddle inequalities. -/
theorem accel_core (A : E →ₗ[ℝ] F) (L : ℝ) (hA : ∀ x, ‖A x‖ ≤ L * ‖x‖)
    (τ σ γ : ℝ) (hτ : 0 < τ) (hσ : 0 < σ) (hstep : τ * σ * L ^ 2 ≤ 1) (a a' e : E) (b b' : F)
    (hP : (1 / τ) * ⟪a - a', -a'⟫ + ⟪A a', b'⟫ + γ * ‖a'‖ ^ 2 ≤ 0)
    (hD : (1 / σ) * ⟪b - b', -b'⟫ - ⟪A (a + e), b'⟫ ≤ 0) :
    ((1 / (2 * τ) + γ) * ‖a'‖ ^ 2 + ‖b'‖ ^ 2 / (2 * σ) + ‖a' - a‖ ^ 2 / (2 * τ) + ⟪A (a' - a), b'⟫) / τ
      ≤ (‖a‖ ^ 2 / (2 * τ) + ‖b‖ ^ 2 / (2 * σ)) / τ + ‖e‖ ^ 2 / (2 * τ ^ 2) + ⟪A e, b⟫ / τ := by
  have n1 : ⟪a - a', -a'⟫ = (‖a'‖ ^ 2 + ‖a' - a‖ ^ 2 - ‖a‖ ^ 2) / 2 := by
    rw [norm_sub_sq_real, inner_neg_right, inner_sub_left, real_inner_self_eq_norm_sq, real_inner_comm a' a]; ring
  have n2 : ⟪b - b', -b'⟫ = (‖b'‖ ^ 2 + ‖b' - b‖ ^ 2 - ‖b‖ ^ 2) / 2 := by
    rw [norm_sub_sq_real, inner_neg_right, inner_sub_left, real_inner_self_eq_norm_sq, real_inner_comm b' b]; ring
  have y1 := young_op A L hA σ hσ e (b' - b)
  rw [inner_sub_right] at y1
  rw [n1] at hP
  rw [n2, map_add, inner_add_left] at hD
  have hI : (1 / (2 * τ) + γ) * ‖a'‖ ^ 2 + ‖b'‖ ^ 2 / (2 * σ) + ‖a' - a‖ ^ 2 / (2 * τ) + ⟪A (a' - a), b'⟫
      ≤ ‖a‖ ^ 2 / (2 * τ) + ‖b‖ ^ 2 / (2 * σ) + ⟪A e, b⟫ + L ^ 2 * σ / 2 * ‖e‖ ^ 2 := by
    rw [map_sub, inner_sub_left]
    have q1 : 1 / τ * ((‖a'‖ ^ 2 + ‖a' - a‖ ^ 2 - ‖a‖ ^ 2) / 2)
        = 1 / (2 * τ) * ‖a'‖ ^ 2 + ‖a' - a‖ ^ 2 / (2 * τ) - ‖a‖ ^ 2 / (2 * τ) := by ring
    have q2 : 1 / σ * ((‖b'‖ ^ 2 + ‖b' - b‖ ^ 2 - ‖b‖ ^ 2) / 2)
        = ‖b'‖ ^ 2 / (2 * σ) + ‖b' - b‖ ^ 2 / (2 * σ) - ‖b‖ ^ 2 / (2 * σ) := by ring
    rw [q1] at hP
    rw [q2] at hD
    linarith
  have hdiv := div_le_div_of_nonneg_right hI hτ.le
  have hrest : (‖a‖ ^ 2 / (2 * τ) + ‖b‖ ^ 2 / (2 * σ)) / τ + ‖e‖ ^ 2 / (2 * τ ^ 2) + ⟪A e, b⟫ / τ
      - (‖a‖ ^ 2 / (2 * τ) + ‖b‖ ^ 2 / (2 * σ) + ⟪A e, b⟫ + L ^ 2 * σ / 2 * ‖e‖ ^ 2) / τ
      = ‖e‖ ^ 2 * (1 - τ * σ * L ^ 2) / (2 * τ ^ 2) := by
    field_simp; ring
  have hnn : 0 ≤ ‖e‖ ^ 2 * (1 - τ * σ * L ^ 2) / (2 * τ ^ 2) :=
    div_nonneg (mul_nonneg (sq_nonneg _) (by linarith)) (by positivity)
  linarith

omit [InnerProductSpace ℝ E] in
/-- the accelerated energy controls the primal distance: `‖a‖²/(2τ²) ≤ Ψ` when `τσL² ≤ 1` -/
theorem accel_energy_lower (A : E → F) (L : ℝ) (hA : ∀ x, ‖A x‖ ≤ L * ‖x‖)
    (τ σ : ℝ) (hτ : 0 < τ) (hσ : 0 < σ) (hstep : τ * σ * L ^ 2 ≤ 1) (a e : E) (b : F) :
    ‖a‖ ^ 2 / (2 * τ ^ 2)
      ≤ (‖a‖ ^ 2 / (2 * τ) + ‖b‖ ^ 2 / (2 * σ)) / τ + ‖e‖ ^ 2 / (2 * τ ^ 2) + ⟪A e, b⟫ / τ := by
  have h1 : -(L * ‖e‖ * ‖b‖) ≤ ⟪A e, b⟫ := by
    have := abs_real_inner_le_norm (A e) b
    have h2 := neg_abs_le ⟪A e, b⟫
    have h3 := mul_le_mul_of_nonneg_right (hA e) (norm_nonneg b)
    linarith
  have h4 : -(L * ‖e‖ * ‖b‖) / τ ≤ ⟪A e, b⟫ / τ := div_le_div_of_nonneg_right h1 hτ.le
  have h5 : L ^ 2 * ‖b‖ ^ 2 / 2 ≤ ‖b‖ ^ 2 / (2 * σ) / τ := by
    rw [div_div, le_div_iff₀ (by positivity)]
    have := mul_le_mul_of_nonneg_right hstep (sq_nonneg ‖b‖)
    nlinarith
  have h6 : ‖e‖ ^ 2 / (2 * τ ^ 2) - (L * ‖e‖ * ‖b‖) / τ + L ^ 2 * ‖b‖ ^ 2 / 2 = (‖e‖ / τ - L * ‖b‖) ^ 2 / 2 := by
    field_simp; ring
  have h7 : 0 ≤ (‖e‖ / τ - L * ‖b‖) ^ 2 / 2 := by positivity
  have h8 : (‖a‖ ^ 2 / (2 * τ) + ‖b‖ ^ 2 / (2 * σ)) / τ = ‖a‖ ^ 2 / (2 * τ ^ 2) + ‖b‖ ^ 2 / (2 * σ) / τ := by
    field_simp
  have h9 : -(L * ‖e‖ * ‖b‖) / τ = -((L * ‖e‖ * ‖b‖) / τ) := by ring
  rw [h8]
  linarith

/-- dual-accelerated variant (`gamma_dual > 0`, `f*` strongly convex; the code still extrapolates the PRIMAL variable):
    `hP` / `hD` as in `accel_core` with the strong-convexity term on the dual side. -/
theorem accel_core_dual (A : E →ₗ[ℝ] F) (L : ℝ) (hA : ∀ x, ‖A x‖ ≤ L * ‖x‖)
    (τ σ γ : ℝ) (hτ : 0 < τ) (hσ : 0 < σ) (hstep : τ * σ * L ^ 2 ≤ 1) (a a' e : E) (b b' : F)
    (hP : (1 / τ) * ⟪a - a', -a'⟫ + ⟪A a', b'⟫ ≤ 0)
    (hD : (1 / σ) * ⟪b - b', -b'⟫ - ⟪A (a + e), b'⟫ + γ * ‖b'‖ ^ 2 ≤ 0) :
    (‖a'‖ ^ 2 / (2 * τ) + (1 / (2 * σ) + γ) * ‖b'‖ ^ 2 + ‖a' - a‖ ^ 2 / (2 * τ) + ⟪A (a' - a), b'⟫) / σ
      ≤ (‖a‖ ^ 2 / (2 * τ) + ‖b‖ ^ 2 / (2 * σ)) / σ + ⟪A e, b⟫ / σ + ‖e‖ ^ 2 / (2 * (τ * σ)) := by
  have n1 : ⟪a - a', -a'⟫ = (‖a'‖ ^ 2 + ‖a' - a‖ ^ 2 - ‖a‖ ^ 2) / 2 := by
    rw [norm_sub_sq_real, inner_neg_right, inner_sub_left, real_inner_self_eq_norm_sq, real_inner_comm a' a]; ring
  have n2 : ⟪b - b', -b'⟫ = (‖b'‖ ^ 2 + ‖b' - b‖ ^ 2 - ‖b‖ ^ 2) / 2 := by
    rw [norm_sub_sq_real, inner_neg_right, inner_sub_left, real_inner_self_eq_norm_sq, real_inner_comm b' b]; ring
  have y1 := young_op A L hA σ hσ e (b' - b)
  rw [inner_sub_right] at y1
  rw [n1] at hP
  rw [n2, map_add, inner_add_left] at hD
  have hI : ‖a'‖ ^ 2 / (2 * τ) + (1 / (2 * σ) + γ) * ‖b'‖ ^ 2 + ‖a' - a‖ ^ 2 / (2 * τ) + ⟪A (a' - a), b'⟫
      ≤ ‖a‖ ^ 2 / (2 * τ) + ‖b‖ ^ 2 / (2 * σ) + ⟪A e, b⟫ + L ^ 2 * σ / 2 * ‖e‖ ^ 2 := by
    rw [map_sub, inner_sub_left]
    have q1 : 1 / τ * ((‖a'‖ ^ 2 + ‖a' - a‖ ^ 2 - ‖a‖ ^ 2) / 2)
        = ‖a'‖ ^ 2 / (2 * τ) + ‖a' - a‖ ^ 2 / (2 * τ) - ‖a‖ ^ 2 / (2 * τ) := by ring
    have q2 : 1 / σ * ((‖b'‖ ^ 2 + ‖b' - b‖ ^ 2 - ‖b‖ ^ 2) / 2)
        = 1 / (2 * σ) * ‖b'‖ ^ 2 + ‖b' - b‖ ^ 2 / (2 * σ) - ‖b‖ ^ 2 / (2 * σ) := by ring
    rw [q1] at hP
    rw [q2] at hD
    linarith
  have hdiv := div_le_div_of_nonneg_right hI hσ.le
  have hrest : (‖a‖ ^ 2 / (2 * τ) + ‖b‖ ^ 2 / (2 * σ)) / σ + ⟪A e, b⟫ / σ + ‖e‖ ^ 2 / (2 * (τ * σ))
      - (‖a‖ ^ 2 / (2 * τ) + ‖b‖ ^ 2 / (2 * σ) + ⟪A e, b⟫ + L ^ 2 * σ / 2 * ‖e‖ ^ 2) / σ
      = ‖e‖ ^ 2 * (1 - τ * σ * L ^ 2) / (2 * (τ * σ)) := by
    field_simp; ring
  have hnn : 0 ≤ ‖e‖ ^ 2 * (1 - τ * σ * L ^ 2) / (2 * (τ * σ)) :=
    div_nonneg (mul_nonneg (sq_nonneg _) (by linarith)) (by positivity)
  linarith

omit [InnerProductSpace ℝ E] in
/-- the dual energy controls the dual distance: `(1 - τσL²) ‖b‖²/(2σ²) ≤ Ψ_d` -/
theorem accel_energy_lower_dual (A : E → F) (L : ℝ) (hA : ∀ x, ‖A x‖ ≤ L * ‖x‖)
    (τ σ : ℝ) (hτ : 0 < τ) (hσ : 0 < σ) (a e : E) (b : F) :
    (1 - τ * σ * L ^ 2) * ‖b‖ ^ 2 / (2 * σ ^ 2)
      ≤ (‖a‖ ^ 2 / (2 * τ) + ‖b‖ ^ 2 / (2 * σ)) / σ + ⟪A e, b⟫ / σ + ‖e‖ ^ 2 / (2 * (τ * σ)) := by
  have h1 : -(L * ‖e‖ * ‖b‖) ≤ ⟪A e, b⟫ := by
    have := abs_real_inner_le_norm (A e) b
    have h2 := neg_abs_le ⟪A e, b⟫
    have h3 := mul_le_mul_of_nonneg_right (hA e) (norm_nonneg b)
    linarith
  have h4 : -(L * ‖e‖ * ‖b‖) / σ ≤ ⟪A e, b⟫ / σ := div_le_div_of_nonneg_right h1 hσ.le
  have h6 : ‖e‖ ^ 2 / (2 * (τ * σ)) - (L * ‖e‖ * ‖b‖) / σ + τ * σ * L ^ 2 * ‖b‖ ^ 2 / (2 * σ ^ 2)
      = (‖e‖ - τ * L * ‖b‖) ^ 2 / (2 * (τ * σ)) := by
    field_simp; ring
  have h7 : 0 ≤ (‖e‖ - τ * L * ‖b‖) ^ 2 / (2 * (τ * σ)) := by positivity
  have h8 : (‖a‖ ^ 2 / (2 * τ) + ‖b‖ ^ 2 / (2 * σ)) / σ = ‖a‖ ^ 2 / (2 * τ) / σ + ‖b‖ ^ 2 / (2 * σ ^ 2) := by
    field_simp
  have h9 : -(L * ‖e‖ * ‖b‖) / σ = -((L * ‖e‖ * ‖b‖) / σ) := by ring
  have h10 : 0 ≤ ‖a‖ ^ 2 / (2 * τ) / σ := by positivity
  have h11 : (1 - τ * σ * L ^ 2) * ‖b‖ ^ 2 / (2 * σ ^ 2) = ‖b‖ ^ 2 / (2 * σ ^ 2) - τ * σ * L ^ 2 * ‖b‖ ^ 2 / (2 * σ ^ 2) := by
    ring
  rw [h8, h11]
  linarith

/-- growth of `1/τ` under `τ ← τ/√(1+2γτ)`: `1/τ⁺ ≥ 1/τ + γ/(1+γτ)` -/
theorem inv_tau_growth (γ τ : ℝ) (hγ : 0 < γ) (hτ : 0 < τ) :
    1 / τ + γ / (1 + γ * τ) ≤ 1 / (1 / Real.sqrt (1 + 2 * γ * τ) * τ) := by
  have hy : 0 < γ * τ := mul_pos hγ hτ
  have h1 : 1 + γ * τ / (1 + γ * τ) ≤ Real.sqrt (1 + 2 * γ * τ) := by
    apply Real.le_sqrt_of_sq_le
    have e : 1 + γ * τ / (1 + γ * τ) = (1 + 2 * (γ * τ)) / (1 + γ * τ) := by field_simp; ring
    rw [e, div_pow, div_le_iff₀ (by positivity)]
    nlinarith [mul_pos hy hy, mul_pos (mul_pos hy hy) hy]
  have e2 : 1 / (1 / Real.sqrt (1 + 2 * γ * τ) * τ) = Real.sqrt (1 + 2 * γ * τ) / τ := by
    have : 0 < Real.sqrt (1 + 2 * γ * τ) := Real.sqrt_pos.mpr (by positivity)
    field_simp
  have e3 : 1 / τ + γ / (1 + γ * τ) = (1 + γ * τ / (1 + γ * τ)) / τ := by field_simp
  rw [e2, e3]
  exact div_le_div_of_nonneg_right h1 hτ.le

end accel

/-! ### strong convexity in subgradient form -/

/-- a subgradient inequality of a `γ`-strongly convex function improves by `γ/2 ‖w - p‖²` -/
theorem strong_subgrad {g : E → ℝ} {γ : ℝ} (hγ : 0 ≤ γ) (hsc : StrongConvexOn Set.univ γ g) {p s : E}
    (hsub : ∀ w, g p + ⟪s, w - p⟫ ≤ g w) (w : E) : g p + ⟪s, w - p⟫ + γ / 2 * ‖w - p‖ ^ 2 ≤ g w := by
  set c := γ / 2 * ‖w - p‖ ^ 2 with hc
  have hc0 : 0 ≤ c := by positivity
  have key : ∀ t : ℝ, 0 < t → t < 1 → g p + ⟪s, w - p⟫ + (1 - t) * c ≤ g w := by
    intro t ht0 ht1
    have h1 := hsc.2 (Set.mem_univ p) (Set.mem_univ w) (by linarith : (0 : ℝ) ≤ 1 - t) ht0.le (by ring)
    have h2 := hsub ((1 - t) • p + t • w)
    have e : (1 - t) • p + t • w - p = t • (w - p) := by
      simp only [sub_smul, smul_sub, one_smul]; abel
    rw [e, real_inner_smul_right] at h2
    simp only [smul_eq_mul] at h1
    rw [norm_sub_rev p w] at h1
    have : t * (g p + ⟪s, w - p⟫ + (1 - t) * c - g w) ≤ 0 := by
      rw [hc]; nlinarith
    by_contra hcon
    push Not at hcon
    have := mul_pos ht0 (by linarith : 0 < g p + ⟪s, w - p⟫ + (1 - t) * c - g w)
    linarith
  apply le_of_forall_pos_le_add
  intro ε hε
  have ht0 : 0 < ε / (c + ε + 1) := by positivity
  have ht1 : ε / (c + ε + 1) < 1 := by rw [div_lt_one (by positivity)]; linarith
  have h := key _ ht0 ht1
  have h3 : ε / (c + ε + 1) * c ≤ ε := by
    rw [div_mul_eq_mul_div, div_le_iff₀ (by positivity)]; nlinarith
  linarith

end SigpyVerif.C13
