import SigpyVerif.Model.C10Nd
import SigpyVerif.Lemmas.C10Nd
import SigpyVerif.Lemmas.C10List
/-
  C10, multi-level N-d: helper lemmas.  `tabM` is the identity; box membership pointwise; sums over a box
  restricted to a sub-box; shapes after a list of per-axis steps; the zero filling of `coeffs_to_array`'s layout
  (a level's output vanishes where a transformed index lies between the approximation length and the detail offset).
-/
namespace SigpyVerif.C10
open Finset

variable {R : Type*} [CommRing R]

/-! ### `tabM` is the identity (the executed model is the model of the theorems) -/

theorem tabM_app {α : Type*} : ∀ (shape : List ℕ) (X : List ℕ → α), (tabM shape X).app = X := by
  intro shape
  induction shape with
  | nil =>
    intro X; funext idx
    cases idx <;> rfl
  | cons n s ih =>
    intro X; funext idx
    cases idx with
    | nil => rfl
    | cons i r =>
      simp only [tabM, nodeM]
      split_ifs with h
      · simp only [Array.getElem_ofFn, ih]
      · rfl

/-! ### box membership -/

theorem inBoxB_iff : ∀ (s idx : List ℕ), inBoxB s idx = true ↔ InBox s idx
  | [], [] => by simp [inBoxB, InBox]
  | n :: s, i :: idx => by simp [inBoxB, InBox, inBoxB_iff s idx]
  | [], _ :: _ => by simp [inBoxB, InBox]
  | _ :: _, [] => by simp [inBoxB, InBox]

theorem inBox_iff : ∀ (s idx : List ℕ),
    InBox s idx ↔ idx.length = s.length ∧ ∀ a, a < s.length → idx.getD a 0 < s.getD a 0
  | [], [] => by simp [InBox]
  | [], _ :: _ => by simp [InBox]
  | _ :: _, [] => by simp [InBox]
  | n :: s, i :: idx => by
    simp only [InBox, inBox_iff s idx, List.length_cons, Nat.add_right_cancel_iff]
    constructor
    · rintro ⟨hi, hl, hr⟩
      refine ⟨hl, fun a ha => ?_⟩
      cases a with
      | zero => simpa using hi
      | succ a => simpa using hr a (by omega)
    · rintro ⟨hl, hr⟩
      refine ⟨by simpa using hr 0 (by omega), hl, fun a ha => ?_⟩
      simpa using hr (a + 1) (by omega)

/-- pointwise smaller box of the same rank -/
def SubBox (s' s : List ℕ) : Prop := s'.length = s.length ∧ ∀ a, s'.getD a 0 ≤ s.getD a 0

theorem SubBox.inBox {s' s idx : List ℕ} (h : SubBox s' s) (hi : InBox s' idx) : InBox s idx := by
  rw [inBox_iff] at hi ⊢
  exact ⟨hi.1.trans h.1, fun a ha => lt_of_lt_of_le (hi.2 a (by rw [h.1]; exact ha)) (h.2 a)⟩

theorem SubBox.trans {a b c : List ℕ} (h1 : SubBox a b) (h2 : SubBox b c) : SubBox a c :=
  ⟨h1.1.trans h2.1, fun i => (h1.2 i).trans (h2.2 i)⟩

theorem SubBox.tail {n' n : ℕ} {t s : List ℕ} (h : SubBox (n' :: t) (n :: s)) : n' ≤ n ∧ SubBox t s :=
  ⟨by simpa using h.2 0, by simpa using h.1, fun a => by simpa using h.2 (a + 1)⟩

/-! ### sums over a box -/

theorem boxSum_congr : ∀ (s : List ℕ) (f g : List ℕ → R), (∀ idx, InBox s idx → f idx = g idx) →
    boxSum s f = boxSum s g := by
  intro s
  induction s with
  | nil => intro f g h; exact h [] trivial
  | cons n s ih =>
    intro f g h
    simp only [boxSum]
    apply sum_congr rfl; intro i hi
    exact ih _ _ (fun idx hidx => h (i :: idx) ⟨mem_range.mp hi, hidx⟩)

theorem boxSum_add : ∀ (s : List ℕ) (f g : List ℕ → R),
    boxSum s (fun idx => f idx + g idx) = boxSum s f + boxSum s g := by
  intro s
  induction s with
  | nil => intro f g; rfl
  | cons n s ih =>
    intro f g
    simp only [boxSum]
    rw [← sum_add_distrib]
    apply sum_congr rfl; intro i _
    exact ih _ _

theorem boxSum_sub : ∀ (s : List ℕ) (f g : List ℕ → R),
    boxSum s (fun idx => f idx - g idx) = boxSum s f - boxSum s g := by
  intro s
  induction s with
  | nil => intro f g; rfl
  | cons n s ih =>
    intro f g
    simp only [boxSum]
    rw [← sum_sub_distrib]
    apply sum_congr rfl; intro i _
    exact ih _ _

theorem boxSum_zero : ∀ (s : List ℕ), boxSum s (fun _ => (0 : R)) = 0 := by
  intro s
  induction s with
  | nil => rfl
  | cons n s ih => simp only [boxSum, ih, sum_const_zero]

/-- the sum over a box of a function cut off outside a sub-box is the sum over the sub-box -/
theorem boxSum_indicator : ∀ (s s' : List ℕ) (h : List ℕ → R), SubBox s' s →
    boxSum s (fun idx => if inBoxB s' idx then h idx else 0) = boxSum s' h := by
  intro s
  induction s with
  | nil =>
    intro s' h hs
    cases s' with
    | nil => simp [boxSum, inBoxB]
    | cons _ _ => simp [SubBox] at hs
  | cons n s ih =>
    intro s' h hs
    cases s' with
    | nil => simp [SubBox] at hs
    | cons n' t =>
      obtain ⟨hn, ht⟩ := hs.tail
      simp only [boxSum]
      have e : ∀ i ∈ range n, boxSum s (fun idx => if inBoxB (n' :: t) (i :: idx) then h (i :: idx) else 0)
          = if i < n' then boxSum t (fun idx => h (i :: idx)) else 0 := by
        intro i _
        by_cases hi : i < n'
        · rw [if_pos hi, ← ih t (fun idx => h (i :: idx)) ht]
          simp [inBoxB, hi]
        · rw [if_neg hi]
          simp [inBoxB, hi, boxSum_zero]
      rw [sum_congr rfl e, ← sum_filter]
      congr 1
      ext i
      simp only [mem_filter, mem_range]
      omega

/-! ### shapes -/

theorem length_mapAxes (f : ℕ → ℕ) (axes shape : List ℕ) : (mapAxes f axes shape).length = shape.length := by
  simp [mapAxes]

theorem getD_mapAxes (f : ℕ → ℕ) (axes shape : List ℕ) (b : ℕ) (hb : b < shape.length) :
    (mapAxes f axes shape).getD b 0 = if b ∈ axes then f (shape.getD b 0) else shape.getD b 0 := by
  unfold mapAxes
  rw [List.getD_eq_getElem?_getD, List.getD_eq_getElem?_getD, List.getElem?_mapIdx, List.getElem?_eq_getElem hb]
  simp

theorem getD_of_le (l : List ℕ) (b : ℕ) (hb : l.length ≤ b) : l.getD b 0 = 0 := by
  rw [List.getD_eq_getElem?_getD, List.getElem?_eq_none hb]; rfl

theorem list_ext_getD {l l' : List ℕ} (hl : l.length = l'.length) (h : ∀ b, b < l.length → l.getD b 0 = l'.getD b 0) :
    l = l' := by
  apply List.ext_getElem hl
  intro b h1 h2
  have := h b h1
  rw [List.getD_eq_getElem?_getD, List.getD_eq_getElem?_getD, List.getElem?_eq_getElem h1,
    List.getElem?_eq_getElem h2] at this
  simpa using this

theorem mapAxes_congr (f f' : ℕ → ℕ) (axes shape : List ℕ) (h : ∀ n, f n = f' n) :
    mapAxes f axes shape = mapAxes f' axes shape := by
  have : f = f' := funext h
  rw [this]

theorem mapAxes_id (f : ℕ → ℕ) (axes shape : List ℕ) (h : ∀ n, f n = n) : mapAxes f axes shape = shape := by
  apply list_ext_getD (length_mapAxes _ _ _)
  intro b hb
  rw [length_mapAxes] at hb
  rw [getD_mapAxes _ _ _ _ hb, h]
  simp

/-- pointwise comparison of two `mapAxes` shapes -/
theorem subBox_mapAxes (f f' : ℕ → ℕ) (axes shape : List ℕ) (h : ∀ n, f n ≤ f' n) :
    SubBox (mapAxes f axes shape) (mapAxes f' axes shape) := by
  refine ⟨by simp [length_mapAxes], fun a => ?_⟩
  by_cases ha : a < shape.length
  · rw [getD_mapAxes _ _ _ _ ha, getD_mapAxes _ _ _ _ ha]
    split_ifs
    · exact h _
    · exact le_refl _
  · rw [getD_of_le _ _ (by rw [length_mapAxes]; omega), getD_of_le _ _ (by rw [length_mapAxes]; omega)]

theorem mapAxes_mapAxes (f f' : ℕ → ℕ) (axes shape : List ℕ) :
    mapAxes f axes (mapAxes f' axes shape) = mapAxes (fun n => f (f' n)) axes shape := by
  apply list_ext_getD (by simp [length_mapAxes])
  intro b hb
  simp only [length_mapAxes] at hb
  rw [getD_mapAxes _ _ _ _ (by rw [length_mapAxes]; exact hb), getD_mapAxes _ _ _ _ hb, getD_mapAxes _ _ _ _ hb]
  split_ifs <;> rfl

theorem getD_set_ne (l : List ℕ) {a b : ℕ} (v : ℕ) (h : a ≠ b) : (l.set a v).getD b 0 = l.getD b 0 := by
  rw [List.getD_eq_getElem?_getD, List.getD_eq_getElem?_getD, List.getElem?_set_ne h]

theorem getD_set_self (l : List ℕ) {a : ℕ} (v : ℕ) (h : a < l.length) : (l.set a v).getD a 0 = v := by
  rw [List.getD_eq_getElem?_getD, List.getElem?_set_self h]; rfl

/-- the shape after one step of the same family along each axis of a duplicate-free list of axes -/
theorem shapeAxes_map (F : AxisMap R) : ∀ (axes shape : List ℕ), axes.Nodup → (∀ a ∈ axes, a < shape.length) →
    shapeAxes (axes.map fun a => (a, F)) shape = mapAxes F.len axes shape := by
  intro axes
  induction axes with
  | nil =>
    intro shape _ _
    apply list_ext_getD (by simp [shapeAxes, length_mapAxes])
    intro b hb
    simp only [List.map_nil, shapeAxes] at hb ⊢
    rw [getD_mapAxes _ _ _ _ hb]; simp
  | cons a as ih =>
    intro shape hnd hax
    have hnd' := (List.nodup_cons.mp hnd)
    simp only [List.map_cons, shapeAxes]
    rw [ih _ hnd'.2 (by intro b hb; simpa using hax b (List.mem_cons_of_mem _ hb))]
    apply list_ext_getD (by simp [length_mapAxes])
    intro b hb
    simp only [length_mapAxes, List.length_set] at hb
    rw [getD_mapAxes _ _ _ _ (by simpa using hb), getD_mapAxes _ _ _ _ hb]
    by_cases hba : b = a
    · subst hba
      rw [if_neg hnd'.1, if_pos List.mem_cons_self, getD_set_self _ _ hb]
    · rw [getD_set_ne _ _ (Ne.symm hba)]
      simp [hba]

/-! ### packed lengths -/

theorem packedLen_zero (z L : ℕ) : packedLen z L 0 = z := by simp [packedLen, coeffLens]

theorem packedLen_succ (z L J : ℕ) : packedLen z L (J + 1) = packedLen (dwtLen z L) L J + dwtLen z L := by
  simp [packedLen, coeffLens]

/-- the packed length is at least the signal length (filters of length ≥ 2): the detail offset of
    `coeffs_to_array` never falls inside the approximation block -/
theorem le_packedLen {L : ℕ} (hL : 2 ≤ L) : ∀ (J n : ℕ), n ≤ packedLen n L J := by
  intro J
  induction J with
  | zero => intro n; rw [packedLen_zero]
  | succ J ih =>
    intro n
    rw [packedLen_succ]
    have := ih (dwtLen n L)
    unfold dwtLen at *
    omega

/-- splitting the sum over a packed axis `[ a (n) | zeros (p - n) | d (n) ]` -/
theorem sum_packed_axis (n p : ℕ) (hnp : n ≤ p) (F : ℕ → R) (hgap : ∀ k, n ≤ k → k < p → F k = 0) :
    ∑ k ∈ range (p + n), F k = ∑ k ∈ range n, F k + ∑ k ∈ range n, F (p + k) := by
  rw [sum_range_add]
  congr 1
  obtain ⟨q, rfl⟩ : ∃ q, p = n + q := ⟨p - n, by omega⟩
  rw [sum_range_add]
  have : ∑ k ∈ range q, F (n + k) = 0 := by
    apply sum_eq_zero; intro k hk
    exact hgap _ (by omega) (by have := mem_range.mp hk; omega)
  rw [this, add_zero]

/-! ### zero filling: a level's output vanishes in the gap of every transformed axis -/

/-- steps along other axes keep an array zero wherever the index along axis `b` satisfies `Gp` -/
theorem applyAxes_vanish_other (b : ℕ) (Gp : ℕ → Prop) : ∀ (steps : List (ℕ × AxisMap R)) (shape : List ℕ)
    (X : List ℕ → R), (∀ s ∈ steps, s.1 ≠ b ∧ ∀ N k, s.2.fwd N (fun _ => 0) k = 0) →
    (∀ idx, Gp (idx.getD b 0) → X idx = 0) → ∀ idx, Gp (idx.getD b 0) → applyAxes steps shape X idx = 0 := by
  intro steps
  induction steps with
  | nil => intro shape X _ hX idx h; exact hX idx h
  | cons s as ih =>
    intro shape X hs hX idx h
    obtain ⟨c, F⟩ := s
    have h0 := hs (c, F) List.mem_cons_self
    simp only [applyAxes]
    apply ih _ _ (by intro t ht; exact hs t (List.mem_cons_of_mem _ ht)) _ idx h
    intro idx' h'
    unfold alongAxis
    have : (fun i => X (idx'.set c i)) = fun _ => 0 := by
      funext i
      apply hX
      rw [getD_set_ne _ _ h0.1]; exact h'
    rw [this]
    exact h0.2 _ _

/-- left inverse of a list of per-axis steps, for any coefficient array that agrees with the transform on the
    coefficient box (the inverse reads nothing else) -/
theorem applyAxes_left_inverse_on : ∀ (steps : List (ℕ × AxisMap R)) (shape : List ℕ) (X C : List ℕ → R)
    (idx : List ℕ), (∀ s ∈ steps, s.1 < shape.length ∧ s.2.IsInv) →
    (∀ i2, InBox (shapeAxes steps shape) i2 → C i2 = applyAxes steps shape X i2) → InBox shape idx →
      unapplyAxes steps shape C idx = X idx := by
  intro steps
  induction steps with
  | nil => intro shape X C idx _ hC hbox; exact hC idx hbox
  | cons s as ih =>
    intro shape X C idx hax hC hbox
    obtain ⟨a, F⟩ := s
    have h0 := hax (a, F) List.mem_cons_self
    have ha : a < shape.length := h0.1
    have hlt := hbox.getD_lt a ha
    simp only [unapplyAxes]
    rw [← alongAxis_left_inverse (F.fwd (shape.getD a 0)) (F.bwd (shape.getD a 0)) (shape.getD a 0) (h0.2.1 _) a X idx
      (by rw [hbox.length_eq]; exact ha) hlt]
    unfold alongAxis
    apply h0.2.2 _ _ _ _ _ hlt
    intro k hk
    exact ih _ _ _ _ (by intro b hb; simpa using hax b (List.mem_cons_of_mem _ hb)) hC (hbox.set a _ k hk)

end SigpyVerif.C10
