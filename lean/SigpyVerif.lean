-- Root of the `SigpyVerif` library: imports every property module (and through them the models,
-- generated definitions and lemmas).
import SigpyVerif.Props.C09
import SigpyVerif.Props.C05
import SigpyVerif.Props.C03
import SigpyVerif.Props.C11
import SigpyVerif.Props.C11Shape
import SigpyVerif.Props.C19
import SigpyVerif.Props.C20
import SigpyVerif.Props.C01
import SigpyVerif.Props.C04
import SigpyVerif.Props.C07
import SigpyVerif.Props.C06
import SigpyVerif.Props.C10
import SigpyVerif.Props.C14
import SigpyVerif.Props.C08
import SigpyVerif.Props.C02
import SigpyVerif.Gen.EffectsOk
import SigpyVerif.Props.C13
import SigpyVerif.Props.C12
import SigpyVerif.Props.C15
import SigpyVerif.Props.C18
import SigpyVerif.Props.C16
import SigpyVerif.Props.C17
import SigpyVerif.Props.C11Psd
import SigpyVerif.Props.C11Duchi
import SigpyVerif.Props.C11DuchiModel
