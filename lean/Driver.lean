/- Line-protocol driver: one request per line `Cxx op args…`, one reply per line. Import-free of Mathlib so it links. -/
import SigpyVerif.Drv.C01
import SigpyVerif.Drv.C02
import SigpyVerif.Drv.C03
import SigpyVerif.Drv.C04
import SigpyVerif.Drv.C05
import SigpyVerif.Drv.C06
import SigpyVerif.Drv.C07
import SigpyVerif.Drv.C08
import SigpyVerif.Drv.C09
import SigpyVerif.Drv.C10
import SigpyVerif.Drv.C11
import SigpyVerif.Drv.C12
import SigpyVerif.Drv.C13
import SigpyVerif.Drv.C14
import SigpyVerif.Drv.C15
import SigpyVerif.Drv.C16
import SigpyVerif.Drv.C17
import SigpyVerif.Drv.C18
import SigpyVerif.Drv.C19
import SigpyVerif.Drv.C20
open SigpyVerif

def dispatch (line : String) : String :=
  match (line.splitOn " ").filter (· ≠ "") with
  | [] => "err empty"
  | "C01" :: rest => Drv.C01.handle rest
  | "C02" :: rest => Drv.C02.handle rest
  | "C03" :: rest => Drv.C03.handle rest
  | "C04" :: rest => Drv.C04.handle rest
  | "C05" :: rest => Drv.C05.handle rest
  | "C06" :: rest => Drv.C06.handle rest
  | "C07" :: rest => Drv.C07.handle rest
  | "C08" :: rest => Drv.C08.handle rest
  | "C09" :: rest => Drv.C09.handle rest
  | "C10" :: rest => Drv.C10.handle rest
  | "C11" :: rest => Drv.C11.handle rest
  | "C12" :: rest => Drv.C12.handle rest
  | "C13" :: rest => Drv.C13.handle rest
  | "C14" :: rest => Drv.C14.handle rest
  | "C15" :: rest => Drv.C15.handle rest
  | "C16" :: rest => Drv.C16.handle rest
  | "C17" :: rest => Drv.C17.handle rest
  | "C18" :: rest => Drv.C18.handle rest
  | "C19" :: rest => Drv.C19.handle rest
  | "C20" :: rest => Drv.C20.handle rest
  | _ => "err bad-op"

partial def loop (h : IO.FS.Stream) (out : IO.FS.Stream) : IO Unit := do
  let line ← h.getLine
  if line.isEmpty then return ()
  let l := (line.dropEndWhile (fun c => c == '\n' || c == '\r')).toString
  out.putStrLn (dispatch l)
  loop h out

def main : IO Unit := do
  let out ← IO.getStdout
  loop (← IO.getStdin) out
  out.flush
