"""C12 — conjugate gradient produces the Krylov-optimal iterate at every step.

tie:    translator (harness/translate/gen_c12.py): the machine the theorems are about IS the
        statement-by-statement translation of `ConjugateGradient.__init__/_update/_done` regenerated from
        sigpy/alg.py on every run (Gen/C12.lean); and the REAL `sigpy.alg.ConjugateGradient` is executed over exact Gaussian rationals
        (dtype=object arrays of harness.exactq.QI) and every attribute is compared, after
        `__init__` and after EVERY `update()`, with the Lean machine `C12.run` (same definition the
        theorems are about) as equal fractions; a float64/complex128 run of the same instances is
        compared at 1e-9.
search: oracle written from the property statement (exact A-orthogonal projection onto the shifted
        Krylov space, residual identity, monotone A-norm error, finite termination, caller's array,
        stop on non-positive curvature) on the real class, exact and float.

input classes explored (the property quantifies over inputs, configurations AND histories):
  * operators: A as MatMul Linop, sum of two Linops, sigpy Identity / `lambda v: v` (returns its argument
    object), plain function, function that returns its own re-used output buffer; vector shape (n,1), (n,)
    or 2-D (n1,n2);  P none / diagonal (function, sigpy Multiply, buffer-reusing function) / dense /
    identity returning its argument object / identity returning a VIEW of its argument
  * memory: x and b as contiguous, Fortran-ordered, strided (every other element of a larger array),
    negative-stride and column-of-a-wider-array views, b optionally read-only; the cells of the larger
    array around the caller's x must stay untouched
  * dtypes (float run): b held in an int64 or float64 array while A / x are float / complex; a real system
    with x held in a complex array
  * magnitudes (float run): A, b (and x0), P multiplied by independent powers of two 2^sa, 2^sb, 2^sp
    (|sa| <= 100, |sb| <= 150, |sp| <= 40); the state is scaled back exactly before it is compared, so the
    same oracle and tolerances apply (CG is exactly equivariant under power-of-two scaling)
  * histories: several solvers alive at the same time (same or different system / preconditioner / form,
    usually the same vector shape and dtype, optionally the SAME b array and the SAME operator object),
    constructed at different times and advanced in lock-step or randomly interleaved; solvers run to
    completion one after the other; a solver warm-started on the array an earlier solver wrote into.
    Every solver must satisfy the statement for ITS system after each of ITS updates, and must not change
    while another solver is constructed or advanced.
"""
import json
import sys
from fractions import Fraction

import numpy as np

from harness import common
from harness.exactq import QI, QR, qarr, fmt_fr, fmt_q, fmt_qlist

if hasattr(sys, "set_int_max_str_digits"):
    sys.set_int_max_str_digits(0)  # exact fractions of a broken recurrence can be very long

PROPERTY = "C12"
LEAN_MODULES = ["SigpyVerif.Props.C12"]
THEOREMS = ["SigpyVerif.C12." + t for t in [
    "alias_branch_unreachable", "resid2_eq_rzold", "iter_counts_updates",
    "cg_breakdown", "cg_x_maxiter_irrelevant",
    "cg_residual", "cg_real_inner", "cg_orth_local", "cg_conj_local", "cg_orth", "cg_conj",
    "cg_krylov", "cg_krylov_eq", "cg_optimal", "cg_optimal_last", "cg_monotone", "cg_finite",
    "cg_breakdown_converged", "cg_early_stop_fixed", "run_none", "hpd_id", "pAp_budget", "npd_sticky",
    "model_is_generated", "update_eq", "update_keeps_iter", "x_is_callers_array",
]]


def translate(ctx):
    """Gen/C12.lean: `ConjugateGradient.__init__/_update/_done` (+ `Alg.__init__`, `Alg.update`) translated
    statement by statement (harness/translate/gen_c12.py); Model/C12.lean's machine IS these definitions."""
    from harness.translate import gen as G
    G.regenerate(ctx, ["C12"])


# ---- instances -------------------------------------------------------------------------------
def _rc(rng, cplx, lo=-3, hi=3):
    return [rng.randint(lo, hi), rng.randint(lo, hi) if cplx else 0]


def _herm_pd(rng, n, cplx, shift=None):
    """B^H B + d I with small integer entries: Hermitian positive definite, integer"""
    m = rng.choice([n, n, n + 1, max(1, n - 1)])
    B = [[complex(*_rc(rng, cplx, -2, 2)) for _ in range(n)] for _ in range(m)]
    d = rng.randint(1, 3) if shift is None else shift
    A = [[sum(B[k][i].conjugate() * B[k][j] for k in range(m)) + (d if i == j else 0) for j in range(n)]
         for i in range(n)]
    return [[int(z.real), int(z.imag)] for row in A for z in row]


def _herm_any(rng, n, cplx):
    A = [[None] * n for _ in range(n)]
    for i in range(n):
        A[i][i] = [rng.randint(-3, 4), 0]
        for j in range(i + 1, n):
            A[i][j] = _rc(rng, cplx)
            A[j][i] = [A[i][j][0], -A[i][j][1]]
    return [A[i][j] for i in range(n) for j in range(n)]


LAYOUTS = ("c", "c", "c", "strided", "rev", "col", "F")
PD_KINDS = ("pd", "eye")       # akinds for which the whole statement is demanded


def _gen_P(rng, n, cplx):
    pk = rng.choice(["none", "none", "diag", "diag", "dense", "ident", "identview"])
    if pk in ("ident", "identview"):
        # a preconditioner that returns its input OBJECT (sigpy.linop.Identity / lambda r: r) or a VIEW of its input
        # (sigpy.linop.Reshape / lambda r: r[...]): valid (the identity is Hermitian PD) and the only way to observe
        # whether __init__ gives p its own storage
        return [pk, [[1, 0] for _ in range(n)]], "plain"
    if pk == "diag":
        return ["diag", [[rng.randint(1, 5), 0] for _ in range(n)]], rng.choice(["plain", "linop", "buf"])
    if pk == "dense":
        return ["dense", _herm_pd(rng, n, cplx)], rng.choice(["plain", "plain", "buf"])
    return ["none", []], "plain"


def _gen_shape(rng, n, form):
    if form == "linop":
        return [n, 1]
    divs = [d for d in range(2, n) if n % d == 0]
    if divs and rng.random() < 0.4:
        d = rng.choice(divs)
        return [d, n // d]
    return [n]


def _gen_scale(rng, inst):
    """powers of two for A, for b (x0 is scaled by 2^(sb-sa) so that the problem stays the same), for P"""
    sa = 0 if inst.get("aimpl") == "eyeobj" else rng.randint(-100, 100)
    sb = rng.randint(0, 20) if inst["dt"]["b"] == "int" else rng.randint(-150, 150)
    sp = 2 * rng.randint(-20, 20) if inst["P"][0] in ("diag", "dense") else 0
    return [sa, sb, sp]


def gen_instance(rng, nmax=8, akinds=("pd", "pd", "pd", "pd", "pd", "indef", "psd", "eye"), n=None, cplx=None, plainish=0.25):
    n = rng.randint(1, nmax) if n is None else n
    cplx = (rng.random() < 0.55) if cplx is None else cplx
    akind = rng.choice(akinds)
    if akind == "pd":
        A = _herm_pd(rng, n, cplx)
    elif akind == "psd":
        A = _herm_pd(rng, n, cplx, shift=0)
    elif akind == "eye":
        A = [[1 if i == j else 0, 0] for i in range(n) for j in range(n)]
    else:
        A = _herm_any(rng, n, cplx)
    P, pimpl = _gen_P(rng, n, cplx)
    x0 = [[0, 0]] * n if rng.random() < 0.4 else [_rc(rng, cplx) for _ in range(n)]
    b = [_rc(rng, cplx, -4, 4) for _ in range(n)]
    if rng.random() < 0.08:  # start at the solution / zero rhs
        b = [[0, 0]] * n
    form = rng.choice(["linop", "func"])
    inst = dict(n=n, cplx=cplx, akind=akind, A=A, b=b, x0=x0, P=P, form=form,
                max_iter=rng.choice([1, 2, n, n + 2, 0 if rng.random() < 0.3 else n + 1]),
                tol=rng.choice(["0", "0", "0", "1/2", "2", "-1"]))
    if rng.random() < plainish:
        return inst          # the plain configuration: contiguous native-dtype arrays, MatMul / lambda, no scaling
    inst["pimpl"] = pimpl
    inst["shape"] = _gen_shape(rng, n, form)
    if akind == "eye":
        # the operator that returns its argument OBJECT (Identity Linop / lambda v: v), or the identity as a matrix
        inst["aimpl"] = rng.choice(["eyeobj", "eyeobj", "plain"])
    elif form == "linop":
        inst["aimpl"] = rng.choice(["plain", "plain", "sum"])
        if inst["aimpl"] == "sum":
            inst["A1"] = [_rc(rng, cplx) for _ in range(n * n)]
    else:
        inst["aimpl"] = rng.choice(["plain", "plain", "buf"])
    inst["layout"] = dict(x=rng.choice(LAYOUTS), b=rng.choice(LAYOUTS), bro=rng.random() < 0.3)
    dt = dict(b="native", x="native")
    if rng.random() < 0.25:
        dt["b"] = rng.choice(["int", "real"]) if cplx else "int"
        inst["b"] = [[a, 0] for a, _ in inst["b"]]
    if not cplx and rng.random() < 0.15:
        dt["x"] = "complex"
    inst["dt"] = dt
    if rng.random() < 0.4:
        inst["scale"] = _gen_scale(rng, inst)
    return inst


def shape_of(inst):
    if "shape" in inst:
        return tuple(inst["shape"])
    return (inst["n"], 1) if inst["form"] == "linop" else (inst["n"],)


def scale_of(inst, mode):
    """(sa, sb, sp): the float run of a scaled instance solves (2^sa A) x = 2^sb b from 2^(sb-sa) x0 with the
    preconditioner 2^sp P; the exact run always uses the unscaled integers"""
    if mode == "exact" or not inst.get("scale"):
        return (0, 0, 0)
    return tuple(inst["scale"])


def _mat(vals, n, mode, cplx, e=0):
    if mode == "exact":
        return qarr([QI(a, b) for a, b in vals], (n, n))
    M = np.array([complex(a, b) for a, b in vals]).reshape(n, n)
    M = M if cplx else M.real.copy()
    return M * 2.0 ** e if e else M


def _vec(vals, mode, cplx, shape, e=0, dtype=None):
    if mode == "exact":
        return qarr([QI(a, b) for a, b in vals], shape)
    v = np.array([complex(a, b) for a, b in vals]).reshape(shape)
    v = v if cplx else v.real.copy()
    if e:
        v = v * 2.0 ** e
    if dtype == "int":
        v = np.array([int(round(z.real)) for z in v.ravel()], dtype=np.int64).reshape(shape)
    elif dtype == "real":
        v = v.real.copy()
    elif dtype == "complex":
        v = v.astype(complex)
    return v


def _layout(v, lay, mode):
    """the logical array v held as layout `lay`: (array handed to sigpy, larger owning array or None)"""
    fill = QI(7, -7) if mode == "exact" else 7
    if lay == "F":
        return np.asfortranarray(v), None
    if lay == "strided":
        base = np.empty((2 * v.shape[0] + 1,) + v.shape[1:], dtype=v.dtype)
        base[...] = fill
        w = base[1::2]
        w[...] = v
        return w, base
    if lay == "rev":
        base = np.ascontiguousarray(v[::-1]).copy()
        return base[::-1], None
    if lay == "col":
        base = np.empty(v.shape + (3,), dtype=v.dtype)
        base[...] = fill
        w = base[..., 1]
        w[...] = v
        return w, base
    return v, None


def _guards(base, lay):
    """the cells of the owning array that do NOT belong to the caller's x"""
    if base is None:
        return []
    if lay == "strided":
        return list(base[0::2].ravel())
    return list(base[..., 0].ravel()) + list(base[..., 2].ravel())


def _buffered(f):
    """the same map, written into (and returning) one persistent output buffer: an operator that re-uses its output"""
    st = {}

    def g(v):
        out = f(v)
        buf = st.get("buf")
        if buf is None or buf.shape != out.shape or buf.dtype != out.dtype:
            st["buf"] = buf = np.array(out, copy=True)
        else:
            buf[...] = out
        return buf
    return g


def _b_sig(inst, mode):
    return json.dumps([inst["b"], shape_of(inst), inst["cplx"], inst.get("layout", {}).get("b"), inst.get("layout", {}).get("bro"),
                       inst.get("dt", {}).get("b"), scale_of(inst, mode)[1]])


def _a_sig(inst, mode):
    return json.dumps([inst["A"], inst.get("A1"), inst["form"], shape_of(inst), inst["cplx"], inst.get("aimpl"), scale_of(inst, mode)[0]])


def build(inst, mode, peers=()):
    """the arguments of the real class for one instance; mode 'exact' | 'float'.  `peers`: already built solvers of the
    same history, whose b array / operator object is re-used when the instance asks for it (`shareb` / `sharea`) and
    the data are identical"""
    import sigpy as sp
    n, cplx = inst["n"], inst["cplx"]
    shape = shape_of(inst)
    sa, sb, sp_ = scale_of(inst, mode)
    lay = inst.get("layout", {})
    dt = inst.get("dt", {}) if mode == "float" else {}
    M = _mat(inst["A"], n, mode, cplx, sa)
    aimpl = inst.get("aimpl", "plain")

    def mv(Mx):
        if shape == (n, 1):
            return lambda v: Mx @ v
        return lambda v: (Mx @ v.reshape(-1)).reshape(v.shape)
    A = None
    j = inst.get("sharea")
    if j is not None and j < len(peers) and peers[j] is not None and peers[j]["a_sig"] == _a_sig(inst, mode):
        A = peers[j]["A"]
    elif aimpl == "eyeobj":
        A = sp.linop.Identity(shape) if inst["form"] == "linop" else (lambda v: v)
    elif inst["form"] == "linop":
        if aimpl == "sum":
            M1 = _mat(inst["A1"], n, mode, cplx, sa)
            A = sp.linop.MatMul(shape, M1) + sp.linop.MatMul(shape, M - M1)
        else:
            A = sp.linop.MatMul(shape, M)
    else:
        A = mv(M)
        if aimpl == "buf":
            A = _buffered(A)
    j = inst.get("shareb")
    if j is not None and j < len(peers) and peers[j] is not None and peers[j]["b_sig"] == _b_sig(inst, mode):
        b, bbase = peers[j]["b"], None
    else:
        b, bbase = _layout(_vec(inst["b"], mode, cplx, shape, sb, dt.get("b")), lay.get("b", "c"), mode)
        if lay.get("bro"):
            b.setflags(write=False)
    x, xbase = _layout(_vec(inst["x0"], mode, cplx, shape, sb - sa, dt.get("x")), lay.get("x", "c"), mode)
    kind, data = inst["P"]
    pimpl = inst.get("pimpl", "plain")
    if kind == "none":
        P = None
    elif kind == "ident":
        P = sp.linop.Identity(shape) if inst["form"] == "linop" else (lambda r: r)
    elif kind == "identview":
        P = sp.linop.Reshape(shape, shape) if inst["form"] == "linop" else (lambda r: r[...])
    elif kind == "diag":
        d = _vec(data, mode, cplx, shape, sp_)
        if pimpl == "linop":
            P = sp.linop.Multiply(shape, d)
        else:
            def P(r, d=d):
                return d * r
            if pimpl == "buf":
                P = _buffered(P)
    else:
        PM = _mat(data, n, mode, cplx, sp_)
        if shape == (n, 1) and inst["form"] == "linop" and pimpl != "buf":
            P = sp.linop.MatMul(shape, PM)
        else:
            P = mv(PM)
            if pimpl == "buf":
                P = _buffered(P)
    return dict(A=A, b=b, x=x, P=P, xbase=xbase, xlay=lay.get("x", "c"),
                guards0=_guards(xbase, lay.get("x", "c")), a_sig=_a_sig(inst, mode), b_sig=_b_sig(inst, mode))


def tol_value(inst, mode="exact"):
    _, sb, sp_ = scale_of(inst, mode)
    return float(Fraction(inst["tol"])) * 2.0 ** (sb + sp_ // 2)


def _unscale(inst, mode):
    """exact power-of-two factors that take the scaled float state back to the unscaled problem: x, r, p, rz, resid"""
    sa, sb, sp_ = scale_of(inst, mode)
    if (sa, sb, sp_) == (0, 0, 0):
        return None
    return (2.0 ** (sa - sb), 2.0 ** (-sb), 2.0 ** (-sb - sp_), 2.0 ** (-2 * sb - sp_), 2.0 ** (-sb - sp_ // 2))


def _flat(a, f=None):
    v = np.array(a, copy=True).ravel()
    return v if f is None else v * f


def snapshot(alg, bl, un=None):
    un = un or (None,) * 5
    x_caller = bl["x"]
    g = _guards(bl["xbase"], bl["xlay"])
    return dict(x=_flat(alg.x, un[0]), r=_flat(alg.r, un[1]), p=_flat(alg.p, un[2]),
                rz=alg.rzold if un[3] is None else alg.rzold * un[3],
                resid=alg.resid if un[4] is None else alg.resid * un[4],
                npd=bool(alg.not_positive_definite), iter=int(alg.iter), done=bool(alg.done()),
                x_is_caller=alg.x is x_caller, p_is_r=alg.p is alg.r,
                p_shares_r=bool(np.shares_memory(alg.p, alg.r)),
                guard_ok=len(g) == len(bl["guards0"]) and all(u is v or u == v for u, v in zip(g, bl["guards0"])),
                xc=_flat(x_caller, un[0]))


def _bits(alg):
    m = 0
    for arr in (alg.x, alg.r, alg.p):
        for z in np.asarray(arr, dtype=object).ravel():
            if isinstance(z, QI):
                m = max(m, z.re.numerator.bit_length(), z.re.denominator.bit_length(),
                        z.im.numerator.bit_length(), z.im.denominator.bit_length())
    return m


def _same(a, b):
    a, b = np.asarray(a), np.asarray(b)
    if a.shape != b.shape:
        return False
    if a.dtype == object or b.dtype == object:
        return bool(np.all(a == b))
    return bool(np.array_equal(a, b, equal_nan=True))


def run_group(insts, sched, mode, caps=None, stop_at_done=False):
    """a HISTORY on the real class.  `sched` is a list of events
         ["new", i]       construct solver i (its own b and x arrays, built from insts[i])
         ["new", i, j]    construct solver i on the x array solver j has been writing into (solver j is abandoned)
         ["step", i]      solver i .update()      (skipped after caps[i] updates / when stop_at_done and it is done())
    Returns per solver: the snapshots after its construction and after each of its updates (an `err …` string
    ends a history), the (p, x) it had before each update, the content of its x array just before construction,
    and the list of changes seen in its x / r / p while ANOTHER solver was constructed or advanced."""
    from sigpy.alg import ConjugateGradient
    m = len(insts)
    S = [None] * m
    hist = [[] for _ in range(m)]
    pre = [[] for _ in range(m)]
    x0 = [None] * m
    drift = [[] for _ in range(m)]
    steps = [0] * m
    with np.errstate(all="ignore"):
        for t, ev in enumerate(sched):
            op, i = ev[0], ev[1]
            inst = insts[i]
            un = _unscale(inst, mode)
            if op == "new":
                bl = build(inst, mode, S)
                if len(ev) > 2 and S[ev[2]] is not None:
                    old = S[ev[2]]
                    old["live"] = False
                    bl["x"], bl["xbase"], bl["xlay"], bl["guards0"] = old["x"], old["xbase"], old["xlay"], old["guards0"]
                x0[i] = _flat(bl["x"], None if un is None else un[0])
                bl["live"] = True
                S[i] = bl
                try:
                    bl["alg"] = ConjugateGradient(bl["A"], bl["b"], bl["x"], P=bl["P"], max_iter=inst["max_iter"],
                                                  tol=tol_value(inst, mode))
                    hist[i].append(snapshot(bl["alg"], bl, un))
                except ZeroDivisionError:
                    hist[i].append("err zerodiv")
                    bl["live"] = False
                except Exception as e:  # noqa
                    hist[i].append("err %s" % type(e).__name__)
                    bl["live"] = False
            else:
                bl = S[i]
                if bl is None or not bl["live"]:
                    continue
                alg = bl["alg"]
                if (caps is not None and steps[i] >= caps[i]) or (stop_at_done and alg.done()):
                    continue
                steps[i] += 1
                pre[i].append((_flat(alg.p, None if un is None else un[2]), _flat(alg.x, None if un is None else un[0])))
                try:
                    alg.update()
                    hist[i].append(snapshot(alg, bl, un))
                    if mode == "exact" and _bits(alg) > 40000:
                        # a correct run on these instances stays below ~3000 bits; a broken recurrence doubles the size of
                        # the fractions with every update: keep the history so far (it already differs) and stop
                        hist[i].append("err fraction-blowup")
                        bl["live"] = False
                except ZeroDivisionError:
                    hist[i].append("err zerodiv")
                    bl["live"] = False
                except Exception as e:  # noqa
                    hist[i].append("err %s" % type(e).__name__)
                    bl["live"] = False
            # no other live solver may have changed
            for j in range(m):
                o = S[j]
                if j == i or o is None or not o["live"] or not hist[j] or isinstance(hist[j][-1], str):
                    continue
                last = hist[j][-1]
                unj = _unscale(insts[j], mode) or (None,) * 5
                for f, arr, fac in (("x", o["alg"].x, unj[0]), ("r", o["alg"].r, unj[1]), ("p", o["alg"].p, unj[2])):
                    if not _same(_flat(arr, fac), last[f]):
                        drift[j].append(dict(field=f, event=t, by=list(ev), after_own_updates=steps[j]))
                        last[f] = _flat(arr, fac)   # report each change once
    return dict(hist=hist, pre=pre, x0=x0, drift=drift)


def run_real(inst, mode, k):
    """one solver on its own: snapshots after __init__ and after each of k updates"""
    g = run_group([inst], [["new", 0]] + [["step", 0]] * k, mode)
    return g["hist"][0], g


# ---- histories with several solvers ----------------------------------------------------------
HIST_KINDS = ("lockstep", "lockstep", "late-start", "random", "sequential", "warm-start")


def n_updates(inst):
    return max(inst["max_iter"], 0) + 2


def gen_group(rng, nmax=5):
    """2-3 instances + a schedule.  The members mostly have the same vector shape and dtype (two solves of one
    size: CG vs PCG on one system, two forms of one operator, two systems of one size), sometimes anything."""
    kind = rng.choice(HIST_KINDS)
    m = 2 if kind == "warm-start" or rng.random() < 0.7 else 3
    base = gen_instance(rng, nmax=nmax, akinds=("pd", "pd", "pd", "pd", "pd", "indef", "eye"))
    if base["max_iter"] < 2 and rng.random() < 0.7:
        base["max_iter"] = base["n"] + 1
    if kind == "warm-start":
        base.pop("scale", None)
    insts = [base]
    for q in range(1, m):
        rel = "same-size" if kind == "warm-start" else rng.choice(["same-system", "same-system", "same-size", "same-size", "any"])
        if rel == "any":
            insts.append(gen_instance(rng, nmax=nmax, akinds=("pd", "pd", "pd", "indef")))
            continue
        if rel == "same-system":
            c = json.loads(json.dumps(base))
            what = rng.choice(["P", "P", "x0", "form", "maxiter"])
            if what == "P":
                c["P"], c["pimpl"] = _gen_P(rng, c["n"], c["cplx"])
                if c.get("scale"):
                    c["scale"][2] = 0 if c["P"][0] not in ("diag", "dense") else c["scale"][2]
            elif what == "x0":
                c["x0"] = [_rc(rng, c["cplx"]) for _ in range(c["n"])]
            elif what == "form" and c.get("aimpl", "plain") in ("plain", "buf", "sum"):
                c["form"] = "func" if c["form"] == "linop" else "linop"
                c["aimpl"] = "plain"
                c.pop("A1", None)
                if "shape" in c:
                    c["shape"] = _gen_shape(rng, c["n"], c["form"])
                if c["P"][0] == "dense" and c.get("pimpl") != "buf":
                    c["pimpl"] = "plain"
            else:
                c["max_iter"] = rng.choice([2, c["n"], c["n"] + 2])
            if rng.random() < 0.5:
                c["shareb"] = 0
            if rng.random() < 0.5:
                c["sharea"] = 0
        else:
            # the same vector shape; mostly the same dtype as well, sometimes real next to complex
            same_dt = kind == "warm-start" or rng.random() < 0.75
            c = gen_instance(rng, n=base["n"], cplx=base["cplx"] if same_dt else not base["cplx"],
                             akinds=("pd", "pd", "pd", "indef"), plainish=0)
            c["form"] = base["form"]
            for f in ("shape", "dt", "scale") if same_dt else ("shape",):
                if f in base:
                    c[f] = json.loads(json.dumps(base[f]))
                else:
                    c.pop(f, None)
            if "layout" not in base:
                c.pop("layout", None)
            c["aimpl"] = "plain" if (c.get("aimpl") == "buf" and c["form"] == "linop") or (c.get("aimpl") == "sum" and c["form"] == "func") else c.get("aimpl", "plain")
            if c["aimpl"] == "sum" and "A1" not in c:
                c["A1"] = [_rc(rng, c["cplx"]) for _ in range(c["n"] ** 2)]
            if c.get("dt", {}).get("b") in ("int", "real"):
                c["b"] = [[a, 0] for a, _ in c["b"]]
            if c.get("scale") and c["P"][0] not in ("diag", "dense"):
                c["scale"][2] = 0
        if c["max_iter"] < 2 and rng.random() < 0.7:
            c["max_iter"] = c["n"] + 1
        insts.append(c)
    K = [n_updates(i) for i in insts]
    sched = []
    if kind == "lockstep":
        sched = [["new", i] for i in range(m)]
        for k in range(max(K)):
            sched += [["step", i] for i in range(m) if k < K[i]]
    elif kind == "late-start":
        t = rng.randint(1, max(1, K[0] - 2))
        sched = [["new", 0]] + [["step", 0]] * t + [["new", i] for i in range(1, m)]
        left = [K[0] - t] + K[1:]
        for k in range(max(left)):
            sched += [["step", i] for i in range(m) if k < left[i]]
    elif kind == "random":
        todo = [[["new", i]] + [["step", i]] * K[i] for i in range(m)]
        sched.append(todo[0].pop(0))
        while any(todo):
            i = rng.choice([i for i in range(m) if todo[i]])
            sched.append(todo[i].pop(0))
    elif kind == "sequential":
        for i in range(m):
            sched += [["new", i]] + [["step", i]] * K[i]
    else:  # warm-start: solver 1 continues on the array solver 0 wrote into (other rhs / preconditioner / max_iter)
        t = rng.randint(1, max(1, insts[0]["max_iter"]))
        insts[1].pop("shareb", None)
        sched = [["new", 0]] + [["step", 0]] * t + [["new", 1, 0]] + [["step", 1]] * K[1]
    return dict(kind=kind, insts=insts, sched=sched)


def _pspec(inst):
    kind, data = inst["P"]
    if kind == "none":
        return "none"
    return "%s:%s" % ("dense" if kind == "dense" else "diag", ",".join(fmt_q(QI(a, b)) for a, b in data))


def _x0_strings(inst, x0=None):
    if x0 is None:
        return [fmt_q(QI(a, b)) for a, b in inst["x0"]]
    return [fmt_q(QI._c(z)) for z in x0]


def model_line(inst, k, x0=None):
    return "C12 run n=%d A=%s b=%s x=%s P=%s maxiter=%d tol=%s k=%d" % (
        inst["n"], ",".join(fmt_q(QI(a, b)) for a, b in inst["A"]),
        ",".join(fmt_q(QI(a, b)) for a, b in inst["b"]), ",".join(_x0_strings(inst, x0)),
        _pspec(inst), inst["max_iter"], inst["tol"], k)


def parse_model(reply):
    if not reply.startswith("ok "):
        return [reply]
    out = []
    for st in reply[3:].split(" # "):
        if st.startswith("err"):
            out.append(st)
        else:
            out.append(dict(t.split("=", 1) for t in st.split(" ")))
    return out


def _pq(s):
    """protocol Gaussian-rational list -> list of (Fraction, Fraction)"""
    if s == "-":
        return []
    out = []
    for t in s.split(","):
        a, _, b = t.partition(";")
        out.append((Fraction(a), Fraction(b) if b else Fraction(0)))
    return out


def exact_view(s, inst):
    """a real snapshot in the model's reply format"""
    if isinstance(s, str):
        return s
    rz = s["rz"]
    return dict(x=fmt_qlist(s["x"]), r=fmt_qlist(s["r"]), p=fmt_qlist(s["p"]), rz=fmt_fr(rz),
                npd=str(int(s["npd"])), iter=str(s["iter"]), done=str(int(s["done"])),
                alias=str(int(inst["max_iter"] <= 1)))


def compare_exact(inst, real, model):
    """list of differing fields over the whole history ('' if none)"""
    diffs = []
    if len(real) != len(model):
        return ["length real=%d model=%d (%s | %s)" % (len(real), len(model), real[-1] if isinstance(real[-1], str) else "", model[-1] if isinstance(model[-1], str) else "")]
    tol = Fraction(inst["tol"])
    for k, (s, m) in enumerate(zip(real, model)):
        v = exact_view(s, inst)
        if isinstance(v, str) or isinstance(m, str):
            if v != m:
                diffs.append("update %d: real=%s model=%s" % (k, v if isinstance(v, str) else "state", m if isinstance(m, str) else "state"))
            continue
        for f in ("x", "r", "p", "rz", "npd", "iter"):
            if v[f] != m[f]:
                diffs.append("update %d field %s: real=%s model=%s" % (k, f, v[f], m[f]))
        r2 = Fraction(m["resid2"])
        if r2 >= 0 and s["resid"] != r2 ** 0.5:      # resid = rzold.item() ** 0.5, same float op on the same fraction
            diffs.append("update %d field resid: real=%r model=sqrt(%s)" % (k, s["resid"], m["resid2"]))
        if not (tol > 0 and r2 == tol * tol) and v["done"] != m["done"]:
            diffs.append("update %d field done: real=%s model=%s" % (k, v["done"], m["done"]))
        if not s["x_is_caller"]:
            diffs.append("update %d: alg.x is no longer the caller's array" % k)
        if not s["guard_ok"]:
            diffs.append("update %d: cells of the caller's larger array outside x were changed" % k)
        # `p is r` exactly when no private copy was made (max_iter <= 1) and there is no preconditioner (or one that
        # returns its argument); p shares storage with r exactly then or when the preconditioner returns a view
        if s["p_is_r"] != (m["alias"] == "1" and inst["P"][0] in ("none", "ident")):
            diffs.append("update %d: p-is-r aliasing real=%s model alias=%s" % (k, s["p_is_r"], m["alias"]))
        if s["p_shares_r"] != (m["alias"] == "1" and inst["P"][0] in ("none", "ident", "identview")):
            diffs.append("update %d: p shares storage with r: real=%s model alias=%s" % (k, s["p_shares_r"], m["alias"]))
    return diffs


def _fq(z):
    z = complex(z)
    return fmt_q(QI(Fraction(z.real), Fraction(z.imag)))


def _finite(s):
    return all(np.all(np.isfinite(np.asarray(s[f], dtype=complex))) for f in ("x", "r", "p")) and \
        np.isfinite(float(s["rz"]))


def float_step_lines(inst, real):
    """one `C12 step` request per float update: the float state before it, as exact dyadic rationals"""
    head = "C12 step n=%d A=%s P=%s maxiter=%d tol=%s" % (
        inst["n"], ",".join(fmt_q(QI(a, b)) for a, b in inst["A"]), _pspec(inst), inst["max_iter"], inst["tol"])
    lines = []
    for s in real[:-1]:
        if isinstance(s, str) or not _finite(s):
            break
        lines.append(head + " x=%s r=%s p=%s rz=%s resid2=%s npd=%d iter=%d" % (
            ",".join(_fq(z) for z in s["x"]), ",".join(_fq(z) for z in s["r"]), ",".join(_fq(z) for z in s["p"]),
            fmt_fr(Fraction(float(s["rz"]))), fmt_fr(Fraction(float(s["rz"]))), int(s["npd"]), s["iter"]))
    return lines


def compare_float(inst, real, replies):
    """float run against the exact machine, ONE update at a time: the float state before the update
    is an exact rational state; the float state after it must agree with the machine's exact
    successor to 1e-9 of the state's scale (observed rounding <= 1e-13).  Stops comparing once the
    residual has collapsed to rounding noise (rz < 1e-20 rz0), where the sign of p^H A p is noise.
    (A scaled instance is compared after the exact power-of-two unscaling of its state.)"""
    diffs = []
    if isinstance(real[0], str):
        return ["float run raised %s in __init__" % real[0]]
    rz0 = float(real[0]["rz"])
    for k, s in enumerate(real):
        if not isinstance(s, str) and not _finite(s):
            diffs.append("update %d: the float run produced non-finite values" % k)
            break
    for k, rep in enumerate(replies):
        s0, s = real[k], real[k + 1]
        if isinstance(s, str):
            if not rep.startswith("err"):
                diffs.append("update %d: float run raised %s" % (k + 1, s))
            break
        if rz0 == 0 or float(s0["rz"]) < 1e-20 * rz0 or s0["npd"]:
            break
        pv = np.asarray(s0["p"], dtype=complex)
        Am = np.array([complex(a, b) for a, b in inst["A"]]).reshape(inst["n"], inst["n"])
        curv = float(np.vdot(pv, Am @ pv).real)
        if abs(curv) <= 1e-9 * float(np.vdot(pv, pv).real) * (1 + float(np.max(np.abs(Am)))) * inst["n"]:
            break  # the sign of p^H A p (the breakdown test) is rounding noise here
        m = parse_model(rep)[0]
        if isinstance(m, str):
            diffs.append("update %d: model %s, float run went on" % (k + 1, m))
            break
        if m["npd"] != str(int(s["npd"])):
            diffs.append("update %d field flag (float): real=%s model=%s" % (k + 1, s["npd"], m["npd"]))
            break
        for f in ("x", "r", "p"):
            want = np.array([complex(float(a), float(b)) for a, b in _pq(m[f])])
            got = np.asarray(s[f], dtype=complex)
            scale = 1.0 + float(np.max(np.abs(want))) if len(want) else 1.0
            if got.shape != want.shape or not np.all(np.abs(got - want) <= 1e-9 * scale):
                diffs.append("update %d field %s (float): real=%s model=%s" % (k + 1, f, got.tolist(), want.tolist()))
        rz = float(Fraction(m["rz"]))
        if abs(float(s["rz"]) - rz) > 1e-9 * (1e-300 + abs(rz) + 1e-6 * rz0):
            diffs.append("update %d field rz (float): real=%r model=%s" % (k + 1, float(s["rz"]), rz))
        if abs(float(s["resid"]) ** 2 - float(Fraction(m["resid2"]))) > 1e-9 * (1e-300 + abs(rz) + 1e-6 * rz0):
            diffs.append("update %d field resid (float): real=%r model=sqrt(%s)" % (k + 1, s["resid"], float(Fraction(m["resid2"]))))
        if s["iter"] != int(m["iter"]) or not s["x_is_caller"] or not s["guard_ok"]:
            diffs.append("update %d field iter/x-identity/guard cells (float)" % (k + 1))
    return diffs


def _count_inst(ctx, inst, pre=""):
    ctx.count(pre + "n=%d" % inst["n"])
    ctx.count(pre + "A:%s/%s" % (inst["akind"], "complex" if inst["cplx"] else "real"))
    ctx.count(pre + "P:%s/%s" % (inst["P"][0], inst.get("pimpl", "plain")))
    ctx.count(pre + "form:%s/%s/%dd" % (inst["form"], inst.get("aimpl", "plain"), len(shape_of(inst))))
    lay = inst.get("layout", {})
    ctx.count(pre + "layout:x=%s,b=%s%s" % (lay.get("x", "c"), lay.get("b", "c"), ",b-readonly" if lay.get("bro") else ""))
    ctx.count(pre + "dtype:b=%s,x=%s" % (inst.get("dt", {}).get("b", "native"), inst.get("dt", {}).get("x", "native")))
    ctx.count(pre + ("scaled" if inst.get("scale") else "unscaled"))
    ctx.count(pre + ("max_iter-n=%d" % (inst["max_iter"] - inst["n"]) if inst["max_iter"] > 2 else "max_iter=%d" % inst["max_iter"]))


def _drift_text(drift):
    return ["solver state changed while another solver was %s: field %s after %d own updates (event %d)" % (
        "constructed" if d["by"][0] == "new" else "advanced", d["field"], d["after_own_updates"], d["event"]) for d in drift]


def correspond(ctx):
    ctx.rule = ("instance = (n 1..8, real/complex Hermitian integer A [PD | PSD-singular | indefinite | identity], b, x0 zero/non-zero, "
                "P none/diag/dense PD/identity returning its argument or a view of it, P and A as sigpy Linops (MatMul, sum, Multiply, "
                "Identity, Reshape), plain functions or functions re-using an output buffer, vector shape (n,1)/(n,)/2-D, x and b "
                "contiguous / Fortran / strided / reversed / column views, b read-only / int64 / real dtype, power-of-two scaling of "
                "A, b, P (float run), max_iter in {0,1,2,n,n+1,n+2}, tol); the real ConjugateGradient runs over exact Gaussian "
                "rationals and x,r,p,rzold,resid,flag,iter,done(),x-is-caller,p-is-r,p-shares-r,guard cells are compared with the "
                "Lean machine after __init__ and after each of max_iter+2 updates; stream `history`: 2-3 such solvers alive together "
                "(lock-step / late start / random interleaving / one after the other / warm start on the previous solver's array, "
                "optionally the same b array and operator object), each compared with the machine's run of ITS instance and "
                "required not to change during the others' events; distinct by protocol line; non-trivial = at least one update changes x")
    n_inst = 200 if ctx.tier == "quick" else 1500
    insts = [gen_instance(ctx.rng) for _ in range(n_inst)]
    lines = [model_line(i, n_updates(i)) for i in insts]
    replies = ctx.driver(lines)
    bad_e = bad_f = n_done = 0
    for inst, ln, rep in zip(insts, lines, replies):
        if bad_e + bad_f >= 60:
            break    # the streams are broken beyond doubt (a broken recurrence makes every further exact run slow): go and search
        n_done += 1
        model = parse_model(rep)
        real, _ = run_real(inst, "exact", n_updates(inst))
        moved = len(model) > 1 and not isinstance(model[1], str) and model[1]["x"] != model[0]["x"]
        ctx.case(ln + json.dumps([inst.get(f) for f in ("form", "shape", "aimpl", "pimpl", "layout", "dt", "scale")]), nontrivial=moved,
                 sample=dict(line=ln[:160], states=len(model)) if ctx.evaluations % 23 == 0 else None)
        _count_inst(ctx, inst)
        ctx.traces += len(model)
        d = compare_exact(inst, real, model)
        if d:
            bad_e += 1
            ctx.disagree("exact", dict(inst=inst, mode="exact"), d[:3], "Lean C12.run")
        fl, _ = run_real(inst, "float", n_updates(inst))
        d = compare_float(inst, fl, ctx.driver(float_step_lines(inst, fl)))
        if d:
            bad_f += 1
            ctx.disagree("float", dict(inst=inst, mode="float"), d[:3], "Lean C12.run")
    ctx.oblige("correspondence:C12.exact", "correspondence", bad_e == 0,
               "%d of %d instances differ from the Lean machine over exact Gaussian rationals" % (bad_e, n_done))
    ctx.oblige("correspondence:C12.float", "correspondence", bad_f == 0,
               "%d of %d float instances: some update differs from the exact machine's successor of the same (dyadic) state by more than 1e-9" % (bad_f, n_done))
    # ---- histories: several solvers alive together, each against the machine's run of its own instance
    n_grp = 50 if ctx.tier == "quick" else 400
    bad_h = n_done = 0
    for _ in range(n_grp):
        if bad_h >= 12:
            break
        n_done += 1
        grp = gen_group(ctx.rng)
        bad_h += bool(correspond_group(ctx, grp))
    ctx.oblige("correspondence:C12.history", "correspondence", bad_h == 0,
               "%d of %d histories with several live solvers: some solver differs from the Lean machine's run of its own instance, "
               "or changed while another solver was constructed / advanced" % (bad_h, n_done))
    ctx.trusted += [
        "translator harness/translate/gen_c12.py (python ast -> Lean): its reading of util.axpy / util.xpay / xp.real(xp.vdot) / "
        ".copy() / .item() / `** 0.5` as the operations of C12.Ops and of numpy arrays as objects updated in place; validated by "
        "this correspondence on every run, not proved",
    ]
    ctx.assumptions += [
        "the driver's division-by-zero pre-check (Model/C12.lean divByZero) and its 40000-bit stop are hand-written; both are "
        "compared with the real run (ZeroDivisionError / the harness's own stop)",
        "numpy object-array arithmetic dispatches to the exact scalar class (harness/exactq.py) with the same "
        "operation order as for float dtypes",
        "Lean `Rat` arithmetic of the compiled driver is the arithmetic the theorems are about (Mathlib's ℝ/ℂ "
        "instance of the same generic definition)",
        "the machine models ONE solver; that solver objects do not interact (module-level state, shared buffers) is not a "
        "theorem but checked by the `history` stream and the history oracle on the real class",
    ]


def correspond_group(ctx, grp):
    """one history, exact and float; returns the number of disagreements it registered"""
    insts, sched = grp["insts"], grp["sched"]
    nbad = 0
    for mode in ("exact", "float"):
        g = run_group(insts, sched, mode)
        warm = {ev[1] for ev in sched if ev[0] == "new" and len(ev) > 2}
        for i, inst in enumerate(insts):
            real = g["hist"][i]
            if not real:
                continue
            x0 = g["x0"][i] if i in warm else None
            # a solver abandoned for a warm start only got the updates scheduled before the hand-over
            k = sum(1 for ev in sched if ev == ["step", i]) if (warm and i == 0) else n_updates(inst)
            if mode == "exact":
                ln = model_line(inst, k, x0)
                model = parse_model(ctx.driver([ln])[0])
                ctx.case(("history", grp["kind"], i, ln, json.dumps(sched)), nontrivial=len(model) > 1,
                         sample=dict(history=grp["kind"], solvers=len(insts), events=len(sched)) if ctx.evaluations % 29 == 0 else None)
                _count_inst(ctx, inst, "history:")
                ctx.count("history:%s/%d solvers" % (grp["kind"], len(insts)))
                ctx.traces += len(model)
                d = compare_exact(inst, real, model)
            else:
                # (a warm start of the float run is whatever the float predecessor left: the step lines carry the state)
                d = compare_float(inst, real, ctx.driver(float_step_lines(inst, real)))
            d = d + _drift_text(g["drift"][i])
            if d:
                nbad += 1
                ctx.disagree("history", dict(group=grp, mode=mode, solver=i), d[:3], "Lean C12.run of the solver's own instance")
    return nbad


# ---- the property's own oracle ---------------------------------------------------------------
def _exact_problem(inst, x0=None):
    n = inst["n"]
    A = qarr([QI(a, b) for a, b in inst["A"]], (n, n))
    P = None
    if inst["P"][0] in ("diag", "ident", "identview"):
        P = qarr([QI(0, 0)] * (n * n), (n, n))
        for i, (a, b) in enumerate(inst["P"][1]):
            P[i, i] = QI(a, b)
    elif inst["P"][0] == "dense":
        P = qarr([QI(a, b) for a, b in inst["P"][1]], (n, n))
    b = qarr([QI(a, c) for a, c in inst["b"]])
    x0 = qarr([QI(a, c) for a, c in inst["x0"]]) if x0 is None else qarr([QI._c(z) for z in x0])
    return A, P, b, x0


def _herm(u, v):
    """<u, v> = sum conj(u_i) v_i, written out (not numpy.vdot)"""
    s = QI(0, 0)
    for a, c in zip(u, v):
        s = s + a.conjugate() * c
    return s


def _mv(M, v):
    n = len(v)
    out = np.empty(n, dtype=object)
    for i in range(n):
        s = QI(0, 0)
        for j in range(n):
            s = s + M[i, j] * v[j]
        out[i] = s
    return out


def _is_zero(v):
    return all(z.re == 0 and z.im == 0 for z in v)


def krylov_optima(A, P, b, x0, kmax):
    """x_opt[k] = argmin over x0 + K_k(PA, P r0) of the A-norm error, k = 0..kmax, by exact
    A-orthogonal projection (Gram-Schmidt on the Krylov vectors themselves); A Hermitian PD"""
    r0 = b - _mv(A, x0)
    v = r0 if P is None else _mv(P, r0)
    Q, xs, x = [], [x0.copy()], x0.copy()
    for _ in range(kmax):
        w = v.copy()
        for q, Aq, qAq in Q:
            c = _herm(Aq, w) / qAq
            w = w - c * q
        if not _is_zero(w):
            Aw = _mv(A, w)
            wAw = _herm(w, Aw)
            Q.append((w, Aw, wAw))
            x = x + (_herm(w, r0) / wAw) * w
        xs.append(x.copy())
        v = _mv(A, v)
        v = v if P is None else _mv(P, v)
    return xs


def solve_exact(A, b):
    n = len(b)
    M = [[A[i, j] for j in range(n)] + [b[i]] for i in range(n)]
    for c in range(n):
        piv = next((r for r in range(c, n) if not (M[r][c].re == 0 and M[r][c].im == 0)), None)
        if piv is None:
            return None
        M[c], M[piv] = M[piv], M[c]
        inv = QI(1, 0) / M[c][c]
        M[c] = [z * inv for z in M[c]]
        for r in range(n):
            if r != c and not (M[r][c].re == 0 and M[r][c].im == 0):
                f = M[r][c]
                M[r] = [a - f * bb for a, bb in zip(M[r], M[c])]
    return qarr([M[i][n] for i in range(n)])


def anorm2(A, e):
    return _herm(e, _mv(A, e)).re


def _f(v):
    return np.array([complex(float(z.re), float(z.im)) for z in v])


def key_of(inst, what, tag=""):
    return "C12:%s:%s%s" % (what, "P-" + inst["P"][0], tag)


def k_oracle(inst):
    return min(max(inst["max_iter"], 0), inst["n"] + 2)


def judge(ctx, inst, mode, snaps, pre, case, origin, x0=None, tag="", drift=()):
    """the statement of C12 for ONE solver's history on the real class (PD: everything; indefinite: curvature clause
    only); `x0` = the content of the caller's array before construction when it is not inst['x0'] (warm start);
    returns True when it holds"""
    A, P, b, x0 = _exact_problem(inst, x0)
    n, M = inst["n"], inst["max_iter"]
    exact = mode == "exact"
    ok = True

    def bad(what, msg, obs=None, exp=None):
        nonlocal ok
        ok = False
        ctx.fail(key_of(inst, what, tag), msg, case, observed=obs, expected=exp, origin=origin)

    snaps = list(snaps)
    if snaps and snaps[-1] == "err fraction-blowup":
        snaps = snaps[:-1]  # judge the history up to there (a correct run never gets here)
    if any(isinstance(s, str) for s in snaps):
        bad("exception", "ConjugateGradient raised on a valid Hermitian system: %s" % [s for s in snaps if isinstance(s, str)][0])
        return False
    if not exact:
        for k, s_ in enumerate(snaps):
            if not _finite(s_):
                bad("non-finite", "after %d updates the float solver state contains inf/nan" % k)
                return False
    # the iterate (caller's array) and the tracked residual belong to this solver alone
    for d in drift:
        if d["field"] in ("x", "r"):
            bad("interference", "after %d own updates the solver's %s changed while another solver was %s" % (
                d["after_own_updates"], "iterate x (the caller's array)" if d["field"] == "x" else "tracked residual r",
                "constructed" if d["by"][0] == "new" else "advanced"), obs=d)
    if inst["akind"] not in PD_KINDS:
        # non-positive curvature: the update that meets p^H A p <= 0 must leave x unchanged, set the flag, be done
        for k in range(1, len(snaps)):
            p_before, x_before = pre[k - 1]
            pq = qarr([QI._c(z) for z in p_before]) if not exact else p_before
            curv = _herm(pq, _mv(A, pq)).re
            if exact and curv <= 0:
                s = snaps[k]
                if not (s["done"] and fmt_qlist(s["x"]) == fmt_qlist(x_before)):
                    bad("curvature", "p^H A p <= 0 met at update %d but the solver did not stop with x unchanged" % k,
                        obs=dict(done=s["done"], flag=s["npd"], x=fmt_qlist(s["x"])), exp=dict(done=True, x=fmt_qlist(x_before)))
                break
            if not exact and float(curv) < -1e-6 * (1 + float(_herm(pq, pq).re)):
                s = snaps[k]
                if not (s["done"] and np.array_equal(np.asarray(s["x"]), np.asarray(x_before))):
                    bad("curvature", "clearly negative curvature at update %d but the solver went on" % k,
                        obs=dict(done=s["done"], flag=s["npd"]), exp="done, x unchanged")
                break
        return ok
    xstar = solve_exact(A, b)
    opt = krylov_optima(A, P, b, x0, max(len(snaps) - 1, 0))
    e_prev = None
    # float CG loses conjugacy at the rate of cond(PA): observed deviation from the exact optimum <= 2.4e-8
    # (P none/diag, n <= 12, 240 instances) and up to 5e-4 with a dense P, whose float optimality is therefore not
    # demanded (the exact run of the same instance is)
    tolx = 0 if exact else 1e-4
    float_opt = inst["P"][0] != "dense"
    for k, s in enumerate(snaps):
        xk = s["x"] if exact else None
        # (5) the caller's array holds the iterate (and nothing around it was written)
        if (exact and fmt_qlist(s["xc"]) != fmt_qlist(s["x"])) or \
                (not exact and not np.array_equal(np.asarray(s["xc"]), np.asarray(s["x"]))):
            bad("caller-array", "after %d updates the solution is not in the array the caller passed" % k)
        if not s["guard_ok"]:
            bad("caller-array", "after %d updates cells of the caller's larger array that do not belong to x were overwritten" % k)
        # (1) Krylov optimality
        if exact:
            if fmt_qlist(xk) != fmt_qlist(opt[k]):
                bad("krylov-optimal", "after %d updates x is not the A-norm-optimal point of x0 + K_%d" % (k, k),
                    obs=fmt_qlist(xk), exp=fmt_qlist(opt[k]))
        elif float_opt:
            want = _f(opt[k])
            got = np.asarray(s["x"], dtype=complex)
            if not np.all(np.abs(got - want) <= tolx * (1 + np.max(np.abs(want)))):
                bad("krylov-optimal", "after %d updates x differs from the A-norm-optimal point of x0 + K_%d by more than 1e-4" % (k, k),
                    obs=got.tolist(), exp=want.tolist())
        # (2) tracked residual = b - A x, except after the last permitted update
        if k < M:
            if exact:
                want = b - _mv(A, xk)
                if fmt_qlist(s["r"]) != fmt_qlist(want):
                    bad("residual", "after %d updates (max_iter=%d) the tracked residual is not b - A x" % (k, M),
                        obs=fmt_qlist(s["r"]), exp=fmt_qlist(want))
            else:
                xq = qarr([QI._c(z) for z in s["x"]])
                want = _f(b - _mv(A, xq))
                got = np.asarray(s["r"], dtype=complex)
                if not np.all(np.abs(got - want) <= 1e-9 * (1 + np.max(np.abs(_f(b))) + np.max(np.abs(want)))):
                    bad("residual", "after %d updates (max_iter=%d) the tracked residual drifts from b - A x by more than 1e-9" % (k, M),
                        obs=got.tolist(), exp=want.tolist())
        # (3) A-norm error never increases
        xq = xk if exact else qarr([QI._c(z) for z in s["x"]])
        e = anorm2(A, xstar - xq)
        if e_prev is not None and (e > e_prev if exact else float(e) > float(e_prev) + 1e-12 * (1 + float(e0))):
            bad("monotone", "the A-norm error increased at update %d" % k, obs=float(e), exp="<= %r" % float(e_prev))
        e_prev = e
        e0 = e if k == 0 else e0
        # (4) exact solution within n updates
        if k >= n:
            if exact and fmt_qlist(xk) != fmt_qlist(xstar):
                bad("finite", "after %d >= n = %d updates x is not the exact solution" % (k, n), obs=fmt_qlist(xk), exp=fmt_qlist(xstar))
            if not exact and float_opt and not np.all(np.abs(np.asarray(s["x"], dtype=complex) - _f(xstar)) <= 1e-4 * (1 + np.max(np.abs(_f(xstar))))):
                bad("finite", "after %d >= n = %d updates x is not the solution to 1e-4" % (k, n), obs=np.asarray(s["x"]).tolist(), exp=_f(xstar).tolist())
        # the canonical loop never runs past done(): stop where the real loop stops
        if s["done"]:
            break
    return ok


def check_oracle(ctx, inst, mode, origin):
    """the statement of C12 on the real class for one solver on its own"""
    k = k_oracle(inst)
    g = run_group([inst], [["new", 0]] + [["step", 0]] * k, mode)
    return judge(ctx, inst, mode, g["hist"][0], g["pre"][0], dict(inst=inst, mode=mode), origin)


def check_oracle_group(ctx, grp, mode, origin):
    """the statement of C12 for EVERY solver of a history (several live solvers / warm start): each solver is judged on
    its own system after each of its own updates, up to where the canonical loop would stop it"""
    insts, sched = grp["insts"], grp["sched"]
    g = run_group(insts, sched, mode, caps=[k_oracle(i) for i in insts], stop_at_done=True)
    warm = {ev[1] for ev in sched if ev[0] == "new" and len(ev) > 2}
    live_together = grp["kind"] not in ("sequential", "warm-start")
    tag = ":interleaved" if live_together else ":" + grp["kind"]
    ok = True
    for i, inst in enumerate(insts):
        if not g["hist"][i]:
            continue
        x0 = None
        if i in warm:
            x0 = g["x0"][i]
            if mode == "float" and not np.all(np.isfinite(np.asarray(x0, dtype=complex))):
                continue
        ok = judge(ctx, inst, mode, g["hist"][i], g["pre"][i], dict(group=grp, mode=mode, solver=i), origin,
                   x0=x0, tag=tag, drift=g["drift"][i]) and ok
    return ok


def search(ctx, budget):
    rng = ctx.rng
    enough = 40  # failing inputs after which the search stops (one suffices; a broken recurrence makes each exact run slow)
    for d in ctx.disagreements[:100]:
        if len(ctx.failures) >= enough:
            break
        c = d["case"]
        other = "float" if c["mode"] == "exact" else "exact"
        if "group" in c:
            check_oracle_group(ctx, c["group"], c["mode"], "disagreement")
            check_oracle_group(ctx, c["group"], other, "disagreement")
        elif c["inst"]["akind"] != "psd":
            check_oracle(ctx, c["inst"], c["mode"], "disagreement")
            check_oracle(ctx, c["inst"], other, "disagreement")
    n_inst = int(100 * budget)
    for i in range(n_inst):
        if len(ctx.failures) >= enough:
            break
        inst = gen_instance(rng, nmax=8 if i % 4 else 12, akinds=("pd", "pd", "pd", "pd", "pd", "pd", "indef", "eye"))
        if inst["max_iter"] == 0:
            inst["max_iter"] = inst["n"]
        inst["tol"] = "0"
        for mode in ("exact", "float"):
            ctx.case(("oracle", mode, json.dumps(inst, sort_keys=True)))
            ctx.count("oracle:%s:%s" % (mode, inst["akind"]))
            check_oracle(ctx, inst, mode, "search")
    n_grp = int(40 * budget)
    for i in range(n_grp):
        if len(ctx.failures) >= enough:
            break
        grp = gen_group(rng, nmax=5 if i % 4 else 7)
        for inst in grp["insts"]:
            if inst["max_iter"] == 0:
                inst["max_iter"] = inst["n"]
            inst["tol"] = "0"
        for mode in ("exact", "float"):
            ctx.case(("oracle-history", mode, json.dumps(grp, sort_keys=True)))
            ctx.count("oracle-history:%s:%s/%d solvers" % (mode, grp["kind"], len(grp["insts"])))
            check_oracle_group(ctx, grp, mode, "search")


def replay(path):
    r = json.load(open(path))
    print(json.dumps(r, indent=1)[:3000])
    if r.get("kind") != "failing-input":
        return 0
    c = r["case"]
    ctx = common.Ctx(PROPERTY, "quick", 0)
    if "group" in c:
        ok = check_oracle_group(ctx, c["group"], c["mode"], "replay")
    else:
        ok = check_oracle(ctx, c["inst"], c["mode"], "replay")
        k = n_updates(c["inst"])
        model = parse_model(ctx.driver([model_line(c["inst"], k)])[0])
        real, _ = run_real(c["inst"], "exact", k)
        print("model vs real (exact):", compare_exact(c["inst"], real, model)[:5] or "identical")
    for f in ctx.failures[:5]:
        print("FAIL", f["key"], f["what"], "observed=", f["observed"], "expected=", f["expected"])
    print("replay:", "property holds on this input" if ok else "property FAILS on this input")
    return 0 if ok else 1
