"""C12 — conjugate gradient produces the Krylov-optimal iterate at every step.

tie:    translator (harness/translate/gen_c12.py): the machine the theorems are about IS the
        statement-by-statement translation of `ConjugateGradient.__init__/_update/_done` regenerated from
        sigpy/alg.py on every run (Gen/C12.lean); and the REAL `sigpy.alg.ConjugateGradient` is executed over exact Gaussian rationals
        (dtype=object arrays of harness.exactq.QI) and every attribute is compared, after
        `__init__` and after EVERY `update()`, with the Lean machine `C12.run` (same definition the
        theorems are about) as equal fractions; a float64/complex128 run of the same instances is
        compared at 1e-9.
search: oracle written from the property statement (exact A-orthogonal projection onto the shifted
        Krylov space, residual identity, monotone A-norm error, finite termination, caller's array,
        stop on non-positive curvature) on the real class, exact and float.
"""
import json
import sys
from fractions import Fraction

import numpy as np

from harness import common
from harness.exactq import QI, QR, qarr, fmt_fr, fmt_q, fmt_qlist

if hasattr(sys, "set_int_max_str_digits"):
    sys.set_int_max_str_digits(0)  # exact fractions of a broken recurrence can be very long

PROPERTY = "C12"
LEAN_MODULES = ["SigpyVerif.Props.C12"]
THEOREMS = ["SigpyVerif.C12." + t for t in [
    "alias_branch_unreachable", "resid2_eq_rzold", "iter_counts_updates",
    "cg_breakdown", "cg_x_maxiter_irrelevant",
    "cg_residual", "cg_real_inner", "cg_orth_local", "cg_conj_local", "cg_orth", "cg_conj",
    "cg_krylov", "cg_krylov_eq", "cg_optimal", "cg_optimal_last", "cg_monotone", "cg_finite",
    "cg_breakdown_converged", "cg_early_stop_fixed", "run_none", "hpd_id", "pAp_budget", "npd_sticky",
    "model_is_generated", "update_eq", "update_keeps_iter", "x_is_callers_array",
]]


def translate(ctx):
    """Gen/C12.lean: `ConjugateGradient.__init__/_update/_done` (+ `Alg.__init__`, `Alg.update`) translated
    statement by statement (harness/translate/gen_c12.py); Model/C12.lean's machine IS these definitions."""
    from harness.translate import gen as G
    G.regenerate(ctx, ["C12"])


# ---- instances -------------------------------------------------------------------------------
def _rc(rng, cplx, lo=-3, hi=3):
    return [rng.randint(lo, hi), rng.randint(lo, hi) if cplx else 0]


def _herm_pd(rng, n, cplx, shift=None):
    """B^H B + d I with small integer entries: Hermitian positive definite, integer"""
    m = rng.choice([n, n, n + 1, max(1, n - 1)])
    B = [[complex(*_rc(rng, cplx, -2, 2)) for _ in range(n)] for _ in range(m)]
    d = rng.randint(1, 3) if shift is None else shift
    A = [[sum(B[k][i].conjugate() * B[k][j] for k in range(m)) + (d if i == j else 0) for j in range(n)]
         for i in range(n)]
    return [[int(z.real), int(z.imag)] for row in A for z in row]


def _herm_any(rng, n, cplx):
    A = [[None] * n for _ in range(n)]
    for i in range(n):
        A[i][i] = [rng.randint(-3, 4), 0]
        for j in range(i + 1, n):
            A[i][j] = _rc(rng, cplx)
            A[j][i] = [A[i][j][0], -A[i][j][1]]
    return [A[i][j] for i in range(n) for j in range(n)]


def gen_instance(rng, nmax=8, akinds=("pd", "pd", "pd", "pd", "indef", "psd")):
    n = rng.randint(1, nmax)
    cplx = rng.random() < 0.55
    akind = rng.choice(akinds)
    if akind == "pd":
        A = _herm_pd(rng, n, cplx)
    elif akind == "psd":
        A = _herm_pd(rng, n, cplx, shift=0)
    else:
        A = _herm_any(rng, n, cplx)
    pk = rng.choice(["none", "none", "diag", "dense", "ident"])
    if pk == "ident":
        # a preconditioner that returns its input OBJECT (sigpy.linop.Identity / lambda r: r): valid (the
        # identity is Hermitian PD) and the only way to observe whether __init__ copies z into p
        P = ["ident", [[1, 0] for _ in range(n)]]
    elif pk == "diag":
        P = ["diag", [[rng.randint(1, 5), 0] for _ in range(n)]]
    elif pk == "dense":
        P = ["dense", _herm_pd(rng, n, cplx)]
    else:
        P = ["none", []]
    x0 = [[0, 0]] * n if rng.random() < 0.4 else [_rc(rng, cplx) for _ in range(n)]
    b = [_rc(rng, cplx, -4, 4) for _ in range(n)]
    if rng.random() < 0.08:  # start at the solution / zero rhs
        b = [[0, 0]] * n
    return dict(n=n, cplx=cplx, akind=akind, A=A, b=b, x0=x0, P=P,
                form=rng.choice(["linop", "func"]),
                max_iter=rng.choice([1, 2, n, n + 2, 0 if rng.random() < 0.3 else n + 1]),
                tol=rng.choice(["0", "0", "0", "1/2", "2", "-1"]))


def _mat(vals, n, mode, cplx):
    if mode == "exact":
        return qarr([QI(a, b) for a, b in vals], (n, n))
    M = np.array([complex(a, b) for a, b in vals]).reshape(n, n)
    return M if cplx else M.real.copy()


def _vec(vals, mode, cplx, shape):
    if mode == "exact":
        return qarr([QI(a, b) for a, b in vals], shape)
    v = np.array([complex(a, b) for a, b in vals]).reshape(shape)
    return v if cplx else v.real.copy()


def build(inst, mode):
    """(A callable, b, x, P callable|None) for the real class; mode 'exact' | 'float'"""
    import sigpy as sp
    n, cplx = inst["n"], inst["cplx"]
    shape = (n, 1) if inst["form"] == "linop" else (n,)
    M = _mat(inst["A"], n, mode, cplx)
    if inst["form"] == "linop":
        A = sp.linop.MatMul(shape, M)
    else:
        def A(v, M=M):
            return M @ v
    b = _vec(inst["b"], mode, cplx, shape)
    x = _vec(inst["x0"], mode, cplx, shape)
    kind, data = inst["P"]
    if kind == "none":
        P = None
    elif kind == "ident":
        if inst["form"] == "linop":
            P = sp.linop.Identity(shape)
        else:
            def P(r):
                return r
    elif kind == "diag":
        d = _vec(data, mode, cplx, shape)

        def P(r, d=d):
            return d * r
    else:
        PM = _mat(data, n, mode, cplx)
        if inst["form"] == "linop":
            P = sp.linop.MatMul(shape, PM)
        else:
            def P(r, PM=PM):
                return PM @ r
    return A, b, x, P, M


def tol_value(inst):
    return float(Fraction(inst["tol"]))


def snapshot(alg, x_caller):
    return dict(x=np.array(alg.x, copy=True).ravel(), r=np.array(alg.r, copy=True).ravel(),
                p=np.array(alg.p, copy=True).ravel(), rz=alg.rzold, resid=alg.resid,
                npd=bool(alg.not_positive_definite), iter=int(alg.iter), done=bool(alg.done()),
                x_is_caller=alg.x is x_caller, p_is_r=alg.p is alg.r,
                xc=np.array(x_caller, copy=True).ravel())


def _bits(alg):
    m = 0
    for arr in (alg.x, alg.r, alg.p):
        for z in np.asarray(arr, dtype=object).ravel():
            if isinstance(z, QI):
                m = max(m, z.re.numerator.bit_length(), z.re.denominator.bit_length(),
                        z.im.numerator.bit_length(), z.im.denominator.bit_length())
    return m


def run_real(inst, mode, k, hook=None):
    """snapshots after __init__ and after each of k updates (or an `err …` string at the end)"""
    from sigpy.alg import ConjugateGradient
    A, b, x, P, M = build(inst, mode)
    out = []
    try:
        with np.errstate(all="ignore"):
            alg = ConjugateGradient(A, b, x, P=P, max_iter=inst["max_iter"], tol=tol_value(inst))
            out.append(snapshot(alg, x))
            for _ in range(k):
                if hook:
                    hook(alg)
                alg.update()
                out.append(snapshot(alg, x))
                if mode == "exact" and _bits(alg) > 40000:
                    # a correct run on these instances stays below ~3000 bits; a broken recurrence doubles the size of
                    # the fractions with every update: keep the history so far (it already differs) and stop
                    out.append("err fraction-blowup")
                    break
    except ZeroDivisionError:
        out.append("err zerodiv")
    except Exception as e:  # noqa
        out.append("err %s" % type(e).__name__)
    return out, x


def model_line(inst, k):
    kind, data = inst["P"]
    ps = "none" if kind == "none" else "%s:%s" % ("diag" if kind == "ident" else kind, ",".join(fmt_q(QI(a, b)) for a, b in data))
    return "C12 run n=%d A=%s b=%s x=%s P=%s maxiter=%d tol=%s k=%d" % (
        inst["n"], ",".join(fmt_q(QI(a, b)) for a, b in inst["A"]),
        ",".join(fmt_q(QI(a, b)) for a, b in inst["b"]), ",".join(fmt_q(QI(a, b)) for a, b in inst["x0"]),
        ps, inst["max_iter"], inst["tol"], k)


def parse_model(reply):
    if not reply.startswith("ok "):
        return [reply]
    out = []
    for st in reply[3:].split(" # "):
        if st.startswith("err"):
            out.append(st)
        else:
            out.append(dict(t.split("=", 1) for t in st.split(" ")))
    return out


def _pq(s):
    """protocol Gaussian-rational list -> list of (Fraction, Fraction)"""
    if s == "-":
        return []
    out = []
    for t in s.split(","):
        a, _, b = t.partition(";")
        out.append((Fraction(a), Fraction(b) if b else Fraction(0)))
    return out


def exact_view(s, inst):
    """a real snapshot in the model's reply format"""
    if isinstance(s, str):
        return s
    rz = s["rz"]
    return dict(x=fmt_qlist(s["x"]), r=fmt_qlist(s["r"]), p=fmt_qlist(s["p"]), rz=fmt_fr(rz),
                npd=str(int(s["npd"])), iter=str(s["iter"]), done=str(int(s["done"])),
                alias=str(int(inst["max_iter"] <= 1)))


def compare_exact(inst, real, model):
    """list of differing fields over the whole history ('' if none)"""
    diffs = []
    if len(real) != len(model):
        return ["length real=%d model=%d (%s | %s)" % (len(real), len(model), real[-1] if isinstance(real[-1], str) else "", model[-1] if isinstance(model[-1], str) else "")]
    tol = Fraction(inst["tol"])
    for k, (s, m) in enumerate(zip(real, model)):
        v = exact_view(s, inst)
        if isinstance(v, str) or isinstance(m, str):
            if v != m:
                diffs.append("update %d: real=%s model=%s" % (k, v if isinstance(v, str) else "state", m if isinstance(m, str) else "state"))
            continue
        for f in ("x", "r", "p", "rz", "npd", "iter"):
            if v[f] != m[f]:
                diffs.append("update %d field %s: real=%s model=%s" % (k, f, v[f], m[f]))
        r2 = Fraction(m["resid2"])
        if r2 >= 0 and s["resid"] != r2 ** 0.5:      # resid = rzold.item() ** 0.5, same float op on the same fraction
            diffs.append("update %d field resid: real=%r model=sqrt(%s)" % (k, s["resid"], m["resid2"]))
        if not (tol > 0 and r2 == tol * tol) and v["done"] != m["done"]:
            diffs.append("update %d field done: real=%s model=%s" % (k, v["done"], m["done"]))
        if not s["x_is_caller"]:
            diffs.append("update %d: alg.x is no longer the caller's array" % k)
        # `p is r` exactly when no private copy was made (max_iter <= 1) and there is no preconditioner
        if s["p_is_r"] != (m["alias"] == "1" and inst["P"][0] in ("none", "ident")):
            diffs.append("update %d: p-is-r aliasing real=%s model alias=%s" % (k, s["p_is_r"], m["alias"]))
    return diffs


def _fq(z):
    z = complex(z)
    return fmt_q(QI(Fraction(z.real), Fraction(z.imag)))


def _finite(s):
    return all(np.all(np.isfinite(np.asarray(s[f], dtype=complex))) for f in ("x", "r", "p")) and \
        np.isfinite(float(s["rz"]))


def float_step_lines(inst, real):
    """one `C12 step` request per float update: the float state before it, as exact dyadic rationals"""
    kind, data = inst["P"]
    ps = "none" if kind == "none" else "%s:%s" % ("diag" if kind == "ident" else kind, ",".join(fmt_q(QI(a, b)) for a, b in data))
    head = "C12 step n=%d A=%s P=%s maxiter=%d tol=%s" % (
        inst["n"], ",".join(fmt_q(QI(a, b)) for a, b in inst["A"]), ps, inst["max_iter"], inst["tol"])
    lines = []
    for s in real[:-1]:
        if isinstance(s, str) or not _finite(s):
            break
        lines.append(head + " x=%s r=%s p=%s rz=%s resid2=%s npd=%d iter=%d" % (
            ",".join(_fq(z) for z in s["x"]), ",".join(_fq(z) for z in s["r"]), ",".join(_fq(z) for z in s["p"]),
            fmt_fr(Fraction(float(s["rz"]))), fmt_fr(Fraction(float(s["rz"]))), int(s["npd"]), s["iter"]))
    return lines


def compare_float(inst, real, replies):
    """float run against the exact machine, ONE update at a time: the float state before the update
    is an exact rational state; the float state after it must agree with the machine's exact
    successor to 1e-9 of the state's scale (observed rounding <= 1e-13).  Stops comparing once the
    residual has collapsed to rounding noise (rz < 1e-20 rz0), where the sign of p^H A p is noise."""
    diffs = []
    if isinstance(real[0], str):
        return ["float run raised %s in __init__" % real[0]]
    rz0 = float(real[0]["rz"])
    for k, s in enumerate(real):
        if not isinstance(s, str) and not _finite(s):
            diffs.append("update %d: the float run produced non-finite values" % k)
            break
    for k, rep in enumerate(replies):
        s0, s = real[k], real[k + 1]
        if isinstance(s, str):
            if not rep.startswith("err"):
                diffs.append("update %d: float run raised %s" % (k + 1, s))
            break
        if rz0 == 0 or float(s0["rz"]) < 1e-20 * rz0 or s0["npd"]:
            break
        pv = np.asarray(s0["p"], dtype=complex)
        Am = np.array([complex(a, b) for a, b in inst["A"]]).reshape(inst["n"], inst["n"])
        curv = float(np.vdot(pv, Am @ pv).real)
        if abs(curv) <= 1e-9 * float(np.vdot(pv, pv).real) * (1 + float(np.max(np.abs(Am)))) * inst["n"]:
            break  # the sign of p^H A p (the breakdown test) is rounding noise here
        m = parse_model(rep)[0]
        if isinstance(m, str):
            diffs.append("update %d: model %s, float run went on" % (k + 1, m))
            break
        if m["npd"] != str(int(s["npd"])):
            diffs.append("update %d field flag (float): real=%s model=%s" % (k + 1, s["npd"], m["npd"]))
            break
        for f in ("x", "r", "p"):
            want = np.array([complex(float(a), float(b)) for a, b in _pq(m[f])])
            got = np.asarray(s[f], dtype=complex)
            scale = 1.0 + float(np.max(np.abs(want))) if len(want) else 1.0
            if got.shape != want.shape or not np.all(np.abs(got - want) <= 1e-9 * scale):
                diffs.append("update %d field %s (float): real=%s model=%s" % (k + 1, f, got.tolist(), want.tolist()))
        rz = float(Fraction(m["rz"]))
        if abs(float(s["rz"]) - rz) > 1e-9 * (1e-300 + abs(rz) + 1e-6 * rz0):
            diffs.append("update %d field rz (float): real=%r model=%s" % (k + 1, float(s["rz"]), rz))
        if abs(float(s["resid"]) ** 2 - float(Fraction(m["resid2"]))) > 1e-9 * (1e-300 + abs(rz) + 1e-6 * rz0):
            diffs.append("update %d field resid (float): real=%r model=sqrt(%s)" % (k + 1, s["resid"], float(Fraction(m["resid2"]))))
        if s["iter"] != int(m["iter"]) or not s["x_is_caller"]:
            diffs.append("update %d field iter/x-identity (float)" % (k + 1))
    return diffs


def n_updates(inst):
    return max(inst["max_iter"], 0) + 2


def correspond(ctx):
    ctx.rule = ("instance = (n 1..8, real/complex Hermitian integer A [PD | PSD-singular | indefinite], b, x0 zero/non-zero, "
                "P none/diag/dense PD, A as MatMul Linop or function, max_iter in {0,1,2,n,n+1,n+2}, tol); the real "
                "ConjugateGradient runs over exact Gaussian rationals and x,r,p,rzold,resid,flag,iter,done(),"
                "x-is-caller,p-is-r are compared with the Lean machine after __init__ and after each of "
                "max_iter+2 updates; distinct by protocol line; non-trivial = at least one update changes x")
    n_inst = 200 if ctx.tier == "quick" else 1500
    insts = [gen_instance(ctx.rng) for _ in range(n_inst)]
    lines = [model_line(i, n_updates(i)) for i in insts]
    replies = ctx.driver(lines)
    bad_e = bad_f = 0
    for inst, ln, rep in zip(insts, lines, replies):
        model = parse_model(rep)
        real, _ = run_real(inst, "exact", n_updates(inst))
        moved = len(model) > 1 and not isinstance(model[1], str) and model[1]["x"] != model[0]["x"]
        ctx.case(ln, nontrivial=moved,
                 sample=dict(line=ln[:160], states=len(model)) if ctx.evaluations % 23 == 0 else None)
        ctx.count("n=%d" % inst["n"])
        ctx.count("A:%s/%s" % (inst["akind"], "complex" if inst["cplx"] else "real"))
        ctx.count("P:%s" % inst["P"][0])
        ctx.count("form:%s" % inst["form"])
        ctx.count("max_iter-n=%d" % (inst["max_iter"] - inst["n"]) if inst["max_iter"] > 2 else "max_iter=%d" % inst["max_iter"])
        ctx.traces += len(model)
        d = compare_exact(inst, real, model)
        if d:
            bad_e += 1
            ctx.disagree("exact", dict(inst=inst, mode="exact"), d[:3], "Lean C12.run")
        fl, _ = run_real(inst, "float", n_updates(inst))
        d = compare_float(inst, fl, ctx.driver(float_step_lines(inst, fl)))
        if d:
            bad_f += 1
            ctx.disagree("float", dict(inst=inst, mode="float"), d[:3], "Lean C12.run")
    ctx.oblige("correspondence:C12.exact", "correspondence", bad_e == 0,
               "%d of %d instances differ from the Lean machine over exact Gaussian rationals" % (bad_e, n_inst))
    ctx.oblige("correspondence:C12.float", "correspondence", bad_f == 0,
               "%d of %d float instances: some update differs from the exact machine's successor of the same (dyadic) state by more than 1e-9" % (bad_f, n_inst))
    ctx.trusted += [
        "translator harness/translate/gen_c12.py (python ast -> Lean): its reading of util.axpy / util.xpay / xp.real(xp.vdot) / "
        ".copy() / .item() / `** 0.5` as the operations of C12.Ops and of numpy arrays as objects updated in place; validated by "
        "this correspondence on every run, not proved",
    ]
    ctx.assumptions += [
        "the driver's division-by-zero pre-check (Model/C12.lean divByZero) and its 40000-bit stop are hand-written; both are "
        "compared with the real run (ZeroDivisionError / the harness's own stop)",
        "numpy object-array arithmetic dispatches to the exact scalar class (harness/exactq.py) with the same "
        "operation order as for float dtypes",
        "Lean `Rat` arithmetic of the compiled driver is the arithmetic the theorems are about (Mathlib's ℝ/ℂ "
        "instance of the same generic definition)",
    ]


# ---- the property's own oracle ---------------------------------------------------------------
def _exact_problem(inst):
    n = inst["n"]
    A = qarr([QI(a, b) for a, b in inst["A"]], (n, n))
    P = None
    if inst["P"][0] in ("diag", "ident"):
        P = qarr([QI(0, 0)] * (n * n), (n, n))
        for i, (a, b) in enumerate(inst["P"][1]):
            P[i, i] = QI(a, b)
    elif inst["P"][0] == "dense":
        P = qarr([QI(a, b) for a, b in inst["P"][1]], (n, n))
    b = qarr([QI(a, c) for a, c in inst["b"]])
    x0 = qarr([QI(a, c) for a, c in inst["x0"]])
    return A, P, b, x0


def _herm(u, v):
    """<u, v> = sum conj(u_i) v_i, written out (not numpy.vdot)"""
    s = QI(0, 0)
    for a, c in zip(u, v):
        s = s + a.conjugate() * c
    return s


def _mv(M, v):
    n = len(v)
    out = np.empty(n, dtype=object)
    for i in range(n):
        s = QI(0, 0)
        for j in range(n):
            s = s + M[i, j] * v[j]
        out[i] = s
    return out


def _is_zero(v):
    return all(z.re == 0 and z.im == 0 for z in v)


def krylov_optima(A, P, b, x0, kmax):
    """x_opt[k] = argmin over x0 + K_k(PA, P r0) of the A-norm error, k = 0..kmax, by exact
    A-orthogonal projection (Gram-Schmidt on the Krylov vectors themselves); A Hermitian PD"""
    r0 = b - _mv(A, x0)
    v = r0 if P is None else _mv(P, r0)
    Q, xs, x = [], [x0.copy()], x0.copy()
    for _ in range(kmax):
        w = v.copy()
        for q, Aq, qAq in Q:
            c = _herm(Aq, w) / qAq
            w = w - c * q
        if not _is_zero(w):
            Aw = _mv(A, w)
            wAw = _herm(w, Aw)
            Q.append((w, Aw, wAw))
            x = x + (_herm(w, r0) / wAw) * w
        xs.append(x.copy())
        v = _mv(A, v)
        v = v if P is None else _mv(P, v)
    return xs


def solve_exact(A, b):
    n = len(b)
    M = [[A[i, j] for j in range(n)] + [b[i]] for i in range(n)]
    for c in range(n):
        piv = next((r for r in range(c, n) if not (M[r][c].re == 0 and M[r][c].im == 0)), None)
        if piv is None:
            return None
        M[c], M[piv] = M[piv], M[c]
        inv = QI(1, 0) / M[c][c]
        M[c] = [z * inv for z in M[c]]
        for r in range(n):
            if r != c and not (M[r][c].re == 0 and M[r][c].im == 0):
                f = M[r][c]
                M[r] = [a - f * bb for a, bb in zip(M[r], M[c])]
    return qarr([M[i][n] for i in range(n)])


def anorm2(A, e):
    return _herm(e, _mv(A, e)).re


def _f(v):
    return np.array([complex(float(z.re), float(z.im)) for z in v])


def key_of(inst, what):
    return "C12:%s:%s" % (what, "P-" + inst["P"][0])


def check_oracle(ctx, inst, mode, origin):
    """the statement of C12 on the real class for one PD (or indefinite: curvature clause only)
    instance; returns True when it holds"""
    A, P, b, x0 = _exact_problem(inst)
    n, M = inst["n"], inst["max_iter"]
    case = dict(inst=inst, mode=mode)
    k_run = min(max(M, 0), n + 2)
    pre = []

    def hook(alg):
        pre.append((np.array(alg.p, copy=True).ravel(), np.array(alg.x, copy=True).ravel()))
    snaps, xc = run_real(inst, mode, k_run, hook=hook)
    exact = mode == "exact"
    ok = True

    def bad(what, msg, obs=None, exp=None):
        nonlocal ok
        ok = False
        ctx.fail(key_of(inst, what), msg, case, observed=obs, expected=exp, origin=origin)

    if snaps and snaps[-1] == "err fraction-blowup":
        snaps = snaps[:-1]  # judge the history up to there (a correct run never gets here)
    if any(isinstance(s, str) for s in snaps):
        bad("exception", "ConjugateGradient raised on a valid Hermitian system: %s" % [s for s in snaps if isinstance(s, str)][0])
        return False
    if not exact:
        for k, s_ in enumerate(snaps):
            if not _finite(s_):
                bad("non-finite", "after %d updates the float solver state contains inf/nan" % k)
                return False
    if inst["akind"] != "pd":
        # non-positive curvature: the update that meets p^H A p <= 0 must leave x unchanged, set the flag, be done
        for k in range(1, len(snaps)):
            p_before, x_before = pre[k - 1]
            pq = qarr([QI._c(z) for z in p_before]) if not exact else p_before
            curv = _herm(pq, _mv(A, pq)).re
            if exact and curv <= 0:
                s = snaps[k]
                if not (s["done"] and fmt_qlist(s["x"]) == fmt_qlist(x_before)):
                    bad("curvature", "p^H A p <= 0 met at update %d but the solver did not stop with x unchanged" % k,
                        obs=dict(done=s["done"], flag=s["npd"], x=fmt_qlist(s["x"])), exp=dict(done=True, x=fmt_qlist(x_before)))
                break
            if not exact and float(curv) < -1e-6 * (1 + float(_herm(pq, pq).re)):
                s = snaps[k]
                if not (s["done"] and np.array_equal(np.asarray(s["x"]), np.asarray(x_before))):
                    bad("curvature", "clearly negative curvature at update %d but the solver went on" % k,
                        obs=dict(done=s["done"], flag=s["npd"]), exp="done, x unchanged")
                break
        return ok
    xstar = solve_exact(A, b)
    opt = krylov_optima(A, P, b, x0, k_run)
    e_prev = None
    # float CG loses conjugacy at the rate of cond(PA): observed deviation from the exact optimum <= 2.4e-8
    # (P none/diag, n <= 12, 240 instances) and up to 5e-4 with a dense P, whose float optimality is therefore not
    # demanded (the exact run of the same instance is)
    tolx = 0 if exact else 1e-4
    float_opt = inst["P"][0] != "dense"
    for k, s in enumerate(snaps):
        xk = s["x"] if exact else None
        # (5) the caller's array holds the iterate
        if (exact and fmt_qlist(s["xc"]) != fmt_qlist(s["x"])) or \
                (not exact and not np.array_equal(np.asarray(s["xc"]), np.asarray(s["x"]))):
            bad("caller-array", "after %d updates the solution is not in the array the caller passed" % k)
        # (1) Krylov optimality
        if exact:
            if fmt_qlist(xk) != fmt_qlist(opt[k]):
                bad("krylov-optimal", "after %d updates x is not the A-norm-optimal point of x0 + K_%d" % (k, k),
                    obs=fmt_qlist(xk), exp=fmt_qlist(opt[k]))
        elif float_opt:
            want = _f(opt[k])
            got = np.asarray(s["x"], dtype=complex)
            if not np.all(np.abs(got - want) <= tolx * (1 + np.max(np.abs(want)))):
                bad("krylov-optimal", "after %d updates x differs from the A-norm-optimal point of x0 + K_%d by more than 1e-4" % (k, k),
                    obs=got.tolist(), exp=want.tolist())
        # (2) tracked residual = b - A x, except after the last permitted update
        if k < M:
            if exact:
                want = b - _mv(A, xk)
                if fmt_qlist(s["r"]) != fmt_qlist(want):
                    bad("residual", "after %d updates (max_iter=%d) the tracked residual is not b - A x" % (k, M),
                        obs=fmt_qlist(s["r"]), exp=fmt_qlist(want))
            else:
                xq = qarr([QI._c(z) for z in s["x"]])
                want = _f(b - _mv(A, xq))
                got = np.asarray(s["r"], dtype=complex)
                if not np.all(np.abs(got - want) <= 1e-9 * (1 + np.max(np.abs(_f(b))) + np.max(np.abs(want)))):
                    bad("residual", "after %d updates (max_iter=%d) the tracked residual drifts from b - A x by more than 1e-9" % (k, M),
                        obs=got.tolist(), exp=want.tolist())
        # (3) A-norm error never increases
        xq = xk if exact else qarr([QI._c(z) for z in s["x"]])
        e = anorm2(A, xstar - xq)
        if e_prev is not None and (e > e_prev if exact else float(e) > float(e_prev) + 1e-12 * (1 + float(e0))):
            bad("monotone", "the A-norm error increased at update %d" % k, obs=float(e), exp="<= %r" % float(e_prev))
        e_prev = e
        e0 = e if k == 0 else e0
        # (4) exact solution within n updates
        if k >= n:
            if exact and fmt_qlist(xk) != fmt_qlist(xstar):
                bad("finite", "after %d >= n = %d updates x is not the exact solution" % (k, n), obs=fmt_qlist(xk), exp=fmt_qlist(xstar))
            if not exact and float_opt and not np.all(np.abs(np.asarray(s["x"], dtype=complex) - _f(xstar)) <= 1e-4 * (1 + np.max(np.abs(_f(xstar))))):
                bad("finite", "after %d >= n = %d updates x is not the solution to 1e-4" % (k, n), obs=np.asarray(s["x"]).tolist(), exp=_f(xstar).tolist())
        # the canonical loop never runs past done(): stop where the real loop stops
        if s["done"]:
            break
    return ok


def search(ctx, budget):
    rng = ctx.rng
    enough = 40  # failing inputs after which the search stops (one suffices; a broken recurrence makes each exact run slow)
    for d in ctx.disagreements[:100]:
        if len(ctx.failures) >= enough:
            break
        c = d["case"]
        if c["inst"]["akind"] != "psd":
            check_oracle(ctx, c["inst"], c["mode"], "disagreement")
            check_oracle(ctx, c["inst"], "float" if c["mode"] == "exact" else "exact", "disagreement")
    n_inst = int(120 * budget)
    for i in range(n_inst):
        if len(ctx.failures) >= enough:
            break
        inst = gen_instance(rng, nmax=8 if i % 4 else 12, akinds=("pd", "pd", "pd", "pd", "pd", "indef"))
        if inst["max_iter"] == 0:
            inst["max_iter"] = inst["n"]
        inst["tol"] = "0"
        for mode in ("exact", "float"):
            ctx.case(("oracle", mode, json.dumps(inst, sort_keys=True)))
            ctx.count("oracle:%s:%s" % (mode, inst["akind"]))
            check_oracle(ctx, inst, mode, "search")


def replay(path):
    r = json.load(open(path))
    print(json.dumps(r, indent=1)[:3000])
    if r.get("kind") != "failing-input":
        return 0
    c = r["case"]
    ctx = common.Ctx(PROPERTY, "quick", 0)
    ok = check_oracle(ctx, c["inst"], c["mode"], "replay")
    k = n_updates(c["inst"])
    model = parse_model(ctx.driver([model_line(c["inst"], k)])[0])
    real, _ = run_real(c["inst"], "exact", k)
    print("model vs real (exact):", compare_exact(c["inst"], real, model)[:5] or "identical")
    for f in ctx.failures[:5]:
        print("FAIL", f["key"], f["what"], "observed=", f["observed"], "expected=", f["expected"])
    print("replay:", "property holds on this input" if ok else "property FAILS on this input")
    return 0 if ok else 1
