"""C20 — trapezoid gradient designers meet area, amplitude and slew limits
(sigpy/mri/rf/trajgrad.py: trap_grad, min_trap_grad, spokes_grad)."""
import json
import math
from fractions import Fraction as Fr

import numpy as np

from harness import common
from harness.translate import gen as G

PROPERTY = "C20"
LEAN_MODULES = ["SigpyVerif.Props.C20", "SigpyVerif.Props.C20Rat", "SigpyVerif.Props.C20Spokes"]
THEOREMS = ["SigpyVerif.C20." + t for t in [
    "sum_pulse", "pulse_ends", "pulse_range", "pulse_chain",
    "wave_sum", "wave_ends", "wave_range", "wave_chain", "design_meets_limits",
    "ramppts0_eq", "ramppts0_spec", "trap_triangle", "trap_trapezoid", "trap_ramppts_pos", "trap_sum", "trap_area",
    "trap_tri_limits", "trap_trapezoid_limits", "trap_meets_limits", "trap_slew_getElem",
    "min_design_ok", "min_trap_meets_limits", "min_trap_none_iff", "floor_flat_zero_iff", "min_trap_defined",
    "ceilSqrtDiv2Ok_iff", "floorDivSqrt2Ok_iff",
    "spokes_axis_limits", "spokes_gz_limits", "blip_kspace",
    # Props/C20Rat.lean: the Rat (driver) <-> ℝ (theorems) bridge and the ceiling-tie characterisation
    "ratCeil_eq", "ratCeilNat_cast", "ceil_perturb_iff", "ceil_stable", "natCeil_stable",
    "ceilSqrtDiv2Ok_cast", "floorDivSqrt2Ok_cast", "trapTriRamppts_cast", "minPts_cast", "rat_real_agree",
    "wave_cast", "trapGrad_cast", "minTrapGrad_cast",
    "trap_meets_limits_rat", "trap_area_rat", "min_trap_meets_limits_rat", "min_trap_defined_rat",
    # Props/C20Spokes.lean: the generated spokes_grad assembly
    "pySliceTo_append_zeros", "spokesStep_eq", "segOf_length", "loopState_eq", "spokes_closed_form", "spokesAxis_eq",
    "spokes_limits", "spokes_kspace", "spokes_kspace_y", "spokes_limits_designers", "spokes_kspace_designers",
]]

DOM = dict(area=(1e-6, 1.0), gmax=(0.1, 10.0), dgdt=(1e2, 1e5), dt=(1e-6, 1e-4))
RTOL = 1e-9          # the property's float slack
CTOL = 1e-10         # correspondence: float sample vs exact model value (observed ≤ 3e-14 for len ≤ 6000)


def translate(ctx):
    G.regenerate(ctx, ["TrapGrad", "Spokes"])


def tg():
    from sigpy.mri.rf import trajgrad
    return trajgrad


# ---- exact helpers ----------------------------------------------------------------------------
def fr(x):
    return Fr(*float(x).as_integer_ratio())


def rs(q):
    return "%d/%d" % (q.numerator, q.denominator) if q.denominator != 1 else str(q.numerator)


def floor_sqrt(q):
    """floor(sqrt(q)) for a Fraction q ≥ 0, exactly"""
    return math.isqrt(q.numerator * q.denominator) // q.denominator


def ceil_sqrt(q):
    r = floor_sqrt(q)
    return r if r * r == q else r + 1


def tie_dist(q):
    """relative distance of a positive Fraction to the nearest integer (0 at a tie)"""
    n = round(q)
    return float(abs(q - n) / max(abs(q), 1))


def exact_params(c):
    a, g, s, d = (fr(c[k]) for k in ("area", "gmax", "dgdt", "dt"))
    return a, g, s, d


def trap_hint(c):
    a, g, s, d = exact_params(c)
    return ceil_sqrt(a * s / (s * d) ** 2)


def min_hint(c):
    a, g, s, d = exact_params(c)
    return floor_sqrt(a * a / ((s * a / 2) * d * d))


def near_tie(c, fn):
    """is one of the ceilings / floors the float code takes within 1e-9 (relative) of an integer?  Then IEEE
    rounding may legitimately land on the other side and integer outputs are not compared."""
    a, g, s, d = exact_params(c)
    qs = []
    if fn == "trap":
        q0 = g / s / d
        r0 = math.ceil(q0)
        tam = r0 * d * g
        qs += [q0, a / tam]                       # regime switch is a tie when area == triareamax
        if tam > a:
            x = a * s / (s * d) ** 2
            r = ceil_sqrt(x)
            qs.append(Fr(r * r) / x if x else Fr(1))
            qs.append(Fr((r - 1) ** 2) / x if r > 1 else Fr(1, 2))
        else:
            qs.append((a - tam) / g / d / 2 if a > tam else Fr(1, 2))
    else:
        x = a * a / ((s * a / 2) * d * d)
        p = floor_sqrt(x)
        qs.append(Fr(p * p) / x if p else Fr(1, 2))
        qs.append(Fr((p + 1) ** 2) / x)
        n = max(p, 1)
        fv = a / n / d
        qs.append(fv / g)                         # gmax cap is a tie when fv == gmax
        if fv > g:
            n = math.ceil(a / g / d)
            qs.append(a / g / d)
            fv = a / n / d
        qs.append(fv / s / d)
    if c.get("kind") == "dyadic" and fn == "trap":
        # few-bit dyadic inputs: every float operation feeding trap_grad's integer outputs (gmax/dgdt/dt, ramppts*dt*gmax,
        # sqrt of a perfect square, (area-triareamax)/gmax/dt/2) is exact, so an exact tie is computed exactly and IS
        # compared; only inexact near-ties are excused.  (min_trap_grad divides by the flat length, which is inexact, so
        # its ties stay excused: e.g. gmax=.5, dgdt=128, dt=2^-16, area=0.00058418...: fv/dgdt/dt = 99 exactly, float 99+ulp.)
        return any(q > 0 and 0 < tie_dist(q) < 1e-9 for q in qs)
    return any(q > 0 and tie_dist(q) < 1e-9 for q in qs)


def pred_len(c):
    a, g, s, d = c["area"], c["gmax"], c["dgdt"], c["dt"]
    return 2 * (g / s / d + 2) + a / g / d + math.sqrt(a / s) / d


# ---- case generation ---------------------------------------------------------------------------
def logu(rng, lo, hi):
    return math.exp(rng.uniform(math.log(lo), math.log(hi)))


def in_dom(c):
    return all(DOM[k][0] <= c[k] <= DOM[k][1] for k in DOM)


def rand_case(rng, maxlen):
    for _ in range(10000):
        c = {k: logu(rng, *DOM[k]) for k in DOM}
        if rng.random() < 0.3:   # round to few digits: exactly representable-ish, ties more likely
            c = {k: float("%.2g" % v) for k, v in c.items()}
        if in_dom(c) and pred_len(c) <= maxlen:
            return c
    raise RuntimeError("no case")


def boundary_cases(rng, maxlen, n):
    """regime boundary area = triareamax·(1±1e-12) and exact; ceiling/floor ties of every rounding."""
    out = []
    while len(out) < n:
        c = rand_case(rng, maxlen)
        g, s, d = c["gmax"], c["dgdt"], c["dt"]
        kind = rng.choice(["regime", "regime", "tie-r0", "tie-tri", "tie-nflat", "tie-minfloor", "tie-mincap", "dyadic"])
        if kind == "regime":
            r0 = int(np.ceil(g / s / d))
            c["area"] = r0 * d * g * rng.choice([1.0, 1 - 1e-12, 1 + 1e-12, 1 - 1e-9, 1 + 1e-9])
        elif kind == "tie-r0":
            m = rng.randint(1, 400)
            c["gmax"] = m * s * d
        elif kind == "tie-tri":
            m = rng.randint(1, 400)
            c["area"] = m * m * s * d * d
        elif kind == "tie-nflat":
            r0 = int(np.ceil(g / s / d))
            c["area"] = r0 * d * g + 2 * rng.randint(1, 300) * g * d
        elif kind == "tie-minfloor":
            m = rng.randint(1, 400)
            c["area"] = m * m * d * d * s / 2
        elif kind == "tie-mincap":
            m = rng.randint(1, 400)
            c["area"] = m * g * d
        else:  # all dyadic: every float operation of the designers is exact, ties are hit exactly
            c = dict(gmax=2.0 ** rng.randint(-3, 3), dgdt=2.0 ** rng.randint(7, 16), dt=2.0 ** -rng.randint(14, 19))
            m = rng.randint(1, 200)
            c["area"] = rng.choice([m * m * c["dgdt"] * c["dt"] ** 2, m * c["gmax"] * c["dt"],
                                    m * m * c["dt"] ** 2 * c["dgdt"] / 2])
        c["kind"] = kind
        if in_dom(c) and pred_len(c) <= maxlen:
            out.append(c)
    return out


def small_flat_cases(rng, n):
    """min_trap_grad with 0, 1, 2 flat points (area ≲ dgdt·dt²)"""
    out = []
    while len(out) < n:
        c = rand_case(rng, 1e9)
        c["area"] = c["dgdt"] * c["dt"] ** 2 / 2 * rng.choice([0.3, 0.9, 1.0, 1.1, 2.5, 4.0, 5.0, 9.5])
        c["kind"] = "small-flat"
        if in_dom(c) and pred_len(c) <= 20000:
            out.append(c)
    return out


# ---- model side --------------------------------------------------------------------------------
def pick_idx(rng, n, r):
    idx = {0, 1, n - 1, n - 2, r - 1, r, r + 1, r + 2, n - r - 2, n - r - 1, n // 2}
    idx |= {rng.randrange(n) for _ in range(6)}
    return sorted(i for i in idx if 0 <= i < n)


def parse(r):
    if not r.startswith("ok "):
        return r
    head, smp = r[3:].split(" | ")
    d = dict(t.split("=") for t in head.split())
    out = dict(r=int(d["r"]), nflat=int(d["nflat"]), len=int(d["len"]), scale=Fr(d["scale"]), sum=Fr(d["sum"]),
               flatsum=Fr(d["flatsum"]), exact=(int(d["xr"]), int(d["xnflat"]), int(d["xlen"])))
    out["smp"] = [] if smp == "-" else [Fr(v) for v in smp.split(",")]
    return out


class NpRec:
    """stands in for the module-global `np` of trajgrad.py while one designer runs: records, in call order, the
    doubles handed to np.ceil / np.floor / np.sqrt (np.ceil and np.floor are exact on doubles, so the integer the float
    code obtains at a site is exactly the ceiling / floor of the recorded double)"""

    def __init__(self):
        self.ev = []

    def __getattr__(self, n):
        return getattr(np, n)

    def ceil(self, x):
        self.ev.append(("ceil", float(x)))
        return np.ceil(x)

    def floor(self, x):
        self.ev.append(("floor", float(x)))
        return np.floor(x)

    def sqrt(self, x):
        self.ev.append(("sqrt", float(x)))
        return np.sqrt(x)


def float_path(fn, ev):
    """the float code's path through the numbered rounding sites of Gen/TrapGrad.lean -> protocol fields, or None when
    the sequence of rounding calls is not the one of the translated source"""
    kinds = [k for k, _ in ev]
    X = lambda v: rs(fr(v))  # noqa
    if fn == "trap":
        if kinds == ["ceil", "sqrt", "ceil"]:       # triangle
            return "hcf=%d cf=%s,x lf=1" % (max(int(math.ceil(ev[2][1])), 0), X(ev[0][1]))
        if kinds == ["ceil", "ceil"]:               # trapezoid
            return "cf=%s,%s lf=0" % (X(ev[0][1]), X(ev[1][1]))
        return None
    if kinds == ["sqrt", "floor", "ceil"]:          # not capped
        return "hff=%d cf=x,x,x,%s lf=x,0" % (max(int(math.floor(ev[1][1])), 0), X(ev[2][1]))
    if kinds == ["sqrt", "floor", "ceil", "ceil"]:  # capped at gmax
        return "hff=%d cf=x,x,%s,%s lf=x,1" % (max(int(math.floor(ev[1][1])), 0), X(ev[2][1]), X(ev[3][1]))
    return None


def run_real(fn, c, rec=None):
    T = tg()
    f = T.trap_grad if fn == "trap" else T.min_trap_grad
    old = T.np
    if rec is not None:
        T.np = rec
    try:
        w, r = f(c["area"], c["gmax"], c["dgdt"], c["dt"])
    except ValueError:
        return "err value"
    except Exception as e:  # noqa
        return "err %s" % type(e).__name__
    finally:
        T.np = old
    w = np.asarray(w, dtype=float)
    if w.ndim != 2 or w.shape[0] != 1:
        return "err shape %s" % (w.shape,)
    return w[0], int(r)


def model_line(fn, c, idx, path=""):
    a, g, s, d = exact_params(c)
    if fn == "trap":
        return "C20 trap area=%s gmax=%s dgdt=%s dt=%s hc=%d %s idx=%s" % (rs(a), rs(g), rs(s), rs(d), trap_hint(c), path,
                                                                          ",".join(map(str, idx)) or "-")
    return "C20 mintrap area=%s gmax=%s dgdt=%s dt=%s hf=%d %s idx=%s" % (rs(a), rs(g), rs(s), rs(d), min_hint(c), path,
                                                                         ",".join(map(str, idx)) or "-")


def compare(ctx, stream, fn, cases):
    """real function vs Rat model.  The model is evaluated twice at the exact rational values of the float inputs:
    (x) with exact ceilings / comparisons — the design `trap_meets_limits_rat` & co. are about — and (f) along the float
    code's own path: at every numbered rounding site the ceiling is taken of the double the real code handed to np.ceil
    (recorded while it ran).  (f) must reproduce ramppts and the length EXACTLY and the samples, Σ, flat Σ at CTOL —
    always, ties included.  (x) may differ from (f) only if some rounding site is within 1e-9 of an integer (a rounding
    error of a few ulp crossed it: `ceil_perturb_iff`); that is counted, and anything else is a disagreement."""
    real, lines, idxs = [], [], []
    for c in cases:
        rec = NpRec()
        rr = run_real(fn, c, rec)
        real.append(rr)
        if isinstance(rr, tuple):
            idx = pick_idx(ctx.rng, len(rr[0]), rr[1])
        else:
            idx = []
        idxs.append(idx)
        path = float_path(fn, rec.ev)
        if path is None and isinstance(rr, tuple):
            real[-1] = "err unexpected-rounding-calls %s" % [k for k, _ in rec.ev]
        lines.append(model_line(fn, c, idx, path or ""))
    replies = ctx.driver(lines)
    bad = 0
    for c, rr, idx, ln, rep in zip(cases, real, idxs, lines, replies):
        m = parse(rep)
        ctx.case((fn, ln), nontrivial=True, sample=dict(line=ln[:200], reply=rep[:160]) if ctx.evaluations % 41 == 0 else None)
        ctx.count("%s:%s" % (fn, c.get("kind", "random")))
        if isinstance(m, str) or isinstance(rr, str):
            if m != rr:
                bad += 1
                ctx.disagree(stream, dict(fn=fn, case=c), rr if isinstance(rr, str) else "waveform", m if isinstance(m, str) else "design")
            continue
        w, r = rr
        ints_real = (r, len(w))
        ints_model = (m["r"], m["len"])
        if ints_real != ints_model:
            bad += 1
            ctx.disagree(stream, dict(fn=fn, case=c), ints_real, ints_model)
            continue
        if m["exact"] != (m["r"], m["nflat"], m["len"]):
            # the float code rounded across an integer somewhere: legitimate only at a (near-)tie of a rounding site
            ctx.count("%s:float-path-differs-from-exact-path" % fn)
            ctx.floatpath = getattr(ctx, "floatpath", 0) + 1
            if not near_tie(c, fn):
                bad += 1
                ctx.disagree(stream, dict(fn=fn, case=c), "integer outputs %s (r, nflat, len) away from any tie" % ((m["r"], m["nflat"], m["len"]),),
                             "exact %s" % (m["exact"],))
                continue
        elif near_tie(c, fn):
            ctx.count("%s:near-tie-compared-exactly" % fn)
        ctx.count("%s:shape:%s" % (fn, "with-flat" if m["nflat"] else "triangle"))
        sc = float(m["scale"])
        errs = [abs(w[i] - float(v)) for i, v in zip(idx, m["smp"])]
        e_sum = abs(float(np.sum(w)) - float(m["sum"])) / float(m["sum"])
        nf = m["nflat"]
        flat = w[r + 1: r + 1 + nf]
        e_flat = abs(float(np.sum(flat)) - float(m["flatsum"])) / max(float(m["flatsum"]), sc) if nf else 0.0
        worst = max([e / sc for e in errs] + [e_sum, e_flat])
        ctx.maxerr = max(getattr(ctx, "maxerr", 0.0), worst)
        if worst > CTOL:
            bad += 1
            ctx.disagree(stream, dict(fn=fn, case=c), "rel.err %.3g (samples %s)" % (worst, [float(w[i]) for i in idx][:6]),
                         [float(v) for v in m["smp"]][:6])
    return bad


# ---- spokes assembly: real spokes_grad on labelled sub-waveforms vs the GENERATED assembly (Gen/Spokes.lean) ------
def spokes_labelled(rng, outside):
    """run the real spokes_grad with min_trap_grad / trap_grad replaced by table functions area -> labelled waveform
    (the same area gets the same waveform); `outside`: some blips are longer than the slice-select lobe.
    Returns (protocol line, real result or 'err value', is some blip longer than the lobe)."""
    T = tg()
    n = rng.randint(1, 6)
    k = np.array([[rng.choice([0, 0, 1, 2, -1, 3, 5]), rng.choice([0, 0, 1, -2, 2, -4])] for _ in range(n)], dtype=float)
    nsub = rng.randint(3, 9)
    sub = np.arange(1, nsub + 1, dtype=float)
    tbw, sl_thick, gts = rng.choice([2, 4, 8]), rng.choice([5.0, 3.0, 10.0, 7.5]), rng.choice([4e-6, 1e-5, 2e-6])
    label = [100]
    mtab, ttab = {}, {}

    def fake_min(area, gmax, dgdt, dt):
        if (gmax, dgdt, dt) != (4.0, 2e4, gts):
            raise AssertionError("designer arguments")
        mtab.setdefault(float(area), sub.copy())
        return mtab[float(area)][None, :].copy(), 2

    def fake_trap(area, gmax, dgdt, dt, *a):
        if (gmax, dgdt, dt) != (4.0, 2e4, gts) or a:
            raise AssertionError("designer arguments")
        if float(area) not in ttab:
            ln = rng.randint(nsub + 1, 2 * nsub + 2) if (outside and rng.random() < 0.5) else rng.randint(2, nsub)
            ttab[float(area)] = np.arange(label[0], label[0] + ln, dtype=float)
            label[0] += 100
        return ttab[float(area)][None, :].copy(), 1

    old = T.min_trap_grad, T.trap_grad
    T.min_trap_grad, T.trap_grad = fake_min, fake_trap
    try:
        g = T.spokes_grad(k, tbw, sl_thick, 4.0, 2e4, gts)
        real = [[Fr(float(v)) for v in row] for row in np.asarray(g, dtype=float)]
    except ValueError:
        real = "err value"
    finally:
        T.min_trap_grad, T.trap_grad = old
    L = lambda v: ",".join(rs(fr(x)) for x in v) or "-"  # noqa
    W = lambda tab: ";".join(L(w) for w in tab.values()) or "-"  # noqa
    line = "C20 spokes n=%d kx=%s ky=%s tbw=%s slthick=%s gts=%s mk=%s mw=%s tk=%s tw=%s" % (
        n, L(k[:, 0]), L(k[:, 1]), rs(fr(tbw)), rs(fr(sl_thick)), rs(fr(gts)), L(mtab.keys()), W(mtab), L(ttab.keys()), W(ttab))
    # blips actually placed (the rewinder's table entry is the last one created)
    dk = [np.diff(np.concatenate((k[:, a], [0.0]))) / 4257 for a in (0, 1)]
    longer = any(abs(float(v)) in ttab and len(ttab[abs(float(v))]) > nsub for a in dk for v in a if v != 0)
    return line, real, longer, dict(k=k.tolist(), nsub=nsub, tbw=tbw, sl_thick=sl_thick, gts=gts)


def spokes_stream(ctx):
    rng = ctx.rng
    quick = ctx.tier == "quick"
    bad = 0
    lines, reals, metas, longs = [], [], [], []
    for i in range(60 if quick else 400):
        try:
            line, real, longer, meta = spokes_labelled(rng, outside=(i % 3 == 2))
        except Exception as e:  # noqa  (the real assembly raised something else / called the designers differently)
            bad += 1
            ctx.disagree("spokes", dict(stage="assembly"), "err %s %s" % (type(e).__name__, e), "waveforms")
            continue
        lines.append(line); reals.append(real); metas.append(meta); longs.append(longer)
    reps = ctx.driver(lines)
    for line, real, meta, longer, rep in zip(lines, reals, metas, longs, reps):
        ctx.case(("spokes", line), sample=dict(line=line[:200], reply=rep[:120]) if ctx.evaluations % 23 == 0 else None)
        if rep.startswith("ok "):
            model = [[Fr(v) for v in part.split(",")] if part != "-" else [] for part in rep[3:].split(" | ")]
        else:
            model = rep
        if not longer:
            ctx.count("spokes:inside-domain:n=%d" % len(meta["k"]))
        elif real == "err value":
            # OBSERVATION (not a violation: outside the property's domain): a blip longer than everything assembled so
            # far makes `gx[: len(gx) - len(blip)]` a negative slice; the rows get different lengths and np.vstack raises
            ctx.count("spokes:outside-domain:vstack-raises")
        else:
            # OBSERVATION: a blip longer than one lobe but not longer than the assembled axis silently overwrites the
            # tail of the previous spoke's segment
            ctx.count("spokes:outside-domain:overwrites-previous-spoke")
        if model != real:
            bad += 1
            ctx.disagree("spokes", meta, "err value" if isinstance(real, str) else [[float(v) for v in r][:12] for r in real],
                         rep[:300])
    return bad


def correspond(ctx):
    ctx.rule = ("trap/mintrap: (area, gmax, dgdt, dt) floats passed to the model as their exact rational values; "
                "log-uniform over the property's domain (30 % rounded to 2 digits), regime boundary, ceiling/floor ties "
                "(ALL compared exactly: the model follows the float code through the doubles it rounded at each numbered site), "
                "small flat tops; distinct by protocol line; spokes: real spokes_grad with table designers (labelled "
                "sub-waveforms, 1/3 of the runs with blips longer than the slice-select lobe) vs the generated assembly")
    quick = ctx.tier == "quick"
    rng = ctx.rng
    maxlen = 3000 if quick else 6000
    n = 300 if quick else 1500
    for fn in ("trap", "mintrap"):
        cases = [rand_case(rng, maxlen) for _ in range(n)] + boundary_cases(rng, maxlen, n)
        if fn == "mintrap":
            cases += small_flat_cases(rng, n // 2)
        bad = compare(ctx, fn, fn, cases)
        ctx.oblige("correspondence:C20." + fn, "correspondence", bad == 0, "%d disagreements" % bad)
    bad = spokes_stream(ctx)
    ctx.oblige("correspondence:C20.spokes-assembly", "correspondence", bad == 0, "%d disagreements" % bad)
    ctx.notes.append("max relative deviation real vs exact model: %.3g (tolerance %g)" % (getattr(ctx, "maxerr", 0.0), CTOL))
    d = ctx.counts
    ctx.notes.append("ceiling ties: %d cases where a rounding of the float code crossed an integer (float path != exact path; all at a "
                     "rounding site within 1e-9 of an integer), %d near-tie cases where it did not; every one of them compared exactly"
                     % (getattr(ctx, "floatpath", 0), sum(v for k, v in d.items() if k.endswith("near-tie-compared-exactly"))))
    ctx.notes.append("spokes_grad outside its domain (a blip longer than one slice-select lobe) — observed on the real code, reproduced "
                     "by the generated model, NOT a violation: np.vstack raises ValueError in %d runs, the blip silently overwrites "
                     "the tail of the previous spoke's segment in %d runs" % (d.get("spokes:outside-domain:vstack-raises", 0),
                                                                              d.get("spokes:outside-domain:overwrites-previous-spoke", 0)))
    ctx.assumptions += [
        "IEEE rounding of the float evaluation is not modelled as such: the model is exact rational arithmetic on the exact values "
        "of the float inputs; where the float code's ceiling / comparison lands on the other side of an integer (only possible "
        "within a few ulp of a tie: ceil_perturb_iff / ceil_stable) the correspondence feeds the model the recorded double of that "
        "site and compares exactly; the `_rat` theorems are about the exact path, the property's 1e-9 slack absorbs the other one",
        "numpy linspace/concatenate/ones/sum/vstack and Python's sum / list slicing are trusted to implement their specification",
        "spokes_grad: the designers are abstract in the generated assembly; tying them to min_trap_grad / trap_grad is "
        "spokes_limits_designers (proved) + the two designer correspondence streams",
    ]
    ctx.traces = ctx.evaluations


# ---- the property's oracle on the real code -----------------------------------------------------
def oracle_one(ctx, fn, c, origin):
    area, gmax, dgdt, dt = c["area"], c["gmax"], c["dgdt"], c["dt"]
    case = dict(fn=fn, case={k: c[k] for k in ("area", "gmax", "dgdt", "dt")})
    f = tg().trap_grad if fn == "trap" else tg().min_trap_grad
    name = "trap_grad" if fn == "trap" else "min_trap_grad"
    try:
        w, r = f(area, gmax, dgdt, dt)
        w = np.asarray(w, dtype=float)
        if w.ndim != 2 or w.shape[0] != 1 or w.shape[1] < 3:
            raise ValueError("bad shape %s" % (w.shape,))
        w = w[0]
    except Exception as e:  # a positive request must be served
        key = "C20:%s:raises" % name
        if fn == "mintrap":
            p = max(min_hint(c), 0)
            a_, g_, s_, d_ = exact_params(c)
            nfl = p
            if p > 0 and a_ / p / d_ > g_:
                nfl = math.ceil(a_ / g_ / d_)
            if nfl == 0:
                key = "C20:min_trap_grad:zero-flat-points"
            elif nfl == 1:
                key = "C20:min_trap_grad:one-flat-point"
        ctx.fail(key, "%s raised %s for positive inputs" % (name, type(e).__name__), case, observed=repr(e),
                 expected="a waveform", origin=origin)
        return False
    ok = True

    def bad(cond, what, obs, exp):
        nonlocal ok
        if cond:
            ok = False
            ctx.fail("C20:%s:%s" % (name, what), "%s violates: %s" % (name, what), case, observed=obs, expected=exp, origin=origin)

    if not np.all(np.isfinite(w)):
        bad(True, "finite", "non-finite samples", "finite waveform")
        return False
    bad(w[0] != 0 or w[-1] != 0, "ends-zero", (float(w[0]), float(w[-1])), (0.0, 0.0))
    if fn == "trap":
        tot = float(np.sum(w)) * dt
    else:
        r = int(r)
        tot = float(np.sum(w[r + 1: len(w) - r - 1])) * dt
        bad(r < 1 or len(w) - 2 * (r + 1) < 1, "layout", (r, len(w)), "ramps and a non-empty flat top")
    bad(abs(tot - area) > RTOL * area, "area", tot, area)
    pk = float(np.max(np.abs(w)))
    bad(pk > gmax * (1 + RTOL), "gmax", pk, gmax)
    sl = float(np.max(np.abs(np.diff(w)))) / dt
    bad(sl > dgdt * (1 + RTOL), "slew", sl, dgdt)
    return ok


def spokes_params(rng):
    n = rng.randint(1, 8)
    kmax = logu(rng, 0.02, 1.5)
    k = np.array([[rng.uniform(-kmax, kmax), rng.uniform(-kmax, kmax)] for _ in range(n)])
    if rng.random() < 0.4:
        k[0] = 0
    if n > 1 and rng.random() < 0.4:   # repeated coordinate -> no blip on that axis
        j = rng.randrange(1, n)
        k[j, rng.randrange(2)] = k[j - 1, rng.randrange(2)] if rng.random() < 0.5 else k[j - 1, 0]
        k[j, 0] = k[j - 1, 0]
    return dict(k=k.tolist(), tbw=rng.choice([2, 4, 6, 8]), sl_thick=rng.uniform(2, 10), gmax=rng.uniform(1, 8),
                dgdt=logu(rng, 4e3, 2e4), dt=rng.choice([2e-6, 4e-6, 1e-5]))


def oracle_spokes(ctx, c, origin):
    T = tg()
    k = np.array(c["k"], dtype=float).reshape(-1, 2)
    gmax, dgdt, dt = c["gmax"], c["dgdt"], c["dt"]
    area = c["tbw"] / (c["sl_thick"] / 10) / 4257
    try:
        sub, _ = T.min_trap_grad(area, gmax, dgdt, dt)
        nsub = np.size(sub)
        dk = np.stack([np.diff(np.concatenate((k[:, a], [0.0]))) for a in (0, 1)])
        for v in np.abs(dk).ravel():
            if v > 0 and np.size(T.trap_grad(v / 4257, gmax, dgdt, dt)[0]) > nsub:
                # outside the domain (a blip is played during one slice-select lobe): nothing is demanded; what the real
                # code does there is recorded as an observation
                try:
                    T.spokes_grad(k, c["tbw"], c["sl_thick"], gmax, dgdt, dt)
                    ctx.count("oracle:spokes:outside-domain:returns-with-overwritten-samples")
                except ValueError:
                    ctx.count("oracle:spokes:outside-domain:vstack-raises-ValueError")
                except Exception as e:  # noqa
                    ctx.count("oracle:spokes:outside-domain:raises-%s" % type(e).__name__)
                return True
    except Exception:
        return True               # sub-designer failures are reported by their own oracle
    try:
        g = np.asarray(T.spokes_grad(k, c["tbw"], c["sl_thick"], gmax, dgdt, dt), dtype=float)
    except Exception as e:
        ctx.fail("C20:spokes_grad:raises", "spokes_grad raised %s" % type(e).__name__, c, observed=repr(e), expected="waveforms", origin=origin)
        return False
    ok = True

    def bad(cond, what, obs, exp):
        nonlocal ok
        if cond:
            ok = False
            ctx.fail("C20:spokes_grad:%s" % what, "spokes_grad violates: %s" % what, c, observed=obs, expected=exp, origin=origin)

    bad(g.ndim != 2 or g.shape[0] != 3 or g.shape[1] < len(k) * nsub, "shape", g.shape, "(3, Nt)")
    if not ok:
        return False
    for ax in range(3):
        w = g[ax]
        bad(w[0] != 0 or w[-1] != 0, "ends-zero", (ax, float(w[0]), float(w[-1])), 0.0)
        pk = float(np.max(np.abs(w)))
        bad(pk > gmax * (1 + RTOL), "gmax", (ax, pk), gmax)
        sl = float(np.max(np.abs(np.diff(w)))) / dt
        bad(sl > dgdt * (1 + RTOL), "slew", (ax, sl), dgdt)
    scale = max(float(np.max(np.abs(k))), float(np.max(np.abs(dk))), 1e-12)
    for ax in range(2):
        for i in range(len(k)):
            inc = 4257 * float(np.sum(g[ax, i * nsub:(i + 1) * nsub])) * dt
            bad(abs(inc - dk[ax, i]) > RTOL * scale, "kspace-increment", (ax, i, inc), float(dk[ax, i]))
        tail = 4257 * float(np.sum(g[ax, len(k) * nsub:])) * dt
        bad(abs(tail) > RTOL * scale, "kspace-increment", (ax, "rephaser", tail), 0.0)
    return ok


def search(ctx, budget):
    rng = ctx.rng
    for d in ctx.disagreements[:100]:
        cc = d["case"]
        if "fn" in cc:
            oracle_one(ctx, cc["fn"], cc["case"], "disagreement")
    # the recorded defect class of the pinned commit stays in the domain
    for c in [dict(area=1e-6, gmax=4.0, dgdt=1e4, dt=1e-4), dict(area=3e-6, gmax=4.0, dgdt=1e4, dt=1e-4),
              dict(area=1e-6, gmax=0.1, dgdt=1e5, dt=1e-5)]:
        ctx.case(("oracle", "mintrap", tuple(c.values())))
        oracle_one(ctx, "mintrap", c, "regression")
    n = int(500 * budget)
    maxlen = 2e5 if budget <= 1 else 3e6
    for fn in ("trap", "mintrap"):
        cases = [rand_case(rng, maxlen) for _ in range(n)] + boundary_cases(rng, maxlen, n)
        if fn == "mintrap":
            cases += small_flat_cases(rng, n // 2)
        for c in cases:
            ctx.case(("oracle", fn, c["area"], c["gmax"], c["dgdt"], c["dt"]))
            ctx.count("oracle:%s:%s" % (fn, c.get("kind", "random")))
            oracle_one(ctx, fn, c, "search")
    if budget > 1:   # a few very long waveforms
        for _ in range(int(budget)):
            c = rand_case(rng, 2e7)
            ctx.count("oracle:trap:long")
            oracle_one(ctx, "trap", c, "search-long")
    for _ in range(int(60 * budget)):
        c = spokes_params(rng)
        ctx.case(("oracle", "spokes", json.dumps(c, sort_keys=True)))
        ctx.count("oracle:spokes")
        oracle_spokes(ctx, c, "search")


def replay(path):
    r = json.load(open(path))
    print(json.dumps(r, indent=1)[:3000])
    if r.get("kind") != "failing-input":
        return 0
    ctx = common.Ctx(PROPERTY, "quick", 0)
    cc = r["case"]
    if "fn" in cc:
        ok = oracle_one(ctx, cc["fn"], cc["case"], "replay")
        if all(v > 0 for v in cc["case"].values()):
            print("model:", ctx.driver([model_line(cc["fn"], cc["case"], [0, 1, 2])])[0][:300])
    else:
        ok = oracle_spokes(ctx, cc, "replay")
    for f in ctx.failures:
        print("  ", f["key"], f["what"], "observed", f["observed"], "expected", f["expected"])
    print("replay:", "property holds on this input" if ok else "property FAILS on this input")
    return 0 if ok else 1
